# /verif/Makefile — builds the real cjet daemon (unmodified sources from $(REPO)) against the simulated kernel.
REPO  ?= /repo
BUILD ?= /verif/build
GEN    = $(BUILD)/gen
CC     = gcc
SAN    = -fsanitize=address,undefined -fno-sanitize-recover=undefined -fno-omit-frame-pointer
DFLAGS = -O1 -g $(SAN) -U_FORTIFY_SOURCE -fno-common -MMD -MP
HFLAGS = -std=gnu11 -O1 -g $(SAN) -Wall -Wextra -Wno-unused-parameter -Wno-format-truncation -MMD -MP -I/verif/simk -I/verif/third_party/cJSON -include /verif/third_party/cJSON/oj_rename.h
VARIANTS = def tiny cap local
SYMS   = /verif/simk/redefine.syms

CJET_FILES = alloc authenticate base64 buffered_socket compression config element fetch groups \
  http-parser/http_parser http_connection http_server info jet_string json/cJSON parse peer response \
  router sha1/sha1 socket_peer table timer utf8_checker websocket websocket_peer
CJET_LINUX = linux/eventloop_epoll linux/jet_endian linux/jet_string linux/linux_io linux/random linux/timer_linux
CJET_POSIX = posix/auth_file posix/jet_string posix/log posix/main posix/socket
CJET_ZLIB  = zlib/adler32 zlib/deflate zlib/inffast zlib/inflate zlib/inftrees zlib/trees zlib/zutil

HARNESS_SRC = $(wildcard /verif/simk/*.c) $(wildcard /verif/drivers/*.c) /verif/third_party/cJSON/cJSON.c

.PHONY: all setup clean mod $(VARIANTS)
all: $(VARIANTS)
setup: all mod
mod:
	$(MAKE) -C /verif/mod all REPO=$(REPO) BUILD=$(BUILD)

flat = $(subst /,_,$(1))

define VARIANT_RULES
$(1): $(BUILD)/$(1)/cjet_sim

$(GEN)/$(1)/generated/cjet_config.h: $(REPO)/src/cjet_config.h.in $(REPO)/src/linux/config/os_config.h.in $(REPO)/src/version.h.in /verif/tools/genconfig.py
	python3 /verif/tools/genconfig.py $(REPO) $(1) $(GEN)/$(1)
	@touch $$@

$(BUILD)/$(1)/obj/.dir:
	mkdir -p $(BUILD)/$(1)/obj $(BUILD)/$(1)/h && touch $$@

DOBJ_$(1) = $(foreach f,$(CJET_FILES) $(CJET_LINUX) $(CJET_POSIX) $(CJET_ZLIB),$(BUILD)/$(1)/obj/$(call flat,$(f)).o)
HOBJ_$(1) = $(foreach f,$(HARNESS_SRC),$(BUILD)/$(1)/h/$(basename $(notdir $(f))).o)

$(BUILD)/$(1)/cjet_sim: $$(DOBJ_$(1)) $$(HOBJ_$(1))
	$(CC) $(SAN) -o $$@ $$(DOBJ_$(1)) $$(HOBJ_$(1)) -lm -lcrypt -lpthread

$(foreach f,$(CJET_FILES),$(eval $(call DRULE,$(1),$(f),-std=c99)))
$(foreach f,$(CJET_LINUX),$(eval $(call DRULE,$(1),$(f),-std=c99 -D_GNU_SOURCE)))
$(foreach f,$(CJET_POSIX),$(eval $(call DRULE,$(1),$(f),-std=c99 -D_XOPEN_SOURCE=500 -Dmain=cjet_main)))
$(foreach f,$(CJET_ZLIB),$(eval $(call DRULE,$(1),$(f),-std=c99 -DNO_GZIP)))
$(foreach f,$(HARNESS_SRC),$(eval $(call HRULE,$(1),$(f))))
endef

# daemon object: compile from the repo's working tree, then redirect its libc references to the simulated kernel
define DRULE
$(BUILD)/$(1)/obj/$(call flat,$(2)).o: $(REPO)/src/$(2).c $(GEN)/$(1)/generated/cjet_config.h $(SYMS) $(BUILD)/$(1)/obj/.dir
	@$(CC) $(3) $(DFLAGS) -I$(REPO)/src -I$(GEN)/$(1) -c $$< -o $$@.tmp.o
	@objcopy --redefine-syms=$(SYMS) $$@.tmp.o $$@ && rm -f $$@.tmp.o && if [ -f $$@.tmp.d ]; then sed 's#\.tmp\.o:#:#' $$@.tmp.d > $(BUILD)/$(1)/obj/$(call flat,$(2)).d; rm -f $$@.tmp.d; fi
endef

define HRULE
$(BUILD)/$(1)/h/$(basename $(notdir $(2))).o: $(2) $(GEN)/$(1)/generated/cjet_config.h $(BUILD)/$(1)/obj/.dir
	$(CC) $(HFLAGS) -DSIM_VARIANT=\"$(1)\" -I$(GEN)/$(1) -c $$< -o $$@
endef

$(foreach v,$(VARIANTS),$(eval $(call VARIANT_RULES,$(v))))

-include $(wildcard $(BUILD)/*/obj/*.d) $(wildcard $(BUILD)/*/h/*.d)

clean:
	rm -rf $(BUILD)
