/*
 * C10 driver: command line, tiers/sections, result JSON, replay files.
 * The engines (c10_bsock.c, one per write-buffer size) run the REAL
 * buffered_socket.c + posix/socket.c.
 */
#define _GNU_SOURCE
#include <errno.h>
#include <stdarg.h>
#include <stdint.h>
#include <stdio.h>
#include <stdlib.h>
#include <string.h>
#include <sys/stat.h>
#include <time.h>

#include "c10_common.h"

/* log stubs for the real code (buffered_socket.c, alloc.c) */
void log_err(const char *format, ...);
void log_warn(const char *format, ...);
void log_info(const char *format, ...);
void log_err(const char *format, ...) { (void)format; }
void log_warn(const char *format, ...) { (void)format; }
void log_info(const char *format, ...) { (void)format; }

static double now_s(void)
{
	struct timespec ts;
	clock_gettime(CLOCK_MONOTONIC, &ts);
	return ts.tv_sec + ts.tv_nsec * 1e-9;
}

static void die(const char *fmt, ...)
{
	va_list ap;
	va_start(ap, fmt);
	fprintf(stderr, "c10: internal harness error: ");
	vfprintf(stderr, fmt, ap);
	fprintf(stderr, "\n");
	va_end(ap);
	exit(2);
}

static void json_str(FILE *f, const char *s)
{
	fputc('"', f);
	for (; *s; s++) {
		unsigned char ch = (unsigned char)*s;
		if (ch == '"' || ch == '\\')
			fprintf(f, "\\%c", ch);
		else if (ch == '\n')
			fputs("\\n", f);
		else if (ch < 0x20)
			fprintf(f, "\\u%04x", ch);
		else
			fputc(ch, f);
	}
	fputc('"', f);
}

typedef int (*explore_fn)(const struct c10_cfg *, struct c10_result *);
typedef int (*replay_fn)(const char *, FILE *, char (*)[128], int);

struct section {
	char name[160];
	const char *variant;
	struct c10_cfg cfg;
	struct c10_result res;
	int observational; /* findings go to "observations", not "violations" */
	int crosscheck;    /* compare with the previous section (memo on/off) */
	double secs;
};

static void shapes_w16(struct c10_cfg *cfg, int subset)
{
	static const int prefixes[] = {1, 4};
	static const int payloads[] = {0, 1, 5, 11, 12, 13, 14, 17};
	cfg->nshapes = 0;
	if (subset) {
		static const struct c10_shape sub[] = {{1, 5}, {4, 12}, {4, 14}, {1, 17}};
		for (unsigned i = 0; i < sizeof(sub) / sizeof(sub[0]); i++)
			cfg->shapes[cfg->nshapes++] = sub[i];
		return;
	}
	for (unsigned p = 0; p < 2; p++)
		for (unsigned q = 0; q < sizeof(payloads) / sizeof(payloads[0]); q++) {
			cfg->shapes[cfg->nshapes].prefix = prefixes[p];
			cfg->shapes[cfg->nshapes].payload = payloads[q];
			cfg->nshapes++;
		}
}

static void shapes_big(struct c10_cfg *cfg, int B, int subset)
{
	if (subset) {
		const struct c10_shape sub[] = {{4, 6}, {4, B / 2 - 4}, {4, B - 10 - 4}, {1, B - 1}};
		cfg->nshapes = 0;
		for (unsigned i = 0; i < sizeof(sub) / sizeof(sub[0]); i++)
			cfg->shapes[cfg->nshapes++] = sub[i];
		return;
	}
	/* totals B-1, B, B+1; a small frame s=10 and B-s-1, B-s, B-s+1 (two-frame sums at the boundary); two halves; payload B and B+1 */
	const struct c10_shape sh[] = {
		{4, 6},          {4, B / 2 - 4},  {4, B - 10 - 5}, {4, B - 10 - 4}, {4, B - 10 - 3},
		{4, B - 1 - 4},  {4, B - 4},      {4, B + 1 - 4},  {1, B - 1},      {4, B},          {4, B + 1},
	};
	cfg->nshapes = 0;
	for (unsigned i = 0; i < sizeof(sh) / sizeof(sh[0]); i++)
		cfg->shapes[cfg->nshapes++] = sh[i];
}

static uint64_t fnv_str(const char *s)
{
	uint64_t h = 0xcbf29ce484222325ULL;
	for (; *s; s++) {
		h ^= (unsigned char)*s;
		h *= 0x100000001b3ULL;
	}
	return h;
}

static replay_fn replay_for(const char *text)
{
	const char *v = strstr(text, "variant ");
	if (v && strncmp(v + 8, "w5120", 5) == 0)
		return c10_replay_w5120;
	return c10_replay_w16;
}

static int run_replay_text(const char *text, FILE *out, char keys[][128], int maxkeys)
{
	return replay_for(text)(text, out, keys, maxkeys);
}

static int reproduces(const char *text, const char *key)
{
	FILE *nul = fopen("/dev/null", "w");
	if (!nul)
		die("cannot open /dev/null");
	char keys[32][128];
	int n = run_replay_text(text, nul, keys, 32);
	fclose(nul);
	for (int i = 0; i < n; i++)
		if (strcmp(keys[i], key) == 0)
			return 1;
	return 0;
}

struct outviol {
	char key[160];
	char msg[2200];
	char path[256];
	int depth;
	long weight;
	int observational;
};

static int ov_cmp(const void *a, const void *b)
{
	const struct outviol *x = a, *y = b;
	if (x->depth != y->depth)
		return x->depth - y->depth;
	if (x->weight != y->weight)
		return x->weight < y->weight ? -1 : 1;
	return strcmp(x->key, y->key);
}

int main(int argc, char **argv)
{
	const char *tier = NULL, *outpath = NULL, *replay = NULL;
	int jobs = 16, verbose = 0, only = -1;
	const char *replay_dir = "/verif/replays";
	double deadline_s = 0;
	for (int i = 1; i < argc; i++) {
		if (!strcmp(argv[i], "--tier") && i + 1 < argc)
			tier = argv[++i];
		else if (!strcmp(argv[i], "--out") && i + 1 < argc)
			outpath = argv[++i];
		else if (!strcmp(argv[i], "--jobs") && i + 1 < argc)
			jobs = atoi(argv[++i]);
		else if (!strcmp(argv[i], "--deadline") && i + 1 < argc)
			deadline_s = atof(argv[++i]);
		else if (!strcmp(argv[i], "--replay") && i + 1 < argc)
			replay = argv[++i];
		else if (!strcmp(argv[i], "--verbose"))
			verbose = 1;
		else if (!strcmp(argv[i], "--replay-dir") && i + 1 < argc) /* for mutation runs on scratch copies */
			replay_dir = argv[++i];
		else if (!strcmp(argv[i], "--only") && i + 1 < argc) /* development aid: run one section */
			only = atoi(argv[++i]);
		else {
			fprintf(stderr, "usage: c10 --tier quick|thorough --out result.json [--jobs N] [--deadline S] | --replay file\n");
			return 2;
		}
	}
	if (replay) {
		FILE *f = fopen(replay, "r");
		if (!f) {
			fprintf(stderr, "c10: cannot read %s\n", replay);
			return 2;
		}
		char *text = calloc(1, 1 << 20);
		size_t n = fread(text, 1, (1 << 20) - 1, f);
		text[n] = 0;
		fclose(f);
		char keys[32][128];
		int nk = run_replay_text(text, stdout, keys, 32);
		free(text);
		if (nk < 0)
			return 2;
		return nk ? 1 : 0;
	}
	if (!tier || !outpath || (strcmp(tier, "quick") && strcmp(tier, "thorough"))) {
		fprintf(stderr, "usage: c10 --tier quick|thorough --out result.json [--jobs N] [--deadline S] | --replay file\n");
		return 2;
	}
	if (jobs < 1)
		jobs = 1;
	int thorough = !strcmp(tier, "thorough");
	double t0 = now_s();
	double deadline = deadline_s > 0 ? t0 + deadline_s : 0;
	int B = c10_bufsize_w5120();

	struct section *sec = calloc(12, sizeof(*sec));
	int nsec = 0;
#define BASE(s, nm, var)                  \
	do {                                  \
		memset((s), 0, sizeof(*(s)));     \
		snprintf((s)->name, sizeof((s)->name), "%s", nm); \
		(s)->variant = var;               \
		(s)->cfg.section = (s)->name;     \
		(s)->cfg.sticky_error = 1;        \
		(s)->cfg.memo = 1;                \
		(s)->cfg.jobs = jobs;             \
		(s)->cfg.deadline = deadline;     \
		(s)->cfg.verbose = verbose;       \
	} while (0)

	struct section *s;
	/* main search, 16-byte write buffer */
	s = &sec[nsec++];
	BASE(s, thorough ? "w16: <=3 frames, callbacks to fixpoint, every kernel answer" : "w16: <=2 frames, callbacks to fixpoint, every kernel answer", "w16");
	s->cfg.max_frames = thorough ? 3 : 2;
	shapes_w16(&s->cfg, 0);

	/* memo cross-check: same bound with and without intra-operation merging */
	s = &sec[nsec++];
	BASE(s, "w16 cross-check A: <=1 frame, merging of equal intermediate code states ON", "w16");
	s->cfg.max_frames = 1;
	shapes_w16(&s->cfg, thorough ? 0 : 1);
	s = &sec[nsec++];
	BASE(s, "w16 cross-check B: <=1 frame, merging OFF (every answer sequence run separately)", "w16");
	s->cfg.max_frames = 1;
	s->cfg.memo = 0;
	s->crosscheck = 1;
	shapes_w16(&s->cfg, thorough ? 0 : 1);

	if (thorough) {
		s = &sec[nsec++];
		BASE(s, "w16 cross-check C: <=2 frames of 4 shapes, merging ON", "w16");
		s->cfg.max_frames = 2;
		shapes_w16(&s->cfg, 1);
		s = &sec[nsec++];
		BASE(s, "w16 cross-check D: <=2 frames of 4 shapes, merging OFF", "w16");
		s->cfg.max_frames = 2;
		s->cfg.memo = 0;
		s->crosscheck = 1;
		shapes_w16(&s->cfg, 1);

		s = &sec[nsec++];
		char nm[160];
		snprintf(nm, sizeof(nm), "w5120: real %d-byte buffer, 11 boundary frame shapes, <=2 frames, reduced kernel answers", B);
		BASE(s, nm, "w5120");
		s->cfg.max_frames = 2;
		s->cfg.reduced_answers = 1;
		s->cfg.short_budget = 3;
		s->cfg.path_short_budget = 3;
		shapes_big(&s->cfg, B, 0);

		s = &sec[nsec++];
		snprintf(nm, sizeof(nm), "w5120: real %d-byte buffer, <=3 frames of 4 shapes (small, half, B-14, B), reduced kernel answers", B);
		BASE(s, nm, "w5120");
		s->cfg.max_frames = 3;
		s->cfg.reduced_answers = 1;
		s->cfg.short_budget = 3;
		s->cfg.path_short_budget = 3;
		shapes_big(&s->cfg, B, 1);

		s = &sec[nsec++];
		BASE(s, "w16 transient hard error (ENOBUFS, socket usable afterwards), <=2 frames [observational]", "w16");
		s->cfg.max_frames = 2;
		s->cfg.sticky_error = 0;
		s->observational = 1;
		shapes_w16(&s->cfg, 0);
	}

	int exhaustive = 1;
	for (int i = 0; i < nsec; i++) {
		double ts = now_s();
		explore_fn fn = strcmp(sec[i].variant, "w5120") == 0 ? c10_explore_w5120 : c10_explore_w16;
		if (only >= 0 && i != only && !(sec[i].crosscheck && i - 1 == only) && !(i + 1 < nsec && sec[i + 1].crosscheck && i + 1 == only)) {
			sec[i].res.exhaustive = 0;
			exhaustive = 0;
			continue;
		}
		if (deadline > 0 && now_s() > deadline) {
			sec[i].res.exhaustive = 0;
			exhaustive = 0;
			continue;
		}
		fn(&sec[i].cfg, &sec[i].res);
		sec[i].secs = now_s() - ts;
		if (!sec[i].res.exhaustive)
			exhaustive = 0;
		if (verbose)
			fprintf(stderr, "c10: section '%s': %llu states, %llu transitions, %d violation keys, %.1fs\n", sec[i].name,
			        (unsigned long long)sec[i].res.states, (unsigned long long)sec[i].res.transitions, sec[i].res.nviol,
			        sec[i].secs);
		if (sec[i].crosscheck && sec[i].res.exhaustive && sec[i - 1].res.exhaustive) {
			const struct c10_result *a = &sec[i - 1].res, *b = &sec[i].res;
			int same = a->states == b->states && a->set_hash == b->set_hash && a->nviol == b->nviol;
			for (int k = 0; same && k < a->nviol; k++) {
				int found = 0;
				for (int m = 0; m < b->nviol; m++)
					if (!strcmp(a->viol[k].key, b->viol[m].key) && a->viol[k].consequence == b->viol[m].consequence)
						found = 1;
				same = found;
			}
			if (!same)
				die("memo cross-check failed: merged search %llu states / %d keys, unmerged %llu states / %d keys",
				    (unsigned long long)a->states, a->nviol, (unsigned long long)b->states, b->nviol);
		}
	}

	/* collect violations: one entry per key; prefer the replay that shows the peer-visible consequence */
	struct outviol *ov = calloc(C10_MAXVIOL * 8, sizeof(*ov));
	int nov = 0;
	mkdir(replay_dir, 0777);
	for (int i = 0; i < nsec; i++) {
		struct c10_result *r = &sec[i].res;
		for (int k = 0; k < r->nviol; k++) {
			struct c10_viol *v = &r->viol[k];
			if (v->consequence)
				continue;
			struct c10_viol *cons = NULL;
			for (int m = 0; m < r->nviol; m++)
				if (r->viol[m].consequence && !strcmp(r->viol[m].key, v->key))
					cons = &r->viol[m];
			int dup = 0;
			for (int m = 0; m < nov; m++) {
				if (!strcmp(ov[m].key, v->key))
					dup = 1;
				/* an observational finding that merely repeats a reported class is not listed again */
				size_t kl = strlen(ov[m].key);
				if (sec[i].observational && !ov[m].observational && !strncmp(ov[m].key, v->key, kl) && v->key[kl] == '+')
					dup = 1;
			}
			if (dup)
				continue;
			struct c10_viol *use = cons ? cons : v;
			/* reproduce twice */
			for (int rep = 0; rep < 2; rep++)
				if (!reproduces(use->replay, v->key))
					die("violation %s does not reproduce from its replay", v->key);
			struct outviol *o = &ov[nov++];
			snprintf(o->key, sizeof(o->key), "%s", v->key);
			if (cons)
				snprintf(o->msg, sizeof(o->msg), "%s || shortest path with peer-visible damage (%d ops): %s", v->msg, cons->depth,
				         cons->msg);
			else
				snprintf(o->msg, sizeof(o->msg), "%s", v->msg);
			o->depth = use->depth;
			o->weight = use->weight;
			o->observational = sec[i].observational;
			snprintf(o->path, sizeof(o->path), "%s/C10-%012llx.txt", replay_dir,
			         (unsigned long long)(fnv_str(use->replay) & 0xffffffffffffULL));
			FILE *rf = fopen(o->path, "w");
			if (!rf)
				die("cannot write %s: %s", o->path, strerror(errno));
			fputs(use->replay, rf);
			fclose(rf);
		}
		/* consequences without a first-detection entry cannot happen (taint implies detection) */
	}
	qsort(ov, (size_t)nov, sizeof(*ov), ov_cmp);

	uint64_t states = 0, transitions = 0, evaluations = 0, nontrivial = 0;
	for (int i = 0; i < nsec; i++) {
		const struct c10_result *r = &sec[i].res;
		states += r->states;
		transitions += r->transitions;
		evaluations += r->transitions + r->drains;
		nontrivial += r->nontrivial;
	}

	FILE *f = fopen(outpath, "w");
	if (!f)
		die("cannot write %s", outpath);
	fprintf(f, "{\n  \"property_id\": \"C10\",\n  \"tier\": \"%s\",\n", tier);
	fprintf(f, "  \"states\": %llu,\n  \"transitions\": %llu,\n  \"evaluations\": %llu,\n  \"distinct_nontrivial\": %llu,\n",
	        (unsigned long long)states, (unsigned long long)transitions, (unsigned long long)evaluations,
	        (unsigned long long)nontrivial);
	fprintf(f, "  \"traces_validated_against_impl\": %llu,\n  \"exhaustive\": %s,\n", (unsigned long long)transitions,
	        exhaustive ? "true" : "false");
	fprintf(f, "  \"wall_seconds\": %.1f,\n", now_s() - t0);
	fprintf(f, "  \"rule\": ");
	json_str(f, "Level-synchronous breadth-first explicit-state search on the real buffered_socket.c + posix/socket.c. A state is "
	            "(to_write, write buffer bytes, ledger of submitted frames with their return values, parse position of the kernel "
	            "stream, dead/closed flags), deduplicated on its canonical bytes until no new state appears. From every state every "
	            "operation is applied: buffered_socket_writev of every frame shape (while fewer than max frames were submitted), the "
	            "writability callback, a read event, an error event. Inside an operation EVERY wrapped writev call is a choice point "
	            "over accept k bytes for every k in 1..offered, EAGAIN and a hard error; all answer sequences are enumerated by "
	            "re-execution (equal intermediate code states inside one operation are merged; cross-checked against the unmerged "
	            "enumeration). A transition = one (state, operation, kernel-answer sequence) executed on the real code and checked; "
	            "it is non-trivial when it contained a short write, EAGAIN, hard error or a -1 return. After every writev/flush "
	            "transition the buffer is additionally flushed on a copy with an all-accepting kernel and the total stream compared "
	            "with the concatenation of accepted frames.");
	fprintf(f, ",\n  \"bounds\": {\"w16_frames\": %d, \"w16_shapes\": \"prefix {1,4} x payload {0,1,5,11,12,13,14,17}\", "
	           "\"writability_callbacks\": \"unbounded (fixpoint; superset of <=3)\", \"kernel_answers_w16\": \"every k in 1..offered, EAGAIN, EPIPE at every writev call\", "
	           "\"w5120\": \"%s\", \"jobs\": %d},\n",
	        thorough ? 3 : 2,
	        thorough ? "real buffer; totals B-1,B,B+1 and two/three-frame sums at the boundary; answers {1, each iovec boundary -1/0/+1, total-1, total, EAGAIN, EPIPE}; at most 3 short writes per path, then {all,EAGAIN,EPIPE}"
	                 : "not in quick tier",
	        jobs);
	fprintf(f, "  \"caps_hit\": [%s],\n", exhaustive ? "" : "\"deadline\"");
	fprintf(f, "  \"sections\": [\n");
	for (int i = 0; i < nsec; i++) {
		const struct c10_result *r = &sec[i].res;
		fprintf(f, "    {\"name\": ");
		json_str(f, sec[i].name);
		fprintf(f, ", \"bufsize\": %d, \"cases\": %llu, \"states\": %llu, \"levels\": %d, \"pruned_reexecutions\": %llu, "
		           "\"flush_checks\": %llu, \"nontrivial\": %llu, \"read_events\": %llu, \"error_events\": %llu, "
		           "\"clean_refusals\": %llu, \"dirty_refusals\": %llu, \"hard_error_transitions\": %llu, "
		           "\"hard_error_with_partial_frame_then_dead_socket\": %llu, \"seconds\": %.1f, \"exhaustive\": %s}%s\n",
		        r->bufsize, (unsigned long long)r->transitions, (unsigned long long)r->states, r->levels,
		        (unsigned long long)r->pruned, (unsigned long long)r->drains, (unsigned long long)r->nontrivial,
		        (unsigned long long)r->read_events, (unsigned long long)r->error_events,
		        (unsigned long long)r->refusals_clean, (unsigned long long)r->refusals_dirty,
		        (unsigned long long)r->hard_errors, (unsigned long long)r->hard_error_partial_frame, sec[i].secs,
		        r->exhaustive ? "true" : "false", i + 1 < nsec ? "," : "");
	}
	fprintf(f, "  ],\n  \"samples\": [\n");
	int first = 1;
	for (int i = 0; i < nsec; i++)
		for (int k = 0; k < sec[i].res.nsamples && k < 3; k++) {
			if (sec[i].crosscheck || sec[i].cfg.max_frames == 1)
				continue;
			fprintf(f, "%s    ", first ? "" : ",\n");
			json_str(f, sec[i].res.samples[k * 2 < sec[i].res.nsamples ? k * 2 : k]);
			first = 0;
		}
	fprintf(f, "\n  ],\n  \"assumptions\": [\n");
	const char *assume[] = {
		"writev/read/close of posix/socket.c are redirected to the harness (objcopy --redefine-sym); everything else is the unmodified code.",
		"The kernel never answers 0 to a writev with a non-zero byte count (k ranges over 1..offered).",
		"Hard error = EPIPE and is sticky: after it every further writev on that socket fails too (a dead socket); the stream may then end inside a frame because the event loop reports the error and buffered_socket's error callback closes the connection. Such situations are counted (hard_error_with_partial_frame_then_dead_socket), not reported.",
		"A -1 from buffered_socket_writev does NOT close the connection: buffered_socket_writev never calls the error callback, and the callers that write to OTHER peers only propagate the error (fetch.c:498 notify_fetching_peer, element.c:365 routed call, router.c:164/268 routed response, websocket.c:959 send_frame, socket_peer.c:120 send_message). Only a failed response to the requesting peer itself ends that peer (parse.c:140 -> socket_peer.c:71 free_jet_peer). The harness therefore keeps the connection open after -1, as the daemon does for subscriber/owner peers.",
		"Merging inside one operation assumes the code's future behaviour depends only on the struct buffered_socket memory and the arguments of the current writev call (checked by the unmerged cross-check section).",
		"Unused write-buffer bytes are poisoned with 0x0e so that any stale byte reaching the kernel is recognised as garbage.",
		"The section with a transient hard error (ENOBUFS, socket usable afterwards) is observational: whether a kernel can fail one writev and accept later ones is an environment question; its findings are listed under observations.",
	};
	for (unsigned i = 0; i < sizeof(assume) / sizeof(assume[0]); i++) {
		fprintf(f, "    ");
		json_str(f, assume[i]);
		fprintf(f, "%s\n", i + 1 < sizeof(assume) / sizeof(assume[0]) ? "," : "");
	}
	fprintf(f, "  ],\n  \"observations\": [\n");
	first = 1;
	for (int i = 0; i < nov; i++) {
		if (!ov[i].observational)
			continue;
		fprintf(f, "%s    {\"key\": ", first ? "" : ",\n");
		json_str(f, ov[i].key);
		fprintf(f, ", \"message\": ");
		json_str(f, ov[i].msg);
		fprintf(f, ", \"replay\": ");
		json_str(f, ov[i].path);
		fprintf(f, "}");
		first = 0;
	}
	fprintf(f, "\n  ],\n  \"violations\": [\n");
	first = 1;
	int nrep = 0;
	for (int i = 0; i < nov && nrep < 20; i++) {
		if (ov[i].observational)
			continue;
		fprintf(f, "%s    {\"key\": ", first ? "" : ",\n");
		json_str(f, ov[i].key);
		fprintf(f, ", \"message\": ");
		json_str(f, ov[i].msg);
		fprintf(f, ", \"replay\": ");
		json_str(f, ov[i].path);
		fprintf(f, "}");
		first = 0;
		nrep++;
	}
	fprintf(f, "\n  ]\n}\n");
	fclose(f);
	for (int i = 0; i < nsec; i++) {
		for (int k = 0; k < sec[i].res.nviol; k++)
			free(sec[i].res.viol[k].replay);
		for (int k = 0; k < sec[i].res.nsamples; k++)
			free(sec[i].res.samples[k]);
	}
	free(sec);
	free(ov);
	return 0;
}
