/*
 * C18 harness plumbing: result accumulation, violation table (minimal case per
 * key, every violation reproduced twice), fork-based parallel runner, deadline.
 */
#ifndef C18_RUN_H
#define C18_RUN_H

#include <sys/types.h>
#include <sys/wait.h>
#include <time.h>
#include <unistd.h>

#include "c18_core.h"

#define MAXV 40
#define SUSPECT_CAP 2000000u

struct viol { char key[160]; char msg[400]; struct kase k; };
struct res {
	uint64_t cases;       /* cases judged */
	uint64_t calls;       /* calls into the real module */
	uint64_t nontrivial;
	uint64_t states;
	uint64_t late;        /* byte-wise machine accepted a byte the reference already rejects (allowed if it rejects later) */
	uint64_t suspects;
	int nviol;
	int key_overflow;
	int suspects_capped;
	int complete;         /* 1 = enumerated everything it was asked to */
	int harness_error;
	char err[240];
	struct viol v[MAXV];
};

static double now_s(void)
{
	struct timespec ts;
	clock_gettime(CLOCK_MONOTONIC, &ts);
	return (double)ts.tv_sec + (double)ts.tv_nsec * 1e-9;
}
static double g_deadline_at = 0; /* 0 = none */
static inline bool expired(void) { return g_deadline_at > 0 && now_s() > g_deadline_at; }

static void res_error(struct res *r, const char *fmt, ...)
{
	if (r->harness_error) return;
	r->harness_error = 1;
	va_list ap;
	va_start(ap, fmt);
	vsnprintf(r->err, sizeof(r->err), fmt, ap);
	va_end(ap);
}

static void res_add_viol(struct res *r, const struct viol *nv)
{
	for (int i = 0; i < r->nviol; i++) {
		if (!strcmp(r->v[i].key, nv->key)) {
			if (kase_cmp(&nv->k, &r->v[i].k) < 0) r->v[i] = *nv;
			return;
		}
	}
	if (r->nviol >= MAXV) { r->key_overflow = 1; return; }
	r->v[r->nviol++] = *nv;
}

/* A sweep found something its cheap pre-filter cannot explain: judge it with the
 * one oracle (run_case), twice, and record it if it is a violation. */
static void suspect(struct res *r, const struct kase *k)
{
	if (r->suspects >= SUSPECT_CAP) { r->suspects_capped = 1; return; }
	r->suspects++;
	struct outcome o1, o2;
	run_case(k, &o1);
	if (!o1.violated) return;
	run_case(k, &o2);
	if (!o2.violated || strcmp(o1.key, o2.key)) {
		res_error(r, "case did not reproduce: %s", o1.key);
		return;
	}
	struct viol nv;
	memset(&nv, 0, sizeof(nv));
	nv.k = *k;
	if (k->ncuts) {
		/* same string fails when presented whole: it is that class, not a chunking failure */
		struct kase w = *k;
		w.ncuts = 0;
		w.cuts[0] = w.cuts[1] = 0;
		run_case(&w, &o2);
		if (o2.violated) {
			run_case(&w, &o1);
			if (!o1.violated || strcmp(o1.key, o2.key)) { res_error(r, "case did not reproduce: %s", o2.key); return; }
			nv.k = w;
		}
	}
	snprintf(nv.key, sizeof(nv.key), "%s", o1.key);
	snprintf(nv.msg, sizeof(nv.msg), "%s", o1.msg);
	res_add_viol(r, &nv);
}

static void res_merge(struct res *t, const struct res *r)
{
	t->cases += r->cases;
	t->calls += r->calls;
	t->nontrivial += r->nontrivial;
	t->states += r->states;
	t->late += r->late;
	t->suspects += r->suspects;
	t->key_overflow |= r->key_overflow;
	t->suspects_capped |= r->suspects_capped;
	if (!r->complete) t->complete = 0;
	if (r->harness_error && !t->harness_error) {
		t->harness_error = 1;
		memcpy(t->err, r->err, sizeof(t->err));
	}
	for (int i = 0; i < r->nviol; i++) res_add_viol(t, &r->v[i]);
}

typedef void (*work_fn)(struct res *r, int job, int njobs, void *arg);

/* Run fn in njobs forked workers, merge their results into *total. */
static void run_parallel(struct res *total, work_fn fn, void *arg, int njobs)
{
	int (*fds)[2] = calloc((size_t)njobs, sizeof(*fds));
	pid_t *pids = calloc((size_t)njobs, sizeof(*pids));
	memset(total, 0, sizeof(*total));
	total->complete = 1;
	fflush(NULL);
	for (int j = 0; j < njobs; j++) {
		if (pipe(fds[j]) != 0) { perror("pipe"); exit(2); }
		pids[j] = fork();
		if (pids[j] < 0) { perror("fork"); exit(2); }
		if (pids[j] == 0) {
			for (int i = 0; i <= j; i++) close(fds[i][0]);
			struct res *r = calloc(1, sizeof(*r));
			r->complete = 1;
			fn(r, j, njobs, arg);
			const char *p = (const char *)r;
			size_t left = sizeof(*r);
			while (left) {
				ssize_t w = write(fds[j][1], p, left);
				if (w < 0) { if (errno == EINTR) continue; _exit(3); }
				p += w;
				left -= (size_t)w;
			}
			_exit(0);
		}
		close(fds[j][1]);
	}
	struct res *r = calloc(1, sizeof(*r));
	for (int j = 0; j < njobs; j++) {
		char *p = (char *)r;
		size_t got = 0;
		while (got < sizeof(*r)) {
			ssize_t n = read(fds[j][0], p + got, sizeof(*r) - got);
			if (n < 0) { if (errno == EINTR) continue; break; }
			if (n == 0) break;
			got += (size_t)n;
		}
		close(fds[j][0]);
		int st = 0;
		waitpid(pids[j], &st, 0);
		if (got != sizeof(*r) || !WIFEXITED(st) || WEXITSTATUS(st) != 0) {
			res_error(total, "worker %d died (status 0x%x, %zu bytes of result): sanitizer report or crash inside the module under test", j, st, got);
			total->complete = 0;
			continue;
		}
		res_merge(total, r);
	}
	free(r);
	free(fds);
	free(pids);
}

/* ---- JSON helpers ---- */
static void json_str(FILE *f, const char *s)
{
	fputc('"', f);
	for (; *s; s++) {
		unsigned char ch = (unsigned char)*s;
		if (ch == '"' || ch == '\\') fprintf(f, "\\%c", ch);
		else if (ch < 0x20) fprintf(f, "\\u%04x", ch);
		else fputc(ch, f);
	}
	fputc('"', f);
}

static uint64_t fnv1a(const char *s)
{
	uint64_t h = 1469598103934665603ULL;
	for (; *s; s++) { h ^= (unsigned char)*s; h *= 1099511628211ULL; }
	return h;
}

#endif
