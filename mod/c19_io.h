/* C19 harness, part 1: allocation accounting, log/random stubs, in-memory buffered_reader. */
#ifndef C19_IO_H
#define C19_IO_H

#ifndef _GNU_SOURCE
#define _GNU_SOURCE
#endif
#include <malloc.h>
#include <stdarg.h>
#include <stdbool.h>
#include <stdint.h>
#include <stdio.h>
#include <stdlib.h>
#include <string.h>
#include <unistd.h>
#include <sys/mman.h>

#include "buffered_reader.h"
#include "jet_random.h"
#include "log.h"

/* ---------- allocation accounting (linked with -Wl,--wrap=malloc,...) ---------- */
void *__real_malloc(size_t n);
void *__real_calloc(size_t a, size_t b);
void *__real_realloc(void *p, size_t n);
void __real_free(void *p);

#define MEM_HARD_CAP ((size_t)256 << 20)
static size_t mem_cur, mem_peak;
static int mem_over;
static int mem_track = 1;

static void mem_add(void *p)
{
	if (p && mem_track) {
		mem_cur += malloc_usable_size(p);
		if (mem_cur > mem_peak) mem_peak = mem_cur;
	}
}
static void mem_sub(void *p)
{
	if (p && mem_track) {
		size_t n = malloc_usable_size(p);
		mem_cur = mem_cur >= n ? mem_cur - n : 0;
	}
}
void *__wrap_malloc(size_t n)
{
	if (n > MEM_HARD_CAP || mem_cur + n > MEM_HARD_CAP) {
		mem_over = 1;
		return NULL;
	}
	void *p = __real_malloc(n);
	mem_add(p);
	return p;
}
void *__wrap_calloc(size_t a, size_t b)
{
	if (b && a > MEM_HARD_CAP / b) {
		mem_over = 1;
		return NULL;
	}
	void *p = __real_calloc(a, b);
	mem_add(p);
	return p;
}
void *__wrap_realloc(void *p, size_t n)
{
	if (n > MEM_HARD_CAP || mem_cur + n > MEM_HARD_CAP + (p ? malloc_usable_size(p) : 0)) {
		mem_over = 1;
		return NULL;
	}
	size_t old = (p && mem_track) ? malloc_usable_size(p) : 0;
	void *q = __real_realloc(p, n);
	if (q || n == 0) {
		mem_cur = mem_cur >= old ? mem_cur - old : 0;
		mem_add(q);
	}
	return q;
}
void __wrap_free(void *p)
{
	mem_sub(p);
	__real_free(p);
}

/* harness-internal allocations are not accounted */
static void *h_malloc(size_t n)
{
	void *p = __real_malloc(n ? n : 1);
	if (!p) {
		fprintf(stderr, "c19: harness out of memory\n");
		_exit(2);
	}
	return p;
}
static void *h_exact(size_t n) /* exact size so that ASan red zones sit right behind the data */
{
	void *p = __real_malloc(n);
	if (!p && n) {
		fprintf(stderr, "c19: harness out of memory\n");
		_exit(2);
	}
	return p;
}
static void *h_realloc(void *p, size_t n)
{
	void *q = __real_realloc(p, n ? n : 1);
	if (!q) {
		fprintf(stderr, "c19: harness out of memory\n");
		_exit(2);
	}
	return q;
}
static void h_free(void *p) { __real_free(p); }

/* ---------- stubs ---------- */
static int g_verbose;
static char g_last_log[256];
static unsigned long g_log_errs;

static void log_any(const char *tag, const char *format, va_list ap)
{
	vsnprintf(g_last_log, sizeof(g_last_log), format, ap);
	size_t l = strlen(g_last_log);
	while (l && (g_last_log[l - 1] == '\n' || g_last_log[l - 1] == ' ')) g_last_log[--l] = 0;
	if (g_verbose) printf("    [%s] %s\n", tag, g_last_log);
}
void log_err(const char *format, ...)
{
	va_list ap;
	va_start(ap, format);
	log_any("log_err", format, ap);
	va_end(ap);
	g_log_errs++;
}
void log_warn(const char *format, ...)
{
	va_list ap;
	va_start(ap, format);
	log_any("log_warn", format, ap);
	va_end(ap);
}
void log_info(const char *format, ...)
{
	va_list ap;
	va_start(ap, format);
	log_any("log_info", format, ap);
	va_end(ap);
}

static uint32_t g_rand_state = 0x1234567u;
void cjet_get_random_bytes(void *bytes, size_t num_bytes)
{
	uint8_t *b = bytes;
	for (size_t i = 0; i < num_bytes; i++) {
		g_rand_state = g_rand_state * 1103515245u + 12345u;
		b[i] = (uint8_t)(g_rand_state >> 16);
	}
}

/* ---------- in-memory buffered_reader ---------- */
enum { OP_NONE, OP_EXACT, OP_UNTIL };
#define MR_MAX_IOV ((size_t)16 << 20)

struct mr {
	uint8_t *in;
	size_t in_len, in_cap, in_pos;
	int op;
	size_t num;
	char delim[8];
	read_handler h;
	void *hctx;
	int in_pump;
	int closed; /* close() was called by the module */
	int dead;   /* a handler returned BS_CLOSED */
	unsigned close_calls;
	uint8_t *out;
	size_t out_len, out_cap;
	int bad_write;
	char bad_msg[160];
	unsigned long handler_calls;
};

static void mr_pump(struct mr *m)
{
	if (m->in_pump) return;
	m->in_pump = 1;
	while (!m->closed && !m->dead && m->op != OP_NONE) {
		size_t avail = m->in_len - m->in_pos;
		size_t take;
		if (m->op == OP_EXACT) {
			if (avail < m->num) break;
			take = m->num;
		} else {
			size_t dl = strlen(m->delim);
			uint8_t *f = memmem(m->in + m->in_pos, avail, m->delim, dl);
			if (!f) break;
			take = (size_t)(f + dl - (m->in + m->in_pos));
		}
		/* hand the bytes over in a heap block of exactly that size: any access beyond
		 * buf[0..len) by the module is an ASan report */
		uint8_t *copy = h_exact(take);
		memcpy(copy, m->in + m->in_pos, take);
		m->in_pos += take;
		m->handler_calls++;
		enum bs_read_callback_return r = m->h(m->hctx, copy, take);
		h_free(copy);
		if (r == BS_CLOSED) {
			m->dead = 1;
			break;
		}
	}
	m->in_pump = 0;
}

static int mr_read_exactly(void *t, size_t num, read_handler h, void *ctx)
{
	struct mr *m = t;
	m->op = OP_EXACT;
	m->num = num;
	m->h = h;
	m->hctx = ctx;
	mr_pump(m);
	return 0;
}
static int mr_read_until(void *t, const char *delim, read_handler h, void *ctx)
{
	struct mr *m = t;
	m->op = OP_UNTIL;
	snprintf(m->delim, sizeof(m->delim), "%s", delim);
	m->h = h;
	m->hctx = ctx;
	mr_pump(m);
	return 0;
}
static int mr_writev(void *t, struct socket_io_vector *iov, unsigned int count)
{
	struct mr *m = t;
	for (unsigned i = 0; i < count; i++) {
		if (iov[i].iov_len > MR_MAX_IOV) {
			if (!m->bad_write) {
				m->bad_write = 1;
				snprintf(m->bad_msg, sizeof(m->bad_msg), "module called writev with iov[%u].iov_len=%zu (0x%zx)", i, iov[i].iov_len,
				         iov[i].iov_len);
			}
			return -1;
		}
	}
	for (unsigned i = 0; i < count; i++) {
		size_t n = iov[i].iov_len;
		if (m->out_len + n > m->out_cap) {
			m->out_cap = (m->out_len + n) * 2 + 64;
			m->out = h_realloc(m->out, m->out_cap);
		}
		if (n) {
			/* copy through an exact-size bounce so that an over-long iov_len is attributed by ASan
			 * to the module's buffer, reading exactly iov_len bytes from iov_base */
			memcpy(m->out + m->out_len, iov[i].iov_base, n);
		}
		m->out_len += n;
	}
	return 0;
}
static int mr_close(void *t)
{
	struct mr *m = t;
	m->closed = 1;
	m->close_calls++;
	return 0;
}
static void mr_set_error_handler(void *t, error_handler h, void *ctx)
{
	(void)t;
	(void)h;
	(void)ctx;
}
static void mr_feed(struct mr *m, const void *data, size_t n)
{
	if (m->in_len + n > m->in_cap) {
		m->in_cap = (m->in_len + n) * 2 + 64;
		m->in = h_realloc(m->in, m->in_cap);
	}
	memcpy(m->in + m->in_len, data, n);
	m->in_len += n;
	mr_pump(m);
}
static void mr_out_reset(struct mr *m) { m->out_len = 0; }
static void mr_free(struct mr *m)
{
	h_free(m->in);
	h_free(m->out);
	m->in = m->out = NULL;
}

#endif
