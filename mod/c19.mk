# C19 - permessage-deflate: negotiation, round trip, corrupt input (module harness)
# make -C /verif/mod c19 [REPO=/tmp/mut-c19 BUILD=/tmp/mut-c19/build]
C19_S = $(REPO)/src
C19_MODSRC = \
	$(C19_S)/websocket.c \
	$(C19_S)/compression.c \
	$(C19_S)/http_connection.c \
	$(C19_S)/http_server.c \
	$(C19_S)/base64.c \
	$(C19_S)/sha1/sha1.c \
	$(C19_S)/utf8_checker.c \
	$(C19_S)/alloc.c \
	$(C19_S)/jet_string.c \
	$(C19_S)/linux/jet_string.c \
	$(C19_S)/posix/jet_string.c \
	$(C19_S)/linux/jet_endian.c \
	$(C19_S)/http-parser/http_parser.c
C19_ZSRC = \
	$(C19_S)/zlib/adler32.c \
	$(C19_S)/zlib/deflate.c \
	$(C19_S)/zlib/inffast.c \
	$(C19_S)/zlib/inflate.c \
	$(C19_S)/zlib/inftrees.c \
	$(C19_S)/zlib/trees.c \
	$(C19_S)/zlib/zutil.c
C19_HDR = $(wildcard $(C19_S)/*.h $(C19_S)/zlib/*.h $(C19_S)/sha1/*.h $(C19_S)/http-parser/*.h)
C19_WRAP = -Wl,--wrap=malloc,--wrap=calloc,--wrap=realloc,--wrap=free

.PHONY: c19
c19: $(OUT)/c19

$(OUT)/c19: /verif/mod/c19_deflate.c /verif/mod/c19_io.h /verif/mod/c19_client.h /verif/mod/c19_cases.h /verif/mod/c19.mk $(C19_MODSRC) $(C19_ZSRC) $(C19_HDR) $(GEN)/def/generated/cjet_config.h | $(OUT)
	$(CC) $(CFLAGS) -fno-sanitize=nonnull-attribute -D_GNU_SOURCE -DC19_SRCROOT=\"$(REPO)/src/\" -DNO_GZIP -I$(C19_S)/zlib -Wno-implicit-fallthrough \
		-o $@ /verif/mod/c19_deflate.c $(C19_MODSRC) $(C19_ZSRC) $(C19_WRAP)
