/*
 * C17 harness search engines: breadth-first fixpoint over canonical table
 * images, bounded exhaustive depth-3 sequences from seeded states on large
 * tables, and the deterministic "leak accumulation" consequence scenario.
 * Included by c17_hashtable.c only.
 */
#ifndef C17_SEARCH_H
#define C17_SEARCH_H

#include <unistd.h>
#include <time.h>

#include "c17_core.h"

static double now_s(void)
{
	struct timespec ts;
	clock_gettime(CLOCK_MONOTONIC, &ts);
	return (double)ts.tv_sec + (double)ts.tv_nsec * 1e-9;
}

static double g_deadline_at; /* absolute, 0 = none */

static int deadline_passed(void)
{
	return g_deadline_at > 0 && now_s() > g_deadline_at;
}

/* ------------------------------------------------------------------ job result channel (child -> parent) */

static int g_out_fd = -1;

static void emit(const char *fmt, ...) __attribute__((format(printf, 1, 2)));
static void emit(const char *fmt, ...)
{
	char *buf = NULL;
	va_list ap;
	int n;
	size_t off = 0;
	va_start(ap, fmt);
	n = vasprintf(&buf, fmt, ap);
	va_end(ap);
	if (n < 0) {
		die("vasprintf");
	}
	while (off < (size_t)n) {
		ssize_t w = write(g_out_fd, buf + off, (size_t)n - off);
		if (w < 0) {
			if (errno == EINTR) {
				continue;
			}
			die("write to parent: %s", strerror(errno));
		}
		off += (size_t)w;
	}
	free(buf);
}

/* a replay text travels on one line: newline -> \x01 */
static void emit_violation(const char *vkey, const char *msg, const char *replay_text, int nops)
{
	char *esc = strdup(replay_text);
	char *p;
	if (esc == NULL) {
		die("out of memory");
	}
	for (p = esc; *p; p++) {
		if (*p == '\n') {
			*p = '\x01';
		}
	}
	emit("V\t%s\t%d\t%s\t%s\n", vkey, nops, msg, esc);
	free(esc);
}

struct jobstat {
	unsigned long long cases, states, transitions, nontrivial, n_displace, n_wrap, n_refused;
	int exhaustive;
	char cap[64];
};

#define MAXJOBVIOL 12
struct jobviol {
	char key[200];
	int nops;
};
static struct jobviol g_jobviol[MAXJOBVIOL];
static int g_njobviol;

/*
 * The operation path currently being executed.  In a job child this lives in
 * memory shared with the parent, so that when the real code kills the process
 * (sanitizer abort, wild pointer) the parent still knows the exact sequence.
 */
struct curstate {
	int have_header;
	char header[8192]; /* replay file text up to and including the key lines */
	unsigned hop, order;
	int lenient;
	int nseed;
	struct op seed[MAXK * 2];
	int npath;
	struct op path[MAXREPLAYOPS];
};
static struct curstate g_cur_static;
static struct curstate *g_cur = &g_cur_static;
static const struct universe *g_cur_u;
#define g_cur_seed (g_cur->seed)
#define g_cur_nseed (g_cur->nseed)
#define g_cur_path (g_cur->path)
#define g_cur_npath (g_cur->npath)
#define g_cur_lenient (g_cur->lenient)

static void cur_begin(const struct universe *u, int lenient)
{
	char note[200];
	g_cur_u = u;
	g_cur->nseed = 0;
	g_cur->npath = 0;
	g_cur->lenient = lenient;
	g_cur->hop = u->in->hop_bits;
	g_cur->order = u->in->order;
	snprintf(note, sizeof(note), "universe '%s'; the process died while the real code executed the last operation below", u->label);
	if (replay_format(g_cur->header, sizeof(g_cur->header), u, NULL, 0, NULL, 0, NULL, note, lenient) >= sizeof(g_cur->header)) {
		die("replay header too large");
	}
	__sync_synchronize();
	g_cur->have_header = 1;
}

static void cur_end(void)
{
	g_cur->have_header = 0;
	__sync_synchronize();
	g_cur_u = NULL;
}

static void report_violation(const struct universe *u, const char *vclass, const char *msg, const struct op *seed, int nseed, const struct op *path, int npath, int lenient)
{
	char vkey[200];
	static char text[65536];
	char note[300];
	int i;
	vkey_format(vkey, sizeof(vkey), vclass, u->in);
	for (i = 0; i < g_njobviol; i++) {
		if (!strcmp(g_jobviol[i].key, vkey)) {
			if (g_jobviol[i].nops <= nseed + npath) {
				return; /* already have one at least as short */
			}
			break;
		}
	}
	if (i == g_njobviol) {
		if (g_njobviol >= MAXJOBVIOL) {
			return;
		}
		g_njobviol++;
	}
	snprintf(g_jobviol[i].key, sizeof(g_jobviol[i].key), "%s", vkey);
	g_jobviol[i].nops = nseed + npath;
	snprintf(note, sizeof(note), "universe '%s'; %s", u->label, msg);
	replay_format(text, sizeof(text), u, seed, nseed, path, npath, vkey, note, lenient);
	emit_violation(vkey, msg, text, nseed + npath);
}

/* ------------------------------------------------------------------ set of canonical states */

struct stateset {
	uint8_t *arena;
	size_t alen, acap;
	uint64_t *off;      /* state -> arena offset */
	uint16_t *len;
	uint32_t *parent;
	struct op *pop;     /* operation that led from parent to this state */
	uint32_t n, cap;
	uint32_t *ht;
	uint32_t htsize;    /* power of two */
};

static uint64_t fnv64(const uint8_t *p, size_t n)
{
	uint64_t h = 0xcbf29ce484222325ULL;
	size_t i;
	for (i = 0; i < n; i++) {
		h ^= p[i];
		h *= 0x100000001b3ULL;
	}
	return h ^ (h >> 29);
}

static void ss_init(struct stateset *s)
{
	memset(s, 0, sizeof(*s));
	s->htsize = 1u << 12;
	s->ht = malloc(sizeof(uint32_t) * s->htsize);
	if (s->ht == NULL) {
		die("out of memory");
	}
	memset(s->ht, 0xff, sizeof(uint32_t) * s->htsize);
}

static void ss_free(struct stateset *s)
{
	free(s->arena);
	free(s->off);
	free(s->len);
	free(s->parent);
	free(s->pop);
	free(s->ht);
	memset(s, 0, sizeof(*s));
}

static void ss_rehash(struct stateset *s)
{
	uint32_t i, nsize = s->htsize * 2;
	uint32_t *nht = malloc(sizeof(uint32_t) * nsize);
	if (nht == NULL) {
		die("out of memory");
	}
	memset(nht, 0xff, sizeof(uint32_t) * nsize);
	for (i = 0; i < s->n; i++) {
		uint32_t h = (uint32_t)fnv64(s->arena + s->off[i], s->len[i]) & (nsize - 1);
		while (nht[h] != 0xffffffffu) {
			h = (h + 1) & (nsize - 1);
		}
		nht[h] = i;
	}
	free(s->ht);
	s->ht = nht;
	s->htsize = nsize;
}

/* returns the state index; *isnew tells whether it was added */
static uint32_t ss_add(struct stateset *s, const uint8_t *bytes, size_t n, uint32_t parent, struct op op, int *isnew)
{
	uint32_t h = (uint32_t)fnv64(bytes, n) & (s->htsize - 1);
	while (s->ht[h] != 0xffffffffu) {
		uint32_t i = s->ht[h];
		if (s->len[i] == n && memcmp(s->arena + s->off[i], bytes, n) == 0) {
			*isnew = 0;
			return i;
		}
		h = (h + 1) & (s->htsize - 1);
	}
	if (s->n == s->cap) {
		uint32_t ncap = s->cap ? s->cap * 2 : 4096;
		s->off = realloc(s->off, sizeof(s->off[0]) * ncap);
		s->len = realloc(s->len, sizeof(s->len[0]) * ncap);
		s->parent = realloc(s->parent, sizeof(s->parent[0]) * ncap);
		s->pop = realloc(s->pop, sizeof(s->pop[0]) * ncap);
		if (!s->off || !s->len || !s->parent || !s->pop) {
			die("out of memory");
		}
		s->cap = ncap;
	}
	if (s->alen + n > s->acap) {
		size_t ncap = s->acap ? s->acap * 2 : (1u << 20);
		while (ncap < s->alen + n) {
			ncap *= 2;
		}
		s->arena = realloc(s->arena, ncap);
		if (s->arena == NULL) {
			die("out of memory");
		}
		s->acap = ncap;
	}
	memcpy(s->arena + s->alen, bytes, n);
	s->off[s->n] = s->alen;
	s->len[s->n] = (uint16_t)n;
	s->parent[s->n] = parent;
	s->pop[s->n] = op;
	s->alen += n;
	s->ht[h] = s->n;
	s->n++;
	*isnew = 1;
	if ((uint64_t)s->n * 2 > s->htsize) {
		ss_rehash(s);
	}
	return s->n - 1;
}

static int ss_path(const struct stateset *s, uint32_t idx, struct op *out, int max)
{
	int n = 0, i;
	uint32_t j;
	for (j = idx; s->parent[j] != 0xffffffffu; j = s->parent[j]) {
		n++;
	}
	if (n > max) {
		die("path too long");
	}
	i = n;
	for (j = idx; s->parent[j] != 0xffffffffu; j = s->parent[j]) {
		out[--i] = s->pop[j];
	}
	return n;
}

/* ------------------------------------------------------------------ universe templates */

struct utemplate {
	const char *name;
	int base_from_end;     /* base bucket H = table_size - base_from_end (0: H = table_size / 2 - 3) */
	int nspec;
	struct {
		int offset;    /* home bucket = H + offset (mod table size); offset in units, or scaled by reach if scale != 0 */
		int scale;     /* 0: offset as is; 1: offset = reach - 1 + off; 2: offset = (2 * reach) / 3 */
		int count;     /* >= 0 absolute; -1: reach - 1 keys; -2: reach - 2 keys; -3: reach keys */
		int frozen;
	} spec[8];
	int temp;              /* 1: the fillers of spec[0] are put first and all but the last of them removed again before the other fillers are put */
};

static void build_from_template(struct universe *u, const struct c17_inst *in, const struct utemplate *t)
{
	struct homespec hs[8];
	uint32_t reach = in->add_range < in->hop_range ? in->add_range : in->hop_range;
	uint32_t mask = in->table_size - 1;
	uint32_t H = t->base_from_end == -1 ? in->table_size - reach : t->base_from_end ? in->table_size - (uint32_t)t->base_from_end : in->table_size / 2 - 3;
	int i, n = 0;
	char label[64];
	for (i = 0; i < t->nspec; i++) {
		int off = t->spec[i].offset, cnt = t->spec[i].count, j, dup = 0;
		if (t->spec[i].scale == 1) {
			off = (int)reach - 1 + off;
		} else if (t->spec[i].scale == 2) {
			off = (int)(2 * reach) / 3;
		}
		if (cnt == -1) {
			cnt = (int)reach - 1;
		} else if (cnt == -2) {
			cnt = (int)reach - 2;
		} else if (cnt == -3) {
			cnt = (int)reach;
		}
		if (cnt <= 0) {
			continue;
		}
		hs[n].home = (H + (uint32_t)off) & mask;
		hs[n].count = cnt;
		hs[n].frozen = t->spec[i].frozen;
		for (j = 0; j < n; j++) {
			if (hs[j].home == hs[n].home && hs[j].frozen == hs[n].frozen) {
				hs[j].count += cnt; /* tiny tables: offsets may coincide */
				dup = 1;
			}
		}
		if (!dup) {
			n++;
		}
	}
	snprintf(label, sizeof(label), "%s@%u", t->name, H & mask);
	universe_build(u, in, hs, n, label);
	u->has_temp = t->temp;
	u->temp_home = hs[0].home;
}

#pragma GCC diagnostic ignored "-Wmissing-field-initializers"
/* Complete-fixpoint universes: no frozen keys, at most two adjacent home buckets, last bucket included. */
static const struct utemplate UT_FIX[] = {
	{ "last+first", 1, 2, { { 0, 0, 4, 0 }, { 1, 0, 3, 0 } } },
	{ "prev+last", 2, 2, { { 0, 0, 3, 0 }, { 1, 0, 4, 0 } } },
	{ "last-only", 1, 1, { { 0, 0, 6, 0 } } },
	/* smaller ones where 7 keys would take minutes */
	{ "last+first-5", 1, 2, { { 0, 0, 3, 0 }, { 1, 0, 2, 0 } } },
	{ "prev+last-6", 2, 2, { { 0, 0, 3, 0 }, { 1, 0, 3, 0 } } },
	{ "last+first-6", 1, 2, { { 0, 0, 3, 0 }, { 1, 0, 3, 0 } } },
};
#define N_UT_FIX 3 /* the first three are the standard set */

/*
 * 8-bit hop: 8 occupied slots in a row are needed before anything interesting
 * happens, so a frozen filler prefix (put once by the seed, then only looked
 * up) brings the table there and the fixpoint is taken over the active keys.
 * H = size - 4: the neighbourhood straddles the end of the table.
 */
static const struct utemplate UT_H8[] = {
	/* 5 fillers@H | 4@H, 1@H+7 (displaceable only while its target stays in range), 1@H+3 (displaceable) */
	{ "dense-straddle", 4, 4, { { 0, 0, 5, 1 }, { 0, 0, 4, 0 }, { 7, 0, 1, 0 }, { 3, 0, 1, 0 } } },
	/* 6 fillers@H | 3@H, 1@H+5, 1@H+7, 1@H+9: chains of two displacements */
	{ "chain-straddle", 6, 5, { { 0, 0, 6, 1 }, { 0, 0, 3, 0 }, { 5, 0, 1, 0 }, { 7, 0, 1, 0 }, { 9, 0, 1, 0 } } },
};
#define N_UT_H8 2

/* Large tables, depth-3 sequences.  reach = min(add_range, hop_range). */
static const struct utemplate UT_SEQ[] = {
	/* reach-1 fillers@H | 2@H, 1@H+reach-1, 1@H+2reach/3, 1@H+reach+1 */
	{ "dense-mid", 0, 5, { { 0, 0, -1, 1 }, { 0, 0, 2, 0 }, { 0, 1, 1, 0 }, { 0, 2, 1, 0 }, { 2, 1, 1, 0 } } },
	{ "dense-straddle", 5, 5, { { 0, 0, -1, 1 }, { 0, 0, 2, 0 }, { 0, 1, 1, 0 }, { 0, 2, 1, 0 }, { 2, 1, 1, 0 } } },
	/* 3 fillers@last | 2@last, 2@0, 1@last-1 */
	{ "last-bucket", 1, 4, { { 0, 0, 3, 1 }, { 0, 0, 2, 0 }, { 1, 0, 2, 0 }, { -1, 0, 1, 0 } } },
	/* seed script with removals.  reach fillers@H=size-reach, all but the last removed again (the survivor sits in the LAST slot, reach-1 away from
	 * its home), then reach-1 fillers@0 | 2@last bucket, 1@0, 1@H: an insertion at the last bucket has to displace across the end of the table
	 * while its own slot holds a foreign entry */
	{ "foreign-tail-wrap", -1, 5, { { 0, 0, -3, 1 }, { 1, 1, -1, 1 }, { 0, 1, 2, 0 }, { 1, 1, 1, 0 }, { 0, 0, 1, 0 } }, 1 },
	/* the same layout in the middle of the table (control) */
	{ "foreign-tail-mid", 0, 5, { { 0, 0, -3, 1 }, { 1, 1, -1, 1 }, { 0, 1, 2, 0 }, { 1, 1, 1, 0 }, { 0, 0, 1, 0 } }, 1 },
};
#define N_UT_SEQ 5

/* ------------------------------------------------------------------ seeding */

/* puts the frozen keys through the real code, each step judged; returns 0 if a seed step violated */
static int seed_step(struct ctx *c, struct img *cur, struct jobstat *st, int lenient, struct op op)
{
	struct img post;
	struct outcome o;
	g_cur_seed[g_cur_nseed++] = op;
	step(c, op, cur, &post, &o);
	st->transitions++;
	if (o.viol) {
		report_violation(c->u, o.vclass, o.vmsg, g_cur_seed, g_cur_nseed, NULL, 0, lenient);
		return 0;
	}
	if (o.ret != HASHTABLE_SUCCESS) {
		die("seed step on filler %d refused in universe %s", op.k, c->u->label);
	}
	*cur = post;
	return 1;
}

static int run_seed(struct ctx *c, struct img *cur, struct jobstat *st, int lenient)
{
	int i, last_temp = -1;
	g_cur_nseed = 0;
	if (c->u->has_temp) {
		for (i = 0; i < c->u->nfrozen; i++) {
			if (c->u->k[i].home == c->u->temp_home) {
				struct op op = { OP_PUT, (uint8_t)i, 1, 0, 1 };
				if (!seed_step(c, cur, st, lenient, op)) {
					return 0;
				}
				last_temp = i;
			}
		}
		for (i = 0; i < c->u->nfrozen; i++) {
			if (c->u->k[i].home == c->u->temp_home && i != last_temp) {
				struct op op = { OP_REMOVE, (uint8_t)i, 0, 0, 1 };
				if (!seed_step(c, cur, st, lenient, op)) {
					return 0;
				}
			}
		}
	}
	for (i = 0; i < c->u->nfrozen; i++) {
		struct op op = { OP_PUT, (uint8_t)i, 1, 0, 1 };
		if (c->u->has_temp && c->u->k[i].home == c->u->temp_home) {
			continue;
		}
		if (!seed_step(c, cur, st, lenient, op)) {
			return 0;
		}
	}
	return 1;
}

static void count_flags(struct jobstat *st, unsigned flags)
{
	if (flags) {
		st->nontrivial++;
	}
	if (flags & NT_DISPLACE) {
		st->n_displace++;
	}
	if (flags & NT_WRAP) {
		st->n_wrap++;
	}
	if (flags & NT_REFUSED) {
		st->n_refused++;
	}
}

/* ------------------------------------------------------------------ BFS to the fixpoint */

#define BFS_STATE_CAP 6000000u

static void run_fixpoint(const struct c17_inst *in, const struct utemplate *t, struct jobstat *st, char *sample, size_t samplen)
{
	static struct universe u;
	struct stateset ss;
	struct ctx c;
	struct img cur, post;
	struct op ops[MAXK * 4];
	int nops = 0, k, isnew;
	uint32_t head, depth_max = 0;
	uint8_t bytes[IMG_MAXBYTES];
	size_t nb;
	struct op noop = { 0, 0, 0, 0, 0 };

	build_from_template(&u, in, t);
	memset(&c, 0, sizeof(c));
	c.u = &u;
	c.table = in->create();
	if (c.table == NULL) {
		die("table allocation failed");
	}
	cur_begin(&u, 0);
	st->exhaustive = 1;
	st->cases = 1;

	for (k = u.nfrozen; k < u.nkeys; k++) {
		struct op p1 = { OP_PUT, (uint8_t)k, 1, 0, 1 };  /* prev_value pointer given */
		struct op p2 = { OP_PUT, (uint8_t)k, 2, 0, 0 };  /* prev_value NULL, as cjet calls it */
		struct op g = { OP_GET, (uint8_t)k, 0, 1, 0 };   /* equal content, other address */
		struct op r = { OP_REMOVE, (uint8_t)k, 0, 1, 1 };
		ops[nops++] = p1;
		ops[nops++] = p2;
		ops[nops++] = g;
		ops[nops++] = r;
	}

	scan(&c, &cur);
	if (cur.prob != P_NONE || cur.nocc != 0) {
		report_violation(&u, "fresh-table-not-empty", "HASHTABLE_CREATE returned a table that is not empty", NULL, 0, NULL, 0, 0);
		goto out;
	}
	if (!run_seed(&c, &cur, st, 0)) {
		goto out;
	}
	ss_init(&ss);
	nb = img_serialize(&cur, bytes);
	ss_add(&ss, bytes, nb, 0xffffffffu, noop, &isnew);

	for (head = 0; head < ss.n; head++) {
		struct img base;
		int i, plen;
		if ((head & 0xff) == 0 && deadline_passed()) {
			st->exhaustive = 0;
			snprintf(st->cap, sizeof(st->cap), "deadline");
			break;
		}
		if (ss.n >= BFS_STATE_CAP) {
			st->exhaustive = 0;
			snprintf(st->cap, sizeof(st->cap), "state-cap-%u", BFS_STATE_CAP);
			break;
		}
		img_deserialize(&base, ss.arena + ss.off[head]);
		plen = ss_path(&ss, head, g_cur_path, MAXREPLAYOPS - 1);
		if ((uint32_t)plen > depth_max) {
			depth_max = (uint32_t)plen;
		}
		for (i = 0; i < nops; i++) {
			struct outcome o;
			uint32_t idx;
			/* put the real table into the stored state; the re-scan checks the restore is exact */
			img_restore(&c, &base);
			scan(&c, &cur);
			nb = img_serialize(&cur, bytes);
			if (nb != ss.len[head] || memcmp(bytes, ss.arena + ss.off[head], nb) != 0) {
				die("restore of a stored state is not exact");
			}
			ref_from_img(&c, &cur);
			g_cur_path[plen] = ops[i];
			g_cur_npath = plen + 1;
			step(&c, ops[i], &cur, &post, &o);
			st->transitions++;
			count_flags(st, o.flags);
			if (o.viol) {
				report_violation(&u, o.vclass, o.vmsg, g_cur_seed, g_cur_nseed, g_cur_path, g_cur_npath, 0);
				continue; /* do not search beyond a violating transition */
			}
			nb = img_serialize(&post, bytes);
			idx = ss_add(&ss, bytes, nb, head, ops[i], &isnew);
			(void)idx;
			if (o.flags == (NT_DISPLACE | NT_WRAP) && sample != NULL && sample[0] == 0) {
				char ob[128];
				op_format(&u, ops[i], ob, sizeof(ob));
				snprintf(sample, samplen, "%s h%u o%u universe %s: after %d ops, %s displaced an entry across the table end and returned %d", in->ktype_name, in->hop_bits, in->order, u.label,
				         plen, ob, o.ret);
			}
		}
	}
	st->states = ss.n;
	if (sample != NULL && sample[0] == 0) {
		snprintf(sample, samplen, "%s h%u o%u universe %s: %u keys (%d frozen), %u reachable states, longest shortest path %u ops", in->ktype_name, in->hop_bits, in->order, u.label,
		         (unsigned)u.nkeys, u.nfrozen, ss.n, depth_max);
	}
	ss_free(&ss);
out:
	cur_end();
	in->destroy(c.table);
	universe_free(&u);
}

/* ------------------------------------------------------------------ depth-bounded exhaustive sequences on large tables */

struct dfs {
	struct ctx c;
	struct jobstat *st;
	struct stateset ss;
	struct op ops[MAXK * 4];
	int nops;
	int depth;
	size_t tbytes;
	uint8_t *snap[8];
	int stop;
};

static void dfs_rec(struct dfs *d, const struct img *cur, int level)
{
	int i;
	uint8_t bytes[IMG_MAXBYTES];
	if (level == d->depth || d->stop) {
		return;
	}
	if (deadline_passed()) {
		d->stop = 1;
		d->st->exhaustive = 0;
		snprintf(d->st->cap, sizeof(d->st->cap), "deadline");
		return;
	}
	for (i = 0; i < d->nops && !d->stop; i++) {
		struct outcome o;
		struct img post;
		uint8_t present[MAXK], val[MAXK];
		int isnew;
		size_t nb;
		memcpy(d->snap[level], d->c.table, d->tbytes);
		memcpy(present, d->c.present, sizeof(present));
		memcpy(val, d->c.val, sizeof(val));
		g_cur_path[level] = d->ops[i];
		g_cur_npath = level + 1;
		step(&d->c, d->ops[i], cur, &post, &o);
		d->st->transitions++;
		count_flags(d->st, o.flags);
		if (o.viol) {
			report_violation(d->c.u, o.vclass, o.vmsg, g_cur_seed, g_cur_nseed, g_cur_path, g_cur_npath, 0);
		} else {
			struct op noop = { 0, 0, 0, 0, 0 };
			nb = img_serialize(&post, bytes);
			ss_add(&d->ss, bytes, nb, 0xffffffffu, noop, &isnew);
			if (level + 1 == d->depth) {
				d->st->cases++;
			}
			dfs_rec(d, &post, level + 1);
		}
		memcpy(d->c.table, d->snap[level], d->tbytes);
		memcpy(d->c.present, present, sizeof(present));
		memcpy(d->c.val, val, sizeof(val));
	}
}

static void run_sequences(const struct c17_inst *in, const struct utemplate *t, int depth, struct jobstat *st, char *sample, size_t samplen)
{
	static struct universe u;
	static struct dfs d;
	struct img cur;
	int k, i, isnew;
	uint8_t bytes[IMG_MAXBYTES];
	size_t nb;
	struct op noop = { 0, 0, 0, 0, 0 };

	build_from_template(&u, in, t);
	memset(&d, 0, sizeof(d));
	d.c.u = &u;
	d.c.table = in->create();
	if (d.c.table == NULL) {
		die("table allocation failed");
	}
	d.st = st;
	d.depth = depth;
	d.tbytes = in->entry_size * in->table_size;
	for (i = 0; i < depth; i++) {
		d.snap[i] = malloc(d.tbytes);
		if (d.snap[i] == NULL) {
			die("out of memory");
		}
	}
	cur_begin(&u, 0);
	st->exhaustive = 1;

	for (k = u.nfrozen; k < u.nkeys; k++) {
		struct op p1 = { OP_PUT, (uint8_t)k, 1, 0, 1 };
		struct op p2 = { OP_PUT, (uint8_t)k, 2, 1, 0 };                  /* other copy of the key content, prev_value NULL */
		struct op g = { OP_GET, (uint8_t)k, 0, 1, 0 };
		struct op r = { OP_REMOVE, (uint8_t)k, 0, (uint8_t)(k & 1), (uint8_t)(k & 1) }; /* alternately value NULL like table.c */
		d.ops[d.nops++] = p1;
		d.ops[d.nops++] = p2;
		d.ops[d.nops++] = g;
		d.ops[d.nops++] = r;
	}
	scan(&d.c, &cur);
	if (cur.prob != P_NONE || cur.nocc != 0) {
		report_violation(&u, "fresh-table-not-empty", "HASHTABLE_CREATE returned a table that is not empty", NULL, 0, NULL, 0, 0);
		goto out;
	}
	if (!run_seed(&d.c, &cur, st, 0)) {
		goto out;
	}
	ss_init(&d.ss);
	nb = img_serialize(&cur, bytes);
	ss_add(&d.ss, bytes, nb, 0xffffffffu, noop, &isnew);
	dfs_rec(&d, &cur, 0);
	st->states = d.ss.n;
	if (sample != NULL) {
		snprintf(sample, samplen, "%s h%u o%u universe %s: %d fillers then all %d^%d sequences over %d keys: %llu transitions, %u distinct states, %llu displacements, %llu refusals",
		         in->ktype_name, in->hop_bits, in->order, u.label, u.nfrozen, d.nops, depth, u.nkeys - u.nfrozen, st->transitions, d.ss.n, st->n_displace, st->n_refused);
	}
	ss_free(&d.ss);
out:
	for (i = 0; i < depth; i++) {
		free(d.snap[i]);
	}
	cur_end();
	in->destroy(d.c.table);
	universe_free(&u);
}

/* ------------------------------------------------------------------ consequence scenario: leaked slots accumulate */

/*
 * One deterministic sequence (not a search).  Each round makes the code refuse
 * a put after one successful displacement, then removes every key again.  If
 * refused puts leak the vacated slot, after hop_range rounds a whole
 * neighbourhood consists of leaked copies and a put into the EMPTY map is
 * refused although no live key is anywhere near: the property's "refused only
 * when no slot within reach can be freed" fails at the API level.  On code
 * that does not leak, every step of this sequence holds.
 */
static void run_leak_scenario(const struct c17_inst *in, int level, struct jobstat *st, char *sample, size_t samplen)
{
	static struct universe u;
	struct homespec hs[16];
	struct ctx c;
	struct img cur, post;
	uint32_t R = in->hop_range, mask = in->table_size - 1, H = 2;
	uint32_t r;
	int n = 0, i, xidx[16][16], cnt[16], yidx[16], zidx;
	static struct op path[MAXREPLAYOPS];
	int np = 0;

	st->exhaustive = 1;
	st->cases = 1;
	if (in->add_range < R + 2 || R > 8 || in->table_size < 3 * R + 4) {
		die("leak scenario needs add_range >= hop_range + 2 and a table of at least 3*hop_range+4 slots");
	}
	/* round r: R - r + 1 keys x at home H+r, one key y_r at home H+r+R-1; finally one key z at home H+R.
	 * One search for all of them (bucket H+R-1 serves round R-1's x keys and y_0; bucket H+R serves y_1 and z). */
	for (r = 0; r < 2 * R - 1; r++) {
		hs[n].home = (H + r) & mask;
		hs[n].count = (r < R ? (int)(R - r + 1) : 0) + (r >= R - 1 ? 1 : 0) + (r == R ? 1 : 0);
		hs[n].frozen = 0;
		n++;
	}
	universe_build(&u, in, hs, n, "leak");
	snprintf(u.label, sizeof(u.label), "leak-accumulation@%u", H);
	/* index the keys by home */
	for (r = 0; r < R; r++) {
		cnt[r] = 0;
		yidx[r] = -1;
	}
	zidx = -1;
	for (i = 0; i < u.nkeys; i++) {
		uint32_t h = u.k[i].home;
		int is_x = 0;
		for (r = 0; r < R; r++) {
			if (h == ((H + r) & mask) && cnt[r] < (int)(R - r + 1)) {
				xidx[r][cnt[r]++] = i;
				is_x = 1;
				break;
			}
		}
		if (is_x) {
			continue;
		}
		for (r = 0; r < R; r++) {
			if (h == ((H + r + R - 1) & mask) && yidx[r] < 0) {
				yidx[r] = i;
				break;
			}
		}
		if (r == R && h == ((H + R) & mask)) {
			zidx = i;
		}
	}
	for (r = 0; r < R; r++) {
		if (cnt[r] != (int)(R - r + 1) || yidx[r] < 0) {
			die("leak scenario: key bookkeeping");
		}
	}
	if (zidx < 0) {
		die("leak scenario: no final key");
	}

	memset(&c, 0, sizeof(c));
	c.u = &u;
	c.lenient = level;
	c.table = in->create();
	if (c.table == NULL) {
		die("table allocation failed");
	}
	cur_begin(&u, level);
	scan(&c, &cur);

#define DO(op_) \
	do { \
		struct outcome o_; \
		struct op oo_ = op_; \
		path[np++] = oo_; \
		memcpy(g_cur_path, path, sizeof(path[0]) * (size_t)np); \
		g_cur_npath = np; \
		step(&c, oo_, &cur, &post, &o_); \
		st->transitions++; \
		count_flags(st, o_.flags); \
		if (o_.viol) { \
			report_violation(&u, o_.vclass, o_.vmsg, NULL, 0, path, np, level); \
			if (sample != NULL) { \
				snprintf(sample, samplen, "leak scenario %s h%u o%u: step %d violated: %s", in->ktype_name, in->hop_bits, in->order, np, o_.vclass); \
			} \
			goto done; \
		} \
		cur = post; \
	} while (0)

	for (r = 0; r < R; r++) {
		int nx = (int)(R - r); /* keys that fit before the put that gets refused */
		for (i = 0; i < nx; i++) {
			struct op p = { OP_PUT, (uint8_t)xidx[r][i], 1, 0, 1 };
			DO(p);
		}
		{
			struct op py = { OP_PUT, (uint8_t)yidx[r], 1, 0, 1 };
			struct op px = { OP_PUT, (uint8_t)xidx[r][nx], 1, 0, 1 }; /* refused after displacing y */
			DO(py);
			DO(px);
		}
		for (i = 0; i < nx; i++) {
			struct op rm = { OP_REMOVE, (uint8_t)xidx[r][i], 0, 0, 1 };
			DO(rm);
		}
		{
			struct op ry = { OP_REMOVE, (uint8_t)yidx[r], 0, 0, 1 };
			DO(ry);
		}
	}
	{
		struct op pz = { OP_PUT, (uint8_t)zidx, 1, 0, 1 }; /* the reference map is empty here */
		DO(pz);
	}
#undef DO
	if (sample != NULL) {
		snprintf(sample, samplen, "leak scenario %s h%u o%u: all %d steps held, final put into the empty map succeeded, %u slots occupied", in->ktype_name, in->hop_bits, in->order, np,
		         cur.nocc);
	}
done:
	st->states = 1;
	cur_end();
	in->destroy(c.table);
	universe_free(&u);
}

#endif
