# C10: outbound streams are whole frames in order (buffered_socket.c + posix/socket.c)
# Two builds of the REAL sources: w16 (CONFIG_MAX_WRITE_BUFFER_SIZE = 16) and w5120 (as configured).
C10_DIR  = $(OUT)/c10gen
C10_S    = $(REPO)/src
C10_REAL = $(C10_S)/buffered_socket.c $(C10_S)/buffered_socket.h $(C10_S)/posix/socket.c $(C10_S)/socket.h \
           $(C10_S)/eventloop.h $(C10_S)/compiler.h $(C10_S)/error_codes.h $(C10_S)/alloc.c $(C10_S)/alloc.h \
           $(C10_S)/log.h $(C10_S)/util.h $(C10_S)/jet_string.h $(C10_S)/linux/jet_string.c
C10_HARN = /verif/mod/c10_bsock.c /verif/mod/c10_main.c /verif/mod/c10_common.h /verif/mod/c10.mk

.PHONY: c10
c10: $(OUT)/c10

# private config dirs (placed first on the include path)
$(C10_DIR)/w16/generated/cjet_config.h: $(GEN)/def/generated/cjet_config.h /verif/mod/c10.mk
	mkdir -p $(@D)
	cp $(GEN)/def/generated/os_config.h $(GEN)/def/generated/version.h $(@D)/
	sed -E 's/(CONFIG_MAX_WRITE_BUFFER_SIZE *= *)[0-9]+/\116/' $< > $@.tmp
	grep -q 'CONFIG_MAX_WRITE_BUFFER_SIZE = 16}' $@.tmp
	mv $@.tmp $@

$(C10_DIR)/w5120/generated/cjet_config.h: $(GEN)/def/generated/cjet_config.h /verif/mod/c10.mk
	mkdir -p $(@D)
	cp $(GEN)/def/generated/os_config.h $(GEN)/def/generated/version.h $(@D)/
	cp $< $@

C10_EXPECT_w16   = -DC10_EXPECT_BUFSZ=16
C10_EXPECT_w5120 =

define C10_VARIANT_RULES
$(C10_DIR)/$(1)/buffered_socket.o: $(C10_DIR)/$(1)/generated/cjet_config.h $(C10_REAL)
	$(CC) -I$(C10_DIR)/$(1) $(CFLAGS) -D_GNU_SOURCE -c $(C10_S)/buffered_socket.c -o $$@
$(C10_DIR)/$(1)/socket.o: $(C10_DIR)/$(1)/generated/cjet_config.h $(C10_REAL)
	$(CC) -I$(C10_DIR)/$(1) $(CFLAGS) -D_GNU_SOURCE -c $(C10_S)/posix/socket.c -o $$@
$(C10_DIR)/$(1)/engine.o: $(C10_DIR)/$(1)/generated/cjet_config.h $(C10_REAL) $(C10_HARN)
	$(CC) -I$(C10_DIR)/$(1) $(CFLAGS) -Wall -Wextra -DC10_VARIANT=$(1) $(C10_EXPECT_$(1)) -c /verif/mod/c10_bsock.c -o $$@
# give every global symbol of the real objects a per-variant name and route writev/read/close to the harness
$(C10_DIR)/$(1)/syms.txt: $(C10_DIR)/$(1)/buffered_socket.o $(C10_DIR)/$(1)/socket.o
	nm -g --defined-only $(C10_DIR)/$(1)/buffered_socket.o $(C10_DIR)/$(1)/socket.o | \
	  awk 'NF==3 && $$$$2 ~ /^[TDBRW]$$$$/ {print $$$$3, $$$$3 "_c10$(1)"}' | sort -u > $$@.tmp
	echo "writev c10_writev_$(1)" >> $$@.tmp
	echo "read c10_read_$(1)" >> $$@.tmp
	echo "close c10_close_$(1)" >> $$@.tmp
	mv $$@.tmp $$@
$(C10_DIR)/$(1)/all.o: $(C10_DIR)/$(1)/syms.txt $(C10_DIR)/$(1)/engine.o
	objcopy --redefine-syms=$(C10_DIR)/$(1)/syms.txt $(C10_DIR)/$(1)/buffered_socket.o $(C10_DIR)/$(1)/buffered_socket.r.o
	objcopy --redefine-syms=$(C10_DIR)/$(1)/syms.txt $(C10_DIR)/$(1)/socket.o $(C10_DIR)/$(1)/socket.r.o
	objcopy --redefine-syms=$(C10_DIR)/$(1)/syms.txt $(C10_DIR)/$(1)/engine.o $(C10_DIR)/$(1)/engine.r.o
	ld -r -o $$@ $(C10_DIR)/$(1)/engine.r.o $(C10_DIR)/$(1)/buffered_socket.r.o $(C10_DIR)/$(1)/socket.r.o
endef
$(eval $(call C10_VARIANT_RULES,w16))
$(eval $(call C10_VARIANT_RULES,w5120))

$(C10_DIR)/alloc.o: $(C10_REAL) $(GEN)/def/generated/cjet_config.h | $(C10_DIR)/w16/generated/cjet_config.h
	$(CC) $(CFLAGS) -c $(C10_S)/alloc.c -o $@
$(C10_DIR)/jet_string.o: $(C10_REAL) | $(C10_DIR)/w16/generated/cjet_config.h
	$(CC) $(CFLAGS) -D_GNU_SOURCE -c $(C10_S)/linux/jet_string.c -o $@
$(C10_DIR)/main.o: $(C10_HARN) | $(C10_DIR)/w16/generated/cjet_config.h
	$(CC) $(CFLAGS) -Wall -Wextra -c /verif/mod/c10_main.c -o $@

$(OUT)/c10: $(C10_DIR)/main.o $(C10_DIR)/w16/all.o $(C10_DIR)/w5120/all.o $(C10_DIR)/alloc.o $(C10_DIR)/jet_string.o | $(OUT)
	$(CC) $(SAN) -o $@ $^ -lpthread
