/* C19 harness, part 3: connection to the real module and the four case runners. */
#ifndef C19_CASES_H
#define C19_CASES_H

#include "c19_client.h"
#include "compression.h"
#include "http_connection.h"
#include "http_server.h"
#include "url_handler.h"
#include "websocket.h"

enum { SEC_NEG, SEC_C2S, SEC_S2C, SEC_COR, NSEC };
static const char *const sec_name[NSEC] = {"negotiation", "roundtrip-c2s", "roundtrip-s2c", "corrupt"};

struct ccase {
	uint8_t sec, level, payload, nfrag; /* nfrag = number of prefix sizes (0..2) */
	int16_t f[2];
	uint32_t offer;                 /* index into g_offers */
	int8_t cb, cn, sb, sn, acc;     /* expected negotiation result (from section a) */
	uint8_t ckind;                  /* 0 short payload, 1 substitution */
	uint8_t ccfg;                   /* corrupt section: configuration index */
	uint8_t cmsg;                   /* base message (payload id) for substitutions */
	uint16_t cpos, clen;
	uint8_t cval, cbytes[2];
	int8_t csplit;                  /* -1 one frame, k: two fragments of k and clen-k bytes */
	uint32_t rank;
};

struct verdict {
	int violated;
	char cls[96];
	char key[256];
	char msg[480];
	unsigned trans, hs;
	int nontrivial;
	struct neg g;
	size_t peak, leaked;
};

/* progress marker, lives in shared memory so that the parent can attribute a crash */
struct progress {
	volatile uint32_t cur;
	volatile int msg;
	char phase[24];
};
static struct progress g_dummy_progress;
static struct progress *g_prog = &g_dummy_progress;
static void set_phase(const char *ph, int msg)
{
	snprintf(g_prog->phase, sizeof(g_prog->phase), "%s", ph);
	g_prog->msg = msg;
	if (g_verbose) printf("  -- %s, message %d\n", ph, msg);
}

static char **g_offers;
static size_t g_noffers, g_offers_cap;
static uint32_t add_offer(const char *s)
{
	if (g_noffers == g_offers_cap) {
		g_offers_cap = g_offers_cap ? g_offers_cap * 2 : 1024;
		g_offers = h_realloc(g_offers, g_offers_cap * sizeof(char *));
	}
	g_offers[g_noffers] = h_malloc(strlen(s) + 1);
	strcpy(g_offers[g_noffers], s);
	return (uint32_t)g_noffers++;
}

static void violate(struct verdict *v, const char *cls, const char *detail, const char *fmt, ...)
{
	if (v->violated) return;
	v->violated = 1;
	snprintf(v->cls, sizeof(v->cls), "%s", cls);
	snprintf(v->key, sizeof(v->key), "%s/%s", cls, detail);
	va_list ap;
	va_start(ap, fmt);
	vsnprintf(v->msg, sizeof(v->msg), fmt, ap);
	va_end(ap);
	if (g_verbose) printf("  !! VIOLATION %s: %s\n", v->key, v->msg);
}

static void hexs(char *dst, size_t cap, const uint8_t *b, size_t n)
{
	size_t o = 0;
	for (size_t i = 0; i < n && o + 3 < cap; i++) o += (size_t)snprintf(dst + o, cap - o, "%02x", b[i]);
	if (cap) dst[o < cap ? o : cap - 1] = 0;
}
static void vhex(const char *what, const uint8_t *b, size_t n)
{
	if (!g_verbose) return;
	printf("    %s (%zu bytes):", what, n);
	for (size_t i = 0; i < n && i < 48; i++) printf(" %02x", b[i]);
	if (n > 48) printf(" ...");
	printf("\n");
}

/* ---------- one connection to the real server side ---------- */
struct conn {
	struct mr m;
	struct http_connection *hc;
	struct websocket *ws;
	struct http_server srv;
	struct url_handler handler[1];
	int on_error_calls, close_received_calls;
	uint8_t *rx;
	size_t rx_len, rx_cap;
	int rx_msgs, rx_type;
	uint8_t *acc;
	size_t acc_len, acc_cap;
	int acc_type;
};
static struct conn *g_conn;

static void rx_deliver(struct conn *k, int type, const uint8_t *d, size_t n)
{
	if (n > k->rx_cap) {
		k->rx_cap = n * 2 + 64;
		k->rx = h_realloc(k->rx, k->rx_cap);
	}
	if (n) memcpy(k->rx, d, n);
	k->rx_len = n;
	k->rx_type = type;
	k->rx_msgs++;
	if (g_verbose) printf("    callback: %s message of %zu bytes delivered\n", type == OPC_TEXT ? "text" : "binary", n);
}
static void acc_add(struct conn *k, int type, const uint8_t *d, size_t n, bool last)
{
	if (k->acc_len + n > k->acc_cap) {
		k->acc_cap = (k->acc_len + n) * 2 + 64;
		k->acc = h_realloc(k->acc, k->acc_cap);
	}
	if (n) memcpy(k->acc + k->acc_len, d, n);
	k->acc_len += n;
	k->acc_type = type;
	if (last) {
		rx_deliver(k, type, k->acc, k->acc_len);
		k->acc_len = 0;
	}
}
static enum websocket_callback_return cb_text(struct websocket *s, char *msg, size_t length)
{
	(void)s;
	rx_deliver(g_conn, OPC_TEXT, (uint8_t *)msg, length);
	return WS_OK;
}
static enum websocket_callback_return cb_bin(struct websocket *s, uint8_t *msg, size_t length)
{
	(void)s;
	rx_deliver(g_conn, OPC_BIN, msg, length);
	return WS_OK;
}
static enum websocket_callback_return cb_text_frame(struct websocket *s, char *msg, size_t length, bool last)
{
	(void)s;
	acc_add(g_conn, OPC_TEXT, (uint8_t *)msg, length, last);
	return WS_OK;
}
static enum websocket_callback_return cb_bin_frame(struct websocket *s, uint8_t *msg, size_t length, bool last)
{
	(void)s;
	acc_add(g_conn, OPC_BIN, msg, length, last);
	return WS_OK;
}
static enum websocket_callback_return cb_close(struct websocket *s, enum ws_status_code code)
{
	(void)s;
	(void)code;
	g_conn->close_received_calls++;
	return WS_CLOSED;
}
static void cb_error(struct websocket *s)
{
	(void)s;
	g_conn->on_error_calls++;
	if (g_verbose) printf("    on_error callback\n");
}

static int h_create(struct http_connection *c)
{
	struct conn *k = g_conn;
	k->ws = __wrap_malloc(sizeof(*k->ws));
	if (!k->ws) return -1;
	if (websocket_init(k->ws, c, true, cb_error, NULL) < 0) return -1;
	k->ws->text_message_received = cb_text;
	k->ws->binary_message_received = cb_bin;
	k->ws->text_frame_received = cb_text_frame;
	k->ws->binary_frame_received = cb_bin_frame;
	k->ws->close_received = cb_close;
	c->parser.data = k->ws;
	struct buffered_reader *br = &c->br;
	br->read_until(br->this_ptr, "\r\n", websocket_read_header_line, k->ws);
	return 0;
}

/* opens a connection and performs the upgrade with the given offer ('|' = second header line,
 * empty string = no extension header).  Returns 0 when a complete HTTP response was written. */
static int conn_open(struct conn *k, int level, const char *offer, struct neg *g)
{
	memset(k, 0, sizeof(*k));
	g_conn = k;
	k->handler[0].request_target = "/";
	k->handler[0].create = h_create;
	k->handler[0].on_header_field = websocket_upgrade_on_header_field;
	k->handler[0].on_header_value = websocket_upgrade_on_header_value;
	k->handler[0].on_headers_complete = websocket_upgrade_on_headers_complete;
	k->srv.handler = k->handler;
	k->srv.num_handlers = 1;
	k->hc = alloc_http_connection();
	if (!k->hc) return -1;
	struct buffered_reader br;
	memset(&br, 0, sizeof(br));
	br.this_ptr = &k->m;
	br.read_exactly = mr_read_exactly;
	br.read_until = mr_read_until;
	br.writev = mr_writev;
	br.close = mr_close;
	br.set_error_handler = mr_set_error_handler;
	init_http_connection2(k->hc, &k->srv, &br, false, (unsigned)level);

	size_t cap = 512 + 2 * strlen(offer) + 64 * 8;
	char *req = h_malloc(cap);
	size_t o = (size_t)snprintf(req, cap,
	                            "GET /ws HTTP/1.1\r\nHost: harness\r\nUpgrade: websocket\r\nConnection: Upgrade\r\n"
	                            "Sec-WebSocket-Key: dGhlIHNhbXBsZSBub25jZQ==\r\nSec-WebSocket-Version: 13\r\n");
	if (offer[0]) {
		const char *s = offer;
		while (1) {
			size_t kx = strcspn(s, "|");
			o += (size_t)snprintf(req + o, cap - o, "Sec-WebSocket-Extensions: %.*s\r\n", (int)kx, s);
			if (!s[kx]) break;
			s += kx + 1;
		}
	}
	o += (size_t)snprintf(req + o, cap - o, "\r\n");
	if (g_verbose) printf("  upgrade request, level %d, Sec-WebSocket-Extensions: %s\n", level, offer);
	mr_feed(&k->m, req, o);
	h_free(req);
	size_t used = parse_http_response(k->m.out, k->m.out_len, g);
	if (g_verbose) {
		if (!used)
			printf("  no complete HTTP response (%zu bytes written)\n", k->m.out_len);
		else if (g->accepted)
			printf("  response %s, Sec-WebSocket-Extensions: %s\n", g->got101 ? "101" : "not-101", g->raw);
		else
			printf("  response %s, no extension header (offer declined)\n", g->got101 ? "101" : "not-101");
	}
	if (!used) return -1;
	memmove(k->m.out, k->m.out + used, k->m.out_len - used);
	k->m.out_len -= used;
	return 0;
}
static int conn_alive(struct conn *k) { return !k->m.closed && !k->m.dead; }
static void conn_close(struct conn *k)
{
	if (!k->m.closed && k->ws && k->ws->connection) {
		if (g_verbose) printf("  harness closes the connection (websocket_close)\n");
		websocket_close(k->ws, WS_CLOSE_GOING_AWAY);
	} else if (!k->m.closed && k->hc && !k->ws) {
		free_connection(k->hc);
	}
	if (k->ws) __wrap_free(k->ws);
	k->ws = NULL;
	h_free(k->rx);
	h_free(k->acc);
	mr_free(&k->m);
}
static int out_has_close_frame(struct conn *k, int *code)
{
	size_t off = 0;
	struct sframe f;
	while (off < k->m.out_len && parse_sframe(k->m.out + off, k->m.out_len - off, &f)) {
		if (f.opcode == OPC_CLOSE) {
			if (code) *code = f.len >= 2 ? (f.pl[0] << 8 | f.pl[1]) : 0;
			return 1;
		}
		off += f.total;
	}
	return 0;
}

/* send one message client->server as the given fragments (sizes sum to n) */
static void send_c2s(struct conn *k, int opcode, int rsv1, const uint8_t *d, size_t n, const size_t *fr, int nfr, uint32_t seed)
{
	size_t off = 0;
	uint8_t *buf = h_malloc(n + 32);
	for (int i = 0; i < nfr && conn_alive(k); i++) {
		size_t l = mk_frame(buf, i == nfr - 1, rsv1 && i == 0, i == 0 ? opcode : OPC_CONT, d + off, fr[i], seed * 31 + (uint32_t)i);
		if (g_verbose) printf("    -> frame %d/%d: fin=%d rsv1=%d opcode=%d payload=%zu bytes\n", i + 1, nfr, i == nfr - 1, rsv1 && i == 0, i == 0 ? opcode : 0, fr[i]);
		mr_feed(&k->m, buf, l);
		off += fr[i];
	}
	h_free(buf);
}

static void params_str(char *dst, size_t cap, int level, const struct neg *g)
{
	if (g->accepted)
		snprintf(dst, cap, "L%d:c%dn%ds%dn%d", level, neg_cbits(g), g->cn, neg_sbits(g), g->sn);
	else
		snprintf(dst, cap, "L%d:declined", level);
}
static void frag_str(char *dst, size_t cap, const struct ccase *c)
{
	if (c->nfrag == 0)
		snprintf(dst, cap, "none");
	else if (c->nfrag == 1)
		snprintf(dst, cap, "%d+rest", c->f[0]);
	else
		snprintf(dst, cap, "%d+%d+rest", c->f[0], c->f[1]);
}
static void offer_slug(char *dst, size_t cap, const char *offer)
{
	size_t o = 0;
	for (const char *p = offer; *p && o + 1 < cap; p++) {
		if (*p == ' ') continue;
		dst[o++] = (*p == '\t') ? '~' : (*p == '/' ? '_' : *p);
	}
	dst[o] = 0;
}

/* s2c helper: have the module send payload, check the frame, inflate with the negotiated parameters */
static const char *check_s2c(struct conn *k, const struct neg *g, struct cinfl *ci, int opcode, const uint8_t *pl, size_t n, char *why, size_t whycap, int *compressed)
{
	mr_out_reset(&k->m);
	uint8_t *copy = h_exact(n);
	if (n) memcpy(copy, pl, n);
	int r = opcode == OPC_TEXT ? websocket_send_text_frame(k->ws, (char *)copy, n) : websocket_send_binary_frame(k->ws, copy, n);
	int same = n == 0 || memcmp(copy, pl, n) == 0;
	h_free(copy);
	*compressed = 0;
	if (k->m.bad_write) {
		snprintf(why, whycap, "%s (send returned %d; last log: %s)", k->m.bad_msg, r, g_last_log);
		return "bad-iov-len";
	}
	if (r < 0) {
		snprintf(why, whycap, "websocket_send_%s_frame returned %d for a %zu byte payload (last log: %s)", opcode == OPC_TEXT ? "text" : "binary", r, n, g_last_log);
		return "send-failed";
	}
	if (!same) {
		snprintf(why, whycap, "the module modified the caller's payload buffer");
		return "payload-modified";
	}
	struct sframe f;
	if (!parse_sframe(k->m.out, k->m.out_len, &f) || f.total != k->m.out_len) {
		snprintf(why, whycap, "module wrote %zu bytes that are not exactly one frame", k->m.out_len);
		return "frame-malformed";
	}
	vhex("<- frame payload", f.pl, (size_t)f.len);
	if (!f.fin || f.opcode != opcode || f.masked || (f.rsv & 3)) {
		snprintf(why, whycap, "frame header fin=%d rsv=%d opcode=%d masked=%d", f.fin, f.rsv, f.opcode, f.masked);
		return "frame-header";
	}
	if (f.rsv & 4) {
		if (!g->accepted) {
			snprintf(why, whycap, "RSV1 set although the offer was declined");
			return "rsv1-without-extension";
		}
		*compressed = 1;
		uint8_t *o = NULL;
		size_t on = 0;
		int rc = ci_msg(ci, f.pl, (size_t)f.len, &o, &on);
		const char *res = NULL;
		if (rc < 0) {
			snprintf(why, whycap, "client cannot inflate the %zu byte frame with window bits %d%s: %s", (size_t)f.len, neg_sbits(g), g->sn ? ", context reset" : "", ci->err);
			res = "inflate-error";
		} else if (on != n || (n && memcmp(o, pl, n) != 0)) {
			snprintf(why, whycap, "inflated %zu bytes differ from the %zu byte payload", on, n);
			res = "payload-mismatch";
		}
		h_free(o);
		return res;
	}
	if (f.len != n || (n && memcmp(f.pl, pl, n) != 0)) {
		snprintf(why, whycap, "uncompressed frame carries %zu bytes, payload was %zu", (size_t)f.len, n);
		return "payload-mismatch";
	}
	return NULL;
}

/* c2s helper: deliver a message, check the callback */
static const char *check_c2s(struct conn *k, int opcode, int rsv1, const uint8_t *wire, size_t wn, const size_t *fr, int nfr, const uint8_t *pl, size_t n, uint32_t seed, char *why, size_t whycap)
{
	int before = k->rx_msgs;
	mr_out_reset(&k->m);
	send_c2s(k, opcode, rsv1, wire, wn, fr, nfr, seed);
	if (!conn_alive(k)) {
		int code = 0;
		int cf = out_has_close_frame(k, &code);
		snprintf(why, whycap, "module closed the connection on a valid message (close frame %s code %d, on_error calls %d, last log: %s)", cf ? "sent" : "not sent", code, k->on_error_calls, g_last_log);
		return "closed";
	}
	if (k->rx_msgs == before) {
		snprintf(why, whycap, "no message callback after the final fragment");
		return "not-delivered";
	}
	if (k->rx_msgs != before + 1) {
		snprintf(why, whycap, "%d callbacks for one message", k->rx_msgs - before);
		return "delivered-twice";
	}
	if (k->rx_type != opcode) {
		snprintf(why, whycap, "delivered as type %d, sent as %d", k->rx_type, opcode);
		return "wrong-type";
	}
	if (k->rx_len != n || (n && memcmp(k->rx, pl, n) != 0)) {
		size_t d = 0;
		while (d < n && d < k->rx_len && k->rx[d] == pl[d]) d++;
		snprintf(why, whycap, "callback delivered %zu bytes, original has %zu (first difference at offset %zu)", k->rx_len, n, d);
		return "payload-mismatch";
	}
	return NULL;
}

/* ---------- section (a): negotiation ---------- */
static void run_neg(const struct ccase *c, struct verdict *v)
{
	const char *offer = g_offers[c->offer];
	struct conn k;
	struct neg g;
	char slug[140], det[200], why[300];
	offer_slug(slug, sizeof(slug), offer);
	snprintf(det, sizeof(det), "L%d/%s", c->level, slug);
	set_phase("handshake", 0);
	int r = conn_open(&k, c->level, offer, &g);
	v->hs++;
	v->g = g;
	if (r < 0 || !g.got101) {
		violate(v, "negotiation/handshake-failed", det, "no 101 response to a well-formed upgrade request with offer '%s'", offer);
		goto out;
	}
	if (g.accepted) {
		if (g.malformed) {
			violate(v, "negotiation/response-malformed", det, "response '%s': %s (offer '%s')", g.raw, g.why, offer);
			goto out;
		}
		struct offer_sem os[8];
		int no = parse_offers(offer, os, 8);
		const char *rule = "accepted-without-offer";
		for (int i = 0; i < no; i++) {
			const char *x = illegal_wrt(&g, &os[i]);
			if (!x) {
				rule = NULL;
				break;
			}
			if (os[i].is_pmd) rule = x;
		}
		if (rule) {
			char cls[96];
			snprintf(cls, sizeof(cls), "negotiation/%s", rule);
			violate(v, cls, det, "offer '%s' answered with '%s' at compression level %d", offer, g.raw, c->level);
			goto out;
		}
	}
	/* behaviour must match the answer */
	static const uint8_t hello[] = "hello, jet";
	size_t one = sizeof(hello) - 1;
	set_phase("c2s-plain", 0);
	const char *e = check_c2s(&k, OPC_TEXT, 0, hello, one, &one, 1, hello, one, 1, why, sizeof(why));
	v->trans++;
	if (e) {
		char cls[96];
		snprintf(cls, sizeof(cls), "negotiation/uncompressed-c2s-%s", e);
		violate(v, cls, det, "%s", why);
		goto out;
	}
	struct cinfl ci;
	ci_init(&ci, g.accepted ? neg_sbits(&g) : 15, g.sn);
	int comp = 0;
	set_phase("s2c", 0);
	e = check_s2c(&k, &g, &ci, OPC_TEXT, hello, one, why, sizeof(why), &comp);
	ci_end(&ci);
	v->trans++;
	if (e) {
		char cls[96];
		snprintf(cls, sizeof(cls), "negotiation/s2c-%s", e);
		violate(v, cls, det, "after offer '%s' -> '%s': %s", offer, g.accepted ? g.raw : "(declined)", why);
		goto out;
	}
	if (comp) v->nontrivial = 1;
	struct cdefl cd;
	cd_init(&cd, g.accepted ? neg_cbits(&g) : 15, g.cn);
	uint8_t *w = NULL;
	size_t wn = 0;
	cd_msg(&cd, hello, one, &w, &wn);
	cd_end(&cd);
	set_phase("c2s-compressed", 0);
	if (g.accepted) {
		e = check_c2s(&k, OPC_TEXT, 1, w, wn, &wn, 1, hello, one, 2, why, sizeof(why));
		v->trans++;
		v->nontrivial = 1;
		if (e) {
			char cls[96];
			snprintf(cls, sizeof(cls), "negotiation/compressed-c2s-%s", e);
			violate(v, cls, det, "after offer '%s' -> '%s': %s", offer, g.raw, why);
		}
	} else {
		int before = k.rx_msgs;
		mr_out_reset(&k.m);
		send_c2s(&k, OPC_TEXT, 1, w, wn, &wn, 1, 2);
		v->trans++;
		if (conn_alive(&k) || k.rx_msgs != before)
			violate(v, "negotiation/declined-but-rsv1-accepted", det, "offer '%s' was declined, yet a frame with RSV1 was %s", offer, k.rx_msgs != before ? "delivered" : "not rejected");
	}
	h_free(w);
out:
	conn_close(&k);
}

/* ---------- section (b1): client -> server round trip ---------- */
#define NMSG 3
static void run_c2s(const struct ccase *c, struct verdict *v)
{
	const char *offer = g_offers[c->offer];
	struct conn k;
	struct neg g;
	char fs[40], ps[40], det[200], why[300];
	frag_str(fs, sizeof(fs), c);
	set_phase("handshake", 0);
	int r = conn_open(&k, c->level, offer, &g);
	v->hs++;
	v->g = g;
	params_str(ps, sizeof(ps), c->level, &g);
	if (r < 0 || !g.got101 || !g.accepted || g.malformed || neg_cbits(&g) != c->cb || g.cn != c->cn) {
		snprintf(det, sizeof(det), "payload=%s/frag=%s/%s", pl_name[c->payload], fs, ps);
		violate(v, "roundtrip-c2s/negotiation-not-reproducible", det, "offer '%s' did not negotiate c%dn%d again", offer, c->cb, c->cn);
		goto out;
	}
	struct cdefl cd;
	cd_init(&cd, neg_cbits(&g), g.cn);
	for (int i = 0; i < NMSG; i++) {
		set_phase("c2s", i);
		uint8_t *w = NULL;
		size_t wn = 0;
		if (cd_msg(&cd, pl_data[c->payload], pl_len[c->payload], &w, &wn) < 0) {
			fprintf(stderr, "c19: client deflate failed\n");
			_exit(2);
		}
		size_t fr[3];
		int nfr = 0;
		size_t left = wn;
		for (int j = 0; j < c->nfrag; j++) {
			size_t a = (size_t)c->f[j] < left ? (size_t)c->f[j] : left;
			fr[nfr++] = a;
			left -= a;
		}
		fr[nfr++] = left;
		vhex("compressed message", w, wn);
		const char *e = check_c2s(&k, (i & 1) ? OPC_BIN : OPC_TEXT, 1, w, wn, fr, nfr, pl_data[c->payload], pl_len[c->payload], (uint32_t)(i + 10), why, sizeof(why));
		h_free(w);
		v->trans++;
		v->nontrivial = 1;
		if (e) {
			char cls[96];
			snprintf(cls, sizeof(cls), "roundtrip-c2s/%s", e);
			snprintf(det, sizeof(det), "payload=%s/frag=%s/msg=%d", pl_name[c->payload], fs, i);
			violate(v, cls, det, "message %d (%s, %zu bytes, %zu compressed, fragments %s) with %s: %s", i, pl_name[c->payload], pl_len[c->payload], wn, fs, ps, why);
			break;
		}
	}
	cd_end(&cd);
out:
	conn_close(&k);
}

/* ---------- section (b2): server -> client round trip ---------- */
static void run_s2c(const struct ccase *c, struct verdict *v)
{
	const char *offer = g_offers[c->offer];
	struct conn k;
	struct neg g;
	char ps[40], det[200], why[300];
	set_phase("handshake", 0);
	int r = conn_open(&k, c->level, offer, &g);
	v->hs++;
	v->g = g;
	params_str(ps, sizeof(ps), c->level, &g);
	if (r < 0 || !g.got101 || !g.accepted || g.malformed || neg_sbits(&g) != c->sb || g.sn != c->sn) {
		snprintf(det, sizeof(det), "payload=%s/%s", pl_name[c->payload], ps);
		violate(v, "roundtrip-s2c/negotiation-not-reproducible", det, "offer '%s' did not negotiate s%dn%d again", offer, c->sb, c->sn);
		goto out;
	}
	struct cinfl ci;
	ci_init(&ci, neg_sbits(&g), g.sn);
	for (int i = 0; i < NMSG; i++) {
		set_phase("s2c", i);
		int comp = 0;
		const char *e = check_s2c(&k, &g, &ci, (i & 1) ? OPC_BIN : OPC_TEXT, pl_data[c->payload], pl_len[c->payload], why, sizeof(why), &comp);
		v->trans++;
		if (comp) v->nontrivial = 1;
		if (!e && !conn_alive(&k)) {
			e = "closed";
			snprintf(why, sizeof(why), "connection closed while sending");
		}
		if (e) {
			char cls[96];
			snprintf(cls, sizeof(cls), "roundtrip-s2c/%s", e);
			snprintf(det, sizeof(det), "payload=%s/msg=%d", pl_name[c->payload], i);
			violate(v, cls, det, "server->client message %d (%s, %zu bytes) with %s: %s", i, pl_name[c->payload], pl_len[c->payload], ps, why);
			break;
		}
	}
	ci_end(&ci);
out:
	conn_close(&k);
}

/* ---------- section (c): corrupt compressed input ---------- */
#define COR_PEAK_LIMIT ((size_t)8 << 20)
static uint8_t *g_cor_bytes; /* set by the driver / replay: the compressed payload to send */
static size_t g_cor_len;

static void cor_kind(char *dst, size_t cap, const struct ccase *c)
{
	if (c->ckind == 0 && c->csplit < 0)
		snprintf(dst, cap, "len=%u", c->clen);
	else if (c->ckind == 0)
		snprintf(dst, cap, "len=%u/split=%d+%d", c->clen, c->csplit, c->clen - c->csplit);
	else
		snprintf(dst, cap, "subst/msg=%s", pl_name[c->cmsg]);
}

static void run_cor(const struct ccase *c, struct verdict *v)
{
	const char *offer = g_offers[c->offer];
	struct conn k;
	struct neg g;
	char kind[60], det[120];
	cor_kind(kind, sizeof(kind), c);
	snprintf(det, sizeof(det), "%s", kind);
	set_phase("handshake", 0);
	int r = conn_open(&k, c->level, offer, &g);
	v->hs++;
	v->g = g;
	if (r < 0 || !g.got101 || !g.accepted) {
		violate(v, "corrupt/negotiation-not-reproducible", det, "offer '%s' was not accepted", offer);
		goto out;
	}
	size_t base = mem_cur;
	mem_peak = mem_cur;
	mem_over = 0;
	set_phase("corrupt", 0);
	vhex("corrupt compressed payload", g_cor_bytes, g_cor_len);
	size_t fr[2];
	int nfr;
	if (c->csplit < 0) {
		fr[0] = g_cor_len;
		nfr = 1;
	} else {
		fr[0] = (size_t)c->csplit;
		fr[1] = g_cor_len - fr[0];
		nfr = 2;
	}
	int before = k.rx_msgs;
	mr_out_reset(&k.m);
	send_c2s(&k, OPC_BIN, 1, g_cor_bytes, g_cor_len, fr, nfr, 77);
	v->trans++;
	v->nontrivial = 1;
	int delivered = k.rx_msgs - before;
	if (!conn_alive(&k)) {
		int code = 0;
		if (!out_has_close_frame(&k, &code))
			violate(v, "corrupt/closed-without-close-frame", det, "connection closed without a close frame");
		if (g_verbose) printf("  outcome: rejected, close code %d, %d message(s) delivered before\n", code, delivered);
	} else if (delivered == 0) {
		violate(v, "corrupt/no-delivery-no-reject", det, "message neither delivered nor rejected");
	} else {
		if (g_verbose) printf("  outcome: delivered %zu bytes\n", k.rx_len);
		/* the connection stays usable or fails cleanly: push one valid message through the surviving state */
		static const uint8_t hello[] = "hello hello hello";
		struct cdefl cd;
		cd_init(&cd, neg_cbits(&g), 1);
		uint8_t *w = NULL;
		size_t wn = 0;
		cd_msg(&cd, hello, sizeof(hello) - 1, &w, &wn);
		cd_end(&cd);
		set_phase("followup", 1);
		send_c2s(&k, OPC_TEXT, 1, w, wn, &wn, 1, 78);
		v->trans++;
		h_free(w);
	}
	v->peak = mem_peak - base;
	if (mem_over || v->peak > COR_PEAK_LIMIT)
		violate(v, "corrupt/memory-unbounded", det, "peak allocation %zu bytes for a %zu byte compressed message (limit %zu)%s", v->peak, g_cor_len, COR_PEAK_LIMIT, mem_over ? ", hard cap hit" : "");
out:
	conn_close(&k);
}

static void run_case(const struct ccase *c, struct verdict *v)
{
	memset(v, 0, sizeof(*v));
	size_t before = mem_cur;
	g_last_log[0] = 0;
	switch (c->sec) {
	case SEC_NEG: run_neg(c, v); break;
	case SEC_C2S: run_c2s(c, v); break;
	case SEC_S2C: run_s2c(c, v); break;
	case SEC_COR: run_cor(c, v); break;
	}
	v->leaked = mem_cur > before ? mem_cur - before : 0;
	g_conn = NULL;
}

#endif
