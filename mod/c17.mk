# C17: hopscotch hash tables behave as exact finite maps.  make -C /verif/mod c17
# One object per (key type, hop width, order) instantiation of the REAL macros in
# $(REPO)/src/hashtable.h, all linked with the driver c17_hashtable.c.
C17_DIR      = /verif/mod
C17_OBJDIR   = $(OUT)/c17.objs
C17_REPODEPS = $(REPO)/src/hashtable.h $(REPO)/src/alloc.h $(REPO)/src/compiler.h
C17_H32_ORDERS = 2 3 4 5 6 7 8 9 10 11 12 13
C17_H8_ORDERS  = 4 5 6
C17_OBJS =

# $(1)=key type number  $(2)=hop bits  $(3)=order  $(4)=value_entries
define C17_INST_RULE
$(C17_OBJDIR)/inst_k$(1)_h$(2)_o$(3).o: $(C17_DIR)/c17_inst.c $(C17_DIR)/c17_inst.h $(C17_REPODEPS) $(GEN)/def/generated/cjet_config.h | $(C17_OBJDIR)
	$(CC) $(CFLAGS) -Wall -Wextra -I$(C17_DIR) -DC17_KT=$(1) -DC17_HOP=$(2) -DC17_ORDER=$(3) -DC17_VALS=$(4) -c $$< -o $$@
C17_OBJS += $(C17_OBJDIR)/inst_k$(1)_h$(2)_o$(3).o
endef

# string tables use value_entries 1 exactly like table.c / router.c; the integer
# keyed ones use 2 so that multi-word value copies are exercised as well.
$(foreach o,$(C17_H32_ORDERS),$(eval $(call C17_INST_RULE,0,32,$(o),1)))
$(foreach o,$(C17_H32_ORDERS),$(eval $(call C17_INST_RULE,1,32,$(o),2)))
$(foreach o,$(C17_H32_ORDERS),$(eval $(call C17_INST_RULE,2,32,$(o),2)))
$(foreach o,$(C17_H8_ORDERS),$(eval $(call C17_INST_RULE,0,8,$(o),1)))
$(foreach o,$(C17_H8_ORDERS),$(eval $(call C17_INST_RULE,1,8,$(o),2)))
$(foreach o,$(C17_H8_ORDERS),$(eval $(call C17_INST_RULE,2,8,$(o),2)))

$(C17_OBJDIR):
	mkdir -p $(C17_OBJDIR)

$(C17_OBJDIR)/driver.o: $(C17_DIR)/c17_hashtable.c $(C17_DIR)/c17_core.h $(C17_DIR)/c17_search.h $(C17_DIR)/c17_inst.h $(C17_REPODEPS) $(GEN)/def/generated/cjet_config.h | $(C17_OBJDIR)
	$(CC) $(CFLAGS) -Wall -Wextra -I$(C17_DIR) -c $< -o $@

.PHONY: c17
c17: $(OUT)/c17
$(OUT)/c17: $(C17_OBJDIR)/driver.o $(C17_OBJS) | $(OUT)
	$(CC) $(CFLAGS) -o $@ $(C17_OBJDIR)/driver.o $(C17_OBJS)
