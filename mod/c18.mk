# C18 - UTF-8 validator (Engine B).  make -C /verif/mod c18
C18_SRC = /verif/mod/c18_utf8.c
C18_HDR = /verif/mod/c18_core.h /verif/mod/c18_run.h /verif/mod/c18_sections.h
C18_DEP = $(REPO)/src/utf8_checker.c $(REPO)/src/utf8_checker.h

.PHONY: c18
c18: $(OUT)/c18

$(OUT)/c18: $(C18_SRC) $(C18_HDR) $(C18_DEP) /verif/mod/c18.mk | $(OUT)
	$(CC) $(CFLAGS) -Wall -Wextra -o $@ $(C18_SRC)
