/*
 * C19 - permessage-deflate: lossless round trip, bounded memory, legal negotiation.
 *
 * Module harness (exhaustive bounded enumeration).  Links the REAL websocket.c, compression.c,
 * http_connection.c, http-parser and the in-tree zlib under ASan+UBSan.  The harness is the CLIENT
 * (own raw-deflate codec on top of zlib, RFC 7692 framing), the module under test is the SERVER side
 * created through init_http_connection2(..., compression_level) + websocket_init and fed a real HTTP
 * upgrade request through an in-memory struct buffered_reader.
 *
 * Sections: (a) negotiation, (b1) client->server round trip, (b2) server->client round trip,
 * (c) corrupt compressed input.  Cases run in fork()ed workers; a sanitizer report / signal / hang is
 * attributed to the case the worker was executing and the sweep continues behind it.
 */
#include "c19_cases.h"

#include <errno.h>
#include <fcntl.h>
#include <signal.h>
#include <sys/mman.h>
#include <sys/stat.h>
#include <sys/wait.h>
#include <time.h>
#include <unistd.h>

extern void __sanitizer_symbolize_pc(void *pc, const char *fmt, char *out_buf, size_t out_buf_size);

const char *__asan_default_options(void)
{
	return "detect_leaks=0:allocator_may_return_null=1:exitcode=1:abort_on_error=0:handle_abort=1:symbolize=1:"
	       "detect_stack_use_after_return=0:malloc_context_size=8";
}
const char *__ubsan_default_options(void) { return "print_stacktrace=1:halt_on_error=1:exitcode=1"; }

static double now_s(void)
{
	struct timespec ts;
	clock_gettime(CLOCK_MONOTONIC, &ts);
	return (double)ts.tv_sec + (double)ts.tv_nsec / 1e9;
}

/* ------------------------------------------------------------------ case lists */
static struct ccase *g_cases;
static size_t g_ncases, g_cases_cap;
static void push_case(const struct ccase *c)
{
	if (g_ncases == g_cases_cap) {
		g_cases_cap = g_cases_cap ? g_cases_cap * 2 : 4096;
		g_cases = h_realloc(g_cases, g_cases_cap * sizeof(*g_cases));
	}
	g_cases[g_ncases++] = *c;
}

static int g_thorough;
static const int level_order[3] = {2, 1, 3};

/* base compressed messages for the substitution sweep, per level */
static uint8_t *g_base[4][NPAY];
static size_t g_base_len[4][NPAY];

static void cor_prepare(const struct ccase *c)
{
	h_free(g_cor_bytes);
	if (c->ckind == 0) {
		g_cor_len = c->clen;
		g_cor_bytes = h_malloc(2);
		memcpy(g_cor_bytes, c->cbytes, 2);
	} else {
		g_cor_len = g_base_len[c->ccfg][c->cmsg];
		g_cor_bytes = h_malloc(g_cor_len);
		memcpy(g_cor_bytes, g_base[c->ccfg][c->cmsg], g_cor_len);
		g_cor_bytes[c->cpos] = c->cval;
	}
}

/* --- section (a) offers --- */
static const char *const P_CMWB = "client_max_window_bits";
static const char *const P_SMWB = "server_max_window_bits";
static const char *const P_CN = "client_no_context_takeover";
static const char *const P_SN = "server_no_context_takeover";

static void perm_rec(char parts[4][40], int n, int *used, int *order, int depth, size_t *first, size_t *count)
{
	if (depth == n) {
		char buf[200] = "permessage-deflate";
		for (int i = 0; i < n; i++) {
			strcat(buf, "; ");
			strcat(buf, parts[order[i]]);
		}
		uint32_t id = add_offer(buf);
		if (*count == 0) *first = id;
		(*count)++;
		return;
	}
	for (int i = 0; i < n; i++) {
		if (used[i]) continue;
		used[i] = 1;
		order[depth] = i;
		perm_rec(parts, n, used, order, depth + 1, first, count);
		used[i] = 0;
	}
}

/* lattice offers used to find the accepted parameter sets for section (b); canonical order */
struct lattice {
	uint32_t offer;
	int reduced;
};
static struct lattice *g_lat;
static size_t g_nlat;

static const char *const extras[] = {
    "",
    "permessage-deflate",
    "permessage-deflate;",
    "permessage-deflate; ",
    "permessage-deflate;;",
    "permessage-deflate ; client_max_window_bits",
    "permessage-deflate;client_max_window_bits;server_no_context_takeover",
    "permessage-deflate;\tclient_max_window_bits",
    "permessage-deflate;  client_max_window_bits=10",
    "permessage-deflate; client_max_window_bits;",
    "permessage-deflate; client_max_window_bits; ",
    "Permessage-Deflate",
    "permessage-deflat",
    "permessage-deflate2",
    "permessage -deflate",
    "x-webkit-deflate-frame",
    "foo",
    "foo; client_max_window_bits",
    "permessage-deflate garbage",
    "permessage-deflate; foo",
    "permessage-deflate; foo=1",
    "permessage-deflate; client_max_window_bits=10; foo=1",
    "permessage-deflate; abcdefghijklmnopqrstuvw",
    "permessage-deflate; abcdefghijklmnopqrstuvwxyz0123",
    /* duplicates */
    "permessage-deflate; client_no_context_takeover; client_no_context_takeover",
    "permessage-deflate; server_no_context_takeover; server_no_context_takeover",
    "permessage-deflate; client_max_window_bits; client_max_window_bits",
    "permessage-deflate; client_max_window_bits; client_max_window_bits=10",
    "permessage-deflate; client_max_window_bits=10; client_max_window_bits",
    "permessage-deflate; client_max_window_bits=10; client_max_window_bits=12",
    "permessage-deflate; server_max_window_bits=10; server_max_window_bits=12",
    "permessage-deflate; server_max_window_bits=12; server_max_window_bits=10",
    "permessage-deflate; server_max_window_bits=10; client_max_window_bits; server_max_window_bits=10",
    /* malformed values */
    "permessage-deflate; client_max_window_bits=16",
    "permessage-deflate; client_max_window_bits=7",
    "permessage-deflate; client_max_window_bits=1x",
    "permessage-deflate; client_max_window_bits=",
    "permessage-deflate; client_max_window_bits=0",
    "permessage-deflate; client_max_window_bits=1",
    "permessage-deflate; client_max_window_bits=08",
    "permessage-deflate; client_max_window_bits=015",
    "permessage-deflate; client_max_window_bits=99",
    "permessage-deflate; client_max_window_bits=-1",
    "permessage-deflate; client_max_window_bits= 15",
    "permessage-deflate; client_max_window_bits =15",
    "permessage-deflate; client_max_window_bits=1 5",
    "permessage-deflate; client_max_window_bits=15x",
    "permessage-deflate; client_max_window_bits=9x",
    "permessage-deflate; client_max_window_bits=\"10\"",
    "permessage-deflate; client_max_window_bits=15 garbage",
    "permessage-deflate; client_max_window_bitsX",
    "permessage-deflate; client_max_window_bits_foo=10",
    "permessage-deflate; server_max_window_bits",
    "permessage-deflate; server_max_window_bits=16",
    "permessage-deflate; server_max_window_bits=7",
    "permessage-deflate; server_max_window_bits=1x",
    "permessage-deflate; server_max_window_bits=",
    "permessage-deflate; server_max_window_bits=0",
    "permessage-deflate; server_max_window_bits=1",
    "permessage-deflate; server_max_window_bits=08",
    "permessage-deflate; server_max_window_bits=015",
    "permessage-deflate; server_max_window_bits=99",
    "permessage-deflate; server_max_window_bits= 15",
    "permessage-deflate; server_max_window_bits =15",
    "permessage-deflate; server_max_window_bits=15x",
    "permessage-deflate; server_max_window_bits=\"10\"",
    "permessage-deflate; server_max_window_bitsX=10",
    "permessage-deflate; server_max_window_bit",
    "permessage-deflate; client_no_context_takeover=1",
    "permessage-deflate; client_no_context_takeoverXYZ",
    "permessage-deflate; client_no_context_takeove",
    "permessage-deflate; server_no_context_takeover=1",
    "permessage-deflate; server_no_context_takeoverXYZ",
    "permessage-deflate; server_no_context_takeove",
    /* 5 and more parameters */
    "permessage-deflate; client_max_window_bits; server_max_window_bits=10; client_no_context_takeover; server_no_context_takeover; foo",
    "permessage-deflate; client_max_window_bits; server_max_window_bits=10; client_no_context_takeover; server_no_context_takeover; client_max_window_bits",
    "permessage-deflate; client_max_window_bits; server_max_window_bits=10; client_no_context_takeover; server_no_context_takeover;",
    "permessage-deflate; a; b; c; d; e",
    "permessage-deflate; a; b; c; d; e; f; g; h",
    "permessage-deflate;;;;;;;;",
    "permessage-deflate; client_max_window_bits=15; server_max_window_bits=15; client_no_context_takeover; server_no_context_takeover",
    "permessage-deflate; client_no_context_takeover; server_no_context_takeover; client_max_window_bits=15; server_max_window_bits=15; ",
};
static const char *const pair_set[] = {
    "permessage-deflate",
    "permessage-deflate; client_max_window_bits",
    "permessage-deflate; client_max_window_bits=10",
    "permessage-deflate; server_max_window_bits=10",
    "permessage-deflate; client_no_context_takeover",
    "permessage-deflate; server_no_context_takeover; client_max_window_bits=9; server_max_window_bits=9",
    "permessage-deflate; server_max_window_bits=8",
    "permessage-deflate; client_max_window_bits=9; bogus",
    "permessage-deflate; server_max_window_bits=10; server_max_window_bits=16",
    "permessage-deflate; client_no_context_takeover; client_max_window_bits=7",
    "permessage-deflate; client_max_window_bits=12; client_max_window_bits",
    "x-webkit-deflate-frame",
    "foo; client_max_window_bits=15",
};

static void build_neg_cases(void)
{
	size_t first_offer = g_noffers;
	/* the product, every permutation */
	for (int c = 0; c < 10; c++)         /* 0 absent, 1 valueless, 2..9 -> =8..15 */
		for (int s = 0; s < 9; s++)      /* 0 absent, 1..8 -> =8..15 */
			for (int cn = 0; cn < 2; cn++)
				for (int sn = 0; sn < 2; sn++) {
					char parts[4][40];
					int n = 0;
					if (c == 1) snprintf(parts[n++], 40, "%s", P_CMWB);
					if (c >= 2) snprintf(parts[n++], 40, "%s=%d", P_CMWB, c + 6);
					if (s >= 1) snprintf(parts[n++], 40, "%s=%d", P_SMWB, s + 7);
					if (cn) snprintf(parts[n++], 40, "%s", P_CN);
					if (sn) snprintf(parts[n++], 40, "%s", P_SN);
					int used[4] = {0}, order[4];
					size_t first = 0, count = 0;
					perm_rec(parts, n, used, order, 0, &first, &count);
					int cbits = c >= 2 ? c + 6 : 0, sbits = s >= 1 ? s + 7 : 0;
					int red = (c < 2 || cbits == 9 || cbits == 10 || cbits == 12 || cbits == 15) && (s < 1 || sbits == 9 || sbits == 10 || sbits == 12 || sbits == 15);
					g_lat = h_realloc(g_lat, (g_nlat + 1) * sizeof(*g_lat));
					g_lat[g_nlat].offer = (uint32_t)first;
					g_lat[g_nlat].reduced = red;
					g_nlat++;
				}
	for (size_t i = 0; i < sizeof(extras) / sizeof(extras[0]); i++) add_offer(extras[i]);
	static const char *const seps[] = {", ", ",", "|"};
	size_t np = sizeof(pair_set) / sizeof(pair_set[0]);
	for (size_t a = 0; a < np; a++)
		for (size_t b = 0; b < np; b++)
			for (int s = 0; s < 3; s++) {
				char buf[400];
				snprintf(buf, sizeof(buf), "%s%s%s", pair_set[a], seps[s], pair_set[b]);
				add_offer(buf);
			}
	add_offer("permessage-deflate; bogus, permessage-deflate; client_max_window_bits=9; bogus, permessage-deflate; client_max_window_bits");
	size_t last_offer = g_noffers;
	for (int li = 0; li < 3; li++)
		for (size_t o = first_offer; o < last_offer; o++) {
			struct ccase c;
			memset(&c, 0, sizeof(c));
			c.sec = SEC_NEG;
			c.level = (uint8_t)level_order[li];
			c.offer = (uint32_t)o;
			c.csplit = -1;
			c.rank = (uint32_t)((o - first_offer) * 3 + (size_t)li);
			push_case(&c);
		}
}

/* ------------------------------------------------------------------ shared state + workers */
struct cres {
	uint8_t st; /* 0 not run, 1 held, 2 violation (harness oracle), 3 crash/hang */
	uint8_t nontrivial, acc, malformed;
	int8_t cb, cn, sb, sn;
	uint16_t trans, hs;
	uint32_t peak_kb, leaked;
};
struct vrec {
	uint32_t idx;
	char cls[96], key[256], msg[480];
};
#define VLOG_CAP 65536
struct shared {
	volatile uint32_t nv;    /* violations appended (may exceed VLOG_CAP) */
	struct vrec v[VLOG_CAP];
};
static struct cres *g_res;
static struct shared *g_sh;
static struct progress *g_slots;
static int g_jobs = 16;
static double g_deadline_at;
static int g_deadline_hit;

static void *shm(size_t n)
{
	void *p = mmap(NULL, n ? n : 1, PROT_READ | PROT_WRITE, MAP_SHARED | MAP_ANONYMOUS, -1, 0);
	if (p == MAP_FAILED) {
		perror("mmap");
		exit(2);
	}
	return p;
}

static void log_violation(uint32_t idx, const char *cls, const char *key, const char *msg)
{
	uint32_t i = __sync_fetch_and_add(&g_sh->nv, 1);
	if (i >= VLOG_CAP) return;
	struct vrec *r = &g_sh->v[i];
	r->idx = idx;
	snprintf(r->cls, sizeof(r->cls), "%s", cls);
	snprintf(r->key, sizeof(r->key), "%s", key);
	snprintf(r->msg, sizeof(r->msg), "%s", msg);
}

static void exec_case(size_t i, struct verdict *v)
{
	const struct ccase *c = &g_cases[i];
	if (c->sec == SEC_COR) cor_prepare(c);
	run_case(c, v);
}

static void child_range(int slot, size_t lo, size_t hi)
{
	g_prog = &g_slots[slot];
	for (size_t i = lo; i < hi; i++) {
		g_prog->cur = (uint32_t)i;
		g_prog->msg = 0;
		g_prog->phase[0] = 0;
		alarm(60);
		struct verdict v;
		exec_case(i, &v);
		alarm(0);
		struct cres *r = &g_res[i];
		r->nontrivial = (uint8_t)v.nontrivial;
		r->trans = (uint16_t)v.trans;
		r->hs = (uint16_t)v.hs;
		r->acc = (uint8_t)(v.g.got101 && v.g.accepted);
		r->malformed = (uint8_t)v.g.malformed;
		r->cb = (int8_t)neg_cbits(&v.g);
		r->sb = (int8_t)neg_sbits(&v.g);
		r->cn = (int8_t)v.g.cn;
		r->sn = (int8_t)v.g.sn;
		r->peak_kb = (uint32_t)(v.peak >> 10);
		r->leaked = (uint32_t)v.leaked;
		if (v.violated) {
			log_violation((uint32_t)i, v.cls, v.key, v.msg);
			r->st = 2;
		} else {
			r->st = 1;
		}
	}
}

/* --- sanitizer report -> stable class --- */
static void slugify(char *dst, size_t cap, const char *s, int maxwords)
{
	size_t o = 0;
	int words = 0, inword = 0;
	for (; *s && *s != '\n' && o + 2 < cap; s++) {
		if (isalpha((unsigned char)*s) || *s == '_') {
			dst[o++] = (char)tolower((unsigned char)*s);
			inword = 1;
		} else if (inword) {
			if (++words >= maxwords) break;
			dst[o++] = '-';
			inword = 0;
		}
	}
	while (o && dst[o - 1] == '-') o--;
	dst[o] = 0;
}
static char g_where[240];
static void parse_san(const char *txt, const char *srcroot, char *errtype, size_t ecap, char *func, size_t fcap, char *summary, size_t scap)
{
	errtype[0] = func[0] = summary[0] = 0;
	g_where[0] = 0;
	const char *p = strstr(txt, "ERROR: AddressSanitizer: ");
	const char *u = strstr(txt, "runtime error: ");
	if (p && (!u || p < u)) {
		p += strlen("ERROR: AddressSanitizer: ");
		size_t o = 0;
		while (*p && *p != ' ' && *p != '\n' && *p != ':' && o + 1 < ecap) errtype[o++] = *p++;
		errtype[o] = 0;
	} else if (u) {
		char sl[64];
		slugify(sl, sizeof(sl), u + strlen("runtime error: "), 5);
		snprintf(errtype, ecap, "ubsan-%s", sl);
	}
	const char *start = p ? p : (u ? u : txt);
	char firstfn[80] = "";
	for (const char *l = start; l && *l; l = strchr(l, '\n')) {
		if (*l == '\n') l++;
		const char *q = l;
		while (*q == ' ') q++;
		if (*q != '#') {
			if (firstfn[0] && (strncmp(q, "0x", 2) == 0 || strncmp(q, "SUMMARY", 7) == 0 || *q == '\n' || strncmp(q, "allocated", 9) == 0 || strncmp(q, "freed", 5) == 0)) break;
			continue;
		}
		const char *in = strstr(q, " in ");
		const char *eol = strchr(q, '\n');
		if (!in || (eol && in > eol)) continue;
		in += 4;
		char fn[80];
		size_t o = 0;
		while (in[o] && in[o] != ' ' && in[o] != '\n' && o + 1 < sizeof(fn)) fn[o] = in[o], o++;
		fn[o] = 0;
		if (!firstfn[0]) snprintf(firstfn, sizeof(firstfn), "%s", fn);
		const char *file = in + o;
		size_t ll = eol ? (size_t)(eol - file) : strlen(file);
		if (memmem(file, ll, "c19_", 4)) continue;
		if (memmem(file, ll, srcroot, strlen(srcroot))) {
			snprintf(func, fcap, "%s", fn);
			while (ll && *file == ' ') file++, ll--;
			snprintf(g_where, sizeof(g_where), "%s %.*s", fn, (int)(ll > 150 ? 150 : ll), file);
			break;
		}
	}
	if (!func[0]) snprintf(func, fcap, "%s", firstfn[0] ? firstfn : "unknown");
	const char *s = strstr(txt, "SUMMARY: ");
	if (s) {
		size_t o = 0;
		while (s[o] && s[o] != '\n' && o + 1 < scap) summary[o] = s[o], o++;
		summary[o] = 0;
	} else if (u) {
		const char *b = u;
		while (b > txt && b[-1] != '\n') b--;
		size_t o = 0;
		while (b[o] && b[o] != '\n' && o + 1 < scap) summary[o] = b[o], o++;
		summary[o] = 0;
	}
}

#ifndef C19_SRCROOT
#define C19_SRCROOT "/repo/src/"
#endif
static const char *g_srcroot = C19_SRCROOT;

static void crash_key(const struct ccase *c, const struct progress *pg, int status, const char *errtxt, char *cls, size_t ccap, char *key, size_t kcap, char *msg, size_t mcap)
{
	char et[80], fn[80], sum[300];
	parse_san(errtxt, g_srcroot, et, sizeof(et), fn, sizeof(fn), sum, sizeof(sum));
	if (!et[0]) {
		if (WIFSIGNALED(status) && WTERMSIG(status) == SIGALRM)
			snprintf(et, sizeof(et), "hang");
		else if (WIFSIGNALED(status))
			snprintf(et, sizeof(et), "signal-%d", WTERMSIG(status));
		else
			snprintf(et, sizeof(et), "exit-%d", WEXITSTATUS(status));
		snprintf(fn, sizeof(fn), "%s", pg->phase[0] ? pg->phase : "unknown");
	}
	snprintf(cls, ccap, "%s/%s@%s", sec_name[c->sec], et, fn);
	char det[220], fs[40], slug[140], kind[60];
	switch (c->sec) {
	case SEC_NEG:
		offer_slug(slug, sizeof(slug), g_offers[c->offer]);
		snprintf(det, sizeof(det), "%s/%s", pg->phase, slug);
		break;
	case SEC_C2S:
		frag_str(fs, sizeof(fs), c);
		snprintf(det, sizeof(det), "payload=%s/frag=%s/msg=%d", pl_name[c->payload], fs, pg->msg);
		break;
	case SEC_S2C:
		snprintf(det, sizeof(det), "payload=%s/msg=%d", pl_name[c->payload], pg->msg);
		break;
	default:
		cor_kind(kind, sizeof(kind), c);
		snprintf(det, sizeof(det), "%s/%s", pg->phase, kind);
		break;
	}
	snprintf(key, kcap, "%s/%s", cls, det);
	snprintf(msg, mcap, "level %d, offer '%s' (c%dn%ds%dn%d): process died in phase '%s' (message %d): %s%s%s", c->level, g_offers[c->offer], c->cb, c->cn, c->sb, c->sn, pg->phase, pg->msg, sum[0] ? sum : et, g_where[0] ? "; first module frame: " : "", g_where);
}

static char *read_fd_all(int fd)
{
	off_t n = lseek(fd, 0, SEEK_END);
	if (n < 0) n = 0;
	if (n > 65536) n = 65536;
	char *b = h_malloc((size_t)n + 1);
	ssize_t r = pread(fd, b, (size_t)n, 0);
	if (r < 0) r = 0;
	b[r] = 0;
	return b;
}

struct phase_ctl {
	volatile uint64_t next, done;
	volatile int deadline_hit;
};
static struct phase_ctl *g_ctl;

/* one of g_jobs supervisors: grabs chunks, runs each in a forked worker, attributes a dying worker to the
 * case it was executing and restarts behind it (forking is the bottleneck when many cases crash, so it is
 * spread over the supervisors) */
static void supervisor(int slot, size_t to, size_t chunk)
{
	for (;;) {
		if (g_deadline_at > 0 && now_s() > g_deadline_at) {
			g_ctl->deadline_hit = 1;
			break;
		}
		size_t lo = (size_t)__sync_fetch_and_add(&g_ctl->next, (uint64_t)chunk);
		if (lo >= to) break;
		size_t hi = lo + chunk < to ? lo + chunk : to;
		while (lo < hi) {
			int fd = memfd_create("c19-stderr", 0);
			if (fd < 0) {
				perror("memfd_create");
				_exit(2);
			}
			g_slots[slot].cur = (uint32_t)lo;
			g_slots[slot].msg = 0;
			g_slots[slot].phase[0] = 0;
			pid_t pid = fork();
			if (pid < 0) {
				perror("fork");
				_exit(2);
			}
			if (pid == 0) {
				dup2(fd, 2);
				close(fd);
				child_range(slot, lo, hi);
				_exit(0);
			}
			int st;
			while (waitpid(pid, &st, 0) < 0)
				if (errno != EINTR) {
					perror("waitpid");
					_exit(2);
				}
			if (WIFEXITED(st) && WEXITSTATUS(st) == 0) {
				__sync_fetch_and_add(&g_ctl->done, (uint64_t)(hi - lo));
				lo = hi;
			} else if (WIFEXITED(st) && WEXITSTATUS(st) == 2) {
				char *e = read_fd_all(fd);
				fprintf(stderr, "c19: worker reported a harness error at case %u: %s\n", g_slots[slot].cur, e);
				_exit(2);
			} else {
				size_t cur = g_slots[slot].cur;
				char *e = read_fd_all(fd);
				char cls[200], key[400], msg[600];
				crash_key(&g_cases[cur], &g_slots[slot], st, e, cls, sizeof(cls), key, sizeof(key), msg, sizeof(msg));
				h_free(e);
				log_violation((uint32_t)cur, cls, key, msg);
				g_res[cur].st = 3;
				__sync_fetch_and_add(&g_ctl->done, (uint64_t)(cur + 1 - lo));
				lo = cur + 1;
			}
			close(fd);
		}
	}
}

/* runs cases [from,to) with g_jobs supervisors; returns 1 when all were run */
static int run_phase(size_t from, size_t to, size_t chunk)
{
	g_ctl->next = from;
	g_ctl->done = 0;
	fflush(NULL);
	pid_t *pids = h_malloc(sizeof(pid_t) * (size_t)g_jobs);
	for (int s = 0; s < g_jobs; s++) {
		pids[s] = fork();
		if (pids[s] < 0) {
			perror("fork");
			exit(2);
		}
		if (pids[s] == 0) {
			supervisor(s, to, chunk);
			_exit(0);
		}
	}
	for (int s = 0; s < g_jobs; s++) {
		int st;
		while (waitpid(pids[s], &st, 0) < 0)
			if (errno != EINTR) {
				perror("waitpid");
				exit(2);
			}
		if (!(WIFEXITED(st) && WEXITSTATUS(st) == 0)) {
			fprintf(stderr, "c19: supervisor %d failed (status 0x%x)\n", s, st);
			exit(2);
		}
	}
	h_free(pids);
	if (g_ctl->deadline_hit) g_deadline_hit = 1;
	return g_ctl->done == (uint64_t)(to - from);
}

/* re-run one case in a fresh child; returns its key ("" = held) */
static void rerun_key(size_t idx, char *key, size_t kcap, char *msg, size_t mcap)
{
	int fd = memfd_create("c19-stderr", 0);
	uint32_t nv0 = g_sh->nv;
	g_slots[0].cur = (uint32_t)idx;
	fflush(NULL);
	pid_t pid = fork();
	if (pid == 0) {
		dup2(fd, 2);
		child_range(0, idx, idx + 1);
		_exit(0);
	}
	int st;
	waitpid(pid, &st, 0);
	key[0] = 0;
	if (WIFEXITED(st) && WEXITSTATUS(st) == 0) {
		if (g_sh->nv > nv0 && nv0 < VLOG_CAP) {
			snprintf(key, kcap, "%s", g_sh->v[nv0].key);
			snprintf(msg, mcap, "%s", g_sh->v[nv0].msg);
		}
	} else {
		char *e = read_fd_all(fd);
		char cls[200];
		crash_key(&g_cases[idx], &g_slots[0], st, e, cls, sizeof(cls), key, kcap, msg, mcap);
		h_free(e);
	}
	/* drop the duplicate record again */
	g_sh->nv = nv0;
	close(fd);
}

/* ------------------------------------------------------------------ section (b), (c) case construction */
struct pset {
	int level, cb, cn, sb, sn, reduced;
	uint32_t offer;
};
static struct pset *g_sets;
static size_t g_nsets;

static void build_sets(size_t neg_from, size_t neg_to)
{
	for (int li = 0; li < 3; li++) {
		int level = level_order[li];
		if (!g_thorough && level != 2) continue;
		for (int pass = 0; pass < 2; pass++) /* reduced lattice first */
			for (size_t l = 0; l < g_nlat; l++) {
				if (g_lat[l].reduced != (pass == 0)) continue;
				if (!g_thorough && !g_lat[l].reduced) continue;
				size_t ci = (size_t)-1;
				for (size_t i = neg_from; i < neg_to; i++)
					if (g_cases[i].offer == g_lat[l].offer && g_cases[i].level == level) {
						ci = i;
						break;
					}
				if (ci == (size_t)-1) continue;
				const struct cres *r = &g_res[ci];
				if (r->st != 1 || !r->acc || r->malformed) continue;
				int dup = 0;
				for (size_t k = 0; k < g_nsets; k++)
					if (g_sets[k].level == level && g_sets[k].cb == r->cb && g_sets[k].cn == r->cn && g_sets[k].sb == r->sb && g_sets[k].sn == r->sn) dup = 1;
				if (dup) continue;
				g_sets = h_realloc(g_sets, (g_nsets + 1) * sizeof(*g_sets));
				struct pset *p = &g_sets[g_nsets++];
				p->level = level;
				p->cb = r->cb;
				p->cn = r->cn;
				p->sb = r->sb;
				p->sn = r->sn;
				p->offer = g_lat[l].offer;
				p->reduced = g_lat[l].reduced;
			}
	}
}

static const int FS[4] = {1, 2, 7, 64};
static int cmp_rank(const void *a, const void *b)
{
	const struct ccase *x = a, *y = b;
	return x->rank < y->rank ? -1 : x->rank > y->rank;
}

static void build_rt_cases(size_t *c2s_from, size_t *c2s_to, size_t *s2c_from, size_t *s2c_to)
{
	*c2s_from = g_ncases;
	for (size_t si = 0; si < g_nsets; si++) {
		const struct pset *p = &g_sets[si];
		struct cdefl cd;
		for (int pay = 0; pay < NPAY; pay++) {
			/* length of the first compressed message decides which fragmentations exist */
			cd_init(&cd, p->cb, p->cn);
			uint8_t *w;
			size_t wn;
			cd_msg(&cd, pl_data[pay], pl_len[pay], &w, &wn);
			h_free(w);
			cd_end(&cd);
			for (int nf = 0; nf <= 2; nf++)
				for (int a = 0; a < (nf >= 1 ? 4 : 1); a++)
					for (int b = 0; b < (nf >= 2 ? 4 : 1); b++) {
						size_t sum = (nf >= 1 ? (size_t)FS[a] : 0) + (nf >= 2 ? (size_t)FS[b] : 0);
						if (sum > wn) continue;
						struct ccase c;
						memset(&c, 0, sizeof(c));
						c.sec = SEC_C2S;
						c.level = (uint8_t)p->level;
						c.payload = (uint8_t)pay;
						c.nfrag = (uint8_t)nf;
						c.f[0] = (int16_t)(nf >= 1 ? FS[a] : 0);
						c.f[1] = (int16_t)(nf >= 2 ? FS[b] : 0);
						c.offer = p->offer;
						c.cb = (int8_t)p->cb;
						c.cn = (int8_t)p->cn;
						c.sb = (int8_t)p->sb;
						c.sn = (int8_t)p->sn;
						c.acc = 1;
						c.csplit = -1;
						c.rank = (uint32_t)(((((size_t)pay * 3 + (size_t)nf) * 4 + (size_t)a) * 4 + (size_t)b) * 4096 + si);
						push_case(&c);
					}
			/* dense sweep: EVERY pair of small prefix sizes, so that each boundary of the reassembly buffer
			 * (fragment exactly fills / is one short of / one beyond the space left, first and second growth)
			 * is met without the harness knowing the growth rule */
			int dense_set = g_thorough ? (si % 16 == 0 || si + 1 == g_nsets) : (si == 0 || si + 1 == g_nsets);
			if (dense_set) {
				int amax = g_thorough ? 12 : 8, bmax = g_thorough ? 72 : 40;
				for (int a = 0; a <= amax; a++)
					for (int b = 0; b <= bmax; b++) {
						int dup = 0;
						for (int x = 0; x < 4; x++)
							for (int y = 0; y < 4; y++)
								if (FS[x] == a && FS[y] == b) dup = 1;
						if (dup || (size_t)(a + b) > wn) continue;
						struct ccase c;
						memset(&c, 0, sizeof(c));
						c.sec = SEC_C2S;
						c.level = (uint8_t)p->level;
						c.payload = (uint8_t)pay;
						c.nfrag = 2;
						c.f[0] = (int16_t)a;
						c.f[1] = (int16_t)b;
						c.offer = p->offer;
						c.cb = (int8_t)p->cb;
						c.cn = (int8_t)p->cn;
						c.sb = (int8_t)p->sb;
						c.sn = (int8_t)p->sn;
						c.acc = 1;
						c.csplit = -1;
						c.rank = 0x80000000u + (uint32_t)((((size_t)pay * 16 + (size_t)a) * 128 + (size_t)b) * 4096 + si);
						push_case(&c);
					}
			}
		}
	}
	*c2s_to = g_ncases;
	qsort(g_cases + *c2s_from, *c2s_to - *c2s_from, sizeof(*g_cases), cmp_rank);
	*s2c_from = g_ncases;
	for (int pay = 0; pay < NPAY; pay++)
		for (size_t si = 0; si < g_nsets; si++) {
			const struct pset *p = &g_sets[si];
			struct ccase c;
			memset(&c, 0, sizeof(c));
			c.sec = SEC_S2C;
			c.level = (uint8_t)p->level;
			c.payload = (uint8_t)pay;
			c.offer = p->offer;
			c.cb = (int8_t)p->cb;
			c.cn = (int8_t)p->cn;
			c.sb = (int8_t)p->sb;
			c.sn = (int8_t)p->sn;
			c.acc = 1;
			c.csplit = -1;
			c.rank = (uint32_t)((size_t)pay * 4096 + si);
			push_case(&c);
		}
	*s2c_to = g_ncases;
}

static const struct {
	int level, cb, cn, sb, sn;
	const char *offer;
} cor_cfg[3] = {
    {2, 15, 0, 12, 0, "permessage-deflate"},                           /* inflate with Z_SYNC_FLUSH, window 15 */
    {1, 15, 1, 9, 1, "permessage-deflate"},                            /* client_no_context_takeover: inflate with Z_FINISH */
    {3, 8, 0, 15, 0, "permessage-deflate; client_max_window_bits=8"},  /* 256 byte inflate window */
};
static void build_cor_cases(size_t *from, size_t *to)
{
	*from = g_ncases;
	int nl = g_thorough ? 3 : 1;
	/* base messages: what a client with the negotiated parameters sends first */
	static const int base_msgs[3] = {5, 4, 3};
	int nbase = g_thorough ? 3 : 1;
	for (int li = 0; li < nl; li++) {
		int level = cor_cfg[li].level;
		for (int b = 0; b < 3; b++) {
			struct cdefl cd;
			cd_init(&cd, cor_cfg[li].cb, cor_cfg[li].cn);
			cd_msg(&cd, pl_data[base_msgs[b]], pl_len[base_msgs[b]], &g_base[li][base_msgs[b]], &g_base_len[li][base_msgs[b]]);
			cd_end(&cd);
		}
		struct ccase c;
		memset(&c, 0, sizeof(c));
		c.sec = SEC_COR;
		c.level = (uint8_t)level;
		c.ccfg = (uint8_t)li;
		c.offer = add_offer(cor_cfg[li].offer);
		c.cb = (int8_t)cor_cfg[li].cb;
		c.sb = (int8_t)cor_cfg[li].sb;
		c.cn = (int8_t)cor_cfg[li].cn;
		c.sn = (int8_t)cor_cfg[li].sn;
		c.acc = 1;
		uint32_t rank = (uint32_t)li << 28;
		int maxlen = g_thorough ? 2 : 1;
		for (int len = 0; len <= maxlen; len++) {
			unsigned n = len == 0 ? 1 : (len == 1 ? 256 : 65536);
			for (unsigned x = 0; x < n; x++) {
				c.ckind = 0;
				c.clen = (uint16_t)len;
				c.cbytes[0] = (uint8_t)(len == 2 ? x >> 8 : x);
				c.cbytes[1] = (uint8_t)x;
				c.csplit = -1;
				c.rank = rank++;
				push_case(&c);
				if (len <= 1) /* the same short stream as two fragments, including empty ones */
					for (int k = 0; k <= len; k++) {
						c.csplit = (int8_t)k;
						c.rank = rank++;
						push_case(&c);
					}
			}
		}
		for (int b = 0; b < nbase; b++) {
			int m = base_msgs[b];
			for (size_t pos = 0; pos < g_base_len[li][m]; pos++)
				for (int val = 0; val < 256; val++) {
					if (g_base[li][m][pos] == (uint8_t)val) continue;
					c.ckind = 1;
					c.cmsg = (uint8_t)m;
					c.cpos = (uint16_t)pos;
					c.cval = (uint8_t)val;
					c.clen = (uint16_t)g_base_len[li][m];
					c.csplit = -1;
					c.rank = rank++;
					push_case(&c);
				}
		}
	}
	*to = g_ncases;
}

/* ------------------------------------------------------------------ replay files */
static uint64_t fnv(const char *s)
{
	uint64_t h = 1469598103934665603ull;
	for (; *s; s++) h = (h ^ (uint8_t)*s) * 1099511628211ull;
	return h;
}
static void write_replay(const char *path, size_t idx, const char *key, const char *msg)
{
	const struct ccase *c = &g_cases[idx];
	FILE *f = fopen(path, "w");
	if (!f) {
		perror(path);
		exit(2);
	}
	fprintf(f, "# C19 replay: /verif/build/mod/c19 --replay %s\n", path);
	fprintf(f, "property=C19\nkey=%s\nmessage=%s\n", key, msg);
	fprintf(f, "section=%s\nlevel=%d\noffer=%s\n", sec_name[c->sec], c->level, g_offers[c->offer]);
	fprintf(f, "expect=c%dn%ds%dn%d\n", c->cb, c->cn, c->sb, c->sn);
	if (c->sec == SEC_C2S || c->sec == SEC_S2C) fprintf(f, "payload=%d\npayload_name=%s\nmessages=%d\n", c->payload, pl_name[c->payload], NMSG);
	if (c->sec == SEC_C2S) {
		fprintf(f, "frag=");
		for (int i = 0; i < c->nfrag; i++) fprintf(f, "%s%d", i ? "," : "", c->f[i]);
		fprintf(f, "\n");
	}
	if (c->sec == SEC_COR) {
		cor_prepare(c);
		char *hx = h_malloc(g_cor_len * 2 + 4);
		hexs(hx, g_cor_len * 2 + 4, g_cor_bytes, g_cor_len);
		char kind[60];
		cor_kind(kind, sizeof(kind), c);
		fprintf(f, "corrupt_kind=%s\n", kind);
		if (c->ckind == 1) fprintf(f, "corrupt_pos=%u\ncorrupt_val=%02x\n", c->cpos, c->cval);
		fprintf(f, "corrupt_split=%d\ncorrupt_hex=%s\n", c->csplit, hx);
		h_free(hx);
	}
	fclose(f);
}

static int do_replay(const char *path)
{
	FILE *f = fopen(path, "r");
	if (!f) {
		perror(path);
		return 2;
	}
	struct ccase c;
	memset(&c, 0, sizeof(c));
	c.csplit = -1;
	char line[16384], offer[1024] = "", key[400] = "";
	char *hex = NULL;
	while (fgets(line, sizeof(line), f)) {
		size_t l = strlen(line);
		while (l && (line[l - 1] == '\n' || line[l - 1] == '\r')) line[--l] = 0;
		if (line[0] == '#') continue;
		char *eq = strchr(line, '=');
		if (!eq) continue;
		*eq = 0;
		const char *v = eq + 1;
		if (!strcmp(line, "section")) {
			for (int i = 0; i < NSEC; i++)
				if (!strcmp(v, sec_name[i])) c.sec = (uint8_t)i;
		} else if (!strcmp(line, "level"))
			c.level = (uint8_t)atoi(v);
		else if (!strcmp(line, "offer"))
			snprintf(offer, sizeof(offer), "%s", v);
		else if (!strcmp(line, "key"))
			snprintf(key, sizeof(key), "%s", v);
		else if (!strcmp(line, "payload"))
			c.payload = (uint8_t)atoi(v);
		else if (!strcmp(line, "payload_len") && c.payload < NPAY && (size_t)atoi(v) <= pl_len[c.payload])
			pl_len[c.payload] = (size_t)atoi(v); /* debugging aid: use a prefix of the payload */
		else if (!strcmp(line, "expect")) {
			int a, b, d, e;
			if (sscanf(v, "c%dn%ds%dn%d", &a, &b, &d, &e) == 4) c.cb = (int8_t)a, c.cn = (int8_t)b, c.sb = (int8_t)d, c.sn = (int8_t)e;
		} else if (!strcmp(line, "frag")) {
			int a, b;
			int n = sscanf(v, "%d,%d", &a, &b);
			c.nfrag = (uint8_t)(n > 0 ? n : 0);
			if (n >= 1) c.f[0] = (int16_t)a;
			if (n >= 2) c.f[1] = (int16_t)b;
		} else if (!strcmp(line, "corrupt_split"))
			c.csplit = (int8_t)atoi(v);
		else if (!strcmp(line, "corrupt_kind")) {
			c.ckind = strncmp(v, "subst", 5) == 0;
			const char *m = strstr(v, "msg=");
			if (m)
				for (int i = 0; i < NPAY; i++)
					if (!strcmp(m + 4, pl_name[i])) c.cmsg = (uint8_t)i;
		} else if (!strcmp(line, "corrupt_hex")) {
			hex = h_malloc(strlen(v) + 1);
			strcpy(hex, v);
		}
	}
	fclose(f);
	if (c.payload >= NPAY || c.level > 3) {
		fprintf(stderr, "c19: bad replay file\n");
		return 2;
	}
	c.offer = add_offer(offer);
	if (c.sec == SEC_COR) {
		g_cor_len = hex ? strlen(hex) / 2 : 0;
		g_cor_bytes = h_malloc(g_cor_len + 2);
		for (size_t i = 0; i < g_cor_len; i++) {
			unsigned x = 0;
			sscanf(hex + 2 * i, "%2x", &x);
			g_cor_bytes[i] = (uint8_t)x;
		}
		c.clen = (uint16_t)g_cor_len;
	}
	g_verbose = 1;
	setvbuf(stdout, NULL, _IONBF, 0);
	printf("C19 replay %s\n  recorded key: %s\n  section %s, level %d, offer '%s'\n", path, key, sec_name[c.sec], c.level, offer);
	printf("  (a sanitizer report below terminates the process with exit status 1 = violated)\n");
	struct verdict v;
	run_case(&c, &v);
	if (v.violated) {
		printf("RESULT: VIOLATED  %s\n  %s\n", v.key, v.msg);
		return 1;
	}
	printf("RESULT: held (%u messages through the module, peak %zu bytes, %zu bytes still allocated afterwards)\n", v.trans, v.peak, v.leaked);
	return 0;
}

/* ------------------------------------------------------------------ JSON */
static void jstr(FILE *f, const char *s)
{
	fputc('"', f);
	for (; *s; s++) {
		unsigned char ch = (unsigned char)*s;
		if (ch == '"' || ch == '\\')
			fprintf(f, "\\%c", ch);
		else if (ch == '\n')
			fputs("\\n", f);
		else if (ch == '\t')
			fputs("\\t", f);
		else if (ch < 0x20 || ch >= 0x7f)
			fprintf(f, "\\u%04x", ch);
		else
			fputc(ch, f);
	}
	fputc('"', f);
}

struct secstat {
	size_t from, to, run, held, viol, crash, nontriv, trans, hs;
	int complete;
	double secs;
};

static int vrec_better(const struct vrec *a, const struct vrec *b)
{
	uint32_t ra = g_cases[a->idx].rank, rb = g_cases[b->idx].rank;
	if (g_cases[a->idx].sec != g_cases[b->idx].sec) return g_cases[a->idx].sec < g_cases[b->idx].sec;
	if (ra != rb) return ra < rb;
	return a->idx < b->idx;
}

int main(int argc, char **argv)
{
	const char *tier = NULL, *out = NULL, *replay = NULL;
	double deadline = 0;
	for (int i = 1; i < argc; i++) {
		if (!strcmp(argv[i], "--tier") && i + 1 < argc)
			tier = argv[++i];
		else if (!strcmp(argv[i], "--out") && i + 1 < argc)
			out = argv[++i];
		else if (!strcmp(argv[i], "--jobs") && i + 1 < argc)
			g_jobs = atoi(argv[++i]);
		else if (!strcmp(argv[i], "--deadline") && i + 1 < argc)
			deadline = atof(argv[++i]);
		else if (!strcmp(argv[i], "--replay") && i + 1 < argc)
			replay = argv[++i];
		else {
			fprintf(stderr, "usage: c19 --tier quick|thorough --out <json> [--jobs N] [--deadline S] | --replay <file>\n");
			return 2;
		}
	}
	build_payloads();
	if (replay) return do_replay(replay);
	if (!tier || !out || (strcmp(tier, "quick") && strcmp(tier, "thorough"))) {
		fprintf(stderr, "c19: --tier quick|thorough and --out are required\n");
		return 2;
	}
	g_thorough = !strcmp(tier, "thorough");
	if (g_jobs < 1) g_jobs = 1;
	if (g_jobs > 256) g_jobs = 256;
	double t0 = now_s();
	if (deadline > 0) g_deadline_at = t0 + deadline;

	{ /* parse the debug info once in the parent so that crashing workers symbolize from the inherited state */
		char wb[256];
		__sanitizer_symbolize_pc((void *)(uintptr_t)&run_case, "%f %s:%l", wb, sizeof(wb));
		__sanitizer_symbolize_pc((void *)((uintptr_t)&memcpy + 4), "%f %s:%l", wb, sizeof(wb));  /* libasan */
		__sanitizer_symbolize_pc((void *)((uintptr_t)&getpid + 4), "%f %s:%l", wb, sizeof(wb));  /* libc */
	}
	g_sh = shm(sizeof(*g_sh));
	g_slots = shm(sizeof(*g_slots) * (size_t)g_jobs);
	g_ctl = shm(sizeof(*g_ctl));
	size_t res_cap = 1500000;
	g_res = shm(sizeof(*g_res) * res_cap);

	struct secstat ss[NSEC];
	memset(ss, 0, sizeof(ss));
	/* (a) */
	build_neg_cases();
	ss[SEC_NEG].from = 0;
	ss[SEC_NEG].to = g_ncases;
	double tp = now_s();
	ss[SEC_NEG].complete = run_phase(0, g_ncases, 64);
	ss[SEC_NEG].secs = now_s() - tp;
	/* (b) */
	build_sets(ss[SEC_NEG].from, ss[SEC_NEG].to);
	build_rt_cases(&ss[SEC_C2S].from, &ss[SEC_C2S].to, &ss[SEC_S2C].from, &ss[SEC_S2C].to);
	build_cor_cases(&ss[SEC_COR].from, &ss[SEC_COR].to);
	if (g_ncases > res_cap) {
		fprintf(stderr, "c19: result table too small (%zu cases)\n", g_ncases);
		return 2;
	}
	tp = now_s();
	ss[SEC_C2S].complete = run_phase(ss[SEC_C2S].from, ss[SEC_C2S].to, 16);
	ss[SEC_C2S].secs = now_s() - tp;
	tp = now_s();
	ss[SEC_S2C].complete = run_phase(ss[SEC_S2C].from, ss[SEC_S2C].to, 8);
	ss[SEC_S2C].secs = now_s() - tp;
	tp = now_s();
	ss[SEC_COR].complete = run_phase(ss[SEC_COR].from, ss[SEC_COR].to, 1024);
	ss[SEC_COR].secs = now_s() - tp;

	size_t tot_trans = 0, tot_hs = 0, tot_nontriv = 0, tot_run = 0, max_peak_kb = 0, leaky = 0;
	for (int s = 0; s < NSEC; s++)
		for (size_t i = ss[s].from; i < ss[s].to; i++) {
			const struct cres *r = &g_res[i];
			if (!r->st) continue;
			ss[s].run++;
			ss[s].held += r->st == 1;
			ss[s].viol += r->st == 2;
			ss[s].crash += r->st == 3;
			ss[s].nontriv += r->nontrivial;
			ss[s].trans += r->trans;
			ss[s].hs += r->hs;
			if (r->peak_kb > max_peak_kb) max_peak_kb = r->peak_kb;
			if (r->leaked) leaky++;
		}
	for (int s = 0; s < NSEC; s++) tot_trans += ss[s].trans, tot_hs += ss[s].hs, tot_nontriv += ss[s].nontriv, tot_run += ss[s].run;

	/* --- violations: dedupe by key (best = minimal case), one per class first, then fill up to 20 --- */
	uint32_t nv = g_sh->nv < VLOG_CAP ? g_sh->nv : VLOG_CAP;
	size_t total_v = g_sh->nv;
	struct vrec **uniq = h_malloc(sizeof(*uniq) * (nv + 1));
	size_t nu = 0;
	for (uint32_t i = 0; i < nv; i++) {
		struct vrec *r = &g_sh->v[i];
		size_t k;
		for (k = 0; k < nu; k++)
			if (!strcmp(uniq[k]->key, r->key)) break;
		if (k == nu)
			uniq[nu++] = r;
		else if (vrec_better(r, uniq[k]))
			uniq[k] = r;
	}
	for (size_t i = 1; i < nu; i++) { /* insertion sort, minimal first */
		struct vrec *x = uniq[i];
		size_t j = i;
		while (j > 0 && vrec_better(x, uniq[j - 1])) uniq[j] = uniq[j - 1], j--;
		uniq[j] = x;
	}
	struct clsstat {
		char cls[96];
		size_t cases, keys;
		struct vrec *first;
	} *cl = h_malloc(sizeof(*cl) * (nu + 1));
	size_t ncl = 0;
	for (size_t i = 0; i < nu; i++) {
		size_t k;
		for (k = 0; k < ncl; k++)
			if (!strcmp(cl[k].cls, uniq[i]->cls)) break;
		if (k == ncl) {
			snprintf(cl[ncl].cls, sizeof(cl[ncl].cls), "%s", uniq[i]->cls);
			cl[ncl].cases = cl[ncl].keys = 0;
			cl[ncl].first = uniq[i];
			ncl++;
		}
		cl[k].keys++;
	}
	for (uint32_t i = 0; i < nv; i++)
		for (size_t k = 0; k < ncl; k++)
			if (!strcmp(cl[k].cls, g_sh->v[i].cls)) cl[k].cases++;
	struct vrec *sel[20];
	size_t nsel = 0;
	for (size_t k = 0; k < ncl && nsel < 20; k++) sel[nsel++] = cl[k].first;
	for (size_t i = 0; i < nu && nsel < 20; i++) {
		int have = 0;
		for (size_t j = 0; j < nsel; j++)
			if (sel[j] == uniq[i]) have = 1;
		if (!have) sel[nsel++] = uniq[i];
	}
	/* reproduce each selected violation twice more */
	struct {
		char key[400], msg[600], path[200];
	} *rep = h_malloc(sizeof(*rep) * 21);
	const char *rdir = getenv("C19_REPLAY_DIR"); /* only for mutation experiments */
	if (!rdir) rdir = "/verif/replays";
	mkdir(rdir, 0777);
	for (size_t i = 0; i < nsel; i++) {
		snprintf(rep[i].key, sizeof(rep[i].key), "%s", sel[i]->key);
		size_t same = 0;
		for (uint32_t q = 0; q < nv; q++)
			if (!strcmp(g_sh->v[q].key, sel[i]->key)) same++;
		snprintf(rep[i].msg, sizeof(rep[i].msg), "%s [%zu case(s) (levels / parameter sets) with this key; this is the minimal one]", sel[i]->msg, same);
		size_t idx = sel[i]->idx;
		for (int t = 0; t < 2; t++) {
			char k2[400], m2[600];
			rerun_key(idx, k2, sizeof(k2), m2, sizeof(m2));
			if (strcmp(k2, rep[i].key) != 0) {
				fprintf(stderr, "c19: violation '%s' did not reproduce (re-run %d gave '%s')\n", rep[i].key, t + 1, k2);
				return 2;
			}
		}
		snprintf(rep[i].path, sizeof(rep[i].path), "%s/C19-%012llx.txt", rdir, (unsigned long long)(fnv(rep[i].key) & 0xffffffffffffull));
		write_replay(rep[i].path, idx, rep[i].key, rep[i].msg);
	}

	/* observations on section (a): offers RFC 7692 says MUST be declined but which were accepted */
	size_t acc_invalid = 0, accepted = 0, declined = 0;
	char acc_invalid_ex[3][200];
	for (size_t i = ss[SEC_NEG].from; i < ss[SEC_NEG].to; i++) {
		if (g_res[i].st != 1 && g_res[i].st != 2) continue;
		if (!g_res[i].acc) {
			declined++;
			continue;
		}
		accepted++;
		struct offer_sem os[8];
		int no = parse_offers(g_offers[g_cases[i].offer], os, 8), anyvalid = 0;
		for (int k = 0; k < no; k++)
			if (os[k].is_pmd && os[k].valid) anyvalid = 1;
		if (!anyvalid) {
			if (acc_invalid < 3) snprintf(acc_invalid_ex[acc_invalid], 200, "L%d '%s'", g_cases[i].level, g_offers[g_cases[i].offer]);
			acc_invalid++;
		}
	}

	int exhaustive = !g_deadline_hit;
	for (int s = 0; s < NSEC; s++)
		if (!ss[s].complete) exhaustive = 0;
	double wall = now_s() - t0;

	FILE *f = fopen(out, "w");
	if (!f) {
		perror(out);
		return 2;
	}
	size_t states = (ss[SEC_C2S].to - ss[SEC_C2S].from) + (ss[SEC_S2C].to - ss[SEC_S2C].from);
	fprintf(f, "{\n  \"property_id\": \"C19\",\n  \"tier\": \"%s\",\n", tier);
	fprintf(f, "  \"states\": %zu,\n  \"transitions\": %zu,\n  \"evaluations\": %zu,\n  \"distinct_nontrivial\": %zu,\n  \"traces_validated_against_impl\": %zu,\n", states ? states : 1, tot_trans, tot_trans + tot_hs, tot_nontriv, tot_trans);
	fprintf(f, "  \"exhaustive\": %s,\n  \"wall_seconds\": %.1f,\n  \"jobs\": %d,\n", exhaustive ? "true" : "false", wall, g_jobs);
	fprintf(f, "  \"rule\": ");
	jstr(f, "states = distinct (compression level, accepted parameter set, payload, fragmentation) combinations of the client->server sweep plus (level, set, payload) of the server->client sweep; "
	        "transitions = messages pushed through the real websocket/compression module (both directions); evaluations = transitions + upgrade handshakes checked; "
	        "distinct_nontrivial = cases in which permessage-deflate was negotiated by the real negotiation code and at least one message was inflated or deflated by the module. "
	        "Enumeration: (a) levels {1,2,3} x every offer from the parameter product in every parameter order + malformed/duplicate/unknown/5+ parameter offers + all ordered pairs of 13 offers in one header (', ' and ',') or two headers; "
	        "(b) every accepted parameter set x 7 payloads x every fragmentation into <= 3 fragments with prefix sizes from {1,2,7,64} (+rest, rest may be empty) x 3 consecutive messages per connection, plus a dense sweep over EVERY pair of prefix sizes (first 0..8, second 0..40; thorough 0..12 x 0..72) for the first and last accepted parameter set (thorough: every 16th and the last), which meets every boundary of the reassembly buffer; "
	        "(c) every compressed payload of the length bound (also as two fragments for length <= 1) and every single-byte substitution of valid compressed messages");
	fprintf(f, ",\n  \"bounds\": {\"levels_negotiation\": [1,2,3], \"levels_roundtrip\": %s, \"window_bits_lattice\": %s, \"payloads\": [\"empty\",\"1byte\",\"tiny4\",\"noise100\",\"rep400\",\"mixed500\",\"wide5000\",\"noise65530\",\"rep70000\"], "
	           "\"fragment_prefix_sizes\": [1,2,7,64], \"max_fragments\": 3, \"messages_per_connection\": %d, \"corrupt_configs\": %s, \"corrupt_max_len\": %d, \"corrupt_substitution_messages\": %s, \"corrupt_peak_limit_bytes\": %zu, \"offers\": %zu, \"accepted_parameter_sets\": %zu},\n",
	        g_thorough ? "[2,1,3]" : "[2]", g_thorough ? "\"absent, valueless, 8..15\"" : "\"absent, valueless, 9,10,12,15\"", NMSG, g_thorough ? "[\"L2 permessage-deflate\",\"L1 permessage-deflate\",\"L3 permessage-deflate; client_max_window_bits=8\"]" : "[\"L2 permessage-deflate\"]", g_thorough ? 2 : 1, g_thorough ? "[\"mixed500\",\"rep400\",\"noise100\"]" : "[\"mixed500\"]", COR_PEAK_LIMIT,
	        (ss[SEC_NEG].to - ss[SEC_NEG].from) / 3, g_nsets);
	fprintf(f, "  \"caps_hit\": [");
	int first = 1;
	if (g_deadline_hit) fprintf(f, "\"deadline\""), first = 0;
	if (total_v > VLOG_CAP) fprintf(f, "%s\"violation log capped at %d records (%zu violating cases)\"", first ? "" : ", ", VLOG_CAP, total_v), first = 0;
	fprintf(f, "],\n  \"sections\": [\n");
	for (int s = 0; s < NSEC; s++)
		fprintf(f, "    {\"name\": \"%s\", \"cases\": %zu, \"run\": %zu, \"held\": %zu, \"oracle_violations\": %zu, \"crashes\": %zu, \"states\": %zu, \"messages\": %zu, \"nontrivial\": %zu, \"seconds\": %.1f, \"exhaustive\": %s}%s\n", sec_name[s], ss[s].to - ss[s].from, ss[s].run, ss[s].held,
		        ss[s].viol, ss[s].crash, ss[s].to - ss[s].from, ss[s].trans, ss[s].nontriv, ss[s].secs, ss[s].complete ? "true" : "false", s + 1 < NSEC ? "," : "");
	fprintf(f, "  ],\n  \"observations\": {\"negotiation_accepted\": %zu, \"negotiation_declined\": %zu, \"accepted_although_rfc7692_says_must_decline\": %zu, \"examples\": [", accepted, declined, acc_invalid);
	for (size_t i = 0; i < acc_invalid && i < 3; i++) {
		if (i) fputs(", ", f);
		jstr(f, acc_invalid_ex[i]);
	}
	fprintf(f, "], \"corrupt_max_peak_kb\": %zu, \"cases_with_memory_still_allocated_after_teardown\": %zu},\n", max_peak_kb, leaky);
	fprintf(f, "  \"samples\": [");
	{
		int n = 0;
		for (int s = 0; s < NSEC; s++) {
			size_t span = ss[s].to - ss[s].from;
			for (int q = 0; q < 2 && span; q++) {
				size_t i = ss[s].from + (q ? span * 2 / 3 : 0);
				const struct ccase *c = &g_cases[i];
				char d[400], fs[40], kind[60];
				frag_str(fs, sizeof(fs), c);
				if (s == SEC_NEG)
					snprintf(d, sizeof(d), "negotiation L%d offer '%s' -> %s c%dn%ds%dn%d", c->level, g_offers[c->offer], g_res[i].acc ? "accepted" : "declined", g_res[i].cb, g_res[i].cn, g_res[i].sb, g_res[i].sn);
				else if (s == SEC_C2S)
					snprintf(d, sizeof(d), "c2s L%d c%dn%ds%dn%d payload %s fragments %s x3 messages -> %s", c->level, c->cb, c->cn, c->sb, c->sn, pl_name[c->payload], fs, g_res[i].st == 1 ? "held" : "violated");
				else if (s == SEC_S2C)
					snprintf(d, sizeof(d), "s2c L%d c%dn%ds%dn%d payload %s x3 messages -> %s", c->level, c->cb, c->cn, c->sb, c->sn, pl_name[c->payload], g_res[i].st == 1 ? "held" : "violated");
				else {
					cor_kind(kind, sizeof(kind), c);
					snprintf(d, sizeof(d), "corrupt L%d %s bytes %02x %02x pos %u val %02x -> %s", c->level, kind, c->cbytes[0], c->cbytes[1], c->cpos, c->cval, g_res[i].st == 1 ? "held" : "violated");
				}
				if (n++) fputs(", ", f);
				jstr(f, d);
			}
		}
	}
	fprintf(f, "],\n  \"assumptions\": [\n    ");
	jstr(f, "In the cjet daemon the compression level is always 0 (init_http_connection passes 0 to init_http_connection2), so permessage-deflate is never negotiated there; websocket.c's negotiation and compression.c are only reachable through this module harness (and the unit tests).");
	fprintf(f, ",\n    ");
	jstr(f, "The in-memory buffered_reader hands every line / frame payload to the module in a heap block of exactly that length, so any read or write past buf[0..len) is an ASan report; the real buffered_socket hands out pointers into a larger read buffer.");
	fprintf(f, ",\n    ");
	jstr(f, "Client and module share the in-tree zlib 1.2.11 (the reference is zlib itself). A negotiated client window of 8 bits cannot be produced by zlib's raw deflate; the client then uses Z_RLE (distance 1 only), which is a valid stream for any window.");
	fprintf(f, ",\n    ");
	jstr(f, "Payload wide5000 exceeds CONFIG_MAX_MESSAGE_SIZE (512) of the default build; the websocket module itself has no such limit. Memory bound for corrupt input: peak additional allocation below 8 MB for compressed inputs of at most ~520 bytes; ASan leak checking is off (leaks are only counted in observations).");
	fprintf(f, ",\n    ");
	jstr(f, "Built with -fno-sanitize=nonnull-attribute: zlib 1.2.11 itself (trees.c:873, every sync flush) and compression.c call memcpy(dst, NULL, 0); that is treated as benign and not reported.");
	fprintf(f, "\n  ],\n  \"violation_cases_total\": %zu,\n  \"violation_keys_total\": %zu,\n  \"violation_classes\": [\n", total_v, nu);
	for (size_t k = 0; k < ncl; k++) {
		fprintf(f, "    {\"class\": ");
		jstr(f, cl[k].cls);
		fprintf(f, ", \"cases\": %zu, \"distinct_keys\": %zu, \"minimal_key\": ", cl[k].cases, cl[k].keys);
		jstr(f, cl[k].first->key);
		fprintf(f, "}%s\n", k + 1 < ncl ? "," : "");
	}
	fprintf(f, "  ],\n  \"violations\": [\n");
	for (size_t i = 0; i < nsel; i++) {
		fprintf(f, "    {\"key\": ");
		jstr(f, rep[i].key);
		fprintf(f, ", \"message\": ");
		jstr(f, rep[i].msg);
		fprintf(f, ", \"replay\": ");
		jstr(f, rep[i].path);
		fprintf(f, "}%s\n", i + 1 < nsel ? "," : "");
	}
	fprintf(f, "  ]\n}\n");
	fclose(f);
	printf("C19 %s: %zu cases, %zu messages through the module, %zu violating cases in %zu classes (%zu reported), %.1f s%s\n", tier, tot_run, tot_trans, total_v, ncl, nsel, wall, exhaustive ? "" : " (NOT exhaustive)");
	return 0;
}
