/*
 * C17 harness: type-erased interface to one instantiation of the REAL
 * hashtable.h macros (one translation unit per key type / hop width / order,
 * because the macros define fixed struct names per key type).
 *
 * Keys cross this interface as uint64_t: the key value for uint32/uint64
 * tables, the `const char *` (as uintptr_t) for string tables.
 * Values are small integers v; the table stores
 * vals[j] = (void *)(v ? v + 0x100 * j : 0).
 */
#ifndef C17_INST_H
#define C17_INST_H

#include <stddef.h>
#include <stdint.h>

enum c17_ktype { C17_STRING = 0, C17_UINT32 = 1, C17_UINT64 = 2 };

#define C17_VAL_GARBAGE 0xEEu /* vals[] of one entry disagree with each other or are not small ints */
#define C17_VAL_UNTOUCHED 0xDDu /* output parameter was not written by the call */

struct c17_inst {
	enum c17_ktype ktype;
	const char *ktype_name;
	unsigned order;
	unsigned hop_bits;      /* sizeof(hop_info) * 8 of the bucket struct */
	unsigned value_entries;
	uint32_t table_size;
	uint32_t add_range;
	uint32_t hop_range;     /* as reported by the macro's own hop_range_<name>() */
	size_t entry_size;
	uint64_t invalid_key;

	void *(*create)(void);
	void (*destroy)(void *table);
	uint32_t (*hash)(uint64_t key);
	/* want_prev == 0 passes prev_value = NULL like cjet does. *prev is C17_VAL_UNTOUCHED if not written */
	int (*put)(void *table, uint64_t key, unsigned v, int want_prev, unsigned *prev);
	int (*get)(void *table, uint64_t key, unsigned *v);
	/* want_val == 0 passes value = NULL like cjet does */
	int (*remove)(void *table, uint64_t key, int want_val, unsigned *v);

	/* raw memory image access */
	uint32_t (*slot_hop)(const void *table, uint32_t slot);
	uint64_t (*slot_key)(const void *table, uint32_t slot);
	unsigned (*slot_val)(const void *table, uint32_t slot);
	void (*slot_set)(void *table, uint32_t slot, uint32_t hop, uint64_t key, unsigned v);
};

void c17_register(const struct c17_inst *inst);

#endif
