/*
 * C10 engine: exhaustive explicit-state search over every kernel answer for the
 * REAL buffered_socket.c + posix/socket.c, compiled once per write buffer size
 * (-DC10_VARIANT=w16 / w5120).  writev/read/close of posix/socket.c are
 * redirected (objcopy --redefine-sym) to the c10_writev_<variant> ... functions
 * below, so the harness decides every kernel answer.
 */
#define _GNU_SOURCE
#include <errno.h>
#include <pthread.h>
#include <setjmp.h>
#include <stdarg.h>
#include <stdint.h>
#include <stdio.h>
#include <stdlib.h>
#include <string.h>
#include <sys/types.h>
#include <sys/uio.h>
#include <time.h>

#include "buffered_socket.h"
#include "c10_common.h"

#ifndef C10_VARIANT
#error "compile with -DC10_VARIANT=w16 or w5120"
#endif
#define CAT2(a, b) a##_##b
#define CAT(a, b) CAT2(a, b)
#define V(name) CAT(name, C10_VARIANT)
#define STR2(x) #x
#define STR(x) STR2(x)
#define VNAME STR(C10_VARIANT)

enum { BUFSZ = CONFIG_MAX_WRITE_BUFFER_SIZE };
#ifdef C10_EXPECT_BUFSZ
_Static_assert(CONFIG_MAX_WRITE_BUFFER_SIZE == C10_EXPECT_BUFSZ, "private config not in effect");
#endif

#define FD 42
#define POISON 0x0e          /* label 0: never a frame byte */
#define MAXCALLS 300
#define MAXEV 8

static void die(const char *fmt, ...)
{
	va_list ap;
	va_start(ap, fmt);
	fprintf(stderr, "c10[" VNAME "]: internal harness error: ");
	vfprintf(stderr, fmt, ap);
	fprintf(stderr, "\n");
	va_end(ap);
	exit(2);
}

static double now_s(void)
{
	struct timespec ts;
	clock_gettime(CLOCK_MONOTONIC, &ts);
	return ts.tv_sec + ts.tv_nsec * 1e-9;
}

static uint64_t fnv(const void *p, size_t n, uint64_t h)
{
	const uint8_t *b = p;
	for (size_t i = 0; i < n; i++) {
		h ^= b[i];
		h *= 0x100000001b3ULL;
	}
	return h;
}
#define FNV0 0xcbf29ce484222325ULL

/* ------------------------------------------------------------------ */
/* frame contents: self identifying                                     */

static inline uint8_t content(int fi, uint32_t j)
{
	if (j < 32)
		return (uint8_t)(((fi + 1) << 5) | j);
	return (uint8_t)(0x80u | ((j * 37u + (j >> 7) * 11u + (unsigned)(fi + 1) * 53u) & 0x7fu));
}

/* ------------------------------------------------------------------ */
/* canonical state                                                      */

#define F_DEAD 1
#define F_CLOSED 2

struct pstate {          /* incremental parse of the kernel stream */
	uint32_t off;        /* bytes of frame `cur` delivered so far */
	int8_t cur;          /* frame partly delivered, -1 none */
	uint8_t last;        /* frames with index < last have been started */
	uint8_t done_mask;   /* frames delivered completely */
	uint8_t pad;
};

struct sthdr {
	uint32_t to_write;
	struct pstate ps;
	uint8_t nframes;
	uint8_t shape[C10_MAXF];
	uint8_t res[C10_MAXF];   /* 0: writev returned 0, 1: returned -1 */
	uint8_t flags;
	uint8_t taint;           /* refusal class already flagged on this path */
	uint8_t taint_frame;
	uint8_t shorts_used;     /* only tracked when cfg->path_short_budget > 0 */
	uint8_t pad[1];
};

struct st {
	struct sthdr h;
	uint8_t buf[BUFSZ];
};

enum { SV_NONE = 0, SV_TORN, SV_DUP, SV_MIDFRAME, SV_WRONGBYTE, SV_GARBAGE };
static const char *const sv_name[] = {"", "partial-frame-followed-by-other-data", "duplicated-or-reordered-frame",
                                      "resumes-mid-frame", "wrong-byte-within-frame", "garbage-byte"};

static int parse_byte(struct pstate *p, const uint32_t *flen, int nvis, uint8_t b)
{
	int low = b < 0x80;
	int label = b >> 5;
	int j = b & 31;
	if (p->cur >= 0) {
		if (b == content(p->cur, p->off)) {
			p->off++;
			if (p->off == flen[p->cur]) {
				p->done_mask |= (uint8_t)(1u << p->cur);
				p->cur = -1;
				p->off = 0;
			}
			return SV_NONE;
		}
		if (low && label >= 1 && label <= nvis) {
			if (label - 1 == p->cur)
				return j == 0 ? SV_DUP : SV_WRONGBYTE;
			return SV_TORN;
		}
		return low ? SV_GARBAGE : SV_WRONGBYTE;
	}
	if (low && label >= 1 && label <= nvis) {
		int f = label - 1;
		if (j == 0) {
			if (f < p->last)
				return SV_DUP;
			p->cur = (int8_t)f;
			p->last = (uint8_t)(f + 1);
			p->off = 1;
			if (flen[f] == 1) {
				p->done_mask |= (uint8_t)(1u << f);
				p->cur = -1;
				p->off = 0;
			}
			return SV_NONE;
		}
		if (f < p->last)
			return SV_DUP;
		return SV_MIDFRAME;
	}
	return SV_GARBAGE;
}

static uint32_t delivered(const struct pstate *p, const uint32_t *flen, int f)
{
	if (p->done_mask & (1u << f))
		return flen[f];
	if (p->cur == f)
		return p->off;
	return 0;
}

/* ------------------------------------------------------------------ */
/* per-thread context                                                   */

enum { OP_W = 'W', OP_C = 'C', OP_R = 'R', OP_X = 'X' };
enum { M_IDLE = 0, M_INIT, M_EXPLORE, M_DRAIN, M_REPLAY };
enum { RUN_DONE = 0, RUN_PRUNED = 1, RUN_ABORT = 2 };
#define ANS_EAGAIN (-1)
#define ANS_ERR (-2)

struct choice {
	int pick, n;
};

struct event {
	char key[96];
	int stream;          /* stream-level violation type or 0 */
	char detail[160];
};

struct lstore {
	uint8_t *mem;
	size_t used, cap;
	uint64_t *tab;       /* offset+1 */
	size_t tabcap, count;
};

struct best {
	char key[128];
	int consequence;
	int depth;
	long weight;
	char *replay;
	char msg[1024];
};

struct global;

struct ctx {
	struct global *g;
	const struct c10_cfg *cfg;
	struct buffered_socket *bs;
	uint8_t *pristine;
	struct eventloop loop;
	uint8_t *fbuf[C10_MAXF][C10_MAXSHAPES][2];

	/* current execution */
	int mode, in_op, op, shape, frame;
	struct pstate ps, dps;
	int nvis;
	uint32_t flen[C10_MAXF];
	size_t max_offer, call_limit;
	int ncalls, nreads, saw_eagain, saw_error, dead;
	int shorts, eagains, errors, pre_shorts;
	int error_cb_calls, loop_add, loop_remove, close_calls, read_cb_calls;
	int nans;
	int32_t ans[MAXCALLS];
	struct choice script[MAXCALLS];
	int script_len, script_pos;
	int nev;
	struct event ev[MAXEV];
	int drain_sv;
	jmp_buf jb;

	/* memo */
	uint64_t *memo;
	uint32_t *memo_gen;
	uint32_t memo_cap, memo_cur, memo_used;

	/* replay */
	const int32_t *rp_ans;
	int rp_n, rp_pos, rp_diverged;
	uint8_t *klog;
	size_t klog_n, klog_cap;
	FILE *out;
	int log_drain, parse_bad, lenient;
	uint8_t *canon_buf;
	struct st *post_buf;

	/* results */
	struct lstore ls;
	uint64_t transitions, pruned, drains, nontrivial, read_events, error_events;
	uint64_t refusals_clean, refusals_dirty, hard_errors, hard_error_partial;
	int nbest;
	struct best best[C10_MAXVIOL];
	pthread_t thr;
};

static __thread struct ctx *tls_ctx;

/* ------------------------------------------------------------------ */
/* stubs the real code calls                                            */

static void err_cb(void *x)
{
	struct ctx *c = x;
	c->error_cb_calls++;
}

static enum bs_read_callback_return read_cb(void *x, uint8_t *buf, size_t len)
{
	struct ctx *c = x;
	(void)buf;
	(void)len;
	c->read_cb_calls++;
	return BS_OK;
}

static enum eventloop_return loop_add(const void *this_ptr, const struct io_event *ev)
{
	struct ctx *c = (struct ctx *)(uintptr_t)this_ptr;
	(void)ev;
	c->loop_add++;
	return EL_CONTINUE_LOOP;
}

static void loop_remove(void *this_ptr, const struct io_event *ev)
{
	struct ctx *c = this_ptr;
	(void)ev;
	c->loop_remove++;
}

static void add_event(struct ctx *c, int stream, const char *key, const char *fmt, ...)
{
	if (c->nev >= MAXEV)
		return;
	struct event *e = &c->ev[c->nev++];
	e->stream = stream;
	snprintf(e->key, sizeof(e->key), "%s", key);
	va_list ap;
	va_start(ap, fmt);
	vsnprintf(e->detail, sizeof(e->detail), fmt, ap);
	va_end(ap);
}

static void klog_add(struct ctx *c, uint8_t b)
{
	if (c->klog_n == c->klog_cap) {
		c->klog_cap = c->klog_cap ? c->klog_cap * 2 : 256;
		c->klog = realloc(c->klog, c->klog_cap);
		if (!c->klog)
			die("oom");
	}
	c->klog[c->klog_n++] = b;
}

/* ---- memo ---------------------------------------------------------- */

static int memo_seen(struct ctx *c, uint64_t sig)
{
	if (c->memo_used * 2 >= c->memo_cap)
		return 0; /* table full: stop merging (still sound, only slower) */
	uint32_t m = c->memo_cap - 1;
	uint32_t i = (uint32_t)(sig ^ (sig >> 29)) & m;
	for (;;) {
		if (c->memo_gen[i] != c->memo_cur) {
			c->memo_gen[i] = c->memo_cur;
			c->memo[i] = sig;
			c->memo_used++;
			return 0;
		}
		if (c->memo[i] == sig)
			return 1;
		i = (i + 1) & m;
	}
}

static void memo_reset(struct ctx *c)
{
	c->memo_cur++;
	c->memo_used = 0;
	if (c->memo_cur == 0) {
		memset(c->memo_gen, 0, sizeof(uint32_t) * c->memo_cap);
		c->memo_cur = 1;
	}
}

static int choose(struct ctx *c, int n, uint64_t sig)
{
	if (n <= 1)
		return 0;
	if (c->script_pos < c->script_len) {
		if (c->script[c->script_pos].n != n)
			die("code under test is not deterministic (choice arity %d vs %d)", c->script[c->script_pos].n, n);
		return c->script[c->script_pos++].pick;
	}
	if (c->cfg->memo && memo_seen(c, sig))
		longjmp(c->jb, RUN_PRUNED);
	if (c->script_len >= MAXCALLS)
		die("choice script overflow");
	c->script[c->script_len].pick = 0;
	c->script[c->script_len].n = n;
	c->script_len++;
	c->script_pos++;
	return 0;
}

/* ---- the simulated kernel ------------------------------------------ */

static int build_reduced(const size_t *len, int cnt, size_t total, int32_t *out)
{
	size_t cand[16];
	int nc = 0;
	cand[nc++] = 1;
	cand[nc++] = total - 1;
	cand[nc++] = total;
	size_t b = 0;
	for (int i = 0; i < cnt - 1; i++) {
		b += len[i];
		cand[nc++] = b - 1;
		cand[nc++] = b;
		cand[nc++] = b + 1;
	}
	int n = 0;
	for (int i = 0; i < nc; i++) {
		size_t v = cand[i];
		if (v < 1 || v > total || v > 0x7fffffff)
			continue;
		int dup = 0;
		for (int k = 0; k < n; k++)
			if ((size_t)out[k] == v)
				dup = 1;
		if (!dup)
			out[n++] = (int32_t)v;
	}
	for (int i = 1; i < n; i++) /* insertion sort */
		for (int k = i; k > 0 && out[k - 1] > out[k]; k--) {
			int32_t t = out[k];
			out[k] = out[k - 1];
			out[k - 1] = t;
		}
	return n;
}

ssize_t V(c10_writev)(int fd, const struct iovec *iov, int iovcnt);
ssize_t V(c10_read)(int fd, void *buf, size_t count);
int V(c10_close)(int fd);

ssize_t V(c10_writev)(int fd, const struct iovec *iov, int iovcnt)
{
	struct ctx *c = tls_ctx;
	if (!c || !c->in_op)
		die("writev called outside an operation");
	c->ncalls++;
	if (fd != FD)
		add_event(c, 0, "bounds/wrong-fd", "writev on fd %d", fd);
	if (iovcnt < 1 || iovcnt > 3) {
		add_event(c, 0, "bounds/iov-count", "iovcnt %d", iovcnt);
		longjmp(c->jb, RUN_ABORT);
	}
	size_t total = 0, len[3];
	uint64_t sig = FNV0;
	const uint8_t *wb = c->bs->write_buffer;
	for (int i = 0; i < iovcnt; i++) {
		const uint8_t *base = iov[i].iov_base;
		size_t l = iov[i].iov_len;
		len[i] = l;
		total += l;
		uint32_t d[3] = {0, 0, (uint32_t)l};
		if (l != 0) {
			uintptr_t p = (uintptr_t)base;
			int ok = 0;
			if (p >= (uintptr_t)wb && p + l <= (uintptr_t)wb + BUFSZ) {
				d[0] = 1;
				d[1] = (uint32_t)(p - (uintptr_t)wb);
				ok = 1;
			} else if (c->op == OP_W) {
				for (int k = 0; k < 2 && !ok; k++) {
					const struct c10_shape *sh = &c->cfg->shapes[c->shape];
					size_t bl = k ? (size_t)sh->payload : (size_t)sh->prefix;
					uintptr_t fb = (uintptr_t)c->fbuf[c->frame][c->shape][k];
					if (p >= fb && p + l <= fb + bl) {
						d[0] = 2 + (uint32_t)k;
						d[1] = (uint32_t)(p - fb);
						ok = 1;
					}
				}
			}
			if (!ok) {
				add_event(c, 0, "bounds/iov-outside-write-buffer-and-frame", "iov[%d] len %zu", i, l);
				longjmp(c->jb, RUN_ABORT);
			}
		}
		sig = fnv(d, sizeof(d), sig);
	}
	if (c->bs->to_write > (size_t)BUFSZ) {
		add_event(c, 0, "bounds/to_write-exceeds-buffer", "to_write %zu", c->bs->to_write);
		longjmp(c->jb, RUN_ABORT);
	}
	if (c->mode != M_DRAIN) {
		if (total > c->max_offer)
			add_event(c, 0, "bounds/offered-more-than-pending-plus-frame", "offered %zu, at most %zu exist", total, c->max_offer);
		if (c->saw_eagain) {
			add_event(c, 0, "spin/writev-after-eagain", "call #%d", c->ncalls);
			longjmp(c->jb, RUN_ABORT);
		}
		if (c->saw_error) {
			add_event(c, 0, "spin/writev-after-hard-error", "call #%d", c->ncalls);
			longjmp(c->jb, RUN_ABORT);
		}
		if ((size_t)c->ncalls > c->call_limit || c->ncalls >= MAXCALLS - 2) {
			add_event(c, 0, "spin/too-many-writev-calls", "%d calls for %zu bytes", c->ncalls, c->max_offer);
			longjmp(c->jb, RUN_ABORT);
		}
	} else if (c->ncalls > 8) {
		longjmp(c->jb, RUN_ABORT);
	}
	if (total == 0) {
		add_event(c, 0, "bounds/zero-length-writev", "call #%d", c->ncalls);
		return 0;
	}

	int32_t a;
	if (c->mode == M_DRAIN) {
		a = (int32_t)total;
	} else if (c->mode == M_REPLAY) {
		if (c->rp_pos < c->rp_n) {
			a = c->rp_ans[c->rp_pos++];
			if (a > 0 && (size_t)a > total) {
				c->rp_diverged = 1;
				a = (int32_t)total;
			}
		} else {
			c->rp_diverged = 1;
			a = c->dead ? ANS_ERR : (int32_t)total;
		}
	} else if (c->dead) {
		a = ANS_ERR;
	} else if (c->parse_bad) {
		a = (int32_t)total;
	} else {
		sig = fnv(&c->bs->to_write, sizeof(c->bs->to_write), sig);
		sig = fnv(c->bs->write_buffer, BUFSZ, sig);
		sig = fnv(&c->ps, sizeof(c->ps), sig);
		int restricted = (c->cfg->short_budget > 0 && c->shorts >= c->cfg->short_budget) ||
		                 (c->cfg->path_short_budget > 0 && c->pre_shorts + c->shorts >= c->cfg->path_short_budget);
		sig = fnv(&restricted, sizeof(restricted), sig);
		if (restricted) {
			int pick = choose(c, 3, sig);
			a = pick == 0 ? (int32_t)total : (pick == 1 ? ANS_EAGAIN : ANS_ERR);
		} else if (!c->cfg->reduced_answers) {
			int pick = choose(c, (int)total + 2, sig);
			a = (size_t)pick < total ? pick + 1 : ((size_t)pick == total ? ANS_EAGAIN : ANS_ERR);
		} else {
			int32_t list[20];
			int n = build_reduced(len, iovcnt, total, list);
			list[n++] = ANS_EAGAIN;
			list[n++] = ANS_ERR;
			a = list[choose(c, n, sig)];
		}
	}
	if (c->mode != M_DRAIN) {
		if (c->nans >= MAXCALLS)
			die("answer log overflow");
		c->ans[c->nans++] = a;
	}
	if (c->mode == M_REPLAY && c->out) {
		fprintf(c->out, "    writev #%d offers", c->ncalls);
		for (int i = 0; i < iovcnt; i++)
			fprintf(c->out, "%s%zu", i ? "+" : " ", len[i]);
		if (a > 0)
			fprintf(c->out, " = %zu bytes -> kernel accepts %d%s\n", total, a, (size_t)a < total ? " (short write)" : "");
		else
			fprintf(c->out, " = %zu bytes -> kernel answers %s\n", total,
			        a == ANS_EAGAIN ? "EAGAIN" : (c->cfg->sticky_error ? "EPIPE" : "ENOBUFS"));
	}
	if (a == ANS_EAGAIN) {
		c->saw_eagain = 1;
		c->eagains++;
		errno = EAGAIN;
		return -1;
	}
	if (a == ANS_ERR) {
		c->saw_error = 1;
		c->errors++;
		if (c->cfg->sticky_error)
			c->dead = 1;
		errno = c->cfg->sticky_error ? EPIPE : ENOBUFS;
		return -1;
	}
	/* accept the first a bytes */
	size_t left = (size_t)a;
	struct pstate *p = c->mode == M_DRAIN ? &c->dps : &c->ps;
	for (int i = 0; i < iovcnt && left; i++) {
		const uint8_t *base = iov[i].iov_base;
		size_t l = iov[i].iov_len < left ? iov[i].iov_len : left;
		for (size_t k = 0; k < l; k++) {
			uint8_t b = base[k];
			if (c->mode == M_REPLAY || (c->mode == M_DRAIN && c->log_drain))
				klog_add(c, b);
			int sv = c->parse_bad ? SV_NONE : parse_byte(p, c->flen, c->nvis, b);
			if (sv != SV_NONE) {
				if (c->mode == M_DRAIN) {
					c->drain_sv = sv;
				} else {
					char key[96];
					snprintf(key, sizeof(key), "stream/%s", sv_name[sv]);
					add_event(c, sv, key, "byte 0x%02x at call #%d, %u byte(s) into frame #%d", b, c->ncalls,
					          (unsigned)p->off, p->cur + 1);
				}
				if (c->mode != M_DRAIN) { /* finish the operation (all further writes accepted) so the record is complete */
					c->parse_bad = 1;
					continue;
				}
				longjmp(c->jb, RUN_ABORT);
			}
		}
		left -= l;
	}
	if ((size_t)a < total)
		c->shorts++;
	return a;
}

ssize_t V(c10_read)(int fd, void *buf, size_t count)
{
	struct ctx *c = tls_ctx;
	if (!c)
		die("read without context");
	(void)fd;
	c->nreads++;
	int pick = 0;
	if (c->mode == M_EXPLORE && c->op == OP_R && c->nreads == 1)
		pick = choose(c, 2, 0x5eed);
	else if (c->mode == M_REPLAY && c->op == OP_R && c->rp_pos < c->rp_n)
		pick = c->rp_ans[c->rp_pos++] > 0;
	if (c->mode == M_EXPLORE || c->mode == M_REPLAY) {
		if (c->nans < MAXCALLS)
			c->ans[c->nans++] = pick ? 4 : ANS_EAGAIN;
	}
	if (pick && count >= 4) {
		memset(buf, 0x11, 4);
		return 4;
	}
	errno = EAGAIN;
	return -1;
}

int V(c10_close)(int fd)
{
	struct ctx *c = tls_ctx;
	(void)fd;
	if (c)
		c->close_calls++;
	return 0;
}

/* ------------------------------------------------------------------ */
/* global store                                                         */

struct rechdr {
	uint64_t hash;
	uint32_t parent;
	uint32_t canon_len;
	uint32_t trans_len;
	uint32_t pad;
};
#define REC_CANON(r) ((const uint8_t *)(r) + sizeof(struct rechdr))
#define REC_TRANS(r) (REC_CANON(r) + (r)->canon_len)

struct global {
	const struct c10_cfg *cfg;
	uint8_t *arena;
	size_t used, cap;
	uint64_t *node_off;
	uint32_t *node_depth;
	size_t nnodes, nodecap;
	uint32_t *tab; /* node index + 1 */
	size_t tabcap;
	size_t front_lo, front_hi;
	volatile size_t next;
	volatile int stop;
	uint64_t set_hash;
};

static const struct rechdr *node_rec(const struct global *g, size_t idx)
{
	return (const struct rechdr *)(g->arena + g->node_off[idx]);
}

static size_t canon_of(const struct st *s, uint8_t *out)
{
	memcpy(out, &s->h, sizeof(s->h));
	memcpy(out + sizeof(s->h), s->buf, s->h.to_write);
	return sizeof(s->h) + s->h.to_write;
}

static void st_from_canon(struct st *s, const uint8_t *canon, size_t len)
{
	memcpy(&s->h, canon, sizeof(s->h));
	if (sizeof(s->h) + s->h.to_write != len || s->h.to_write > (uint32_t)BUFSZ)
		die("corrupt canonical state");
	memcpy(s->buf, canon + sizeof(s->h), s->h.to_write);
}

static int global_lookup(const struct global *g, uint64_t h, const uint8_t *canon, size_t len)
{
	size_t m = g->tabcap - 1;
	size_t i = (size_t)(h ^ (h >> 31)) & m;
	while (g->tab[i]) {
		const struct rechdr *r = node_rec(g, g->tab[i] - 1);
		if (r->hash == h && r->canon_len == len && memcmp(REC_CANON(r), canon, len) == 0)
			return 1;
		i = (i + 1) & m;
	}
	return 0;
}

static void global_tab_insert(struct global *g, uint32_t idx)
{
	const struct rechdr *r = node_rec(g, idx);
	size_t m = g->tabcap - 1;
	size_t i = (size_t)(r->hash ^ (r->hash >> 31)) & m;
	while (g->tab[i])
		i = (i + 1) & m;
	g->tab[i] = idx + 1;
}

static void global_append(struct global *g, const struct rechdr *r, uint32_t depth)
{
	size_t sz = (sizeof(*r) + r->canon_len + r->trans_len + 7) & ~(size_t)7;
	if (g->used + sz > g->cap) {
		while (g->used + sz > g->cap)
			g->cap = g->cap ? g->cap * 2 : (1u << 20);
		g->arena = realloc(g->arena, g->cap);
		if (!g->arena)
			die("oom");
	}
	if (g->nnodes == g->nodecap) {
		g->nodecap = g->nodecap ? g->nodecap * 2 : 4096;
		g->node_off = realloc(g->node_off, g->nodecap * sizeof(*g->node_off));
		g->node_depth = realloc(g->node_depth, g->nodecap * sizeof(*g->node_depth));
		if (!g->node_off || !g->node_depth)
			die("oom");
	}
	memcpy(g->arena + g->used, r, sizeof(*r) + r->canon_len + r->trans_len);
	g->node_off[g->nnodes] = g->used;
	g->node_depth[g->nnodes] = depth;
	g->used += sz;
	if ((g->nnodes + 1) * 2 > g->tabcap) {
		g->tabcap = g->tabcap ? g->tabcap * 2 : (1u << 14);
		free(g->tab);
		g->tab = calloc(g->tabcap, sizeof(*g->tab));
		if (!g->tab)
			die("oom");
		for (size_t i = 0; i < g->nnodes; i++)
			global_tab_insert(g, (uint32_t)i);
	}
	global_tab_insert(g, (uint32_t)g->nnodes);
	g->set_hash += r->hash * 0x9e3779b97f4a7c15ULL + 1;
	g->nnodes++;
}

/* ---- thread local candidate store ---------------------------------- */

static int cand_less(uint32_t pa, const uint8_t *ta, uint32_t la, uint32_t pb, const uint8_t *tb, uint32_t lb)
{
	if (pa != pb)
		return pa < pb;
	if (la != lb)
		return la < lb;
	return memcmp(ta, tb, la) < 0;
}

static void ls_rehash(struct lstore *ls)
{
	size_t ncap = ls->tabcap ? ls->tabcap * 2 : 1024;
	uint64_t *nt = calloc(ncap, sizeof(*nt));
	if (!nt)
		die("oom");
	for (size_t i = 0; i < ls->tabcap; i++) {
		if (!ls->tab[i])
			continue;
		const struct rechdr *r = (const struct rechdr *)(ls->mem + ls->tab[i] - 1);
		size_t k = (size_t)(r->hash ^ (r->hash >> 31)) & (ncap - 1);
		while (nt[k])
			k = (k + 1) & (ncap - 1);
		nt[k] = ls->tab[i];
	}
	free(ls->tab);
	ls->tab = nt;
	ls->tabcap = ncap;
}

static void ls_emit(struct lstore *ls, uint64_t h, const uint8_t *canon, uint32_t clen, uint32_t parent,
                    const uint8_t *trans, uint32_t tlen)
{
	if ((ls->count + 1) * 2 > ls->tabcap)
		ls_rehash(ls);
	size_t m = ls->tabcap - 1;
	size_t i = (size_t)(h ^ (h >> 31)) & m;
	while (ls->tab[i]) {
		struct rechdr *r = (struct rechdr *)(ls->mem + ls->tab[i] - 1);
		if (r->hash == h && r->canon_len == clen && memcmp(REC_CANON(r), canon, clen) == 0) {
			if (cand_less(parent, trans, tlen, r->parent, REC_TRANS(r), r->trans_len)) {
				if (tlen <= r->trans_len) {
					r->parent = parent;
					r->trans_len = tlen;
					memcpy((uint8_t *)r + sizeof(*r) + clen, trans, tlen);
					return;
				}
				break; /* needs more room: append a fresh record and repoint */
			}
			return;
		}
		i = (i + 1) & m;
	}
	size_t sz = (sizeof(struct rechdr) + clen + tlen + 7) & ~(size_t)7;
	if (ls->used + sz > ls->cap) {
		while (ls->used + sz > ls->cap)
			ls->cap = ls->cap ? ls->cap * 2 : (1u << 16);
		ls->mem = realloc(ls->mem, ls->cap);
		if (!ls->mem)
			die("oom");
	}
	struct rechdr *r = (struct rechdr *)(ls->mem + ls->used);
	memset(r, 0, sizeof(*r));
	r->hash = h;
	r->parent = parent;
	r->canon_len = clen;
	r->trans_len = tlen;
	memcpy((uint8_t *)r + sizeof(*r), canon, clen);
	memcpy((uint8_t *)r + sizeof(*r) + clen, trans, tlen);
	if (!ls->tab[i])
		ls->count++;
	ls->tab[i] = ls->used + 1;
	ls->used += sz;
}

/* ------------------------------------------------------------------ */
/* transitions as text                                                  */

static size_t trans_encode(uint8_t *out, int op, int shape, const int32_t *ans, int nans)
{
	out[0] = (uint8_t)op;
	out[1] = (uint8_t)shape;
	out[2] = (uint8_t)(nans & 0xff);
	out[3] = (uint8_t)(nans >> 8);
	for (int i = 0; i < nans; i++) {
		int16_t v = (int16_t)ans[i];
		memcpy(out + 4 + 2 * i, &v, 2);
	}
	return 4 + 2 * (size_t)nans;
}

static void sb_add(char **s, size_t *n, size_t *cap, const char *fmt, ...)
{
	char tmp[256];
	va_list ap;
	va_start(ap, fmt);
	int l = vsnprintf(tmp, sizeof(tmp), fmt, ap);
	va_end(ap);
	if (l < 0)
		return;
	if ((size_t)l >= sizeof(tmp))
		l = sizeof(tmp) - 1;
	if (*n + (size_t)l + 1 > *cap) {
		*cap = (*cap + (size_t)l + 1) * 2;
		*s = realloc(*s, *cap);
		if (!*s)
			die("oom");
	}
	memcpy(*s + *n, tmp, (size_t)l + 1);
	*n += (size_t)l;
}

static void trans_line(const struct c10_cfg *cfg, const uint8_t *t, char **s, size_t *n, size_t *cap, const char *eol)
{
	int op = t[0], shape = t[1], nans = t[2] | (t[3] << 8);
	if (op == OP_W)
		sb_add(s, n, cap, "W %d %d :", cfg->shapes[shape].prefix, cfg->shapes[shape].payload);
	else
		sb_add(s, n, cap, "%c :", op);
	for (int i = 0; i < nans; i++) {
		int16_t v;
		memcpy(&v, t + 4 + 2 * i, 2);
		if (v == ANS_EAGAIN)
			sb_add(s, n, cap, " EAGAIN");
		else if (v == ANS_ERR)
			sb_add(s, n, cap, " ERR");
		else
			sb_add(s, n, cap, op == OP_R ? " r%d" : " k%d", v);
	}
	sb_add(s, n, cap, "%s", eol);
}

/* path to node `parent` followed by transition t (may be NULL) */
static char *path_text(const struct global *g, uint32_t parent, const uint8_t *t, const char *expect, int oneline)
{
	const uint8_t *chain[512];
	int nc = 0;
	uint32_t idx = parent;
	while (idx != 0) {
		const struct rechdr *r = node_rec(g, idx);
		if (nc >= 512)
			die("path too long");
		chain[nc++] = REC_TRANS(r);
		idx = r->parent;
	}
	char *s = NULL;
	size_t n = 0, cap = 0;
	const char *eol = oneline ? "; " : "\n";
	if (!oneline) {
		sb_add(&s, &n, &cap, "c10-replay 1\nvariant %s\nbufsize %d\nerror %s\n", VNAME, (int)BUFSZ,
		       g->cfg->sticky_error ? "sticky" : "transient");
	}
	for (int i = nc - 1; i >= 0; i--)
		trans_line(g->cfg, chain[i], &s, &n, &cap, eol);
	if (t)
		trans_line(g->cfg, t, &s, &n, &cap, oneline ? "" : "\n");
	if (expect && !oneline)
		sb_add(&s, &n, &cap, "expect %s\n", expect);
	if (!s)
		sb_add(&s, &n, &cap, "%s", "");
	return s;
}

/* ------------------------------------------------------------------ */
/* running one operation on the real code                               */

static void restore_bs(struct ctx *c, const struct st *s)
{
	memcpy(c->bs, c->pristine, sizeof(*c->bs));
	c->bs->to_write = s->h.to_write;
	memcpy(c->bs->write_buffer, s->buf, s->h.to_write);
}

static uint32_t shape_len(const struct c10_cfg *cfg, int shape)
{
	return (uint32_t)(cfg->shapes[shape].prefix + cfg->shapes[shape].payload);
}

static int run_exec(struct ctx *c, const struct st *pre, int op, int shape, int mode, int *ret_out)
{
	restore_bs(c, pre);
	c->mode = mode;
	c->op = op;
	c->shape = shape;
	c->frame = pre->h.nframes;
	c->ps = pre->h.ps;
	c->nvis = pre->h.nframes;
	for (int i = 0; i < pre->h.nframes; i++)
		c->flen[i] = shape_len(c->cfg, pre->h.shape[i]);
	c->max_offer = pre->h.to_write;
	if (op == OP_W) {
		if (c->frame >= C10_MAXF)
			die("too many frames");
		c->flen[c->frame] = shape_len(c->cfg, shape);
		c->nvis++;
		c->max_offer += c->flen[c->frame];
	}
	c->call_limit = c->max_offer + 2;
	c->ncalls = c->nreads = c->saw_eagain = c->saw_error = 0;
	c->dead = (pre->h.flags & F_DEAD) != 0;
	c->shorts = c->eagains = c->errors = 0;
	c->pre_shorts = pre->h.shorts_used;
	if (mode != M_REPLAY)
		c->parse_bad = 0;
	c->error_cb_calls = c->read_cb_calls = 0;
	c->nans = 0;
	c->nev = 0;
	c->script_pos = 0;
	int ret = 0;
	volatile int rc;
	c->in_op = 1;
	rc = setjmp(c->jb);
	if (rc == 0) {
		switch (op) {
		case OP_W: {
			const struct c10_shape *sh = &c->cfg->shapes[shape];
			struct socket_io_vector iov[2];
			iov[0].iov_base = c->fbuf[c->frame][shape][0];
			iov[0].iov_len = (size_t)sh->prefix;
			iov[1].iov_base = c->fbuf[c->frame][shape][1];
			iov[1].iov_len = (size_t)sh->payload;
			ret = buffered_socket_writev(c->bs, iov, 2);
			break;
		}
		case OP_C:
			c->bs->ev.write_function(&c->bs->ev);
			break;
		case OP_R:
			c->bs->ev.read_function(&c->bs->ev);
			break;
		case OP_X:
			c->bs->ev.error_function(&c->bs->ev);
			break;
		default:
			die("bad op");
		}
	}
	c->in_op = 0;
	c->mode = M_IDLE;
	if (ret_out)
		*ret_out = ret;
	return rc;
}

/* flush with a kernel that accepts everything, on a copy */
static int drain(struct ctx *c, const struct st *post, struct pstate *out, int *sv)
{
	restore_bs(c, post);
	c->mode = M_DRAIN;
	c->dps = post->h.ps;
	c->drain_sv = 0;
	c->ncalls = 0;
	int saved_err = c->error_cb_calls;
	volatile int rc;
	c->in_op = 1;
	rc = setjmp(c->jb);
	if (rc == 0) {
		for (int i = 0; i < 3 && c->bs->to_write != 0; i++)
			c->bs->ev.write_function(&c->bs->ev);
	}
	c->in_op = 0;
	c->mode = M_IDLE;
	c->error_cb_calls = saved_err;
	*out = c->dps;
	*sv = c->drain_sv;
	if (rc != 0 && !c->drain_sv)
		return 0;
	return c->bs->to_write == 0;
}

/* ---- violation bookkeeping ----------------------------------------- */

static const char *const taint_key[] = {
	"",
	"torn-frame/prefix-queued-payload-refused",
	"torn-frame/partly-sent-then-refused",
	"torn-frame/partly-sent-partly-queued-then-refused",
	"torn-frame/partly-queued-then-refused",
	"refused-frame/delivered-completely",
	"stream-already-broken",
};

static void report(struct ctx *c, const char *key0, int consequence, uint32_t parent, const uint8_t *trans, int depth,
                   long weight, const char *fmt, ...)
{
	char key[128];
	snprintf(key, sizeof(key), "%s@%s%s", key0, VNAME, c->cfg->sticky_error ? "" : "+transient-error");
	struct best *b = NULL;
	for (int i = 0; i < c->nbest; i++)
		if (c->best[i].consequence == consequence && strcmp(c->best[i].key, key) == 0)
			b = &c->best[i];
	if (b && (b->depth < depth || (b->depth == depth && b->weight < weight)))
		return;
	char *txt = c->g ? path_text(c->g, parent, trans, key, 0) : strdup("");
	if (b && b->depth == depth && b->weight == weight && strcmp(b->replay, txt) <= 0) {
		free(txt);
		return;
	}
	if (!b) {
		if (c->nbest >= C10_MAXVIOL) {
			free(txt);
			return;
		}
		b = &c->best[c->nbest++];
		memset(b, 0, sizeof(*b));
		snprintf(b->key, sizeof(b->key), "%s", key);
		b->consequence = consequence;
	}
	free(b->replay);
	b->replay = txt;
	b->depth = depth;
	b->weight = weight;
	va_list ap;
	va_start(ap, fmt);
	vsnprintf(b->msg, sizeof(b->msg), fmt, ap);
	va_end(ap);
	if (c->mode == M_IDLE && c->out)
		fprintf(c->out, "  !! VIOLATION %s%s: %s\n", key, consequence ? " (peer-visible consequence)" : "", b->msg);
}

static void hex(char *out, size_t outsz, const uint8_t *p, size_t n)
{
	size_t o = 0;
	size_t show = n > 48 ? 48 : n;
	for (size_t i = 0; i < show && o + 4 < outsz; i++)
		o += (size_t)snprintf(out + o, outsz - o, "%02x", p[i]);
	if (show < n && o + 16 < outsz)
		snprintf(out + o, outsz - o, "..(%zu bytes)", n);
	else if (o < outsz)
		out[o] = 0;
}

/*
 * Checks after one completed (or aborted) execution.  Returns 1 and fills
 * *post when there is a successor state to continue from.
 */
static int finish_exec(struct ctx *c, uint32_t pre_idx, int pre_depth, const struct st *pre, int op, int shape, int rc,
                       int ret, struct st *post, uint8_t *trans, size_t *tlen_out)
{
	const struct c10_cfg *cfg = c->cfg;
	size_t tlen = trans_encode(trans, op, shape, c->ans, c->nans);
	*tlen_out = tlen;
	int depth = pre_depth + 1;
	long weight = c->nans;
	for (int i = 0; i < pre->h.nframes; i++)
		weight += 1000L * shape_len(cfg, pre->h.shape[i]);
	if (op == OP_W)
		weight += 1000L * shape_len(cfg, shape);
	const char *opname = op == OP_W ? "writev" : (op == OP_C ? "flush" : (op == OP_R ? "read-event" : "error-event"));

	c->transitions++;
	int nontrivial = c->shorts || c->eagains || c->errors || (op == OP_W && ret != 0);
	if (nontrivial)
		c->nontrivial++;

	int broken = rc == RUN_ABORT;
	for (int i = 0; i < c->nev; i++) {
		const struct event *e = &c->ev[i];
		broken = 1;
		if (e->stream && pre->h.taint) {
			report(c, taint_key[pre->h.taint], 1, pre_idx, trans, depth, weight,
			       "peer-visible consequence during %s: %s (%s); frame #%d had been refused with -1 on an open connection "
			       "after part of it was sent/queued, now other data follows its fragment in the kernel stream",
			       opname, sv_name[e->stream], e->detail, pre->h.taint_frame + 1);
		} else {
			char key[128];
			snprintf(key, sizeof(key), "%s/in-%s", e->key, opname);
			report(c, key, 0, pre_idx, trans, depth, weight, "%s during %s: %s", e->key, opname, e->detail);
		}
	}
	if (!broken && c->bs->to_write > (size_t)BUFSZ) {
		char key[128];
		snprintf(key, sizeof(key), "bounds/to_write-exceeds-buffer/after-%s", opname);
		report(c, key, 0, pre_idx, trans, depth, weight, "to_write = %zu > %d after %s", c->bs->to_write, (int)BUFSZ, opname);
		broken = 1;
	}
	if (broken && !(c->lenient && c->parse_bad && rc == RUN_DONE))
		return 0;

	*post = *pre;
	if (cfg->path_short_budget > 0) {
		int su = pre->h.shorts_used + c->shorts;
		post->h.shorts_used = (uint8_t)(su > 255 ? 255 : su);
	}
	post->h.ps = c->ps;
	post->h.to_write = (uint32_t)c->bs->to_write;
	memcpy(post->buf, c->bs->write_buffer, c->bs->to_write);

	if (broken) { /* replay only: stream already broken, continue for display without further stream checks */
		if (op == OP_W) {
			post->h.shape[pre->h.nframes] = (uint8_t)shape;
			post->h.res[pre->h.nframes] = ret != 0;
			post->h.nframes = (uint8_t)(pre->h.nframes + 1);
		}
		if (!post->h.taint)
			post->h.taint = 6;
		if (c->error_cb_calls)
			post->h.flags |= F_CLOSED;
		if (c->dead)
			post->h.flags |= F_DEAD;
		return 1;
	}
	if (op == OP_R) {
		c->read_events++;
		if (c->ncalls != 0 || post->h.to_write != pre->h.to_write || memcmp(post->buf, pre->buf, pre->h.to_write) != 0 ||
		    c->error_cb_calls)
			report(c, "read-event/write-side-changed", 0, pre_idx, trans, depth, weight,
			       "a read event changed the write side (writev calls %d, to_write %u -> %u)", c->ncalls,
			       pre->h.to_write, post->h.to_write);
		return 0;
	}
	if (op == OP_X) {
		c->error_events++;
		if (c->error_cb_calls != 1 || c->ncalls != 0)
			report(c, "error-event/error-callback-count", 0, pre_idx, trans, depth, weight,
			       "error event: error callback invoked %d times, %d writev calls", c->error_cb_calls, c->ncalls);
		post->h.flags |= F_CLOSED;
		return 1;
	}

	int n = pre->h.nframes;
	if (op == OP_W) {
		if (ret != 0 && ret != -1)
			report(c, "retval/unexpected", 0, pre_idx, trans, depth, weight, "buffered_socket_writev returned %d", ret);
		post->h.shape[n] = (uint8_t)shape;
		post->h.res[n] = ret != 0;
		post->h.nframes = (uint8_t)(n + 1);
	}
	if (c->error_cb_calls) {
		post->h.flags |= F_CLOSED;
		if (c->error_cb_calls > 1)
			report(c, "hard-error/error-callback-invoked-twice", 0, pre_idx, trans, depth, weight,
			       "error callback invoked %d times in one %s", c->error_cb_calls, opname);
	}
	if (c->dead)
		post->h.flags |= F_DEAD;
	if (c->errors)
		c->hard_errors++;
	if (op == OP_C && c->errors && !c->error_cb_calls)
		report(c, "hard-error/flush-error-not-reported", 0, pre_idx, trans, depth, weight,
		       "flush hit a hard socket error but the error callback (which closes the connection) was not invoked");
	if (op == OP_C && !c->errors && c->error_cb_calls)
		report(c, "flush/error-callback-without-error", 0, pre_idx, trans, depth, weight,
		       "flush invoked the error callback although the kernel reported no hard error");

	int nf = post->h.nframes;
	if (!(post->h.flags & (F_DEAD | F_CLOSED)) && !pre->h.taint) {
		struct pstate d;
		int dsv = 0;
		int ok = drain(c, post, &d, &dsv);
		c->drains++;
		char key[128];
		if (dsv) {
			snprintf(key, sizeof(key), "drain/%s/after-%s", sv_name[dsv], opname);
			report(c, key, 0, pre_idx, trans, depth, weight,
			       "flushing the write buffer left by this %s (kernel accepts everything) produced: %s", opname, sv_name[dsv]);
			return 0; /* definite violation: do not cascade */
		} else if (!ok) {
			snprintf(key, sizeof(key), "drain/buffer-not-emptied/after-%s", opname);
			report(c, key, 0, pre_idx, trans, depth, weight,
			       "write buffer not empty after writability callbacks with a kernel that accepts everything");
			return 0;
		} else {
			if (op == OP_W && ret != 0) {
				uint32_t len = c->flen[n];
				uint32_t sent = delivered(&post->h.ps, c->flen, n);
				uint32_t all = delivered(&d, c->flen, n);
				uint32_t queued = all - sent;
				if (sent || queued) {
					int cls;
					if (all == len)
						cls = 5;
					else if (sent == 0)
						cls = queued == (uint32_t)cfg->shapes[shape].prefix ? 1 : 4;
					else
						cls = queued == 0 ? 2 : 3;
					c->refusals_dirty++;
					post->h.taint = (uint8_t)cls;
					post->h.taint_frame = (uint8_t)n;
					report(c, taint_key[cls], 0, pre_idx, trans, depth, weight,
					       "buffered_socket_writev returned -1 for frame #%d (prefix %d + payload %d bytes; %u bytes were "
					       "pending before) and the connection stays open, but %u byte(s) of that frame were already "
					       "accepted by the kernel and %u more byte(s) of it were left queued in the write buffer "
					       "(to_write now %u): the frame is neither refused untouched nor is the connection closed",
					       n + 1, cfg->shapes[shape].prefix, cfg->shapes[shape].payload, pre->h.to_write, sent, queued,
					       post->h.to_write);
				} else {
					c->refusals_clean++;
				}
			}
			if (!post->h.taint) {
				for (int j = 0; j < nf; j++) {
					uint32_t dl = delivered(&d, c->flen, j);
					if (post->h.res[j] == 0 && dl != c->flen[j]) {
						snprintf(key, sizeof(key), "drain/accepted-frame-%s/after-%s", dl ? "truncated" : "missing", opname);
						report(c, key, 0, pre_idx, trans, depth, weight,
						       "frame #%d was accepted (return 0) but after a complete flush the kernel has only %u of its "
						       "%u bytes",
						       j + 1, dl, c->flen[j]);
					} else if (post->h.res[j] != 0 && dl != 0) {
						snprintf(key, sizeof(key), "drain/refused-frame-bytes-delivered/after-%s", opname);
						report(c, key, 0, pre_idx, trans, depth, weight,
						       "frame #%d was refused (return -1) but %u of its bytes reach the kernel", j + 1, dl);
					}
				}
			}
		}
	}
	if ((post->h.flags & F_DEAD) && c->errors && post->h.ps.cur >= 0)
		c->hard_error_partial++;
	return 1;
}

/* ------------------------------------------------------------------ */
/* exploration                                                          */

static void emit(struct ctx *c, const struct st *post, uint32_t parent, const uint8_t *trans, size_t tlen)
{
	uint8_t *canon = c->canon_buf;
	size_t clen = canon_of(post, canon);
	uint64_t h = fnv(canon, clen, FNV0);
	if (global_lookup(c->g, h, canon, clen))
		return;
	ls_emit(&c->ls, h, canon, (uint32_t)clen, parent, trans, (uint32_t)tlen);
}

static void explore_op(struct ctx *c, uint32_t pre_idx, int pre_depth, const struct st *pre, int op, int shape)
{
	struct st *post = c->post_buf;
	uint8_t trans[4 + 2 * MAXCALLS];
	c->script_len = 0;
	memo_reset(c);
	for (;;) {
		int ret = 0;
		int rc = run_exec(c, pre, op, shape, M_EXPLORE, &ret);
		if (rc == RUN_PRUNED) {
			c->pruned++;
		} else {
			size_t tlen;
			if (finish_exec(c, pre_idx, pre_depth, pre, op, shape, rc, ret, post, trans, &tlen))
				emit(c, post, pre_idx, trans, tlen);
		}
		while (c->script_len > 0) {
			struct choice *ch = &c->script[c->script_len - 1];
			if (ch->pick + 1 < ch->n) {
				ch->pick++;
				break;
			}
			c->script_len--;
		}
		if (c->script_len == 0)
			break;
	}
}

static void expand_state(struct ctx *c, uint32_t idx, int depth, const struct st *pre)
{
	if (pre->h.flags & F_CLOSED)
		return;
	if (pre->h.nframes < c->cfg->max_frames)
		for (int s = 0; s < c->cfg->nshapes; s++)
			explore_op(c, idx, depth, pre, OP_W, s);
	explore_op(c, idx, depth, pre, OP_C, 0);
	explore_op(c, idx, depth, pre, OP_R, 0);
	explore_op(c, idx, depth, pre, OP_X, 0);
}

static void *worker(void *arg)
{
	struct ctx *c = arg;
	struct global *g = c->g;
	tls_ctx = c;
	struct st *pre = malloc(sizeof(*pre));
	if (!pre)
		die("oom");
	for (;;) {
		size_t i = __atomic_fetch_add(&g->next, 1, __ATOMIC_RELAXED);
		if (i >= g->front_hi || g->stop)
			break;
		if (g->cfg->deadline > 0 && now_s() > g->cfg->deadline) {
			g->stop = 1;
			break;
		}
		const struct rechdr *r = node_rec(g, i);
		st_from_canon(pre, REC_CANON(r), r->canon_len);
		expand_state(c, (uint32_t)i, (int)g->node_depth[i], pre);
	}
	free(pre);
	tls_ctx = NULL;
	return NULL;
}

static int rec_cmp(const void *a, const void *b)
{
	const struct rechdr *x = *(const struct rechdr *const *)a, *y = *(const struct rechdr *const *)b;
	uint32_t m = x->canon_len < y->canon_len ? x->canon_len : y->canon_len;
	int r = memcmp(REC_CANON(x), REC_CANON(y), m);
	if (r)
		return r;
	if (x->canon_len != y->canon_len)
		return x->canon_len < y->canon_len ? -1 : 1;
	if (cand_less(x->parent, REC_TRANS(x), x->trans_len, y->parent, REC_TRANS(y), y->trans_len))
		return -1;
	if (cand_less(y->parent, REC_TRANS(y), y->trans_len, x->parent, REC_TRANS(x), x->trans_len))
		return 1;
	return 0;
}

static void ctx_init(struct ctx *c, struct global *g, const struct c10_cfg *cfg)
{
	memset(c, 0, sizeof(*c));
	c->g = g;
	c->cfg = cfg;
	tls_ctx = c;
	c->bs = buffered_socket_acquire();
	if (!c->bs)
		die("buffered_socket_acquire failed");
	memset(c->bs, 0, sizeof(*c->bs));
	c->loop.this_ptr = c;
	c->loop.add = loop_add;
	c->loop.remove = loop_remove;
	buffered_socket_init(c->bs, FD, &c->loop, err_cb, c);
	memset(c->bs->write_buffer, POISON, BUFSZ);
	c->mode = M_INIT;
	if (buffered_socket_read_exactly(c->bs, 4, read_cb, c) != 0)
		die("read_exactly failed");
	c->mode = M_IDLE;
	if (c->loop_add != 1 || c->nreads != 1)
		die("unexpected init behaviour (add %d, reads %d)", c->loop_add, c->nreads);
	c->pristine = malloc(sizeof(*c->bs));
	memcpy(c->pristine, c->bs, sizeof(*c->bs));
	for (int f = 0; f < C10_MAXF; f++)
		for (int s = 0; s < cfg->nshapes; s++) {
			int pl = cfg->shapes[s].prefix, ql = cfg->shapes[s].payload;
			uint8_t *a = malloc(pl > 0 ? (size_t)pl : 1), *b = malloc(ql > 0 ? (size_t)ql : 1);
			if (!a || !b)
				die("oom");
			for (int j = 0; j < pl; j++)
				a[j] = content(f, (uint32_t)j);
			for (int j = 0; j < ql; j++)
				b[j] = content(f, (uint32_t)(pl + j));
			c->fbuf[f][s][0] = a;
			c->fbuf[f][s][1] = b;
		}
	c->canon_buf = malloc(sizeof(struct st));
	c->post_buf = malloc(sizeof(struct st));
	if (!c->canon_buf || !c->post_buf)
		die("oom");
	c->memo_cap = 1u << 13;
	c->memo = calloc(c->memo_cap, sizeof(*c->memo));
	c->memo_gen = calloc(c->memo_cap, sizeof(*c->memo_gen));
	if (!c->memo || !c->memo_gen)
		die("oom");
	tls_ctx = NULL;
}

static void ctx_free(struct ctx *c)
{
	tls_ctx = c;
	memcpy(c->bs, c->pristine, sizeof(*c->bs));
	buffered_socket_close(c->bs); /* remove from loop, close, release */
	if (c->loop_remove != 1 || c->close_calls != 1)
		die("buffered_socket_close: remove %d close %d", c->loop_remove, c->close_calls);
	tls_ctx = NULL;
	free(c->pristine);
	for (int f = 0; f < C10_MAXF; f++)
		for (int s = 0; s < c->cfg->nshapes; s++) {
			free(c->fbuf[f][s][0]);
			free(c->fbuf[f][s][1]);
		}
	free(c->canon_buf);
	free(c->post_buf);
	free(c->memo);
	free(c->memo_gen);
	free(c->ls.mem);
	free(c->ls.tab);
	free(c->klog);
	for (int i = 0; i < c->nbest; i++)
		free(c->best[i].replay);
}

static void merge_best(struct c10_result *res, const struct best *b)
{
	struct c10_viol *v = NULL;
	for (int i = 0; i < res->nviol; i++)
		if (res->viol[i].consequence == b->consequence && strcmp(res->viol[i].key, b->key) == 0)
			v = &res->viol[i];
	if (v) {
		if (v->depth < b->depth || (v->depth == b->depth && v->weight < b->weight))
			return;
		if (v->depth == b->depth && v->weight == b->weight && strcmp(v->replay, b->replay) <= 0)
			return;
	} else {
		if (res->nviol >= C10_MAXVIOL)
			return;
		v = &res->viol[res->nviol++];
		memset(v, 0, sizeof(*v));
	}
	free(v->replay);
	snprintf(v->key, sizeof(v->key), "%s", b->key);
	snprintf(v->msg, sizeof(v->msg), "%s", b->msg);
	v->replay = strdup(b->replay);
	v->depth = b->depth;
	v->weight = b->weight;
	v->consequence = b->consequence;
}

int V(c10_bufsize)(void)
{
	return BUFSZ;
}

int V(c10_explore)(const struct c10_cfg *cfg, struct c10_result *res)
{
	memset(res, 0, sizeof(*res));
	res->bufsize = BUFSZ;
	if (cfg->max_frames > C10_MAXF || cfg->nshapes > C10_MAXSHAPES)
		die("bounds too large");
	int jobs = cfg->jobs < 1 ? 1 : cfg->jobs;
	struct global *g = calloc(1, sizeof(*g));
	g->cfg = cfg;
	struct ctx *ctxs = calloc((size_t)jobs, sizeof(*ctxs));
	if (!g || !ctxs)
		die("oom");
	for (int i = 0; i < jobs; i++)
		ctx_init(&ctxs[i], g, cfg);

	/* initial state */
	{
		struct st *s0 = calloc(1, sizeof(*s0));
		s0->h.ps.cur = -1;
		uint8_t *buf = malloc(sizeof(struct rechdr) + sizeof(struct st) + 8);
		struct rechdr *r = (struct rechdr *)buf;
		memset(r, 0, sizeof(*r));
		r->canon_len = (uint32_t)canon_of(s0, buf + sizeof(*r));
		r->hash = fnv(buf + sizeof(*r), r->canon_len, FNV0);
		r->trans_len = 0;
		global_append(g, r, 0);
		free(buf);
		free(s0);
	}
	g->front_lo = 0;
	g->front_hi = 1;
	int level = 0;
	res->exhaustive = 1;
	while (g->front_lo < g->front_hi) {
		g->next = g->front_lo;
		int nthr = jobs;
		if ((size_t)nthr > g->front_hi - g->front_lo)
			nthr = (int)(g->front_hi - g->front_lo);
		for (int i = 0; i < nthr; i++)
			if (pthread_create(&ctxs[i].thr, NULL, worker, &ctxs[i]) != 0)
				die("pthread_create");
		for (int i = 0; i < nthr; i++)
			pthread_join(ctxs[i].thr, NULL);
		if (g->stop) {
			res->exhaustive = 0;
			break;
		}
		/* merge */
		size_t total = 0;
		for (int i = 0; i < jobs; i++)
			total += ctxs[i].ls.count;
		const struct rechdr **recs = malloc((total + 1) * sizeof(*recs));
		size_t nr = 0;
		for (int i = 0; i < jobs; i++) {
			struct lstore *ls = &ctxs[i].ls;
			for (size_t k = 0; k < ls->tabcap; k++)
				if (ls->tab[k])
					recs[nr++] = (const struct rechdr *)(ls->mem + ls->tab[k] - 1);
		}
		qsort(recs, nr, sizeof(*recs), rec_cmp);
		size_t lo = g->nnodes;
		for (size_t k = 0; k < nr; k++) {
			if (k > 0 && recs[k]->canon_len == recs[k - 1]->canon_len &&
			    memcmp(REC_CANON(recs[k]), REC_CANON(recs[k - 1]), recs[k]->canon_len) == 0)
				continue;
			global_append(g, recs[k], (uint32_t)(level + 1));
		}
		free(recs);
		for (int i = 0; i < jobs; i++) {
			struct lstore *ls = &ctxs[i].ls;
			ls->used = 0;
			ls->count = 0;
			if (ls->tab)
				memset(ls->tab, 0, ls->tabcap * sizeof(*ls->tab));
		}
		g->front_lo = lo;
		g->front_hi = g->nnodes;
		level++;
		if (cfg->verbose)
			fprintf(stderr, "c10[%s] %s: level %d: +%zu states (total %zu)\n", VNAME, cfg->section, level,
			        g->front_hi - g->front_lo, g->nnodes);
	}
	res->levels = level;
	res->states = g->nnodes;
	res->set_hash = g->set_hash;
	for (int i = 0; i < jobs; i++) {
		struct ctx *c = &ctxs[i];
		res->transitions += c->transitions;
		res->pruned += c->pruned;
		res->drains += c->drains;
		res->nontrivial += c->nontrivial;
		res->read_events += c->read_events;
		res->error_events += c->error_events;
		res->refusals_clean += c->refusals_clean;
		res->refusals_dirty += c->refusals_dirty;
		res->hard_errors += c->hard_errors;
		res->hard_error_partial_frame += c->hard_error_partial;
		for (int k = 0; k < c->nbest; k++)
			merge_best(res, &c->best[k]);
	}
	/* samples: a few explored paths written out */
	if (g->nnodes > 1) {
		size_t pick[C10_MAXSAMPLES] = {1, g->nnodes / 7, g->nnodes / 3, g->nnodes / 2, (g->nnodes * 3) / 4, g->nnodes - 1};
		for (int i = 0; i < C10_MAXSAMPLES; i++) {
			size_t idx = pick[i];
			if (idx == 0 || idx >= g->nnodes)
				continue;
			const struct rechdr *r = node_rec(g, idx);
			struct st *s = malloc(sizeof(*s));
			st_from_canon(s, REC_CANON(r), r->canon_len);
			char *p = path_text(g, (uint32_t)idx, NULL, NULL, 1);
			char *line = NULL;
			size_t n = 0, cap = 0;
			sb_add(&line, &n, &cap, "[%s] ", VNAME);
			sb_add(&line, &n, &cap, "%.200s", p);
			sb_add(&line, &n, &cap, " => to_write=%u frames=%d results=", s->h.to_write, s->h.nframes);
			for (int k = 0; k < s->h.nframes; k++)
				sb_add(&line, &n, &cap, "%s", s->h.res[k] ? "-1," : "0,");
			sb_add(&line, &n, &cap, " flags=%s%s", (s->h.flags & F_DEAD) ? "dead" : "", (s->h.flags & F_CLOSED) ? "closed" : "");
			res->samples[res->nsamples++] = line;
			free(p);
			free(s);
		}
	}
	for (int i = 0; i < jobs; i++)
		ctx_free(&ctxs[i]);
	free(ctxs);
	free(g->arena);
	free(g->node_off);
	free(g->node_depth);
	free(g->tab);
	free(g);
	return 0;
}

/* ------------------------------------------------------------------ */
/* replay                                                               */

struct rop {
	int op, shape, nans;
	int32_t ans[MAXCALLS];
};

static void print_stream(FILE *out, const char *title, const uint8_t *p, size_t n)
{
	fprintf(out, "%s (%zu bytes):", title, n);
	size_t show = n > 96 ? 96 : n;
	for (size_t i = 0; i < show; i++)
		fprintf(out, " %02x", p[i]);
	if (show < n)
		fprintf(out, " ...");
	fprintf(out, "\n");
}

/* byte -> "f2[3]" description for small frames */
static void print_annotated(FILE *out, const uint8_t *p, size_t n)
{
	fprintf(out, "  decoded:");
	size_t show = n > 96 ? 96 : n;
	int lastf = -1;
	for (size_t i = 0; i < show; i++) {
		uint8_t b = p[i];
		if (b < 0x80 && (b >> 5) >= 1) {
			int f = b >> 5, j = b & 31;
			if (f != lastf || j == 0)
				fprintf(out, " |F%d:", f);
			fprintf(out, "%d%s", j, i + 1 < show ? "," : "");
			lastf = f;
		} else if (b >= 0x80) {
			fprintf(out, "~");
		} else {
			fprintf(out, " ?%02x", b);
			lastf = -1;
		}
	}
	fprintf(out, "\n");
}

int V(c10_replay)(const char *text, FILE *out, char keys[][128], int maxkeys)
{
	struct c10_cfg cfg;
	memset(&cfg, 0, sizeof(cfg));
	cfg.section = "replay";
	cfg.max_frames = C10_MAXF;
	cfg.sticky_error = 1;
	cfg.jobs = 1;
	struct rop *ops = calloc(128, sizeof(*ops));
	int nops = 0;
	char expect[128] = "";
	char *copy = strdup(text), *save = NULL;
	for (char *line = strtok_r(copy, "\n", &save); line; line = strtok_r(NULL, "\n", &save)) {
		while (*line == ' ' || *line == '\t')
			line++;
		if (*line == 0 || *line == '#')
			continue;
		if (strncmp(line, "c10-replay", 10) == 0 || strncmp(line, "variant", 7) == 0)
			continue;
		if (strncmp(line, "bufsize", 7) == 0) {
			if (atoi(line + 7) != BUFSZ) {
				fprintf(out, "replay: bufsize %d does not match this build (%d)\n", atoi(line + 7), (int)BUFSZ);
				free(copy);
				free(ops);
				return -1;
			}
			continue;
		}
		if (strncmp(line, "error", 5) == 0) {
			cfg.sticky_error = strstr(line, "transient") == NULL;
			continue;
		}
		if (strncmp(line, "expect", 6) == 0) {
			sscanf(line + 6, " %127s", expect);
			continue;
		}
		if (nops >= 128) {
			fprintf(out, "replay: too many operations\n");
			free(copy);
			free(ops);
			return -1;
		}
		struct rop *o = &ops[nops];
		o->op = line[0];
		char *colon = strchr(line, ':');
		if (!colon || (o->op != OP_W && o->op != OP_C && o->op != OP_R && o->op != OP_X)) {
			fprintf(out, "replay: cannot parse line '%s'\n", line);
			free(copy);
			free(ops);
			return -1;
		}
		if (o->op == OP_W) {
			int p, q;
			if (sscanf(line + 1, " %d %d", &p, &q) != 2 || p < 0 || q < 0) {
				fprintf(out, "replay: bad W line '%s'\n", line);
				free(copy);
				free(ops);
				return -1;
			}
			int s;
			for (s = 0; s < cfg.nshapes; s++)
				if (cfg.shapes[s].prefix == p && cfg.shapes[s].payload == q)
					break;
			if (s == cfg.nshapes) {
				if (cfg.nshapes >= C10_MAXSHAPES) {
					fprintf(out, "replay: too many distinct frame shapes\n");
					free(copy);
					free(ops);
					return -1;
				}
				cfg.shapes[cfg.nshapes].prefix = p;
				cfg.shapes[cfg.nshapes].payload = q;
				cfg.nshapes++;
			}
			o->shape = s;
		}
		char *save2 = NULL;
		for (char *tok = strtok_r(colon + 1, " \t", &save2); tok; tok = strtok_r(NULL, " \t", &save2)) {
			if (o->nans >= MAXCALLS)
				break;
			if (strcmp(tok, "EAGAIN") == 0)
				o->ans[o->nans++] = ANS_EAGAIN;
			else if (strcmp(tok, "ERR") == 0 || strcmp(tok, "EPIPE") == 0)
				o->ans[o->nans++] = ANS_ERR;
			else if ((tok[0] == 'k' || tok[0] == 'r') && atoi(tok + 1) > 0)
				o->ans[o->nans++] = atoi(tok + 1);
			else {
				fprintf(out, "replay: bad answer '%s'\n", tok);
				free(copy);
				free(ops);
				return -1;
			}
		}
		nops++;
	}
	free(copy);

	struct ctx *c = malloc(sizeof(*c));
	ctx_init(c, NULL, &cfg);
	tls_ctx = c;
	c->out = out;
	c->lenient = 1;
	c->klog_cap = 256;
	c->klog = malloc(c->klog_cap);
	if (!c->klog)
		die("oom");
	struct st *cur = calloc(1, sizeof(*cur)), *post = calloc(1, sizeof(*post));
	cur->h.ps.cur = -1;
	uint8_t trans[4 + 2 * MAXCALLS];
	int nframes_submitted = 0, alive = 1;
	int led_shape[C10_MAXF + 1], led_ret[C10_MAXF + 1], led_aborted[C10_MAXF + 1];
	fprintf(out, "C10 replay, variant %s, write buffer %d bytes, hard error = %s\n", VNAME, (int)BUFSZ,
	        cfg.sticky_error ? "EPIPE (socket stays dead)" : "ENOBUFS (transient)");
	fprintf(out, "frame #i byte j has value (i<<5)|j for j<32 (0x80|hash beyond), so the stream identifies itself\n");
	for (int i = 0; i < nops && alive; i++) {
		struct rop *o = &ops[i];
		if (o->op == OP_W && cur->h.nframes >= C10_MAXF) {
			fprintf(out, "replay: more than %d frames\n", C10_MAXF);
			break;
		}
		if (cur->h.flags & F_CLOSED) {
			fprintf(out, "replay: connection already closed, remaining operations skipped\n");
			break;
		}
		if (o->op == OP_W)
			fprintf(out, "op %d: buffered_socket_writev(frame #%d: prefix %d bytes + payload %d bytes), %u bytes pending\n", i + 1,
			        cur->h.nframes + 1, cfg.shapes[o->shape].prefix, cfg.shapes[o->shape].payload, cur->h.to_write);
		else
			fprintf(out, "op %d: %s, %u bytes pending\n", i + 1,
			        o->op == OP_C ? "writability callback (ev.write_function)"
			                      : (o->op == OP_R ? "read event (ev.read_function)" : "error event (ev.error_function)"),
			        cur->h.to_write);
		c->rp_ans = o->ans;
		c->rp_n = o->nans;
		c->rp_pos = 0;
		int ret = 0;
		int rc = run_exec(c, cur, o->op, o->shape, M_REPLAY, &ret);
		if (c->rp_diverged)
			fprintf(out, "    (note: the code asked for more/other kernel answers than recorded; defaulted to accept-all)\n");
		if (o->op == OP_W)
			fprintf(out, "    returned %d\n", ret);
		size_t tlen;
		size_t tw_after = c->bs->to_write;
		char hx[160];
		hex(hx, sizeof(hx), c->bs->write_buffer, tw_after <= (size_t)BUFSZ ? tw_after : 0);
		int cont = finish_exec(c, 0, i, cur, o->op, o->shape, rc, ret, post, trans, &tlen);
		if (o->op == OP_W) {
			led_shape[nframes_submitted] = o->shape;
			led_ret[nframes_submitted] = ret;
			led_aborted[nframes_submitted] = rc != RUN_DONE;
			nframes_submitted++;
		}
		if (!cont && o->op != OP_R) {
			fprintf(out, "    path ends here (stream/bounds violation, state no longer meaningful)\n");
			alive = 0;
		} else if (cont) {
			struct st *t = cur;
			cur = post;
			post = t;
		}
		fprintf(out, "    to_write=%zu write_buffer=[%s]%s%s error_callback_calls=%d\n", tw_after, hx,
		        (cur->h.flags & F_DEAD) ? " socket-dead" : "", (cur->h.flags & F_CLOSED) ? " connection-closed" : "",
		        c->error_cb_calls);
		print_stream(out, "    kernel stream so far", c->klog, c->klog_n);
	}
	/* ledger, final flush, verdict */
	fprintf(out, "ledger:");
	for (int i = 0; i < nframes_submitted; i++)
		fprintf(out, " frame#%d(%d+%d)=%s", i + 1, cfg.shapes[led_shape[i]].prefix, cfg.shapes[led_shape[i]].payload,
		        led_aborted[i] ? "(call aborted by the harness)" : (led_ret[i] ? "-1(refused)" : "0(accepted)"));
	fprintf(out, "\n");
	if (alive && !(cur->h.flags & (F_DEAD | F_CLOSED))) {
		struct pstate d;
		int dsv;
		for (int i = 0; i < cur->h.nframes; i++)
			c->flen[i] = shape_len(&cfg, cur->h.shape[i]);
		c->nvis = cur->h.nframes;
		c->log_drain = 1;
		int ok = drain(c, cur, &d, &dsv);
		c->log_drain = 0;
		fprintf(out, "final flush with a kernel that accepts everything: %s%s\n", ok ? "buffer emptied" : "BUFFER NOT EMPTIED",
		        dsv ? " (stream violation while flushing)" : "");
	} else {
		fprintf(out, "no final flush (connection dead/closed or path ended)\n");
	}
	print_stream(out, "kernel stream (what the peer receives)", c->klog, c->klog_n);
	if (BUFSZ <= 64)
		print_annotated(out, c->klog, c->klog_n);
	{
		uint8_t *exp = malloc(1);
		size_t en = 0;
		for (int i = 0; i < nframes_submitted; i++) {
			if (led_ret[i] || led_aborted[i])
				continue;
			uint32_t l = shape_len(&cfg, led_shape[i]);
			exp = realloc(exp, en + l + 1);
			for (uint32_t j = 0; j < l; j++)
				exp[en++] = content(i, j);
		}
		print_stream(out, "expected = concatenation of accepted frames", exp, en);
		if (BUFSZ <= 64)
			print_annotated(out, exp, en);
		int same = en == c->klog_n && memcmp(exp, c->klog, en) == 0;
		int prefix = c->klog_n <= en && memcmp(exp, c->klog, c->klog_n) == 0;
		fprintf(out, "kernel stream %s expected\n", same ? "EQUALS" : (prefix ? "is a proper PREFIX of" : "DIFFERS from"));
		free(exp);
	}
	int nk = 0;
	for (int i = 0; i < c->nbest; i++) {
		int dup = 0;
		for (int k = 0; k < nk; k++)
			if (strcmp(keys[k], c->best[i].key) == 0)
				dup = 1;
		if (!dup && nk < maxkeys)
			snprintf(keys[nk++], 128, "%s", c->best[i].key);
	}
	fprintf(out, "verdict: %s", nk ? "VIOLATED" : "held");
	for (int i = 0; i < nk; i++)
		fprintf(out, " %s", keys[i]);
	fprintf(out, "\n");
	if (expect[0]) {
		int found = 0;
		for (int i = 0; i < nk; i++)
			if (strcmp(keys[i], expect) == 0)
				found = 1;
		fprintf(out, "recorded expectation %s: %s\n", expect, found ? "reproduced" : "NOT reproduced");
	}
	c->out = NULL;
	tls_ctx = NULL;
	ctx_free(c);
	free(c);
	free(cur);
	free(post);
	free(ops);
	return nk;
}
