/*
 * C18 - UTF-8 validator accepts exactly well-formed UTF-8, however presented.
 *
 * Engine B harness (explicit-state search + exhaustive bounded enumeration; no
 * sampling, no solver) around the REAL src/utf8_checker.c, which is #included
 * below unmodified.  See /verif/DESIGN.md "### C18" and /verif/mod/CONTRACT.md.
 *
 *  S0  reference DFA (RFC 3629 table) cross-checked against an arithmetic decoder
 *  S1  product automaton  (validator struct content x reference DFA) over 256 bytes
 *  S2  32-bit word entry point: all 2^32 words (thorough) / 40^4 (quick) from the
 *      boundary state, 21^4 from every other reachable state, two-word calls
 *  S3  64-bit word entry point: 11^8 lane classes, 2^32 halves, other start states
 *  S4  chunking: strings <= 6 over 11 bytes x every split into <= 3 chunks
 *  S5  auto-aligned front end: all 8 alignments
 */
#define _GNU_SOURCE
#include <sys/stat.h>

#include "utf8_checker.c" /* the module under test, from $(REPO)/src */

#include "c18_sections.h"

#define REPLAY_DIR "/verif/replays"

/* ------------------------------------------------------------------ */
/* alphabets                                                           */
/* ------------------------------------------------------------------ */
static const uint8_t A40[] = {0x00, 0x01, 0x0A, 0x20, 0x41, 0x7E, 0x7F, 0x80, 0x81, 0x88, 0x8F, 0x90, 0x98, 0x9F, 0xA0, 0xA8, 0xB0, 0xBF, 0xC0, 0xC1,
                              0xC2, 0xC3, 0xDF, 0xE0, 0xE1, 0xEC, 0xED, 0xEE, 0xEF, 0xF0, 0xF1, 0xF3, 0xF4, 0xF5, 0xF7, 0xF8, 0xFB, 0xFC, 0xFE, 0xFF};
static const uint8_t A21[] = {0x00, 0x7F, 0x80, 0xBF, 0xC0, 0xC1, 0xC2, 0xDF, 0xE0, 0xED, 0xF4, 0xE1, 0xEF, 0xF0, 0xF1, 0xF5, 0xFF, 0x8F, 0x90, 0x9F, 0xA0};
static const uint8_t A11[] = {0x00, 0x7F, 0x80, 0xBF, 0xC0, 0xC1, 0xC2, 0xDF, 0xE0, 0xED, 0xF4};
static const uint8_t A6[] = {0x41, 0x80, 0xC0, 0xC1, 0xC2, 0xE1};
static const uint8_t A5[] = {0x41, 0x80, 0xC2, 0xC0, 0xE1};
static const uint8_t A3[] = {0x41, 0xC2, 0x80};
static const uint8_t A2[] = {0xC2, 0x80};
_Static_assert(sizeof(A40) == 40, "A40");
_Static_assert(sizeof(A21) == 21, "A21");

/* ------------------------------------------------------------------ */
/* specialised 2^32 sweeps (boundary start state)                      */
/* ------------------------------------------------------------------ */
static void word_suspect(struct res *r, int entry, const uint8_t *by, int n, int complete)
{
	struct kase k;
	kase_from_start(&k, &starts[0]);
	k.entry = (uint8_t)entry;
	k.n = (uint8_t)n;
	memcpy(k.bytes, by, (size_t)n);
	k.complete = (uint8_t)complete;
	suspect(r, &k);
}

static inline void check_w32(struct res *r, uint32_t w)
{
	uint8_t by[4];
	memcpy(by, &w, 4); /* memory order */
	const int d = dfa[dfa[dfa[dfa[D_ACC][by[0]]][by[1]]][by[2]]][by[3]];
	const bool fast = shape32(by);
	for (int complete = 0; complete < 2; complete++) {
		chk_t c = starts[0].st, cb = starts[0].st;
		uint32_t wv = w;
		bool rw = cjet_is_word_sequence_valid(&c, &wv, 1, complete);
		bool rb = cjet_is_byte_sequence_valid(&cb, by, 4, complete);
		bool exp = complete ? d == D_ACC : d != D_REJ;
		if (fast || !exp) r->nontrivial++;
		if (rw != exp || rw != rb || (rw && !complete && st_key(&c) != st_key(&cb))) word_suspect(r, E_WORD32, by, 4, complete);
	}
	r->cases += 2;
	r->calls += 4;
}

static inline void check_w64(struct res *r, uint64_t w)
{
	uint8_t by[8];
	memcpy(by, &w, 8);
	const int d = dfa_run(D_ACC, by, 8);
	const bool fast = shape64(by);
	for (int complete = 0; complete < 2; complete++) {
		chk_t c = starts[0].st, cb = starts[0].st;
		uint64_t wv = w;
		bool rw = cjet_is_word64_sequence_valid(&c, &wv, 1, complete);
		bool rb = cjet_is_byte_sequence_valid(&cb, by, 8, complete);
		bool exp = complete ? d == D_ACC : d != D_REJ;
		if (fast || !exp) r->nontrivial++;
		if (rw != exp || rw != rb || (rw && !complete && st_key(&c) != st_key(&cb))) word_suspect(r, E_WORD64, by, 8, complete);
	}
	r->cases += 2;
	r->calls += 4;
}

struct wsweep { int kind; uint32_t fixed; }; /* 0: all 32-bit words; 1: 64-bit, low half varies, high fixed; 2: high varies, low fixed */
#define BLOCK_BITS 16 /* block index = the two upper lanes; b % jobs spreads every lane-class pattern over all workers */

static void w_words(struct res *r, int job, int njobs, void *arg)
{
	const struct wsweep *ws = arg;
	const uint32_t nblocks = 1u << (32 - BLOCK_BITS);
	for (uint32_t b = (uint32_t)job; b < nblocks; b += (uint32_t)njobs) {
		if (expired()) { r->complete = 0; return; }
		uint32_t base = b << BLOCK_BITS;
		for (uint32_t i = 0; i < (1u << BLOCK_BITS); i++) {
			uint32_t w = base | i;
			if (ws->kind == 0) check_w32(r, w);
			else if (ws->kind == 1) check_w64(r, ((uint64_t)ws->fixed << 32) | w);
			else check_w64(r, ((uint64_t)w << 32) | ws->fixed);
		}
	}
}

/* ------------------------------------------------------------------ */
/* section bookkeeping                                                 */
/* ------------------------------------------------------------------ */
struct sect { char name[200]; uint64_t cases, states; int exhaustive; double secs; };
static struct sect sects[128];
static int n_sects;
static struct res total;
static uint64_t ref_only_cases;
static int g_jobs = 16;

static void account(const char *name, const struct res *r, double secs, bool counts_as_impl)
{
	struct sect *s = &sects[n_sects++];
	snprintf(s->name, sizeof(s->name), "%s", name);
	s->cases = r->cases;
	s->states = r->states;
	s->exhaustive = r->complete && !r->suspects_capped;
	s->secs = secs;
	if (counts_as_impl) {
		int keep = total.complete;
		res_merge(&total, r);
		total.complete = keep && r->complete;
	} else {
		ref_only_cases += r->cases;
		if (r->harness_error && !total.harness_error) { total.harness_error = 1; memcpy(total.err, r->err, sizeof(total.err)); }
	}
	fprintf(stderr, "c18: %-58s %12llu cases %7.1fs%s\n", name, (unsigned long long)r->cases, secs, s->exhaustive ? "" : "  (INCOMPLETE)");
}

static void run_sweep(const char *label, int entry, const uint8_t *alpha, int nalpha, int L, int a_lo, int a_hi, int cutmode, int s_lo, int s_hi, int cmask)
{
	struct sweep sw = {label, entry, alpha, nalpha, L, a_lo, a_hi, cutmode, s_lo, s_hi, cmask};
	struct res r;
	double t0 = now_s();
	if (expired()) { memset(&r, 0, sizeof(r)); r.complete = 0; }
	else run_parallel(&r, w_sweep, &sw, g_jobs);
	account(label, &r, now_s() - t0, true);
}

static void run_words(const char *label, int kind, uint32_t fixed)
{
	struct wsweep ws = {kind, fixed};
	struct res r;
	double t0 = now_s();
	if (expired()) { memset(&r, 0, sizeof(r)); r.complete = 0; }
	else run_parallel(&r, w_words, &ws, g_jobs);
	account(label, &r, now_s() - t0, true);
}

static uint32_t le32(uint8_t a, uint8_t b, uint8_t c, uint8_t d) { return (uint32_t)a | ((uint32_t)b << 8) | ((uint32_t)c << 16) | ((uint32_t)d << 24); }

/* one representative start per reference state (index 0 = boundary), contiguous copy at the end of starts[] */
static int rep_lo, rep_hi;
static void build_rep_starts(void)
{
	rep_lo = n_starts;
	for (int d = D_T1; d < D_REJ; d++)
		for (int i = 0; i < rep_lo; i++)
			if (starts[i].d == d) { starts[n_starts++] = starts[i]; break; }
	rep_hi = n_starts;
}

/* ------------------------------------------------------------------ */
static int viol_cmp(const void *a, const void *b)
{
	const struct viol *x = a, *y = b;
	int c = kase_cmp(&x->k, &y->k);
	return c ? c : strcmp(x->key, y->key);
}

static void print_transcript(const struct kase *k, const struct outcome *o)
{
	char hx[200];
	hexs(hx, sizeof(hx), k->bytes, k->n);
	printf("entry point : %s\n", e_func[k->entry]);
	printf("start       : cjet_init_checker()");
	for (int i = 0; i < k->nprefix; i++) {
		if (k->prefix[i].byte >= 0) printf(" ; %s([%02X], 1, %d)", e_name[k->prefix[i].ep], (unsigned)k->prefix[i].byte, k->prefix[i].complete);
		else printf(" ; %s([], 0, %d)", e_name[k->prefix[i].ep], k->prefix[i].complete);
	}
	printf("\nstart state : {start_byte=%02X,length=%u,next_byte=%u}  reference=%s%s\n", o->start.start_byte, o->start.length, o->start.next_byte, d_name[o->d0],
	       o->ok_prefix ? "" : "  (a prefix call was rejected: nothing is required)");
	printf("bytes       : [%s] (%d bytes, memory order)\n", hx, k->n);
	printf("presentation: address mod 8 = %d, %d chunk(s)", k->align, k->ncuts + 1);
	for (int i = 0; i < k->ncuts; i++) printf(" cut@%d", k->cuts[i]);
	printf(", is_complete=%d on the last chunk\n", k->complete);
	printf("expected    : %s  (RFC 3629 reference DFA ends in %s)\n", o->expected ? "true/accept" : "false/reject", d_name[o->d_end]);
	printf("actual      : %s  end state {%02X,%u,%u}  (%d module calls)\n", o->actual ? "true" : "false", o->end.start_byte, o->end.length, o->end.next_byte, o->calls - 1);
	printf("byte-wise   : %s  end state {%02X,%u,%u}  (cjet_is_byte_sequence_valid on the whole string)\n", o->bytewise ? "true" : "false", o->end_bytewise.start_byte,
	       o->end_bytewise.length, o->end_bytewise.next_byte);
	if (o->violated) printf("result      : VIOLATED  key=%s\n              %s\n", o->key, o->msg);
	else printf("result      : held\n");
}

static void prepare_model(struct res *r)
{
	dfa_build();
	cls = calloc(1u << 24, sizeof(*cls));
	nodes = calloc(MAXN, sizeof(*nodes));
	if (!cls || !nodes) { fprintf(stderr, "c18: out of memory\n"); exit(2); }
	memset(r, 0, sizeof(*r));
	r->complete = 1;
	s_product(r);
	build_starts(r);
}

static int do_replay(const char *path)
{
	struct kase k;
	char key[200];
	int rc = read_replay(path, &k, key, sizeof(key));
	if (rc) { fprintf(stderr, "c18: cannot read replay %s (%d)\n", path, rc); return 2; }
	struct res *r = calloc(1, sizeof(*r));
	prepare_model(r);
	struct outcome o;
	run_case(&k, &o);
	printf("C18 replay %s\nrecorded key: %s\n", path, key);
	print_transcript(&k, &o);
	free(r);
	fflush(stdout);
	return o.violated ? 1 : 0;
}

static void sample(FILE *f, int *first, int entry, const char *hex, int complete, int align)
{
	struct kase k;
	struct outcome o;
	memset(&k, 0, sizeof(k));
	k.entry = (uint8_t)entry;
	k.complete = (uint8_t)complete;
	k.align = (uint8_t)align;
	for (const char *p = hex; *p && k.n < MAXB;) {
		k.bytes[k.n++] = (uint8_t)strtol(p, (char **)&p, 16);
		while (*p == ' ') p++;
	}
	run_case(&k, &o);
	char buf[400];
	snprintf(buf, sizeof(buf), "%s [%s] is_complete=%d align=%d -> actual %s, reference %s (%s)", e_name[entry], hex, complete, align, o.actual ? "true" : "false",
	         o.expected ? "accept" : "reject", d_name[o.d_end]);
	fprintf(f, "%s\n    ", *first ? "" : ",");
	json_str(f, buf);
	*first = 0;
}

int main(int argc, char **argv)
{
	const char *tier = NULL, *out = NULL, *replay = NULL;
	double deadline = 0;
	for (int i = 1; i < argc; i++) {
		if (!strcmp(argv[i], "--tier") && i + 1 < argc) tier = argv[++i];
		else if (!strcmp(argv[i], "--out") && i + 1 < argc) out = argv[++i];
		else if (!strcmp(argv[i], "--jobs") && i + 1 < argc) g_jobs = atoi(argv[++i]);
		else if (!strcmp(argv[i], "--deadline") && i + 1 < argc) deadline = atof(argv[++i]);
		else if (!strcmp(argv[i], "--replay") && i + 1 < argc) replay = argv[++i];
		else { fprintf(stderr, "usage: c18 --tier quick|thorough --out FILE [--jobs N] [--deadline S] | --replay FILE\n"); return 2; }
	}
	{
		uint32_t probe = 1;
		if (*(uint8_t *)&probe != 1) { fprintf(stderr, "c18: little-endian host required\n"); return 2; }
	}
	if (replay) return do_replay(replay);
	if (!tier || !out || (strcmp(tier, "quick") && strcmp(tier, "thorough")) || g_jobs < 1 || g_jobs > 256) {
		fprintf(stderr, "c18: need --tier quick|thorough and --out\n");
		return 2;
	}
	const bool thorough = !strcmp(tier, "thorough");
	const double t_start = now_s();
	if (deadline > 0) g_deadline_at = t_start + deadline;
	memset(&total, 0, sizeof(total));
	total.complete = 1;

	/* S0 + S1 */
	dfa_build();
	{
		struct res r;
		double t0 = now_s();
		run_parallel(&r, w_selfcheck, NULL, g_jobs);
		account("S0 reference DFA vs arithmetic decoder (len<=3 all, len 4 lead>=F0, viability)", &r, now_s() - t0, false);
	}
	{
		struct res *r = calloc(1, sizeof(*r));
		double t0 = now_s();
		prepare_model(r);
		account("S1 product automaton: byte/text/auto(<8) x 256 bytes+empty x is_complete", r, now_s() - t0, true);
		free(r);
	}
	const uint64_t product_states = (uint64_t)n_nodes;
	const uint64_t late = total.late;
	build_rep_starts();
	const int all_lo = 0, all_hi = rep_lo;
	if (total.harness_error) goto finish;

	/* S2: 32-bit word entry point */
	if (thorough) run_words("S2 word32 x all 2^32 words, boundary state", 0, 0);
	run_sweep("S2 word32 x 40^4 class-representative words, boundary state", E_WORD32, A40, 40, 4, 0, 0, 0, 0, 1, 3);
	run_sweep("S2 word32 x 21^4 words x every reachable start state", E_WORD32, A21, 21, 4, 0, 0, 0, all_lo, all_hi, 3);
	if (thorough) run_sweep("S2 word32 two-word calls (one call, and split 4+4) x 11^8", E_WORD32, A11, 11, 8, 0, 0, 1, 0, 1, 3);
	else run_sweep("S2 word32 two-word calls (one call, and split 4+4) x 6^8", E_WORD32, A6, 6, 8, 0, 0, 1, 0, 1, 3);
	run_sweep("S2 word32 at address 4 mod 8 x 21^4", E_WORD32, A21, 21, 4, 4, 4, 0, 0, 1, 3);

	/* S3: 64-bit word entry point */
	run_sweep("S3 word64 x 11^8 lane classes, boundary state", E_WORD64, A11, 11, 8, 0, 0, 0, 0, 1, 3);
	run_sweep("S3 word64 x 5^8 x one start state per reference state", E_WORD64, A5, 5, 8, 0, 0, 0, rep_lo, rep_hi, 3);
	run_sweep("S3 word64 x 3^8 x every reachable start state", E_WORD64, A3, 3, 8, 0, 0, 0, all_lo, all_hi, 3);
	if (thorough) {
		run_sweep("S3 word64 two-word calls (one call, and split 8+8) x 3^16", E_WORD64, A3, 3, 16, 0, 0, 1, 0, 1, 3);
		run_words("S3 word64 all 2^32 low halves x high 41 41 41 41", 1, le32(0x41, 0x41, 0x41, 0x41));
		run_words("S3 word64 all 2^32 low halves x high C2 80 C2 80", 1, le32(0xC2, 0x80, 0xC2, 0x80));
		run_words("S3 word64 all 2^32 low halves x high DF BF C3 80", 1, le32(0xDF, 0xBF, 0xC3, 0x80));
		run_words("S3 word64 all 2^32 low halves x high 80 80 41 41", 1, le32(0x80, 0x80, 0x41, 0x41));
		run_words("S3 word64 all 2^32 low halves x high 80 41 C2 80", 1, le32(0x80, 0x41, 0xC2, 0x80));
		run_words("S3 word64 all 2^32 low halves x high E1 80 80 41", 1, le32(0xE1, 0x80, 0x80, 0x41));
		run_words("S3 word64 all 2^32 high halves x low 41 41 41 41", 2, le32(0x41, 0x41, 0x41, 0x41));
		run_words("S3 word64 all 2^32 high halves x low C2 80 C2 80", 2, le32(0xC2, 0x80, 0xC2, 0x80));
	}

	/* S4: chunking */
	for (int L = 0; L <= 6; L++) {
		char nm[160];
		static const int eps[3] = {E_BYTE, E_TEXT, E_AUTO};
		for (int e = 0; e < 3; e++) {
			snprintf(nm, sizeof(nm), "S4 chunking %s: 11^%d strings x all cut pairs 0<=i<=j<=%d", e_name[eps[e]], L, L);
			run_sweep(nm, eps[e], A11, 11, L, 0, 0, 2, 0, 1, 3);
		}
	}

	/* S5: auto-aligned front end */
	{
		const int Lmax5 = thorough ? 12 : 10;
		char nm[160];
		for (int L = 0; L <= Lmax5; L++) {
			snprintf(nm, sizeof(nm), "S5 auto-aligned: 5^%d strings x 8 alignments, boundary state", L);
			run_sweep(nm, E_AUTO, A5, 5, L, 0, 7, 0, 0, 1, 3);
		}
		for (int L = 8; L <= (thorough ? 9 : 8); L++) {
			snprintf(nm, sizeof(nm), "S5 auto-aligned: 5^%d strings x 8 alignments x mid-sequence start states", L);
			run_sweep(nm, E_AUTO, A5, 5, L, 0, 7, 0, rep_lo, rep_hi, 3);
		}
		for (int L = Lmax5 + 1; L <= (thorough ? 18 : 14); L++) {
			snprintf(nm, sizeof(nm), "S5 auto-aligned: 3^%d strings x 8 alignments, boundary state", L);
			run_sweep(nm, E_AUTO, A3, 3, L, 0, 7, 0, 0, 1, 3);
		}
		for (int L = (thorough ? 19 : 15); L <= (thorough ? 24 : 20); L++) {
			snprintf(nm, sizeof(nm), "S5 auto-aligned: 2^%d strings over {C2,80} x 8 alignments, boundary state", L);
			run_sweep(nm, E_AUTO, A2, 2, L, 0, 7, 0, 0, 1, 3);
		}
		for (int L = 8; L <= (thorough ? 12 : 10); L++) {
			snprintf(nm, sizeof(nm), "S5 auto-aligned chunked: 3^%d strings x every single cut x 8 alignments", L);
			run_sweep(nm, E_AUTO, A3, 3, L, 0, 7, 1, 0, 1, 3);
		}
	}

finish:;
	if (total.harness_error) {
		fprintf(stderr, "c18: HARNESS ERROR: %s\n", total.err);
		return 2;
	}
	int all_sections = 1;
	for (int i = 0; i < n_sects; i++) all_sections = all_sections && sects[i].exhaustive;
	const bool exhaustive = all_sections && total.complete && !total.suspects_capped;

	qsort(total.v, (size_t)total.nviol, sizeof(total.v[0]), viol_cmp);
	int nrep = total.nviol > 20 ? 20 : total.nviol;
	char paths[20][200];
	const char *rdir = getenv("C18_REPLAY_DIR"); /* only for mutation demonstrations on scratch copies */
	if (!rdir || !*rdir) rdir = REPLAY_DIR;
	if (nrep) mkdir(rdir, 0777);
	for (int i = 0; i < nrep; i++) {
		snprintf(paths[i], sizeof(paths[i]), "%s/C18-%016llx.txt", rdir, (unsigned long long)fnv1a(total.v[i].key));
		if (write_replay(paths[i], &total.v[i].k, total.v[i].key, e_name[total.v[i].k.entry]) != 0) { fprintf(stderr, "c18: cannot write %s\n", paths[i]); return 2; }
	}

	FILE *f = fopen(out, "w");
	if (!f) { perror(out); return 2; }
	const uint64_t transitions = total.cases;
	fprintf(f, "{\n  \"property_id\": \"C18\",\n  \"tier\": \"%s\",\n", tier);
	fprintf(f, "  \"states\": %llu,\n  \"transitions\": %llu,\n  \"evaluations\": %llu,\n  \"distinct_nontrivial\": %llu,\n  \"traces_validated_against_impl\": %llu,\n",
	        (unsigned long long)product_states, (unsigned long long)transitions, (unsigned long long)(transitions + ref_only_cases), (unsigned long long)total.nontrivial,
	        (unsigned long long)transitions);
	fprintf(f, "  \"module_calls\": %llu,\n  \"late_rejects_in_product\": %llu,\n  \"exhaustive\": %s,\n  \"wall_seconds\": %.1f,\n", (unsigned long long)total.calls,
	        (unsigned long long)late, exhaustive ? "true" : "false", now_s() - t_start);
	fprintf(f, "  \"rule\": ");
	json_str(f,
	         "S1: BFS from the initialised checker over pairs (entire struct cjet_utf8_checker content, reference RFC 3629 DFA state); in every pair every byte 0..255 "
	         "and the empty input are given to cjet_is_byte_sequence_valid, cjet_is_text_valid and the auto-aligned front end (<8 bytes) with is_complete false and true; "
	         "a false verdict on a viable prefix / well-formed text, or a true verdict with is_complete on anything but a complete well-formed text is a violation; rejection is "
	         "absorbing (nothing is required after a false). Other sections enumerate every string of the stated length over the stated alphabet (odometer, no sampling) x "
	         "start states x alignments x chunkings x is_complete, run the entry point on the real code and compare with the reference DFA and with the byte-wise entry point "
	         "(verdict, and resulting state when both accept). Each case = one presentation of one string; transitions = cases. distinct_nontrivial counts cases where the "
	         "reference verdict is reject, or a word-sized unit read at a character boundary consists only of complete 1-/2-byte sequences in a shape the word fast paths "
	         "skip (all ASCII, or lead/continuation pairs), i.e. the fast path is actually taken.");
	fprintf(f, ",\n  \"bounds\": {\"product\": \"unbounded (fixpoint)\", \"word32\": \"%s\", \"word64\": \"%s\", \"chunking\": \"length<=6 over 11 bytes, <=3 chunks incl. empty\", "
	           "\"auto_aligned\": \"%s\", \"jobs\": %d},\n",
	        thorough ? "all 2^32 words from the boundary state; 21^4 from every other reachable state; two-word calls over 11^8"
	                 : "40^4 class-representative words from the boundary state (exhaustive for that alphabet only); 21^4 from every other reachable state; two-word calls over 6^8",
	        thorough ? "11^8 lane classes; 2^32 low halves x 6 high halves; 2^32 high halves x 2 low halves; 5^8 and 3^8 from non-boundary states; two-word calls over 3^16"
	                 : "11^8 lane classes; 5^8 and 3^8 from non-boundary states",
	        thorough ? "lengths 0..12 over {41,80,C2,C0,E1}, 13..18 over {41,C2,80}, 19..24 over {C2,80}, 8 alignments; mid-sequence starts for lengths 8..9; single cuts for lengths 8..12 (5^20 of the design is out of reach: the alphabet shrinks with the length instead)"
	                 : "lengths 0..10 over {41,80,C2,C0,E1}, 11..14 over {41,C2,80}, 15..20 over {C2,80}, 8 alignments; mid-sequence starts for length 8; single cuts for lengths 8..10",
	        g_jobs);
	fprintf(f, "  \"caps_hit\": [");
	{
		int first = 1;
		if (total.suspects_capped) { fprintf(f, "\"more than %u suspect cases in one worker: later suspects not judged, minimality of replays not guaranteed\"", SUSPECT_CAP); first = 0; }
		if (total.key_overflow) { fprintf(f, "%s\"more than %d distinct violation keys\"", first ? "" : ", ", MAXV); first = 0; }
		if (total.nviol > 20) { fprintf(f, "%s\"%d distinct violation keys, 20 smallest reported\"", first ? "" : ", ", total.nviol); first = 0; }
		if (g_deadline_at > 0 && !exhaustive) fprintf(f, "%s\"deadline of %.0f s expired\"", first ? "" : ", ", deadline);
	}
	fprintf(f, "],\n  \"sections\": [");
	for (int i = 0; i < n_sects; i++) {
		fprintf(f, "%s\n    {\"name\": ", i ? "," : "");
		json_str(f, sects[i].name);
		fprintf(f, ", \"cases\": %llu, \"states\": %llu, \"exhaustive\": %s, \"seconds\": %.1f}", (unsigned long long)sects[i].cases,
		        (unsigned long long)(sects[i].states ? sects[i].states : 1), sects[i].exhaustive ? "true" : "false", sects[i].secs);
	}
	fprintf(f, "\n  ],\n  \"samples\": [");
	{
		int first = 1;
		sample(f, &first, E_BYTE, "CE BA E1 BD B9 F0 9F 98 80", 1, 0);
		sample(f, &first, E_BYTE, "ED A0 80", 1, 0);
		sample(f, &first, E_BYTE, "F4 90 80 80", 1, 0);
		sample(f, &first, E_BYTE, "E1 80", 1, 0);
		sample(f, &first, E_WORD32, "C2 80 C2 80", 1, 0);
		sample(f, &first, E_WORD32, "C0 80 C2 80", 1, 0);
		sample(f, &first, E_WORD64, "C2 80 C2 80 C2 80 C2 80", 1, 0);
		sample(f, &first, E_AUTO, "41 C2 80 41 41 41 41 41 41 41 41 E1 80 80", 1, 3);
	}
	fprintf(f, "\n  ],\n  \"assumptions\": [\n");
	fprintf(f, "    \"little-endian host: the bytes of a word are given to the byte-wise oracle in memory order (lowest lane first), which is how the module itself unpacks a word\",\n");
	fprintf(f, "    \"all sweeps, including the 2^32 and 11^8 ones, ran in the sanitized (-O2 ASan+UBSan) binary; no second unsanitized binary was needed\",\n");
	fprintf(f, "    \"start states other than the initial one are produced by feeding bytes through the real entry points (prefix calls recorded in the replay)\",\n");
	fprintf(f, "    \"after an entry point has returned false the property requires nothing of later calls; sequences stop at the first false\",\n");
	fprintf(f, "    \"a true verdict with is_complete=false on a prefix the reference already rejects is tolerated if the byte-wise machine does the same (late rejection), and then "
	           "judged exactly by the product automaton: %llu such transitions seen\"\n  ],\n",
	        (unsigned long long)late);
	fprintf(f, "  \"violations\": [");
	for (int i = 0; i < nrep; i++) {
		fprintf(f, "%s\n    {\"key\": ", i ? "," : "");
		json_str(f, total.v[i].key);
		fprintf(f, ", \"message\": ");
		json_str(f, total.v[i].msg);
		fprintf(f, ", \"replay\": ");
		json_str(f, paths[i]);
		fprintf(f, "}");
	}
	fprintf(f, "\n  ]\n}\n");
	if (fclose(f) != 0) { perror(out); return 2; }
	fprintf(stderr, "c18: %s tier done in %.1fs: %llu product states, %llu cases, %d violation key(s), exhaustive=%s\n", tier, now_s() - t_start,
	        (unsigned long long)product_states, (unsigned long long)transitions, total.nviol, exhaustive ? "true" : "false");
	return 0;
}
