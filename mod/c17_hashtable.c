/*
 * C17 - "The hopscotch hash tables behave as exact finite maps".
 *
 * Explicit-state model checking of the REAL macros of /repo/src/hashtable.h
 * (instantiated in c17_inst.c, one object per key type / hop width / order):
 *   fix  : breadth-first search over the canonical memory image of the table
 *          (slot -> key, value, hop bitmap of every bucket) until no new state
 *          appears, for colliding key universes that include the last bucket;
 *   seq  : large tables: deterministic filled neighbourhoods, then ALL
 *          operation sequences of depth 3 over the active keys;
 *   leak : one deterministic consequence scenario (see c17_search.h).
 * Every transition is executed by the real code and judged against a
 * reference map plus structural invariants (c17_core.h: step()).
 * No sampling, no randomness, no solver.
 *
 *   c17 --tier quick|thorough --out result.json [--jobs N] [--deadline S] [--replay-dir DIR]
 *   c17 --replay file
 */
#define _GNU_SOURCE
#include <fcntl.h>
#include <poll.h>
#include <signal.h>
#include <sys/stat.h>
#include <sys/types.h>
#include <sys/wait.h>

#include "c17_search.h"

#include <sys/mman.h>

enum { J_FIX, J_SEQ, J_LEAK, J_LEAK2 };

struct job {
	int kind;
	int ktype;
	unsigned hop, order;
	const struct utemplate *t;
	char name[96];
	int weight; /* heavier jobs are started first */
	/* filled by the parent while collecting */
	pid_t pid;
	int fd;
	char *buf;
	size_t blen, bcap;
	int done, started;
	struct curstate *shm; /* shared with the child: the operation sequence it is executing right now */
	struct jobstat st;
	char sample[400];
	double secs;
};

#define MAXJOBS 512
static struct job g_jobs[MAXJOBS];
static int g_njobs;

static const char *ktname(int kt)
{
	return kt == C17_STRING ? "string" : kt == C17_UINT32 ? "uint32" : "uint64";
}

static void add_job(int kind, int ktype, unsigned hop, unsigned order, const struct utemplate *t)
{
	struct job *j;
	int nk = 0, fr = 0, q;
	if (find_inst(ktype, hop, order) == NULL) {
		die("no instantiation %s hop%u order%u linked in", ktname(ktype), hop, order);
	}
	if (g_njobs >= MAXJOBS) {
		die("too many jobs");
	}
	j = &g_jobs[g_njobs++];
	memset(j, 0, sizeof(*j));
	j->kind = kind;
	j->ktype = ktype;
	j->hop = hop;
	j->order = order;
	j->t = t;
	j->fd = -1;
	for (q = 0; t != NULL && q < t->nspec; q++) {
		nk += t->spec[q].count > 0 ? t->spec[q].count : 0;
		fr += t->spec[q].frozen;
	}
	j->weight = kind == J_FIX && !fr && order >= 3 ? (nk >= 7 ? 1000 : nk == 6 ? 100 : 10) * (order >= 4 ? 10 : 1) : kind == J_SEQ ? (int)order : 1;
	snprintf(j->name, sizeof(j->name), "%s/%s/hop%u/order%u%s%s", kind == J_FIX ? "fixpoint" : kind == J_SEQ ? "depth3" : kind == J_LEAK ? "leak-scenario-first-refusal" : "leak-scenario-until-empty-map", ktname(ktype), hop, order, t ? "/" : "",
	         t ? t->name : "");
}

static int job_cmp(const void *a, const void *b)
{
	const struct job *x = a, *y = b;
	if (x->weight != y->weight) {
		return x->weight > y->weight ? -1 : 1;
	}
	return strcmp(x->name, y->name);
}

static void make_jobs(int thorough)
{
	int kt, i;
	unsigned o;
	if (!thorough) {
		for (kt = 0; kt < 3; kt++) {
			for (o = 2; o <= 3; o++) {
				for (i = 0; i < N_UT_FIX; i++) {
					add_job(J_FIX, kt, 32, o, &UT_FIX[i]);
				}
			}
			add_job(J_FIX, kt, 8, 4, &UT_FIX[3]);
			for (i = 0; i < N_UT_H8; i++) {
				add_job(J_FIX, kt, 8, 4, &UT_H8[i]);
			}
		}
		for (i = 0; i < N_UT_SEQ; i++) {
			add_job(J_SEQ, C17_STRING, 32, 7, &UT_SEQ[i]);
			add_job(J_SEQ, C17_STRING, 32, 13, &UT_SEQ[i]);
		}
		/* cheap, and the only small-table place where find_closer_entry runs (order 4 with hop 8 has add_range == hop_range) */
		add_job(J_FIX, C17_UINT32, 8, 5, &UT_H8[0]);
		add_job(J_LEAK, C17_UINT32, 8, 5, NULL);
		add_job(J_LEAK2, C17_UINT32, 8, 5, NULL);
		return;
	}
	for (kt = 0; kt < 3; kt++) {
		for (o = 2; o <= 4; o++) {
			for (i = 0; i < N_UT_FIX; i++) {
				add_job(J_FIX, kt, 32, o, &UT_FIX[i]);
			}
		}
		for (o = 4; o <= 5; o++) {
			/* with fewer than 8 keys an 8-bit-hop table of order >= 4 behaves exactly like the 32-bit one of order 4 (run above
			 * with 7 keys: same 3165429 states), so 6 keys are enough here; the seeded universes below are the interesting ones */
			add_job(J_FIX, kt, 8, o, &UT_FIX[5]);
			add_job(J_FIX, kt, 8, o, &UT_FIX[4]);
			for (i = 0; i < N_UT_H8; i++) {
				add_job(J_FIX, kt, 8, o, &UT_H8[i]);
			}
		}
		for (o = 5; o <= 13; o++) {
			for (i = 0; i < N_UT_SEQ; i++) {
				add_job(J_SEQ, kt, 32, o, &UT_SEQ[i]);
			}
		}
		for (i = 0; i < N_UT_SEQ; i++) {
			add_job(J_SEQ, kt, 8, 6, &UT_SEQ[i]);
		}
		add_job(J_LEAK, kt, 8, 5, NULL);
		add_job(J_LEAK2, kt, 8, 5, NULL);
		add_job(J_LEAK, kt, 8, 6, NULL);
		add_job(J_LEAK2, kt, 8, 6, NULL);
	}
}

static void kill_children(void)
{
	int i;
	for (i = 0; i < g_njobs; i++) {
		if (g_jobs[i].fd >= 0 && g_jobs[i].pid > 0) {
			kill(g_jobs[i].pid, SIGKILL);
			waitpid(g_jobs[i].pid, NULL, 0);
		}
	}
}

/* ------------------------------------------------------------------ child side */

static void run_job_child(struct job *j, int fd)
{
	const struct c17_inst *in = find_inst(j->ktype, j->hop, j->order);
	struct jobstat st;
	char sample[400];
	double t0 = now_s();
	g_out_fd = fd;
	memset(&st, 0, sizeof(st));
	sample[0] = 0;
	g_cur = j->shm;
	if (j->kind == J_FIX) {
		run_fixpoint(in, j->t, &st, sample, sizeof(sample));
	} else if (j->kind == J_SEQ) {
		run_sequences(in, j->t, 3, &st, sample, sizeof(sample));
	} else {
		run_leak_scenario(in, j->kind == J_LEAK ? 1 : 2, &st, sample, sizeof(sample));
	}
	emit("S\t%llu\t%llu\t%llu\t%llu\t%llu\t%llu\t%llu\t%d\t%s\t%.2f\n", st.cases, st.states, st.transitions, st.nontrivial, st.n_displace, st.n_wrap, st.n_refused, st.exhaustive,
	     st.cap[0] ? st.cap : "-", now_s() - t0);
	if (sample[0]) {
		emit("X\t%s\n", sample);
	}
	emit("E\n");
	close(fd);
	_exit(0);
}

/* ------------------------------------------------------------------ parent side: violations */

struct viol {
	char key[200];
	char *msg;
	char *replay; /* text */
	int nops;
	char section[96];
	char path[300];
};
#define MAXVIOL 256
static struct viol g_viol[MAXVIOL];
static int g_nviol;

static void add_violation(const struct job *j, const char *key, int nops, const char *msg, const char *replay_text)
{
	int i;
	for (i = 0; i < g_nviol; i++) {
		if (!strcmp(g_viol[i].key, key)) {
			break;
		}
	}
	if (i < g_nviol) {
		/* keep the shortest; on a tie the alphabetically first section so that the choice does not depend on scheduling */
		if (nops > g_viol[i].nops || (nops == g_viol[i].nops && strcmp(j->name, g_viol[i].section) >= 0)) {
			return;
		}
		free(g_viol[i].msg);
		free(g_viol[i].replay);
	} else {
		if (g_nviol >= MAXVIOL) {
			return;
		}
		g_nviol++;
	}
	snprintf(g_viol[i].key, sizeof(g_viol[i].key), "%s", key);
	g_viol[i].nops = nops;
	g_viol[i].msg = strdup(msg);
	g_viol[i].replay = strdup(replay_text);
	snprintf(g_viol[i].section, sizeof(g_viol[i].section), "%s", j->name);
}

/* the child died while executing the real code: the shared record holds the sequence that killed it */
static int violation_from_dead_child(const struct job *j, int status)
{
	static char text[65536];
	char key[200], msg[300];
	const struct curstate *cs = j->shm;
	size_t len;
	int nops;
	if (WIFEXITED(status) && WEXITSTATUS(status) == 2) {
		return 0; /* die(): a harness error, not the code under test */
	}
	if (cs == NULL || !cs->have_header || cs->nseed < 0 || cs->nseed > MAXK * 2 || cs->npath < 0 || cs->npath > MAXREPLAYOPS || cs->nseed + cs->npath == 0) {
		return 0;
	}
	nops = cs->nseed + cs->npath;
	snprintf(key, sizeof(key), "process-killed-during-%s/hop%u/order%u", cs->npath > 0 ? op_name(cs->path[cs->npath - 1].kind) : "put", cs->hop, cs->order);
	if (WIFSIGNALED(status)) {
		snprintf(msg, sizeof(msg), "the process was killed by signal %d while the real code executed the last operation of the sequence", WTERMSIG(status));
	} else {
		snprintf(msg, sizeof(msg), "the process was aborted (exit status %d: AddressSanitizer/UBSan report) while the real code executed the last operation of the sequence",
		         WEXITSTATUS(status));
	}
	len = (size_t)snprintf(text, sizeof(text), "%s", cs->header);
	if (len >= sizeof(text)) {
		return 0;
	}
	replay_format_ops(text + len, sizeof(text) - len, cs->seed, cs->nseed, cs->path, cs->npath, key);
	add_violation(j, key, nops, msg, text);
	return 1;
}

static void collect_violation(struct job *j, char *line)
{
	/* V \t key \t nops \t msg \t replay(escaped) */
	char *f[5];
	int i, n = 0;
	char *p = line;
	(void)j;
	for (i = 0; i < 5; i++) {
		f[i] = p;
		n++;
		p = strchr(p, '\t');
		if (p == NULL) {
			break;
		}
		if (i < 4) {
			*p++ = 0;
		}
	}
	if (n < 5) {
		die("malformed violation record from %s", j->name);
	}
	for (p = f[4]; *p; p++) {
		if (*p == '\x01') {
			*p = '\n';
		}
	}
	add_violation(j, f[1], atoi(f[2]), f[3], f[4]);
}

static void parse_job_output(struct job *j)
{
	char *p = j->buf, *nl;
	int ended = 0;
	if (p == NULL) {
		return;
	}
	while ((nl = strchr(p, '\n')) != NULL) {
		*nl = 0;
		if (p[0] == 'S') {
			char cap[64];
			if (sscanf(p, "S\t%llu\t%llu\t%llu\t%llu\t%llu\t%llu\t%llu\t%d\t%63s\t%lf", &j->st.cases, &j->st.states, &j->st.transitions, &j->st.nontrivial, &j->st.n_displace, &j->st.n_wrap,
			           &j->st.n_refused, &j->st.exhaustive, cap, &j->secs) != 10) {
				die("malformed statistics record from %s", j->name);
			}
			if (strcmp(cap, "-")) {
				snprintf(j->st.cap, sizeof(j->st.cap), "%s", cap);
			}
		} else if (p[0] == 'X') {
			snprintf(j->sample, sizeof(j->sample), "%s", p + 2);
		} else if (p[0] == 'V') {
			collect_violation(j, p);
		} else if (p[0] == 'E') {
			ended = 1;
		}
		p = nl + 1;
	}
	j->done = ended ? 1 : -1;
}

/* exit codes of the verification child */
enum { RV_HELD = 10, RV_SAME = 11, RV_OTHER = 12, RV_BAD = 13 };

static int verify_once(const struct viol *v)
{
	pid_t pid;
	int status;
	fflush(NULL);
	pid = fork();
	if (pid < 0) {
		die("fork: %s", strerror(errno));
	}
	if (pid == 0) {
		static struct replay r;
		char err[200], vk[200];
		int rc;
		int devnull = open("/dev/null", O_WRONLY);
		if (devnull >= 0) {
			dup2(devnull, 2); /* a sanitizer report of an expected crash is not interesting twice */
		}
		if (replay_parse(v->replay, &r, err, sizeof(err)) != 0) {
			_exit(RV_BAD);
		}
		rc = replay_run(&r, NULL, vk, sizeof(vk));
		if (rc == 0) {
			_exit(RV_HELD);
		}
		if (rc == 1 && !strcmp(vk, v->key)) {
			_exit(RV_SAME);
		}
		_exit(rc == 1 ? RV_OTHER : RV_BAD);
	}
	while (waitpid(pid, &status, 0) < 0) {
		if (errno != EINTR) {
			die("waitpid: %s", strerror(errno));
		}
	}
	if (WIFEXITED(status) && WEXITSTATUS(status) >= RV_HELD && WEXITSTATUS(status) <= RV_BAD) {
		return WEXITSTATUS(status);
	}
	return -1; /* crashed / sanitizer abort */
}

static int viol_cmp(const void *a, const void *b)
{
	const struct viol *x = a, *y = b;
	if (x->nops != y->nops) {
		return x->nops < y->nops ? -1 : 1;
	}
	return strcmp(x->key, y->key);
}

/* ------------------------------------------------------------------ JSON */

static void json_str(FILE *f, const char *s)
{
	fputc('"', f);
	for (; *s; s++) {
		unsigned char ch = (unsigned char)*s;
		if (ch == '"' || ch == '\\') {
			fprintf(f, "\\%c", ch);
		} else if (ch == '\n') {
			fputs("\\n", f);
		} else if (ch < 0x20) {
			fprintf(f, "\\u%04x", ch);
		} else {
			fputc(ch, f);
		}
	}
	fputc('"', f);
}

static int mkdir_p(const char *path)
{
	char tmp[300];
	char *p;
	snprintf(tmp, sizeof(tmp), "%s", path);
	for (p = tmp + 1; *p; p++) {
		if (*p == '/') {
			*p = 0;
			mkdir(tmp, 0777);
			*p = '/';
		}
	}
	if (mkdir(tmp, 0777) != 0 && errno != EEXIST) {
		return -1;
	}
	return 0;
}

/* ------------------------------------------------------------------ main */

static int do_replay(const char *path)
{
	FILE *f = fopen(path, "r");
	static char text[1 << 17];
	static struct replay r;
	char err[200], vk[200];
	size_t n;
	int rc;
	if (f == NULL) {
		fprintf(stderr, "c17: cannot open %s: %s\n", path, strerror(errno));
		return 2;
	}
	n = fread(text, 1, sizeof(text) - 1, f);
	text[n] = 0;
	fclose(f);
	if (replay_parse(text, &r, err, sizeof(err)) != 0) {
		fprintf(stderr, "c17: %s: %s\n", path, err);
		return 2;
	}
	printf("replay %s\n", path);
	if (r.lenient) {
		printf("mode: consequence scenario (leaked slots are tolerated; refusals are judged against live entries%s)\n", r.lenient == 2 ? ", and only once the reference map is empty" : "");
	}
	if (r.expect_key[0]) {
		printf("recorded violation: %s\n", r.expect_key);
	}
	fflush(stdout);
	rc = replay_run(&r, stdout, vk, sizeof(vk));
	if (rc == 1) {
		printf("RESULT: violated (%s)\n", vk);
	} else if (rc == 0) {
		printf("RESULT: held\n");
	}
	return rc;
}

int main(int argc, char **argv)
{
	const char *tier = NULL, *out = NULL, *replay = NULL, *replay_dir = "/verif/replays";
	int jobs = 16, i, running = 0, next = 0, thorough;
	double deadline = 0, t0 = now_s();
	unsigned long long states = 0, transitions = 0, nontrivial = 0, cases = 0, n_displace = 0, n_wrap = 0, n_refused = 0;
	int exhaustive = 1, nreport;
	FILE *f;

	for (i = 1; i < argc; i++) {
		if (!strcmp(argv[i], "--tier") && i + 1 < argc) {
			tier = argv[++i];
		} else if (!strcmp(argv[i], "--out") && i + 1 < argc) {
			out = argv[++i];
		} else if (!strcmp(argv[i], "--jobs") && i + 1 < argc) {
			jobs = atoi(argv[++i]);
		} else if (!strcmp(argv[i], "--deadline") && i + 1 < argc) {
			deadline = atof(argv[++i]);
		} else if (!strcmp(argv[i], "--replay") && i + 1 < argc) {
			replay = argv[++i];
		} else if (!strcmp(argv[i], "--replay-dir") && i + 1 < argc) {
			replay_dir = argv[++i];
		} else {
			fprintf(stderr, "usage: c17 --tier quick|thorough --out result.json [--jobs N] [--deadline S] [--replay-dir DIR] | --replay file\n");
			return 2;
		}
	}
	if (replay != NULL) {
		return do_replay(replay);
	}
	if (tier == NULL || out == NULL || (strcmp(tier, "quick") && strcmp(tier, "thorough"))) {
		fprintf(stderr, "c17: --tier quick|thorough and --out are required\n");
		return 2;
	}
	thorough = !strcmp(tier, "thorough");
	if (jobs < 1) {
		jobs = 1;
	}
	if (deadline > 0) {
		g_deadline_at = t0 + deadline * 0.9; /* leave time for collecting and re-running violations */
	}
	signal(SIGPIPE, SIG_IGN);
	make_jobs(thorough);
	qsort(g_jobs, (size_t)g_njobs, sizeof(g_jobs[0]), job_cmp);

	/* fork pool; children stream their records through a pipe each */
	while (next < g_njobs || running > 0) {
		struct pollfd pfd[64];
		int idx[64], np = 0;
		while (running < jobs && running < 64 && next < g_njobs) {
			struct job *j = &g_jobs[next++];
			int p[2];
			if (deadline_passed()) {
				j->done = -2; /* never started */
				snprintf(j->st.cap, sizeof(j->st.cap), "deadline-not-started");
				continue;
			}
			if (pipe(p) != 0) {
				die("pipe: %s", strerror(errno));
			}
			j->shm = mmap(NULL, sizeof(struct curstate), PROT_READ | PROT_WRITE, MAP_SHARED | MAP_ANONYMOUS, -1, 0);
			if (j->shm == MAP_FAILED) {
				die("mmap: %s", strerror(errno));
			}
			memset(j->shm, 0, sizeof(struct curstate));
			fflush(NULL);
			j->pid = fork();
			if (j->pid < 0) {
				die("fork: %s", strerror(errno));
			}
			if (j->pid == 0) {
				int k;
				close(p[0]);
				for (k = 0; k < g_njobs; k++) {
					if (g_jobs[k].fd >= 0) {
						close(g_jobs[k].fd);
					}
				}
				run_job_child(j, p[1]);
			}
			close(p[1]);
			j->fd = p[0];
			j->started = 1;
			running++;
		}
		for (i = 0; i < g_njobs; i++) {
			if (g_jobs[i].fd >= 0) {
				pfd[np].fd = g_jobs[i].fd;
				pfd[np].events = POLLIN;
				idx[np++] = i;
			}
		}
		if (np == 0) {
			continue;
		}
		if (poll(pfd, (nfds_t)np, 1000) < 0 && errno != EINTR) {
			die("poll: %s", strerror(errno));
		}
		for (i = 0; i < np; i++) {
			struct job *j = &g_jobs[idx[i]];
			char tmp[65536];
			ssize_t n;
			if (!(pfd[i].revents & (POLLIN | POLLHUP | POLLERR))) {
				continue;
			}
			n = read(j->fd, tmp, sizeof(tmp));
			if (n > 0) {
				if (j->blen + (size_t)n + 1 > j->bcap) {
					j->bcap = (j->blen + (size_t)n + 1) * 2;
					j->buf = realloc(j->buf, j->bcap);
					if (j->buf == NULL) {
						die("out of memory");
					}
				}
				memcpy(j->buf + j->blen, tmp, (size_t)n);
				j->blen += (size_t)n;
				j->buf[j->blen] = 0;
			} else if (n == 0 || (n < 0 && errno != EINTR && errno != EAGAIN)) {
				int status;
				close(j->fd);
				j->fd = -1;
				while (waitpid(j->pid, &status, 0) < 0 && errno == EINTR) {
				}
				running--;
				parse_job_output(j);
				if (j->done == 1 && !(WIFEXITED(status) && WEXITSTATUS(status) == 0)) {
					j->done = -1;
				}
				if (j->done != 1) {
					/* the child died: a finding if the shared record tells which operation sequence killed it, a harness error otherwise */
					if (!violation_from_dead_child(j, status)) {
						fprintf(stderr, "c17: job %s %s (status 0x%x)\n", j->name,
						        WIFEXITED(status) && WEXITSTATUS(status) == 2 ? "reported a harness error" : "died without recording why", status);
						kill_children();
						return 2;
					}
					j->st.exhaustive = 0;
					snprintf(j->st.cap, sizeof(j->st.cap), "child-killed-by-the-code-under-test");
				}
			}
		}
	}

	/* every violation is re-run twice from its recorded replay before it is reported */
	qsort(g_viol, (size_t)g_nviol, sizeof(g_viol[0]), viol_cmp);
	nreport = g_nviol < 20 ? g_nviol : 20;
	if (nreport > 0 && mkdir_p(replay_dir) != 0) {
		die("cannot create %s", replay_dir);
	}
	for (i = 0; i < nreport; i++) {
		struct viol *v = &g_viol[i];
		int want = !strncmp(v->key, "process-killed", 14) ? -1 : RV_SAME;
		int a = verify_once(v), b = verify_once(v);
		FILE *rf;
		if (a != want || b != want) {
			fprintf(stderr, "c17: violation %s did not reproduce from its replay (%d, %d; wanted %d)\n", v->key, a, b, want);
			return 2;
		}
		snprintf(v->path, sizeof(v->path), "%s/C17-%016llx.txt", replay_dir, (unsigned long long)fnv64((const uint8_t *)v->key, strlen(v->key)));
		rf = fopen(v->path, "w");
		if (rf == NULL) {
			die("cannot write %s: %s", v->path, strerror(errno));
		}
		fputs(v->replay, rf);
		fclose(rf);
	}

	for (i = 0; i < g_njobs; i++) {
		struct job *j = &g_jobs[i];
		states += j->st.states;
		transitions += j->st.transitions;
		nontrivial += j->st.nontrivial;
		cases += j->st.cases;
		n_displace += j->st.n_displace;
		n_wrap += j->st.n_wrap;
		n_refused += j->st.n_refused;
		if (!j->st.exhaustive) {
			exhaustive = 0;
		}
	}

	f = fopen(out, "w");
	if (f == NULL) {
		fprintf(stderr, "c17: cannot write %s: %s\n", out, strerror(errno));
		return 2;
	}
	fprintf(f, "{\n  \"property_id\": \"C17\",\n  \"tier\": \"%s\",\n", tier);
	fprintf(f, "  \"states\": %llu,\n  \"transitions\": %llu,\n  \"evaluations\": %llu,\n  \"distinct_nontrivial\": %llu,\n  \"traces_validated_against_impl\": %llu,\n", states ? states : 1,
	        transitions, transitions, nontrivial, transitions);
	fprintf(f, "  \"exhaustive\": %s,\n", exhaustive ? "true" : "false");
	fprintf(f, "  \"rule\": ");
	json_str(f, "fixpoint sections: breadth-first search from the empty (or filler-seeded) table over put(k,1,&prev) / put(k,2,NULL) / get(k) / remove(k,&val) for every active key of a "
	            "brute-forced colliding key universe (real hash function; last bucket included; string keys looked up through a second copy of the content) until no new canonical "
	            "memory image (slot->key,value + every hop bitmap) appears; each (state, operation) pair is applied exactly once to the real macro code and judged (reference map, all "
	            "keys re-looked-up, structural hop-bit invariant, justified refusal); search does not continue beyond a violating transition. depth3 sections: large tables, filler "
	            "neighbourhood put through the real code, then every operation sequence of length 3 over 5 active keys x 4 operations. distinct_nontrivial = number of distinct "
	            "(state-or-prefix, operation) transitions in which find_closer_entry moved another entry (displacement), or an entry lives / the probe ran across the end of the "
	            "table (wrap-around), or the put was refused (HASHTABLE_FULL)");
	fprintf(f, ",\n  \"nontrivial_breakdown\": { \"displacement\": %llu, \"wrap_around\": %llu, \"refused\": %llu },\n", n_displace, n_wrap, n_refused);
	fprintf(f, "  \"bounds\": { \"fixpoint_hop32_orders\": \"%s\", \"fixpoint_hop8_orders\": \"%s\", \"depth3_orders\": \"%s\", \"key_types\": \"string,uint32,uint64\", "
	           "\"values\": \"1,2\", \"universe_keys\": \"hop32: 7/7/6 keys from empty; hop8: 5-6 keys from empty, and 6 active keys on top of 5-6 frozen fillers\", \"sequence_depth_large\": 3, \"state_cap_per_section\": %u },\n",
	        thorough ? "2,3,4" : "2,3", thorough ? "4,5" : "4 (+5 uint32 dense)", thorough ? "5..13 all key types (hop32), 6 (hop8)" : "7,13 string", BFS_STATE_CAP);
	fprintf(f, "  \"caps_hit\": [");
	{
		int first = 1;
		for (i = 0; i < g_njobs; i++) {
			if (g_jobs[i].st.cap[0]) {
				char tmp[200];
				snprintf(tmp, sizeof(tmp), "%s: %s", g_jobs[i].name, g_jobs[i].st.cap);
				fprintf(f, "%s", first ? "" : ", ");
				json_str(f, tmp);
				first = 0;
			}
		}
	}
	fprintf(f, "],\n  \"sections\": [\n");
	for (i = 0; i < g_njobs; i++) {
		struct job *j = &g_jobs[i];
		fprintf(f, "    { \"name\": ");
		json_str(f, j->name);
		fprintf(f, ", \"cases\": %llu, \"states\": %llu, \"transitions\": %llu, \"nontrivial\": %llu, \"displacements\": %llu, \"wraps\": %llu, \"refusals\": %llu, \"exhaustive\": %s, \"seconds\": %.2f }%s\n",
		        j->st.cases, j->st.states, j->st.transitions, j->st.nontrivial, j->st.n_displace, j->st.n_wrap, j->st.n_refused, j->st.exhaustive ? "true" : "false", j->secs,
		        i + 1 < g_njobs ? "," : "");
	}
	fprintf(f, "  ],\n  \"samples\": [\n");
	{
		int shown = 0, step_ = g_njobs > 14 ? g_njobs / 14 : 1;
		for (i = 0; i < g_njobs; i += step_) {
			if (g_jobs[i].sample[0]) {
				fprintf(f, "%s    ", shown ? ",\n" : "");
				json_str(f, g_jobs[i].sample);
				shown++;
			}
		}
		fprintf(f, "\n");
	}
	fprintf(f, "  ],\n  \"assumptions\": [\n    ");
	json_str(f, "cjet_malloc/cjet_free are provided by the harness as plain malloc/free (hashtable.h only needs an allocator); everything else is the unmodified macro text of hashtable.h");
	fprintf(f, ",\n    ");
	json_str(f, "the 8-bit-hop tables are instantiated through the internal DECLARE_HASHTABLE macro with a bucket struct whose hop_info is uint8_t; their hash function and key comparison "
	            "are the ones generated by the public macros. cjet itself only uses 32-bit hop_info (orders 13 and 6)");
	fprintf(f, ",\n    ");
	json_str(f, "fixpoint states are restored by writing key/value/hop_info of every slot back into the real table; a re-scan after every restore checks that the image is byte-identical");
	fprintf(f, ",\n    ");
	json_str(f, "in the displacement zone (first free slot at distance >= hop_range but < add_range) both outcomes of put are accepted, as the property only forbids refusing when a slot "
	            "within reach is free; a refused put must leave the map unchanged and the structure consistent");
	fprintf(f, ",\n    ");
	json_str(f, "all binaries are built with -fsanitize=address,undefined; no unsanitized sweep");
	fprintf(f, "\n  ],\n  \"violations\": [\n");
	for (i = 0; i < nreport; i++) {
		char m[900];
		fprintf(f, "    { \"key\": ");
		json_str(f, g_viol[i].key);
		snprintf(m, sizeof(m), "%s [found in %s, %d operations]", g_viol[i].msg, g_viol[i].section, g_viol[i].nops);
		fprintf(f, ", \"message\": ");
		json_str(f, m);
		fprintf(f, ", \"replay\": ");
		json_str(f, g_viol[i].path);
		fprintf(f, " }%s\n", i + 1 < nreport ? "," : "");
	}
	fprintf(f, "  ],\n  \"violations_total_distinct_keys\": %d,\n  \"wall_seconds\": %.1f\n}\n", g_nviol, now_s() - t0);
	fclose(f);
	fprintf(stderr, "c17: tier %s: %d sections, %llu states, %llu transitions, %llu non-trivial, %d violation keys, exhaustive=%d, %.1f s\n", tier, g_njobs, states, transitions, nontrivial,
	        g_nviol, exhaustive, now_s() - t0);
	return 0;
}
