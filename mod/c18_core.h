/*
 * C18 harness core: reference RFC 3629 DFA, case description, single-case
 * executor (the one and only oracle; the sweeps use cheap pre-filters and
 * confirm every suspect through run_case), replay file reader/writer.
 *
 * The real module is #included by c18_utf8.c before this header.
 */
#ifndef C18_CORE_H
#define C18_CORE_H

#include <errno.h>
#include <stdarg.h>
#include <stdbool.h>
#include <stdint.h>
#include <stdio.h>
#include <stdlib.h>
#include <string.h>

/* ------------------------------------------------------------------ */
/* Reference DFA, written from the RFC 3629 / Unicode table 3-7:       */
/*   00-7F | C2-DF 80-BF | E0 A0-BF 80-BF | E1-EC 80-BF 80-BF |        */
/*   ED 80-9F 80-BF | EE-EF 80-BF 80-BF | F0 90-BF 80-BF 80-BF |       */
/*   F1-F3 80-BF 80-BF 80-BF | F4 80-8F 80-BF 80-BF                    */
/* ------------------------------------------------------------------ */
enum { D_ACC = 0, D_T1, D_T2, D_T3, D_E0, D_ED, D_F0, D_F4, D_REJ, D_N };
static const char *const d_name[D_N] = {"ACCEPT", "need1", "need2", "need3", "afterE0", "afterED", "afterF0", "afterF4", "REJECT"};
static uint8_t dfa[D_N][256];

static void dfa_range(int s, int lo, int hi, int to)
{
	for (int b = lo; b <= hi; b++) dfa[s][b] = (uint8_t)to;
}

static void dfa_build(void)
{
	memset(dfa, D_REJ, sizeof(dfa));
	dfa_range(D_ACC, 0x00, 0x7F, D_ACC);
	dfa_range(D_ACC, 0xC2, 0xDF, D_T1);
	dfa_range(D_ACC, 0xE0, 0xE0, D_E0);
	dfa_range(D_ACC, 0xE1, 0xEC, D_T2);
	dfa_range(D_ACC, 0xED, 0xED, D_ED);
	dfa_range(D_ACC, 0xEE, 0xEF, D_T2);
	dfa_range(D_ACC, 0xF0, 0xF0, D_F0);
	dfa_range(D_ACC, 0xF1, 0xF3, D_T3);
	dfa_range(D_ACC, 0xF4, 0xF4, D_F4);
	dfa_range(D_T1, 0x80, 0xBF, D_ACC);
	dfa_range(D_T2, 0x80, 0xBF, D_T1);
	dfa_range(D_T3, 0x80, 0xBF, D_T2);
	dfa_range(D_E0, 0xA0, 0xBF, D_T1);
	dfa_range(D_ED, 0x80, 0x9F, D_T1);
	dfa_range(D_F0, 0x90, 0xBF, D_T2);
	dfa_range(D_F4, 0x80, 0x8F, D_T2);
}

static inline int dfa_run(int d, const uint8_t *s, size_t n)
{
	for (size_t i = 0; i < n; i++) d = dfa[d][s[i]];
	return d;
}

/* Independent second definition (decode and test the scalar value); used only
 * to cross-check the DFA above, never as the oracle. */
static bool arith_wellformed(const uint8_t *s, size_t n)
{
	size_t i = 0;
	while (i < n) {
		uint32_t b = s[i], cp, min;
		size_t len;
		if (b < 0x80) { i++; continue; }
		else if ((b & 0xE0) == 0xC0) { len = 2; cp = b & 0x1F; min = 0x80; }
		else if ((b & 0xF0) == 0xE0) { len = 3; cp = b & 0x0F; min = 0x800; }
		else if ((b & 0xF8) == 0xF0) { len = 4; cp = b & 0x07; min = 0x10000; }
		else return false;
		if (i + len > n) return false;
		for (size_t k = 1; k < len; k++) {
			if ((s[i + k] & 0xC0) != 0x80) return false;
			cp = (cp << 6) | (s[i + k] & 0x3F);
		}
		if (cp < min || cp > 0x10FFFF || (cp >= 0xD800 && cp <= 0xDFFF)) return false;
		i += len;
	}
	return true;
}

/* ------------------------------------------------------------------ */
/* Validator state helpers                                             */
/* ------------------------------------------------------------------ */
typedef struct cjet_utf8_checker chk_t;

static inline uint32_t st_key(const chk_t *c)
{
	return ((uint32_t)c->start_byte << 16) | ((uint32_t)c->length << 8) | c->next_byte;
}

/* cls[key] = bitmask of reference-DFA states the validator state was paired
 * with in the product automaton (section 1).  Filled by the BFS. */
static uint16_t *cls;

static bool st_equiv(const chk_t *a, const chk_t *b)
{
	uint32_t ka = st_key(a), kb = st_key(b);
	if (ka == kb) return true;
	if (!cls) return false;
	uint16_t ma = cls[ka], mb = cls[kb];
	/* both verified in the product automaton against one and the same DFA state */
	return ma != 0 && ma == mb && (ma & (ma - 1)) == 0;
}

/* ------------------------------------------------------------------ */
/* Case description                                                    */
/* ------------------------------------------------------------------ */
enum { E_BYTE = 0, E_TEXT, E_WORD32, E_WORD64, E_AUTO, E_N };
static const char *const e_name[E_N] = {"byte", "text", "word32", "word64", "auto"};
static const char *const e_func[E_N] = {"cjet_is_byte_sequence_valid", "cjet_is_text_valid", "cjet_is_word_sequence_valid",
                                        "cjet_is_word64_sequence_valid", "cjet_is_word_sequence_valid_auto_alligned"};

#define MAXB 48
#define MAXP 12
struct pop { uint8_t ep; int16_t byte; uint8_t complete; }; /* one prefix call: ep on (byte | nothing) */
struct kase {
	uint8_t entry;
	uint8_t nprefix;
	struct pop prefix[MAXP];
	uint8_t n;
	uint8_t bytes[MAXB];
	uint8_t ncuts;       /* 0..2 cut positions => 1..3 chunks */
	uint8_t cuts[2];
	uint8_t align;       /* start address modulo 8 */
	uint8_t complete;    /* is_complete on the last chunk */
};

struct outcome {
	bool ok_prefix;
	chk_t start, end, end_bytewise;
	int d0, d_end;
	bool expected;        /* reference DFA verdict */
	bool actual;
	bool bytewise;        /* byte-wise entry point on the whole string from the same start */
	int calls;
	bool violated;
	char key[160];
	char msg[400];
};

static bool call_entry(int ep, chk_t *c, const uint8_t *p, size_t len, bool complete)
{
	switch (ep) {
	case E_BYTE: return cjet_is_byte_sequence_valid(c, p, len, complete);
	case E_TEXT: return cjet_is_text_valid(c, (const char *)p, len, complete);
	case E_WORD32: return cjet_is_word_sequence_valid(c, (const uint32_t *)(const void *)p, len / 4, complete);
	case E_WORD64: return cjet_is_word64_sequence_valid(c, (const uint64_t *)(const void *)p, len / 8, complete);
	default: return cjet_is_word_sequence_valid_auto_alligned(c, p, len, complete);
	}
}

static const char *byte_class(uint8_t b)
{
	if (b <= 0x7F) return "A";
	if (b <= 0xBF) return "T";
	if (b == 0xC0) return "C0";
	if (b == 0xC1) return "C1";
	if (b <= 0xDF) return "L2";
	if (b == 0xE0) return "E0";
	if (b == 0xED) return "ED";
	if (b <= 0xEF) return "L3";
	if (b == 0xF0) return "F0";
	if (b == 0xF4) return "F4";
	if (b <= 0xF3) return "L4";
	return "X";
}

static void hexs(char *dst, size_t cap, const uint8_t *s, size_t n)
{
	size_t o = 0;
	dst[0] = 0;
	for (size_t i = 0; i < n && o + 4 < cap; i++) o += (size_t)snprintf(dst + o, cap - o, "%s%02X", i ? " " : "", s[i]);
}

/* describe where and why the reference rejects s (from state d0); lane = unit for "@lane" */
static void describe_reject(char *dst, size_t cap, int d0, const uint8_t *s, size_t n, int lane_mod, int lane_off)
{
	int d = d0;
	if (d0 == D_REJ) {
		snprintf(dst, cap, "prefix-already-illformed");
		return;
	}
	for (size_t i = 0; i < n; i++) {
		int nd = dfa[d][s[i]];
		if (nd == D_REJ) {
			const char *why;
			uint8_t b = s[i];
			char tmp[48];
			if (d == D_ACC) {
				if (b == 0xC0) why = "overlong-lead-C0";
				else if (b == 0xC1) why = "overlong-lead-C1";
				else if (b >= 0x80 && b <= 0xBF) why = "stray-continuation";
				else why = "lead-F5-FF";
			} else if ((b & 0xC0) == 0x80) {
				why = d == D_E0 ? "overlong-E0-80-9F" : d == D_ED ? "surrogate-ED-A0-BF" : d == D_F0 ? "overlong-F0-80-8F" : "above-10FFFF-F4-90-BF";
			} else {
				snprintf(tmp, sizeof(tmp), "missing-continuation-%s-then-%s", d_name[d], byte_class(b));
				why = tmp;
			}
			if (lane_mod) snprintf(dst, cap, "%s@lane%d", why, (int)((i + (size_t)lane_off) % (size_t)lane_mod));
			else snprintf(dst, cap, "%s", why);
			return;
		}
		d = nd;
	}
	snprintf(dst, cap, "truncated-%s", d_name[d]);
}

static void class_pattern(char *dst, size_t cap, const uint8_t *s, size_t n)
{
	size_t o = 0;
	dst[0] = 0;
	for (size_t i = 0; i < n && i < 8 && o + 4 < cap; i++) o += (size_t)snprintf(dst + o, cap - o, "%s%s", i ? "." : "", byte_class(s[i]));
	if (n > 8 && o + 2 < cap) snprintf(dst + o, cap - o, "+");
}

/* aligned scratch arena: string is placed so that it starts at address = align (mod 8)
 * and ends exactly at the end of a heap block (ASan sees any over-read) */
static uint8_t *place(const struct kase *k, uint8_t **block)
{
	size_t sz = (size_t)k->align + k->n;
	void *p = NULL;
	if (posix_memalign(&p, 8, sz ? sz : 1) != 0) { fprintf(stderr, "c18: out of memory\n"); exit(2); }
	memset(p, 0xFF, sz ? sz : 1); /* bytes before the string are ill-formed on purpose */
	memcpy((uint8_t *)p + k->align, k->bytes, k->n);
	*block = p;
	return (uint8_t *)p + k->align;
}

/* Run one case on the real code and judge it. */
static void run_case(const struct kase *k, struct outcome *o)
{
	memset(o, 0, sizeof(*o));
	chk_t c;
	int d = D_ACC;
	cjet_init_checker(&c);
	o->ok_prefix = true;
	for (int i = 0; i < k->nprefix; i++) {
		uint8_t b = (uint8_t)k->prefix[i].byte;
		bool has = k->prefix[i].byte >= 0;
		bool r = call_entry(k->prefix[i].ep, &c, &b, has ? 1 : 0, k->prefix[i].complete);
		if (has) d = dfa[d][b];
		if (!r) o->ok_prefix = false;
	}
	o->start = c;
	o->d0 = d;
	o->d_end = dfa_run(d, k->bytes, k->n);
	o->expected = k->complete ? (o->d_end == D_ACC) : (o->d_end != D_REJ);

	uint8_t *block;
	uint8_t *p = place(k, &block);
	size_t from = 0;
	bool r = true;
	for (int ch = 0; ch <= k->ncuts && r; ch++) {
		size_t to = ch < k->ncuts ? k->cuts[ch] : k->n;
		r = call_entry(k->entry, &c, p + from, to - from, ch == k->ncuts ? k->complete : false);
		o->calls++;
		from = to;
	}
	free(block);
	o->actual = r;
	o->end = c;

	chk_t cb = o->start;
	o->bytewise = cjet_is_byte_sequence_valid(&cb, k->bytes, k->n, k->complete);
	o->calls++;
	o->end_bytewise = cb;

	/* ---- oracle ---- */
	const char *kind = NULL;
	if (!o->ok_prefix) {
		kind = NULL; /* start state not reachable through accepted calls: nothing is required */
	} else if (k->complete) {
		if (o->actual && o->d_end != D_ACC) kind = o->d_end == D_REJ ? "accepts-illformed" : "accepts-truncated";
		else if (!o->actual && o->d_end == D_ACC) kind = "rejects-wellformed";
	} else {
		if (!o->actual && o->d_end != D_REJ) kind = "rejects-viable-prefix";
		else if (o->actual && o->d_end == D_REJ && !o->bytewise) kind = "accepts-illformed";
		else if (o->actual && o->bytewise && !st_equiv(&o->end, &o->end_bytewise)) kind = "state-differs-from-bytewise";
		/* actual && d_end==REJ && bytewise: late rejection of the byte-wise machine
		 * itself; judged exactly by the product automaton (section 1), not here */
	}
	if (!kind) return;
	o->violated = true;
	char detail[96], hx[200], how[64] = "";
	int lane_mod = k->entry == E_WORD32 ? 4 : k->entry == E_WORD64 ? 8 : (k->entry == E_AUTO && k->n >= 8) ? 8 : 0;
	if (!strncmp(kind, "accepts", 7)) describe_reject(detail, sizeof(detail), o->d0, k->bytes, k->n, lane_mod, k->entry == E_AUTO ? k->align : 0);
	else class_pattern(detail, sizeof(detail), k->bytes, k->n);
	if (k->ncuts) snprintf(how, sizeof(how), "-chunked");
	snprintf(o->key, sizeof(o->key), "%s%s-%s:%s", e_name[k->entry], how, kind, detail); /* detail names the reference state, so mid-sequence starts need no marker */
	hexs(hx, sizeof(hx), k->bytes, k->n);
	snprintf(o->msg, sizeof(o->msg),
	         "%s(bytes=[%s], is_complete=%d, align=%d, chunks=%d, start=%s/{%02X,%u,%u}) returned %s; RFC 3629 reference: %s (DFA ends in %s); byte-wise entry point on the same bytes: %s",
	         e_func[k->entry], hx, k->complete, k->align, k->ncuts + 1, d_name[o->d0], o->start.start_byte, o->start.length, o->start.next_byte,
	         o->actual ? "true" : "false", o->expected ? "accept" : "reject", d_name[o->d_end], o->bytewise ? "true" : "false");
}

/* total order used to pick the minimal case per key: shorter first, then fewer
 * never-valid bytes, then numerically smaller as a little-endian word */
static int kase_cmp(const struct kase *a, const struct kase *b)
{
	if (a->nprefix != b->nprefix) return a->nprefix < b->nprefix ? -1 : 1;
	if (a->n != b->n) return a->n < b->n ? -1 : 1;
	int na = 0, nb = 0; /* fewer bytes that can never occur in UTF-8 (C0, C1, F5..FF) first */
	for (int i = 0; i < a->n; i++) {
		na += a->bytes[i] == 0xC0 || a->bytes[i] == 0xC1 || a->bytes[i] >= 0xF5;
		nb += b->bytes[i] == 0xC0 || b->bytes[i] == 0xC1 || b->bytes[i] >= 0xF5;
	}
	if (na != nb) return na < nb ? -1 : 1;
	for (int i = a->n - 1; i >= 0; i--)
		if (a->bytes[i] != b->bytes[i]) return a->bytes[i] < b->bytes[i] ? -1 : 1;
	if (a->ncuts != b->ncuts) return a->ncuts < b->ncuts ? -1 : 1;
	if (a->align != b->align) return a->align < b->align ? -1 : 1;
	if (a->complete != b->complete) return a->complete < b->complete ? -1 : 1;
	int c = memcmp(a->cuts, b->cuts, sizeof(a->cuts));
	if (c) return c;
	return memcmp(a->prefix, b->prefix, sizeof(a->prefix));
}

/* ------------------------------------------------------------------ */
/* Replay files                                                        */
/* ------------------------------------------------------------------ */
static int write_replay(const char *path, const struct kase *k, const char *key, const char *section)
{
	FILE *f = fopen(path, "w");
	if (!f) return -1;
	fprintf(f, "# C18 replay: /verif/build/mod/c18 --replay <this file>\n");
	fprintf(f, "property C18\nsection %s\nkey %s\n", section, key);
	fprintf(f, "entry %s\n", e_name[k->entry]);
	fprintf(f, "# start state = init, then these single calls (entry, byte or -, is_complete)\n");
	for (int i = 0; i < k->nprefix; i++) {
		if (k->prefix[i].byte >= 0) fprintf(f, "prefix %s %02X %d\n", e_name[k->prefix[i].ep], (unsigned)k->prefix[i].byte, k->prefix[i].complete);
		else fprintf(f, "prefix %s - %d\n", e_name[k->prefix[i].ep], k->prefix[i].complete);
	}
	fprintf(f, "bytes");
	for (int i = 0; i < k->n; i++) fprintf(f, " %02X", k->bytes[i]);
	fprintf(f, "\ncuts");
	for (int i = 0; i < k->ncuts; i++) fprintf(f, " %d", k->cuts[i]);
	fprintf(f, "\nalign %d\ncomplete %d\n", k->align, k->complete);
	return fclose(f);
}

static int ep_by_name(const char *s)
{
	for (int i = 0; i < E_N; i++)
		if (!strcmp(s, e_name[i])) return i;
	return -1;
}

static int read_replay(const char *path, struct kase *k, char *key, size_t keycap)
{
	FILE *f = fopen(path, "r");
	if (!f) return -1;
	memset(k, 0, sizeof(*k));
	key[0] = 0;
	char line[512];
	int bad = 0;
	while (fgets(line, sizeof(line), f)) {
		char *tok = strtok(line, " \t\r\n");
		if (!tok || tok[0] == '#') continue;
		if (!strcmp(tok, "entry")) {
			char *v = strtok(NULL, " \t\r\n");
			int e = v ? ep_by_name(v) : -1;
			if (e < 0) bad = 1; else k->entry = (uint8_t)e;
		} else if (!strcmp(tok, "key")) {
			char *v = strtok(NULL, "\r\n");
			if (v) snprintf(key, keycap, "%s", v);
		} else if (!strcmp(tok, "prefix")) {
			char *e = strtok(NULL, " \t\r\n"), *b = strtok(NULL, " \t\r\n"), *c = strtok(NULL, " \t\r\n");
			if (!e || !b || !c || k->nprefix >= MAXP || ep_by_name(e) < 0) { bad = 1; continue; }
			struct pop *p = &k->prefix[k->nprefix++];
			p->ep = (uint8_t)ep_by_name(e);
			p->byte = strcmp(b, "-") ? (int16_t)strtol(b, NULL, 16) : (int16_t)-1;
			p->complete = (uint8_t)atoi(c);
		} else if (!strcmp(tok, "bytes")) {
			char *v;
			while ((v = strtok(NULL, " \t\r\n")) != NULL) {
				if (k->n >= MAXB) { bad = 1; break; }
				k->bytes[k->n++] = (uint8_t)strtol(v, NULL, 16);
			}
		} else if (!strcmp(tok, "cuts")) {
			char *v;
			while ((v = strtok(NULL, " \t\r\n")) != NULL) {
				if (k->ncuts >= 2) { bad = 1; break; }
				k->cuts[k->ncuts++] = (uint8_t)atoi(v);
			}
		} else if (!strcmp(tok, "align")) {
			char *v = strtok(NULL, " \t\r\n");
			k->align = v ? (uint8_t)(atoi(v) & 7) : 0;
		} else if (!strcmp(tok, "complete")) {
			char *v = strtok(NULL, " \t\r\n");
			k->complete = v ? (uint8_t)(atoi(v) != 0) : 0;
		}
	}
	fclose(f);
	/* sanity: cuts monotone, word entries need aligned chunks */
	size_t prev = 0;
	for (int i = 0; i < k->ncuts; i++) {
		if (k->cuts[i] < prev || k->cuts[i] > k->n) bad = 1;
		prev = k->cuts[i];
	}
	int unit = k->entry == E_WORD32 ? 4 : k->entry == E_WORD64 ? 8 : 1;
	if (k->n % unit || k->align % unit) bad = 1;
	for (int i = 0; i < k->ncuts; i++)
		if (k->cuts[i] % unit) bad = 1;
	return bad ? -2 : 0;
}

#endif
