/* C19 harness, part 2: the CLIENT side (payloads, raw deflate per RFC 7692, framing, offer and
 * response parsing, RFC 7692 section 7.1 legality rules). */
#ifndef C19_CLIENT_H
#define C19_CLIENT_H

#include <ctype.h>
#include "c19_io.h"
#include "zlib.h"

/* ---------- payloads ---------- */
#define NPAY 9
static uint8_t *pl_data[NPAY];
static size_t pl_len[NPAY];
static const char *const pl_name[NPAY] = {"empty", "1byte", "tiny4", "noise100", "rep400", "mixed500", "wide5000", "noise65530", "rep70000"};

static uint8_t lcg(uint32_t *s)
{
	*s = *s * 1103515245u + 12345u;
	return (uint8_t)(*s >> 16);
}
static void build_payloads(void)
{
	uint32_t s;
	pl_len[0] = 0;
	pl_data[0] = h_malloc(1);
	pl_len[1] = 1;
	pl_data[1] = h_malloc(1);
	pl_data[1][0] = 'A';
	pl_len[2] = 4;
	pl_data[2] = h_malloc(4);
	memcpy(pl_data[2], "jet!", 4);
	pl_len[3] = 100;
	pl_data[3] = h_malloc(100);
	s = 42;
	for (int i = 0; i < 100; i++) pl_data[3][i] = lcg(&s);
	pl_len[4] = 400;
	pl_data[4] = h_malloc(400);
	for (int i = 0; i < 400; i++) pl_data[4][i] = (uint8_t)"jet!"[i % 4];
	pl_len[5] = 500;
	pl_data[5] = h_malloc(500);
	{
		char txt[512];
		size_t o = 0;
		int id = 1;
		while (o < 200) o += (size_t)snprintf(txt + o, sizeof(txt) - o, "{\"jsonrpc\":\"2.0\",\"method\":\"fetch\",\"params\":{\"id\":%d}}", id++);
		memcpy(pl_data[5], txt, 200);
		s = 7;
		for (int i = 200; i < 350; i++) pl_data[5][i] = lcg(&s);
		for (int i = 350; i < 500; i++) pl_data[5][i] = (uint8_t)"abc"[i % 3];
	}
	/* wide5000: noise with three 128-byte blocks repeated at distances 700, 2000 and 4872, i.e. only
	 * reachable with window bits >= 10, >= 12 (11) and >= 13 (15): discriminates the negotiated window. */
	pl_len[6] = 5000;
	pl_data[6] = h_malloc(5000);
	s = 99;
	for (int i = 0; i < 5000; i++) pl_data[6][i] = lcg(&s);
	memcpy(pl_data[6] + 4872, pl_data[6] + 0, 128);
	memcpy(pl_data[6] + 3000, pl_data[6] + 1000, 128);
	memcpy(pl_data[6] + 1900, pl_data[6] + 1200, 128);
	/* noise65530: incompressible and just below 64 KiB - its compressed form is longer than 65535 bytes, so the frame needs the 64-bit
	 * length although the payload itself would not; rep70000: the opposite case (payload above 64 KiB, compressed form tiny) */
	pl_len[7] = 65530;
	pl_data[7] = h_malloc(65530);
	s = 4711;
	for (int i = 0; i < 65530; i++) pl_data[7][i] = lcg(&s);
	pl_len[8] = 70000;
	pl_data[8] = h_malloc(70000);
	for (int i = 0; i < 70000; i++) pl_data[8][i] = (uint8_t)"{\"jet\":1}"[i % 9];
}

/* ---------- client compressor / decompressor ---------- */
struct cdefl {
	z_stream z;
	int notake;
};
static int cd_init(struct cdefl *d, int bits, int notake)
{
	memset(d, 0, sizeof(*d));
	d->notake = notake;
	/* zlib cannot produce a raw stream for an 8 bit window; Z_RLE only ever uses distance 1, which is
	 * a legal stream for any window size */
	int wb = bits < 9 ? 9 : bits;
	int strat = bits < 9 ? Z_RLE : Z_DEFAULT_STRATEGY;
	return deflateInit2(&d->z, 9, Z_DEFLATED, -wb, 8, strat) == Z_OK ? 0 : -1;
}
static void cd_end(struct cdefl *d) { deflateEnd(&d->z); }
/* compress one message, RFC 7692 7.2.1: sync flush, strip 00 00 ff ff. out is h_malloc'ed */
static int cd_msg(struct cdefl *d, const uint8_t *in, size_t n, uint8_t **out, size_t *on)
{
	if (d->notake) deflateReset(&d->z);
	if (n == 0) {
		*out = h_malloc(1);
		(*out)[0] = 0x00;
		*on = 1;
		return 0;
	}
	size_t cap = deflateBound(&d->z, n) + 64;
	uint8_t *buf = h_malloc(cap);
	d->z.next_in = (Bytef *)in;
	d->z.avail_in = (uInt)n;
	d->z.next_out = buf;
	d->z.avail_out = (uInt)cap;
	int r = deflate(&d->z, Z_SYNC_FLUSH);
	size_t have = cap - d->z.avail_out;
	if (r != Z_OK || d->z.avail_in != 0 || d->z.avail_out == 0 || have < 4 || memcmp(buf + have - 4, "\x00\x00\xff\xff", 4) != 0) {
		h_free(buf);
		return -1;
	}
	*out = buf;
	*on = have - 4;
	return 0;
}

struct cinfl {
	z_stream z;
	int notake;
	char err[96];
};
static int ci_init(struct cinfl *c, int bits, int notake)
{
	memset(c, 0, sizeof(*c));
	c->notake = notake;
	return inflateInit2(&c->z, -bits) == Z_OK ? 0 : -1;
}
static void ci_end(struct cinfl *c) { inflateEnd(&c->z); }
/* decompress one message payload (tail re-appended). out is h_malloc'ed. 0 ok, -1 stream error */
static int ci_msg(struct cinfl *c, const uint8_t *in, size_t n, uint8_t **out, size_t *on)
{
	if (c->notake) inflateReset(&c->z);
	uint8_t *src = h_malloc(n + 4);
	if (n) memcpy(src, in, n);
	memcpy(src + n, "\x00\x00\xff\xff", 4);
	size_t cap = 1024 + n * 8, len = 0;
	uint8_t *dst = h_malloc(cap);
	c->z.next_in = src;
	c->z.avail_in = (uInt)(n + 4);
	int rc = 0;
	for (;;) {
		if (len == cap) {
			cap *= 2;
			if (cap > ((size_t)64 << 20)) {
				snprintf(c->err, sizeof(c->err), "output exceeds 64 MB");
				rc = -1;
				break;
			}
			dst = h_realloc(dst, cap);
		}
		c->z.next_out = dst + len;
		c->z.avail_out = (uInt)(cap - len);
		int r = inflate(&c->z, Z_SYNC_FLUSH);
		len = cap - c->z.avail_out;
		if (r == Z_STREAM_END) {
			snprintf(c->err, sizeof(c->err), "stream contains a final block (Z_STREAM_END)");
			rc = -1;
			break;
		}
		if (r != Z_OK && r != Z_BUF_ERROR) {
			snprintf(c->err, sizeof(c->err), "inflate: %d (%s)", r, c->z.msg ? c->z.msg : "-");
			rc = -1;
			break;
		}
		if (c->z.avail_in == 0 && c->z.avail_out != 0) break;
		if (r == Z_BUF_ERROR && c->z.avail_out != 0) {
			snprintf(c->err, sizeof(c->err), "inflate made no progress with %u input bytes left", c->z.avail_in);
			rc = -1;
			break;
		}
	}
	h_free(src);
	*out = dst;
	*on = len;
	return rc;
}

/* ---------- framing ---------- */
#define OPC_CONT 0
#define OPC_TEXT 1
#define OPC_BIN 2
#define OPC_CLOSE 8

static size_t mk_frame(uint8_t *dst, int fin, int rsv1, int opcode, const uint8_t *pl, size_t n, uint32_t maskseed)
{
	size_t o = 0;
	dst[o++] = (uint8_t)((fin ? 0x80 : 0) | (rsv1 ? 0x40 : 0) | opcode);
	if (n < 126) {
		dst[o++] = (uint8_t)(0x80 | n);
	} else if (n < 65536) {
		dst[o++] = 0x80 | 126;
		dst[o++] = (uint8_t)(n >> 8);
		dst[o++] = (uint8_t)n;
	} else {
		dst[o++] = 0x80 | 127;
		for (int i = 7; i >= 0; i--) dst[o++] = (uint8_t)((uint64_t)n >> (8 * i));
	}
	uint8_t mask[4];
	uint32_t s = maskseed * 2654435761u + 0x9e3779b9u;
	for (int i = 0; i < 4; i++) mask[i] = lcg(&s);
	memcpy(dst + o, mask, 4);
	o += 4;
	for (size_t i = 0; i < n; i++) dst[o + i] = pl[i] ^ mask[i % 4];
	return o + n;
}

struct sframe {
	int fin, rsv, opcode, masked;
	uint64_t len;
	const uint8_t *pl;
	size_t total;
};
/* 1 = one complete frame parsed, 0 = incomplete */
static int parse_sframe(const uint8_t *b, size_t n, struct sframe *f)
{
	if (n < 2) return 0;
	f->fin = b[0] >> 7;
	f->rsv = (b[0] >> 4) & 7;
	f->opcode = b[0] & 15;
	f->masked = b[1] >> 7;
	uint64_t l = b[1] & 127;
	size_t o = 2;
	if (l == 126) {
		if (n < 4) return 0;
		l = ((uint64_t)b[2] << 8) | b[3];
		o = 4;
	} else if (l == 127) {
		if (n < 10) return 0;
		l = 0;
		for (int i = 0; i < 8; i++) l = (l << 8) | b[2 + i];
		o = 10;
	}
	if (f->masked) o += 4;
	f->len = l;
	if (l > n || o + l > n) return 0;
	f->pl = b + o;
	f->total = o + (size_t)l;
	return 1;
}

/* ---------- offers: reference parser (RFC 7692 / RFC 6455 9.1 grammar, lenient) ---------- */
struct offer_sem {
	int is_pmd;   /* extension token is permessage-deflate */
	int valid;    /* RFC 7692 7.1: no unknown / duplicate / invalid parameter */
	int has_cmwb; /* a parameter named client_max_window_bits is present */
	int cmwb;     /* its value when it is a valid 8..15, else 0 */
	int has_smwb;
	int smwb;
	int cn, sn;
};

static void trim(const char **s, size_t *n)
{
	while (*n && ((*s)[0] == ' ' || (*s)[0] == '\t')) (*s)++, (*n)--;
	while (*n && ((*s)[*n - 1] == ' ' || (*s)[*n - 1] == '\t')) (*n)--;
}
static int tok_eq(const char *s, size_t n, const char *t) { return strlen(t) == n && strncasecmp(s, t, n) == 0; }
static int parse_bits(const char *v, size_t n) /* 8..15 without leading zero, else 0 */
{
	if (n == 1 && (v[0] == '8' || v[0] == '9')) return v[0] - '0';
	if (n == 2 && v[0] == '1' && v[1] >= '0' && v[1] <= '5') return 10 + v[1] - '0';
	if (n >= 3 && v[0] == '"' && v[n - 1] == '"') return parse_bits(v + 1, n - 2); /* quoted-string form */
	return 0;
}
static void parse_one_offer(const char *s, size_t n, struct offer_sem *o)
{
	memset(o, 0, sizeof(*o));
	o->valid = 1;
	int idx = 0;
	while (1) {
		const char *e = memchr(s, ';', n);
		size_t pn = e ? (size_t)(e - s) : n;
		const char *p = s;
		trim(&p, &pn);
		const char *eq = memchr(p, '=', pn);
		const char *name = p;
		size_t nn = eq ? (size_t)(eq - p) : pn;
		const char *val = eq ? eq + 1 : NULL;
		size_t vn = eq ? pn - nn - 1 : 0;
		trim(&name, &nn);
		if (val) trim(&val, &vn);
		if (idx == 0) {
			o->is_pmd = tok_eq(name, nn, "permessage-deflate") && !eq;
		} else if (tok_eq(name, nn, "client_max_window_bits")) {
			if (o->has_cmwb) o->valid = 0;
			o->has_cmwb = 1;
			if (val) {
				o->cmwb = parse_bits(val, vn);
				if (!o->cmwb) o->valid = 0;
			}
		} else if (tok_eq(name, nn, "server_max_window_bits")) {
			if (o->has_smwb) o->valid = 0;
			o->has_smwb = 1;
			o->smwb = val ? parse_bits(val, vn) : 0;
			if (!o->smwb) o->valid = 0;
		} else if (tok_eq(name, nn, "client_no_context_takeover")) {
			if (o->cn || val) o->valid = 0;
			o->cn = 1;
		} else if (tok_eq(name, nn, "server_no_context_takeover")) {
			if (o->sn || val) o->valid = 0;
			o->sn = 1;
		} else {
			o->valid = 0;
		}
		idx++;
		if (!e) break;
		n -= (size_t)(e + 1 - s);
		s = e + 1;
	}
}
/* an offer string may list several offers separated by ',' or by '|' (= a second header line) */
static int parse_offers(const char *s, struct offer_sem *out, int max)
{
	int cnt = 0;
	size_t n = strlen(s);
	while (cnt < max) {
		size_t k = strcspn(s, ",|");
		if (k > n) k = n;
		const char *p = s;
		size_t pn = k;
		trim(&p, &pn);
		if (pn) parse_one_offer(p, pn, &out[cnt++]);
		if (s[k] == 0) break;
		s += k + 1;
	}
	return cnt;
}

/* ---------- response ---------- */
struct neg {
	int got101;
	int accepted; /* a Sec-WebSocket-Extensions header is present */
	int malformed;
	char why[120];
	int has_cmwb, cmwb, has_smwb, smwb, cn, sn;
	char raw[200];
};
/* effective parameters a client derives from the response */
static int neg_cbits(const struct neg *g) { return g->has_cmwb ? g->cmwb : 15; }
static int neg_sbits(const struct neg *g) { return g->has_smwb ? g->smwb : 15; }

static void parse_ext_response(const char *v, size_t n, struct neg *g)
{
	snprintf(g->raw, sizeof(g->raw), "%.*s", (int)(n > 190 ? 190 : n), v);
	if (memchr(v, ',', n)) {
		g->malformed = 1;
		snprintf(g->why, sizeof(g->why), "response lists more than one extension");
		return;
	}
	int idx = 0;
	const char *s = v;
	while (1) {
		const char *e = memchr(s, ';', n);
		size_t pn = e ? (size_t)(e - s) : n;
		const char *p = s;
		trim(&p, &pn);
		const char *eq = memchr(p, '=', pn);
		size_t nn = eq ? (size_t)(eq - p) : pn;
		const char *val = eq ? eq + 1 : NULL;
		size_t vn = eq ? pn - nn - 1 : 0;
		int *has = NULL, *dst = NULL;
		if (idx == 0) {
			if (!(nn == 18 && memcmp(p, "permessage-deflate", 18) == 0) || eq) {
				g->malformed = 1;
				snprintf(g->why, sizeof(g->why), "extension token is '%.*s'", (int)(pn > 60 ? 60 : pn), p);
				return;
			}
		} else if (nn == 22 && memcmp(p, "client_max_window_bits", 22) == 0) {
			has = &g->has_cmwb;
			dst = &g->cmwb;
		} else if (nn == 22 && memcmp(p, "server_max_window_bits", 22) == 0) {
			has = &g->has_smwb;
			dst = &g->smwb;
		} else if (nn == 26 && memcmp(p, "client_no_context_takeover", 26) == 0) {
			has = &g->cn;
		} else if (nn == 26 && memcmp(p, "server_no_context_takeover", 26) == 0) {
			has = &g->sn;
		} else {
			g->malformed = 1;
			snprintf(g->why, sizeof(g->why), "unknown parameter '%.*s'", (int)(pn > 60 ? 60 : pn), p);
			return;
		}
		if (has) {
			if (*has) {
				g->malformed = 1;
				snprintf(g->why, sizeof(g->why), "parameter '%.*s' appears twice", (int)nn, p);
				return;
			}
			*has = 1;
			if (dst) {
				int b = 0;
				if (val && vn && val[0] != '"') b = parse_bits(val, vn);
				if (!b) {
					g->malformed = 1;
					snprintf(g->why, sizeof(g->why), "parameter '%.*s' has no value in 8..15", (int)(pn > 60 ? 60 : pn), p);
					return;
				}
				*dst = b;
			} else if (val) {
				g->malformed = 1;
				snprintf(g->why, sizeof(g->why), "flag '%.*s' carries a value", (int)(pn > 60 ? 60 : pn), p);
				return;
			}
		}
		idx++;
		if (!e) break;
		n -= (size_t)(e + 1 - s);
		s = e + 1;
	}
}

/* parse the HTTP response the module wrote; returns bytes consumed (0 = no complete header block) */
static size_t parse_http_response(const uint8_t *b, size_t n, struct neg *g)
{
	memset(g, 0, sizeof(*g));
	const uint8_t *end = memmem(b, n, "\r\n\r\n", 4);
	if (!end) return 0;
	size_t hl = (size_t)(end - b) + 4;
	g->got101 = n >= 12 && memcmp(b, "HTTP/1.1 101", 12) == 0;
	const char *p = (const char *)b;
	const char *stop = (const char *)end + 2;
	int seen = 0;
	while (p < stop) {
		const char *le = memmem(p, (size_t)(stop - p), "\r\n", 2);
		if (!le) break;
		static const char hn[] = "Sec-WebSocket-Extensions:";
		if ((size_t)(le - p) >= sizeof(hn) - 1 && strncasecmp(p, hn, sizeof(hn) - 1) == 0) {
			const char *v = p + sizeof(hn) - 1;
			size_t vn = (size_t)(le - v);
			trim(&v, &vn);
			g->accepted = 1;
			if (seen++) {
				g->malformed = 1;
				snprintf(g->why, sizeof(g->why), "two Sec-WebSocket-Extensions response headers");
			} else {
				parse_ext_response(v, vn, g);
			}
		}
		p = le + 2;
	}
	return hl;
}

/* RFC 7692 7.1: is response g a legal answer to offer o?  Returns NULL when legal, else the rule broken. */
static const char *illegal_wrt(const struct neg *g, const struct offer_sem *o)
{
	if (!o->is_pmd) return "accepted-without-offer";
	if (g->has_cmwb && !o->has_cmwb) return "client_max_window_bits-not-offered";
	if (g->has_cmwb && o->cmwb && g->cmwb > o->cmwb) return "client_max_window_bits-exceeds-offer";
	if (g->has_smwb && o->has_smwb && o->smwb && g->smwb > o->smwb) return "server_max_window_bits-exceeds-offer";
	if (o->has_smwb && o->smwb && o->smwb < 15 && !g->has_smwb) return "server_max_window_bits-offer-ignored";
	return NULL;
}

#endif
