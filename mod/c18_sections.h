/*
 * C18 harness sections: reference self-check, product automaton (BFS),
 * generic bounded-exhaustive string sweep.
 */
#ifndef C18_SECTIONS_H
#define C18_SECTIONS_H

#include "c18_run.h"

/* ------------------------------------------------------------------ */
/* S0: cross-check of the reference DFA against the arithmetic decoder */
/* ------------------------------------------------------------------ */
static const uint8_t EXT[6] = {0x80, 0x8F, 0x90, 0x9F, 0xA0, 0xBF};

static bool arith_viable(const uint8_t *p, size_t n)
{
	uint8_t s[8];
	memcpy(s, p, n);
	if (arith_wellformed(s, n)) return true;
	for (int a = 0; a < 6; a++) {
		s[n] = EXT[a];
		if (arith_wellformed(s, n + 1)) return true;
		for (int b = 0; b < 6; b++) {
			s[n + 1] = EXT[b];
			if (arith_wellformed(s, n + 2)) return true;
			for (int c = 0; c < 6; c++) {
				s[n + 2] = EXT[c];
				if (arith_wellformed(s, n + 3)) return true;
			}
		}
	}
	return false;
}

static void selfcheck_one(struct res *r, const uint8_t *s, size_t n, bool viability)
{
	int d = dfa_run(D_ACC, s, n);
	r->cases++;
	if (arith_wellformed(s, n) != (d == D_ACC)) res_error(r, "reference DFA disagrees with arithmetic decoder on %02X %02X %02X %02X (n=%zu)", s[0], s[1], s[2], s[3], n);
	if (viability) {
		r->cases++;
		if (arith_viable(s, n) != (d != D_REJ)) res_error(r, "reference DFA viability disagrees with decoder on %02X %02X %02X (n=%zu)", s[0], s[1], s[2], n);
	}
}

static void w_selfcheck(struct res *r, int job, int njobs, void *arg)
{
	(void)arg;
	uint8_t s[4] = {0, 0, 0, 0};
	for (int b0 = job; b0 < 256; b0 += njobs) {
		s[0] = (uint8_t)b0;
		s[1] = s[2] = s[3] = 0;
		selfcheck_one(r, s, 1, true);
		for (int b1 = 0; b1 < 256; b1++) {
			s[1] = (uint8_t)b1;
			selfcheck_one(r, s, 2, true);
			for (int b2 = 0; b2 < 256; b2++) {
				s[2] = (uint8_t)b2;
				selfcheck_one(r, s, 3, b0 >= 0xF0);
				if (b0 >= 0xF0)
					for (int b3 = 0; b3 < 256; b3++) {
						s[3] = (uint8_t)b3;
						selfcheck_one(r, s, 4, false);
					}
			}
		}
	}
}

/* ------------------------------------------------------------------ */
/* S1: product automaton                                               */
/* ------------------------------------------------------------------ */
#define MAXN 65536
struct node { chk_t st; uint8_t d; int parent; struct pop op; };
static struct node *nodes;
static int n_nodes;

static int node_find(const chk_t *st, int d)
{
	uint32_t k = st_key(st);
	if (!(cls[k] & (1u << d))) return -1;
	for (int i = 0; i < n_nodes; i++)
		if (nodes[i].d == d && st_key(&nodes[i].st) == k) return i;
	return -1;
}

static bool node_path(int idx, struct kase *k)
{
	int depth = 0;
	for (int i = idx; nodes[i].parent >= 0; i = nodes[i].parent) depth++;
	if (depth > MAXP) return false;
	k->nprefix = (uint8_t)depth;
	for (int i = idx; nodes[i].parent >= 0; i = nodes[i].parent) k->prefix[--depth] = nodes[i].op;
	return true;
}

static void node_add(struct res *r, const chk_t *st, int d, int parent, int ep, int byte, int complete)
{
	if (node_find(st, d) >= 0) return;
	if (n_nodes >= MAXN) { res_error(r, "product automaton exceeds %d states", MAXN); return; }
	struct node *n = &nodes[n_nodes++];
	n->st = *st;
	n->d = (uint8_t)d;
	n->parent = parent;
	n->op.ep = (uint8_t)ep;
	n->op.byte = (int16_t)byte;
	n->op.complete = (uint8_t)complete;
	cls[st_key(st)] |= (uint16_t)(1u << d);
}

static void bfs_suspect(struct res *r, int idx, int ep, int byte, int complete)
{
	struct kase k;
	memset(&k, 0, sizeof(k));
	if (!node_path(idx, &k)) { res_error(r, "product automaton path deeper than %d", MAXP); return; }
	k.entry = (uint8_t)ep;
	if (byte >= 0) { k.n = 1; k.bytes[0] = (uint8_t)byte; }
	k.complete = (uint8_t)complete;
	suspect(r, &k);
}

static void s_product(struct res *r)
{
	static const int eps[3] = {E_BYTE, E_TEXT, E_AUTO};
	chk_t init;
	cjet_init_checker(&init);
	node_add(r, &init, D_ACC, -1, 0, -1, 0);
	for (int i = 0; i < n_nodes && !r->harness_error; i++) {
		const chk_t st = nodes[i].st;
		const int d = nodes[i].d;
		for (int e = 0; e < 3; e++)
			for (int complete = 0; complete < 2; complete++)
				for (int b = -1; b < 256; b++) {
					chk_t c = st;
					uint8_t by = (uint8_t)b;
					bool res = call_entry(eps[e], &c, &by, b >= 0 ? 1 : 0, complete);
					int nd = b >= 0 ? dfa[d][b] : d;
					r->cases++;
					r->calls++;
					if (complete ? nd != D_ACC : nd == D_REJ) r->nontrivial++; /* reference verdict is "reject" */
					bool bad;
					if (complete) bad = res != (nd == D_ACC);
					else bad = !res && nd != D_REJ;
					if (bad) bfs_suspect(r, i, eps[e], b, complete);
					if (res && !complete && nd == D_REJ && d != D_REJ) r->late++;
					if (res) node_add(r, &c, nd, i, eps[e], b, complete);
				}
	}
	r->states = (uint64_t)n_nodes;
}

/* start states for the other sections: every product state whose reference
 * component is not REJECT (index 0 = initial/boundary state) */
struct start { chk_t st; uint8_t d; uint8_t nprefix; struct pop prefix[MAXP]; };
static struct start *starts;
static int n_starts;

static void build_starts(struct res *r)
{
	starts = calloc((size_t)n_nodes + 16, sizeof(*starts));
	n_starts = 0;
	for (int i = 0; i < n_nodes; i++) {
		if (nodes[i].d == D_REJ) continue;
		struct kase k;
		memset(&k, 0, sizeof(k));
		if (!node_path(i, &k)) { res_error(r, "start state path too deep"); return; }
		struct start *s = &starts[n_starts++];
		s->st = nodes[i].st;
		s->d = nodes[i].d;
		s->nprefix = k.nprefix;
		memcpy(s->prefix, k.prefix, sizeof(s->prefix));
	}
}

static void kase_from_start(struct kase *k, const struct start *s)
{
	memset(k, 0, sizeof(*k));
	k->nprefix = s->nprefix;
	memcpy(k->prefix, s->prefix, sizeof(k->prefix));
}

/* ------------------------------------------------------------------ */
/* "the fast path is taken": a word-sized unit read at a character      */
/* boundary that consists only of complete 1- and 2-byte sequences in   */
/* one of the shapes the fast paths are written for (statistics only)   */
/* ------------------------------------------------------------------ */
static inline bool is_lt(const uint8_t *p) { return p[0] >= 0xC2 && p[0] <= 0xDF && (p[1] & 0xC0) == 0x80; }
static inline bool shape32(const uint8_t *p)
{
	bool a0 = p[0] < 0x80, a1 = p[1] < 0x80, a2 = p[2] < 0x80, a3 = p[3] < 0x80;
	if (a0 && a1 && a2 && a3) return true;
	if (is_lt(p) && a2 && a3) return true;
	if (a0 && is_lt(p + 1) && a3) return true;
	if (a0 && a1 && is_lt(p + 2)) return true;
	return is_lt(p) && is_lt(p + 2);
}
static inline bool shape64(const uint8_t *p)
{
	bool ascii = true;
	for (int i = 0; i < 8; i++) ascii = ascii && p[i] < 0x80;
	return ascii || (is_lt(p) && is_lt(p + 2) && is_lt(p + 4) && is_lt(p + 6));
}

static bool took_fast(int entry, int d0, const uint8_t *s, size_t n, int align)
{
	size_t unit, first = 0;
	if (entry == E_WORD32) unit = 4;
	else if (entry == E_WORD64) unit = 8;
	else if (entry == E_AUTO && n >= 8) { unit = 8; first = 8 - (size_t)(align % 8); }
	else return false;
	int d = dfa_run(d0, s, first < n ? first : n);
	for (size_t off = first; off + unit <= n; off += unit) {
		if (d == D_ACC && (unit == 4 ? shape32(s + off) : shape64(s + off))) return true;
		d = dfa_run(d, s + off, unit);
	}
	return false;
}

/* ------------------------------------------------------------------ */
/* Generic bounded-exhaustive sweep: all strings of length L over an   */
/* alphabet x start states x alignments x chunkings x is_complete      */
/* ------------------------------------------------------------------ */
struct sweep {
	const char *name;
	int entry;
	const uint8_t *alpha;
	int nalpha;
	int L;
	int align_lo, align_hi; /* inclusive */
	int cutmode;            /* 0 whole; 1 whole + every single cut; 2 every pair of cuts 0<=i<=j<=L (empty chunks included) */
	int start_lo, start_hi; /* [lo,hi) into starts[] */
	int complete_mask;      /* bit0: is_complete=false, bit1: is_complete=true */
};

static inline void check_string(struct res *r, const struct sweep *sw, const struct start *s, const uint8_t *bytes, uint8_t *mem, int align,
                                int ncuts, int c1, int c2, int complete, int d_end, bool fast)
{
	const int n = sw->L;
	chk_t c = s->st, cb = s->st;
	bool res = true;
	int from = 0;
	int ends[3] = {ncuts >= 1 ? c1 : n, ncuts >= 2 ? c2 : n, n};
	for (int ch = 0; ch <= ncuts && res; ch++) {
		int to = ends[ch];
		res = call_entry(sw->entry, &c, mem + from, (size_t)(to - from), ch == ncuts ? complete : false);
		r->calls++;
		from = to;
	}
	bool rb = cjet_is_byte_sequence_valid(&cb, bytes, (size_t)n, complete);
	r->calls++;
	bool exp = complete ? d_end == D_ACC : d_end != D_REJ;
	r->cases++;
	if (fast || !exp) r->nontrivial++;
	if (res != exp || res != rb || (res && !complete && st_key(&c) != st_key(&cb))) {
		struct kase k;
		kase_from_start(&k, s);
		k.entry = (uint8_t)sw->entry;
		k.n = (uint8_t)n;
		memcpy(k.bytes, bytes, (size_t)n);
		k.ncuts = (uint8_t)ncuts;
		k.cuts[0] = (uint8_t)(ncuts >= 1 ? c1 : 0);
		k.cuts[1] = (uint8_t)(ncuts >= 2 ? c2 : 0);
		k.align = (uint8_t)align;
		k.complete = (uint8_t)complete;
		suspect(r, &k);
	}
}

static void w_sweep(struct res *r, int job, int njobs, void *arg)
{
	const struct sweep *sw = arg;
	const int n = sw->L;
	const int unit = sw->entry == E_WORD32 ? 4 : sw->entry == E_WORD64 ? 8 : 1;
	uint64_t total = 1;
	for (int i = 0; i < n; i++) total *= (uint64_t)sw->nalpha;
	uint64_t lo = (uint64_t)(((__uint128_t)total * (unsigned)job) / (unsigned)njobs);
	uint64_t hi = (uint64_t)(((__uint128_t)total * (unsigned)(job + 1)) / (unsigned)njobs);
	int dig[MAXB] = {0};
	uint8_t bytes[MAXB + 8] = {0};
	uint64_t t = lo;
	for (int i = 0; i < n; i++) { dig[i] = (int)(t % (uint64_t)sw->nalpha); t /= (uint64_t)sw->nalpha; }
	uint8_t *blk[8] = {0};
	for (int a = sw->align_lo; a <= sw->align_hi; a++) {
		void *p = NULL;
		size_t sz = (size_t)a + (size_t)n;
		if (posix_memalign(&p, 8, sz ? sz : 1) != 0) { res_error(r, "out of memory"); return; }
		memset(p, 0xFF, sz ? sz : 1);
		blk[a] = p;
	}
	for (uint64_t idx = lo; idx < hi; idx++) {
		if ((idx & 0x3FFF) == 0 && expired()) { r->complete = 0; break; }
		for (int i = 0; i < n; i++) bytes[i] = sw->alpha[dig[i]];
		for (int a = sw->align_lo; a <= sw->align_hi; a++)
			if (n) memcpy(blk[a] + a, bytes, (size_t)n);
		for (int si = sw->start_lo; si < sw->start_hi; si++) {
			const struct start *s = &starts[si];
			int d_end = dfa_run(s->d, bytes, (size_t)n);
			for (int a = sw->align_lo; a <= sw->align_hi; a++) {
				bool fast = took_fast(sw->entry, s->d, bytes, (size_t)n, a);
				for (int complete = 0; complete < 2; complete++) {
					if (!(sw->complete_mask & (1 << complete))) continue;
					if (sw->cutmode != 2) check_string(r, sw, s, bytes, blk[a] + a, a, 0, 0, 0, complete, d_end, fast);
					if (sw->cutmode == 1)
						for (int c1 = unit; c1 < n; c1 += unit) check_string(r, sw, s, bytes, blk[a] + a, a, 1, c1, 0, complete, d_end, fast);
					if (sw->cutmode == 2)
						for (int c1 = 0; c1 <= n; c1 += unit)
							for (int c2 = c1; c2 <= n; c2 += unit) check_string(r, sw, s, bytes, blk[a] + a, a, 2, c1, c2, complete, d_end, fast);
				}
			}
		}
		for (int i = 0; i < n; i++) {
			if (++dig[i] < sw->nalpha) break;
			dig[i] = 0;
		}
	}
	for (int a = 0; a < 8; a++) free(blk[a]);
}

#endif
