/*
 * C10 module-level harness: interface between the driver (c10_main.c) and the
 * per-variant engines (c10_bsock.c compiled once per write-buffer size and
 * linked against the REAL buffered_socket.c / posix/socket.c of that variant).
 */
#ifndef C10_COMMON_H
#define C10_COMMON_H

#include <stdint.h>
#include <stdio.h>

#define C10_MAXF 3        /* frames submitted per path (frame label needs 2 bits) */
#define C10_MAXSHAPES 32
#define C10_MAXVIOL 64
#define C10_MAXSAMPLES 6

struct c10_shape {
	int prefix;           /* iov[0] length: 4-byte length prefix / websocket header */
	int payload;          /* iov[1] length */
};

struct c10_cfg {
	const char *section;
	int max_frames;
	int nshapes;
	struct c10_shape shapes[C10_MAXSHAPES];
	int reduced_answers;  /* 0: accept k for EVERY k in 1..total; 1: boundary set only */
	int short_budget;     /* >0: after that many short writes inside one operation the kernel only answers {all, EAGAIN, error} */
	int path_short_budget; /* >0: at most that many short writes along one path, then {all, EAGAIN, error} */
	int sticky_error;     /* 1: hard error = EPIPE and the socket stays dead; 0: ENOBUFS, transient */
	int memo;             /* 1: merge equal intermediate code states inside one operation */
	int jobs;
	double deadline;      /* absolute CLOCK_MONOTONIC seconds, 0 = none */
	int verbose;
};

struct c10_viol {
	char key[128];
	char msg[1024];
	char *replay;         /* malloc'd replay text */
	int depth;
	long weight;
	int consequence;      /* 1: peer-visible consequence of a refusal class, 0: first detection */
};

struct c10_result {
	int bufsize;
	uint64_t states, transitions, pruned, drains, nontrivial;
	uint64_t read_events, error_events;
	uint64_t refusals_clean, refusals_dirty;
	uint64_t hard_errors, hard_error_partial_frame;
	uint64_t set_hash;    /* order independent hash over the canonical state set */
	int levels;
	int exhaustive;
	int nviol;
	struct c10_viol viol[C10_MAXVIOL];
	int nsamples;
	char *samples[C10_MAXSAMPLES];
};

#define C10_DECLARE_ENGINE(v) \
	int c10_bufsize_##v(void); \
	int c10_explore_##v(const struct c10_cfg *cfg, struct c10_result *res); \
	int c10_replay_##v(const char *text, FILE *out, char keys[][128], int maxkeys);

C10_DECLARE_ENGINE(w16)
C10_DECLARE_ENGINE(w5120)

#endif
