/*
 * C17 harness core: key universes, canonical table image + structural
 * invariants, the per-transition oracle, replay files.
 * Included by c17_hashtable.c only.
 */
#ifndef C17_CORE_H
#define C17_CORE_H

#include <errno.h>
#include <stdarg.h>
#include <stdio.h>
#include <stdlib.h>
#include <string.h>

#include "hashtable.h" /* only for the HASHTABLE_* return code constants */
#include "c17_inst.h"

#define MAXK 96
#define MAXOCC 96
#define MAXOPS 96
#define KIDX_UNKNOWN 0xFEu
#define ALIAS_B 0x80u

static void die(const char *fmt, ...) __attribute__((noreturn, format(printf, 1, 2)));
static void die(const char *fmt, ...)
{
	va_list ap;
	va_start(ap, fmt);
	fprintf(stderr, "c17: harness error: ");
	vfprintf(stderr, fmt, ap);
	fprintf(stderr, "\n");
	va_end(ap);
	_exit(2);
}

/* ------------------------------------------------------------------ instances */

#define MAXINST 128
static const struct c17_inst *g_inst[MAXINST];
static int g_ninst;

void c17_register(const struct c17_inst *inst)
{
	if (g_ninst < MAXINST) {
		g_inst[g_ninst++] = inst;
	}
}

static const struct c17_inst *find_inst(int ktype, unsigned hop, unsigned order)
{
	int i;
	for (i = 0; i < g_ninst; i++) {
		if ((int)g_inst[i]->ktype == ktype && g_inst[i]->hop_bits == hop && g_inst[i]->order == order) {
			return g_inst[i];
		}
	}
	return NULL;
}

/* hashtable.h allocates through these; plain malloc so that ASan sees the exact bounds of the table */
void *cjet_malloc(size_t size)
{
	return malloc(size);
}
void cjet_free(void *ptr)
{
	free(ptr);
}

/* ------------------------------------------------------------------ universes */

struct keydef {
	uint64_t num;      /* numeric key (uint32 / uint64 tables) */
	char name[28];     /* string key content */
	char *copy_a;      /* two separately allocated copies of the same content */
	char *copy_b;
	uint32_t home;
};

struct universe {
	const struct c17_inst *in;
	int nkeys;
	int nfrozen;       /* keys [0,nfrozen) are fillers: inserted by the seed, never operated on afterwards */
	struct keydef k[MAXK];
	char label[64];
	int has_temp;       /* seed script with removals: the fillers whose home is temp_home are put first, then all but the last of them removed, then the other fillers put */
	uint32_t temp_home;
};

static uint64_t key_handle(const struct universe *u, int k, int alias_b)
{
	if (u->in->ktype == C17_STRING) {
		return (uint64_t)(uintptr_t)(alias_b ? u->k[k].copy_b : u->k[k].copy_a);
	}
	return u->k[k].num;
}

static void universe_finish_key(struct universe *u, int k)
{
	struct keydef *kd = &u->k[k];
	if (u->in->ktype == C17_STRING) {
		kd->copy_a = strdup(kd->name);
		kd->copy_b = strdup(kd->name);
		if (kd->copy_a == NULL || kd->copy_b == NULL) {
			die("out of memory");
		}
		kd->home = u->in->hash((uint64_t)(uintptr_t)kd->copy_a);
	} else {
		kd->copy_a = kd->copy_b = NULL;
		kd->home = u->in->hash(kd->num);
	}
}

static void universe_free(struct universe *u)
{
	int i;
	for (i = 0; i < u->nkeys; i++) {
		free(u->k[i].copy_a);
		free(u->k[i].copy_b);
		u->k[i].copy_a = u->k[i].copy_b = NULL;
	}
	u->nkeys = 0;
}

/* candidate number j of the brute force search, per key type */
static void candidate(const struct c17_inst *in, uint64_t j, struct keydef *kd)
{
	memset(kd, 0, sizeof(*kd));
	if (in->ktype == C17_STRING) {
		snprintf(kd->name, sizeof(kd->name), "state/%llx", (unsigned long long)j);
	} else if (in->ktype == C17_UINT32) {
		kd->num = (uint32_t)j;
	} else {
		kd->num = j * 0x100000001ULL + 0x5000000000ULL; /* uses the upper half of the key as well */
	}
}

struct homespec {
	uint32_t home;
	int count;
	int frozen;
};

/*
 * Brute force with the REAL hash function: take candidates 1,2,3,... and keep
 * those that fall into a wanted home bucket until every bucket has its count.
 * Frozen (filler) keys come first in the universe.
 */
static void universe_build(struct universe *u, const struct c17_inst *in, const struct homespec *spec, int nspec, const char *label)
{
	int need[16];
	int total = 0, got = 0, pass, i;
	uint64_t j;
	struct keydef found[MAXK];
	int found_spec[MAXK];
	char tmp[32];

	memset(u, 0, sizeof(*u));
	u->in = in;
	snprintf(u->label, sizeof(u->label), "%s", label);
	if (nspec > 16) {
		die("too many home specs");
	}
	for (i = 0; i < nspec; i++) {
		need[i] = spec[i].count;
		total += spec[i].count;
	}
	if (total > MAXK) {
		die("universe too large");
	}
	for (j = 1; got < total; j++) {
		struct keydef kd;
		uint32_t h;
		if (j > 400000000ULL) {
			die("key search exhausted for %s", label);
		}
		candidate(in, j, &kd);
		if (in->ktype == C17_STRING) {
			memcpy(tmp, kd.name, sizeof(tmp) < sizeof(kd.name) ? sizeof(tmp) : sizeof(kd.name));
			tmp[sizeof(tmp) - 1] = 0;
			h = in->hash((uint64_t)(uintptr_t)tmp);
		} else {
			if (kd.num == in->invalid_key) {
				continue;
			}
			h = in->hash(kd.num);
		}
		for (i = 0; i < nspec; i++) {
			if (spec[i].home == h && need[i] > 0) {
				need[i]--;
				found[got] = kd;
				found_spec[got] = i;
				got++;
				break;
			}
		}
	}
	for (pass = 0; pass < 2; pass++) {
		for (i = 0; i < total; i++) {
			int frozen = spec[found_spec[i]].frozen;
			if ((pass == 0) == (frozen != 0)) {
				u->k[u->nkeys] = found[i];
				universe_finish_key(u, u->nkeys);
				if (u->k[u->nkeys].home != spec[found_spec[i]].home) {
					die("hash of key copy differs");
				}
				u->nkeys++;
				if (frozen) {
					u->nfrozen++;
				}
			}
		}
	}
}

/* ------------------------------------------------------------------ operations */

enum { OP_PUT = 0, OP_GET = 1, OP_REMOVE = 2 };

struct op {
	uint8_t kind;
	uint8_t k;
	uint8_t v;        /* put: value 1 or 2 */
	uint8_t alias_b;  /* string tables: pass the second copy of the key content */
	uint8_t want_out; /* put: pass a prev_value pointer; remove: pass a value pointer (cjet passes NULL in places) */
};

static const char *op_name(int kind)
{
	return kind == OP_PUT ? "put" : kind == OP_GET ? "get" : "remove";
}

static void op_format(const struct universe *u, struct op op, char *buf, size_t n)
{
	char kb[48];
	if (u->in->ktype == C17_STRING) {
		snprintf(kb, sizeof(kb), "k%u=\"%s\"@%c", op.k, u->k[op.k].name, op.alias_b ? 'B' : 'A');
	} else {
		snprintf(kb, sizeof(kb), "k%u=%llu", op.k, (unsigned long long)u->k[op.k].num);
	}
	if (op.kind == OP_PUT) {
		snprintf(buf, n, "put(%s, v=%u%s)", kb, op.v, op.want_out ? ", &prev" : ", NULL");
	} else if (op.kind == OP_GET) {
		snprintf(buf, n, "get(%s)", kb);
	} else {
		snprintf(buf, n, "remove(%s%s)", kb, op.want_out ? ", &val" : ", NULL");
	}
}

/* ------------------------------------------------------------------ canonical image */

enum {
	P_NONE = 0,
	P_UNKNOWN_KEY,   /* occupied slot holds a key that is not in the universe */
	P_UNREFERENCED,  /* occupied slot that no hop bit of its home bucket refers to */
	P_HOP_TO_FREE,   /* hop bit refers to a free slot */
	P_HOP_FOREIGN,   /* hop bit refers to a slot whose key hashes to another bucket */
	P_DUPLICATE,     /* a key is stored in two referenced slots */
	P_OVERFLOW       /* more occupied slots than the universe can explain */
};

static const char *prob_name(int p)
{
	switch (p) {
	case P_UNKNOWN_KEY: return "slot-holds-unknown-key";
	case P_UNREFERENCED: return "occupied-slot-without-hop-bit";
	case P_HOP_TO_FREE: return "hop-bit-refers-to-free-slot";
	case P_HOP_FOREIGN: return "hop-bit-refers-to-key-of-other-bucket";
	case P_DUPLICATE: return "key-stored-twice";
	case P_OVERFLOW: return "too-many-occupied-slots";
	default: return "none";
	}
}

struct occ_ent {
	uint16_t slot;
	uint8_t kidx; /* key index, | ALIAS_B when the stored pointer is the second copy; KIDX_UNKNOWN */
	uint8_t val;
};
struct hop_ent {
	uint16_t slot;
	uint16_t zero;
	uint32_t hop;
};

struct img {
	uint16_t nocc, nhop, nfv, zero;
	struct occ_ent occ[MAXOCC];
	struct hop_ent hop[MAXOCC];
	struct occ_ent fv[8]; /* free slots whose value words are not zero (kidx = 0xFF) */
	/* analysis, not part of the canonical bytes */
	uint8_t ref[MAXOCC];  /* number of hop bits of the home bucket referring to occ[i] */
	int prob;             /* first structural problem, P_NONE if consistent */
	uint32_t prob_slot;
	uint32_t prob_bucket;
	int stale_copy;       /* P_UNREFERENCED and the same key is also stored in a referenced slot */
};

#define IMG_MAXBYTES (8 + MAXOCC * 4 + MAXOCC * 8 + 8 * 4)

static size_t img_serialize(const struct img *m, uint8_t *out)
{
	size_t n = 0;
	memcpy(out + n, m, 8);
	n += 8;
	memcpy(out + n, m->occ, (size_t)m->nocc * sizeof(m->occ[0]));
	n += (size_t)m->nocc * sizeof(m->occ[0]);
	memcpy(out + n, m->hop, (size_t)m->nhop * sizeof(m->hop[0]));
	n += (size_t)m->nhop * sizeof(m->hop[0]);
	memcpy(out + n, m->fv, (size_t)m->nfv * sizeof(m->fv[0]));
	n += (size_t)m->nfv * sizeof(m->fv[0]);
	return n;
}

static void img_deserialize(struct img *m, const uint8_t *in)
{
	size_t n = 0;
	memset(m, 0, sizeof(*m));
	memcpy(m, in, 8);
	n += 8;
	memcpy(m->occ, in + n, (size_t)m->nocc * sizeof(m->occ[0]));
	n += (size_t)m->nocc * sizeof(m->occ[0]);
	memcpy(m->hop, in + n, (size_t)m->nhop * sizeof(m->hop[0]));
	n += (size_t)m->nhop * sizeof(m->hop[0]);
	memcpy(m->fv, in + n, (size_t)m->nfv * sizeof(m->fv[0]));
}

static int img_equal(const struct img *a, const struct img *b)
{
	uint8_t ba[IMG_MAXBYTES], bb[IMG_MAXBYTES];
	size_t na = img_serialize(a, ba), nb = img_serialize(b, bb);
	return na == nb && memcmp(ba, bb, na) == 0;
}

static int img_slot_of(const struct img *m, int k)
{
	int i;
	for (i = 0; i < m->nocc; i++) {
		if (m->occ[i].kidx != KIDX_UNKNOWN && (m->occ[i].kidx & 0x7f) == k && m->ref[i] > 0) {
			return m->occ[i].slot;
		}
	}
	return -1;
}

static int img_occ_at(const struct img *m, uint32_t slot)
{
	int i;
	for (i = 0; i < m->nocc; i++) {
		if (m->occ[i].slot == slot) {
			return i;
		}
	}
	return -1;
}

struct ctx {
	struct universe *u;
	void *table;
	uint8_t present[MAXK];
	uint8_t val[MAXK];
	int lenient; /* consequence scenario only: tolerate leaked (unreferenced) slots and judge refusals on live entries */
};

static uint8_t g_slotmap[1u << 16]; /* slot -> index into img.occ, 0xff = none; kept all-0xff between scans */
static int g_slotmap_ready;

/* Reads the whole memory image of the table and checks the structural invariant. */
static void scan(const struct ctx *c, struct img *m)
{
	const struct c17_inst *in = c->u->in;
	const struct universe *u = c->u;
	uint32_t s, mask = in->table_size - 1;
	int i, j;

	if (!g_slotmap_ready) {
		memset(g_slotmap, 0xff, sizeof(g_slotmap));
		g_slotmap_ready = 1;
	}
	memset(m, 0, sizeof(*m));
	for (s = 0; s < in->table_size; s++) {
		uint32_t hop = in->slot_hop(c->table, s);
		uint64_t key = in->slot_key(c->table, s);
		if (key != in->invalid_key) {
			unsigned kidx = KIDX_UNKNOWN;
			if (m->nocc >= MAXOCC) {
				if (m->prob == P_NONE) {
					m->prob = P_OVERFLOW;
					m->prob_slot = s;
				}
				continue;
			}
			for (i = 0; i < u->nkeys; i++) {
				if (in->ktype == C17_STRING) {
					if (key == (uint64_t)(uintptr_t)u->k[i].copy_a) {
						kidx = (unsigned)i;
						break;
					}
					if (key == (uint64_t)(uintptr_t)u->k[i].copy_b) {
						kidx = (unsigned)i | ALIAS_B;
						break;
					}
				} else if (key == u->k[i].num) {
					kidx = (unsigned)i;
					break;
				}
			}
			m->occ[m->nocc].slot = (uint16_t)s;
			m->occ[m->nocc].kidx = (uint8_t)kidx;
			m->occ[m->nocc].val = (uint8_t)in->slot_val(c->table, s);
			g_slotmap[s] = (uint8_t)m->nocc;
			m->nocc++;
		} else {
			unsigned v = in->slot_val(c->table, s);
			if (v != 0 && m->nfv < 8) {
				m->fv[m->nfv].slot = (uint16_t)s;
				m->fv[m->nfv].kidx = 0xff;
				m->fv[m->nfv].val = (uint8_t)v;
				m->nfv++;
			}
		}
		if (hop != 0) {
			if (m->nhop >= MAXOCC) {
				if (m->prob == P_NONE) {
					m->prob = P_OVERFLOW;
					m->prob_slot = s;
				}
				continue;
			}
			m->hop[m->nhop].slot = (uint16_t)s;
			m->hop[m->nhop].hop = hop;
			m->nhop++;
		}
	}
	/* every hop bit must refer to an occupied slot whose key hashes to that bucket */
	for (i = 0; i < m->nhop; i++) {
		uint32_t b = m->hop[i].slot, bits = m->hop[i].hop, d;
		for (d = 0; bits != 0; d++, bits >>= 1) {
			uint32_t t;
			uint8_t oi;
			if ((bits & 1) == 0) {
				continue;
			}
			t = (b + d) & mask;
			oi = g_slotmap[t];
			if (oi == 0xff) {
				if (m->prob == P_NONE) {
					m->prob = P_HOP_TO_FREE;
					m->prob_slot = t;
					m->prob_bucket = b;
				}
			} else if (m->occ[oi].kidx == KIDX_UNKNOWN) {
				if (m->prob == P_NONE) {
					m->prob = P_UNKNOWN_KEY;
					m->prob_slot = t;
					m->prob_bucket = b;
				}
			} else if (u->k[m->occ[oi].kidx & 0x7f].home != b) {
				if (m->prob == P_NONE) {
					m->prob = P_HOP_FOREIGN;
					m->prob_slot = t;
					m->prob_bucket = b;
				}
			} else if (m->ref[oi] < 255) {
				m->ref[oi]++;
			}
		}
	}
	/* every occupied slot must be referred to by exactly one hop bit (of its home bucket) */
	for (i = 0; i < m->nocc; i++) {
		if (m->occ[i].kidx == KIDX_UNKNOWN) {
			if (m->prob == P_NONE) {
				m->prob = P_UNKNOWN_KEY;
				m->prob_slot = m->occ[i].slot;
			}
			continue;
		}
		if (m->ref[i] == 0) {
			int stale = 0;
			for (j = 0; j < m->nocc; j++) {
				if (j != i && m->occ[j].kidx != KIDX_UNKNOWN && ((m->occ[j].kidx ^ m->occ[i].kidx) & 0x7f) == 0 && m->ref[j] > 0) {
					stale = 1;
				}
			}
			if (m->prob == P_NONE || (m->prob == P_UNREFERENCED && stale && !m->stale_copy)) {
				m->prob = P_UNREFERENCED;
				m->prob_slot = m->occ[i].slot;
				m->prob_bucket = u->k[m->occ[i].kidx & 0x7f].home;
				m->stale_copy = stale;
			}
		}
	}
	for (i = 0; i < m->nocc && m->prob == P_NONE; i++) {
		for (j = i + 1; j < m->nocc; j++) {
			if (((m->occ[j].kidx ^ m->occ[i].kidx) & 0x7f) == 0) {
				m->prob = P_DUPLICATE;
				m->prob_slot = m->occ[j].slot;
				break;
			}
		}
	}
	for (i = 0; i < m->nocc; i++) {
		g_slotmap[m->occ[i].slot] = 0xff;
	}
}

/* Writes an image back into a (fresh or used) real table: exact restore of every field the code reads. */
static void img_restore(const struct ctx *c, const struct img *m)
{
	const struct c17_inst *in = c->u->in;
	uint32_t s;
	int i;
	if (in->table_size > 64) {
		die("img_restore is meant for small tables only");
	}
	for (s = 0; s < in->table_size; s++) {
		in->slot_set(c->table, s, 0, in->invalid_key, 0);
	}
	for (i = 0; i < m->nocc; i++) {
		const struct occ_ent *e = &m->occ[i];
		if (e->kidx == KIDX_UNKNOWN) {
			die("restoring an image with an unknown key");
		}
		in->slot_set(c->table, e->slot, 0, key_handle(c->u, e->kidx & 0x7f, (e->kidx & ALIAS_B) != 0), e->val);
	}
	for (i = 0; i < m->nfv; i++) {
		in->slot_set(c->table, m->fv[i].slot, 0, in->invalid_key, m->fv[i].val);
	}
	for (i = 0; i < m->nhop; i++) {
		uint32_t slot = m->hop[i].slot;
		in->slot_set(c->table, slot, m->hop[i].hop, in->slot_key(c->table, slot), in->slot_val(c->table, slot));
	}
}

/* reference map := content of a (consistent) image */
static void ref_from_img(struct ctx *c, const struct img *m)
{
	int i;
	memset(c->present, 0, sizeof(c->present));
	memset(c->val, 0, sizeof(c->val));
	for (i = 0; i < m->nocc; i++) {
		int k = m->occ[i].kidx & 0x7f;
		c->present[k] = 1;
		c->val[k] = m->occ[i].val;
	}
}

static void img_dump(const struct ctx *c, const struct img *m, FILE *f, const char *indent)
{
	int i;
	fprintf(f, "%soccupied slots:", indent);
	for (i = 0; i < m->nocc; i++) {
		if (m->occ[i].kidx == KIDX_UNKNOWN) {
			fprintf(f, " [%u]=?", m->occ[i].slot);
		} else {
			fprintf(f, " [%u]=k%u(home %u,v=%u)%s", m->occ[i].slot, m->occ[i].kidx & 0x7f, c->u->k[m->occ[i].kidx & 0x7f].home, m->occ[i].val,
			        m->ref[i] ? "" : "<-NO-HOP-BIT");
		}
	}
	fprintf(f, "\n%shop bitmaps:", indent);
	for (i = 0; i < m->nhop; i++) {
		fprintf(f, " [%u]=0x%x", m->hop[i].slot, m->hop[i].hop);
	}
	fprintf(f, "\n");
}

/* ------------------------------------------------------------------ the oracle for one transition */

#define NT_DISPLACE 1u
#define NT_WRAP 2u
#define NT_REFUSED 4u

struct outcome {
	int ret;
	unsigned out;       /* value / previous value produced by the call */
	int viol;
	unsigned flags;
	char vclass[96];
	char vmsg[400];
	char expect[96];
	char actual[96];
};

static void set_viol(struct outcome *o, const char *cls, const char *fmt, ...) __attribute__((format(printf, 3, 4)));
static void set_viol(struct outcome *o, const char *cls, const char *fmt, ...)
{
	va_list ap;
	if (o->viol) {
		return; /* keep the first (most specific) one */
	}
	o->viol = 1;
	snprintf(o->vclass, sizeof(o->vclass), "%s", cls);
	va_start(ap, fmt);
	vsnprintf(o->vmsg, sizeof(o->vmsg), fmt, ap);
	va_end(ap);
}

/* distance of the first slot from `home` that holds nothing, judged on an image */
static uint32_t first_free_distance(const struct c17_inst *in, const struct img *m, uint32_t home, int live_only)
{
	uint32_t d;
	for (d = 0; d < in->table_size; d++) {
		int oi = img_occ_at(m, (home + d) & (in->table_size - 1));
		if (oi < 0 || (live_only && m->ref[oi] == 0)) {
			return d;
		}
	}
	return in->table_size;
}

static unsigned long long g_transitions;
static unsigned long long g_displacement_judged;

/* Reference decision for the displacement zone, written from the hopscotch algorithm (Herlihy/Shavit/Tzafrir), on the
 * canonical image only: the free slot found by linear probing is moved towards the home bucket by repeatedly moving an
 * entry of one of the hop_range-1 buckets in front of it (farthest bucket first, its nearest entry first) into the free
 * slot.  Returns 1 when this ends with the free slot inside the home bucket's hop range ("a slot within reach can be
 * freed"), 0 when at some point nothing can be moved. */
static int ref_displacement_succeeds(const struct c17_inst *in, const struct img *m, uint32_t home, uint32_t ffd)
{
	const uint32_t mask = in->table_size - 1;
	struct hop_ent hop[MAXOCC + 4];
	int nhop = m->nhop, i;
	uint32_t freepos = (home + ffd) & mask, dist = ffd;
	memcpy(hop, m->hop, sizeof(hop[0]) * (size_t)nhop);
	while (dist >= in->hop_range) {
		int moved = 0;
		uint32_t cd;
		for (cd = in->hop_range - 1; cd > 0 && !moved; cd--) {
			uint32_t b = (freepos - cd) & mask, bits = 0, k;
			int hi = -1;
			for (i = 0; i < nhop; i++) {
				if (hop[i].slot == b) {
					hi = i;
					bits = hop[i].hop;
				}
			}
			for (k = 0; k < cd; k++) {
				if (bits & (UINT32_C(1) << k)) {
					bits = (bits & ~(UINT32_C(1) << k)) | (UINT32_C(1) << cd);
					hop[hi].hop = bits;
					freepos = (b + k) & mask;
					moved = 1;
					break;
				}
			}
		}
		if (!moved) {
			return 0;
		}
		dist = (freepos - home) & mask;
	}
	return 1;
}

static int live_keys(const struct ctx *c)
{
	int i, live = 0;
	for (i = 0; i < c->u->nkeys; i++) {
		live += c->present[i];
	}
	return live;
}

/*
 * Applies one operation to the REAL code and judges it.  `pre` must be the
 * image of the table before the operation (consistent, equal to the reference
 * map in c).  The reference map is updated.  `post` receives the image after.
 */
static void step(struct ctx *c, struct op op, const struct img *pre, struct img *post, struct outcome *o)
{
	const struct universe *u = c->u;
	const struct c17_inst *in = u->in;
	const int k = op.k;
	const uint32_t home = u->k[k].home;
	uint64_t handle = key_handle(u, k, op.alias_b);
	int was_present = c->present[k];
	unsigned old_val = c->val[k];
	uint32_t reach = in->add_range < in->hop_range ? in->add_range : in->hop_range;
	uint32_t ffd = 0;
	int refused = 0, i;
	char cls[96];

	memset(o, 0, sizeof(*o));
	g_transitions++;

	switch (op.kind) {
	case OP_PUT:
		ffd = first_free_distance(in, pre, home, c->lenient);
		o->ret = in->put(c->table, handle, op.v, op.want_out, &o->out);
		if (was_present) {
			snprintf(o->expect, sizeof(o->expect), "ret=%d(SUCCESS)%s", HASHTABLE_SUCCESS, op.want_out ? " prev=" : "");
			if (op.want_out) {
				snprintf(o->expect + strlen(o->expect), sizeof(o->expect) - strlen(o->expect), "%u", old_val);
			}
		} else if (ffd < reach) {
			snprintf(o->expect, sizeof(o->expect), "ret=%d(SUCCESS)%s [free slot at distance %u]", HASHTABLE_SUCCESS, op.want_out ? " prev=0" : "", ffd);
		} else if (ffd >= in->add_range) {
			snprintf(o->expect, sizeof(o->expect), "ret=0 or %d(FULL) [no free slot within add_range %u]", HASHTABLE_FULL, in->add_range);
		} else {
			snprintf(o->expect, sizeof(o->expect), "ret=0 or %d(FULL) [displacement zone, free at %u]", HASHTABLE_FULL, ffd);
		}
		snprintf(o->actual, sizeof(o->actual), "ret=%d", o->ret);
		if (op.want_out) {
			snprintf(o->actual + strlen(o->actual), sizeof(o->actual) - strlen(o->actual), " prev=%u", o->out);
		}
		if (o->ret == HASHTABLE_SUCCESS) {
			if (op.want_out && o->out != (was_present ? old_val : 0u)) {
				set_viol(o, "put-returns-wrong-previous-value", "put returned previous value %u, reference map has %u", o->out, was_present ? old_val : 0u);
			}
			c->present[k] = 1;
			c->val[k] = op.v;
		} else if (o->ret == HASHTABLE_FULL) {
			refused = 1;
			o->flags |= NT_REFUSED;
			if (was_present) {
				set_viol(o, "put-refused-for-present-key", "overwriting a key that is in the table was refused");
			} else if (ffd < reach && c->lenient) {
				int live = live_keys(c);
				if (live == 0) {
					set_viol(o, "put-refused-with-empty-map-after-leaked-slots",
					         "put refused although the reference map is EMPTY: all %u slots within reach of home bucket %u are occupied by copies leaked by earlier refused puts "
					         "(%u leaked slots in the table)",
					         reach, home, pre->nocc);
				} else if (c->lenient == 1) {
					set_viol(o, "put-refused-although-slot-in-reach-holds-only-a-leaked-copy",
					         "put refused: the slot at distance %u from home bucket %u holds no live entry, only a copy leaked by an earlier refused put (reference map: %d keys, "
					         "occupied slots: %u)",
					         ffd, home, live, pre->nocc);
				}
			} else if (ffd < reach) {
				set_viol(o, "put-refused-with-free-slot-in-reach", "put refused although the slot at distance %u from home bucket %u is free (add_range %u, hop_range %u)", ffd, home,
				         in->add_range, in->hop_range);
			} else if (ffd < in->add_range && !c->lenient && pre->prob == P_NONE) {
				g_displacement_judged++;
				if (ref_displacement_succeeds(in, pre, home, ffd)) {
					set_viol(o, "put-refused-although-displacement-can-free-a-slot",
					         "put refused in the displacement zone (first free slot at distance %u from home bucket %u, hop_range %u, table size %u) although moving entries towards the free slot "
					         "frees a slot within reach of the home bucket",
					         ffd, home, in->hop_range, in->table_size);
				}
			}
		} else {
			set_viol(o, "put-unexpected-return-code", "put returned %d", o->ret);
		}
		break;
	case OP_GET:
		o->ret = in->get(c->table, handle, &o->out);
		if (was_present) {
			snprintf(o->expect, sizeof(o->expect), "ret=%d(SUCCESS) value=%u", HASHTABLE_SUCCESS, old_val);
		} else {
			snprintf(o->expect, sizeof(o->expect), "ret!=0 (not found)");
		}
		snprintf(o->actual, sizeof(o->actual), "ret=%d value=%u%s", o->ret, o->out, o->out == C17_VAL_UNTOUCHED ? "(untouched)" : "");
		if (was_present && (o->ret != HASHTABLE_SUCCESS || o->out != old_val)) {
			set_viol(o, "get-misses-or-wrong-value", "get: ret=%d value=%u, reference map has value %u", o->ret, o->out, old_val);
		} else if (!was_present && o->ret == HASHTABLE_SUCCESS) {
			set_viol(o, "get-finds-absent-key", "get found value %u for a key that is not in the reference map", o->out);
		}
		break;
	default:
		o->ret = in->remove(c->table, handle, op.want_out, &o->out);
		if (was_present) {
			snprintf(o->expect, sizeof(o->expect), "ret=%d(SUCCESS)%s", HASHTABLE_SUCCESS, op.want_out ? " value=" : "");
			if (op.want_out) {
				snprintf(o->expect + strlen(o->expect), sizeof(o->expect) - strlen(o->expect), "%u", old_val);
			}
		} else {
			snprintf(o->expect, sizeof(o->expect), "ret!=0 (not found)");
		}
		snprintf(o->actual, sizeof(o->actual), "ret=%d", o->ret);
		if (op.want_out) {
			snprintf(o->actual + strlen(o->actual), sizeof(o->actual) - strlen(o->actual), " value=%u%s", o->out, o->out == C17_VAL_UNTOUCHED ? "(untouched)" : "");
		}
		if (was_present) {
			if (o->ret != HASHTABLE_SUCCESS || (op.want_out && o->out != old_val)) {
				set_viol(o, "remove-misses-or-wrong-value", "remove: ret=%d value=%u, reference map has value %u", o->ret, o->out, old_val);
			}
			c->present[k] = 0;
			c->val[k] = 0;
		} else if (o->ret == HASHTABLE_SUCCESS) {
			set_viol(o, "remove-finds-absent-key", "remove succeeded for a key that is not in the reference map");
		}
		break;
	}

	scan(c, post);

	/* what was exercised */
	for (i = 0; i < u->nkeys; i++) {
		int a = img_slot_of(pre, i), b = img_slot_of(post, i);
		if (i != k && a >= 0 && b >= 0 && a != b) {
			o->flags |= NT_DISPLACE;
			if ((uint32_t)b < u->k[i].home) {
				o->flags |= NT_WRAP;
			}
		}
	}
	{
		int a = img_slot_of(pre, k), b = img_slot_of(post, k);
		if ((a >= 0 && (uint32_t)a < home) || (b >= 0 && (uint32_t)b < home)) {
			o->flags |= NT_WRAP;
		}
		if (refused && home + (ffd < in->add_range ? ffd : in->add_range) >= in->table_size) {
			o->flags |= NT_WRAP;
		}
	}

	/* structure */
	if (post->prob == P_UNREFERENCED && c->lenient) {
		/* tolerated in the consequence scenario */
	} else if (post->prob != P_NONE) {
		if (post->prob == P_UNREFERENCED && post->stale_copy && refused && (o->flags & NT_DISPLACE)) {
			set_viol(o, "put-refused-after-displacement-leaves-stale-slot",
			         "put returned HASHTABLE_FULL after find_closer_entry had moved an entry: slot %u still holds the moved key (no hop bit refers to it); %u slots occupied for %d live keys",
			         post->prob_slot, post->nocc, live_keys(c));
		} else {
			snprintf(cls, sizeof(cls), "%s-after-%s%s", prob_name(post->prob), op_name(op.kind), refused ? "-refused" : "");
			set_viol(o, cls, "structural invariant broken after %s: %s (slot %u, bucket %u)", op_name(op.kind), prob_name(post->prob), post->prob_slot, post->prob_bucket);
		}
	}

	/* every key of the universe: lookup through the real code agrees with the reference map */
	if (post->prob == P_NONE || in->ktype != C17_STRING || (c->lenient && post->prob == P_UNREFERENCED)) { /* a broken string table may hold wild pointers: do not walk it */
		for (i = 0; i < u->nkeys; i++) {
			unsigned v = 0;
			int r = in->get(c->table, key_handle(u, i, 1), &v);
			int ok = c->present[i] ? (r == HASHTABLE_SUCCESS && v == c->val[i]) : (r != HASHTABLE_SUCCESS);
			if (!ok) {
				if (i == k) {
					snprintf(cls, sizeof(cls), "lookup-after-%s%s-disagrees", op_name(op.kind), refused ? "-refused" : "");
					set_viol(o, cls, "after %s the same key looks up as ret=%d value=%u, reference map: %s value %u", op_name(op.kind), r, v, c->present[i] ? "present" : "absent",
					         c->val[i]);
				} else {
					snprintf(cls, sizeof(cls), "other-key-disturbed-by-%s%s", op_name(op.kind), refused ? "-refused" : "");
					set_viol(o, cls, "%s on k%d changed k%d: lookup ret=%d value=%u, reference map: %s value %u", op_name(op.kind), k, i, r, v, c->present[i] ? "present" : "absent",
					         c->val[i]);
				}
			}
		}
	}

	/* table content as a set equals the reference map */
	if (post->prob == P_NONE) {
		int live = 0;
		for (i = 0; i < u->nkeys; i++) {
			live += c->present[i];
		}
		if (live != post->nocc) {
			snprintf(cls, sizeof(cls), "table-content-differs-from-map-after-%s", op_name(op.kind));
			set_viol(o, cls, "%u slots occupied, reference map holds %d keys", post->nocc, live);
		}
	}

	/* lookups and failed removals do not write */
	if ((op.kind == OP_GET || (op.kind == OP_REMOVE && !was_present)) && !img_equal(pre, post)) {
		snprintf(cls, sizeof(cls), "%s-modifies-table", op.kind == OP_GET ? "get" : "failed-remove");
		set_viol(o, cls, "the memory image of the table changed");
	}
}

/* ------------------------------------------------------------------ replay files */

struct replay {
	int ktype;
	unsigned order, hop;
	int nkeys, nfrozen;
	struct keydef k[MAXK];
	int nops;
	struct op ops[MAXOPS * 8];
	int nseed; /* the first nseed ops are the deterministic seed */
	char expect_key[160];
	int lenient; /* 0 strict; 1 tolerate leaked slots; 2 additionally judge refusals only when the map is empty */
};

#define MAXREPLAYOPS (MAXOPS * 8)

static size_t replay_format_ops(char *buf, size_t n, const struct op *seed, int nseed, const struct op *ops, int nops, const char *vkey)
{
	size_t len = 0;
	int i;
	if (n > 0) {
		buf[0] = 0;
	}
	for (i = 0; i < nseed + nops; i++) {
		struct op op = i < nseed ? seed[i] : ops[i - nseed];
		if (len < n) {
			len += (size_t)snprintf(buf + len, n - len, "%s %s %u %u %c %u\n", i < nseed ? "seed" : "op", op_name(op.kind), op.k, op.v, op.alias_b ? 'B' : 'A', op.want_out);
		}
	}
	if (vkey != NULL && len < n) {
		len += (size_t)snprintf(buf + len, n - len, "expect-violation %s\n", vkey);
	}
	return len;
}

static size_t replay_format(char *buf, size_t n, const struct universe *u, const struct op *seed, int nseed, const struct op *ops, int nops, const char *vkey, const char *note,
                            int lenient)
{
	size_t len = 0;
	int i;
#define RP(...) do { if (len < n) len += (size_t)snprintf(buf + len, n - len, __VA_ARGS__); } while (0)
	RP("# C17 replay: hopscotch hash table operation sequence on the real hashtable.h macros\n");
	if (note != NULL && note[0]) {
		RP("# %s\n", note);
	}
	RP("ktype %s\norder %u\nhop %u\n", u->in->ktype_name, u->in->order, u->in->hop_bits);
	if (lenient) {
		RP("mode %s\n", lenient == 1 ? "tolerate-leaked-slots" : "tolerate-leaked-slots-until-map-empty");
	}
	RP("universe %d frozen %d\n", u->nkeys, u->nfrozen);
	for (i = 0; i < u->nkeys; i++) {
		if (u->in->ktype == C17_STRING) {
			RP("key %d str %s home %u\n", i, u->k[i].name, u->k[i].home);
		} else {
			RP("key %d num %llu home %u\n", i, (unsigned long long)u->k[i].num, u->k[i].home);
		}
	}
	len += replay_format_ops(buf + (len < n ? len : n), len < n ? n - len : 0, seed, nseed, ops, nops, vkey);
#undef RP
	return len;
}

static int replay_parse(const char *text, struct replay *r, char *err, size_t errn)
{
	const char *p = text;
	memset(r, 0, sizeof(*r));
	r->ktype = -1;
	while (*p) {
		char line[256];
		size_t l = strcspn(p, "\n");
		char w[8][64];
		int nw;
		if (l >= sizeof(line)) {
			snprintf(err, errn, "line too long");
			return -1;
		}
		memcpy(line, p, l);
		line[l] = 0;
		p += l + (p[l] == '\n');
		if (line[0] == '#' || line[0] == 0) {
			continue;
		}
		memset(w, 0, sizeof(w));
		nw = sscanf(line, "%63s %63s %63s %63s %63s %63s %63s %63s", w[0], w[1], w[2], w[3], w[4], w[5], w[6], w[7]);
		if (!strcmp(w[0], "ktype") && nw >= 2) {
			r->ktype = !strcmp(w[1], "string") ? C17_STRING : !strcmp(w[1], "uint32") ? C17_UINT32 : !strcmp(w[1], "uint64") ? C17_UINT64 : -1;
		} else if (!strcmp(w[0], "order") && nw >= 2) {
			r->order = (unsigned)atoi(w[1]);
		} else if (!strcmp(w[0], "hop") && nw >= 2) {
			r->hop = (unsigned)atoi(w[1]);
		} else if (!strcmp(w[0], "universe") && nw >= 4) {
			r->nkeys = atoi(w[1]);
			r->nfrozen = atoi(w[3]);
			if (r->nkeys < 1 || r->nkeys > MAXK) {
				snprintf(err, errn, "bad universe size");
				return -1;
			}
		} else if (!strcmp(w[0], "key") && nw >= 4) {
			int i = atoi(w[1]);
			if (i < 0 || i >= r->nkeys) {
				snprintf(err, errn, "bad key index");
				return -1;
			}
			if (!strcmp(w[2], "str")) {
				snprintf(r->k[i].name, sizeof(r->k[i].name), "%.27s", w[3]);
			} else {
				r->k[i].num = strtoull(w[3], NULL, 10);
			}
		} else if ((!strcmp(w[0], "op") || !strcmp(w[0], "seed")) && nw >= 6) {
			struct op op;
			if (r->nops >= MAXREPLAYOPS) {
				snprintf(err, errn, "too many ops");
				return -1;
			}
			op.kind = !strcmp(w[1], "put") ? OP_PUT : !strcmp(w[1], "get") ? OP_GET : OP_REMOVE;
			op.k = (uint8_t)atoi(w[2]);
			op.v = (uint8_t)atoi(w[3]);
			op.alias_b = w[4][0] == 'B';
			op.want_out = (uint8_t)atoi(w[5]);
			if (op.k >= r->nkeys) {
				snprintf(err, errn, "op refers to unknown key");
				return -1;
			}
			if (!strcmp(w[0], "seed")) {
				r->nseed = r->nops + 1;
			}
			r->ops[r->nops++] = op;
		} else if (!strcmp(w[0], "mode") && nw >= 2) {
			r->lenient = !strcmp(w[1], "tolerate-leaked-slots") ? 1 : !strcmp(w[1], "tolerate-leaked-slots-until-map-empty") ? 2 : 0;
		} else if (!strcmp(w[0], "expect-violation") && nw >= 2) {
			snprintf(r->expect_key, sizeof(r->expect_key), "%s", w[1]);
		} else {
			snprintf(err, errn, "cannot parse line: %.150s", line);
			return -1;
		}
	}
	if (r->ktype < 0 || r->nkeys == 0) {
		snprintf(err, errn, "incomplete replay file");
		return -1;
	}
	return 0;
}

static void vkey_format(char *buf, size_t n, const char *vclass, const struct c17_inst *in)
{
	snprintf(buf, n, "%s/hop%u/order%u", vclass, in->hop_bits, in->order);
}

/*
 * Runs a replay on a fresh table with the full oracle.  Returns 0 when every
 * step held, 1 when a step violated the property (key of the first one in
 * vkey_out), 2 on a malformed replay.  With f != NULL prints a transcript.
 */
static int replay_run(const struct replay *r, FILE *f, char *vkey_out, size_t vkey_n)
{
	const struct c17_inst *in = find_inst(r->ktype, r->hop, r->order);
	static struct universe u; /* large; replay_run is not re-entrant */
	struct ctx c;
	struct img pre, post;
	int i, result = 0;

	if (vkey_out != NULL && vkey_n > 0) {
		vkey_out[0] = 0;
	}
	if (in == NULL) {
		if (f) {
			fprintf(f, "no instantiation for this key type / hop width / order in this binary\n");
		}
		return 2;
	}
	memset(&u, 0, sizeof(u));
	u.in = in;
	u.nkeys = r->nkeys;
	u.nfrozen = r->nfrozen;
	for (i = 0; i < r->nkeys; i++) {
		u.k[i] = r->k[i];
		universe_finish_key(&u, i);
	}
	memset(&c, 0, sizeof(c));
	c.u = &u;
	c.lenient = r->lenient;
	c.table = in->create();
	if (c.table == NULL) {
		die("table allocation failed");
	}
	if (f) {
		fprintf(f, "table: %s keys, order %u (%u slots), hop_info %u bits, add_range %u, hop_range %u, value_entries %u\n", in->ktype_name, in->order, in->table_size, in->hop_bits,
		        in->add_range, in->hop_range, in->value_entries);
		for (i = 0; i < u.nkeys; i++) {
			if (in->ktype == C17_STRING) {
				fprintf(f, "  k%d = \"%s\" home bucket %u%s\n", i, u.k[i].name, u.k[i].home, i < u.nfrozen ? " (filler)" : "");
			} else {
				fprintf(f, "  k%d = %llu home bucket %u%s\n", i, (unsigned long long)u.k[i].num, u.k[i].home, i < u.nfrozen ? " (filler)" : "");
			}
		}
	}
	scan(&c, &pre);
	for (i = 0; i < r->nops; i++) {
		struct outcome o;
		char ob[128];
		op_format(&u, r->ops[i], ob, sizeof(ob));
		if (f) {
			fprintf(f, "%s %3d: %-44s ", i < r->nseed ? "seed" : "step", i + 1, ob);
			fflush(f); /* if the real code kills the process, the transcript shows during which operation */
		}
		step(&c, r->ops[i], &pre, &post, &o);
		if (f) {
			fprintf(f, "expected: %-52s actual: %s%s%s%s\n", o.expect, o.actual, (o.flags & NT_DISPLACE) ? " [displacement]" : "", (o.flags & NT_WRAP) ? " [wrap]" : "",
			        (o.flags & NT_REFUSED) ? " [refused]" : "");
		}
		if (o.viol) {
			char vk[200];
			vkey_format(vk, sizeof(vk), o.vclass, in);
			if (f) {
				fprintf(f, "  VIOLATED: %s\n  %s\n  before:\n", vk, o.vmsg);
				img_dump(&c, &pre, f, "    ");
				fprintf(f, "  after:\n");
				img_dump(&c, &post, f, "    ");
			}
			if (result == 0 && vkey_out != NULL) {
				snprintf(vkey_out, vkey_n, "%s", vk);
			}
			result = 1;
			break;
		}
		pre = post;
	}
	if (f && result == 0) {
		fprintf(f, "final state:\n");
		img_dump(&c, &pre, f, "  ");
		fprintf(f, "all %d steps held\n", r->nops);
	}
	in->destroy(c.table);
	universe_free(&u);
	return result;
}

#endif
