#!/bin/sh
# seed_run.sh <seed dir name under /verif/seeded> <property id> [quick|thorough]
# applies the seeded change to /repo, runs the property's check, restores /repo and the evidence file.
# With a 4th argument "scratch" the patch is applied to a scratch worktree of /repo (under /tmp) and the check builds
# from there into a scratch build directory; /repo itself, /verif/build and the evidence are not touched.
S=/verif/seeded/$1; PID=$2; TIER=${3:-quick}
if [ "$4" = scratch ]; then
	WT=/tmp/seedwt.$$; BD=/tmp/seedbuild.$$
	git -C /repo worktree add --detach $WT HEAD >/dev/null 2>&1 || exit 2
	git -C $WT apply "$S/patch.diff" || { echo "patch does not apply"; git -C /repo worktree remove --force $WT; exit 2; }
	cd /verif && VERIF_REPO=$WT VERIF_BUILD=$BD VERIF_EVIDENCE_DIR=$BD/evidence ./check $PID --tier $TIER > $BD.log 2>&1; RC=$?
	grep -E "^VIOLATION|^  key=|^C[0-9]+ (quick|thorough):|HARNESS" $BD.log | head -12
	echo "check exit=$RC (scratch)"
	git -C /repo worktree remove --force $WT; rm -rf $BD $BD.log
	exit $RC
fi
[ -s "$S/patch.diff" ] || { echo "no such seed $1"; exit 2; }
[ -z "$(git -C /repo status --porcelain -- src)" ] || { echo "/repo/src is dirty"; exit 2; }
cp /verif/evidence/$PID.json /tmp/evidence.$PID.$$.json 2>/dev/null
git -C /repo apply "$S/patch.diff" || { echo "patch does not apply to /repo"; exit 2; }
cd /verif && ./check $PID --tier $TIER > /tmp/seedrun.$$.log 2>&1; RC=$?
git -C /repo checkout -- src
[ -f /tmp/evidence.$PID.$$.json ] && mv /tmp/evidence.$PID.$$.json /verif/evidence/$PID.json
grep -E "^VIOLATION|^  key=|^C[0-9]+ (quick|thorough):" /tmp/seedrun.$$.log | head -12
echo "check exit=$RC"
rm -f /tmp/seedrun.$$.log
exit $RC
