#!/bin/sh
# seed_run.sh <seed dir name under /verif/seeded> <property id> [quick|thorough]
# applies the seeded change to /repo, runs the property's check, restores /repo and the evidence file.
S=/verif/seeded/$1; PID=$2; TIER=${3:-quick}
[ -s "$S/patch.diff" ] || { echo "no such seed $1"; exit 2; }
[ -z "$(git -C /repo status --porcelain -- src)" ] || { echo "/repo/src is dirty"; exit 2; }
cp /verif/evidence/$PID.json /tmp/evidence.$PID.$$.json 2>/dev/null
git -C /repo apply "$S/patch.diff" || { echo "patch does not apply to /repo"; exit 2; }
cd /verif && ./check $PID --tier $TIER > /tmp/seedrun.$$.log 2>&1; RC=$?
git -C /repo checkout -- src
[ -f /tmp/evidence.$PID.$$.json ] && mv /tmp/evidence.$PID.$$.json /verif/evidence/$PID.json
grep -E "^VIOLATION|^  key=|^C[0-9]+ (quick|thorough):" /tmp/seedrun.$$.log | head -12
echo "check exit=$RC"
rm -f /tmp/seedrun.$$.log
exit $RC
