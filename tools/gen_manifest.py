#!/usr/bin/env python3
"""Regenerates /verif/MANIFEST.json from /verif/checks.py (claimed checks) and properties.jsonl."""
import json
import os
import sys

VERIF = os.path.dirname(os.path.dirname(os.path.abspath(__file__)))
sys.path.insert(0, VERIF)
import checks  # noqa: E402

props = [json.loads(l)["id"] for l in open(os.path.join(VERIF, "properties.jsonl"))]
m = {
    "version": 1,
    "setup_cmd": "make -s -C /verif -j16 setup",
    "hooks": {
        "guard": "CJET_VERIF",
        "enable": "no source hooks exist: the daemon's objects are compiled unmodified from /repo's working tree and their libc/system-call references are redirected to the simulated kernel with objcopy --redefine-syms (simk/redefine.syms); module harnesses #include or link the real sources",
        "baseline_off_cmd": "cmake --build /repo/_build && ctest --test-dir /repo/_build -j8 --timeout 900",
        "source_commits": [],
        "add_only": True,
    },
    "engines": [
        {"name": "simk", "path": "/verif/simk", "kind_free_text": "stateless model checker of the real daemon: simulated kernel (sockets, epoll ET, timerfd + virtual clock, heap, credential file), cooperative daemon thread, fork-server explorer with deviation-bounded exhaustive enumeration, replay confirmation, twin executions",
         "serves_properties": sorted(p for p, s in checks.CHECKS.items() if any(x["engine"] == "A" for x in s["quick"] + s.get("thorough", [])))},
        {"name": "mod", "path": "/verif/mod", "kind_free_text": "module-level explicit-state / exhaustive bounded enumeration harnesses compiled against the real module sources",
         "serves_properties": sorted(p for p, s in checks.CHECKS.items() if any(x["engine"] == "B" for x in s["quick"] + s.get("thorough", [])))},
    ],
    "checks": [],
    "not_applicable": [],
    "notes": "All checks are bounded exhaustive explorations (model checking family); see DESIGN.md. ./check <ID> --tier quick|thorough; replay with ./check <ID> --replay <file>.",
}
for p in props:
    s = checks.CHECKS.get(p)
    if s is None:
        m["not_applicable"].append({"property_id": p, "reason": checks.NOT_CLAIMED.get(p, "check not built yet in this session; a bounded exhaustive formulation is described in DESIGN.md section 5")})
        continue
    c = {
        "property_id": p,
        "quick_cmd": "./check %s --tier quick" % p,
        "thorough_cmd": "./check %s --tier thorough" % p,
        "evidence_file": "/verif/evidence/%s.json" % p,
        "replay_cmd_template": "./check %s --replay {path}" % p,
        "engine": "simk" if any(x["engine"] == "A" for x in s["quick"]) else "mod",
        "level_claimed": {"category": s.get("level", "model_checking"), "text": s.get("text", ""), "design_ref": "DESIGN.md section 5, %s" % p},
        "level_note": s.get("note", ""),
        "technique": s.get("technique", "stateless model checking of the implementation (exhaustive bounded enumeration of environment choices on a simulated kernel)"),
    }
    m["checks"].append(c)
json.dump(m, open(os.path.join(VERIF, "MANIFEST.json"), "w"), indent=1)
print("MANIFEST: %d checks, %d not claimed" % (len(m["checks"]), len(m["not_applicable"])))
