#!/bin/sh
# seed_verify.sh <worktree> : confirms a seeded change independently:
#   with the patch: builds, the repository's test suite passes, the demonstration fails;
#   without the patch: the demonstration passes.   Prints a summary; exit 0 when all four hold.
WT=$1
P=$WT/seed_out/patch.diff
[ -s "$P" ] || { echo "no patch"; exit 2; }
cd "$WT" || exit 2
git checkout -q -- src && git apply "$P" || { echo "patch does not apply"; exit 2; }
cmake -G Ninja -B _build -S . -DCMAKE_BUILD_TYPE=RelWithDebInfo >/dev/null 2>&1
cmake --build _build -j8 >/dev/null 2>&1 || { echo "BUILD FAILS with patch"; exit 1; }
T=$(ctest --test-dir _build -j8 --timeout 900 2>&1 | grep "tests passed")
echo "tests with patch: $T"
case "$T" in "100% tests passed"*) ;; *) echo "SUITE FAILS with patch"; exit 1;; esac
( cd seed_out/demo && sh ./run.sh ) > seed_out/demo_with.log 2>&1; W=$?
echo "demo with patch: exit $W"
git checkout -q -- src
( cd seed_out/demo && sh ./run.sh ) > seed_out/demo_without.log 2>&1; O=$?
echo "demo without patch: exit $O"
git apply "$P"
[ $W -ne 0 ] && [ $O -eq 0 ] && { echo "SEED CONFIRMED"; exit 0; }
echo "SEED NOT CONFIRMED"; exit 1
