#!/usr/bin/env python3
"""Generate cjet's configured headers (generated/*.h) from the repository's .in
templates for a named build variant.  Usage: genconfig.py <repo> <variant> <outdir>
Writes <outdir>/generated/{cjet_config.h,os_config.h,version.h}; only rewrites a
file when its content changes (keeps make timestamps stable)."""
import os
import re
import sys

DEFAULTS = {
    "CONFIG_JET_PORT": "11122",
    "CONFIG_JETWS_PORT": "11123",
    "CONFIG_LISTEN_BACKLOG": "40",
    "CONFIG_MAX_MESSAGE_SIZE": "512",
    "CONFIG_MAX_WRITE_BUFFER_SIZE": "5120",
    "CONFIG_ELEMENT_TABLE_ORDER": "13",
    "CONFIG_ROUTING_TABLE_ORDER": "6",
    "CONFIG_MAX_EPOLL_EVENTS": "10",
    "CONFIG_UDS_FILE": "/var/run/jet.socket",
    "WEBSOCKET_PATH": "/api/jet/",
    "CONFIG_INITIAL_FETCH_TABLE_SIZE": "4",
    "CONFIG_ROUTED_MESSAGES_TIMEOUT": "5.0",
    "CONFIG_MAX_NUMBERS_OF_MATCHERS_IN_FETCH": "12",
    "CONFIG_ALLOW_ADD_ONLY_FROM_LOCALHOST": "false",
    "CONFIG_MAX_HEAPSIZE_IN_KBYTE": "20480",
    "CJET_VERSION": "verif",
    "CJET_LAST": "",
    "PROJECT_NAME": "cjet",
}

VARIANTS = {
    "def": {},
    "tiny": {
        "CONFIG_ELEMENT_TABLE_ORDER": "3",
        "CONFIG_ROUTING_TABLE_ORDER": "2",
        "CONFIG_INITIAL_FETCH_TABLE_SIZE": "1",
        "CONFIG_MAX_WRITE_BUFFER_SIZE": "96",
        "CONFIG_MAX_EPOLL_EVENTS": "4",
    },
    "cap": {
        "CONFIG_MAX_HEAPSIZE_IN_KBYTE": "96",
        "CONFIG_ELEMENT_TABLE_ORDER": "8",
    },
    "local": {
        "CONFIG_ALLOW_ADD_ONLY_FROM_LOCALHOST": "true",
    },
}


def subst(text, values):
    def rep(m):
        name = m.group(1)
        if name not in values:
            sys.exit("genconfig: template variable %s has no value" % name)
        return values[name]
    return re.sub(r"\$\{([A-Za-z_0-9]+)\}", rep, text)


def main():
    repo, variant, outdir = sys.argv[1:4]
    values = dict(DEFAULTS)
    values.update(VARIANTS[variant])
    gen = os.path.join(outdir, "generated")
    os.makedirs(gen, exist_ok=True)
    for src, dst in (("src/cjet_config.h.in", "cjet_config.h"),
                     ("src/linux/config/os_config.h.in", "os_config.h"),
                     ("src/version.h.in", "version.h")):
        with open(os.path.join(repo, src)) as f:
            out = subst(f.read(), values)
        path = os.path.join(gen, dst)
        old = None
        if os.path.exists(path):
            with open(path) as f:
                old = f.read()
        if old != out:
            with open(path, "w") as f:
                f.write(out)


if __name__ == "__main__":
    main()
