#!/bin/sh
# benign_run.sh <name under /verif/benign, without .diff> [property ids...]
# Applies a property-PRESERVING change of gatzka/cjet to a scratch worktree of /repo and runs the quick checks against it
# (built from the worktree into a scratch build directory).  Every check must stay quiet: exit 0, no VIOLATION line.
# /repo, /verif/build and the evidence are not touched.
N=$1; shift
P=/verif/benign/$N.diff
[ -s "$P" ] || { echo "no such benign change $N"; exit 2; }
IDS=${*:-C01 C02 C03 C04 C05 C06 C07 C08 C09 C10 C11 C12 C13 C14 C15 C16 C17 C18 C19 C20}
WT=/tmp/benignwt.$$; BD=/tmp/benignbuild.$$
git -C /repo worktree add --detach $WT HEAD >/dev/null 2>&1 || exit 2
git -C $WT apply "$P" || { echo "patch does not apply"; git -C /repo worktree remove --force $WT; exit 2; }
BAD=0
for ID in $IDS; do
	cd /verif && VERIF_REPO=$WT VERIF_BUILD=$BD VERIF_EVIDENCE_DIR=$BD/evidence ./check $ID --tier quick > $BD.log 2>&1; RC=$?
	if [ $RC -ne 0 ] || grep -q "^VIOLATION" $BD.log; then
		BAD=$((BAD+1)); echo "ALARM on benign change $N: $ID exit=$RC"; grep -E "^VIOLATION|^  key=|HARNESS" $BD.log | head -8
	else
		echo "quiet: $N $ID ($(grep -E "^C[0-9]+ quick:" $BD.log | cut -d' ' -f3-5))"
	fi
done
git -C /repo worktree remove --force $WT; rm -rf $BD $BD.log
[ $BAD -eq 0 ]
