#!/bin/sh
# seed_regress.sh [seed names...] : for every seeded change (default: all) run, in scratch mode, the quick tier of each check that
# meta.json names under detected_by ("Cxx quick ...") and report whether it still reports a violation.  Prints one line per pair.
cd /verif/seeded || exit 2
SEEDS=${*:-$(ls)}
BAD=0
for S in $SEEDS; do
	[ -f $S/meta.json ] || continue
	for P in $(python3 -c "
import json,re,sys
m=json.load(open('$S/meta.json'))
seen=[]
for d in m['detected_by']:
    r=re.match(r'(C\d\d) quick',d)
    if r and r.group(1) not in seen: seen.append(r.group(1))
print(' '.join(seen))"); do
		/verif/tools/seed_run.sh $S $P quick scratch > /tmp/seedregress.$$ 2>&1; RC=$?
		if [ $RC -eq 1 ]; then echo "caught: $S by $P ($(grep -m1 key= /tmp/seedregress.$$ | sed 's/^ *//'))"; else BAD=$((BAD+1)); echo "MISSED: $S by $P (exit $RC)"; fi
	done
done
rm -f /tmp/seedregress.$$
echo "pairs not caught: $BAD"
[ $BAD -eq 0 ]
