#!/usr/bin/env python3
"""Rewrites DESIGN.md section 16 (passes per property) from checks.py."""
import sys
sys.path.insert(0, '/verif')
import checks

def line(p):
    if p["engine"] == "A":
        par = ", ".join("%s=%s" % kv for kv in sorted(p["params"].items()))
        s = "- simk `%s`/%s%s%s%s" % (p["driver"], p["variant"], " [%s]" % par if par else "", " budget=%d" % p["budget"] if p["budget"] else "", " merged" if p["merge"] else "")
    else:
        s = "- module harness `%s`%s" % (p["mod"], " " + " ".join(p["args"]) if p["args"] else "")
    return s + " — " + p["what"]

out = []
for pid in sorted(checks.CHECKS):
    c = checks.CHECKS[pid]
    out.append("### %s (%s)\n" % (pid, c["level"]))
    for tier in ("quick", "thorough"):
        out.append("*%s*:\n" % tier)
        out += [line(p) for p in c[tier]]
        out.append("")
p = '/verif/DESIGN.md'
s = open(p).read()
start = s.index("### C01 (", s.index("## 16. Passes per property"))
s = s[:start] + "\n".join(out)
open(p, 'w').write(s.rstrip("\n") + "\n")
print("section 16 rewritten:", sum(len(c["quick"]) + len(c["thorough"]) for c in checks.CHECKS.values()), "passes")
