#!/usr/bin/env python3
"""Rewrites the seed table of DESIGN.md section 13 from /verif/seeded/*/meta.json."""
import glob, json, os, re
rows = []
for d in sorted(glob.glob('/verif/seeded/*/meta.json')):
    m = json.load(open(d))
    name = os.path.basename(os.path.dirname(d))
    rows.append("| %s | %s | %s | %s | %s |" % (name, m['change'].replace('|', '/'), m['needs'].replace('|', '/'), "; ".join(m['detected_by']).replace('|', '/'), (m.get('missed_before') or 'no').replace('|', '/')))
table = "| seed | change | needs | caught by (quick tier unless noted) | missed before? what was strengthened |\n|---|---|---|---|---|\n" + "\n".join(rows) + "\n"
p = '/verif/DESIGN.md'
s = open(p).read()
start = s.index("| seed | change")
end = s.index("\nLessons that were turned into machinery")
s = s[:start] + table + s[end:]
open(p, 'w').write(s)
print(len(rows), "seeds")
