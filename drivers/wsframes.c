#include <stdlib.h>
#include <string.h>

#include "wsframes.h"

const char WSF_JSON[] = "{\"id\":\"wsf\",\"method\":\"info\"}";
#define JLEN (sizeof(WSF_JSON) - 1)
#define HALF 14

const uint64_t WSF_LENGTHS[] = {0, 1, 2, 3, 28, 125, 126, 127, 500, 511, 512, 513, 65535, 65536, 0x8000000000000000ULL, 0x7fffffffffffffffULL};
const int WSF_NLENGTHS = (int)(sizeof(WSF_LENGTHS) / sizeof(WSF_LENGTHS[0]));

void wsf_payload_bytes(const struct wsf *f, struct bytebuf *out)
{
	size_t n = f->declared > WSF_MAX_SENT ? WSF_MAX_SENT : (size_t)f->declared;
	uint8_t *p = malloc(n + 1);
	switch (f->payload) {
	case WP_JSON:
		memset(p, ' ', n);
		memcpy(p, WSF_JSON, n < JLEN ? n : JLEN);
		break;
	case WP_JSON_HALF1:
		memset(p, ' ', n);
		memcpy(p, WSF_JSON, n < HALF ? n : HALF);
		break;
	case WP_JSON_HALF2:
		memset(p, ' ', n);
		memcpy(p, WSF_JSON + HALF, n < JLEN - HALF ? n : JLEN - HALF);
		break;
	case WP_CLOSE:
		memset(p, 'a', n);
		if (n >= 1) {
			p[0] = (uint8_t)(f->close_code >> 8);
		}
		if (n >= 2) {
			p[1] = (uint8_t)f->close_code;
		}
		break;
	case WP_BADUTF8:
		for (size_t i = 0; i < n; i++) {
			p[i] = (i & 1) ? 0x80 : 0xC0;
		}
		break;
	default:
		memset(p, 'a', n);
	}
	bb_append(out, p, n);
	free(p);
}

void wsf_build(const struct wsf *f, struct bytebuf *out)
{
	uint8_t h[14];
	size_t n = 0;
	h[n++] = (uint8_t)((f->fin ? 0x80 : 0) | ((f->rsv & 7) << 4) | (f->opcode & 0xf));
	uint8_t m = f->mask ? 0x80 : 0;
	uint64_t len = f->declared;
	if (f->lenenc == 0 && len < 126) {
		h[n++] = (uint8_t)(m | len);
	} else if ((f->lenenc == 0 && len < 65536) || f->lenenc == 1) {
		h[n++] = (uint8_t)(m | 126);
		h[n++] = (uint8_t)(len >> 8);
		h[n++] = (uint8_t)len;
	} else {
		h[n++] = (uint8_t)(m | 127);
		for (int i = 7; i >= 0; i--) {
			h[n++] = (uint8_t)(len >> (8 * i));
		}
	}
	static const uint8_t key[4] = {0xa5, 0x01, 0xfe, 0x3c};
	if (f->mask) {
		memcpy(h + n, key, 4);
		n += 4;
	}
	bb_append(out, h, n);
	struct bytebuf pl = {0};
	wsf_payload_bytes(f, &pl);
	if (f->mask) {
		for (size_t i = 0; i < pl.len; i++) {
			pl.p[i] ^= key[i % 4];
		}
	}
	bb_append(out, pl.p, pl.len);
	bb_free(&pl);
}

void wsf_describe(const struct wsf *f, char *buf, size_t len)
{
	snprintf(buf, len, "%s[op=%x fin=%d rsv=%d mask=%d lenenc=%d len=%llu]", f->name ? f->name : "frame", f->opcode, f->fin, f->rsv, f->mask, f->lenenc, (unsigned long long)f->declared);
}

int wsf_product_size(void)
{
	return 16 * 2 * 8 * 2 * 3 * WSF_NLENGTHS;
}

bool wsf_product(int index, struct wsf *f)
{
	memset(f, 0, sizeof(*f));
	f->opcode = index % 16;
	index /= 16;
	f->fin = index % 2;
	index /= 2;
	f->rsv = index % 8;
	index /= 8;
	f->mask = (index % 2) == 0; /* masked first: the legal form */
	index /= 2;
	f->lenenc = index % 3;
	index /= 3;
	f->declared = WSF_LENGTHS[index % WSF_NLENGTHS];
	f->name = "product";
	f->close_code = 1000;
	f->payload = (f->opcode == 8) ? WP_CLOSE : (f->opcode <= 2 ? WP_JSON : WP_FILL);
	if (f->lenenc == 1 && f->declared > 65535) {
		return false;
	}
	return true;
}

#define F(nm, op, fin, rsv, mask, len, pl, code) {op, fin, rsv, mask, 0, len, pl, code, nm}
const struct wsf WSF_ALPHA[] = {
    F("text", 1, true, 0, true, 28, WP_JSON, 0),
    F("text-first-fragment", 1, false, 0, true, HALF, WP_JSON_HALF1, 0),
    F("continuation-last", 0, true, 0, true, JLEN - HALF, WP_JSON_HALF2, 0),
    F("continuation-more", 0, false, 0, true, 0, WP_JSON_HALF2, 0),
    F("ping", 9, true, 0, true, 5, WP_FILL, 0),
    F("pong", 10, true, 0, true, 3, WP_FILL, 0),
    F("close-1000", 8, true, 0, true, 2, WP_CLOSE, 1000),
    F("binary", 2, true, 0, true, 4, WP_FILL, 0),
    F("binary-first-fragment", 2, false, 0, true, 2, WP_FILL, 0),
    F("ping-not-final", 9, false, 0, true, 1, WP_FILL, 0),
    /* beyond the first ten: used in pairs only */
    F("close-empty", 8, true, 0, true, 0, WP_CLOSE, 0),
    F("close-1-byte", 8, true, 0, true, 1, WP_CLOSE, 1000),
    F("close-code-999", 8, true, 0, true, 2, WP_CLOSE, 999),
    F("close-code-1005", 8, true, 0, true, 2, WP_CLOSE, 1005),
    F("close-reason-bad-utf8", 8, true, 0, true, 6, WP_BADUTF8, 0),
    F("text-rsv1", 1, true, 4, true, 28, WP_JSON, 0),
    F("text-unmasked", 1, true, 0, false, 28, WP_JSON, 0),
    F("ping-126", 9, true, 0, true, 126, WP_FILL, 0),
    F("reserved-opcode-3", 3, true, 0, true, 2, WP_FILL, 0),
    F("reserved-opcode-b", 11, true, 0, true, 2, WP_FILL, 0),
    F("text-bad-utf8", 1, true, 0, true, 4, WP_BADUTF8, 0),
    F("text-empty", 1, true, 0, true, 0, WP_JSON, 0),
    F("continuation-empty-last", 0, true, 0, true, 0, WP_FILL, 0),
    F("text-200", 1, true, 0, true, 200, WP_JSON, 0),
    F("pong-empty", 10, true, 0, true, 0, WP_FILL, 0),
    F("text-first-fragment-empty", 1, false, 0, true, 0, WP_JSON, 0),
};
const int WSF_NALPHA = (int)(sizeof(WSF_ALPHA) / sizeof(WSF_ALPHA[0]));
