/* WebSocket frame space shared by the C06 (memory safety) and C12 (RFC 6455 conformance) drivers. */
#ifndef DRV_WSFRAMES_H
#define DRV_WSFRAMES_H

#include "common.h"

enum wsf_payload { WP_FILL = 0, WP_JSON, WP_CLOSE, WP_BADUTF8, WP_JSON_HALF1, WP_JSON_HALF2 };

struct wsf {
	int opcode;
	bool fin;
	int rsv;
	bool mask;
	int lenenc;        /* 0 minimal, 1 force 16 bit, 2 force 64 bit */
	uint64_t declared; /* payload length written into the header */
	enum wsf_payload payload;
	int close_code;    /* for WP_CLOSE (declared >= 2) */
	const char *name;
};

/* bytes of the frame: header with 'declared', then min(declared, WSF_MAX_SENT) payload bytes */
#define WSF_MAX_SENT 70000
void wsf_build(const struct wsf *f, struct bytebuf *out);
/* the payload bytes (unmasked) the frame carries, at most WSF_MAX_SENT */
void wsf_payload_bytes(const struct wsf *f, struct bytebuf *out);
void wsf_describe(const struct wsf *f, char *buf, size_t len);

extern const uint64_t WSF_LENGTHS[];
extern const int WSF_NLENGTHS;
/* single-frame product: index -> frame; returns false if the combination does not exist (forced 16-bit with a length > 65535) */
int wsf_product_size(void);
bool wsf_product(int index, struct wsf *f);

/* small alphabet for sequences */
extern const struct wsf WSF_ALPHA[];
extern const int WSF_NALPHA;

extern const char WSF_JSON[]; /* the request carried by WP_JSON payloads; id "wsf" */

#endif
