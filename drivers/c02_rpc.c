/* C02 - JSON-RPC discipline: one response per request id, none for notifications, batches as sequences,
 * responses only on the requester's connection.  Exhaustive product method x params-shape x id-form x
 * daemon state x transport, plus incoming response objects and batch pairs (twin: batch vs one-by-one). */
#define _GNU_SOURCE
#include <crypt.h>
#include <stdlib.h>
#include <string.h>

#include "common.h"

static const char *const METHODS[] = {
    "\"method\":\"change\"", "\"method\":\"set\"", "\"method\":\"call\"", "\"method\":\"add\"", "\"method\":\"remove\"",
    "\"method\":\"fetch\"", "\"method\":\"unfetch\"", "\"method\":\"get\"", "\"method\":\"config\"", "\"method\":\"info\"",
    "\"method\":\"authenticate\"", "\"method\":\"passwd\"", "\"method\":\"nosuch\"", "\"method\":5", NULL /* absent */,
};
#define NMETHODS 15

static const char *const PARAMS[] = {
    NULL, /* absent */
    "\"params\":5",
    "\"params\":{}",
    "\"params\":{\"path\":\"rs\",\"value\":1}",
    "\"params\":{\"path\":\"ys\",\"value\":2}",
    "\"params\":{\"path\":\"ym\",\"args\":[1]}",
    "\"params\":{\"path\":\"new\",\"value\":3}",
    "\"params\":{\"path\":\"new\"}",
    "\"params\":{\"path\":5}",
    "\"params\":{\"path\":\"ys\",\"value\":2,\"timeout\":\"x\"}",
    "\"params\":{\"path\":\"ys\",\"value\":2,\"timeout\":0.5,\"bogus\":1}",
    "\"params\":{\"path\":\"ys\",\"path\":\"rs\",\"value\":1,\"value\":2}",
    "\"params\":{\"id\":\"fx\"}",
    "\"params\":{\"id\":\"fx\",\"path\":{\"startsWith\":\"r\"}}",
    "\"params\":{\"id\":5,\"path\":{\"bogus\":\"r\"}}",
    "\"params\":{\"id\":{}}",
    "\"params\":{\"path\":{\"equals\":\"rs\"}}",
    "\"params\":{\"name\":\"nm\"}",
    "\"params\":{\"name\":5}",
    "\"params\":{\"user\":\"u\",\"password\":\"p\"}",
    "\"params\":{\"user\":5,\"password\":\"p\"}",
    "\"params\":{\"user\":\"u\"}",
    "\"params\":[1,2]",
    "\"params\":{\"path\":\"rm\",\"args\":{\"a\":null}}",
    "\"params\":{\"path\":\"ys\"}",
};
#define NPARAMS 25

static const char *const IDS[] = {
    NULL, "7", "\"x\"", "\"\"", "1.5", "-3", "2147483648", "1e10", "null", "true", "{}", "[]",
};
#define NIDS 12

/* reduced alphabet of complete requests for batches (members of a JSON array) */
static const char *const BATCH[] = {
    "{\"id\":\"b1\",\"method\":\"add\",\"params\":{\"path\":\"new\",\"value\":3}}",
    "{\"id\":\"b2\",\"method\":\"change\",\"params\":{\"path\":\"new\",\"value\":4}}",
    "{\"id\":\"b3\",\"method\":\"remove\",\"params\":{\"path\":\"new\"}}",
    "{\"id\":\"b4\",\"method\":\"set\",\"params\":{\"path\":\"ys\",\"value\":9}}",
    "{\"id\":\"b5\",\"method\":\"call\",\"params\":{\"path\":\"ym\",\"args\":[1]}}",
    "{\"id\":\"b6\",\"method\":\"fetch\",\"params\":{\"id\":\"bf\",\"path\":{\"startsWith\":\"n\"}}}",
    "{\"id\":\"b7\",\"method\":\"unfetch\",\"params\":{\"id\":\"bf\"}}",
    "{\"id\":\"b8\",\"method\":\"get\",\"params\":{}}",
    "{\"method\":\"add\",\"params\":{\"path\":\"quiet\",\"value\":1}}",
    "{\"id\":\"b10\",\"method\":\"nosuch\"}",
    "{\"id\":11,\"method\":\"info\"}",
    "{\"id\":\"b12\",\"method\":\"change\",\"params\":{\"path\":\"rs\",\"value\":5}}",
    /* thorough tier continues here */
    "{\"id\":\"b13\",\"method\":\"add\",\"params\":{\"path\":\"rs\",\"value\":1}}",
    "{\"id\":\"b14\",\"method\":\"remove\",\"params\":{\"path\":\"rs\"}}",
    "{\"id\":\"b15\",\"method\":\"config\",\"params\":{\"name\":\"batchpeer\"}}",
    "{\"id\":\"b16\",\"result\":true}",
    "{\"id\":\"b17\",\"method\":\"set\",\"params\":{\"path\":\"rs\",\"value\":7}}",
    "{\"id\":\"b18\"}",
    "{\"method\":\"nosuch\"}",
    "{\"id\":\"b20\",\"method\":\"get\",\"params\":{\"path\":{\"equals\":\"new\"}}}",
    "{\"id\":\"b21\",\"method\":\"add\",\"params\":{\"path\":\"newm\"}}",
    "{\"id\":\"b22\",\"method\":\"call\",\"params\":{\"path\":\"newm\"}}",
    "{\"id\":\"b23\",\"method\":\"fetch\",\"params\":{\"id\":\"bf\"}}",
    "{\"id\":\"b24\",\"method\":\"change\",\"params\":{\"path\":\"ys\",\"value\":1}}",
    "5",
    "\"str\"",
    "[]",
    "null",
};
#define NBATCH_MAX 28

static int R, Y, W;

static void complete_routing(int rounds)
{
	if (xp_param("silent_owner", 0)) {
		/* the owners never answer: every routed request is completed by its deadline on the virtual clock */
		jx_expire_all_timers(8);
		return;
	}
	for (int i = 0; i < rounds; i++) {
		int n = jx_reply_routed(Y, "\"result\":\"ok\"");
		n += jx_reply_routed(R, "\"result\":\"ok\"");
		if (W >= 0) {
			n += jx_reply_routed(W, "\"result\":\"ok\"");
		}
		if (n == 0) {
			break;
		}
		jx_settle();
	}
}

static void setup_state(int state, enum cl_kind rkind)
{
	struct sim_opts o = {0};
	static char pwfile[500];
	if (xp_param("passwd", 0)) {
		/* credential file with the user / password of the alphabet's authenticate and passwd requests: their success paths answer too */
		snprintf(pwfile, sizeof(pwfile), "{\"users\":{\"u\":{\"password\":\"%s\",\"auth\":{\"fetchGroups\":[\"g\"],\"setGroups\":[\"g\"],\"callGroups\":[\"g\"]}}}}", crypt("p", "$1$abcdefgh$"));
		o.passwd_file = pwfile;
	}
	jx_boot(&o);
	R = jx_open(rkind);
	Y = jx_open(CL_RAW);
	W = -1;
	if (xp_param("third", 1) && state != 6) {
		W = jx_open(rkind == CL_WS ? CL_RAW : CL_WS);
	}
	if (state >= 1 && xp_param("passwd", 0)) {
		/* in the populated states the requester is already authenticated: passwd and a repeated authenticate reach their success paths */
		jx_sendf(R, "{\"id\":\"r0\",\"method\":\"authenticate\",\"params\":{\"user\":\"u\",\"password\":\"p\"}}");
		jx_settle();
		if (!jx_is_success(jx_find_response_str(R, "r0", 0))) {
			jx_log_transcripts();
			xp_fail("setup-failed", "scenario preamble: the requester could not authenticate");
		}
	}
	if (state >= 1) {
		jx_sendf(Y, "{\"id\":\"y1\",\"method\":\"add\",\"params\":{\"path\":\"ys\",\"value\":1}}");
		jx_sendf(Y, "{\"id\":\"y2\",\"method\":\"add\",\"params\":{\"path\":\"ym\"}}");
		jx_sendf(Y, "{\"id\":\"y3\",\"method\":\"fetch\",\"params\":{\"id\":\"yf\"}}");
		jx_settle();
		jx_sendf(R, "{\"id\":\"r1\",\"method\":\"add\",\"params\":{\"path\":\"rs\",\"value\":1}}");
		jx_sendf(R, "{\"id\":\"r2\",\"method\":\"add\",\"params\":{\"path\":\"rm\"}}");
		jx_settle();
		if (!jx_is_success(jx_find_response_str(Y, "y1", 0)) || !jx_is_success(jx_find_response_str(Y, "y3", 0)) || !jx_is_success(jx_find_response_str(R, "r1", 0)) || !jx_is_success(jx_find_response_str(R, "r2", 0))) {
			jx_log_transcripts();
			xp_fail("setup-failed", "scenario preamble (add/fetch) was not answered with success");
		}
	}
	if (state == 4) {
		/* the requester already holds fetches under the ids used by the alphabet: 'fetch id in use' and successful unfetch become reachable */
		jx_sendf(R, "{\"id\":\"r3\",\"method\":\"fetch\",\"params\":{\"id\":\"fx\",\"path\":{\"equals\":\"nothing-matches\"}}}");
		jx_sendf(R, "{\"id\":\"r4\",\"method\":\"fetch\",\"params\":{\"id\":5,\"path\":{\"equals\":\"nothing-matches\"}}}");
		jx_settle();
		if (!jx_is_success(jx_find_response_str(R, "r3", 0)) || !jx_is_success(jx_find_response_str(R, "r4", 0))) {
			jx_log_transcripts();
			xp_fail("setup-failed", "scenario preamble (requester's fetches) was not answered with success");
		}
	}
	if (state == 5) {
		/* the other owner has stopped reading and its write buffer is full: everything the daemon wants to send to it fails */
		sim_set_window(Y, 0);
		for (int i = 0; i < 90; i++) {
			jx_sendf(R, "{\"id\":\"fill%d\",\"method\":\"change\",\"params\":{\"path\":\"rs\",\"value\":\"%060d\"}}", i, i);
			if ((i & 7) == 7) {
				jx_settle();
			}
		}
		jx_settle();
	}
	if (state == 6) {
		/* a departed caller's request is still pending at R, which meanwhile owns nothing; the third connection arrived after the caller
		 * left (it may have been given the caller's memory): whatever R now says about that request, nobody else may hear of it */
		int D = jx_open(rkind == CL_WS ? CL_RAW : CL_WS);
		jx_sendf(D, "{\"id\":\"departed\",\"method\":\"call\",\"params\":{\"path\":\"rm\",\"args\":[0],\"timeout\":3}}");
		jx_settle();
		jx_sendf(R, "{\"id\":\"r5\",\"method\":\"remove\",\"params\":{\"path\":\"rm\"}}");
		jx_sendf(R, "{\"id\":\"r6\",\"method\":\"remove\",\"params\":{\"path\":\"rs\"}}");
		jx_settle();
		if (!jx_is_success(jx_find_response_str(R, "r5", 0)) || !jx_is_success(jx_find_response_str(R, "r6", 0))) {
			jx_log_transcripts();
			xp_fail("setup-failed", "scenario preamble (owner removes its elements while a request is pending) was not answered with success");
		}
		sim_client_fin(D);
		jx_settle();
		if (xp_param("third", 1)) {
			W = jx_open(rkind == CL_WS ? CL_RAW : CL_WS);
		}
	}
	if (state == 2) {
		jx_sendf(R, "{\"id\":\"pre\",\"method\":\"call\",\"params\":{\"path\":\"ym\",\"args\":[0]}}");
		jx_settle();
	}
	if (state == 3) {
		jx_sendf(Y, "{\"id\":\"ypre\",\"method\":\"set\",\"params\":{\"path\":\"rs\",\"value\":0}}");
		jx_settle();
	}
	/* mark the pre-existing routed requests as not to be answered by complete_routing() */
	for (int c = 0; c < SIM_MAXCONN; c++) {
		if (clients[c].used) {
			for (int i = 0; i < clients[c].nmsgs; i++) {
				if (clients[c].msgs[i].cls == MC_ROUTED) {
					clients[c].msgs[i].consumed = true;
				}
			}
		}
	}
}

static void check_foreign(int from_y, int from_w, const char *what)
{
	/* nothing that is a response may appear on other connections during the test phase (Y's and W's own requests are all answered in the preamble) */
	int cids[2] = {Y, W};
	int froms[2] = {from_y, from_w};
	for (int k = 0; k < 2; k++) {
		if (cids[k] < 0) {
			continue;
		}
		struct client *c = &clients[cids[k]];
		for (int i = froms[k]; i < c->nmsgs; i++) {
			if (c->msgs[i].cls == MC_RESULT || c->msgs[i].cls == MC_ERROR) {
				const cJSON *id = msg_id(&c->msgs[i]);
				/* the pre-existing request "ypre" of state 3 may legitimately be answered (timeout) on Y */
				if (id != NULL && cJSON_IsString(id) && strcmp(id->valuestring, "ypre") == 0) {
					continue;
				}
				jx_log_transcripts();
				xp_fail("response-on-foreign-connection", "%s: a response object was delivered to a connection that did not send the request: %s", what, c->msgs[i].text);
			}
		}
	}
}

static void run_single(int state)
{
	int mi = xp_choose(NMETHODS, XP_SCENARIO, "method");
	int pi = xp_choose(NPARAMS, XP_SCENARIO, "params");
	int ii = xp_choose(NIDS, XP_SCENARIO, "id");
	struct bytebuf req = {0};
	bb_printf(&req, "{");
	bool first = true;
	if (IDS[ii]) {
		bb_printf(&req, "\"id\":%s", IDS[ii]);
		first = false;
	}
	if (METHODS[mi]) {
		bb_printf(&req, "%s%s", first ? "" : ",", METHODS[mi]);
		first = false;
	}
	if (PARAMS[pi]) {
		bb_printf(&req, "%s%s", first ? "" : ",", PARAMS[pi]);
	}
	bb_printf(&req, "}");
	int from_r = clients[R].nmsgs, from_y = clients[Y].nmsgs, from_w = W >= 0 ? clients[W].nmsgs : 0;
	jx_sendf(R, "%s", (char *)req.p);
	jx_settle();
	complete_routing(3);
	cJSON *id = IDS[ii] ? cJSON_Parse(IDS[ii]) : NULL;
	char what[400];
	snprintf(what, sizeof(what), "state %d, request %s", state, (char *)req.p);
	for (int phase = 0; phase < 2; phase++) {
		if (sim_conn_closed_by_daemon(R)) {
			jx_log_transcripts();
			xp_fail("requester-dropped", "%s: the daemon closed the requester's connection for a well-formed JSON-RPC object", what);
		}
		struct client *c = &clients[R];
		int answers = 0, altered = 0, total_resp = 0;
		for (int i = from_r; i < c->nmsgs; i++) {
			struct cl_msg *m = &c->msgs[i];
			if (m->cls == MC_ROUTED || m->cls == MC_NOTIFY) {
				continue; /* routed requests to R as owner, fetch notifications: not responses */
			}
			const cJSON *rid = msg_id(m);
			if (m->cls == MC_OTHER) {
				jx_log_transcripts();
				xp_fail("malformed-response", "%s: message on the requester's connection is neither a response with exactly one of result/error nor a request: %s", what, m->text);
			}
			total_resp++;
			if (id != NULL && json_equal(rid, id)) {
				answers++;
			} else if (id != NULL && cJSON_IsNumber(id) && rid != NULL && cJSON_IsNumber(rid)) {
				altered++;
			} else if (rid != NULL && cJSON_IsString(rid) && strcmp(rid->valuestring, "pre") == 0) {
				total_resp--; /* state 2: R's earlier request may be answered (timeout) in phase 1 */
			} else {
				jx_log_transcripts();
				xp_fail("unsolicited-response", "%s: response with an id that was never used by the requester: %s", what, m->text);
			}
		}
		bool must_answer = id != NULL && (cJSON_IsString(id) || cJSON_IsNumber(id));
		if (id == NULL && total_resp != 0) {
			jx_log_transcripts();
			xp_fail("notification-answered", "%s: a request without id was answered", what);
		}
		if (must_answer) {
			char key[160];
			if (altered > 0 && answers == 0) {
				snprintf(key, sizeof(key), "response-id-altered:id=%s", IDS[ii]);
				jx_log_transcripts();
				xp_fail(key, "%s: the response carries a different numeric id than the request", what);
			}
			if (answers == 0) {
				snprintf(key, sizeof(key), "no-response:%s:params#%d", METHODS[mi] ? METHODS[mi] : "no-method", pi);
				jx_log_transcripts();
				xp_fail(key, "%s: no response with an equal id", what);
			}
			if (answers > 1) {
				snprintf(key, sizeof(key), "duplicate-response:%s:params#%d", METHODS[mi] ? METHODS[mi] : "no-method", pi);
				jx_log_transcripts();
				xp_fail(key, "%s: %d responses with the request's id", what, answers);
			}
		}
		check_foreign(from_y, from_w, what);
		if (phase == 0) {
			/* let every timer run out: no late duplicate may appear */
			jx_expire_all_timers(8);
		}
	}
	xp_nontrivial();
	xp_outcome(cl_transcript_hash(R));
	xp_outcome(cl_transcript_hash(Y));
	xp_transition();
	xp_state(hash_mix(hash_mix(cl_transcript_hash(R), cl_transcript_hash(Y)), (uint64_t)state));
	if (id) {
		cJSON_Delete(id);
	}
	bb_free(&req);
}

static void run_response_object(int state)
{
	int member = xp_choose(2, XP_SCENARIO, "member");
	int idk = xp_choose(5, XP_SCENARIO, "idkind");
	/* the value of the result / error member: any JSON value makes the object a response */
	static const char *const RVAL[] = {"{\"code\":1,\"message\":\"m\"}", "null", "true", "false", "0", "\"\"", "[]", "{}", "[null]"};
	int rv = xp_choose((int)(sizeof(RVAL) / sizeof(RVAL[0])), XP_SCENARIO, "member-value");
	char idtext[300] = "";
	switch (idk) {
	case 0:
		break;
	case 1:
		snprintf(idtext, sizeof(idtext), "\"id\":\"never-issued\",");
		break;
	case 2:
		snprintf(idtext, sizeof(idtext), "\"id\":7,");
		break;
	case 3:
		snprintf(idtext, sizeof(idtext), "\"id\":null,");
		break;
	case 4: {
		/* id of a live routed request for which R is the owner (state 3), else of a request routed to Y */
		int owner = (state == 3 || state == 6) ? R : Y;
		const char *rid = NULL;
		for (int i = 0; i < clients[owner].nmsgs; i++) {
			if (clients[owner].msgs[i].cls == MC_ROUTED) {
				rid = msg_id(&clients[owner].msgs[i])->valuestring;
			}
		}
		if (rid == NULL) {
			snprintf(idtext, sizeof(idtext), "\"id\":\"x_0_0x0\",");
		} else {
			snprintf(idtext, sizeof(idtext), "\"id\":\"%s\",", rid);
		}
		break;
	}
	}
	int from_r = clients[R].nmsgs, from_y = clients[Y].nmsgs, from_w = W >= 0 ? clients[W].nmsgs : 0;
	jx_sendf(R, "{%s\"%s\":%s}", idtext, member ? "error" : "result", RVAL[rv]);
	jx_settle();
	char what[400];
	snprintf(what, sizeof(what), "state %d, incoming object with member %s = %s and %s", state, member ? "error" : "result", RVAL[rv], idtext[0] ? idtext : "no id");
	if (sim_conn_closed_by_daemon(R)) {
		/* closing the connection is not an answer; the property only forbids answering.  (A response object
		 * without a string id makes the daemon drop the connection; allowed here, judged by C06/C11.) */
		xp_count("response_object_closed_connection", 1);
	}
	for (int i = from_r; i < clients[R].nmsgs; i++) {
		const cJSON *mid = msg_id(&clients[R].msgs[i]);
		if (mid != NULL && cJSON_IsString(mid) && strcmp(mid->valuestring, "pre") == 0) {
			continue; /* final answer of R's own earlier request (state 2), e.g. when R is being dropped: not an answer to the response object */
		}
		if (clients[R].msgs[i].cls == MC_RESULT || clients[R].msgs[i].cls == MC_ERROR || clients[R].msgs[i].cls == MC_OTHER) {
			jx_log_transcripts();
			xp_fail("response-object-answered", "%s: the daemon answered an incoming response object: %s", what, clients[R].msgs[i].text);
		}
	}
	/* a reply relayed to the caller is correct only for the live routed id sent by its owner */
	/* ... or when the daemon dropped R for the malformed object: R was the owner, so the caller gets its final (shutdown) answer */
	bool relay_ok = (state == 3) && ((idk == 4) || sim_conn_closed_by_daemon(R));
	for (int i = from_y; i < clients[Y].nmsgs; i++) {
		struct cl_msg *m = &clients[Y].msgs[i];
		if (m->cls == MC_RESULT || m->cls == MC_ERROR) {
			const cJSON *id = msg_id(m);
			if (relay_ok && id && cJSON_IsString(id) && strcmp(id->valuestring, "ypre") == 0) {
				continue;
			}
			jx_log_transcripts();
			xp_fail("response-on-foreign-connection", "%s: a response object appeared on the bystander: %s", what, m->text);
		}
	}
	(void)from_w;
	xp_nontrivial();
	xp_outcome(cl_transcript_hash(R));
	xp_transition();
	xp_state(hash_mix(cl_transcript_hash(R) ^ 0x55, (uint64_t)state * 31 + (uint64_t)idk * 7 + (uint64_t)member + 1000 * (uint64_t)rv));
}

static void collect(struct bytebuf *t)
{
	for (int c = 0; c < SIM_MAXCONN; c++) {
		if (clients[c].used) {
			bb_printf(t, "== c%d%s\n", c, sim_conn_closed_by_daemon(c) ? " closed" : "");
			cl_normalised_transcript(c, t, 0);
		}
	}
}

static void run_batch(int state, enum cl_kind rkind, int twin)
{
	int nb = (int)xp_param("batch_alpha", 12);
	if (nb > NBATCH_MAX) {
		nb = NBATCH_MAX;
	}
	int a = xp_choose(nb, XP_SCENARIO, "batch[0]");
	int b = xp_choose(nb, XP_SCENARIO, "batch[1]");
	int triple = (int)xp_param("batch_triples", 0);
	int c3 = -1;
	if (triple > 0) {
		c3 = xp_choose(triple + 1, XP_SCENARIO, "batch[2]") - 1;
	}
	setup_state(state, rkind);
	const char *m[3] = {BATCH[a], BATCH[b], c3 >= 0 ? BATCH[c3] : NULL};
	int n = c3 >= 0 ? 3 : 2;
	if (!twin) {
		struct bytebuf req = {0};
		bb_printf(&req, "[");
		for (int i = 0; i < n; i++) {
			bb_printf(&req, "%s%s", i ? "," : "", m[i]);
		}
		bb_printf(&req, "]");
		jx_sendf(R, "%s", (char *)req.p);
		jx_settle();
		bb_free(&req);
	} else {
		for (int i = 0; i < n; i++) {
			if (m[i][0] != '{') {
				/* a non-object member ends the processing of a batch (connection dropped): sent on its own it is the same protocol violation */
				jx_sendf(R, "[%s]", m[i]);
			} else {
				jx_sendf(R, "%s", m[i]);
			}
			jx_settle();
			if (sim_conn_closed_by_daemon(R)) {
				break;
			}
		}
	}
	complete_routing(3);
	jx_expire_all_timers(8);
	struct bytebuf mine = {0}, other = {0};
	collect(&mine);
	if (twin) {
		xp_twin_end(&mine, NULL);
	}
	xp_twin_end(&mine, &other);
	if (mine.len != other.len || memcmp(mine.p, other.p, mine.len) != 0) {
		xp_logf("---- batch execution ----\n%s---- one-by-one execution ----\n%s", (char *)mine.p, (char *)other.p);
		char key[120];
		snprintf(key, sizeof(key), "batch-differs-from-sequence:%d,%d,%d", a, b, c3);
		xp_fail(key, "state %d: batch [%s, %s%s%s] does not behave like its members sent one by one", state, m[0], m[1], m[2] ? ", " : "", m[2] ? m[2] : "");
	}
	xp_nontrivial();
	xp_outcome(hash64(mine.p, mine.len, 3));
	xp_transition();
	xp_state(hash64(mine.p, mine.len, (uint64_t)state + 11));
}

static void run(void)
{
	int nstates = (int)xp_param("states", 4);
	int ntrans = (int)xp_param("transports", 2);
	/* order of exploration: empty, populated, populated + requester holds fetches with the ids the alphabet uses, then the two in-flight states */
	static const int STATE_ORDER[7] = {0, 1, 4, 5, 2, 3, 6};
	if (nstates > 7) {
		nstates = 7;
	}
	int state = STATE_ORDER[xp_choose(nstates, XP_SCENARIO, "state")];
	if (xp_param("only_state", -1) >= 0) {
		if (state != STATE_ORDER[0]) {
			xp_end_run();
		}
		state = (int)xp_param("only_state", -1);
	}
	enum cl_kind rkind = xp_choose(ntrans, XP_SCENARIO, "transport") ? CL_WS : CL_RAW;
	int mode = xp_choose(3, XP_SCENARIO, "mode");
	if (mode == 2) {
		int twin = xp_twin_begin();
		run_batch(state, rkind, twin);
		return;
	}
	setup_state(state, rkind);
	if (mode == 0) {
		run_single(state);
	} else {
		run_response_object(state);
	}
}

const struct driver drv_c02 = {
    .name = "c02",
    .property = "C02",
    .run = run,
    .rule = "daemon states: empty; populated; requester holds fetches; other owner stalled; requester has a request in flight; requester owns an element with a request in flight; requester owns nothing any more but a departed caller's request is still pending at it and a new connection has arrived since; full product daemon-state x transport x {15 method forms} x {25 params shapes} x {12 id forms}, plus incoming result/error objects x 9 values of that member (object, null, booleans, 0, empty string / array / object, [null]) x 5 id kinds, plus all ordered pairs (thorough: triples) of a request alphabet sent as a batch and compared with a twin execution that sends the members one by one; every execution is non-trivial (one request judged by the response ledger); states = distinct normalised (requester, bystander) transcripts",
    .assumptions = "id equality is JSON equality (numbers by value)|ids of type null/bool/object/array are outside the statement: only 'no response on a foreign connection' is checked for them|an incoming response object may make the daemon drop the connection; that is not an answer",
};
