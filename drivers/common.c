#define _GNU_SOURCE
#include <stdlib.h>
#include <string.h>

#include "common.h"

bool jx_ignore_accounted_heap;

const char *variant_name(void)
{
	return SIM_VARIANT;
}

void jx_boot(const struct sim_opts *o)
{
	if (!sim_boot(o)) {
		xp_fail("daemon-start-failed", "cjet main() returned %d during start-up", sim_daemon_exit_code());
	}
}

void jx_settle(void)
{
	sim_settle();
	cl_pump();
}

int jx_open_from(enum cl_kind kind, enum sim_role role, enum sim_origin origin)
{
	int cid = cl_open(kind, role, origin);
	if (kind == CL_WS) {
		sim_client_send(cid, CL_WS_UPGRADE_REQUEST, strlen(CL_WS_UPGRADE_REQUEST));
	}
	jx_settle();
	if (!sim_conn_accepted(cid)) {
		xp_fail("connect-not-accepted", "connection %d was not accepted by the daemon", cid);
	}
	if (kind == CL_WS && clients[cid].http_status != 101) {
		xp_fail("ws-handshake-refused", "valid websocket upgrade answered with status %d: %s", clients[cid].http_status, clients[cid].http_response ? clients[cid].http_response : "(nothing)");
	}
	return cid;
}

int jx_open(enum cl_kind kind)
{
	return jx_open_from(kind, kind == CL_WS ? ROLE_HTTP : ROLE_JET, ORG_DEFAULT);
}

void jx_sendf(int cid, const char *fmt, ...)
{
	char buf[8192];
	va_list ap;
	va_start(ap, fmt);
	vsnprintf(buf, sizeof(buf), fmt, ap);
	va_end(ap);
	if (xp_verbose()) {
		xp_logf("> [c%d] %s", cid, buf);
	}
	cl_send_text(cid, buf);
}

int jx_count_responses(int cid, const cJSON *id, int from)
{
	int n = 0;
	struct client *c = &clients[cid];
	for (int i = from; i < c->nmsgs; i++) {
		struct cl_msg *m = &c->msgs[i];
		if ((m->cls == MC_RESULT || m->cls == MC_ERROR) && json_equal(msg_id(m), id)) {
			n++;
		}
	}
	return n;
}

struct cl_msg *jx_find_response(int cid, const cJSON *id, int from)
{
	struct client *c = &clients[cid];
	for (int i = from; i < c->nmsgs; i++) {
		struct cl_msg *m = &c->msgs[i];
		if ((m->cls == MC_RESULT || m->cls == MC_ERROR) && json_equal(msg_id(m), id)) {
			return m;
		}
	}
	return NULL;
}

struct cl_msg *jx_find_response_num(int cid, int id, int from)
{
	cJSON *j = cJSON_CreateNumber(id);
	struct cl_msg *m = jx_find_response(cid, j, from);
	cJSON_Delete(j);
	return m;
}

struct cl_msg *jx_find_response_str(int cid, const char *id, int from)
{
	cJSON *j = cJSON_CreateString(id);
	struct cl_msg *m = jx_find_response(cid, j, from);
	cJSON_Delete(j);
	return m;
}

int jx_reply_routed(int cid, const char *member_json)
{
	int n = 0;
	struct client *c = &clients[cid];
	for (int i = 0; i < c->nmsgs; i++) {
		struct cl_msg *m = &c->msgs[i];
		if (m->cls == MC_ROUTED && !m->consumed) {
			m->consumed = true;
			const cJSON *id = msg_id(m);
			char *idt = cJSON_PrintUnformatted(id);
			jx_sendf(cid, "{\"id\":%s,%s}", idt, member_json);
			free(idt);
			n++;
		}
	}
	return n;
}

int jx_error_code(const struct cl_msg *m)
{
	if (m == NULL || m->cls != MC_ERROR) {
		return 0;
	}
	const cJSON *e = cJSON_GetObjectItemCaseSensitive(m->json, "error");
	const cJSON *code = e ? cJSON_GetObjectItemCaseSensitive(e, "code") : NULL;
	return (code && cJSON_IsNumber(code)) ? code->valueint : -1;
}

bool jx_is_success(const struct cl_msg *m)
{
	return m != NULL && m->cls == MC_RESULT;
}

void jx_expire_all_timers(int maxrounds)
{
	uint64_t d;
	while (maxrounds-- > 0 && sim_next_deadline(&d)) {
		uint64_t now = sim_now();
		sim_advance(d > now ? d - now : 0);
		jx_settle();
	}
}

void jx_close_all(void)
{
	for (int cid = 0; cid < SIM_MAXCONN; cid++) {
		if (clients[cid].used && sim_conn_accepted(cid) && !sim_conn_client_gone(cid)) {
			sim_client_fin(cid);
		}
	}
	jx_settle();
}

int jx_check_hygiene(const char *keyprefix)
{
	int n = 0;
	for (int i = 0; i < sim_hygiene_count(); i++) {
		char key[200];
		snprintf(key, sizeof(key), "%s%s", keyprefix, sim_hygiene_key(i));
		xp_finding(key, "%s", sim_hygiene_event(i));
		n++;
	}
	return n;
}

int jx_check_idle_baseline(const char *keyprefix)
{
	int n = 0;
	char key[200];
	if (get_number_of_peers() != sim_base.peers) {
		snprintf(key, sizeof(key), "%speers-not-back-at-baseline", keyprefix);
		xp_finding(key, "after all connections are gone the daemon still counts %d peer(s) (idle baseline %d)", get_number_of_peers(), sim_base.peers);
		n++;
	}
	if (sim_armed_timers() != 0) {
		snprintf(key, sizeof(key), "%stimer-still-armed", keyprefix);
		xp_finding(key, "after all connections are gone %d timer(s) are still armed", sim_armed_timers());
		n++;
	}
	if (sim_open_fds() != sim_base.open_fds) {
		char kinds[120];
		sim_open_fd_summary(kinds, sizeof(kinds));
		snprintf(key, sizeof(key), "%sdescriptors-not-back-at-baseline:%s", keyprefix, kinds);
		xp_finding(key, "after all connections are gone %d descriptor(s) are open (idle baseline %d; open kinds: %s)", sim_open_fds(), sim_base.open_fds, kinds);
		n++;
	}
	if (cjet_get_alloc_size() != sim_base.alloc_size && !jx_ignore_accounted_heap) {
		snprintf(key, sizeof(key), "%saccounted-heap-not-back-at-baseline", keyprefix);
		xp_finding(key, "after all connections are gone the accounted heap is %zu bytes (idle baseline %zu)", cjet_get_alloc_size(), sim_base.alloc_size);
		n++;
	}
	if (sim_heap_live() != sim_base.raw_live) {
		snprintf(key, sizeof(key), "%sraw-heap-blocks-not-back-at-baseline", keyprefix);
		xp_finding(key, "after all connections are gone %ld heap blocks are live (idle baseline %ld)", sim_heap_live(), sim_base.raw_live);
		n++;
	}
	return n;
}

int jx_sigterm_and_check(const char *keyprefix)
{
	int n = 0;
	char key[200];
	sim_sigterm();
	jx_settle();
	if (!sim_daemon_exited()) {
		snprintf(key, sizeof(key), "%ssigterm-does-not-stop-daemon", keyprefix);
		xp_finding(key, "after SIGTERM the daemon went quiescent again instead of leaving its event loop");
		return 1;
	}
	if (sim_daemon_exit_code() != 0) {
		snprintf(key, sizeof(key), "%ssigterm-exit-status", keyprefix);
		xp_finding(key, "after SIGTERM main() returned %d", sim_daemon_exit_code());
		n++;
	}
	/* signature of one known shape: connections still in their HTTP handshake (no peer yet) are not reachable by the shutdown sequence */
	int cids[SIM_MAXCONN];
	int nopen = sim_open_conn_cids(cids, SIM_MAXCONN);
	int pending_http = 0;
	for (int i = 0; i < nopen; i++) {
		struct client *c = &clients[cids[i]];
		if (c->used && (c->kind == CL_BYTES || c->kind == CL_WS) && c->http_status == 0) {
			pending_http++;
		}
	}
	if (pending_http > 0 && sim_open_fds() == pending_http && sim_heap_live() == 2L * pending_http && nopen == pending_http) {
		snprintf(key, sizeof(key), "%shttp-connection-before-upgrade-not-released", keyprefix);
		xp_finding(key, "main() returned while %d connection(s) that had not completed their HTTP upgrade were still open (descriptor, http_connection and buffered_socket not released)", pending_http);
		return n + 1;
	}
	if (sim_open_fds() != 0) {
		char kinds[120];
		sim_open_fd_summary(kinds, sizeof(kinds));
		snprintf(key, sizeof(key), "%sdescriptors-open-at-exit:%s", keyprefix, kinds);
		xp_finding(key, "main() returned with %d descriptor(s) still open (%s)", sim_open_fds(), kinds);
		n++;
	}
	if (cjet_get_alloc_size() != 0) {
		snprintf(key, sizeof(key), "%saccounted-heap-at-exit", keyprefix);
		xp_finding(key, "main() returned with %zu bytes still accounted", cjet_get_alloc_size());
		n++;
	}
	if (sim_heap_live() != 0) {
		snprintf(key, sizeof(key), "%sraw-heap-blocks-at-exit", keyprefix);
		xp_finding(key, "main() returned with %ld heap blocks still live", sim_heap_live());
		n++;
	}
	return n;
}

char *jx_msgs_text(int cid, int from)
{
	struct bytebuf b = {0};
	cl_normalised_transcript(cid, &b, from);
	if (b.p == NULL) {
		bb_append(&b, "", 0);
	}
	return (char *)b.p;
}

void jx_log_transcripts(void)
{
	if (!xp_verbose()) {
		return;
	}
	for (int cid = 0; cid < SIM_MAXCONN; cid++) {
		if (clients[cid].used && sim_conn_accepted(cid)) {
			char *t = jx_msgs_text(cid, 0);
			xp_logf("< [c%d]%s%s %d message(s):\n%s", cid, sim_conn_closed_by_daemon(cid) ? " (closed by daemon)" : "", clients[cid].kind == CL_WS ? " ws" : "", clients[cid].nmsgs, t);
			free(t);
		}
	}
}
