/* C20 - password changes are authorised, effective and crash-atomic on disk.
 * section 0 (authorisation and effect): every (caller identity, target account) pair; the reference decides whether the
 *   change is allowed; allowed => success, the new password authenticates, the old one does not, the file holds the new
 *   set; refused => error, the credential file is byte-identical and old passwords still work.
 * section 1 (crash atomicity, fault enumeration): one allowed change with every fault outcome of its file-system calls
 *   (none; ftruncate fails; write fails with ENOSPC / EIO; write accepts only j bytes, for EVERY j) is executed in a twin
 *   process on the simulated file system, which logs the file image after every mutating call; for EVERY crash point
 *   (image index) the primary process boots a fresh daemon on that image: it must load, and the loaded set must
 *   authenticate exactly like the old set or exactly like the new set; an acknowledged change must be on disk at the end. */
#define _GNU_SOURCE
#include <crypt.h>
#include <errno.h>
#include <stdlib.h>
#include <string.h>

#include "common.h"

static char what[400];
static void fail20(const char *key, const char *fmt, ...) __attribute__((noreturn, format(printf, 2, 3)));
static void fail20(const char *key, const char *fmt, ...)
{
	char m[1500];
	va_list ap;
	va_start(ap, fmt);
	vsnprintf(m, sizeof(m), fmt, ap);
	va_end(ap);
	jx_log_transcripts();
	xp_fail(key, "%s: %s", what, m);
}

struct acct {
	const char *name, *pw;
	bool admin, readonly;
};
static const struct acct ACCTS[] = {
    {"john", "Winter-2025-john!", false, false}, {"bob", "Winter-2025-bob!!", false, false}, {"john-ro", "Winter-2025-ro!!!", false, true}, {"adm", "Winter-2025-adm!!", true, false},
    {"jo", "Winter-2025-jo!!!", false, false}, {"john-x", "Winter-2025-jx!!!", false, false}, {"adm-ro", "Winter-2025-aro!!", true, true},
};
#define NACCTS ((int)(sizeof(ACCTS) / sizeof(ACCTS[0])))
/* new passwords differ from the old one only in the LAST character: a re-hash that looks at a prefix only (DES: 8 characters)
 * would let the old password pass as well */
static char NEWPW[40] = "Winter-2025-john?";
static void set_newpw_for(const char *oldpw)
{
	snprintf(NEWPW, sizeof(NEWPW), "%s", oldpw);
	size_t l = strlen(NEWPW);
	NEWPW[l - 1] = NEWPW[l - 1] == '?' ? '#' : '?';
}

static char *make_file(int nusers, int salt_seed)
{
	struct bytebuf b = {0};
	bb_printf(&b, "{\n\t\"users\": {\n");
	for (int i = 0; i < nusers; i++) {
		char salt[40];
		snprintf(salt, sizeof(salt), "$1$s%dalt%03d$", salt_seed, i);
		bb_printf(&b, "\t\t\"%s\": {\n\t\t\t\"password\": \"%s\",\n%s%s\t\t\t\"auth\": {\n\t\t\t\t\"fetchGroups\": [\"g\"],\n\t\t\t\t\"setGroups\": [\"g\"],\n\t\t\t\t\"callGroups\": [\"g\"]\n\t\t\t}\n\t\t}%s\n", ACCTS[i].name,
		          crypt(ACCTS[i].pw, salt), ACCTS[i].admin ? "\t\t\t\"admin\": true,\n" : "", ACCTS[i].readonly ? "\t\t\t\"readonly\": true,\n" : "", i + 1 < nusers ? "," : "");
	}
	bb_printf(&b, "\t}\n}\n");
	bb_append(&b, "", 1);
	return (char *)b.p;
}

/* does (user, password) authenticate in the running daemon?  (one probe connection is reused: the simulated kernel has 16 connection slots) */
static int login_conn = -1, login_seq;
static bool can_login(const char *user, const char *pw)
{
	if (login_conn < 0 || sim_conn_closed_by_daemon(login_conn)) {
		login_conn = jx_open(CL_RAW);
	}
	char id[16];
	snprintf(id, sizeof(id), "l%d", ++login_seq);
	int from = clients[login_conn].nmsgs;
	jx_sendf(login_conn, "{\"id\":\"%s\",\"method\":\"authenticate\",\"params\":{\"user\":\"%s\",\"password\":\"%s\"}}", id, user, pw);
	jx_settle();
	return jx_is_success(jx_find_response_str(login_conn, id, from));
}

/* ---------------------------------------------------------------- section 0: authorisation matrix */
enum caller { CA_NOBODY = 0, CA_JOHN, CA_ADM, CA_RO, CA_JOHN_THEN_FAILED, CA_JO, CA_ADMRO, CA_BOB_THEN_JOHN, NCALLERS };
static const char *const CAN[] = {"unauthenticated", "john", "adm (admin)", "john-ro (read-only)", "john, then a failed authentication as bob", "jo (name is a prefix of john)", "adm-ro (admin, read-only)", "bob, then re-authenticated as john"};
static const char *const TARGETS[] = {"john", "bob", "john-ro", "adm", "jo", "john-x", "adm-ro", "nobody-there", ""};
#define NTARGETS ((int)(sizeof(TARGETS) / sizeof(TARGETS[0])))

static int acct_index(const char *name)
{
	for (int i = 0; i < NACCTS; i++) {
		if (strcmp(ACCTS[i].name, name) == 0) {
			return i;
		}
	}
	return -1;
}

static void run_matrix(void)
{
	int ca = xp_choose(NCALLERS, XP_SCENARIO, "caller");
	int ti = xp_choose(NTARGETS, XP_SCENARIO, "target");
	int tr = xp_choose(2, XP_SCENARIO, "transport");
	int second = xp_choose(2, XP_SCENARIO, "then-second-change"); /* afterwards the admin changes the same account again: changes compose */
	snprintf(what, sizeof(what), "caller %s changes the password of '%s' (%s)", CAN[ca], TARGETS[ti], tr ? "websocket" : "raw");
	char *file = make_file(NACCTS, 1);
	struct sim_opts o = {0};
	o.passwd_file = file;
	jx_boot(&o);
	int P = jx_open(tr ? CL_WS : CL_RAW);
	const char *caller_name = NULL;
	switch (ca) {
	case CA_JOHN:
	case CA_JOHN_THEN_FAILED:
		caller_name = "john";
		break;
	case CA_ADM:
		caller_name = "adm";
		break;
	case CA_RO:
		caller_name = "john-ro";
		break;
	case CA_JO:
		caller_name = "jo";
		break;
	case CA_ADMRO:
		caller_name = "adm-ro";
		break;
	case CA_BOB_THEN_JOHN:
		caller_name = "john";
		jx_sendf(P, "{\"id\":\"a0\",\"method\":\"authenticate\",\"params\":{\"user\":\"bob\",\"password\":\"%s\"}}", ACCTS[1].pw);
		jx_settle();
		break;
	default:
		break;
	}
	if (caller_name != NULL) {
		jx_sendf(P, "{\"id\":\"a1\",\"method\":\"authenticate\",\"params\":{\"user\":\"%s\",\"password\":\"%s\"}}", caller_name, ACCTS[acct_index(caller_name)].pw);
		jx_settle();
		if (!jx_is_success(jx_find_response_str(P, "a1", 0))) {
			fail20("setup-failed", "the caller could not authenticate");
		}
	}
	if (ca == CA_JOHN_THEN_FAILED) {
		jx_sendf(P, "{\"id\":\"a2\",\"method\":\"authenticate\",\"params\":{\"user\":\"bob\",\"password\":\"wrong\"}}");
		jx_settle();
	}
	int tidx = acct_index(TARGETS[ti]);
	if (tidx >= 0) {
		set_newpw_for(ACCTS[tidx].pw);
	}
	bool allowed = caller_name != NULL && tidx >= 0 && !ACCTS[tidx].readonly && (strcmp(caller_name, TARGETS[ti]) == 0 || ACCTS[acct_index(caller_name)].admin);
	struct bytebuf before = {0};
	bb_append(&before, sim_fs_content()->p, sim_fs_content()->len);
	jx_sendf(P, "{\"id\":\"pw\",\"method\":\"passwd\",\"params\":{\"user\":\"%s\",\"password\":\"%s\"}}", TARGETS[ti], NEWPW);
	jx_settle();
	struct cl_msg *r = jx_find_response_str(P, "pw", 0);
	if (r == NULL) {
		fail20("passwd-not-answered", "no response");
	}
	bool ok = jx_is_success(r);
	if (ok && !allowed) {
		char key[160];
		snprintf(key, sizeof(key), "unauthorised-change-accepted:%s", caller_name == NULL ? "unauthenticated" : tidx < 0 ? "unknown-target" : ACCTS[tidx].readonly ? "read-only-target" : "foreign-account");
		fail20(key, "the change was carried out although it is not authorised");
	}
	if (!ok && allowed) {
		fail20("authorised-change-refused", "an authorised change was refused: %s", r->text);
	}
	bool same_file = before.len == sim_fs_content()->len && memcmp(before.p, sim_fs_content()->p, before.len) == 0;
	if (!ok && !same_file) {
		fail20("refused-change-modified-file", "the request was refused but the credential file changed");
	}
	if (ok && same_file) {
		fail20("accepted-change-not-written", "the request was accepted but the credential file is unchanged");
	}
	/* effect in the running daemon */
	for (int i = 0; i < NACCTS; i++) {
		bool is_target = ok && i == tidx;
		bool old_works = can_login(ACCTS[i].name, ACCTS[i].pw);
		bool new_works = can_login(ACCTS[i].name, NEWPW);
		if (is_target && (!new_works || old_works)) {
			fail20("change-not-effective", "after the accepted change of '%s': new password %s, old password %s", ACCTS[i].name, new_works ? "works" : "does NOT work", old_works ? "STILL works" : "does not work");
		}
		if (!is_target && (!old_works || new_works)) {
			char key[120];
			snprintf(key, sizeof(key), "other-account-affected:%s", ok ? "by-accepted-change" : "by-refused-change");
			fail20(key, "account '%s' was not the target of an accepted change, but its old password %s and the new one %s", ACCTS[i].name, old_works ? "works" : "does NOT work", new_works ? "WORKS" : "does not work");
		}
	}
	/* the file on disk, loaded by a fresh process, says the same (checked in section 1 for every crash point; here: final image parses and contains every user) */
	const struct bytebuf *img = sim_fs_content();
	cJSON *j = cJSON_ParseWithLength((const char *)img->p, img->len);
	const cJSON *users = j ? cJSON_GetObjectItemCaseSensitive(j, "users") : NULL;
	if (users == NULL || cJSON_GetArraySize(users) != NACCTS) {
		fail20("final-file-damaged", "after the request the credential file does not hold the %d accounts any more", NACCTS);
	}
	cJSON_Delete(j);
	if (second && ok) {
		int A = jx_open(CL_RAW);
		jx_sendf(A, "{\"id\":\"a\",\"method\":\"authenticate\",\"params\":{\"user\":\"adm\",\"password\":\"%s\"}}", tidx == 3 ? NEWPW : ACCTS[3].pw);
		char second_pw[40];
		snprintf(second_pw, sizeof(second_pw), "%s", NEWPW);
		second_pw[strlen(second_pw) - 1] = '%';
		jx_sendf(A, "{\"id\":\"p2\",\"method\":\"passwd\",\"params\":{\"user\":\"%s\",\"password\":\"%s\"}}", TARGETS[ti], second_pw);
		jx_settle();
		if (!jx_is_success(jx_find_response_str(A, "p2", 0))) {
			fail20("second-change-refused", "the admin could not change the same account again");
		}
		if (!can_login(TARGETS[ti], second_pw) || can_login(TARGETS[ti], NEWPW) || can_login(TARGETS[ti], ACCTS[tidx].pw)) {
			fail20("change-not-effective", "after a second change the newest password does not work or one of the two previous ones still does");
		}
	}
	if (sim_syslog_contains(NEWPW) || sim_syslog_contains("Winter-2025")) {
		fail20("password-in-log", "a new password occurs in a log line");
	}
	jx_check_hygiene("hygiene:");
	xp_count(ok ? "changes_accepted" : "changes_refused", 1);
	xp_nontrivial();
	xp_transition();
	xp_outcome((uint64_t)ok);
	xp_state(hash_mix((uint64_t)ca * 100 + (uint64_t)ti, (uint64_t)tr * 2 + (uint64_t)second));
}

/* ---------------------------------------------------------------- section 1: crash points and fault outcomes */
enum ffault { FF_NONE = 0, FF_FTRUNCATE_FAILS, FF_WRITE_ENOSPC, FF_WRITE_EIO, FF_SHORT_WRITE, NFF };
static const char *const FFN[] = {"no fault", "ftruncate fails", "write fails with ENOSPC", "write fails with EIO", "short write"};

static void run_crash(void)
{
	int nusers = (int)xp_param("users", 1) > NACCTS ? NACCTS : (int)xp_param("users", 1);
	int salt_seed = (int)xp_param("salt", 1);
	int by_admin = nusers >= 4 ? xp_choose(2, XP_SCENARIO, "changed-by") : 0; /* 0: john changes his own password, 1: the admin changes john's */
	int ff = xp_choose(NFF, XP_SCENARIO, "fault");
	int shortk = 0;
	if (ff == FF_SHORT_WRITE) {
		shortk = 1 + xp_choose((int)xp_param("maxshort", 700), XP_SCENARIO, "bytes-accepted");
	}
	int crash = xp_choose(8, XP_SCENARIO, "crash-point"); /* index into the list of file images: 0 = before the change, i = after the i-th mutating call; the last = final state */
	char *file = make_file(nusers, salt_seed);
	snprintf(what, sizeof(what), "%s changes john's password, %s%s, crash after mutating call #%d (file with %d user(s), salt seed %d)", by_admin ? "the admin" : "john", FFN[ff], "", crash, nusers, salt_seed);
	int twin = xp_twin_begin();
	if (twin) {
		/* the twin performs the change and reports: acknowledged?, number of images, image #crash */
		struct sim_opts o = {0};
		o.passwd_file = file;
		sim_seed_random((uint64_t)salt_seed);
		jx_boot(&o);
		int P = jx_open(CL_RAW);
		const char *cn = by_admin ? "adm" : "john";
		jx_sendf(P, "{\"id\":\"a1\",\"method\":\"authenticate\",\"params\":{\"user\":\"%s\",\"password\":\"%s\"}}", cn, ACCTS[acct_index(cn)].pw);
		jx_settle();
		sim_fs_clear_snapshots();
		switch (ff) {
		case FF_FTRUNCATE_FAILS:
			sim_fail_next("ftruncate", EIO, -1);
			break;
		case FF_WRITE_ENOSPC:
			sim_fs_write_policy(-1, ENOSPC);
			break;
		case FF_WRITE_EIO:
			sim_fs_write_policy(-1, EIO);
			break;
		case FF_SHORT_WRITE:
			sim_fs_write_policy(shortk, 0);
			break;
		default:
			break;
		}
		jx_sendf(P, "{\"id\":\"pw\",\"method\":\"passwd\",\"params\":{\"user\":\"john\",\"password\":\"%s\"}}", NEWPW);
		jx_settle();
		struct cl_msg *r = jx_find_response_str(P, "pw", 0);
		int acked = r == NULL ? 2 : jx_is_success(r) ? 1 : 0;
		/* in the running daemon: what authenticates now? */
		bool old_works = can_login("john", ACCTS[0].pw), new_works = can_login("john", NEWPW);
		struct bytebuf t = {0};
		int n = sim_fs_snapshots();
		bb_printf(&t, "%d %d %d %d\n", acked, n, old_works, new_works);
		if (crash == 0) {
			bb_append(&t, file, strlen(file));
		} else if (crash <= n) {
			const struct sim_fs_snapshot *s = sim_fs_snapshot(crash - 1);
			bb_printf(&t, "%s\n", s->after);
			bb_append(&t, s->data, s->len);
		}
		xp_twin_end(&t, NULL);
	}
	struct bytebuf empty = {0}, got = {0};
	xp_twin_end(&empty, &got);
	bb_append(&got, "", 1);
	int acked = 0, nimg = 0, run_old = 0, run_new = 0;
	sscanf((char *)got.p, "%d %d %d %d", &acked, &nimg, &run_old, &run_new);
	char *image = strchr((char *)got.p, '\n');
	if (image == NULL) {
		xp_harness_error("twin transcript malformed");
	}
	image++;
	if (ff == FF_SHORT_WRITE && (size_t)shortk >= strlen(file) + 40) {
		xp_end_run(); /* more bytes than the file has: the write is not short (same as 'no fault') */
	}
	if (crash > nimg) {
		xp_end_run(); /* this change performed fewer mutating calls */
	}
	const char *after = "start";
	char afterbuf[40];
	if (crash > 0) {
		char *nl = strchr(image, '\n');
		if (nl == NULL) {
			xp_harness_error("twin transcript malformed (no call name)");
		}
		snprintf(afterbuf, sizeof(afterbuf), "%.*s", (int)(nl - image), image);
		after = afterbuf;
		image = nl + 1;
	}
	bool final = crash == nimg;
	snprintf(what, sizeof(what), "%s changes john's password, %s%s, crash point #%d of %d (after %s); file with %d user(s), salt seed %d", by_admin ? "the admin" : "john", FFN[ff], ff == FF_SHORT_WRITE ? " (first write accepts fewer bytes than offered)" : "", crash, nimg, after, nusers, salt_seed);
	if (ff == FF_SHORT_WRITE) {
		snprintf(what + strlen(what), sizeof(what) - strlen(what), ", %d bytes accepted", shortk);
	}
	char fclass[40];
	snprintf(fclass, sizeof(fclass), "%s", ff == FF_NONE ? "no-fault" : ff == FF_FTRUNCATE_FAILS ? "ftruncate-fails" : ff == FF_SHORT_WRITE ? "short-write" : "write-error");
	/* consistency of the running daemon with its answer (judged once, at the final crash point) */
	if (final) {
		if (acked == 1 && (!run_new || run_old)) {
			fail20("acknowledged-change-not-effective", "the daemon acknowledged the change but in the running daemon new password works=%d, old password works=%d", run_new, run_old);
		}
		if (acked == 0 && (run_new || !run_old)) {
			char key[120];
			snprintf(key, sizeof(key), "refused-change-took-effect-in-memory:%s", fclass);
			fail20(key, "the daemon answered the change with an error but in the running daemon new password works=%d, old password works=%d", run_new, run_old);
		}
		if (acked == 2) {
			fail20("passwd-not-answered", "the passwd request got no response");
		}
	}
	/* boot a fresh daemon on the file image of this crash point */
	struct sim_opts o = {0};
	o.passwd_file = image;
	char key[200];
	if (!sim_boot(&o)) {
		snprintf(key, sizeof(key), "file-not-loadable:%s:after-%s%s", fclass, after, final ? ":final" : "");
		fail20(key, "a daemon started on the file image at this point cannot load it (%zu bytes): the file holds neither the old nor the new credential set", strlen(image));
	}
	bool old_ok = can_login("john", ACCTS[0].pw), new_ok = can_login("john", NEWPW);
	if (old_ok == new_ok) {
		snprintf(key, sizeof(key), "file-neither-old-nor-new:%s:after-%s%s", fclass, after, final ? ":final" : "");
		fail20(key, "the file image loads, but john's old password works=%d and the new one works=%d", old_ok, new_ok);
	}
	for (int i = 1; i < nusers; i++) {
		if (!can_login(ACCTS[i].name, ACCTS[i].pw)) {
			snprintf(key, sizeof(key), "file-lost-other-account:%s:after-%s", fclass, after);
			fail20(key, "the file image loads, but account '%s' no longer authenticates", ACCTS[i].name);
		}
	}
	if (final && acked == 1 && !new_ok) {
		snprintf(key, sizeof(key), "acknowledged-change-not-on-disk:%s", fclass);
		fail20(key, "the change was acknowledged but the file at the end still holds the old password");
	}
	if (final && acked == 0 && !old_ok) {
		snprintf(key, sizeof(key), "refused-change-on-disk:%s", fclass);
		fail20(key, "the change was answered with an error but the file at the end holds the new password");
	}
	xp_count(new_ok ? "image_holds_new_set" : "image_holds_old_set", 1);
	xp_nontrivial();
	xp_transition();
	xp_outcome(hash_mix((uint64_t)new_ok, (uint64_t)acked));
	xp_state(hash_mix((uint64_t)ff * 100000 + (uint64_t)shortk * 10 + (uint64_t)crash, (uint64_t)by_admin + 2 * (uint64_t)nusers + 64 * (uint64_t)salt_seed));
}


/* ---- section 2: histories of two changes in one daemon run ---------------------------------------------------------
 * The first change meets a fault (ftruncate fails; write fails at once; write accepts k bytes and the next write fails;
 * write accepts k bytes and the rest later), the second one - to a third password - meets none.  What the first change
 * left behind (file offset, truncated file, half-written text, in-memory set) must not damage the second: at the end the
 * file must load in a fresh daemon and hold exactly the set that the two answers describe. */
enum hfault { HF_NONE = 0, HF_FTRUNCATE_FAILS, HF_WRITE_ENOSPC, HF_SHORT_THEN_ENOSPC, HF_SHORT_THEN_REST, NHF };
static const char *const HFN[] = {"no fault", "ftruncate fails", "write fails with ENOSPC", "write accepts k bytes, the next write fails with ENOSPC", "write accepts k bytes, the rest with the next write"};

static void run_history(void)
{
	int nusers = (int)xp_param("users", 1) > NACCTS ? NACCTS : (int)xp_param("users", 1);
	int salt_seed = (int)xp_param("salt", 1);
	int hf = xp_choose(NHF, XP_SCENARIO, "fault-of-the-first-change");
	int shortk = 0;
	if (hf == HF_SHORT_THEN_ENOSPC || hf == HF_SHORT_THEN_REST) {
		shortk = 1 + xp_choose((int)xp_param("maxshort", 700), XP_SCENARIO, "bytes-accepted");
	}
	int second_by = nusers >= 4 ? xp_choose(2, XP_SCENARIO, "second-change-by") : 0; /* 0: john himself, 1: the admin */
	char *file = make_file(nusers, salt_seed);
	if (shortk > 0 && (size_t)shortk >= strlen(file) + 40) {
		xp_end_run();
	}
	static char THIRDPW[40];
	snprintf(THIRDPW, sizeof(THIRDPW), "%s", ACCTS[0].pw);
	THIRDPW[strlen(THIRDPW) - 1] = '%';
	snprintf(what, sizeof(what), "john changes his password, %s%s; then %s changes it again without any fault (file with %d user(s), salt seed %d)", HFN[hf], "", second_by ? "the admin" : "john", nusers, salt_seed);
	if (shortk) {
		snprintf(what + strlen(what), sizeof(what) - strlen(what), ", k = %d", shortk);
	}
	int twin = xp_twin_begin();
	if (twin) {
		struct sim_opts o = {0};
		o.passwd_file = file;
		sim_seed_random((uint64_t)salt_seed);
		jx_boot(&o);
		int P = jx_open(CL_RAW);
		jx_sendf(P, "{\"id\":\"a1\",\"method\":\"authenticate\",\"params\":{\"user\":\"john\",\"password\":\"%s\"}}", ACCTS[0].pw);
		jx_settle();
		switch (hf) {
		case HF_FTRUNCATE_FAILS:
			sim_fail_next("ftruncate", EIO, -1);
			break;
		case HF_WRITE_ENOSPC:
			sim_fs_write_policy(-1, ENOSPC);
			break;
		case HF_SHORT_THEN_ENOSPC:
			sim_fs_write_policy(shortk, ENOSPC);
			break;
		case HF_SHORT_THEN_REST:
			sim_fs_write_policy(shortk, 0);
			break;
		default:
			break;
		}
		jx_sendf(P, "{\"id\":\"pw1\",\"method\":\"passwd\",\"params\":{\"user\":\"john\",\"password\":\"%s\"}}", NEWPW);
		jx_settle();
		struct cl_msg *r1 = jx_find_response_str(P, "pw1", 0);
		int acked1 = r1 == NULL ? 2 : jx_is_success(r1) ? 1 : 0;
		sim_fs_write_policy(-1, 0);
		int Q = P;
		if (second_by) {
			Q = jx_open(CL_RAW);
			jx_sendf(Q, "{\"id\":\"a2\",\"method\":\"authenticate\",\"params\":{\"user\":\"adm\",\"password\":\"%s\"}}", ACCTS[acct_index("adm")].pw);
			jx_settle();
		}
		jx_sendf(Q, "{\"id\":\"pw2\",\"method\":\"passwd\",\"params\":{\"user\":\"john\",\"password\":\"%s\"}}", THIRDPW);
		jx_settle();
		struct cl_msg *r2 = jx_find_response_str(Q, "pw2", 0);
		int acked2 = r2 == NULL ? 2 : jx_is_success(r2) ? 1 : 0;
		int run_state = (can_login("john", ACCTS[0].pw) ? 1 : 0) | (can_login("john", NEWPW) ? 2 : 0) | (can_login("john", THIRDPW) ? 4 : 0);
		struct bytebuf t = {0};
		bb_printf(&t, "%d %d %d\n", acked1, acked2, run_state);
		const struct bytebuf *img = sim_fs_content();
		bb_append(&t, img->p, img->len);
		xp_twin_end(&t, NULL);
	}
	struct bytebuf empty = {0}, got = {0};
	xp_twin_end(&empty, &got);
	bb_append(&got, "", 1);
	int acked1 = 0, acked2 = 0, run_state = 0;
	sscanf((char *)got.p, "%d %d %d", &acked1, &acked2, &run_state);
	char *image = strchr((char *)got.p, '\n');
	if (image == NULL) {
		xp_harness_error("twin transcript malformed");
	}
	image++;
	if (acked1 == 2 || acked2 == 2) {
		fail20("passwd-not-answered:history", "a passwd request got no response (first: %d, second: %d)", acked1, acked2);
	}
	int want = acked2 == 1 ? 4 : acked1 == 1 ? 2 : 1; /* which of old / new / third password must work */
	char key[200];
	char fclass[60];
	snprintf(fclass, sizeof(fclass), "%s", hf == HF_NONE ? "no-fault" : hf == HF_FTRUNCATE_FAILS ? "ftruncate-fails" : hf == HF_WRITE_ENOSPC ? "write-error" : hf == HF_SHORT_THEN_ENOSPC ? "short-write-then-error" : "short-write");
	if (run_state != want) {
		snprintf(key, sizeof(key), "history:running-daemon-disagrees-with-its-answers:%s", fclass);
		fail20(key, "answers: first change %s, second change %s; in the running daemon old/new/third password work = %d/%d/%d", acked1 ? "acknowledged" : "refused", acked2 ? "acknowledged" : "refused", run_state & 1, (run_state >> 1) & 1, (run_state >> 2) & 1);
	}
	if (acked2 != 1) {
		snprintf(key, sizeof(key), "history:fault-free-change-refused:%s", fclass);
		fail20(key, "the second change met no fault and was allowed, but was answered with an error");
	}
	struct sim_opts o = {0};
	o.passwd_file = image;
	if (!sim_boot(&o)) {
		snprintf(key, sizeof(key), "history:file-not-loadable-after-later-successful-change:%s", fclass);
		fail20(key, "after the acknowledged second change a fresh daemon cannot load the file (%zu bytes, first byte 0x%02x)", strlen(image) ? strlen(image) : (size_t)(got.len - (size_t)(image - (char *)got.p)), (unsigned)(uint8_t)image[0]);
	}
	int file_state = (can_login("john", ACCTS[0].pw) ? 1 : 0) | (can_login("john", NEWPW) ? 2 : 0) | (can_login("john", THIRDPW) ? 4 : 0);
	if (file_state != want) {
		snprintf(key, sizeof(key), "history:file-disagrees-with-answers:%s", fclass);
		fail20(key, "answers: first change %s, second change acknowledged; with the file old/new/third password work = %d/%d/%d", acked1 ? "acknowledged" : "refused", file_state & 1, (file_state >> 1) & 1, (file_state >> 2) & 1);
	}
	for (int i = 1; i < nusers; i++) {
		if (!can_login(ACCTS[i].name, ACCTS[i].pw)) {
			snprintf(key, sizeof(key), "history:file-lost-other-account:%s", fclass);
			fail20(key, "the file loads, but account '%s' no longer authenticates", ACCTS[i].name);
		}
	}
	xp_count(acked1 ? "first_change_acknowledged" : "first_change_refused", 1);
	xp_nontrivial();
	xp_transition();
	xp_outcome(hash_mix((uint64_t)acked1, (uint64_t)file_state));
	xp_state(hash_mix((uint64_t)hf * 100000 + (uint64_t)shortk * 10 + (uint64_t)second_by, 7 + 2 * (uint64_t)nusers + 64 * (uint64_t)salt_seed));
}

/* ---- section 3: account names that differ only in case --------------------------------------------------------------------
 * The file holds a privileged account and a plain one whose names are equal ignoring case, in either order, plus bob.  Whether
 * the daemon treats names case-sensitively or not is its choice; whichever it is, it must be the same for "who is this peer"
 * (authentication), "what may it do" (admin flag) and "whose entry is changed" (target).  Reference, independent of that choice:
 * a caller that offers only the PLAIN account's password never changes the entry of bob or of the privileged account, and an
 * acknowledged change of one's own password is effective for the very name and password that were used. */
static const char *entry_hash(const cJSON *users, const char *exact_name)
{
	for (const cJSON *u = users ? users->child : NULL; u != NULL; u = u->next) {
		if (u->string != NULL && strcmp(u->string, exact_name) == 0) {
			const cJSON *pw = cJSON_GetObjectItemCaseSensitive(u, "password");
			return cJSON_IsString(pw) ? pw->valuestring : NULL;
		}
	}
	return NULL;
}

static void run_case_twins(void)
{
	static const char *const PRIV = "admin", *const PLAIN = "Admin";
	static const char *const PW_PRIV = "Winter-2025-priv!", *const PW_PLAIN = "Winter-2025-plain", *const PW_BOB = "Winter-2025-bob!!", *const PW_NEW = "Winter-2025-new!!";
	static const char *const LOGIN[] = {"admin", "Admin", "ADMIN"};
	static const char *const TARGET[] = {"bob", "admin", "Admin", "ADMIN", "BOB"};
	int order = xp_choose(2, XP_SCENARIO, "file-order"); /* 0: privileged entry first, 1: plain entry first */
	int ln = xp_choose(3, XP_SCENARIO, "login-name");
	int lp = xp_choose(2, XP_SCENARIO, "login-password"); /* 0: the plain account's, 1: the privileged account's */
	int tg = xp_choose(5, XP_SCENARIO, "target");
	int tr = xp_choose(2, XP_SCENARIO, "transport");
	snprintf(what, sizeof(what), "file with '%s' (admin flag) and '%s' (plain), %s first; a peer authenticates as '%s' with the %s account's password and changes the password of '%s' (%s)", PRIV, PLAIN, order ? "plain" : "privileged", LOGIN[ln], lp ? "privileged" : "plain", TARGET[tg], tr ? "websocket" : "raw");
	char hp[128], hl[128], hb[128];
	snprintf(hp, sizeof(hp), "%s", crypt(PW_PRIV, "$1$saltpriv$"));
	snprintf(hl, sizeof(hl), "%s", crypt(PW_PLAIN, "$1$saltplai$"));
	snprintf(hb, sizeof(hb), "%s", crypt(PW_BOB, "$1$saltbob0$"));
	struct bytebuf f = {0};
	char ep[400], el[400];
	snprintf(ep, sizeof(ep), "\"%s\":{\"password\":\"%s\",\"admin\":true,\"auth\":{\"fetchGroups\":[\"g\"],\"setGroups\":[\"g\"],\"callGroups\":[\"g\"]}}", PRIV, hp);
	snprintf(el, sizeof(el), "\"%s\":{\"password\":\"%s\",\"auth\":{\"fetchGroups\":[\"g\"],\"setGroups\":[\"g\"],\"callGroups\":[\"g\"]}}", PLAIN, hl);
	bb_printf(&f, "{\"users\":{%s,%s,\"bob\":{\"password\":\"%s\",\"auth\":{\"fetchGroups\":[\"g\"],\"setGroups\":[\"g\"],\"callGroups\":[\"g\"]}}}}", order ? el : ep, order ? ep : el, hb);
	bb_append(&f, "", 1);
	struct sim_opts o = {0};
	o.passwd_file = (char *)f.p;
	if (!sim_boot(&o)) {
		xp_count("daemon_refuses_a_file_with_case_twins", 1); /* a clean answer to such a file */
		xp_nontrivial();
		xp_transition();
		xp_state(hash_mix((uint64_t)order, 4444));
		xp_end_run();
	}
	int P = jx_open(tr ? CL_WS : CL_RAW);
	jx_sendf(P, "{\"id\":\"a\",\"method\":\"authenticate\",\"params\":{\"user\":\"%s\",\"password\":\"%s\"}}", LOGIN[ln], lp ? PW_PRIV : PW_PLAIN);
	jx_settle();
	bool logged_in = jx_is_success(jx_find_response_str(P, "a", 0));
	jx_sendf(P, "{\"id\":\"pw\",\"method\":\"passwd\",\"params\":{\"user\":\"%s\",\"password\":\"%s\"}}", TARGET[tg], PW_NEW);
	jx_settle();
	struct cl_msg *r = jx_find_response_str(P, "pw", 0);
	if (r == NULL) {
		fail20("passwd-not-answered:case-twins", "the passwd request got no response");
	}
	bool acked = jx_is_success(r);
	if (acked && !logged_in) {
		fail20("case-twins:change-by-unauthenticated-peer", "the authentication was refused but the password change was acknowledged");
	}
	const struct bytebuf *img = sim_fs_content();
	char *text = malloc(img->len + 1);
	memcpy(text, img->p, img->len);
	text[img->len] = 0;
	cJSON *root = cJSON_Parse(text);
	const cJSON *users = root ? cJSON_GetObjectItemCaseSensitive(root, "users") : NULL;
	if (users == NULL) {
		fail20("case-twins:file-not-loadable", "the credential file no longer parses: %.200s", text);
	}
	const char *np = entry_hash(users, PRIV), *nl = entry_hash(users, PLAIN), *nb = entry_hash(users, "bob");
	bool priv_changed = np == NULL || strcmp(np, hp) != 0, plain_changed = nl == NULL || strcmp(nl, hl) != 0, bob_changed = nb == NULL || strcmp(nb, hb) != 0;
	char key[200];
	if (!lp) {
		/* only the plain account's password was ever offered */
		if (bob_changed || priv_changed) {
			snprintf(key, sizeof(key), "case-twins:plain-password-changes-%s-entry", bob_changed ? "another-account's" : "the-privileged");
			fail20(key, "the caller proved only the plain account's password, yet the entry of %s was changed in the file (request %s)", bob_changed ? "bob" : "the privileged account", acked ? "acknowledged" : "answered with an error");
		}
	}
	if (!acked && (bob_changed || priv_changed || plain_changed)) {
		fail20("case-twins:refused-change-on-disk", "the change was answered with an error but an entry of the file changed");
	}
	if ((int)priv_changed + (int)plain_changed + (int)bob_changed > 1) {
		fail20("case-twins:several-entries-changed", "one passwd request changed more than one entry of the file");
	}
	/* an acknowledged change is effective for the target name as the caller wrote it */
	if (acked) {
		if (!can_login(TARGET[tg], PW_NEW)) {
			fail20("case-twins:acknowledged-change-not-effective", "the change was acknowledged but '%s' cannot authenticate with the new password", TARGET[tg]);
		}
		if (!(priv_changed || plain_changed || bob_changed)) {
			fail20("case-twins:acknowledged-change-not-on-disk", "the change was acknowledged but no entry of the file changed");
		}
	}
	/* the running daemon and the file agree: whoever could log in before and was not changed still can */
	if (!bob_changed && !can_login("bob", PW_BOB)) {
		fail20("case-twins:unchanged-account-locked-out", "bob's entry is unchanged but bob can no longer authenticate");
	}
	cJSON_Delete(root);
	free(text);
	xp_count(acked ? "changes_acknowledged" : "changes_refused", 1);
	xp_count(logged_in ? "logins_accepted" : "logins_refused", 1);
	xp_nontrivial();
	xp_transition();
	xp_outcome(hash_mix((uint64_t)acked * 8 + (uint64_t)priv_changed * 4 + (uint64_t)plain_changed * 2 + (uint64_t)bob_changed, (uint64_t)logged_in));
	xp_state(hash_mix((uint64_t)order * 1000 + (uint64_t)ln * 100 + (uint64_t)lp * 50 + (uint64_t)tg * 2 + (uint64_t)tr, 4445));
}

/* ---- section 4: every value of the random bytes behind a new salt --------------------------------------------------------------
 * A password change draws its salt from the random source.  For accounts hashed with DES (2 salt characters), MD5 and SHA-512 the
 * first or the second random byte takes every value 0..255 (the others are 7): the change is acknowledged, the new password
 * authenticates, the old one does not, and the stored member is a complete hash of the new password. */
static void run_salt_bytes(void)
{
	static const char *const KIND[] = {"DES", "MD5", "SHA-512"};
	static const char *const SETTING[] = {"ab", "$1$saltsalt$", "$6$saltsaltsalt$"};
	int kind = xp_choose(3, XP_SCENARIO, "hash-kind");
	int pos = xp_choose(2, XP_SCENARIO, "byte-position");
	int v = xp_choose(256, XP_SCENARIO, "random-byte-value");
	static const char *const OLD = "old-Winter-2025", *const NEW = "new-Winter-2025"; /* DES looks at the first 8 characters only */
	snprintf(what, sizeof(what), "account with a %s hash changes its password; random byte #%d of the new salt is %d", KIND[kind], pos, v);
	char h[200];
	snprintf(h, sizeof(h), "%s", crypt(OLD, SETTING[kind]));
	struct bytebuf f = {0};
	bb_printf(&f, "{\"users\":{\"u\":{\"password\":\"%s\",\"auth\":{\"fetchGroups\":[\"g\"],\"setGroups\":[\"g\"],\"callGroups\":[\"g\"]}}}}", h);
	bb_append(&f, "", 1);
	struct sim_opts o = {0};
	o.passwd_file = (char *)f.p;
	jx_boot(&o);
	int P = jx_open(CL_RAW);
	jx_sendf(P, "{\"id\":\"a\",\"method\":\"authenticate\",\"params\":{\"user\":\"u\",\"password\":\"%s\"}}", OLD);
	jx_settle();
	if (!jx_is_success(jx_find_response_str(P, "a", 0))) {
		fail20("salt:setup-failed", "the account cannot authenticate with its original %s hash", KIND[kind]);
	}
	uint8_t script[24];
	memset(script, 7, sizeof(script));
	script[pos] = (uint8_t)v;
	sim_random_script(script, sizeof(script));
	jx_sendf(P, "{\"id\":\"pw\",\"method\":\"passwd\",\"params\":{\"user\":\"u\",\"password\":\"%s\"}}", NEW);
	jx_settle();
	struct cl_msg *r = jx_find_response_str(P, "pw", 0);
	if (r == NULL) {
		fail20("salt:passwd-not-answered", "no response");
	}
	bool acked = jx_is_success(r);
	bool new_ok = can_login("u", NEW), old_ok = can_login("u", OLD);
	char key[160];
	if (acked && (!new_ok || old_ok)) {
		snprintf(key, sizeof(key), "salt:acknowledged-change-not-effective:%s", KIND[kind]);
		fail20(key, "the change was acknowledged; afterwards the new password works = %d, the old one works = %d", new_ok, old_ok);
	}
	if (!acked && (new_ok || !old_ok)) {
		snprintf(key, sizeof(key), "salt:refused-change-took-effect:%s", KIND[kind]);
		fail20(key, "the change was answered with an error; afterwards the new password works = %d, the old one works = %d", new_ok, old_ok);
	}
	if (!acked) {
		snprintf(key, sizeof(key), "salt:allowed-change-refused:%s", KIND[kind]);
		fail20(key, "an account's change of its own password was refused: %.200s", r->text);
	}
	/* the stored member is a complete hash of the new password */
	const struct bytebuf *img = sim_fs_content();
	char *text = malloc(img->len + 1);
	memcpy(text, img->p, img->len);
	text[img->len] = 0;
	cJSON *root = cJSON_Parse(text);
	const cJSON *users = root ? cJSON_GetObjectItemCaseSensitive(root, "users") : NULL;
	const char *stored = entry_hash(users, "u");
	const char *again = stored ? crypt(NEW, stored) : NULL;
	if (stored == NULL || again == NULL || strcmp(again, stored) != 0) {
		snprintf(key, sizeof(key), "salt:stored-member-is-no-hash-of-the-new-password:%s", KIND[kind]);
		fail20(key, "the file now holds '%s' for the account, which is not crypt(new password, itself)", stored ? stored : "(nothing)");
	}
	cJSON_Delete(root);
	free(text);
	xp_nontrivial();
	xp_transition();
	xp_outcome((uint64_t)kind);
	xp_state(hash_mix((uint64_t)kind * 1000 + (uint64_t)pos * 256 + (uint64_t)v, 4446));
}

static void run(void)
{
	if (xp_param("section", 0) == 4) {
		run_salt_bytes();
	} else if (xp_param("section", 0) == 3) {
		run_case_twins();
	} else if (xp_param("section", 0) == 2) {
		run_history();
	} else if (xp_param("section", 0) == 1) {
		run_crash();
	} else {
		run_matrix();
	}
}

const struct driver drv_c20 = {
    .name = "c20",
    .property = "C20",
    .run = run,
    .rule = "section 0: credential file with 7 accounts (plain, admin, read-only, read-only admin, names that are prefixes / extensions of each other) x 8 caller identities (unauthenticated, plain, admin, read-only, plain then failed authentication, prefix-named, read-only admin, re-authenticated) x 9 targets (each account, unknown, empty) x 2 transports x {single change, a second change by the admin afterwards}; reference: allowed iff caller authenticated, target exists and is not read-only, caller is the target or an admin; allowed => success, the new password (which differs from the old one only in its last character) authenticates and the old does not, every other account unaffected, file rewritten and complete; refused => error, file byte-identical, nothing changed; section 1: one allowed change (by the user / by the admin) x fault outcome {none, ftruncate fails, write fails ENOSPC / EIO, first write accepts only j bytes for EVERY j < file size} x EVERY crash point (file image before the change and after each mutating call, recorded by the simulated file system in a twin execution): a fresh daemon booted on the image must load it and authenticate john with exactly one of old / new password and every other account unchanged; acknowledged => new set on disk and effective in the running daemon; error answer => old set on disk and in memory; section 2: histories of two changes in one daemon run - the first meets {no fault, ftruncate fails, write fails ENOSPC, write accepts k bytes then ENOSPC, write accepts k bytes then the rest} for EVERY k, the second (a third password, by john or by the admin) meets none: both are answered, the fault-free one is acknowledged, the running daemon and a fresh daemon booted on the final file authenticate john with exactly the password the two answers describe, other accounts unchanged; section 3: a file with a privileged and a plain account whose names differ only in case (both orders) plus bob x login name {admin, Admin, ADMIN} x offered password {plain's, privileged's} x target {bob, admin, Admin, ADMIN, BOB} x transport: a caller that proved only the plain account's password changes neither bob's nor the privileged entry, a refused change leaves the file alone, one request changes at most one entry, an acknowledged change is on disk and authenticates the target name as written; section 4: an account hashed with DES / MD5 / SHA-512 changes its password while the first or the second random byte behind the new salt takes every value 0..255: acknowledged, effective, and the stored member is a complete hash of the new password; params: users (file size), salt (seed of the deterministic random stub); non-trivial = all applicable runs",
    .assumptions = "a crash is modelled as losing everything after a mutating call of the credential file (ftruncate / write); the simulated file system applies each call atomically|write() returning 0 for a non-empty buffer is not modelled",
};
