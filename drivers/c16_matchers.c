/* C16 - fetch path rules select exactly the paths their matchers describe.
 * Long-session mode: one daemon, one owner with 12 states and 3 methods over adversarial paths; every rule of the
 * enumerated space is sent as get and as fetch (+unfetch) and compared with a reference matcher. */
#include <ctype.h>
#include <stdlib.h>
#include <string.h>

#include "common.h"
#include "generated/cjet_config.h"

#define NSTATE 12
#define NMETH 3
#define NEL (NSTATE + NMETH)
static char elpath[NEL][320];
static int W, F; /* owner, fetcher */

#define NOPER 14
static char oper[NOPER][320];

static const char *const MNAME[] = {"equals", "equalsNot", "startsWith", "endsWith", "contains", "containsAllOf"};
#define NM 6

struct matcher {
	int name;
	int nops;
	int ops[3];
};
struct rule {
	int n;
	struct matcher m[13];
	int ci; /* 0 absent, 1 false, 2 true first, 3 true last */
};

static int ci_cmp(const char *a, const char *b, size_t n, bool fold, bool bounded)
{
	for (size_t i = 0; !bounded || i < n; i++) {
		unsigned char x = (unsigned char)a[i], y = (unsigned char)b[i];
		if (fold) {
			if (x >= 'A' && x <= 'Z') {
				x = (unsigned char)(x + 32);
			}
			if (y >= 'A' && y <= 'Z') {
				y = (unsigned char)(y + 32);
			}
		}
		if (x != y) {
			return x < y ? -1 : 1;
		}
		if (x == 0) {
			return 0;
		}
	}
	return 0;
}

static bool ref_contains(const char *hay, const char *needle, bool fold)
{
	size_t nl = strlen(needle), hl = strlen(hay);
	if (nl == 0) {
		return true;
	}
	for (size_t i = 0; i + nl <= hl; i++) {
		if (ci_cmp(hay + i, needle, nl, fold, true) == 0) {
			return true;
		}
	}
	return false;
}

static bool ref_match(const struct rule *r, const char *path)
{
	bool fold = r->ci >= 2;
	for (int i = 0; i < r->n; i++) {
		const struct matcher *m = &r->m[i];
		const char *op = oper[m->ops[0]];
		size_t ol = strlen(op), pl = strlen(path);
		bool ok = true;
		switch (m->name) {
		case 0:
			ok = ci_cmp(op, path, 0, fold, false) == 0;
			break;
		case 1:
			ok = ci_cmp(op, path, 0, fold, false) != 0;
			break;
		case 2:
			ok = ol <= pl && ci_cmp(op, path, ol, fold, true) == 0;
			break;
		case 3:
			ok = ol <= pl && ci_cmp(path + pl - ol, op, 0, fold, false) == 0;
			break;
		case 4:
			ok = ref_contains(path, op, fold);
			break;
		case 5:
			for (int k = 0; k < m->nops; k++) {
				if (!ref_contains(path, oper[m->ops[k]], fold)) {
					ok = false;
				}
			}
			break;
		}
		if (!ok) {
			return false;
		}
	}
	return true;
}

static void jstr(struct bytebuf *b, const char *s)
{
	cJSON *j = cJSON_CreateString(s);
	char *t = cJSON_PrintUnformatted(j);
	bb_printf(b, "%s", t);
	free(t);
	cJSON_Delete(j);
}

static void rule_json(const struct rule *r, struct bytebuf *b)
{
	bb_printf(b, "{");
	bool first = true;
	if (r->ci == 2) {
		bb_printf(b, "\"caseInsensitive\":true");
		first = false;
	}
	for (int i = 0; i < r->n; i++) {
		const struct matcher *m = &r->m[i];
		bb_printf(b, "%s\"%s\":", first ? "" : ",", MNAME[m->name]);
		first = false;
		if (m->name == 5) {
			bb_printf(b, "[");
			for (int k = 0; k < m->nops; k++) {
				if (k) {
					bb_printf(b, ",");
				}
				jstr(b, oper[m->ops[k]]);
			}
			bb_printf(b, "]");
		} else {
			jstr(b, oper[m->ops[0]]);
		}
	}
	if (r->ci == 1) {
		bb_printf(b, "%s\"caseInsensitive\":false", first ? "" : ",");
	} else if (r->ci == 3) {
		bb_printf(b, "%s\"caseInsensitive\":true", first ? "" : ",");
	}
	bb_printf(b, "}");
}

static long nreq, nrules;
static int reqid;

static void fail16(const char *key, const char *rule, const char *fmt, ...) __attribute__((noreturn, format(printf, 3, 4)));
static void fail16(const char *key, const char *rule, const char *fmt, ...)
{
	char m[1200];
	va_list ap;
	va_start(ap, fmt);
	vsnprintf(m, sizeof(m), fmt, ap);
	va_end(ap);
	xp_fail(key, "rule %.300s: %s", rule, m);
}

static void trim_msgs(int cid)
{
	/* long session: drop decoded messages to keep memory bounded */
	struct client *c = &clients[cid];
	for (int i = 0; i < c->nmsgs; i++) {
		free(c->msgs[i].text);
		if (c->msgs[i].json) {
			cJSON_Delete(c->msgs[i].json);
		}
	}
	c->nmsgs = 0;
}

static void key_for_rule(const struct rule *r, const char *what, char *key, size_t len)
{
	/* stable key: which matcher names are involved, case option, and what went wrong */
	char names[120] = "";
	for (int i = 0; i < r->n && i < 3; i++) {
		strncat(names, MNAME[r->m[i].name], sizeof(names) - strlen(names) - 1);
		strncat(names, i + 1 < r->n ? "+" : "", sizeof(names) - strlen(names) - 1);
	}
	snprintf(key, len, "%s:%s:%s", what, names, r->ci >= 2 ? "caseInsensitive" : "caseSensitive");
}

static void check_rule(const struct rule *r, bool may_be_refused)
{
	struct bytebuf rj = {0};
	rule_json(r, &rj);
	if (rj.len > 430) {
		/* the request would exceed the daemon's maximum message size (512 bytes): not a statement about matchers */
		xp_count("skipped_too_long", 1);
		bb_free(&rj);
		return;
	}
	nrules++;
	/* ---- get ---- */
	int id = ++reqid;
	jx_sendf(F, "{\"id\":%d,\"method\":\"get\",\"params\":{\"path\":%s}}", id, (char *)rj.p);
	jx_settle();
	nreq++;
	struct cl_msg *g = jx_find_response_num(F, id, 0);
	char key[200];
	if (g == NULL) {
		key_for_rule(r, "get-unanswered", key, sizeof(key));
		fail16(key, (char *)rj.p, "get was not answered");
	}
	if (g->cls == MC_ERROR) {
		if (!may_be_refused) {
			key_for_rule(r, "valid-rule-refused", key, sizeof(key));
			fail16(key, (char *)rj.p, "a well-formed rule was refused: %.200s", g->text);
		}
	} else {
		const cJSON *arr = cJSON_GetObjectItemCaseSensitive(g->json, "result");
		bool got[NEL] = {false};
		for (const cJSON *it = arr ? arr->child : NULL; it != NULL; it = it->next) {
			const cJSON *pa = cJSON_GetObjectItemCaseSensitive(it, "path");
			int e = -1;
			for (int k = 0; k < NEL; k++) {
				if (cJSON_IsString(pa) && strcmp(pa->valuestring, elpath[k]) == 0) {
					e = k;
				}
			}
			if (e < 0 || got[e]) {
				key_for_rule(r, "get-unknown-or-duplicate-path", key, sizeof(key));
				fail16(key, (char *)rj.p, "get lists an unknown or duplicated path");
			}
			got[e] = true;
		}
		for (int e = 0; e < NEL; e++) {
			bool want = e < NSTATE && ref_match(r, elpath[e]);
			if (want != got[e]) {
				key_for_rule(r, want ? "get-misses-matching-path" : "get-selects-non-matching-path", key, sizeof(key));
				fail16(key, (char *)rj.p, "path '%.40s' %s satisfy the rule but get %s it", elpath[e], want ? "does" : "does not", got[e] ? "lists" : "omits");
			}
		}
	}
	trim_msgs(F);
	/* ---- fetch + unfetch ---- */
	size_t heap_before = cjet_get_alloc_size();
	id = ++reqid;
	jx_sendf(F, "{\"id\":%d,\"method\":\"fetch\",\"params\":{\"id\":\"f\",\"path\":%s}}", id, (char *)rj.p);
	jx_settle();
	nreq++;
	struct cl_msg *fr = jx_find_response_num(F, id, 0);
	if (fr == NULL) {
		key_for_rule(r, "fetch-unanswered", key, sizeof(key));
		fail16(key, (char *)rj.p, "fetch was not answered");
	}
	bool gotn[NEL] = {false};
	int nnotif = 0;
	for (int i = 0; i < clients[F].nmsgs; i++) {
		struct cl_msg *m = &clients[F].msgs[i];
		if (m->cls != MC_NOTIFY) {
			continue;
		}
		nnotif++;
		const cJSON *params = cJSON_GetObjectItemCaseSensitive(m->json, "params");
		const cJSON *pa = params ? cJSON_GetObjectItemCaseSensitive(params, "path") : NULL;
		const cJSON *ev = params ? cJSON_GetObjectItemCaseSensitive(params, "event") : NULL;
		int e = -1;
		for (int k = 0; k < NEL; k++) {
			if (cJSON_IsString(pa) && strcmp(pa->valuestring, elpath[k]) == 0) {
				e = k;
			}
		}
		if (e < 0 || gotn[e] || !cJSON_IsString(ev) || strcmp(ev->valuestring, "add") != 0) {
			key_for_rule(r, "fetch-bad-notification", key, sizeof(key));
			fail16(key, (char *)rj.p, "unexpected notification %.200s", m->text);
		}
		gotn[e] = true;
	}
	if (fr->cls == MC_ERROR) {
		if (!may_be_refused) {
			key_for_rule(r, "valid-rule-refused", key, sizeof(key));
			fail16(key, (char *)rj.p, "fetch with a well-formed rule was refused: %.200s", fr->text);
		}
		if (nnotif != 0) {
			key_for_rule(r, "refused-fetch-has-side-effects", key, sizeof(key));
			fail16(key, (char *)rj.p, "the fetch was refused but %d notification(s) were delivered", nnotif);
		}
		if (cjet_get_alloc_size() != heap_before) {
			key_for_rule(r, "refused-fetch-leaks", key, sizeof(key));
			fail16(key, (char *)rj.p, "the fetch was refused but the accounted heap changed from %zu to %zu", heap_before, cjet_get_alloc_size());
		}
	} else {
		for (int e = 0; e < NEL; e++) {
			bool want = ref_match(r, elpath[e]);
			if (want != gotn[e]) {
				key_for_rule(r, want ? "fetch-misses-matching-path" : "fetch-selects-non-matching-path", key, sizeof(key));
				fail16(key, (char *)rj.p, "path '%.40s' %s satisfy the rule but fetch %s it", elpath[e], want ? "does" : "does not", gotn[e] ? "reports" : "omits");
			}
		}
		trim_msgs(F);
		id = ++reqid;
		jx_sendf(F, "{\"id\":%d,\"method\":\"unfetch\",\"params\":{\"id\":\"f\"}}", id);
		jx_settle();
		nreq++;
		if (!jx_is_success(jx_find_response_num(F, id, 0))) {
			fail16("unfetch-failed", (char *)rj.p, "unfetch of the fetch just created failed");
		}
		if (cjet_get_alloc_size() != heap_before) {
			key_for_rule(r, "fetch-unfetch-leaks", key, sizeof(key));
			fail16(key, (char *)rj.p, "fetch + unfetch changed the accounted heap from %zu to %zu", heap_before, cjet_get_alloc_size());
		}
	}
	trim_msgs(F);
	bb_free(&rj);
}

/* raw rule text (malformed shapes): must be refused without side effects, or (repeated option key) behave as given once */
static void check_raw(const char *ruletext, int expect /* 0 must be refused, 1 refused or equal to `same_as` */, const struct rule *same_as, const char *label)
{
	nrules++;
	size_t heap_before = cjet_get_alloc_size();
	for (int pass = 0; pass < 2; pass++) {
		int id = ++reqid;
		if (pass == 0) {
			jx_sendf(F, "{\"id\":%d,\"method\":\"get\",\"params\":{\"path\":%s}}", id, ruletext);
		} else {
			jx_sendf(F, "{\"id\":%d,\"method\":\"fetch\",\"params\":{\"id\":\"f\",\"path\":%s}}", id, ruletext);
		}
		jx_settle();
		nreq++;
		struct cl_msg *m = jx_find_response_num(F, id, 0);
		char key[200];
		if (m == NULL) {
			snprintf(key, sizeof(key), "%s:unanswered", label);
			fail16(key, ruletext, "request was not answered");
		}
		int nnotif = 0;
		bool gotn[NEL] = {false};
		for (int i = 0; i < clients[F].nmsgs; i++) {
			struct cl_msg *n = &clients[F].msgs[i];
			if (n->cls == MC_NOTIFY) {
				nnotif++;
				const cJSON *params = cJSON_GetObjectItemCaseSensitive(n->json, "params");
				const cJSON *pa = params ? cJSON_GetObjectItemCaseSensitive(params, "path") : NULL;
				for (int k = 0; k < NEL; k++) {
					if (cJSON_IsString(pa) && strcmp(pa->valuestring, elpath[k]) == 0) {
						gotn[k] = true;
					}
				}
			}
		}
		if (m->cls == MC_ERROR) {
			if (nnotif != 0) {
				snprintf(key, sizeof(key), "%s:refused-with-side-effects", label);
				fail16(key, ruletext, "refused but %d notification(s) were delivered", nnotif);
			}
		} else {
			if (expect == 0) {
				snprintf(key, sizeof(key), "%s:accepted", label);
				fail16(key, ruletext, "must be refused with an error but was accepted: %.200s", m->text);
			}
			if (pass == 0) {
				const cJSON *arr = cJSON_GetObjectItemCaseSensitive(m->json, "result");
				bool got[NEL] = {false};
				for (const cJSON *it = arr ? arr->child : NULL; it != NULL; it = it->next) {
					const cJSON *pa = cJSON_GetObjectItemCaseSensitive(it, "path");
					for (int k = 0; k < NEL; k++) {
						if (cJSON_IsString(pa) && strcmp(pa->valuestring, elpath[k]) == 0) {
							got[k] = true;
						}
					}
				}
				for (int e = 0; e < NSTATE; e++) {
					if (got[e] != ref_match(same_as, elpath[e])) {
						snprintf(key, sizeof(key), "%s:not-as-given-once", label);
						fail16(key, ruletext, "accepted, but the selection differs from the rule with the option given once (path '%.40s')", elpath[e]);
					}
				}
			} else {
				for (int e = 0; e < NEL; e++) {
					if (gotn[e] != ref_match(same_as, elpath[e])) {
						snprintf(key, sizeof(key), "%s:not-as-given-once", label);
						fail16(key, ruletext, "accepted, but the selection differs from the rule with the option given once (path '%.40s')", elpath[e]);
					}
				}
				trim_msgs(F);
				id = ++reqid;
				jx_sendf(F, "{\"id\":%d,\"method\":\"unfetch\",\"params\":{\"id\":\"f\"}}", id);
				jx_settle();
			}
		}
		trim_msgs(F);
	}
	/* the fetch id is still free and nothing leaked */
	if (cjet_get_alloc_size() != heap_before) {
		char key[200];
		snprintf(key, sizeof(key), "%s:leak", label);
		fail16(key, ruletext, "accounted heap changed from %zu to %zu", heap_before, cjet_get_alloc_size());
	}
	int id = ++reqid;
	jx_sendf(F, "{\"id\":%d,\"method\":\"fetch\",\"params\":{\"id\":\"f\",\"path\":{\"equals\":\"zzz-nothing\"}}}", id);
	jx_settle();
	if (!jx_is_success(jx_find_response_num(F, id, 0))) {
		char key[200];
		snprintf(key, sizeof(key), "%s:fetch-id-not-free-afterwards", label);
		fail16(key, ruletext, "afterwards the fetch id is not free any more");
	}
	trim_msgs(F);
	id = ++reqid;
	jx_sendf(F, "{\"id\":%d,\"method\":\"unfetch\",\"params\":{\"id\":\"f\"}}", id);
	jx_settle();
	trim_msgs(F);
}

static void run(void)
{
	int nchunk = (int)xp_param("chunks", 64);
	int tier = (int)xp_param("tier", 0); /* 0 quick, 1 thorough */
	int chunk = xp_choose(nchunk, XP_SCENARIO, "chunk");
	static const char *const SP[] = {"a", "A", "ab", "aB", "Ab", "b", "abc", "bc", "a/b", "\xc3\xa9", "\xc3\x89"};
	for (int i = 0; i < 11; i++) {
		strcpy(elpath[i], SP[i]);
		strcpy(oper[i], SP[i]);
	}
	memset(elpath[11], 'x', 300);
	elpath[11][300] = 0;
	strcpy(oper[11], elpath[11]);
	strcpy(oper[12], "");
	memset(oper[13], 'x', 301);
	oper[13][301] = 0;
	strcpy(elpath[12], "ma");
	strcpy(elpath[13], "Ma");
	strcpy(elpath[14], "xab");
	struct sim_opts o = {0};
	jx_boot(&o);
	W = jx_open(CL_RAW);
	F = jx_open(xp_param("ws", 0) ? CL_WS : CL_RAW);
	for (int e = 0; e < NEL; e++) {
		struct bytebuf b = {0};
		jstr(&b, elpath[e]);
		if (e < NSTATE) {
			jx_sendf(W, "{\"id\":%d,\"method\":\"add\",\"params\":{\"path\":%s,\"value\":%d}}", e, (char *)b.p, e);
		} else {
			jx_sendf(W, "{\"id\":%d,\"method\":\"add\",\"params\":{\"path\":%s}}", e, (char *)b.p);
		}
		jx_settle();
		if (!jx_is_success(jx_find_response_num(W, e, 0))) {
			xp_fail("setup-failed", "could not add element %d", e);
		}
		bb_free(&b);
	}
	long idx = 0;
#define MINE() ((idx++ % nchunk) == chunk)
	struct rule r;
	/* no rule at all is covered by C01; here: every single matcher x operand x 4 option forms */
	for (int n = 0; n < NM - 1; n++) {
		for (int op = 0; op < NOPER; op++) {
			for (int ci = 0; ci < 4; ci++) {
				if (!MINE()) {
					continue;
				}
				memset(&r, 0, sizeof(r));
				r.n = 1;
				r.m[0] = (struct matcher){.name = n, .nops = 1, .ops = {op}};
				r.ci = ci;
				check_rule(&r, false);
			}
		}
	}
	/* containsAllOf with every array of size 0..3 (thorough) / 0..2 (quick) */
	int maxarr = 3;
	for (int sz = 0; sz <= maxarr; sz++) {
		int total = 1;
		for (int k = 0; k < sz; k++) {
			total *= NOPER;
		}
		for (int t = 0; t < total; t++) {
			for (int ci = 0; ci < 3; ci += 2) {
				if (!MINE()) {
					continue;
				}
				memset(&r, 0, sizeof(r));
				r.n = 1;
				r.m[0].name = 5;
				r.m[0].nops = sz;
				int x = t;
				for (int k = 0; k < sz; k++) {
					r.m[0].ops[k] = x % NOPER;
					x /= NOPER;
				}
				r.ci = ci;
				check_rule(&r, sz == 0 /* an empty array may be refused or match everything */);
			}
		}
	}
	/* every ordered pair of single-operand matchers (distinct names: a repeated matcher key is a different question) */
	for (int n1 = 0; n1 < NM - 1; n1++) {
		for (int o1 = 0; o1 < NOPER; o1++) {
			for (int n2 = 0; n2 < NM - 1; n2++) {
				if (n2 == n1 && !tier) {
					continue; /* a repeated matcher key (both must hold) is part of the thorough tier */
				}
				for (int o2 = 0; o2 < NOPER; o2++) {
					for (int ci = 0; ci < 3; ci += 2) {
						if (!MINE()) {
							continue;
						}
						memset(&r, 0, sizeof(r));
						r.n = 2;
						r.m[0] = (struct matcher){.name = n1, .nops = 1, .ops = {o1}};
						r.m[1] = (struct matcher){.name = n2, .nops = 1, .ops = {o2}};
						r.ci = ci;
						check_rule(&r, false);
					}
				}
			}
		}
	}
	/* triples over a reduced operand set */
	{
		static const int RED[] = {0, 1, 2, 6, 12};
		for (int n1 = 0; n1 < NM - 1; n1++) {
			for (int n2 = n1 + 1; n2 < NM - 1; n2++) {
				for (int n3 = n2 + 1; n3 < NM - 1; n3++) {
					for (int t = 0; t < 125; t++) {
						for (int ci = 0; ci < 3; ci += 2) {
							if (!MINE()) {
								continue;
							}
							memset(&r, 0, sizeof(r));
							r.n = 3;
							r.m[0] = (struct matcher){.name = n1, .nops = 1, .ops = {RED[t % 5]}};
							r.m[1] = (struct matcher){.name = n2, .nops = 1, .ops = {RED[(t / 5) % 5]}};
							r.m[2] = (struct matcher){.name = n3, .nops = 1, .ops = {RED[t / 25]}};
							r.ci = ci;
							check_rule(&r, false);
						}
					}
				}
			}
		}
	}
	if (tier) {
		/* thorough: every ordered triple of distinct single-operand matchers over the full operand set */
		for (int n1 = 0; n1 < NM - 1; n1++) {
			for (int n2 = 0; n2 < NM - 1; n2++) {
				for (int n3 = 0; n3 < NM - 1; n3++) {
					if (n1 == n2 || n2 == n3 || n1 == n3) {
						continue;
					}
					for (int t = 0; t < NOPER * NOPER * NOPER; t++) {
						if (!MINE()) {
							continue;
						}
						memset(&r, 0, sizeof(r));
						r.n = 3;
						r.m[0] = (struct matcher){.name = n1, .nops = 1, .ops = {t % NOPER}};
						r.m[1] = (struct matcher){.name = n2, .nops = 1, .ops = {(t / NOPER) % NOPER}};
						r.m[2] = (struct matcher){.name = n3, .nops = 1, .ops = {t / (NOPER * NOPER)}};
						r.ci = (t & 1) ? 2 : 0;
						check_rule(&r, false);
					}
				}
			}
		}
		/* thorough: a single-operand matcher combined with containsAllOf arrays of size 1..2, both orders */
		for (int n1 = 0; n1 < NM - 1; n1++) {
			for (int o1 = 0; o1 < NOPER; o1++) {
				for (int t = 0; t < NOPER + NOPER * NOPER; t++) {
					for (int order = 0; order < 2; order++) {
						if (!MINE()) {
							continue;
						}
						memset(&r, 0, sizeof(r));
						r.n = 2;
						struct matcher single = {.name = n1, .nops = 1, .ops = {o1}};
						struct matcher all = {.name = 5};
						if (t < NOPER) {
							all.nops = 1;
							all.ops[0] = t;
						} else {
							all.nops = 2;
							all.ops[0] = (t - NOPER) % NOPER;
							all.ops[1] = (t - NOPER) / NOPER;
						}
						r.m[order] = single;
						r.m[1 - order] = all;
						r.ci = (t & 1) ? 3 : 0;
						check_rule(&r, false);
					}
				}
			}
		}
	}
	/* a single-operand matcher next to containsAllOf with the EMPTY array and with every one-element array, both orders, and the empty
	 * array between two matchers: the empty array restricts nothing, so the rule is refused or selects what the other matchers select */
	for (int n1 = 0; n1 < NM - 1; n1++) {
		for (int o1 = 0; o1 < NOPER; o1++) {
			for (int t = -1; t < NOPER; t++) {
				for (int order = 0; order < 3; order++) {
					if (order == 2 && t >= 0) {
						continue;
					}
					if (!MINE()) {
						continue;
					}
					memset(&r, 0, sizeof(r));
					struct matcher single = {.name = n1, .nops = 1, .ops = {o1}};
					struct matcher all = {.name = 5, .nops = t < 0 ? 0 : 1, .ops = {t < 0 ? 0 : t}};
					if (order == 2) {
						r.n = 3;
						r.m[0] = single;
						r.m[1] = all;
						r.m[2] = (struct matcher){.name = (n1 + 1) % (NM - 1), .nops = 1, .ops = {(o1 + 3) % NOPER}};
					} else {
						r.n = 2;
						r.m[order] = single;
						r.m[1 - order] = all;
					}
					r.ci = (o1 & 1) ? 2 : 0;
					check_rule(&r, t < 0);
				}
			}
		}
	}
	/* all six matchers at once with containsAllOf, every operand (6 matchers <= configured maximum) */
	for (int op = 0; op < NOPER; op++) {
		if (!MINE()) {
			continue;
		}
		memset(&r, 0, sizeof(r));
		r.n = 6;
		for (int n = 0; n < 6; n++) {
			r.m[n] = (struct matcher){.name = n, .nops = 1, .ops = {op}};
		}
		r.m[1].ops[0] = (op + 1) % NOPER; /* equalsNot something else */
		r.ci = op % 2 ? 2 : 0;
		check_rule(&r, false);
	}
	/* malformed rules: refused without side effects */
	static const char *const BAD[][2] = {
	    {"{\"bogus\":\"a\"}", "unknown-matcher"},
	    {"{\"equals\":\"a\",\"bogus\":\"a\"}", "unknown-matcher-after-valid"},
	    {"{\"Equals\":\"a\"}", "matcher-name-wrong-case"},
	    {"{\"equals\":5}", "operand-number"},
	    {"{\"equals\":null}", "operand-null"},
	    {"{\"equals\":true}", "operand-bool"},
	    {"{\"equals\":[\"a\"]}", "operand-array-for-single"},
	    {"{\"equals\":{\"a\":1}}", "operand-object"},
	    {"{\"startsWith\":\"a\",\"endsWith\":7}", "second-operand-number"},
	    {"{\"containsAllOf\":\"a\"}", "containsAllOf-string"},
	    {"{\"containsAllOf\":[\"a\",5]}", "containsAllOf-number-element"},
	    {"{\"containsAllOf\":[5]}", "containsAllOf-first-number"},
	    {"{\"containsAllOf\":{\"a\":\"b\"}}", "containsAllOf-object"},
	    {"{\"caseInsensitive\":true}", "only-option-no-matcher"},
	    {"{}", "empty-rule-object"},
	    {"[]", "rule-array"},
	    {"\"a\"", "rule-string"},
	    {"5", "rule-number"},
	};
	for (size_t i = 0; i < sizeof(BAD) / sizeof(BAD[0]); i++) {
		if (MINE()) {
			check_raw(BAD[i][0], 0, NULL, BAD[i][1]);
		}
	}
	/* near-miss names: every valid member name with a character appended / removed / a blank appended / other letter case,
	 * alone (with a string and with a boolean operand) and next to a valid matcher: all unknown names, all to be refused */
	{
		static const char *const VALID[] = {"equals", "equalsNot", "startsWith", "endsWith", "contains", "containsAllOf", "caseInsensitive"};
		for (size_t v = 0; v < sizeof(VALID) / sizeof(VALID[0]); v++) {
			char names[6][40];
			size_t l = strlen(VALID[v]);
			snprintf(names[0], sizeof(names[0]), "%sX", VALID[v]);
			snprintf(names[1], sizeof(names[1]), "%s2", VALID[v]);
			snprintf(names[2], sizeof(names[2]), "%s ", VALID[v]);
			snprintf(names[3], sizeof(names[3]), "%.*s", (int)l - 1, VALID[v]);
			snprintf(names[4], sizeof(names[4]), "%s", VALID[v]);
			names[4][0] = (char)(names[4][0] - 32); /* first letter upper-case */
			snprintf(names[5], sizeof(names[5]), "%s", VALID[v]);
			for (size_t k = 0; k < l; k++) {
				if (names[5][k] >= 'A' && names[5][k] <= 'Z') {
					names[5][k] = (char)(names[5][k] + 32); /* all lower-case (differs for the camel-case names) */
				}
			}
			for (int k = 0; k < 6; k++) {
				if (strcmp(names[k], VALID[v]) == 0) {
					continue;
				}
				bool is_other_valid = false;
				for (size_t w = 0; w < sizeof(VALID) / sizeof(VALID[0]); w++) {
					if (strcmp(names[k], VALID[w]) == 0) {
						is_other_valid = true; /* e.g. equalsNot minus nothing; "equals" is a prefix of "equalsNot" but never equal to a variant here */
					}
				}
				if (is_other_valid) {
					continue;
				}
				char rule[200], label[80];
				static const char *const OPERANDS[] = {"\"a\"", "true", "[\"a\"]"};
				for (int o = 0; o < 3; o++) {
					snprintf(label, sizeof(label), "near-miss-name:%s", VALID[v]);
					snprintf(rule, sizeof(rule), "{\"%s\":%s}", names[k], OPERANDS[o]);
					if (MINE()) {
						check_raw(rule, 0, NULL, label);
					}
					snprintf(rule, sizeof(rule), "{\"equals\":\"a\",\"%s\":%s}", names[k], OPERANDS[o]);
					if (MINE()) {
						check_raw(rule, 0, NULL, label);
					}
					snprintf(rule, sizeof(rule), "{\"%s\":%s,\"startsWith\":\"A\"}", names[k], OPERANDS[o]);
					if (MINE()) {
						check_raw(rule, 0, NULL, label);
					}
				}
			}
		}
	}
	/* more matchers than the configured maximum: JSON objects may repeat a key, so 13 members are possible */
	{
		struct bytebuf b = {0};
		bb_printf(&b, "{");
		for (int i = 0; i < CONFIG_MAX_NUMBERS_OF_MATCHERS_IN_FETCH + 1; i++) {
			bb_printf(&b, "%s\"%s\":\"a\"", i ? "," : "", MNAME[i % 5]);
		}
		bb_printf(&b, "}");
		if (MINE()) {
			check_raw((char *)b.p, 0, NULL, "too-many-matchers");
		}
		bb_free(&b);
	}
	/* a repeated option key is either refused or treated as given once */
	{
		struct rule once;
		memset(&once, 0, sizeof(once));
		once.n = 1;
		once.m[0] = (struct matcher){.name = 0, .nops = 1, .ops = {0}};
		once.ci = 2;
		if (MINE()) {
			check_raw("{\"caseInsensitive\":true,\"caseInsensitive\":true,\"equals\":\"a\"}", 1, &once, "repeated-option-first");
		}
		if (MINE()) {
			check_raw("{\"caseInsensitive\":true,\"equals\":\"a\",\"caseInsensitive\":true}", 1, &once, "repeated-option-split");
		}
		if (MINE()) {
			check_raw("{\"equals\":\"a\",\"caseInsensitive\":true,\"caseInsensitive\":true,\"caseInsensitive\":true}", 1, &once, "repeated-option-thrice");
		}
		once.n = 2;
		once.m[1] = (struct matcher){.name = 2, .nops = 1, .ops = {1}};
		if (MINE()) {
			check_raw("{\"caseInsensitive\":true,\"equals\":\"a\",\"caseInsensitive\":true,\"startsWith\":\"A\"}", 1, &once, "repeated-option-two-matchers");
		}
	}
	xp_count("rules", nrules);
	xp_count("requests", nreq);
	xp_nontrivial();
	for (long i = 0; i < nrules; i++) {
		xp_transition();
	}
	xp_state(hash_mix((uint64_t)chunk, (uint64_t)nrules));
	xp_outcome((uint64_t)nrules);
}

const struct driver drv_c16 = {
    .name = "c16",
    .property = "C16",
    .run = run,
    .rule = "12 states and 3 methods over paths {a, A, ab, aB, Ab, b, abc, bc, a/b, e-acute, E-acute, 300 x 'x', ma, Ma, xab}; operands = the 12 state paths plus the empty string and 301 x 'x'; every single matcher (5 names x 14 operands x 4 caseInsensitive forms), containsAllOf with every array of size 0..2 (thorough 0..3), every single matcher next to containsAllOf with the empty array and with every one-element array in both orders (and the empty array between two matchers), every ordered pair of distinct single-operand matchers x operands x {case-sensitive, caseInsensitive}, (thorough) all triples over 5 operands, all six matchers at once, 18 malformed rule shapes, near-miss member names (every valid name with a character appended / removed / blank / other case, alone and next to valid matchers, 3 operand types), 13 matchers, 4 repeated-option forms; each rule is sent as get and as fetch+unfetch in one long daemon session per chunk and compared with a byte-wise reference matcher with ASCII-only folding; transitions = rules checked; every execution (chunk) is non-trivial",
    .assumptions = "an empty containsAllOf array may be refused or match everything|a non-boolean caseInsensitive value is not judged|the long session never disconnects: leaks are detected through the accounted heap after fetch+unfetch",
};
