/* C15 - any single allocation failure is survived without crash, leak or corruption.
 * Fault enumeration: for every scenario of a corpus (one per request type / teardown path) the n-th allocation performed
 * by the daemon after the scenario's preamble returns NULL, for EVERY n up to the number of allocations the scenario
 * performs; with deviation budget 1 a second allocation fails a chosen number of allocations later (all pairs within a
 * window).  param fill=1 (build variant 'cap'): the heap is first filled with states up to the configured cap, so that
 * allocations fail "naturally", possibly many in a row. */
#define _GNU_SOURCE
#include <crypt.h>
#include <stdlib.h>
#include <string.h>

#include "common.h"
#include "generated/cjet_config.h"

static int R = -1, B = -1, W = -1;
static char what[300];
static const char *scen_name = "";
static char fail_site_name[140];

static void fail15(const char *cls, const char *fmt, ...) __attribute__((noreturn, format(printf, 2, 3)));
static void fail15(const char *cls, const char *fmt, ...)
{
	char m[1500], key[300];
	va_list ap;
	va_start(ap, fmt);
	vsnprintf(m, sizeof(m), fmt, ap);
	va_end(ap);
	const char *site = fail_site_name;
	snprintf(key, sizeof(key), "%s:%s@%s", cls, scen_name, site && site[0] ? site : "-");
	jx_log_transcripts();
	xp_fail(key, "%s: %s", what, m);
}

static char *pwfile(void)
{
	static char buf[900];
	char h1[120], h2[120]; /* crypt() returns a static buffer: one call per statement */
	snprintf(h1, sizeof(h1), "%s", crypt("pw-one", "$1$abcdefgh$"));
	snprintf(h2, sizeof(h2), "%s", crypt("pw-adm", "$1$hgfedcba$"));
	snprintf(buf, sizeof(buf),
	         "{\"users\":{\"u1\":{\"password\":\"%s\",\"auth\":{\"fetchGroups\":[\"g1\"],\"setGroups\":[\"g1\"],\"callGroups\":[\"g1\"]}},"
	         "\"adm\":{\"password\":\"%s\",\"admin\":true,\"auth\":{\"fetchGroups\":[\"g1\"],\"setGroups\":[\"g1\"],\"callGroups\":[\"g1\"]}}}}",
	         h1, h2);
	return buf;
}

struct scen {
	const char *name;
	bool passwd;
	void (*pre)(void);
	void (*body)(void);
};

/* connections whose input was being processed when an injected failure fired (bit per cid); with the heap filled to the cap
 * (natural failures) every connection that sends something during the body counts */
static unsigned long involved;
static long seen_failures;
static bool fill_mode;
static void note_fault(int c)
{
	long n = sim_heap_failures();
	if ((n > seen_failures || fill_mode) && c >= 0) {
		involved |= 1ul << c;
	}
	seen_failures = n;
}
/* registry of the elements the scenario tried to add: after the fault every element must still be what it was added as
 * (a request that fails for lack of memory must not leave a half-changed element behind) */
struct regel {
	char path[40];
	int owner;
	bool is_state;
	char idtext[24];
	bool remove_sent;
	char params[300]; /* the params object of the add, for the retry of refused adds */
};
static struct regel regs[40];
static int nregs;
static void register_request(int c, const cJSON *rq)
{
	const cJSON *m = cJSON_GetObjectItemCaseSensitive(rq, "method");
	const cJSON *pa = cJSON_GetObjectItemCaseSensitive(cJSON_GetObjectItemCaseSensitive(rq, "params"), "path");
	if (!cJSON_IsString(m) || !cJSON_IsString(pa)) {
		return;
	}
	if (strcmp(m->valuestring, "remove") == 0) {
		for (int i = 0; i < nregs; i++) {
			if (strcmp(regs[i].path, pa->valuestring) == 0) {
				regs[i].remove_sent = true;
			}
		}
	}
	if (strcmp(m->valuestring, "add") != 0 || nregs >= 40) {
		return;
	}
	for (int i = 0; i < nregs; i++) {
		if (strcmp(regs[i].path, pa->valuestring) == 0) {
			return; /* a second add of the same path must fail anyway */
		}
	}
	struct regel *r = &regs[nregs++];
	memset(r, 0, sizeof(*r));
	snprintf(r->path, sizeof(r->path), "%s", pa->valuestring);
	r->owner = c;
	r->is_state = cJSON_GetObjectItemCaseSensitive(cJSON_GetObjectItemCaseSensitive(rq, "params"), "value") != NULL;
	const cJSON *id = cJSON_GetObjectItemCaseSensitive(rq, "id");
	char *t = id ? cJSON_PrintUnformatted(id) : NULL;
	snprintf(r->idtext, sizeof(r->idtext), "%s", t ? t : "");
	free(t);
	char *pt = cJSON_PrintUnformatted(cJSON_GetObjectItemCaseSensitive(rq, "params"));
	snprintf(r->params, sizeof(r->params), "%s", pt && strlen(pt) < sizeof(r->params) ? pt : "");
	free(pt);
}
static void register_text(int c, const char *t)
{
	cJSON *j = cJSON_Parse(t);
	if (cJSON_IsArray(j)) {
		const cJSON *it;
		cJSON_ArrayForEach(it, j)
		{
			register_request(c, it);
		}
	} else if (cJSON_IsObject(j)) {
		register_request(c, j);
	}
	cJSON_Delete(j);
}

static void send(int c, const char *t)
{
	if (c >= 0 && !sim_conn_closed_by_daemon(c) && !sim_conn_client_gone(c)) {
		register_text(c, t);
		cl_send_text(c, t);
		jx_settle();
		note_fault(c);
	}
}

/* every element seen by a fresh subscriber is of the kind it was added as; elements whose add was acknowledged, whose
 * owner is still connected and that nobody tried to remove are still there */
static void check_element_integrity(void)
{
	int v = jx_open(CL_RAW);
	jx_sendf(v, "{\"id\":\"iv\",\"method\":\"fetch\",\"params\":{\"id\":\"integrity\"}}");
	jx_settle();
	bool seen[40] = {false};
	for (int i = 0; i < clients[v].nmsgs; i++) {
		struct cl_msg *m = &clients[v].msgs[i];
		if (m->cls != MC_NOTIFY) {
			continue;
		}
		const cJSON *params = cJSON_GetObjectItemCaseSensitive(m->json, "params");
		const cJSON *pa = cJSON_GetObjectItemCaseSensitive(params, "path");
		bool has_value = cJSON_GetObjectItemCaseSensitive(params, "value") != NULL;
		for (int k = 0; k < nregs; k++) {
			if (cJSON_IsString(pa) && strcmp(pa->valuestring, regs[k].path) == 0) {
				seen[k] = true;
				if (has_value != regs[k].is_state) {
					fail15("element-kind-changed", "'%s' was added as a %s but a fresh subscriber is told about a %s", regs[k].path, regs[k].is_state ? "state" : "method", has_value ? "state" : "method");
				}
			}
		}
	}
	for (int k = 0; k < nregs; k++) {
		struct regel *r = &regs[k];
		if (seen[k] || r->remove_sent || r->owner < 0 || sim_conn_closed_by_daemon(r->owner) || sim_conn_client_gone(r->owner) || r->idtext[0] == 0) {
			continue;
		}
		cJSON *id = cJSON_Parse(r->idtext);
		struct cl_msg *resp = id ? jx_find_response(r->owner, id, 0) : NULL;
		cJSON_Delete(id);
		if (jx_is_success(resp)) {
			fail15("acknowledged-element-lost", "the add of '%s' was acknowledged, its owner is still connected and nobody removed it, but a fresh subscriber is not told about it", r->path);
		}
	}
	/* a refused add leaves the path free: the same add, sent again by a fresh peer now that memory is available, must not find
	 * the path occupied (and must not trip over a stale index entry) */
	for (int k = 0; k < nregs; k++) {
		struct regel *r = &regs[k];
		if (seen[k] || r->idtext[0] == 0 || r->params[0] == 0 || r->owner < 0) {
			continue;
		}
		cJSON *id = cJSON_Parse(r->idtext);
		struct cl_msg *resp = id ? jx_find_response(r->owner, id, 0) : NULL;
		cJSON_Delete(id);
		if (resp == NULL || resp->cls != MC_ERROR || jx_error_code(resp) != -32603) {
			continue; /* only adds that were refused with an internal error (out of memory) */
		}
		int from = clients[v].nmsgs;
		jx_sendf(v, "{\"id\":\"retry%d\",\"method\":\"add\",\"params\":%s}", k, r->params);
		jx_settle();
		char rid[16];
		snprintf(rid, sizeof(rid), "retry%d", k);
		struct cl_msg *rr = jx_find_response_str(v, rid, from);
		bool occupied = rr != NULL && rr->cls == MC_ERROR && cJSON_GetObjectItemCaseSensitive(cJSON_GetObjectItemCaseSensitive(cJSON_GetObjectItemCaseSensitive(rr->json, "error"), "data"), "exists") != NULL;
		if (rr == NULL || occupied) { /* any other error means the request was not acceptable in the first place */
			fail15("refused-add-left-path-occupied", "the add of '%s' was refused for lack of memory; the same add by a fresh peer afterwards is answered with %.160s", r->path, rr ? rr->text : "(nothing)");
		}
		xp_count("refused_adds_retried", 1);
	}
	sim_client_fin(v);
	jx_settle();
}
static void reply(int c, const char *member)
{
	if (c >= 0 && !sim_conn_closed_by_daemon(c) && !sim_conn_client_gone(c)) {
		jx_reply_routed(c, member);
		jx_settle();
		note_fault(c);
	}
}

/* common preamble: bystander B owns a state and a method and holds a fetch-all; requester R is connected */
/* after the scenario every account still authenticates with exactly one password: the one that the acknowledged changes imply
 * (a change that was answered with an error or not at all leaves the previous password valid) */
static bool login_works(const char *user, const char *pw)
{
	int v = jx_open(CL_RAW);
	jx_sendf(v, "{\"id\":\"lg\",\"method\":\"authenticate\",\"params\":{\"user\":\"%s\",\"password\":\"%s\"}}", user, pw);
	jx_settle();
	bool ok = jx_is_success(jx_find_response_str(v, "lg", 0));
	sim_client_fin(v);
	jx_settle();
	return ok;
}

static void check_credentials(bool passwd_scenario)
{
	/* the two changes of scenario 'passwd' in order; a change that was acknowledged is in effect, one that was answered with an error is
	 * not, one that got no answer at all (the allocation failed while the answer was built) may be either */
	static const char *const CAND[] = {"pw-one", "new-pw", "newer-pw"};
	bool possible[3] = {true, false, false};
	if (passwd_scenario) {
		struct cl_msg *a1 = B >= 0 ? jx_find_response_str(B, "bp", 0) : NULL;
		struct cl_msg *a2 = R >= 0 ? jx_find_response_num(R, 2, 0) : NULL;
		for (int step = 0; step < 2; step++) {
			struct cl_msg *a = step == 0 ? a1 : a2;
			bool next[3] = {false, false, false};
			for (int i = 0; i < 3; i++) {
				if (!possible[i]) {
					continue;
				}
				if (a == NULL || !jx_is_success(a)) {
					next[i] = true; /* refused, or unanswered and without effect */
				}
				if (a == NULL || jx_is_success(a)) {
					next[step + 1] = true; /* acknowledged, or unanswered but in effect */
				}
			}
			memcpy(possible, next, sizeof(possible));
		}
	}
	int works = 0, which = -1;
	for (int i = 0; i < 3; i++) {
		if (login_works("u1", CAND[i])) {
			works++;
			which = i;
		}
	}
	if (works != 1 || !possible[which]) {
		char key[300];
		snprintf(key, sizeof(key), "credentials-damaged:%s", works == 0 ? "no-password-works" : works > 1 ? "several-passwords-work" : "wrong-password-valid");
		fail15(key, "after the scenario user u1 can authenticate with %d of {pw-one, new-pw, newer-pw}%s%s; the answers to the two changes allow:%s%s%s", works, works == 1 ? ": " : "", works == 1 ? CAND[which] : "", possible[0] ? " pw-one" : "", possible[1] ? " new-pw" : "", possible[2] ? " newer-pw" : "");
	}
	if (!login_works("adm", "pw-adm")) {
		fail15("credentials-damaged:other-account", "after the scenario the administrator can no longer authenticate");
	}
}

static void pre_std(void)
{
	B = jx_open(CL_RAW);
	send(B, "{\"id\":\"b1\",\"method\":\"add\",\"params\":{\"path\":\"bs\",\"value\":1}}");
	send(B, "{\"id\":\"b2\",\"method\":\"add\",\"params\":{\"path\":\"bm\"}}");
	send(B, "{\"id\":\"b3\",\"method\":\"fetch\",\"params\":{\"id\":\"fb\"}}");
	R = jx_open(CL_RAW);
}
static void pre_std_ws(void)
{
	pre_std();
	sim_client_fin(R);
	jx_settle();
	R = jx_open(CL_WS);
}
static void pre_owner(void)
{
	pre_std();
	send(R, "{\"id\":\"p1\",\"method\":\"add\",\"params\":{\"path\":\"rs\",\"value\":{\"a\":[1,2,3]}}}");
	send(R, "{\"id\":\"p2\",\"method\":\"add\",\"params\":{\"path\":\"rm\"}}");
}
static void pre_owner_fetch(void)
{
	pre_owner();
	send(R, "{\"id\":\"p3\",\"method\":\"fetch\",\"params\":{\"id\":\"fr\",\"path\":{\"startsWith\":\"b\"}}}");
	send(R, "{\"id\":\"p4\",\"method\":\"fetch\",\"params\":{\"id\":2}}");
}
static void pre_inflight(void)
{
	pre_owner_fetch();
	send(R, "{\"id\":\"q1\",\"method\":\"call\",\"params\":{\"path\":\"bm\",\"args\":[1],\"timeout\":2}}");
	send(B, "{\"id\":\"q2\",\"method\":\"set\",\"params\":{\"path\":\"rs\",\"value\":5,\"timeout\":2}}");
}
static void pre_auth(void)
{
	/* authenticate first: it is refused once the peer holds a fetch */
	B = jx_open(CL_RAW);
	send(B, "{\"id\":\"ba\",\"method\":\"authenticate\",\"params\":{\"user\":\"adm\",\"password\":\"pw-adm\"}}");
	if (!jx_is_success(jx_find_response_str(B, "ba", 0))) {
		xp_harness_error("scenario set-up: the bystander could not authenticate as adm");
	}
	send(B, "{\"id\":\"b1\",\"method\":\"add\",\"params\":{\"path\":\"bs\",\"value\":1}}");
	send(B, "{\"id\":\"b2\",\"method\":\"add\",\"params\":{\"path\":\"bm\"}}");
	send(B, "{\"id\":\"b3\",\"method\":\"fetch\",\"params\":{\"id\":\"fb\"}}");
	R = jx_open(CL_RAW);
}
static void pre_none(void)
{
	B = jx_open(CL_RAW);
	jx_sendf(B, "{\"id\":\"b1\",\"method\":\"add\",\"params\":{\"path\":\"bs\",\"value\":1}}");
	jx_sendf(B, "{\"id\":\"b3\",\"method\":\"fetch\",\"params\":{\"id\":\"fb\"}}");
	jx_settle();
	R = -1;
}

static void body_connect_raw(void)
{
	R = cl_open(CL_RAW, ROLE_JET, ORG_DEFAULT);
	jx_settle();
	note_fault(R);
	send(R, "{\"id\":1,\"method\":\"info\"}");
}
static void body_connect_uds(void)
{
	R = cl_open(CL_RAW, ROLE_UDS, ORG_DEFAULT);
	jx_settle();
	note_fault(R);
	send(R, "{\"id\":1,\"method\":\"info\"}");
}
static void body_connect_ws(void)
{
	R = cl_open(CL_WS, ROLE_HTTP, ORG_DEFAULT);
	sim_client_send(R, CL_WS_UPGRADE_REQUEST, strlen(CL_WS_UPGRADE_REQUEST));
	jx_settle();
	note_fault(R);
	send(R, "{\"id\":1,\"method\":\"info\"}");
}
static void body_http_refused(void)
{
	W = cl_open(CL_BYTES, ROLE_HTTP, ORG_DEFAULT);
	const char *rq = "GET /nothing HTTP/1.1\r\nHost: x\r\n\r\n";
	sim_client_send(W, rq, strlen(rq));
	jx_settle();
}
static void body_add_state(void)
{
	send(R, "{\"id\":1,\"method\":\"add\",\"params\":{\"path\":\"new\",\"value\":{\"k\":[1,\"two\",null]},\"timeout\":2.5}}");
	send(R, "{\"id\":2,\"method\":\"change\",\"params\":{\"path\":\"new\",\"value\":7}}");
}
static void body_add_method(void)
{
	send(R, "{\"id\":1,\"method\":\"add\",\"params\":{\"path\":\"newm\"}}");
}
static void body_add_access(void)
{
	send(R, "{\"id\":1,\"method\":\"add\",\"params\":{\"path\":\"acc\",\"value\":1,\"fetchOnly\":true,\"access\":{\"fetchGroups\":[\"g1\"],\"setGroups\":[\"g1\"]}}}");
	send(R, "{\"id\":2,\"method\":\"add\",\"params\":{\"path\":\"accm\",\"access\":{\"fetchGroups\":[\"g1\"],\"callGroups\":[\"g1\"]}}}");
}
static void body_add_errors(void)
{
	send(R, "{\"id\":1,\"method\":\"add\",\"params\":{\"path\":\"bs\",\"value\":1}}");
	send(R, "{\"id\":2,\"method\":\"add\",\"params\":{\"value\":1}}");
	send(R, "{\"id\":3,\"method\":\"add\",\"params\":{\"path\":\"x\",\"value\":1,\"access\":{\"fetchGroups\":5}}}");
	send(R, "{\"id\":4,\"method\":\"nosuch\"}");
	send(R, "{\"id\":5}");
}
static void body_remove(void)
{
	send(R, "{\"id\":1,\"method\":\"remove\",\"params\":{\"path\":\"rs\"}}");
	send(R, "{\"id\":2,\"method\":\"remove\",\"params\":{\"path\":\"rs\"}}");
}
static void body_change(void)
{
	send(R, "{\"id\":1,\"method\":\"change\",\"params\":{\"path\":\"rs\",\"value\":{\"deep\":{\"er\":[1,2,{\"x\":null}]}}}}");
	send(R, "{\"id\":2,\"method\":\"change\",\"params\":{\"path\":\"bs\",\"value\":1}}");
}
static void body_fetch(void)
{
	send(R, "{\"id\":1,\"method\":\"fetch\",\"params\":{\"id\":\"f1\",\"path\":{\"startsWith\":\"b\",\"contains\":\"s\",\"caseInsensitive\":true,\"containsAllOf\":[\"b\",\"s\"]}}}");
	send(R, "{\"id\":2,\"method\":\"fetch\",\"params\":{\"id\":\"f2\"}}");
	send(R, "{\"id\":3,\"method\":\"fetch\",\"params\":{\"id\":\"f2\"}}");
	send(B, "{\"id\":\"bc\",\"method\":\"change\",\"params\":{\"path\":\"bs\",\"value\":2}}");
	send(B, "{\"id\":\"bd\",\"method\":\"add\",\"params\":{\"path\":\"bnew\",\"value\":3}}");
}
static void body_unfetch(void)
{
	send(R, "{\"id\":1,\"method\":\"unfetch\",\"params\":{\"id\":\"fr\"}}");
	send(R, "{\"id\":2,\"method\":\"unfetch\",\"params\":{\"id\":\"fr\"}}");
}
static void body_get(void)
{
	send(R, "{\"id\":1,\"method\":\"get\",\"params\":{\"path\":{\"equals\":\"bs\",\"endsWith\":\"s\"}}}");
	send(R, "{\"id\":2,\"method\":\"get\",\"params\":{}}");
}
static void body_set_reply(void)
{
	send(R, "{\"id\":1,\"method\":\"set\",\"params\":{\"path\":\"bs\",\"value\":{\"v\":[1,2]},\"timeout\":1.5}}");
	reply(B, "\"result\":{\"ok\":[true]}");
	send(R, "{\"method\":\"set\",\"params\":{\"path\":\"bs\",\"value\":2}}");
	reply(B, "\"error\":{\"code\":7,\"message\":\"no\"}");
}
static void body_call_timeout(void)
{
	send(R, "{\"id\":\"c1\",\"method\":\"call\",\"params\":{\"path\":\"bm\",\"args\":[1,2],\"timeout\":0.5}}");
	jx_expire_all_timers(2);
	note_fault(-1);
	reply(B, "\"result\":1");
}
static void body_owner_leaves(void)
{
	sim_client_fin(B);
	jx_settle();
	note_fault(B);
	B = -1;
}
static void body_requester_leaves(void)
{
	sim_client_fin(R);
	jx_settle();
	note_fault(R);
}
static void body_requester_reset(void)
{
	sim_client_reset(R, RST_EPOLL);
	jx_settle();
	note_fault(R);
}
static void body_config_info(void)
{
	send(R, "{\"id\":1,\"method\":\"config\",\"params\":{\"name\":\"a peer name\"}}");
	send(R, "{\"id\":2,\"method\":\"config\",\"params\":{\"name\":\"another peer name\"}}");
	send(R, "{\"id\":3,\"method\":\"info\"}");
	send(R, "{");
}
static void body_auth(void)
{
	send(R, "{\"id\":1,\"method\":\"authenticate\",\"params\":{\"user\":\"u1\",\"password\":\"wrong\"}}");
	send(R, "{\"id\":2,\"method\":\"authenticate\",\"params\":{\"user\":\"u1\",\"password\":\"pw-one\"}}");
	send(R, "{\"id\":3,\"method\":\"authenticate\",\"params\":{\"user\":\"adm\",\"password\":\"pw-adm\"}}");
	send(R, "{\"id\":4,\"method\":\"get\",\"params\":{}}");
}
static void body_passwd(void)
{
	send(B, "{\"id\":\"bp\",\"method\":\"passwd\",\"params\":{\"user\":\"u1\",\"password\":\"new-pw\"}}");
	send(R, "{\"id\":1,\"method\":\"authenticate\",\"params\":{\"user\":\"u1\",\"password\":\"new-pw\"}}");
	send(R, "{\"id\":2,\"method\":\"passwd\",\"params\":{\"user\":\"u1\",\"password\":\"newer-pw\"}}");
	send(R, "{\"id\":3,\"method\":\"authenticate\",\"params\":{\"user\":\"u1\",\"password\":\"newer-pw\"}}");
}
static void body_batch(void)
{
	send(R, "[{\"id\":1,\"method\":\"add\",\"params\":{\"path\":\"ba1\",\"value\":1}},{\"id\":2,\"method\":\"change\",\"params\":{\"path\":\"ba1\",\"value\":2}},{\"method\":\"info\"},{\"id\":3,\"method\":\"get\",\"params\":{}},7]");
}
static void body_ws_frames(void)
{
	send(R, "{\"id\":1,\"method\":\"add\",\"params\":{\"path\":\"wsx\",\"value\":\"\\u00e4\"}}");
	struct bytebuf f = {0};
	cl_frame_ws(&f, 9, true, 0, true, 0, "ping!", 5);
	cl_frame_ws(&f, 1, false, 0, true, 0, "{\"id\":2,", 8);
	sim_client_send(R, f.p, f.len);
	jx_settle();
	note_fault(R);
	bb_free(&f);
}
static void body_ws_close(void)
{
	struct bytebuf f = {0};
	uint8_t code[2] = {0x03, 0xe8};
	cl_frame_ws(&f, 8, true, 0, true, 0, code, 2);
	sim_client_send(R, f.p, f.len);
	jx_settle();
	note_fault(R);
	bb_free(&f);
}
static void body_sigterm(void)
{
	sim_sigterm();
	jx_settle();
}

static const struct scen SCEN[] = {
    {"connect-raw", false, pre_none, body_connect_raw},
    {"connect-uds", false, pre_none, body_connect_uds},
    {"connect-ws", false, pre_none, body_connect_ws},
    {"http-refused", false, pre_none, body_http_refused},
    {"add-state-change", false, pre_std, body_add_state},
    {"add-method", false, pre_std, body_add_method},
    {"add-with-access", true, pre_auth, body_add_access},
    {"add-errors", false, pre_std, body_add_errors},
    {"remove", false, pre_owner, body_remove},
    {"change", false, pre_owner, body_change},
    {"fetch-and-events", false, pre_std, body_fetch},
    {"unfetch", false, pre_owner_fetch, body_unfetch},
    {"get", false, pre_owner, body_get},
    {"set-reply", false, pre_std, body_set_reply},
    {"call-timeout-late-reply", false, pre_std, body_call_timeout},
    {"owner-leaves-with-requests-in-flight", false, pre_inflight, body_owner_leaves},
    {"requester-leaves-owning-fetching-in-flight", false, pre_inflight, body_requester_leaves},
    {"requester-reset", false, pre_inflight, body_requester_reset},
    {"config-info-garbage", false, pre_std, body_config_info},
    {"authenticate", true, pre_std, body_auth},
    {"passwd", true, pre_auth, body_passwd},
    {"batch", false, pre_std, body_batch},
    {"ws-add-ping-fragment", false, pre_std_ws, body_ws_frames},
    {"ws-close", false, pre_std_ws, body_ws_close},
    {"ws-set-reply", false, pre_std_ws, body_set_reply},
    {"ws-fetch-and-events", false, pre_std_ws, body_fetch},
    {"sigterm-with-peers", false, pre_inflight, body_sigterm},
};
#define NSCEN ((int)(sizeof(SCEN) / sizeof(SCEN[0])))

/* every request id of the requester is answered at most once */
static void check_at_most_one_response(int cid)
{
	if (cid < 0) {
		return;
	}
	struct client *c = &clients[cid];
	for (int i = 0; i < c->nmsgs; i++) {
		struct cl_msg *m = &c->msgs[i];
		if (m->cls != MC_RESULT && m->cls != MC_ERROR) {
			continue;
		}
		const cJSON *id = msg_id(m);
		if (id == NULL || cJSON_IsNull(id)) {
			continue;
		}
		int n = jx_count_responses(cid, id, 0);
		if (n > 1) {
			char *t = cJSON_PrintUnformatted(id);
			fail15("answered-twice", "request id %s was answered %d times", t, n);
		}
	}
	if (c->kind == CL_WS && c->frame_violation[0]) {
		fail15("server-frame-malformed", "%s", c->frame_violation);
	}
}

static void run(void)
{
	int nscen = (int)xp_param("scenarios", NSCEN);
	int si = xp_choose(nscen > NSCEN ? NSCEN : nscen, XP_SCENARIO, "scenario");
	const struct scen *sc = &SCEN[si];
	int cap = (int)xp_param("maxallocs", 400);
	int fill = (int)xp_param("fill", 0);
	int nth = fill ? 0 : xp_choose(cap + 1, XP_SCENARIO, "failing-allocation"); /* 0 = none (reference run) */
	int gap = -1;
	if (nth > 0) {
		int g = xp_choose((int)xp_param("window", 40) + 1, XP_DEV, "second-failing-allocation"); /* 0 = no second failure */
		gap = g > 0 ? g : -1;
	}
	scen_name = sc->name;
	snprintf(what, sizeof(what), "scenario '%s', allocation #%d fails%s", sc->name, nth, gap > 0 ? " and another one later" : "");
	struct sim_opts o = {0};
	o.passwd_file = sc->passwd ? pwfile() : NULL;
	jx_boot(&o);
	R = B = W = -1;
	involved = 0;
	nregs = 0;
	seen_failures = 0;
	fill_mode = fill != 0;
	sc->pre();
	if (fill) {
		/* fill the heap up to the configured cap: allocations now fail on their own */
		int F = jx_open(CL_RAW);
		char val[400];
		memset(val, 'f', 390);
		val[390] = 0;
		bool refused = false;
		for (int i = 0; i < 3000 && !refused; i++) {
			int from = clients[F].nmsgs;
			jx_sendf(F, "{\"id\":%d,\"method\":\"add\",\"params\":{\"path\":\"fill%d\",\"value\":\"%.*s\"}}", i, i, i % 7 == 6 ? 20 : 390, val);
			jx_settle();
			if (sim_conn_closed_by_daemon(F)) {
				refused = true;
				break;
			}
			struct cl_msg *m = jx_find_response_num(F, i, from);
			if (m == NULL || m->cls == MC_ERROR) {
				refused = true;
			}
		}
		if (!refused) {
			xp_harness_error("heap cap never reached");
		}
		snprintf(what, sizeof(what), "scenario '%s' with the heap filled up to the cap of %d KiB", sc->name, (int)CONFIG_MAX_HEAPSIZE_IN_KBYTE);
	}
	long before = sim_heap_allocs();
	if (nth > 0) {
		sim_heap_fail_nth(nth);
		if (gap > 0) {
			sim_heap_fail_second(gap);
		}
	}
	bool b_was_open = B >= 0;
	sc->body();
	const char *site = sim_heap_fail_site();
	bool fired = site != NULL && site[0] != 0;
	note_fault(-1);
	long used = sim_heap_allocs() - before;
	long nfail = sim_heap_failures();
	char sitecopy[140];
	snprintf(sitecopy, sizeof(sitecopy), "%s", site ? site : "");
	site = sitecopy;
	snprintf(fail_site_name, sizeof(fail_site_name), "%s", sitecopy);
	sim_heap_fail_nth(0); /* disarm: the aftermath runs without injected failures */
	if (gap > 0 && nfail < 2) {
		xp_count("runs_without_second_failure", 1);
		xp_end_run(); /* the scenario ended before the second failure was reached: same run as with one failure */
	}
	if (nth > 0 && !fired) {
		/* the scenario performs fewer than nth allocations: nothing was injected, this run repeats the reference run */
		if (used >= cap) {
			xp_harness_error("scenario %s performs %ld allocations, more than the enumeration cap %d", sc->name, used, cap);
		}
		xp_count("runs_beyond_allocation_count", 1);
		xp_end_run();
	}
	if (nth == 0 && !fill) {
		char cname[64];
		snprintf(cname, sizeof(cname), "allocs:%.40s", sc->name);
		xp_count(cname, used);
	}
	bool daemon_gone = sim_daemon_exited();
	if (daemon_gone && sc->body != body_sigterm) {
		fail15("daemon-exits", "the daemon left its event loop (exit code %d)", sim_daemon_exit_code());
	}
	if (!daemon_gone) {
		/* at most one response per request */
		check_at_most_one_response(R);
		check_at_most_one_response(B);
		/* the bystander is still connected and served (the connection the failing request arrived on may have been dropped) */
		/* the connection whose input was being processed when the allocation failed may be dropped; every other one must survive */
		int conns[2] = {B, R};
		for (int k = 0; k < 2; k++) {
			int c = conns[k];
			if (c < 0 || !sim_conn_closed_by_daemon(c) || sim_conn_client_gone(c)) {
				continue;
			}
			if (((involved >> c) & 1) || (k == 1 && (sc->body == body_ws_close || sc->body == body_config_info || sc->body == body_batch || sc->body == body_ws_frames))) { /* those scenarios end with input that costs R its connection anyway */
				xp_count("connection_of_the_failing_request_dropped", 1);
			} else {
				fail15("uninvolved-connection-dropped", "the daemon closed connection %s although no allocation failed while its input was being processed (involved connections: mask 0x%lx)", k == 0 ? "B" : "R", involved);
			}
		}
		(void)b_was_open;
		int probe = jx_open(CL_RAW);
		jx_sendf(probe, "{\"id\":\"pr1\",\"method\":\"info\"}");
		jx_sendf(probe, "{\"id\":\"pr2\",\"method\":\"add\",\"params\":{\"path\":\"probe-state\",\"value\":1}}");
		jx_sendf(probe, "{\"id\":\"pr3\",\"method\":\"get\",\"params\":{\"path\":{\"equals\":\"probe-state\"}}}");
		jx_settle();
		struct cl_msg *g = jx_find_response_str(probe, "pr3", 0);
		if (!fill && (!jx_is_success(jx_find_response_str(probe, "pr1", 0)) || !jx_is_success(jx_find_response_str(probe, "pr2", 0)) || g == NULL || g->cls != MC_RESULT || (!sc->passwd && cJSON_GetArraySize(cJSON_GetObjectItemCaseSensitive(g->json, "result")) != 1))) {
			fail15("not-serving-afterwards", "after the failed allocation a fresh connection's info / add / get is not served normally");
		}
		if (fill && (sim_conn_closed_by_daemon(probe) && !sim_conn_accepted(probe))) {
			fail15("not-accepting-afterwards", "at the heap cap a fresh connection is not even accepted");
		}
		if (B >= 0 && !sim_conn_closed_by_daemon(B) && !fill) {
			int fb = clients[B].nmsgs;
			jx_sendf(B, "{\"id\":\"bprobe\",\"method\":\"change\",\"params\":{\"path\":\"bs\",\"value\":4242}}");
			jx_settle();
			if (jx_find_response_str(B, "bprobe", fb) == NULL) {
				fail15("bystander-not-served", "the bystander's change is not answered afterwards");
			}
		}
		jx_expire_all_timers(6);
		check_at_most_one_response(R);
		check_at_most_one_response(B);
		if (!sc->passwd && !fill) {
			check_element_integrity();
		}
		if (sc->passwd && !fill) {
			check_credentials(sc->body == body_passwd);
		}
		/* the loaded credential set may legitimately have changed size */
		if (sc->body == body_passwd) {
			jx_ignore_accounted_heap = true;
		}
		jx_close_all();
		if (W >= 0 && !sim_conn_closed_by_daemon(W) && !sim_conn_client_gone(W)) {
			sim_client_fin(W);
			jx_settle();
		}
		char pfx[260];
		snprintf(pfx, sizeof(pfx), "leak:%s@%s:", sc->name, fail_site_name[0] ? fail_site_name : "-");
		jx_check_idle_baseline(pfx);
		jx_check_hygiene("hygiene:");
		snprintf(pfx, sizeof(pfx), "exit:%s@%s:", sc->name, fail_site_name[0] ? fail_site_name : "-");
		jx_sigterm_and_check(pfx);
	} else {
		/* SIGTERM scenario: everything must be released */
		if (sim_daemon_exit_code() != 0) {
			fail15("exit-status", "main() returned %d after SIGTERM", sim_daemon_exit_code());
		}
		if (sim_open_fds() != 0 || cjet_get_alloc_size() != 0 || sim_heap_live() != 0) {
			char kinds[100];
			sim_open_fd_summary(kinds, sizeof(kinds));
			fail15("not-released-at-exit", "after SIGTERM: %d descriptors open (%s), %zu bytes accounted, %ld raw blocks live", sim_open_fds(), kinds, cjet_get_alloc_size(), sim_heap_live());
		}
	}
	jx_check_hygiene("hygiene:");
	jx_log_transcripts();
	if (fired || fill) {
		xp_nontrivial();
		char cname[64];
		snprintf(cname, sizeof(cname), "site:%.50s", fired ? site : "(cap)");
		xp_count(cname, 1);
	}
	xp_transition();
	xp_outcome(hash_mix(hash64(site ? site : "", site ? strlen(site) : 0, 5), (uint64_t)si));
	xp_state(hash_mix((uint64_t)si * 1000 + (uint64_t)nth, (uint64_t)(gap + 1) * 7 + (uint64_t)fill));
}

const struct driver drv_c15 = {
    .name = "c15",
    .property = "C15",
    .run = run,
    .rule = "27 scenarios (connect on each listener, refused HTTP request, add state/method/with access groups, add error paths, remove, change, fetch with matchers + later events, unfetch, get, routed set with reply / error reply, call with timeout and late reply, owner leaves with requests in flight, requester leaves / is reset while owning, fetching and in flight, config/info/garbage, authenticate, passwd, batch, websocket add/ping/fragment, websocket close, websocket set and fetch, SIGTERM with peers) x the n-th allocation after the preamble returning NULL for every n from 1 to the number of allocations the scenario performs (runs with larger n repeat the reference run and are not counted); deviation budget 1: a second allocation fails k allocations after the first for every k in the window; fill=1: heap filled to the configured cap first; oracle: no crash / sanitizer report, every request id answered at most once, bystander not dropped and served, a fresh connection is served, every element is still of the kind it was added as, acknowledged elements are not lost and an add refused for lack of memory can be repeated successfully by a fresh peer, idle baseline (peers, heap, descriptors, timers) after all leave, descriptor hygiene, clean SIGTERM exit; findings keyed by (class, scenario, function containing the failing allocation); non-trivial = runs in which an allocation actually failed",
    .assumptions = "the connection on which the request with the failing allocation arrived may be dropped (counted as requester_dropped); every other connection must survive|allocation = malloc/calloc/realloc calls made by daemon objects (cjet_malloc and raw malloc in websocket.c / compression.c / zlib / cJSON hooks)",
};
