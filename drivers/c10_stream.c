/* C10 (daemon level) - outbound streams are whole frames in order, also when the kernel takes the bytes in pieces.
 * A subscriber S (raw or websocket) watches states that an owner changes N times with values of different sizes.  The
 * environment limits what the kernel accepts on S's connection: before step p the send window becomes w bytes (the next
 * writev calls accept at most w bytes in total, then would block); before step q > p it opens again (EPOLLOUT, flush).
 * Every (p, w, q) is executed and compared with the twin in which the window is never limited:
 *   - S's byte stream must decode into complete frames (the harness decoder reports torn / garbage bytes);
 *   - every frame S received is a frame of the twin's stream, in the twin's order (a subsequence: frames the daemon
 *     refused because the write buffer was full may be missing), unless the daemon closed the connection, in which case a
 *     prefix ending anywhere is legal;
 *   - the owner and a second subscriber are unaffected (identical streams). */
#define _GNU_SOURCE
#include <stdlib.h>
#include <string.h>

#include "common.h"
#include "generated/cjet_config.h"

static char what[300];
static void fail10(const char *key, const char *fmt, ...) __attribute__((noreturn, format(printf, 2, 3)));
static void fail10(const char *key, const char *fmt, ...)
{
	char m[1500];
	va_list ap;
	va_start(ap, fmt);
	vsnprintf(m, sizeof(m), fmt, ap);
	va_end(ap);
	jx_log_transcripts();
	xp_fail(key, "%s: %s", what, m);
}

static const int VSIZES[] = {1, 30, 3, 60, 10, 45, 2, 80, 20, 5};
#define NSTEPS ((int)(sizeof(VSIZES) / sizeof(VSIZES[0])))

static void transcript_lines(int cid, struct bytebuf *out)
{
	struct client *c = &clients[cid];
	for (int i = 0; i < c->nmsgs; i++) {
		struct cl_msg *m = &c->msgs[i];
		if (c->kind == CL_WS && m->wsop != 1) {
			continue;
		}
		bb_append(out, m->text, m->len);
		bb_append(out, "\n", 1);
	}
}

static void run(void)
{
	int ws = xp_choose(2, XP_SCENARIO, "subscriber-transport");
	static const int WINDOWS[] = {0, 1, 2, 3, 4, 5, 7, 10, 25, 40, 60, 95, 96, 97, 130, 200};
	int nw = (int)(sizeof(WINDOWS) / sizeof(WINDOWS[0]));
	int p = xp_choose(NSTEPS, XP_SCENARIO, "limit-before-step");
	if (xp_param("zero_only", 0)) {
		nw = 1; /* pure would-block: with a small write buffer a partial kernel write followed by a refusal is the known torn-frame finding of the module-level check */
	}
	int w = WINDOWS[xp_choose(nw, XP_SCENARIO, "window-bytes")];
	int q = p + 1 + xp_choose(NSTEPS - p, XP_SCENARIO, "reopen-before-step"); /* NSTEPS = reopen after the last step */
	int again = xp_choose(2, XP_DEV, "second-limit"); /* deviation: after reopening, the window is limited once more (to half of w) two steps later */
	int input_at_reopen = xp_choose(2, XP_SCENARIO, "input-at-reopen"); /* S sends something that needs no answer at the very moment its window reopens: readable and writable in one event */
	snprintf(what, sizeof(what), "%s subscriber: kernel accepts only %d byte(s) from step %d on, window reopens before step %d%s%s (write buffer %d bytes)", ws ? "websocket" : "raw", w, p, q, again ? ", limited again later" : "", input_at_reopen ? ", S sends an answerless message in the same event" : "", (int)CONFIG_MAX_WRITE_BUFFER_SIZE);
	int twin = xp_twin_begin();
	struct sim_opts o = {0};
	jx_boot(&o);
	int O = jx_open(CL_RAW);
	int S = jx_open(ws ? CL_WS : CL_RAW);
	int S2 = jx_open(ws ? CL_RAW : CL_WS);
	jx_sendf(O, "{\"id\":\"a\",\"method\":\"add\",\"params\":{\"path\":\"st\",\"value\":\"\"}}");
	jx_sendf(O, "{\"id\":\"b\",\"method\":\"add\",\"params\":{\"path\":\"other\",\"value\":0}}");
	jx_settle();
	jx_sendf(S, "{\"id\":\"f\",\"method\":\"fetch\",\"params\":{\"id\":\"s\"}}");
	jx_sendf(S2, "{\"id\":\"f\",\"method\":\"fetch\",\"params\":{\"id\":\"s2\"}}");
	jx_settle();
	for (int i = 0; i <= NSTEPS; i++) {
		if (!twin) {
			if (i == p) {
				sim_set_window(S, w);
			}
			if (i == q) {
				if (input_at_reopen) {
					struct bytebuf nb = {0};
					if (ws) {
						cl_frame_ws(&nb, 10, true, 0, true, 0, "x", 1); /* unsolicited pong */
					} else {
						static const uint8_t zero[4] = {0, 0, 0, 0}; /* zero-length message: skipped */
						bb_append(&nb, zero, 4);
					}
					sim_client_send(S, nb.p, nb.len);
					bb_free(&nb);
				}
				sim_set_window(S, -1);
				jx_settle();
				/* the socket takes everything again: whatever was queued for S must be on the wire now, up to the last byte of the last frame */
				const struct bytebuf *now = sim_conn_output(S);
				if (!sim_conn_closed_by_daemon(S) && now->len != clients[S].consumed) {
					char key[120];
					snprintf(key, sizeof(key), "backlog-not-flushed-when-writable:%s%s", ws ? "ws" : "raw", input_at_reopen ? ":with-input-in-the-same-event" : "");
					fail10(key, "the window reopened and the daemon is idle, but S's stream ends %zu byte(s) into a frame: the rest is still held back", now->len - clients[S].consumed);
				}
			}
			if (again && i == q + 2 && i < NSTEPS) {
				sim_set_window(S, w / 2);
			}
			if (again && i == q + 4) {
				sim_set_window(S, -1);
				jx_settle();
			}
		}
		if (i == NSTEPS) {
			break;
		}
		char val[100];
		memset(val, 'a' + i, (size_t)VSIZES[i]);
		val[VSIZES[i]] = 0;
		jx_sendf(O, "{\"id\":%d,\"method\":\"change\",\"params\":{\"path\":\"st\",\"value\":\"%s\"}}", i, val);
		jx_settle();
		if ((i & 3) == 3) {
			jx_sendf(O, "{\"id\":\"o%d\",\"method\":\"change\",\"params\":{\"path\":\"other\",\"value\":%d}}", i, i);
			jx_settle();
		}
	}
	if (!twin) {
		sim_set_window(S, -1);
	}
	jx_settle();
	jx_sendf(S, "{\"id\":\"end\",\"method\":\"info\"}");
	jx_settle();
	struct bytebuf mine = {0}, other = {0};
	bb_printf(&mine, "S closed=%d\n", sim_conn_closed_by_daemon(S));
	transcript_lines(S, &mine);
	bb_printf(&mine, "== O\n");
	/* the owner's responses may legitimately turn into errors when a notification could not be queued: compare only their count and ids */
	for (int i = 0; i < clients[O].nmsgs; i++) {
		const cJSON *id = msg_id(&clients[O].msgs[i]);
		char *t = id ? cJSON_PrintUnformatted(id) : strdup("-");
		bb_printf(&mine, "answer %s\n", t);
		free(t);
	}
	bb_printf(&mine, "== S2 closed=%d\n", sim_conn_closed_by_daemon(S2));
	transcript_lines(S2, &mine);
	if (twin) {
		xp_twin_end(&mine, NULL);
	}
	xp_twin_end(&mine, &other);
	bb_append(&mine, "", 1);
	bb_append(&other, "", 1);
	/* 1. the stream decodes into whole frames */
	struct client *c = &clients[S];
	if (c->frame_violation[0]) {
		fail10("server-frame-malformed", "%s", c->frame_violation);
	}
	const struct bytebuf *raw = sim_conn_output(S);
	bool closed = sim_conn_closed_by_daemon(S);
	if (raw->len != c->consumed && !closed) {
		char key[100];
		snprintf(key, sizeof(key), "torn-frame-in-open-connection:%s", ws ? "ws" : "raw");
		fail10(key, "the connection is still open but %zu trailing byte(s) of its stream are not a complete frame", raw->len - c->consumed);
	}
	for (int i = 0; i < c->nmsgs; i++) {
		if ((!ws || c->msgs[i].wsop == 1) && c->msgs[i].json == NULL) {
			char key[100];
			snprintf(key, sizeof(key), "frame-content-damaged:%s", ws ? "ws" : "raw");
			fail10(key, "frame %d of the subscriber's stream is not the JSON text of one message: %.120s", i, c->msgs[i].text);
		}
	}
	/* 2. S's frames are a subsequence of the twin's frames (prefix of a subsequence if closed); everything after "== O" must be identical */
	char *ms = strstr((char *)mine.p, "== O\n"), *os = strstr((char *)other.p, "== O\n");
	if (ms == NULL || os == NULL) {
		xp_harness_error("transcript without owner section");
	}
	if (strcmp(ms, os) != 0) {
		xp_logf("---- limited ----\n%s---- unlimited ----\n%s", ms, os);
		fail10("other-connections-affected", "the owner's answers or the second subscriber's stream differ from the run without the limit");
	}
	*ms = 0;
	*os = 0;
	char *sa = NULL, *sb = NULL;
	char *la = strtok_r((char *)mine.p, "\n", &sa); /* "S closed=..." */
	char *lb = strtok_r((char *)other.p, "\n", &sb);
	la = strtok_r(NULL, "\n", &sa);
	lb = strtok_r(NULL, "\n", &sb);
	int matched = 0, skipped = 0;
	while (la != NULL) {
		while (lb != NULL && strcmp(la, lb) != 0) {
			lb = strtok_r(NULL, "\n", &sb);
			skipped++;
		}
		if (lb == NULL) {
			char key[100];
			snprintf(key, sizeof(key), "frame-not-in-unlimited-stream-order:%s", ws ? "ws" : "raw");
			fail10(key, "the subscriber received a frame that does not occur (at this position) in the stream of the run without the limit - duplicated, reordered or altered: %.160s", la);
		}
		matched++;
		la = strtok_r(NULL, "\n", &sa);
		lb = strtok_r(NULL, "\n", &sb);
	}
	xp_count("frames_matched", matched);
	xp_count("frames_missing_after_refusal", skipped);
	if (closed) {
		xp_count("subscriber_closed_by_daemon", 1);
	}
	jx_close_all();
	jx_check_idle_baseline("left-behind:");
	jx_check_hygiene("hygiene:");
	xp_nontrivial();
	xp_transition();
	xp_outcome(hash64(raw->p, raw->len, 10));
	xp_state(hash_mix((uint64_t)ws * 100000 + (uint64_t)p * 1000 + (uint64_t)w, (uint64_t)q * 4 + (uint64_t)again * 2 + (uint64_t)input_at_reopen));
}


/* ---- section 1: responses larger than what socket and write buffer take together ------------------------------------------
 * A requester asks for something whose answer is one big frame (get over many states) - alone, first, in the middle or last in a
 * batch, or followed by another request in the same chunk - while the kernel accepts only w bytes on its connection.  If the rest
 * of the frame does not fit into the write buffer the frame cannot be completed: the daemon must close the connection; what the
 * requester has received then is whole frames and at most one cut-off frame at the very end, never a cut-off frame followed by
 * other data.  If it fits, the stream must equal the unlimited twin's. */
static void run_responses(void)
{
	static const char *const FORMS[] = {"[%s]", "[%s,%s]", "[%s,%s,%s]", "[%s,%s]", "%s"};
	int form = xp_choose(6, XP_SCENARIO, "request-form"); /* 0 batch [get]; 1 batch [get,info]; 2 batch [info,get,info]; 3 batch [info,get]; 4 get alone; 5 get and info as two messages in one chunk */
	int ws = xp_choose(2, XP_SCENARIO, "requester-transport");
	static const int WINDOWS[] = {1, 3, 4, 5, 50, 1000, 3000, 3600, 3680, 3700, 3800, 5000, 8000, 20000};
	int nstates = (int)xp_param("states", 70);
	int w = WINDOWS[xp_choose((int)(sizeof(WINDOWS) / sizeof(WINDOWS[0])), XP_SCENARIO, "window-bytes")];
	if (xp_param("small_windows", 0)) {
		w = 1 + (w % 97);
	}
	int reopen = xp_choose(2, XP_SCENARIO, "window-reopens-afterwards");
	int kmode = xp_choose(2, XP_SCENARIO, "kernel-behaviour"); /* 0: w bytes in total, then would block; 1: the next writev takes only w bytes, every later one everything (a short write) */
	int own = xp_choose(2, XP_SCENARIO, "requester-owns-and-fetches-states"); /* the requester also owns three states and subscribes to them itself */
	snprintf(what, sizeof(what), "%s requester%s, request form %d, the kernel accepts %d byte(s) of the answer (%s)%s (write buffer %d bytes)", ws ? "websocket" : "raw", own ? " that owns and fetches states of its own" : "", form, w, kmode ? "one short write, then everything" : "then would block", reopen ? ", later everything" : "", (int)CONFIG_MAX_WRITE_BUFFER_SIZE);
	int twin = xp_twin_begin();
	struct sim_opts o = {0};
	jx_boot(&o);
	int O = jx_open(CL_RAW);
	int S = jx_open(ws ? CL_WS : CL_RAW);
	int S2 = jx_open(CL_RAW);
	for (int i = 0; i < nstates; i++) {
		jx_sendf(O, "{\"id\":%d,\"method\":\"add\",\"params\":{\"path\":\"big/%03d\",\"value\":\"%060d\"}}", i, i, i);
		if ((i & 7) == 7) {
			jx_settle();
		}
	}
	jx_settle();
	if (own) {
		for (int i = 0; i < 3; i++) {
			jx_sendf(S, "{\"id\":\"own%d\",\"method\":\"add\",\"params\":{\"path\":\"own/%d\",\"value\":%d}}", i, i, i);
		}
		jx_sendf(S, "{\"id\":\"ownf\",\"method\":\"fetch\",\"params\":{\"id\":\"mine\",\"path\":{\"startsWith\":\"own/\"}}}");
		jx_settle();
	}
	const char *get = "{\"id\":\"g\",\"method\":\"get\",\"params\":{\"path\":{\"startsWith\":\"big/\"}}}";
	const char *info = "{\"id\":\"i\",\"method\":\"info\"}", *info2 = "{\"id\":\"j\",\"method\":\"info\"}";
	char rq[600];
	switch (form) {
	case 0:
		snprintf(rq, sizeof(rq), FORMS[0], get);
		break;
	case 1:
		snprintf(rq, sizeof(rq), FORMS[1], get, info);
		break;
	case 2:
		snprintf(rq, sizeof(rq), FORMS[2], info, get, info2);
		break;
	case 3:
		snprintf(rq, sizeof(rq), FORMS[3], info, get);
		break;
	default:
		snprintf(rq, sizeof(rq), "%s", get);
	}
	if (!twin) {
		if (kmode) {
			sim_write_cap_once(S, w);
		} else {
			sim_set_window(S, w);
		}
	}
	if (form == 5) {
		struct bytebuf b = {0};
		cl_frame_for(S, &b, get);
		cl_frame_for(S, &b, info);
		sim_client_send(S, b.p, b.len);
		bb_free(&b);
	} else {
		cl_send_text(S, rq);
	}
	jx_settle();
	if (!twin && reopen) {
		sim_set_window(S, -1);
		jx_settle();
	}
	jx_sendf(S2, "{\"id\":\"b\",\"method\":\"info\"}");
	jx_settle();
	if (!sim_conn_closed_by_daemon(S) && sim_conn_unread(S) == 0) {
		jx_sendf(S, "{\"id\":\"end\",\"method\":\"info\"}");
		jx_settle();
	}
	if (!twin) {
		sim_set_window(S, -1);
		jx_settle();
	}
	struct bytebuf mine = {0}, other = {0};
	transcript_lines(S, &mine);
	bb_printf(&mine, "== S2 closed=%d\n", sim_conn_closed_by_daemon(S2));
	transcript_lines(S2, &mine);
	if (twin) {
		xp_twin_end(&mine, NULL);
	}
	xp_twin_end(&mine, &other);
	bb_append(&mine, "", 1);
	bb_append(&other, "", 1);
	const struct bytebuf *raw = sim_conn_output(S);
	bool closed = sim_conn_closed_by_daemon(S);
	char *ms = strstr((char *)mine.p, "== S2"), *os = strstr((char *)other.p, "== S2");
	if (ms == NULL || os == NULL || strcmp(ms, os) != 0) {
		fail10("other-connections-affected:response", "the bystander's stream differs from the run without the limit");
	}
	*ms = 0;
	*os = 0;
	/* E: the byte stream the requester gets without the limit, rebuilt from the twin's messages (server frames: unmasked, final, minimal
	 * length); A: what it got.  Open connection: A = E.  Closed connection: A is a prefix of E, cut anywhere - nothing but the
	 * beginning of a frame follows the last whole frame. */
	struct bytebuf E = {0};
	size_t bounds[400];
	int nb = 0;
	for (char *sv = NULL, *l = strtok_r((char *)other.p, "\n", &sv); l != NULL; l = strtok_r(NULL, "\n", &sv)) {
		if (ws) {
			cl_frame_ws(&E, 1, true, 0, false, 0, l, strlen(l));
		} else {
			cl_frame_raw(&E, l, strlen(l));
		}
		if (nb < 400) {
			bounds[nb++] = E.len;
		}
	}
	size_t off = 0;
	if (ws) {
		const uint8_t *h = memmem(raw->p, raw->len, "\r\n\r\n", 4);
		if (h == NULL) {
			xp_harness_error("no handshake response in the requester's stream");
		}
		off = (size_t)(h - raw->p) + 4;
	}
	const uint8_t *A = raw->p + off;
	size_t alen = raw->len - off, cp = 0;
	while (cp < alen && cp < E.len && A[cp] == E.p[cp]) {
		cp++;
	}
	bool at_boundary = cp == 0;
	for (int k = 0; k < nb; k++) {
		at_boundary |= bounds[k] == cp;
	}
	if (!closed) {
		if (cp != alen || alen != E.len) {
			char key[120];
			snprintf(key, sizeof(key), "%s:response:%s", cp == alen ? "torn-frame-in-open-connection" : "open-connection-stream-differs", ws ? "ws" : "raw");
			fail10(key, "the connection stayed open, so every answer could be completed - but its stream (%zu bytes) equals the stream of the run without the limit (%zu bytes) only in the first %zu bytes", alen, E.len, cp);
		}
		xp_count("answer_completed", 1);
	} else {
		if (cp != alen) {
			size_t rest = alen - cp;
			bool close_frame = ws && rest == 4 && A[cp] == 0x88 && A[cp + 1] == 0x02;
			if (close_frame && at_boundary) {
				xp_count("closed_with_a_close_frame_between_frames", 1);
			} else if (close_frame) {
				fail10("ws-close-frame-follows-cut-off-frame:response", "%zu bytes into the stream a frame is cut off (the kernel took only part of it and the rest did not fit the write buffer) and a websocket close frame (status %d) follows it before the connection is closed: part of a frame followed by other data", cp, (A[cp + 2] << 8) | A[cp + 3]);
			} else {
				char key[120];
				snprintf(key, sizeof(key), "cut-off-frame-followed-by-other-data:response:%s", ws ? "ws" : "raw");
				fail10(key, "the daemon closed the connection; its stream equals the stream of the run without the limit in the first %zu bytes (%s a frame boundary), then %zu other byte(s) follow", cp, at_boundary ? "at" : "not at", rest);
			}
		}
		xp_count("connection_closed_because_a_frame_could_not_be_completed", 1);
	}
	bb_free(&E);
	jx_close_all();
	jx_check_idle_baseline("left-behind:");
	jx_check_hygiene("hygiene:");
	xp_nontrivial();
	xp_transition();
	xp_outcome(hash64(raw->p, raw->len, 10));
	xp_state(hash_mix((uint64_t)form * 100000 + (uint64_t)w * 4 + (uint64_t)ws * 2 + (uint64_t)reopen, 3 + 8 * (uint64_t)kmode + 16 * (uint64_t)own));
}

static void run_all(void)
{
	if (xp_param("section", 0) == 1) {
		run_responses();
	} else {
		run();
	}
}

const struct driver drv_c10s = {
    .name = "c10s",
    .property = "C10",
    .run = run_all,
    .rule = "daemon level: an owner changes a state 10 times (value sizes 1..80 bytes) plus another state; subscriber S (raw / websocket) and a second subscriber of the other transport watch; for every step p, every window w in {0,1,2,3,4,5,7,10,25,40,60,95,96,97,130,200} bytes and every later step q the kernel accepts only w bytes on S's connection from p on and everything again from q on, with or without an answerless message from S arriving in the same event as the writability (deviation: limited a second time later); when the window has reopened and the daemon is idle S's stream ends on a frame boundary; compared with the unlimited twin: S's stream decodes into complete frames, its frames are a subsequence of the twin's frames in order (prefix if the daemon closed it), the other connections see identical streams; non-trivial = all runs | section 1: a requester (raw / websocket) asks for an answer of one big frame (get over 70 states, ~6 KB) alone, at every position of a batch, or followed by another request in the same chunk, while the kernel accepts only w bytes (14 windows around frame size minus write buffer; in total and then blocks, or as one short write after which it takes everything) and later everything or not, the requester optionally owning and fetching states of its own: either the connection stays open and its stream equals the unlimited twin's, or the daemon closed it and the requester holds whole frames that are a prefix of the twin's plus at most one cut-off frame at the very end whose bytes are the beginning of the twin's next frame and nothing else; the bystander is unaffected",
    .assumptions = "frames the daemon refused to queue for S (write buffer full) may be missing from S's stream; that S then has an incomplete replica is C11's / C01's subject",
};
