/* C14 - routed-request deadlines: right value, never early, exactly one outcome.
 * section 0: timeout value x precedence product on the virtual clock (never early / prompt / late reply discarded)
 * section 1: all batch compositions and dispatch orders of events that become ready together
 *            (owner reply, expiry, caller disconnect, owner disconnect, a second request's expiry). */
#include <math.h>
#include <stdlib.h>
#include <string.h>

#include "common.h"
#include "generated/cjet_config.h"

static const char *const REQ_TO[] = {NULL, "0.0005", "0.001", "0.25", "2", "\"x\"", "-1", "1e30", "0", "true", "0.0009999", "5.5", "1.8e10", "2e10", "1e12", "1e15", "1.8e19", "1e20"};
static const double REQ_TO_V[] = {0, 0.0005, 0.001, 0.25, 2, -2, -1, 1e30, 0, -2, 0.0009999, 5.5, 1.8e10, 2e10, 1e12, 1e15, 1.8e19, 1e20}; /* -2 = not a number; the last six lie around 2^64 ns and 2^64 s */
#define NREQ_TO 18
static const char *const EL_TO[] = {NULL, "1.5", "0.0005", "\"x\"", "0.002", "1e12"};
static const double EL_TO_V[] = {0, 1.5, 0.0005, -2, 0.002, 1e12};
#define NEL_TO 6

static void fail_t(const char *key, const char *fmt, ...) __attribute__((noreturn, format(printf, 2, 3)));
static void fail_t(const char *key, const char *fmt, ...)
{
	char m[1500];
	va_list ap;
	va_start(ap, fmt);
	vsnprintf(m, sizeof(m), fmt, ap);
	va_end(ap);
	jx_log_transcripts();
	xp_fail(key, "%s", m);
}

static int count_answers(int cid, const char *idtext, int from, struct cl_msg **last)
{
	cJSON *id = cJSON_Parse(idtext);
	int n = 0;
	for (int i = from; i < clients[cid].nmsgs; i++) {
		struct cl_msg *m = &clients[cid].msgs[i];
		if ((m->cls == MC_RESULT || m->cls == MC_ERROR) && json_equal(msg_id(m), id)) {
			n++;
			if (last) {
				*last = m;
			}
		}
	}
	cJSON_Delete(id);
	return n;
}

static int count_routed(int cid, int from)
{
	int n = 0;
	for (int i = from; i < clients[cid].nmsgs; i++) {
		if (clients[cid].msgs[i].cls == MC_ROUTED) {
			n++;
		}
	}
	return n;
}

static void run_values(void)
{
	int rt = xp_choose(NREQ_TO, XP_SCENARIO, "request-timeout");
	int et = xp_choose(NEL_TO, XP_SCENARIO, "element-timeout");
	int is_call = xp_choose(2, XP_SCENARIO, "kind");
	int ending = xp_choose(3, XP_SCENARIO, "ending"); /* 0 expiry then late reply, 1 reply just before the deadline, 2 expiry in two steps with a second request */
	enum cl_kind kk = xp_choose(2, XP_SCENARIO, "caller-transport") ? CL_WS : CL_RAW;
	struct sim_opts o = {0};
	jx_boot(&o);
	int O = jx_open(CL_RAW), K = jx_open(kk);
	char elto[64] = "";
	if (EL_TO[et]) {
		snprintf(elto, sizeof(elto), ",\"timeout\":%s", EL_TO[et]);
	}
	if (is_call) {
		jx_sendf(O, "{\"id\":\"a\",\"method\":\"add\",\"params\":{\"path\":\"e\"%s}}", elto);
	} else {
		jx_sendf(O, "{\"id\":\"a\",\"method\":\"add\",\"params\":{\"path\":\"e\",\"value\":1%s}}", elto);
	}
	jx_settle();
	struct cl_msg *ar = jx_find_response_str(O, "a", 0);
	bool el_valid = EL_TO[et] == NULL || (EL_TO_V[et] >= 0.001);
	if (ar == NULL) {
		fail_t("add-unanswered", "add with timeout %s was not answered", EL_TO[et] ? EL_TO[et] : "(none)");
	}
	if (!el_valid) {
		/* timeouts below one millisecond or of non-numeric type are refused */
		if (ar->cls != MC_ERROR) {
			char key[100];
			snprintf(key, sizeof(key), "add-accepts-invalid-timeout:%s", EL_TO[et]);
			fail_t(key, "add with element timeout %s must be refused but was accepted", EL_TO[et]);
		}
		xp_nontrivial();
		xp_transition();
		xp_state(hash_mix(77, (uint64_t)et));
		return;
	}
	if (ar->cls != MC_RESULT) {
		char key[100];
		snprintf(key, sizeof(key), "add-refuses-valid-timeout:%s", EL_TO[et] ? EL_TO[et] : "none");
		fail_t(key, "add with valid element timeout %s was refused: %s", EL_TO[et] ? EL_TO[et] : "(none)", ar->text);
	}
	char rqto[64] = "";
	if (REQ_TO[rt]) {
		snprintf(rqto, sizeof(rqto), ",\"timeout\":%s", REQ_TO[rt]);
	}
	int fromK = clients[K].nmsgs, fromO = clients[O].nmsgs;
	uint64_t t0 = sim_now();
	jx_sendf(K, "{\"id\":\"r\",\"method\":\"%s\",\"params\":{\"path\":\"e\",\"%s\":[7]%s}}", is_call ? "call" : "set", is_call ? "args" : "value", rqto);
	jx_settle();
	bool rq_given = REQ_TO[rt] != NULL;
	bool rq_valid = !rq_given || REQ_TO_V[rt] >= 0.001;
	char what[200];
	snprintf(what, sizeof(what), "%s with request timeout %s on an element with timeout %s", is_call ? "call" : "set", REQ_TO[rt] ? REQ_TO[rt] : "(none)", EL_TO[et] ? EL_TO[et] : "(none)");
	if (!rq_valid) {
		struct cl_msg *m = NULL;
		int n = count_answers(K, "\"r\"", fromK, &m);
		char key[120];
		if (count_routed(O, fromO) != 0) {
			snprintf(key, sizeof(key), "invalid-timeout-routed:%s", REQ_TO[rt]);
			fail_t(key, "%s: must be refused but was routed to the owner", what);
		}
		if (n != 1 || m->cls != MC_ERROR) {
			snprintf(key, sizeof(key), "invalid-timeout-not-refused:%s", REQ_TO[rt]);
			fail_t(key, "%s: must be refused with exactly one error response (got %d answer(s))", what, n);
		}
		if (sim_armed_timers() != 0) {
			snprintf(key, sizeof(key), "invalid-timeout-arms-timer:%s", REQ_TO[rt]);
			fail_t(key, "%s: refused but a timer is armed", what);
		}
		xp_nontrivial();
		xp_transition();
		xp_state(hash_mix(78, (uint64_t)rt * 10 + (uint64_t)et));
		return;
	}
	double secs = rq_given ? REQ_TO_V[rt] : (EL_TO[et] ? EL_TO_V[et] : 5.0);
	/* the daemon converts seconds to nanoseconds with (uint64_t)(seconds * 1e9): compute the same way; allow one ns of rounding */
	bool huge = secs * 1000000000.0 >= 1.8e19; /* beyond what 64 bit of nanoseconds hold (from about 584 years on): effectively never */
	uint64_t want_ns = huge ? 0 : (uint64_t)(secs * 1000000000.0);
	if (count_routed(O, fromO) != 1) {
		char key[120];
		snprintf(key, sizeof(key), "valid-timeout-not-routed:req=%s:el=%s", REQ_TO[rt] ? REQ_TO[rt] : "none", EL_TO[et] ? EL_TO[et] : "none");
		fail_t(key, "%s: should be routed to the owner exactly once, but %d routed message(s) arrived and the caller got %d answer(s)", what, count_routed(O, fromO), count_answers(K, "\"r\"", fromK, NULL));
	}
	if (count_answers(K, "\"r\"", fromK, NULL) != 0) {
		fail_t("answer-before-deadline", "%s: answered immediately although it was routed", what);
	}
	uint64_t d;
	if (!sim_next_deadline(&d)) {
		fail_t("no-timer-armed", "%s: routed but no timer is armed for its deadline", what);
	}
	if (huge) {
		/* deadline effectively never: nothing may happen for a very long time */
		if (d - t0 < 1000000000ULL * 1000000ULL) {
			fail_t("huge-timeout-armed-short", "%s: timer armed for only %llu ns", what, (unsigned long long)(d - t0));
		}
		xp_nontrivial();
		xp_transition();
		xp_state(hash_mix(79, (uint64_t)rt * 10 + (uint64_t)et));
		return;
	}
	uint64_t got_ns = d - t0;
	if ((got_ns > want_ns ? got_ns - want_ns : want_ns - got_ns) > 1) {
		char key[160];
		snprintf(key, sizeof(key), "deadline-wrong:req=%s:el=%s", REQ_TO[rt] ? REQ_TO[rt] : "none", EL_TO[et] ? EL_TO[et] : "none");
		fail_t(key, "%s: deadline should be %llu ns after the request but the timer is armed for %llu ns", what, (unsigned long long)want_ns, (unsigned long long)got_ns);
	}
	if (ending == 1) {
		/* reply one nanosecond before the deadline: the owner's answer wins, and the expiry afterwards changes nothing */
		sim_advance(got_ns - 1);
		jx_settle();
		if (count_answers(K, "\"r\"", fromK, NULL) != 0) {
			fail_t("answer-before-deadline", "%s: timeout answer arrived before the deadline", what);
		}
		jx_reply_routed(O, "\"result\":\"in time\"");
		jx_settle();
		struct cl_msg *m = NULL;
		if (count_answers(K, "\"r\"", fromK, &m) != 1 || m->cls != MC_RESULT) {
			fail_t("in-time-reply-not-relayed", "%s: owner replied before the deadline but the caller did not get exactly that result", what);
		}
		sim_advance(10);
		jx_settle();
		jx_expire_all_timers(3);
		if (count_answers(K, "\"r\"", fromK, NULL) != 1) {
			fail_t("answer-duplicated-after-reply", "%s: a second answer followed the owner's reply", what);
		}
	} else {
		if (ending == 2) {
			/* a second request to the same element with a longer timeout: only the first one may expire */
			jx_sendf(K, "{\"id\":\"r2\",\"method\":\"%s\",\"params\":{\"path\":\"e\",\"%s\":[8],\"timeout\":%.9g}}", is_call ? "call" : "set", is_call ? "args" : "value", secs + 1.0);
			jx_settle();
		}
		/* never early: one nanosecond before the deadline nothing is readable and nothing is sent */
		if (got_ns > 1) {
			sim_advance(got_ns - 1);
			jx_settle();
			if (count_answers(K, "\"r\"", fromK, NULL) != 0) {
				fail_t("timeout-answer-early", "%s: the timeout error was sent %d ns before the deadline", what, 1);
			}
		}
		/* promptly: at the deadline the error is written in that very loop iteration */
		sim_advance(d - sim_now());
		jx_settle();
		struct cl_msg *m = NULL;
		int n = count_answers(K, "\"r\"", fromK, &m);
		if (n != 1 || m->cls != MC_ERROR) {
			fail_t("timeout-answer-not-prompt", "%s: at the deadline the caller must receive exactly one timeout error in that event-loop iteration (got %d)", what, n);
		}
		if (ending == 2 && count_answers(K, "\"r2\"", fromK, NULL) != 0) {
			fail_t("other-request-expired-too", "%s: the second request with a later deadline was answered at the first one's deadline", what);
		}
		/* a reply that arrives after the timeout answer is discarded without any effect */
		struct bytebuf before = {0}, after = {0};
		int ko = clients[K].nmsgs, oo = clients[O].nmsgs;
		size_t heap_before = cjet_get_alloc_size();
		/* answer only the first routed request */
		for (int i = 0; i < clients[O].nmsgs; i++) {
			if (clients[O].msgs[i].cls == MC_ROUTED) {
				jx_sendf(O, "{\"id\":\"%s\",\"result\":\"too late\"}", msg_id(&clients[O].msgs[i])->valuestring);
				clients[O].msgs[i].consumed = true;
				break;
			}
		}
		jx_settle();
		if (clients[K].nmsgs != ko || clients[O].nmsgs != oo || sim_conn_closed_by_daemon(O) || sim_conn_closed_by_daemon(K)) {
			fail_t("late-reply-has-effect", "%s: a reply after the timeout answer produced output or closed a connection", what);
		}
		if (cjet_get_alloc_size() != heap_before) {
			fail_t("late-reply-changes-heap", "%s: a reply after the timeout answer changed the accounted heap (%zu -> %zu)", what, heap_before, cjet_get_alloc_size());
		}
		bb_free(&before);
		bb_free(&after);
		if (ending == 2) {
			jx_expire_all_timers(3);
			struct cl_msg *m2 = NULL;
			if (count_answers(K, "\"r2\"", fromK, &m2) != 1 || m2->cls != MC_ERROR) {
				fail_t("second-request-not-expired", "%s: the second request did not get exactly one timeout error at its own deadline", what);
			}
		}
		if (count_answers(K, "\"r\"", fromK, NULL) != 1) {
			fail_t("answer-duplicated-after-timeout", "%s: more than one answer", what);
		}
	}
	xp_nontrivial();
	xp_transition();
	xp_outcome(cl_transcript_hash(K));
	xp_state(hash_mix(hash_mix((uint64_t)rt * 100 + (uint64_t)et * 10 + (uint64_t)is_call, (uint64_t)ending), cl_transcript_hash(K)));
}

/* ---- same-iteration orderings ------------------------------------------- */
static int perm_index, split_at;
static int batch_calls;

static int batch_hook(struct sim_ready *list, int n, int maxevents)
{
	(void)maxevents;
	batch_calls++;
	if (batch_calls != 1 || n < 2) {
		return n;
	}
	/* apply permutation #perm_index (factorial number system) */
	struct sim_ready tmp[16], out[16];
	int m = n > 16 ? 16 : n;
	memcpy(tmp, list, sizeof(tmp[0]) * (size_t)m);
	int idx = perm_index;
	int left = m;
	for (int i = 0; i < m; i++) {
		int f = 1;
		for (int k = 2; k < left; k++) {
			f *= k;
		}
		int pick = idx / f;
		idx %= f;
		if (pick >= left) {
			pick = left - 1;
		}
		out[i] = tmp[pick];
		memmove(&tmp[pick], &tmp[pick + 1], sizeof(tmp[0]) * (size_t)(left - pick - 1));
		left--;
	}
	memcpy(list, out, sizeof(out[0]) * (size_t)m);
	if (split_at > 0 && split_at < m) {
		return split_at; /* the rest stays pending for the next loop iteration */
	}
	return m;
}

static int factorial(int n)
{
	int f = 1;
	for (int i = 2; i <= n; i++) {
		f *= i;
	}
	return f;
}

static void run_orderings(void)
{
	int maxev = (int)xp_param("max_events", 3);
	/* which events become ready together: bit0 owner reply, bit1 expiry of request 1, bit2 caller disconnect, bit3 owner disconnect, bit4 expiry of a second request (other caller) */
	/* bit5: a fresh request of the second caller arrives in the same batch (its forward to the owner may fail when the owner's end is processed... or not yet) */
	int nsub = 63;
	int sub = xp_choose(nsub, XP_SCENARIO, "event-subset") + 1;
	int nev = __builtin_popcount((unsigned)sub);
	if (nev > maxev) {
		xp_end_run();
	}
	enum cl_kind kk = xp_choose(2, XP_SCENARIO, "caller-transport") ? CL_WS : CL_RAW;
	enum cl_kind ok = xp_choose(2, XP_SCENARIO, "owner-transport") ? CL_WS : CL_RAW;
	int how_gone = xp_choose(2, XP_SCENARIO, "disconnect-kind"); /* 0 FIN, 1 reset */
	int owner_empty = xp_choose(2, XP_SCENARIO, "owner-removed-the-element-meanwhile"); /* the requests stay in flight at an owner that owns nothing any more */
	struct sim_opts o = {0};
	jx_boot(&o);
	int O = jx_open(ok), K = jx_open(kk), K2 = jx_open(CL_RAW), B = jx_open(CL_RAW);
	jx_sendf(O, "{\"id\":\"a\",\"method\":\"add\",\"params\":{\"path\":\"e\",\"value\":1}}");
	jx_settle();
	jx_sendf(K, "{\"id\":\"r\",\"method\":\"set\",\"params\":{\"path\":\"e\",\"value\":2,\"timeout\":1}}");
	jx_settle();
	if (sub & 16) {
		jx_sendf(K2, "{\"id\":\"r2\",\"method\":\"set\",\"params\":{\"path\":\"e\",\"value\":3,\"timeout\":1}}");
		jx_settle();
	}
	if (count_routed(O, 0) != ((sub & 16) ? 2 : 1)) {
		fail_t("setup-failed", "requests were not routed");
	}
	if (owner_empty) {
		jx_sendf(O, "{\"id\":\"rm\",\"method\":\"remove\",\"params\":{\"path\":\"e\"}}");
		jx_settle();
		if (!jx_is_success(jx_find_response_str(O, "rm", 0))) {
			fail_t("setup-failed", "the owner could not remove its state while requests were in flight");
		}
	}
	int fromK = clients[K].nmsgs;
	/* make the chosen events ready at the same instant, in a fixed base order; the explorer permutes the dispatch order */
	if (sub & 1) {
		/* reply to K's request only */
		for (int i = 0; i < clients[O].nmsgs; i++) {
			if (clients[O].msgs[i].cls == MC_ROUTED) {
				jx_sendf(O, "{\"id\":\"%s\",\"result\":\"reply\"}", msg_id(&clients[O].msgs[i])->valuestring);
				break;
			}
		}
	}
	if (sub & (2 | 16)) {
		sim_advance(1000000000ULL); /* both requests were created at the same virtual time: bit1 and bit4 are raised by the same advance */
	}
	if (sub & 32) {
		jx_sendf(K2, "{\"id\":\"r3\",\"method\":\"set\",\"params\":{\"path\":\"e\",\"value\":4,\"timeout\":1}}");
	}
	if (sub & 4) {
		if (how_gone) {
			sim_client_reset(K, RST_EPOLL);
		} else {
			sim_client_fin(K);
		}
	}
	if (sub & 8) {
		if (how_gone) {
			sim_client_reset(O, RST_EPOLL);
		} else {
			sim_client_fin(O);
		}
	}
	int nready = sim_ready_count();
	if (nready < 1) {
		nready = 1;
	}
	int nperm = factorial(nready > 5 ? 5 : nready);
	perm_index = xp_choose(nperm, XP_SCENARIO, "dispatch-order");
	split_at = xp_choose(nready, XP_SCENARIO, "split"); /* 0 = one batch; k = only the first k events in this iteration */
	batch_calls = 0;
	sim_batch_hook = batch_hook;
	jx_settle();
	sim_batch_hook = NULL;
	jx_settle();
	/* run everything to the end */
	jx_expire_all_timers(4);
	bool k_alive = !(sub & 4);
	if (k_alive) {
		int n = count_answers(K, "\"r\"", fromK, NULL);
		if (n != 1) {
			char key[160];
			snprintf(key, sizeof(key), "same-iteration:%d-answers:events=%d", n, sub);
			fail_t(key, "events {%s%s%s%s%s} ready in one event-loop iteration (dispatch order #%d, split %d): caller received %d answers instead of exactly one", (sub & 1) ? "reply " : "", (sub & 2) ? "expiry " : "", (sub & 4) ? "caller-gone " : "", (sub & 8) ? "owner-gone " : "", (sub & 16) ? "expiry2 " : "", perm_index, split_at, n);
		}
	}
	if ((sub & 16)) {
		int n = count_answers(K2, "\"r2\"", 0, NULL);
		if (n != 1) {
			char key[160];
			snprintf(key, sizeof(key), "same-iteration:second-caller-%d-answers:events=%d", n, sub);
			fail_t(key, "second caller received %d answers instead of exactly one (events %d, order #%d, split %d)", n, sub, perm_index, split_at);
		}
	}
	if ((sub & 32)) {
		int n = count_answers(K2, "\"r3\"", 0, NULL);
		if (n != 1) {
			char key[160];
			snprintf(key, sizeof(key), "same-iteration:fresh-request-%d-answers:events=%d", n, sub);
			fail_t(key, "a request that arrived in the same batch received %d answers instead of exactly one (events %d, order #%d, split %d)", n, sub, perm_index, split_at);
		}
	}
	/* no released object is touched: descriptor use after close shows as a hygiene event, memory as an ASan report (= crash verdict) */
	for (int i = 0; i < sim_hygiene_count(); i++) {
		const char *k = sim_hygiene_key(i);
		if (strstr(k, "after-close") != NULL || strstr(k, "never-open") != NULL) {
			char key[200];
			snprintf(key, sizeof(key), "same-iteration:%s", k);
			fail_t(key, "events %d order #%d split %d: %s", sub, perm_index, split_at, sim_hygiene_event(i));
		}
	}
	/* a peer that arrives now (it may be given the memory of one that left) must not hear of the old requests; then the owner's late
	 * reply goes nowhere */
	int N = jx_open(CL_RAW);
	if (!(sub & 8) && !sim_conn_closed_by_daemon(O)) {
		for (int i = 0; i < clients[O].nmsgs; i++) {
			if (clients[O].msgs[i].cls == MC_ROUTED) {
				jx_sendf(O, "{\"id\":\"%s\",\"result\":\"late\"}", msg_id(&clients[O].msgs[i])->valuestring);
			}
		}
		jx_settle();
	}
	jx_expire_all_timers(4);
	if (clients[N].nmsgs != 0) {
		fail_t("same-iteration:newcomer-hears-of-an-old-request", "a peer that connected after the batch received %s", clients[N].msgs[0].text);
	}
	/* the daemon still serves */
	jx_sendf(B, "{\"id\":\"probe\",\"method\":\"info\"}");
	jx_settle();
	if (!jx_is_success(jx_find_response_str(B, "probe", 0))) {
		fail_t("same-iteration:daemon-stopped-serving", "after the batch a bystander's request is no longer answered");
	}
	xp_nontrivial();
	xp_transition();
	xp_outcome(cl_transcript_hash(K));
	xp_state(hash_mix(hash_mix((uint64_t)sub * 1000 + (uint64_t)perm_index * 10 + (uint64_t)split_at, (uint64_t)kk * 2 + (uint64_t)ok + 4 * (uint64_t)owner_empty), cl_transcript_hash(K) ^ cl_transcript_hash(O)));
}


/* ---- section 2: deadlines of requests around the owner's in-flight limit -------------------------------------------------------
 * A silent owner receives n requests with deadlines 1 s, 2 s, ... (or all equal); those beyond its limit are refused at once.  Then
 * the clock walks from deadline to deadline: a request that was accepted gets its timeout error exactly at its own deadline (nothing
 * 1 ns earlier), a request that was refused never gets a second answer, its deadline passes without anything happening - and without
 * anything released being touched. */
static void run_limit(void)
{
	int cap = 1 << CONFIG_ROUTING_TABLE_ORDER;
	int n = cap / 2 + xp_choose(cap / 2 + 8, XP_SCENARIO, "requests");
	int equal = xp_choose(2, XP_SCENARIO, "equal-deadlines");
	enum cl_kind kk = xp_choose(2, XP_SCENARIO, "caller-transport") ? CL_WS : CL_RAW;
	int late_reply = xp_choose(2, XP_SCENARIO, "owner-replies-after-the-deadlines");
	if (n > 72) {
		n = 72;
	}
	struct sim_opts o = {0};
	jx_boot(&o);
	int O = jx_open(CL_RAW), K = jx_open(kk), B = jx_open(CL_RAW);
	jx_sendf(O, "{\"id\":\"a\",\"method\":\"add\",\"params\":{\"path\":\"e\",\"value\":1}}");
	jx_settle();
	uint64_t t0 = sim_now();
	bool refused[80] = {false};
	int nref = 0;
	for (int i = 0; i < n; i++) {
		int from = clients[K].nmsgs;
		jx_sendf(K, "{\"id\":%d,\"method\":\"set\",\"params\":{\"path\":\"e\",\"value\":%d,\"timeout\":%d}}", 100 + i, i, equal ? 1 : 1 + i); /* whole seconds: exactly representable */
		jx_settle();
		char idt[16];
		snprintf(idt, sizeof(idt), "%d", 100 + i);
		struct cl_msg *m = NULL;
		int c = count_answers(K, idt, from, &m);
		if (c > 1) {
			fail_t("limit:answered-twice-at-once", "request %d got %d answers immediately", 100 + i, c);
		}
		if (c == 1) {
			if (m->cls != MC_ERROR) {
				fail_t("limit:immediate-result", "request %d got a result although the owner never answered", 100 + i);
			}
			refused[i] = true;
			nref++;
		}
	}
	if (count_routed(O, 0) != n - nref) {
		fail_t("limit:accepted-request-not-delivered", "%d requests were not refused but %d were delivered to the owner", n - nref, count_routed(O, 0));
	}
	xp_count("refused_at_the_limit", nref);
	xp_logf("## %d requests to a silent owner (%d refused at once), deadlines %s, %s caller", n, nref, equal ? "equal" : "1 s apart", kk == CL_WS ? "websocket" : "raw");
	/* walk the deadlines */
	for (int i = 0; i < n; i++) {
		uint64_t dl = t0 + 1000000000ULL + (equal ? 0 : (uint64_t)i * 1000000000ULL);
		if (dl > sim_now() + 1) {
			sim_advance(dl - sim_now() - 1);
			jx_settle();
		}
		char idt[16];
		snprintf(idt, sizeof(idt), "%d", 100 + i);
		if (!refused[i] && !equal && count_answers(K, idt, 0, NULL) != 0) {
			fail_t("limit:timeout-early", "request %d was answered before its deadline", 100 + i);
		}
		if (dl > sim_now()) {
			sim_advance(dl - sim_now());
		}
		jx_settle();
		int c = count_answers(K, idt, 0, NULL);
		if (c != 1) {
			char key[120];
			snprintf(key, sizeof(key), "limit:%s-request-has-%d-answers-at-its-deadline", refused[i] ? "refused" : "accepted", c);
			fail_t(key, "request %d (%s) has %d answers when its deadline has passed", 100 + i, refused[i] ? "refused at the owner's limit" : "accepted", c);
		}
	}
	if (late_reply) {
		for (int i = 0; i < clients[O].nmsgs; i++) {
			if (clients[O].msgs[i].cls == MC_ROUTED) {
				jx_sendf(O, "{\"id\":\"%s\",\"result\":\"late\"}", msg_id(&clients[O].msgs[i])->valuestring);
			}
		}
		jx_settle();
	}
	jx_expire_all_timers(4);
	for (int i = 0; i < n; i++) {
		char idt[16];
		snprintf(idt, sizeof(idt), "%d", 100 + i);
		if (count_answers(K, idt, 0, NULL) != 1) {
			fail_t("limit:answer-count-changed-later", "request %d has %d answers in the end", 100 + i, count_answers(K, idt, 0, NULL));
		}
	}
	jx_sendf(B, "{\"id\":\"probe\",\"method\":\"info\"}");
	jx_settle();
	if (!jx_is_success(jx_find_response_str(B, "probe", 0))) {
		fail_t("limit:daemon-stopped-serving", "a bystander's request is no longer answered");
	}
	jx_close_all();
	jx_check_idle_baseline("limit:left-behind:");
	jx_check_hygiene("limit:hygiene:");
	xp_nontrivial();
	xp_transition();
	xp_outcome((uint64_t)nref);
	xp_state(hash_mix((uint64_t)n * 8 + (uint64_t)equal * 4 + (uint64_t)(kk == CL_WS) * 2 + (uint64_t)late_reply, 91));
}

static void run(void)
{
	if (xp_param("section", 0) == 2) {
		run_limit();
	} else if (xp_param("section", 0) == 1) {
		run_orderings();
	} else {
		run_values();
	}
}

const struct driver drv_c14 = {
    .name = "c14",
    .property = "C14",
    .run = run,
    .rule = "section 0: product {18 request timeout forms, six of them around 2^64 ns and 2^64 s} x {6 element timeout forms} x {set, call} x {expiry + late reply, reply 1 ns before the deadline, two requests with different deadlines} x caller transport on the virtual clock (deadline - 1 ns: nothing; deadline: exactly one error in that iteration); section 1: every non-empty subset of {owner reply, expiry, caller gone, owner gone, second request's expiry, a fresh request of the second caller} made ready at the same instant x every dispatch order x every split of the batch into two iterations x transports x FIN/reset x {the owner still owns the element, the owner removed it while the requests were in flight}; afterwards a new peer connects and everybody leaves; section 2: a silent owner gets between half and more than its in-flight limit of requests with equal or staggered deadlines; the refused ones are never answered again, the accepted ones exactly at their own deadline, late replies have no effect; every execution is non-trivial",
    .assumptions = "the deadline is compared with (uint64_t)(seconds*1e9) +- 1 ns|timeouts above 1e12 s are only required to arm a timer of at least 1e15 ns|the simulated epoll reports whatever order the explorer picks for descriptors that became ready in the same instant (Linux gives no ordering guarantee)",
};
