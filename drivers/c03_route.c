/* C03 - routed set/call: delivered once to the owner, answered once to the caller, independent of third parties.
 * Interleaving layer: all action sequences up to a depth over callers K1 (raw), K2 (ws), owners O1, O2 and a
 * bystander Z, with a virtual clock, judged against a reference model of in-flight requests.
 * Payload layer: product transport x set/call x payload x id form x timeout form x owner behaviour. */
#include <stdlib.h>
#include <string.h>

#include "common.h"
#include "generated/cjet_config.h"

enum { K1 = 0, K2, O1, O2, Z, NSLOT };
static const char *const SLOTNAME[] = {"K1", "K2", "O1", "O2", "Z"};
static int conn[NSLOT]; /* cid or -1 */
static int gen[NSLOT];
static int seen[NSLOT]; /* messages processed per slot's current connection */

enum rstate { R_PENDING = 0, R_FINAL };
struct req {
	int caller, caller_gen;
	int owner, owner_gen;
	char idtext[40]; /* "" = no id */
	char path[8];
	bool is_call;
	char payload[64];      /* JSON text of value / args */
	bool delivered;
	char rid[200];
	uint64_t deadline;
	enum rstate st;
	/* expectation bookkeeping */
	int answers_seen;
	int answers_expected;
	char expect_member[16]; /* "result" / "error" */
	char expect_payload[64]; /* JSON text expected under result/error when the owner answered ("" = any error) */
	bool refused_ok;       /* immediate refusal would be legal (owner at its in-flight limit) */
	bool answered_by_owner_id; /* for duplicate tests */
	bool fresh;            /* sent but not yet seen by the daemon (same-batch deviation): its deadline counts from the moment the batch is handled */
};
static struct req reqs[64];
static int nreqs;
static int reqctr;
static char last_answered_rid[NSLOT][200];

static bool elem_exists[3]; /* s1, s2, m1: false while the owner is away or has removed the element */
static bool stalled[NSLOT]; /* the slot's client has stopped reading: what the daemon sends to it is not observable and may be refused */
static bool defer_settle;   /* deviation: this action and the next become ready together and are harvested by one epoll_wait */

static bool alive(int s)
{
	return conn[s] >= 0;
}

static int inflight_for_owner(int o)
{
	int n = 0;
	for (int i = 0; i < nreqs; i++) {
		if (reqs[i].st == R_PENDING && reqs[i].owner == o && reqs[i].owner_gen == gen[o]) {
			n++;
		}
	}
	return n;
}

/* descriptor budget (param fdlimit): timerfd_create fails with EMFILE while fd_limit descriptors are open.  The daemon needs one
 * descriptor per connection and one per request in flight; a request may therefore be refused for lack of descriptors only while
 * that many are legitimately in use. */
static int fd_limit, fd_base_all_connected;
static int model_fds(void)
{
	int n = fd_base_all_connected;
	for (int s = 0; s < NSLOT; s++) {
		n -= alive(s) ? 0 : 1;
	}
	for (int i = 0; i < nreqs; i++) {
		if (reqs[i].st == R_PENDING && reqs[i].owner_gen == gen[reqs[i].owner]) {
			n++;
		}
	}
	return n;
}

static const char *el_timeout_member = ""; /* payload layer: the owners declare a timeout for their elements */

static void connect_slot(int s)
{
	stalled[s] = false;
	conn[s] = jx_open(((s == K2) != (xp_param("swap", 0) != 0)) ? CL_WS : CL_RAW); /* swap=1: everybody but K2 speaks websocket */
	gen[s]++;
	seen[s] = 0;
	last_answered_rid[s][0] = 0;
	if (s == O1) {
		jx_sendf(conn[s], "{\"id\":\"a1\",\"method\":\"add\",\"params\":{\"path\":\"s1\",\"value\":0%s}}", el_timeout_member);
		jx_sendf(conn[s], "{\"id\":\"a2\",\"method\":\"add\",\"params\":{\"path\":\"m1\"%s}}", el_timeout_member);
		jx_settle();
		elem_exists[0] = elem_exists[2] = true;
	} else if (s == O2) {
		jx_sendf(conn[s], "{\"id\":\"a3\",\"method\":\"add\",\"params\":{\"path\":\"s2\",\"value\":0%s}}", el_timeout_member);
		jx_settle();
		elem_exists[1] = true;
	}
}

static void fail_with_transcripts(const char *key, const char *fmt, ...) __attribute__((noreturn, format(printf, 2, 3)));
static void fail_with_transcripts(const char *key, const char *fmt, ...)
{
	char m[1500];
	va_list ap;
	va_start(ap, fmt);
	vsnprintf(m, sizeof(m), fmt, ap);
	va_end(ap);
	jx_log_transcripts();
	xp_fail(key, "%s", m);
}

/* ---- model transitions -------------------------------------------------- */
static const char *last_action = "";

static void finalise(struct req *r, const char *member, const char *payload)
{
	r->st = R_FINAL;
	if (r->idtext[0] != 0 && alive(r->caller) && r->caller_gen == gen[r->caller] && !stalled[r->caller]) {
		r->answers_expected = 1;
		snprintf(r->expect_member, sizeof(r->expect_member), "%s", member);
		snprintf(r->expect_payload, sizeof(r->expect_payload), "%s", payload);
	}
}

static void model_owner_gone(int o)
{
	if (o == O1) {
		elem_exists[0] = elem_exists[2] = false;
	} else if (o == O2) {
		elem_exists[1] = false;
	}
	for (int i = 0; i < nreqs; i++) {
		struct req *r = &reqs[i];
		if (r->st == R_PENDING && r->owner == o && r->owner_gen == gen[o]) {
			finalise(r, "error", "");
		}
	}
}

static void model_caller_gone(int k)
{
	for (int i = 0; i < nreqs; i++) {
		struct req *r = &reqs[i];
		if (r->st == R_PENDING && r->caller == k && r->caller_gen == gen[k]) {
			if (r->fresh) {
				/* same batch: the complete request is in front of the end of stream, the daemon still routes it; nobody will be
				 * answered (finalise() checks that the caller is gone), the owner may see it */
				continue;
			}
			r->st = R_FINAL; /* dropped: nobody is answered */
			r->answers_expected = r->answers_seen; /* whatever was (not) seen stays */
		}
	}
}

/* ---- observation -------------------------------------------------------- */
static void observe(void)
{
	for (int s = 0; s < NSLOT; s++) {
		if (conn[s] < 0) {
			continue;
		}
		struct client *c = &clients[conn[s]];
		for (; seen[s] < c->nmsgs; seen[s]++) {
			struct cl_msg *m = &c->msgs[seen[s]];
			if (m->cls == MC_ROUTED) {
				const cJSON *id = msg_id(m);
				const cJSON *method = cJSON_GetObjectItemCaseSensitive(m->json, "method");
				const cJSON *params = cJSON_GetObjectItemCaseSensitive(m->json, "params");
				if (!cJSON_IsString(id) || !cJSON_IsString(method)) {
					fail_with_transcripts("routed-message-malformed", "routed message on %s has no string id/method: %s", SLOTNAME[s], m->text);
				}
				struct req *match = NULL;
				for (int i = 0; i < nreqs; i++) {
					struct req *r = &reqs[i];
					if (!r->delivered && r->st == R_PENDING && r->owner == s && r->owner_gen == gen[s] && strcmp(r->path, method->valuestring) == 0) {
						/* prefer the request whose payload this is (requests handled in one batch are not necessarily handled in the order they were sent) */
						cJSON *want = cJSON_Parse(r->payload);
						const cJSON *got = r->is_call ? params : cJSON_GetObjectItemCaseSensitive(params, "value");
						bool same = json_equal(want, got);
						cJSON_Delete(want);
						if (same) {
							match = r;
							break;
						}
						if (match == NULL) {
							match = r;
						}
					}
				}
				if (match == NULL) {
					char key[120];
					snprintf(key, sizeof(key), "routed-delivery-unexpected:to=%s", SLOTNAME[s]);
					fail_with_transcripts(key, "%s received a routed request that no caller issued for it (duplicate or misrouted delivery): %s", SLOTNAME[s], m->text);
				}
				/* payload unchanged */
				cJSON *want = cJSON_Parse(match->payload);
				const cJSON *got = match->is_call ? params : cJSON_GetObjectItemCaseSensitive(params, "value");
				if (!json_equal(want, got)) {
					fail_with_transcripts("routed-payload-altered", "routed request delivered to %s does not carry the caller's %s unchanged: sent %s, delivered %s", SLOTNAME[s], match->is_call ? "arguments" : "value", match->payload, m->text);
				}
				cJSON_Delete(want);
				for (int i = 0; i < nreqs; i++) {
					if (reqs[i].st == R_PENDING && reqs[i].delivered && strcmp(reqs[i].rid, id->valuestring) == 0) {
						fail_with_transcripts("routed-id-not-unique", "routed request id %s is already used by another in-flight request", id->valuestring);
					}
				}
				match->delivered = true;
				snprintf(match->rid, sizeof(match->rid), "%s", id->valuestring);
			} else if (m->cls == MC_RESULT || m->cls == MC_ERROR) {
				const cJSON *id = msg_id(m);
				char *idt = id ? cJSON_PrintUnformatted(id) : strdup("");
				if (idt[0] == '"' && (strncmp(idt, "\"a", 2) == 0 || strncmp(idt, "\"rm", 3) == 0)) {
					free(idt);
					continue; /* answers to the owners' own add requests */
				}
				struct req *match = NULL;
				for (int i = 0; i < nreqs; i++) {
					struct req *r = &reqs[i];
					if (r->caller == s && r->caller_gen == gen[s] && r->idtext[0] && strcmp(r->idtext, idt) == 0) {
						match = r;
					}
				}
				if (match == NULL) {
					char key[120];
					snprintf(key, sizeof(key), "answer-unexpected:on=%s", SLOTNAME[s]);
					fail_with_transcripts(key, "%s received a response that belongs to none of its requests: %s", SLOTNAME[s], m->text);
				}
				match->answers_seen++;
				if (match->st == R_PENDING) {
					/* an immediate refusal is the only legal early answer */
					if (m->cls == MC_ERROR && match->refused_ok && !match->delivered) {
						match->st = R_FINAL;
						match->answers_expected = 1;
						match->expect_member[0] = 0;
						xp_count("legal_refusals", 1);
					} else {
						char key[160];
						snprintf(key, sizeof(key), "answer-premature:after=%s", last_action);
						fail_with_transcripts(key, "%s got an answer for request %s although the owner has not answered, the deadline has not passed and the owner is connected: %s", SLOTNAME[s], idt, m->text);
					}
				} else if (match->expect_member[0]) {
					const cJSON *mem = cJSON_GetObjectItemCaseSensitive(m->json, match->expect_member);
					if (mem == NULL) {
						char key[160];
						snprintf(key, sizeof(key), "answer-wrong-kind:want=%s:after=%s", match->expect_member, last_action);
						fail_with_transcripts(key, "%s: final answer for %s should carry '%s' but is %s", SLOTNAME[s], idt, match->expect_member, m->text);
					}
					if (match->expect_payload[0]) {
						cJSON *want = cJSON_Parse(match->expect_payload);
						if (!json_equal(want, mem)) {
							fail_with_transcripts("answer-payload-altered", "%s: the owner's %s payload %s was not relayed unchanged: %s", SLOTNAME[s], match->expect_member, match->expect_payload, m->text);
						}
						cJSON_Delete(want);
					}
				}
				free(idt);
			} else if (m->cls == MC_NOTIFY || m->cls == MC_OTHER) {
				fail_with_transcripts("unexpected-message", "%s received an unexpected message: %s", SLOTNAME[s], m->text);
			}
		}
	}
	/* ledger: every request has exactly the expected number of answers */
	for (int i = 0; i < nreqs; i++) {
		struct req *r = &reqs[i];
		bool caller_here = alive(r->caller) && r->caller_gen == gen[r->caller];
		if (r->answers_seen > r->answers_expected && r->st == R_FINAL) {
			char key[160];
			snprintf(key, sizeof(key), "answer-duplicated:after=%s", last_action);
			fail_with_transcripts(key, "request %s of %s was answered %d times", r->idtext, SLOTNAME[r->caller], r->answers_seen);
		}
		if (caller_here && r->st == R_FINAL && r->answers_seen < r->answers_expected) {
			char key[160];
			snprintf(key, sizeof(key), "answer-missing:want=%s:after=%s", r->expect_member, last_action);
			fail_with_transcripts(key, "request %s of %s (to %s owned by %s) should have received its final %s by now but nothing arrived", r->idtext, SLOTNAME[r->caller], r->path, SLOTNAME[r->owner], r->expect_member);
		}
		if (r->st == R_PENDING && !r->delivered && r->refused_ok && !stalled[r->owner] && (r->idtext[0] == 0 || stalled[r->caller])) {
			r->st = R_FINAL; /* a request without id (or of a caller that no longer reads) may have been refused at the owner's limit: unobservable, legal */
			continue;
		}
		if (r->st == R_PENDING && !r->delivered && alive(r->owner) && !stalled[r->owner] && r->owner_gen == gen[r->owner] && caller_here) {
			char key[160];
			snprintf(key, sizeof(key), "routed-delivery-missing:to=%s", SLOTNAME[r->owner]);
			fail_with_transcripts(key, "request %s of %s was neither delivered to owner %s nor refused", r->idtext, SLOTNAME[r->caller], SLOTNAME[r->owner]);
		}
	}
}

/* ---- actions ------------------------------------------------------------ */
struct action {
	const char *name;
	int kind; /* 0 request, 1 reply, 2 dup reply, 3 forged, 4 clock, 5 disconnect, 6 connect */
	int a, b, c;
};
/* requests: a = caller, b = target (0 s1, 1 s2, 2 m1), c = id form (0 number, 1 string, 2 none) */
static const struct action ACTIONS[] = {
    {"K1:set(s1)#num", 0, K1, 0, 0},
    {"K2:call(m1)#str", 0, K2, 2, 1},
    {"K1:set(s2)#str", 0, K1, 1, 1},
    {"K2:set(s1)#num", 0, K2, 0, 0},
    {"K1:call(m1)#noid", 0, K1, 2, 2},
    {"O1:reply-result", 1, O1, 0, 0},
    {"O1:reply-error", 1, O1, 1, 0},
    {"O2:reply-result", 1, O2, 0, 0},
    {"clock->next-deadline", 4, 0, 0, 0},
    {"disconnect(Z)", 5, Z, 0, 0},
    {"disconnect(K1)", 5, K1, 0, 0},
    {"disconnect(O1)", 5, O1, 0, 0},
    {"Z:set(s1)#str", 0, Z, 0, 1},
    {"connect(Z)", 6, Z, 0, 0},
    {"O1:reply-duplicate", 2, O1, 0, 0},
    {"O2:reply-forged(O1's id)", 3, O2, O1, 0},
    {"O1:reply-forged(never-issued)", 3, O1, -1, 0},
    {"O1:reply-forged(non-string id)", 3, O1, -2, 0},
    {"disconnect(K2)", 5, K2, 0, 0},
    {"disconnect(O2)", 5, O2, 0, 0},
    {"connect(K1)", 6, K1, 0, 0},
    {"connect(O1)", 6, O1, 0, 0},
    {"connect(K2)", 6, K2, 0, 0},
    {"connect(O2)", 6, O2, 0, 0},
    /* the owner removes / re-adds an element while requests to it may be in flight (b = target) */
    {"O1:remove(m1)", 7, O1, 2, 0},
    {"O1:remove(s1)", 7, O1, 0, 0},
    {"O1:add(m1)", 8, O1, 2, 0},
    {"O2:remove(s2)", 7, O2, 1, 0},
    /* a caller stops reading: once the daemon's write buffer for it is full (96 bytes in the tiny build) its answers cannot be delivered */
    {"K1:stops-reading", 9, K1, 0, 0},
    /* an owner stops reading: requests routed to it are queued in the daemon's write buffer while there is room; once there is none the
     * forward fails and the caller is told at once - and then never again */
    {"O2:stops-reading", 9, O2, 0, 0},
};
#define NACTIONS ((int)(sizeof(ACTIONS) / sizeof(ACTIONS[0])))

static struct req *oldest_pending_delivered(int o)
{
	for (int i = 0; i < nreqs; i++) {
		if (reqs[i].st == R_PENDING && reqs[i].delivered && reqs[i].owner == o && reqs[i].owner_gen == gen[o]) {
			return &reqs[i];
		}
	}
	return NULL;
}

static bool enabled(const struct action *a)
{
	switch (a->kind) {
	case 0:
		return alive(a->a) && nreqs < 60;
	case 1:
		return alive(a->a) && oldest_pending_delivered(a->a) != NULL;
	case 2:
		return alive(a->a) && last_answered_rid[a->a][0] != 0;
	case 3:
		if (!alive(a->a)) {
			return false;
		}
		if (a->b >= 0) {
			return alive(a->b) && oldest_pending_delivered(a->b) != NULL;
		}
		return true;
	case 4: {
		uint64_t d;
		return sim_next_deadline(&d);
	}
	case 5:
		return alive(a->a);
	case 6:
		return !alive(a->a);
	case 7:
		return alive(a->a) && elem_exists[a->b];
	case 8:
		return alive(a->a) && !elem_exists[a->b];
	case 9:
		return alive(a->a) && !stalled[a->a];
	}
	return false;
}

static const char *const TARGET_PATH[] = {"s1", "s2", "m1"};
static const int TARGET_OWNER[] = {O1, O2, O1};

static void do_request(int caller, int target, int idform, const char *payload, const char *timeout_member)
{
	struct req *r = &reqs[nreqs++];
	memset(r, 0, sizeof(*r));
	r->caller = caller;
	r->caller_gen = gen[caller];
	r->owner = TARGET_OWNER[target];
	r->owner_gen = gen[r->owner];
	snprintf(r->path, sizeof(r->path), "%s", TARGET_PATH[target]);
	r->is_call = target == 2;
	snprintf(r->payload, sizeof(r->payload), "%s", payload);
	reqctr++;
	if (idform == 0) {
		snprintf(r->idtext, sizeof(r->idtext), "%d", 1000 + reqctr);
	} else if (idform == 1) {
		snprintf(r->idtext, sizeof(r->idtext), "\"q%d\"", reqctr);
	} else if (idform == 3) {
		snprintf(r->idtext, sizeof(r->idtext), "%d.5", 1000 + reqctr); /* a number that is no integer: the answer must carry it unchanged */
	}
	r->deadline = sim_now() + 5000000000ULL;
	r->fresh = defer_settle;
	/* the per-owner limit: a put into the owner's routing table can only fail when at least 2^(order-1) entries are in flight */
	r->refused_ok = inflight_for_owner(r->owner) - 1 >= (1 << (CONFIG_ROUTING_TABLE_ORDER - 1)); /* - 1: without this request itself */
	if (stalled[r->owner]) {
		r->refused_ok = true; /* the forward may fail: an immediate error is a legal final answer */
		xp_count("requests_to_an_owner_that_stopped_reading", 1);
	}
	if (fd_limit > 0 && model_fds() - 1 >= fd_limit) {
		r->refused_ok = true; /* no descriptor left for this request's timer */
		xp_count("requests_made_at_the_descriptor_limit", 1);
	}
	if (!alive(r->owner) || !elem_exists[target]) {
		/* element is gone (with its owner, or removed by it): plain error */
		r->st = R_FINAL;
		r->delivered = true; /* nothing to deliver */
		if (r->idtext[0] && !stalled[caller]) {
			r->answers_expected = 1;
			snprintf(r->expect_member, sizeof(r->expect_member), "error");
		}
	}
	char idm[64] = "";
	if (r->idtext[0]) {
		snprintf(idm, sizeof(idm), "\"id\":%s,", r->idtext);
	}
	jx_sendf(conn[caller], "{%s\"method\":\"%s\",\"params\":{\"path\":\"%s\",\"%s\":%s%s}}", idm, r->is_call ? "call" : "set", r->path, r->is_call ? "args" : "value", payload, timeout_member);
}

static const char *reply_payload_override; /* payload layer: the owner's result / error value */

static void sweep_dropped_stalled_peers(void)
{
	for (int sl = 0; sl < NSLOT; sl++) {
		if (conn[sl] >= 0 && stalled[sl] && sim_conn_closed_by_daemon(conn[sl])) {
			/* an answer for the peer that stopped reading could not be queued: the daemon may drop that peer (it harms only itself) */
			model_owner_gone(sl);
			model_caller_gone(sl);
			conn[sl] = -1;
			stalled[sl] = false;
		}
	}
}

static void apply(const struct action *a)
{
	last_action = a->name;
	switch (a->kind) {
	case 0:
	{
		/* every request carries its own number so that a delivery can be attributed to exactly one request */
		char pl[64];
		snprintf(pl, sizeof(pl), a->b == 2 ? "[1,\"two\",%d]" : "{\"k\":[1,null],\"n\":%d}", reqctr + 1);
		do_request(a->a, a->b, a->c, pl, "");
	}
		break;
	case 1: {
		struct req *r = oldest_pending_delivered(a->a);
		const char *member = a->b ? "error" : "result";
		const char *payload = a->b ? "{\"code\":123,\"message\":\"nope\",\"data\":[1,2]}" : "{\"ok\":[true,null,1.5]}";
		if (reply_payload_override != NULL) {
			payload = reply_payload_override;
		}
		snprintf(last_answered_rid[a->a], sizeof(last_answered_rid[a->a]), "%s", r->rid);
		finalise(r, member, payload);
		jx_sendf(conn[a->a], "{\"id\":\"%s\",\"%s\":%s}", r->rid, member, payload);
		break;
	}
	case 2:
		jx_sendf(conn[a->a], "{\"id\":\"%s\",\"result\":\"again\"}", last_answered_rid[a->a]);
		break;
	case 3:
		if (a->b >= 0) {
			struct req *r = oldest_pending_delivered(a->b);
			jx_sendf(conn[a->a], "{\"id\":\"%s\",\"result\":\"forged\"}", r->rid);
		} else if (a->b == -1) {
			jx_sendf(conn[a->a], "{\"id\":\"q1_0_0xdeadbeef\",\"result\":\"forged\"}");
		} else {
			/* a response object with a non-string id is a protocol violation by that owner: the daemon may drop it */
			jx_sendf(conn[a->a], "{\"id\":12345,\"result\":\"forged\"}");
			jx_settle();
			if (sim_conn_closed_by_daemon(conn[a->a])) {
				model_owner_gone(a->a);
				model_caller_gone(a->a);
				conn[a->a] = -1;
			}
		}
		break;
	case 4: {
		uint64_t d;
		sim_next_deadline(&d);
		for (int i = 0; i < nreqs; i++) {
			if (reqs[i].st == R_PENDING && !reqs[i].fresh && reqs[i].deadline <= d) {
				finalise(&reqs[i], "error", "");
			}
		}
		sim_advance(d - sim_now());
		break;
	}
	case 5:
		model_owner_gone(a->a);
		model_caller_gone(a->a);
		sim_client_fin(conn[a->a]);
		conn[a->a] = -1;
		break;
	case 6:
		connect_slot(a->a);
		break;
	case 7:
		/* requests already routed stay answerable by the owner; new ones find no element */
		jx_sendf(conn[a->a], "{\"id\":\"rm%d\",\"method\":\"remove\",\"params\":{\"path\":\"%s\"}}", ++reqctr, TARGET_PATH[a->b]);
		elem_exists[a->b] = false;
		break;
	case 9:
		sim_set_window(conn[a->a], 0);
		stalled[a->a] = true;
		/* answers that were due but not yet seen can no longer be observed */
		for (int i = 0; i < nreqs; i++) {
			if (reqs[i].caller == a->a && reqs[i].caller_gen == gen[a->a] && reqs[i].st == R_PENDING) {
				reqs[i].answers_expected = reqs[i].answers_seen;
			}
		}
		break;
	case 8:
		jx_sendf(conn[a->a], "{\"id\":\"ad%d\",\"method\":\"add\",\"params\":{\"path\":\"%s\"%s}}", ++reqctr, TARGET_PATH[a->b], a->b == 2 ? "" : ",\"value\":0");
		elem_exists[a->b] = true;
		break;
	}
	if (!defer_settle) {
		jx_settle();
		sweep_dropped_stalled_peers();
		observe();
	}
}

static bool batchable(const struct action *a)
{
	return a->kind == 0 || a->kind == 1 || a->kind == 2 || a->kind == 4 || a->kind == 5 || a->kind == 7 || a->kind == 8;
}

static uint64_t model_hash(int remaining)
{
	uint64_t h = (uint64_t)remaining * 1000003u;
	for (int s = 0; s < NSLOT; s++) {
		h = hash_mix(h, alive(s) ? 1 : 0);
		h = hash_mix(h, last_answered_rid[s][0] ? 1 : 0);
	}
	h = hash_mix(h, (uint64_t)elem_exists[0] + 2 * (uint64_t)elem_exists[1] + 4 * (uint64_t)elem_exists[2] + 8 * (uint64_t)stalled[K1] + 16 * (uint64_t)stalled[O2]);
	/* multiset of live requests in creation order: (caller, owner, idform, delivered, state); finished ones only matter through the ledger */
	for (int i = 0; i < nreqs; i++) {
		struct req *r = &reqs[i];
		bool caller_here = alive(r->caller) && r->caller_gen == gen[r->caller];
		bool owner_here = alive(r->owner) && r->owner_gen == gen[r->owner];
		if (r->st == R_PENDING) {
			h = hash_mix(h, 7 + (uint64_t)r->caller * 3 + (uint64_t)r->owner * 17 + (r->idtext[0] == '"' ? 100 : r->idtext[0] ? 200 : 300) + (caller_here ? 1000 : 0) + (owner_here ? 2000 : 0) + (uint64_t)(r->deadline - sim_now()) / 1000000);
		}
	}
	return h;
}

static void run_interleavings(void)
{
	int depth = (int)xp_param("depth", 3);
	int nact = (int)xp_param("actions", NACTIONS);
	if (nact > NACTIONS) {
		nact = NACTIONS;
	}
	struct sim_opts o = {0};
	jx_boot(&o);
	for (int s = 0; s < NSLOT; s++) {
		conn[s] = -1;
	}
	for (int s = 0; s < NSLOT; s++) {
		connect_slot(s);
	}
	observe();
	int seedstate = (int)xp_param("seedstate", 0);
	fd_limit = 0;
	if (xp_param("fdlimit", 0) > 0) {
		fd_base_all_connected = sim_open_fds();
		fd_limit = fd_base_all_connected + (int)xp_param("fdlimit", 0);
		sim_set_fd_limit(fd_limit, true);
	}
	if (seedstate == 3) {
		/* non-initial start: O1 has been driven beyond its in-flight limit (some of these requests were refused) */
		for (int i = 0; i < (1 << CONFIG_ROUTING_TABLE_ORDER) + 2; i++) {
			apply(&ACTIONS[(i & 1) ? 3 : 0]);
		}
	}
	if (seedstate == 1) {
		/* non-initial start: two requests already in flight to O1 from both callers, one to O2 */
		apply(&ACTIONS[0]);
		apply(&ACTIONS[1]);
		apply(&ACTIONS[2]);
	}
	struct bytebuf trail = {0};
	for (int d = 0; d < depth; d++) {
		int en[NACTIONS], n = 0;
		for (int i = 0; i < nact; i++) {
			if (enabled(&ACTIONS[i])) {
				en[n++] = i;
			}
		}
		if (n == 0) {
			break;
		}
		int c = xp_choose(n, XP_ACTION, "action");
		bb_printf(&trail, "%s%s", d ? " ; " : "", ACTIONS[en[c]].name);
		xp_logf("## step %d: %s", d + 1, ACTIONS[en[c]].name);
		int ride = 0;
		if (batchable(&ACTIONS[en[c]]) && d + 1 < depth) {
			ride = xp_choose(2, XP_DEV, "same-batch-with-next");
		}
		if (ride) {
			defer_settle = true;
			apply(&ACTIONS[en[c]]);
			int en2[NACTIONS], n2 = 0;
			for (int i = 0; i < nact; i++) {
				if (batchable(&ACTIONS[i]) && enabled(&ACTIONS[i])) {
					en2[n2++] = i;
				}
			}
			if (n2 > 0) {
				int c2 = xp_choose(n2, XP_ACTION, "action-in-same-batch");
				bb_printf(&trail, " + %s", ACTIONS[en2[c2]].name);
				xp_logf("## step %d (same batch): %s", d + 2, ACTIONS[en2[c2]].name);
				apply(&ACTIONS[en2[c2]]);
				d++;
				xp_transition();
			}
			defer_settle = false;
			for (int i = 0; i < nreqs; i++) {
				if (reqs[i].fresh) {
					reqs[i].fresh = false;
					reqs[i].deadline = sim_now() + 5000000000ULL; /* the daemon arms the timer when it handles the request, i.e. now */
				}
			}
			jx_settle();
			/* a peer that stopped reading may have been dropped in this batch: as an owner its departure explains shutdown answers; as a
			 * caller it ends its requests - but only after what was routed for it earlier in the batch has been seen at the owners */
			for (int sl = 0; sl < NSLOT; sl++) {
				if (conn[sl] >= 0 && stalled[sl] && sim_conn_closed_by_daemon(conn[sl])) {
					model_owner_gone(sl);
				}
			}
			observe();
			sweep_dropped_stalled_peers();
			observe();
		} else {
			apply(&ACTIONS[en[c]]);
		}
		xp_transition();
		if (xp_state(model_hash(depth - d - 1))) {
			xp_logf("## (state already explored with at least this much depth remaining)");
			jx_log_transcripts();
			return;
		}
	}
	/* closing phase: let every deadline pass; every request with an id and a connected caller must have exactly one answer */
	last_action = "final-expiry";
	for (int round = 0; round < 6; round++) {
		uint64_t d;
		if (!sim_next_deadline(&d)) {
			break;
		}
		for (int i = 0; i < nreqs; i++) {
			if (reqs[i].st == R_PENDING && reqs[i].deadline <= d) {
				finalise(&reqs[i], "error", "");
			}
		}
		sim_advance(d - sim_now());
		jx_settle();
		observe();
	}
	for (int i = 0; i < nreqs; i++) {
		bool caller_here = alive(reqs[i].caller) && reqs[i].caller_gen == gen[reqs[i].caller];
		if (reqs[i].st == R_PENDING && caller_here) { /* a request whose caller left in the same batch it was sent in is dropped silently: nobody waits for it */
			jx_log_transcripts();
			xp_fail("request-never-finalised", "request %s of %s is still pending although no timer is armed any more (its deadline can never fire)", reqs[i].idtext, SLOTNAME[reqs[i].caller]);
		}
	}
	xp_nontrivial();
	jx_log_transcripts();
	xp_logf("## trail: %s", trail.p ? (char *)trail.p : "");
	for (int s = 0; s < NSLOT; s++) {
		if (conn[s] >= 0) {
			xp_outcome(cl_transcript_hash(conn[s]));
		}
	}
	/* everybody leaves, one after the other: each departure walks every routing table that is left; a record that outlived its
	 * request shows as a use of released memory (crash verdict) or as a late answer to somebody who is still there */
	last_action = "everybody-leaves";
	for (int s = 0; s < NSLOT; s++) {
		if (conn[s] >= 0) {
			model_owner_gone(s);
			model_caller_gone(s);
			sim_client_fin(conn[s]);
			conn[s] = -1;
			jx_settle();
			observe();
		}
	}
}

/* ---- payload layer ------------------------------------------------------- */
static const char *const PAYLOADS[] = {"1", "\"s\"", "{\"k\":[1,null]}", "[]", "null", "1.25", "\"\\u00e9\""};
static const char *const TIMEOUTS[] = {"", ",\"timeout\":2", ",\"timeout\":0.25"};

static void run_payloads(void)
{
	int kind = xp_choose(2, XP_SCENARIO, "caller-transport");
	int target = xp_choose(3, XP_SCENARIO, "target");
	int pl = xp_choose((int)(sizeof(PAYLOADS) / sizeof(PAYLOADS[0])), XP_SCENARIO, "payload");
	int idform = xp_choose(4, XP_SCENARIO, "idform"); /* integer, string, none, non-integer number */
	int to = xp_choose(3, XP_SCENARIO, "timeout");
	int behaviour = xp_choose(6, XP_SCENARIO, "owner-behaviour"); /* result, error, none(timeout), duplicate, forged-first, owner leaves */
	static const char *const REPLYVAL[] = {NULL /* the default object */, "null", "false", "0", "\"\"", "[]", "{}"};
	int rv = (behaviour == 2 || behaviour == 5) ? 0 : xp_choose((int)(sizeof(REPLYVAL) / sizeof(REPLYVAL[0])), XP_SCENARIO, "owner-reply-value");
	reply_payload_override = REPLYVAL[rv];
	/* timing: 0 the owner acts at once, elements without a timeout of their own; 1 / 2 the elements declare 0.1 s / 10 s and
	 * the owner acts 1 ms before the deadline that follows from "the request's timeout, else the element's, else 5 s" */
	int timing = xp_choose(3, XP_SCENARIO, "element-timeout-and-owner-delay");
	el_timeout_member = timing == 1 ? ",\"timeout\":0.1" : timing == 2 ? ",\"timeout\":10" : "";
	struct sim_opts o = {0};
	jx_boot(&o);
	for (int s = 0; s < NSLOT; s++) {
		conn[s] = -1;
	}
	connect_slot(O1);
	connect_slot(O2);
	connect_slot(kind ? K2 : K1);
	int K = kind ? K2 : K1;
	const char *payload = PAYLOADS[pl];
	if (target == 2 && payload[0] != '[' && payload[0] != '{') {
		payload = "[1]"; /* call arguments are an array or object */
	}
	do_request(K, target, idform, payload, TIMEOUTS[to]);
	struct req *r = &reqs[nreqs - 1];
	r->deadline = sim_now() + (to == 1 ? 2000000000ULL : to == 2 ? 250000000ULL : timing == 1 ? 100000000ULL : timing == 2 ? 10000000000ULL : 5000000000ULL);
	last_action = "request";
	jx_settle();
	observe();
	if (timing != 0 && r->st != R_FINAL && r->deadline > sim_now() + 1000000ULL) {
		last_action = "wait-until-1ms-before-the-deadline";
		sim_advance(r->deadline - sim_now() - 1000000ULL);
		jx_settle();
		observe();
	}
	struct action reply_res = {"owner:reply-result", 1, r->owner, 0, 0}, reply_err = {"owner:reply-error", 1, r->owner, 1, 0};
	struct action dup = {"owner:reply-duplicate", 2, r->owner, 0, 0}, forged = {"owner:reply-forged(never-issued)", 3, r->owner, -1, 0};
	struct action clock = {"clock->next-deadline", 4, 0, 0, 0}, leave = {"disconnect(owner)", 5, r->owner, 0, 0};
	switch (behaviour) {
	case 0:
		apply(&reply_res);
		break;
	case 1:
		apply(&reply_err);
		break;
	case 2:
		apply(&clock);
		break;
	case 3:
		apply(&reply_res);
		apply(&dup);
		break;
	case 4:
		apply(&forged);
		apply(&reply_err);
		break;
	case 5:
		apply(&leave);
		break;
	}
	/* nothing may follow: expire everything and look again */
	last_action = "final-expiry";
	jx_expire_all_timers(4);
	observe();
	if (r->st != R_FINAL) {
		jx_log_transcripts();
		xp_fail("request-never-finalised", "request is still pending after all timers ran out");
	}
	xp_nontrivial();
	xp_transition();
	xp_outcome(cl_transcript_hash(conn[K]));
	xp_state(hash_mix(cl_transcript_hash(conn[K]), hash_mix((uint64_t)behaviour, alive(r->owner) ? cl_transcript_hash(conn[r->owner]) : 1)));
	jx_log_transcripts();
}


/* ---- sweep layer: many requests pending at one owner when somebody leaves ---------------------------------------------------
 * The departure of an owner or of a caller sweeps the owner's routing index slot by slot while removing entries.  N requests
 * from two callers (routed ids that collide in the index more and more often as N grows) are pending at O1 when O1, K1 or K2
 * leaves: every request of a caller that is still there is answered exactly once (shutdown error if the owner left, the owner's
 * own late reply otherwise), the one that left hears nothing, nothing is answered twice, and afterwards everybody leaves. */
static void run_sweep(void)
{
	int maxn = (1 << CONFIG_ROUTING_TABLE_ORDER) * 5 / 8;
	int n = 2 + xp_choose(maxn - 1, XP_SCENARIO, "requests-pending");
	int who = xp_choose(3, XP_SCENARIO, "who-leaves"); /* 0 the owner, 1 caller K1, 2 caller K2 */
	int how = xp_choose(2, XP_SCENARIO, "how"); /* FIN / reset */
	struct sim_opts o = {0};
	jx_boot(&o);
	for (int s = 0; s < NSLOT; s++) {
		conn[s] = -1;
	}
	connect_slot(O1);
	connect_slot(K1);
	connect_slot(K2);
	observe();
	for (int i = 0; i < n; i++) {
		char pl[64];
		snprintf(pl, sizeof(pl), "{\"k\":[1,null],\"n\":%d}", reqctr + 1);
		do_request((i % 3) == 2 ? K2 : K1, 0, i & 1, pl, ",\"timeout\":50");
		reqs[nreqs - 1].deadline = sim_now() + 50000000000ULL;
		jx_settle();
		observe();
	}
	int pending = 0;
	for (int i = 0; i < nreqs; i++) {
		pending += reqs[i].st == R_PENDING && reqs[i].delivered;
	}
	xp_count("requests_pending_at_the_departure", pending);
	int leaver = who == 0 ? O1 : who == 1 ? K1 : K2;
	last_action = who == 0 ? "the owner leaves" : "a caller leaves";
	model_owner_gone(leaver);
	model_caller_gone(leaver);
	if (how) {
		sim_client_reset(conn[leaver], RST_EPOLL);
	} else {
		sim_client_fin(conn[leaver]);
	}
	conn[leaver] = -1;
	jx_settle();
	observe();
	if (who != 0) {
		/* the owner answers everything it was given, also the requests of the caller that left */
		last_action = "the owner answers everything";
		for (int i = 0; i < nreqs; i++) {
			struct req *r = &reqs[i];
			if (r->delivered && r->rid[0]) {
				if (r->st == R_PENDING) {
					finalise(r, "result", "{\"ok\":[true,null,1.5]}");
				}
				jx_sendf(conn[O1], "{\"id\":\"%s\",\"result\":{\"ok\":[true,null,1.5]}}", r->rid);
				jx_settle();
				observe();
			}
		}
	}
	last_action = "final-expiry";
	jx_expire_all_timers(4);
	observe();
	for (int i = 0; i < nreqs; i++) {
		bool caller_here = alive(reqs[i].caller) && reqs[i].caller_gen == gen[reqs[i].caller];
		if (reqs[i].st == R_PENDING && caller_here) {
			jx_log_transcripts();
			xp_fail("request-never-finalised:sweep", "request %s of %s is still pending after the departure and all deadlines", reqs[i].idtext, SLOTNAME[reqs[i].caller]);
		}
	}
	last_action = "everybody-leaves";
	for (int s = 0; s < NSLOT; s++) {
		if (conn[s] >= 0) {
			model_owner_gone(s);
			model_caller_gone(s);
			sim_client_fin(conn[s]);
			conn[s] = -1;
			jx_settle();
			observe();
		}
	}
	jx_check_idle_baseline("sweep:left-behind:");
	xp_nontrivial();
	xp_transition();
	xp_outcome((uint64_t)pending);
	xp_state(hash_mix((uint64_t)n * 10 + (uint64_t)who * 2 + (uint64_t)how, 77));
}

static void run(void)
{
	if (xp_param("layer", 0) == 2) {
		run_sweep();
	} else if (xp_param("layer", 0) == 1) {
		run_payloads();
	} else {
		run_interleavings();
	}
}

const struct driver drv_c03 = {
    .name = "c03",
    .property = "C03",
    .run = run,
    .rule = "interleaving layer: every sequence of enabled actions up to the depth bound over {requests from 2 callers and a bystander to 2 owners, owner replies (result, error, duplicate, forged with another owner's live id / a never-issued id / a non-string id), clock advance to the next deadline, disconnect and reconnect of every slot}, judged after every action by a reference model of in-flight requests; payload layer: full product caller transport x target x payload x id form (integer, string, none, non-integer number) x timeout form x owner behaviour x value of the owner's result / error member (object, null, false, 0, empty string / array / object) x {owner acts at once; elements declare a timeout of 0.1 s / 10 s and the owner acts 1 ms before the deadline that follows from request timeout, else element timeout, else 5 s}; sweep layer: 2..40 requests of two callers pending at one owner when the owner or a caller leaves (FIN / reset), then the owner answers everything, then everybody leaves; an execution is non-trivial when it ran to its final expiry phase with the ledger balanced; states = canonical model states (merged tier) or distinct (model state, remaining depth) pairs",
    .assumptions = "timeout and shutdown answers are only required to be error responses (their texts are not compared)|an immediate refusal is accepted only while the owner has at least 2^(ROUTING_TABLE_ORDER-1) requests in flight|a reply carrying a non-string id is a protocol violation of that owner: the daemon may drop it, which the model treats as that owner disconnecting|descriptor budget passes: a request may be refused for lack of descriptors only while connections plus requests in flight have used the budget up (one descriptor per connection and per request in flight is assumed to be enough)|a request to an owner that has stopped reading may be answered with an error at once (the forward failed); it must then never be answered again",
};
