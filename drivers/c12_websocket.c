/* C12 - the WebSocket endpoint follows RFC 6455 and is transparent for JSON-RPC.
 *   section 0: handshake header product judged by a reference "is this a valid upgrade offering jet" predicate; the accept
 *              digest is recomputed by the harness's own SHA-1 / base64;
 *   section 1: transparency - a session whose hostile peer speaks websocket must produce the same JSON payloads on every
 *              connection as the twin execution in which it speaks the raw protocol;
 *   section 2: server frames around the 126 / 65536 length boundaries (get over many large states), content equal to the raw twin;
 *   section 3: ping with every payload length 0..125 x mask keys x buffer alignments => pong with the identical payload;
 *   sections 4-6: the frame space of wsframes.c (single-frame product, pairs, triples) judged by an RFC 6455 classifier. */
#include <stdlib.h>
#include <string.h>

#include "common.h"
#include "wsframes.h"
#include "generated/cjet_config.h"

static char what[500];
static void fail12(const char *key, const char *fmt, ...) __attribute__((noreturn, format(printf, 2, 3)));
static void fail12(const char *key, const char *fmt, ...)
{
	char m[1500];
	va_list ap;
	va_start(ap, fmt);
	vsnprintf(m, sizeof(m), fmt, ap);
	va_end(ap);
	jx_log_transcripts();
	xp_fail(key, "%s: %s", what, m);
}

/* ---- the harness's own SHA-1 and base64 (independent of the repository's) ---- */
static uint32_t rol(uint32_t v, int n)
{
	return (v << n) | (v >> (32 - n));
}
static void sha1(const uint8_t *msg, size_t len, uint8_t out[20])
{
	uint32_t h[5] = {0x67452301u, 0xEFCDAB89u, 0x98BADCFEu, 0x10325476u, 0xC3D2E1F0u};
	size_t total = ((len + 8) / 64 + 1) * 64;
	uint8_t *buf = calloc(1, total);
	memcpy(buf, msg, len);
	buf[len] = 0x80;
	uint64_t bits = (uint64_t)len * 8;
	for (int i = 0; i < 8; i++) {
		buf[total - 1 - (size_t)i] = (uint8_t)(bits >> (8 * i));
	}
	for (size_t off = 0; off < total; off += 64) {
		uint32_t w[80];
		for (int i = 0; i < 16; i++) {
			w[i] = ((uint32_t)buf[off + 4 * (size_t)i] << 24) | ((uint32_t)buf[off + 4 * (size_t)i + 1] << 16) | ((uint32_t)buf[off + 4 * (size_t)i + 2] << 8) | buf[off + 4 * (size_t)i + 3];
		}
		for (int i = 16; i < 80; i++) {
			w[i] = rol(w[i - 3] ^ w[i - 8] ^ w[i - 14] ^ w[i - 16], 1);
		}
		uint32_t a = h[0], b = h[1], c = h[2], d = h[3], e = h[4];
		for (int i = 0; i < 80; i++) {
			uint32_t f, k;
			if (i < 20) {
				f = (b & c) | (~b & d);
				k = 0x5A827999u;
			} else if (i < 40) {
				f = b ^ c ^ d;
				k = 0x6ED9EBA1u;
			} else if (i < 60) {
				f = (b & c) | (b & d) | (c & d);
				k = 0x8F1BBCDCu;
			} else {
				f = b ^ c ^ d;
				k = 0xCA62C1D6u;
			}
			uint32_t t = rol(a, 5) + f + e + k + w[i];
			e = d;
			d = c;
			c = rol(b, 30);
			b = a;
			a = t;
		}
		h[0] += a;
		h[1] += b;
		h[2] += c;
		h[3] += d;
		h[4] += e;
	}
	free(buf);
	for (int i = 0; i < 5; i++) {
		out[4 * i] = (uint8_t)(h[i] >> 24);
		out[4 * i + 1] = (uint8_t)(h[i] >> 16);
		out[4 * i + 2] = (uint8_t)(h[i] >> 8);
		out[4 * i + 3] = (uint8_t)h[i];
	}
}
static void b64(const uint8_t *in, size_t len, char *out)
{
	static const char T[] = "ABCDEFGHIJKLMNOPQRSTUVWXYZabcdefghijklmnopqrstuvwxyz0123456789+/";
	size_t o = 0;
	for (size_t i = 0; i < len; i += 3) {
		uint32_t v = (uint32_t)in[i] << 16 | (i + 1 < len ? (uint32_t)in[i + 1] << 8 : 0) | (i + 2 < len ? in[i + 2] : 0);
		out[o++] = T[(v >> 18) & 63];
		out[o++] = T[(v >> 12) & 63];
		out[o++] = i + 1 < len ? T[(v >> 6) & 63] : '=';
		out[o++] = i + 2 < len ? T[v & 63] : '=';
	}
	out[o] = 0;
}
static void accept_for(const char *key, char out[40])
{
	char cat[128];
	snprintf(cat, sizeof(cat), "%s258EAFA5-E914-47DA-95CA-C5AB0DC85B11", key);
	uint8_t d[20];
	sha1((const uint8_t *)cat, strlen(cat), d);
	b64(d, 20, out);
}

/* case-insensitive header lookup in a response header block; returns a malloc'd trimmed value or NULL */
static char *header_value(const char *block, const char *name)
{
	size_t nl = strlen(name);
	const char *p = block;
	while ((p = strstr(p, "\r\n")) != NULL) {
		p += 2;
		if (strncasecmp(p, name, nl) == 0 && p[nl] == ':') {
			const char *v = p + nl + 1;
			while (*v == ' ' || *v == '\t') {
				v++;
			}
			const char *e = strstr(v, "\r\n");
			if (e == NULL) {
				e = v + strlen(v);
			}
			while (e > v && (e[-1] == ' ' || e[-1] == '\t')) {
				e--;
			}
			return strndup(v, (size_t)(e - v));
		}
	}
	return NULL;
}

/* ------------------------------------------------------------------ section 0: handshake */
static const char *const H_UPGRADE[] = {"websocket", "WebSocket", NULL, "foo"};
static const bool V_UPGRADE[] = {true, true, false, false};
static const char *const H_CONN[] = {"Upgrade", "keep-alive, Upgrade", NULL, "upgrade", "close"};
static const bool V_CONN[] = {true, true, false, true, false};
static const char *const H_KEY[] = {"dGhlIHNhbXBsZSBub25jZQ==", "AAAAAAAAAAAAAAAAAAAAAA==", "/+/+/+/+/+/+/+/+/+/+/w==", "dGhlIHNhbXBsZQ==", NULL};
static const bool V_KEY[] = {true, true, true, false, false};
static const char *const H_VER[] = {"13", "12", NULL, "013", "13, 12"};
static const int V_VER[] = {1, 0, 0, -1, -1}; /* -1: not classified */
static const char *const H_PROTO[] = {"jet", NULL, "foo", "foo, jet", "jet,foo", "jet , foo", "JET", "jetx", "foo,jet,bar"};
static const int V_PROTO[] = {1, -1, 0, 1, 1, 1, -1, 0, 1}; /* 1 offers jet; 0 does not; -1 unclassified (absent: no subprotocol asked; case variant) */
static const char *const H_TARGET[] = {"/api/jet/", "/api/other/"};
static const char *const H_HTTPV[] = {"1.1", "1.0"};
#define N(a) ((int)(sizeof(a) / sizeof((a)[0])))

static void run_handshake(void)
{
	int iu = 0, ic = 0, ik = 0, iv = 0, ip = 0, it = 0, ih = 0, order = 0;
	if (xp_param("reduced", 0)) {
		/* one header dimension at a time around the valid baseline (used together with the split deviation) */
		static const int SIZES[8] = {N(H_UPGRADE), N(H_CONN), N(H_KEY), N(H_VER), N(H_PROTO), N(H_TARGET), N(H_HTTPV), 3};
		int dim = xp_choose(8, XP_SCENARIO, "dimension");
		int val = xp_choose(SIZES[dim], XP_SCENARIO, "value");
		int *slots[8] = {&iu, &ic, &ik, &iv, &ip, &it, &ih, &order};
		*slots[dim] = val;
	} else {
		iu = xp_choose(N(H_UPGRADE), XP_SCENARIO, "Upgrade");
		ic = xp_choose(N(H_CONN), XP_SCENARIO, "Connection");
		ik = xp_choose(N(H_KEY), XP_SCENARIO, "Sec-WebSocket-Key");
		iv = xp_choose(N(H_VER), XP_SCENARIO, "Sec-WebSocket-Version");
		ip = xp_choose(N(H_PROTO), XP_SCENARIO, "Sec-WebSocket-Protocol");
		it = xp_choose(N(H_TARGET), XP_SCENARIO, "target");
		ih = xp_choose(N(H_HTTPV), XP_SCENARIO, "http-version");
		order = xp_choose(3, XP_SCENARIO, "header-order"); /* 0 canonical, 1 reversed, 2 lower-case names */
	}
	struct bytebuf rq = {0};
	bb_printf(&rq, "GET %s HTTP/%s\r\n", H_TARGET[it], H_HTTPV[ih]);
	const char *names[6] = {"Host", "Upgrade", "Connection", "Sec-WebSocket-Key", "Sec-WebSocket-Version", "Sec-WebSocket-Protocol"};
	const char *lnames[6] = {"host", "upgrade", "connection", "sec-websocket-key", "sec-websocket-version", "sec-websocket-protocol"};
	const char *vals[6] = {"localhost", H_UPGRADE[iu], H_CONN[ic], H_KEY[ik], H_VER[iv], H_PROTO[ip]};
	for (int k = 0; k < 6; k++) {
		int j = order == 1 ? 5 - k : k;
		if (vals[j] != NULL) {
			bb_printf(&rq, "%s: %s\r\n", order == 2 ? lnames[j] : names[j], vals[j]);
		}
	}
	bb_printf(&rq, "\r\n");
	bb_append(&rq, "", 1);
	bool must_upgrade = V_UPGRADE[iu] && V_CONN[ic] && V_KEY[ik] && V_VER[iv] == 1 && V_PROTO[ip] == 1 && it == 0 && ih == 0;
	/* C12 states the positive direction only; wrong target / HTTP version are C13's enumerated senses and are repeated here.
	 * Upgrades the daemon grants although key, websocket version or subprotocol list are not valid are only counted. */
	bool must_refuse = it != 0 || ih != 0;
	bool lenient = !must_refuse && (!V_KEY[ik] || V_VER[iv] == 0 || V_PROTO[ip] == 0 || !V_UPGRADE[iu] || !V_CONN[ic]);
	snprintf(what, sizeof(what), "handshake Upgrade=%s Connection=%s Key=%s Version=%s Protocol=%s target=%s HTTP/%s order=%d", H_UPGRADE[iu] ? H_UPGRADE[iu] : "-", H_CONN[ic] ? H_CONN[ic] : "-", H_KEY[ik] ? H_KEY[ik] : "-", H_VER[iv] ? H_VER[iv] : "-",
	         H_PROTO[ip] ? H_PROTO[ip] : "-", H_TARGET[it], H_HTTPV[ih], order);
	struct sim_opts o = {0};
	jx_boot(&o);
	int Hc = cl_open(CL_WS, ROLE_HTTP, ORG_DEFAULT);
	int split = xp_choose((int)rq.len - 1, XP_DEV, "split-at");
	if (split > 0) {
		sim_client_send(Hc, rq.p, (size_t)split);
		jx_settle();
		if (!sim_conn_closed_by_daemon(Hc)) {
			sim_client_send(Hc, rq.p + split, rq.len - 1 - (size_t)split);
		}
	} else {
		sim_client_send(Hc, rq.p, rq.len - 1);
	}
	jx_settle();
	struct client *c = &clients[Hc];
	if (c->http_done) {
		if (c->http_status != 101 && c->http_status < 400) {
			fail12("handshake-answer-neither-101-nor-error", "answered with status %d", c->http_status);
		}
	} else if (sim_conn_output(Hc)->len > 0 && !sim_conn_closed_by_daemon(Hc)) {
		fail12("handshake-answer-incomplete", "the daemon wrote %zu bytes that are not a complete response and keeps the connection open", sim_conn_output(Hc)->len);
	}
	bool upgraded = c->http_status == 101;
	if (must_upgrade && !upgraded) {
		fail12("valid-upgrade-refused", "a valid RFC 6455 upgrade for the configured target offering the jet subprotocol was answered with status %d%s", c->http_status, c->http_done ? "" : " (no response)");
	}
	if (must_refuse && upgraded) {
		fail12("invalid-upgrade-accepted", "answered with 101 although the target or the HTTP version is wrong");
	}
	if (lenient && upgraded) {
		xp_count("upgraded_although_not_a_valid_rfc6455_request", 1);
	}
	if (upgraded) {
		char *acc = header_value(c->http_response, "Sec-WebSocket-Accept");
		char want[40];
		accept_for(H_KEY[ik] ? H_KEY[ik] : "", want);
		if (V_KEY[ik] && (acc == NULL || strcmp(acc, want) != 0)) {
			fail12("accept-digest-wrong", "Sec-WebSocket-Accept is '%s', expected '%s'", acc ? acc : "(absent)", want);
		}
		free(acc);
		char *up = header_value(c->http_response, "Upgrade"), *co = header_value(c->http_response, "Connection");
		if (up == NULL || strcasecmp(up, "websocket") != 0 || co == NULL || strcasecmp(co, "Upgrade") != 0) {
			fail12("upgrade-response-headers", "101 response without 'Upgrade: websocket' / 'Connection: Upgrade'");
		}
		free(up);
		free(co);
		if (V_PROTO[ip] == 1) {
			char *pr = header_value(c->http_response, "Sec-WebSocket-Protocol");
			if (pr == NULL || strcmp(pr, "jet") != 0) {
				fail12("subprotocol-not-confirmed", "101 response selects subprotocol '%s' instead of 'jet'", pr ? pr : "(none)");
			}
			free(pr);
		}
		/* and the connection works */
		cl_send_text(Hc, "{\"id\":\"hs\",\"method\":\"info\"}");
		jx_settle();
		if (!jx_is_success(jx_find_response_str(Hc, "hs", 0))) {
			fail12("upgraded-connection-dead", "after 101 a text message with an info request is not answered");
		}
		xp_count("answered_101", 1);
	} else {
		xp_count(c->http_done ? "answered_error_status" : "closed_without_answer", 1);
	}
	if (!sim_conn_closed_by_daemon(Hc)) {
		sim_client_fin(Hc);
		jx_settle();
	}
	jx_check_idle_baseline("left-behind:");
	jx_check_hygiene("hygiene:");
	if (must_upgrade || must_refuse) {
		xp_nontrivial();
	}
	xp_transition();
	xp_outcome(hash_mix((uint64_t)c->http_status, 7));
	xp_state(hash_mix(hash64(rq.p, rq.len, 1), (uint64_t)split));
}

/* ------------------------------------------------------------------ section 1: transparency (ws vs raw twin) */
static const char *const SESSION[] = {
    "{\"id\":1,\"method\":\"add\",\"params\":{\"path\":\"n\",\"value\":{\"a\":[1,2]}}}",
    "{\"id\":\"x\",\"method\":\"add\",\"params\":{\"path\":\"nm\"}}",
    "{\"id\":2,\"method\":\"fetch\",\"params\":{\"id\":\"f2\",\"path\":{\"startsWith\":\"s\",\"caseInsensitive\":true}}}",
    "{\"id\":3,\"method\":\"change\",\"params\":{\"path\":\"n\",\"value\":2}}",
    "{\"id\":4,\"method\":\"set\",\"params\":{\"path\":\"sb\",\"value\":3,\"timeout\":1.5}}",
    "{\"id\":5,\"method\":\"call\",\"params\":{\"path\":\"mb\",\"args\":[1,2]}}",
    "{\"method\":\"call\",\"params\":{\"path\":\"mb\",\"args\":{\"x\":1}}}",
    "{\"id\":6,\"method\":\"get\",\"params\":{\"path\":{\"contains\":\"b\"}}}",
    "{\"id\":7,\"method\":\"config\",\"params\":{\"name\":\"peer\"}}",
    "{\"id\":8,\"method\":\"info\"}",
    "{\"id\":9,\"method\":\"nosuch\"}",
    "{\"id\":10,\"method\":\"remove\",\"params\":{\"path\":\"nm\"}}",
    "{\"id\":11,\"method\":\"unfetch\",\"params\":{\"id\":\"f2\"}}",
    "[{\"id\":12,\"method\":\"info\"},{\"id\":13,\"method\":\"change\",\"params\":{\"path\":\"n\",\"value\":\"\\u00e4\\u20ac\"}}]",
    "{\"id\":14,\"method\":\"change\",\"params\":{\"path\":\"nope\",\"value\":1}}",
    "{\"id\":1.5,\"method\":\"info\"}",
    "{\"id\":\"r\",\"result\":true}",
    "{\"id\":15,\"method\":\"authenticate\",\"params\":{\"user\":\"u\",\"password\":\"p\"}}",
    "{\"id\":16,\"method\":\"passwd\",\"params\":{\"user\":\"u\",\"password\":\"p\"}}",
    "{\"id\":17,\"method\":\"set\",\"params\":{\"path\":\"n\",\"value\":1}}",
    "{\"id\":18,\"method\":\"get\",\"params\":{}}",
    "{\"id\":19,\"method\":\"add\",\"params\":{\"path\":\"n\",\"value\":1}}",
    "{\"id\":20,\"method\":\"add\",\"params\":{\"value\":1}}",
    "{\"id\":21}",
};
#define NSESSION N(SESSION)

static void run_transparency(void)
{
	/* every subset would be too much: every single message, every ordered pair, and the whole session */
	int mode = xp_choose(3, XP_SCENARIO, "mode");
	int i1 = 0, i2 = -1;
	if (mode == 0) {
		i1 = xp_choose(NSESSION, XP_SCENARIO, "message");
	} else if (mode == 1) {
		i1 = xp_choose(NSESSION, XP_SCENARIO, "first");
		i2 = xp_choose(NSESSION, XP_SCENARIO, "second");
	}
	int twin = xp_twin_begin();
	struct sim_opts o = {0};
	jx_boot(&o);
	int Bc = jx_open(CL_RAW);
	jx_sendf(Bc, "{\"id\":\"b1\",\"method\":\"add\",\"params\":{\"path\":\"sb\",\"value\":1}}");
	jx_sendf(Bc, "{\"id\":\"b2\",\"method\":\"add\",\"params\":{\"path\":\"mb\"}}");
	jx_sendf(Bc, "{\"id\":\"b3\",\"method\":\"fetch\",\"params\":{\"id\":\"fb\"}}");
	jx_settle();
	int Ac = jx_open(twin ? CL_RAW : CL_WS);
	snprintf(what, sizeof(what), "transparency mode %d messages %d,%d", mode, i1, i2);
	for (int k = 0; k < (mode == 2 ? NSESSION : (mode == 1 ? 2 : 1)); k++) {
		int idx = mode == 2 ? k : (k == 0 ? i1 : i2);
		if (sim_conn_closed_by_daemon(Ac)) {
			break;
		}
		cl_send_text(Ac, SESSION[idx]);
		jx_settle();
		jx_reply_routed(Bc, "\"result\":{\"ok\":[1]}");
		jx_settle();
	}
	jx_expire_all_timers(4);
	if (clients[Ac].frame_violation[0]) {
		fail12("server-frame-malformed", "%s", clients[Ac].frame_violation);
	}
	struct bytebuf mine = {0}, other = {0};
	/* JSON payloads only: websocket control frames are transport matter */
	for (int pass = 0; pass < 2; pass++) {
		int cid = pass ? Bc : Ac;
		bb_printf(&mine, "== %s closed=%d\n", pass ? "bystander" : "peer", sim_conn_closed_by_daemon(cid));
		struct bytebuf t = {0};
		cl_normalised_transcript(cid, &t, 0);
		bb_append(&t, "", 1);
		for (char *line = strtok((char *)t.p, "\n"); line != NULL; line = strtok(NULL, "\n")) {
			if (strncmp(line, "<ws ", 4) != 0) {
				bb_printf(&mine, "%s\n", line);
			}
		}
		bb_free(&t);
	}
	if (twin) {
		xp_twin_end(&mine, NULL);
	}
	xp_twin_end(&mine, &other);
	if (mine.len != other.len || memcmp(mine.p, other.p, mine.len) != 0) {
		xp_logf("---- websocket ----\n%s---- raw ----\n%s", (char *)mine.p, (char *)other.p);
		fail12("transports-differ", "the same JSON-RPC payloads produce different JSON output over websocket than over the raw transport");
	}
	xp_nontrivial();
	xp_transition();
	xp_outcome(hash64(mine.p, mine.len, 2));
	xp_state(hash_mix((uint64_t)mode * 10000 + (uint64_t)i1 * 100 + (uint64_t)(i2 + 1), 3));
}

/* ------------------------------------------------------------------ section 2: large server frames */
static void run_big_frames(void)
{
	static const int COUNTS[] = {0, 1, 2, 3, 150, 160, 170, 200};
	static const int VSIZES[] = {1, 60, 80, 100, 110, 120, 400};
	int ci = xp_choose(N(COUNTS), XP_SCENARIO, "states");
	int vi = xp_choose(N(VSIZES), XP_SCENARIO, "value-size");
	int twin = xp_twin_begin();
	struct sim_opts o = {0};
	jx_boot(&o);
	int Ow = jx_open(CL_RAW);
	char val[420];
	memset(val, 'v', (size_t)VSIZES[vi]);
	val[VSIZES[vi]] = 0;
	for (int i = 0; i < COUNTS[ci]; i++) {
		jx_sendf(Ow, "{\"id\":%d,\"method\":\"add\",\"params\":{\"path\":\"s%03d\",\"value\":\"%s\"}}", i, i, val);
		if ((i & 15) == 15) {
			jx_settle();
		}
	}
	jx_settle();
	int Ac = jx_open(twin ? CL_RAW : CL_WS);
	jx_sendf(Ac, "{\"id\":\"g\",\"method\":\"get\",\"params\":{}}");
	jx_settle();
	jx_sendf(Ac, "{\"id\":\"f\",\"method\":\"fetch\",\"params\":{\"id\":\"all\"}}");
	jx_settle();
	snprintf(what, sizeof(what), "get/fetch over %d states of %d bytes", COUNTS[ci], VSIZES[vi]);
	if (clients[Ac].frame_violation[0]) {
		fail12("server-frame-malformed", "%s", clients[Ac].frame_violation);
	}
	if (clients[Ac].garbage) {
		fail12("server-stream-undecodable", "the server's byte stream does not decode into complete frames");
	}
	struct cl_msg *g = jx_find_response_str(Ac, "g", 0);
	if (g == NULL || g->cls != MC_RESULT || cJSON_GetArraySize(cJSON_GetObjectItemCaseSensitive(g->json, "result")) != COUNTS[ci]) {
		fail12("get-wrong", "get did not return %d entries", COUNTS[ci]);
	}
	struct bytebuf mine = {0}, other = {0};
	cl_normalised_transcript(Ac, &mine, 0);
	if (twin) {
		xp_twin_end(&mine, NULL);
	}
	xp_twin_end(&mine, &other);
	if (mine.len != other.len || memcmp(mine.p, other.p, mine.len) != 0) {
		fail12("transports-differ", "large responses differ between websocket and raw transport");
	}
	xp_count("largest_frame_payload", (long)(g ? g->len : 0));
	xp_nontrivial();
	xp_transition();
	xp_outcome(hash_mix((uint64_t)(g ? g->len : 0), 1));
	xp_state(hash_mix((uint64_t)ci, (uint64_t)vi));
}

/* ------------------------------------------------------------------ section 3: ping / pong */
static void run_ping(void)
{
	int len = xp_choose(126, XP_SCENARIO, "ping-length");
	int mk = xp_choose(4, XP_SCENARIO, "mask-key");
	int align = xp_choose(8, XP_SCENARIO, "alignment");
	static const uint8_t KEYS[4][4] = {{0, 0, 0, 0}, {0xff, 0xff, 0xff, 0xff}, {0x12, 0x34, 0x56, 0x78}, {0x80, 0x01, 0x7f, 0xfe}};
	struct sim_opts o = {0};
	jx_boot(&o);
	int Ac = jx_open(CL_WS);
	snprintf(what, sizeof(what), "ping with %d payload bytes, mask key %d, preceded by a %d-byte text message in the same read", len, mk, align);
	struct bytebuf b = {0};
	/* a preceding message of 'align' padding bytes shifts the ping inside the daemon's read buffer */
	char pre[64];
	snprintf(pre, sizeof(pre), "{\"id\":\"pre\",\"method\":\"info\"}%.*s", align, "        ");
	cl_frame_ws(&b, 1, true, 0, true, 0, pre, strlen(pre));
	uint8_t pl[126], h[6];
	for (int i = 0; i < len; i++) {
		pl[i] = (uint8_t)(i * 7 + len + 1);
	}
	h[0] = 0x89;
	h[1] = (uint8_t)(0x80 | len);
	memcpy(h + 2, KEYS[mk], 4);
	bb_append(&b, h, 6);
	for (int i = 0; i < len; i++) {
		uint8_t m = pl[i] ^ KEYS[mk][i % 4];
		bb_append(&b, &m, 1);
	}
	int split = xp_choose((int)b.len, XP_DEV, "split-at");
	if (split > 0) {
		sim_client_send(Ac, b.p, (size_t)split);
		jx_settle();
		sim_client_send(Ac, b.p + split, b.len - (size_t)split);
	} else {
		sim_client_send(Ac, b.p, b.len);
	}
	jx_settle();
	struct client *c = &clients[Ac];
	if (c->frame_violation[0]) {
		fail12("server-frame-malformed", "%s", c->frame_violation);
	}
	int pongs = 0;
	for (int i = 0; i < c->nmsgs; i++) {
		struct cl_msg *m = &c->msgs[i];
		if (m->wsop == 10) {
			pongs++;
			if (m->len != (size_t)len || memcmp(m->text, pl, (size_t)len) != 0) {
				fail12("pong-payload-differs", "the pong carries %zu bytes that differ from the ping's %d bytes", m->len, len);
			}
		} else if (m->wsop == 8 || m->wsop == 9) {
			fail12("ping-answered-with-other-frame", "a ping was answered with opcode %d", m->wsop);
		}
	}
	if (pongs != 1) {
		fail12("ping-not-answered-once", "a ping was answered with %d pongs", pongs);
	}
	if (!jx_is_success(jx_find_response_str(Ac, "pre", 0))) {
		fail12("message-before-ping-lost", "the text message in front of the ping was not answered");
	}
	cl_send_text(Ac, "{\"id\":\"post\",\"method\":\"info\"}");
	jx_settle();
	if (!jx_is_success(jx_find_response_str(Ac, "post", 0))) {
		fail12("connection-dead-after-ping", "after ping/pong a text message is not answered");
	}
	xp_nontrivial();
	xp_transition();
	xp_outcome((uint64_t)pongs);
	xp_state(hash_mix((uint64_t)len * 64 + (uint64_t)mk * 8 + (uint64_t)align, (uint64_t)split));
}

/* ------------------------------------------------------------------ sections 4-6: RFC 6455 classifier over the frame space */
enum expect { EX_NOTHING = 0, EX_PONG, EX_RESPONSE, EX_CLOSE, EX_OPEN /* not classified: anything orderly */ };
struct verdict {
	enum expect ex;
	int codes[4]; /* acceptable close codes; 0 terminated; empty = any code */
	bool silent_close_ok; /* closing without a close frame is acceptable too (frame larger than the read buffer) */
	const char *why;
};

/* 1012..1014 were registered with IANA after RFC 6455: accepting or refusing them is not judged */
static bool close_code_unjudged(int code)
{
	return code >= 1012 && code <= 1014;
}

static bool close_code_invalid(int code)
{
	if (code >= 1000 && code <= 1003) {
		return false;
	}
	if (code >= 1007 && code <= 1011) {
		return false;
	}
	if (code >= 3000 && code <= 4999) {
		return false;
	}
	return true;
}

/* state across the frames of one connection */
static bool frag_open;
static bool frag_processable; /* the fragments so far form a prefix of the JSON request */

static struct verdict classify(const struct wsf *f)
{
	struct verdict v = {EX_NOTHING, {0, 0, 0, 0}, false, ""};
	int nc = 0;
	bool control = f->opcode >= 8;
	bool too_big = f->declared > CONFIG_MAX_MESSAGE_SIZE; /* the daemon's read buffer holds CONFIG_MAX_MESSAGE_SIZE bytes; the header is consumed before the payload is requested */
	if (!f->mask) {
		v.codes[nc++] = 1002;
		v.why = "client frame not masked";
	}
	if (f->rsv != 0) {
		if (nc == 0) {
			v.why = "reserved bits set";
		}
		if (nc == 0 || v.codes[nc - 1] != 1002) {
			v.codes[nc++] = 1002;
		}
	}
	bool reserved_op = (f->opcode >= 3 && f->opcode <= 7) || f->opcode >= 11;
	bool bad_control = control && (!f->fin || f->declared > 125);
	bool bad_seq = (f->opcode == 0 && !frag_open) || ((f->opcode == 1 || f->opcode == 2) && frag_open);
	if (reserved_op || bad_control || bad_seq) {
		if (nc == 0) {
			v.why = reserved_op ? "reserved opcode" : bad_control ? "fragmented or oversized control frame" : "continuation without start / new message inside a fragmented one";
		}
		if (nc == 0 || v.codes[nc - 1] != 1002) {
			v.codes[nc++] = 1002;
		}
	}
	if (nc > 0) {
		v.ex = EX_CLOSE;
		v.silent_close_ok = too_big;
		if (too_big) {
			v.codes[0] = 0; /* the payload cannot even be buffered: the RFC leaves the status open, any close frame will do */
		}
		return v;
	}
	if (too_big) {
		/* a data frame that cannot fit: RFC 6455 leaves the reaction open (1009 or dropping the connection) */
		v.ex = EX_CLOSE;
		v.silent_close_ok = true;
		v.why = "frame larger than the daemon's read buffer";
		return v;
	}
	switch (f->opcode) {
	case 8: {
		v.ex = EX_CLOSE;
		if (f->declared == 1) {
			v.codes[0] = 1002;
			v.why = "close frame with a 1-byte payload";
		} else if (f->declared >= 2 && f->payload == WP_BADUTF8) {
			/* the code bytes are C0 80 = 49280: invalid code AND the reason is not UTF-8 */
			v.codes[0] = 1002;
			v.codes[1] = 1007;
			v.why = "close frame with invalid code / non-UTF-8 reason";
		} else if (f->declared >= 2 && f->payload == WP_CLOSE && close_code_unjudged(f->close_code)) {
			v.why = "close frame with a status code registered after RFC 6455 (any close frame)";
		} else if (f->declared >= 2 && close_code_invalid(f->payload == WP_CLOSE ? f->close_code : ('a' << 8 | 'a'))) {
			v.codes[0] = 1002;
			v.why = "close frame with an invalid status code";
		} else {
			/* valid close: echoed (the daemon may answer with 1000 or with the received code) */
			v.codes[0] = 1000;
			v.codes[1] = f->declared >= 2 ? f->close_code : 1000;
			v.why = "valid close frame";
		}
		return v;
	}
	case 9:
		v.ex = EX_PONG;
		v.why = "ping";
		return v;
	case 10:
		v.ex = EX_NOTHING;
		v.why = "unsolicited pong";
		return v;
	case 2:
		if (f->fin) {
			v.ex = EX_CLOSE; /* the jet subprotocol has no binary messages: any close frame (1003 expected) */
			v.why = "binary message";
			return v;
		}
		/* fall through: start of a fragmented binary message */
	case 0:
	case 1:
	default:
		break;
	}
	/* data frames */
	if (f->opcode == 1 && f->fin) {
		if (f->payload == WP_BADUTF8 && f->declared > 0) {
			v.ex = EX_CLOSE; /* the statement names no status for this case: any close frame */
			v.why = "text message that is not UTF-8";
			return v;
		}
		if (f->payload == WP_JSON && f->declared >= strlen(WSF_JSON)) {
			v.ex = EX_RESPONSE;
			v.why = "complete text message carrying a request";
			return v;
		}
		v.ex = EX_OPEN; /* text message whose payload is not the request: judged by the transparency section */
		v.why = "text message with other payload";
		return v;
	}
	/* fragments: processed like the whole message, or refused with a close frame */
	v.ex = EX_OPEN;
	v.why = "fragment of a data message";
	return v;
}

static void run_frames(int section)
{
	struct wsf fr[3];
	int nf = section - 3;
	int delivery = 0;
	if (section == 7) {
		/* every close status code (quick: the codes around every boundary of the valid ranges; param allcodes=1: all 65536), with and
		 * without a reason text */
		static const int EDGES[] = {0, 1, 2, 255, 256, 998, 999, 1000, 1001, 1002, 1003, 1004, 1005, 1006, 1007, 1008, 1009, 1010, 1011, 1012, 1013, 1014, 1015, 1016, 1017, 1099, 1100, 1999, 2000, 2998, 2999, 3000, 3001, 3999, 4000, 4998, 4999, 5000, 5001, 9999, 32767, 32768, 49280, 65534, 65535};
		int code;
		if (xp_param("allcodes", 0)) {
			code = xp_choose(256, XP_SCENARIO, "close-code-high-byte") * 256;
			code += xp_choose(256, XP_SCENARIO, "close-code-low-byte");
		} else {
			code = EDGES[xp_choose((int)(sizeof(EDGES) / sizeof(EDGES[0])), XP_SCENARIO, "close-code")];
		}
		int reason = xp_choose(2, XP_SCENARIO, "reason");
		nf = 1;
		fr[0] = (struct wsf){.opcode = 8, .fin = true, .rsv = 0, .mask = true, .lenenc = 0, .declared = reason ? 7 : 2, .payload = WP_CLOSE, .close_code = code, .name = "close-code-sweep"};
	} else if (nf == 1) {
		int idx = xp_choose(wsf_product_size(), XP_SCENARIO, "frame");
		if (!wsf_product(idx, &fr[0])) {
			xp_end_run();
		}
	} else {
		int alpha = nf == 2 ? WSF_NALPHA : 10;
		for (int i = 0; i < nf; i++) {
			fr[i] = WSF_ALPHA[xp_choose(alpha, XP_SCENARIO, "frame")];
		}
		delivery = xp_choose(2, XP_SCENARIO, "delivery"); /* 0 one readiness event per frame, 1 all frames in one read */
	}
	struct sim_opts o = {0};
	jx_boot(&o);
	int Ac = jx_open(CL_WS);
	frag_open = false;
	frag_processable = true;
	struct client *c = &clients[Ac];
	struct bytebuf all = {0};
	char desc[400] = "";
	for (int i = 0; i < nf; i++) {
		char d[130];
		wsf_describe(&fr[i], d, sizeof(d));
		snprintf(desc + strlen(desc), sizeof(desc) - strlen(desc), "%s ", d);
	}
	snprintf(what, sizeof(what), "frames %s(delivery %d)", desc, delivery);
	int from = c->nmsgs;
	if (delivery == 1) {
		for (int i = 0; i < nf; i++) {
			wsf_build(&fr[i], &all);
		}
		int split = xp_choose((int)(all.len > 40 ? 40 : all.len), XP_DEV, "split-at");
		if (split > 0) {
			sim_client_send(Ac, all.p, (size_t)split);
			jx_settle();
			if (!sim_conn_closed_by_daemon(Ac)) {
				sim_client_send(Ac, all.p + split, all.len - (size_t)split);
			}
		} else {
			sim_client_send(Ac, all.p, all.len);
		}
		jx_settle();
	}
	bool ended = false;
	for (int i = 0; i < nf && !ended; i++) {
		struct verdict v = classify(&fr[i]);
		if (delivery == 0) {
			struct bytebuf b = {0};
			wsf_build(&fr[i], &b);
			int split = xp_choose((int)(b.len > 40 ? 40 : b.len), XP_DEV, "split-at");
			if (split > 0) {
				sim_client_send(Ac, b.p, (size_t)split);
				jx_settle();
				if (!sim_conn_closed_by_daemon(Ac)) {
					sim_client_send(Ac, b.p + split, b.len - (size_t)split);
				}
			} else {
				sim_client_send(Ac, b.p, b.len);
			}
			bb_free(&b);
			jx_settle();
			if (fr[i].declared > WSF_MAX_SENT && !sim_conn_closed_by_daemon(Ac)) {
				/* the announced payload never comes completely: the client gives up */
				sim_client_fin(Ac);
				jx_settle();
			}
		}
		if (c->frame_violation[0]) {
			fail12("server-frame-malformed", "%s", c->frame_violation);
		}
		/* what did this frame produce?  (with delivery 1 the messages of all frames are in order in the transcript) */
		char d[130];
		wsf_describe(&fr[i], d, sizeof(d));
		struct cl_msg *m = from < c->nmsgs ? &c->msgs[from] : NULL;
		switch (v.ex) {
		case EX_NOTHING:
			if (delivery == 0 && from != c->nmsgs) {
				fail12("unexpected-output", "frame %d %s (%s) must produce no output but the server sent something (opcode %d)", i, d, v.why, m->wsop);
			}
			break;
		case EX_PONG: {
			if (m == NULL || m->wsop != 10) {
				fail12("ping-not-answered", "frame %d %s: expected a pong, got %s", i, d, m ? "another frame" : "nothing");
			}
			struct bytebuf pl = {0};
			wsf_payload_bytes(&fr[i], &pl);
			if (m->len != pl.len || memcmp(m->text, pl.p, pl.len) != 0) {
				fail12("pong-payload-differs", "frame %d %s: pong payload differs from the ping's", i, d);
			}
			bb_free(&pl);
			from++;
			break;
		}
		case EX_RESPONSE:
			if (m == NULL || m->wsop != 1 || m->json == NULL || !jx_is_success(m) || !cJSON_IsString(msg_id(m)) || strcmp(msg_id(m)->valuestring, "wsf") != 0) {
				fail12("request-not-answered", "frame %d %s: a complete text message with a request must be answered with its response", i, d);
			}
			from++;
			break;
		case EX_CLOSE: {
			bool got_close = m != NULL && m->wsop == 8;
			if (!got_close) {
				if (!(v.silent_close_ok && m == NULL && sim_conn_closed_by_daemon(Ac))) {
					char key[120];
					snprintf(key, sizeof(key), "no-close-frame:%s", v.why);
					fail12(key, "frame %d %s (%s) must end the connection with a close frame; the server %s", i, d, v.why, m ? "sent another frame" : sim_conn_closed_by_daemon(Ac) ? "dropped the connection without one" : "did nothing");
				}
			} else {
				bool okc = v.codes[0] == 0;
				for (int k = 0; k < 4 && v.codes[k] != 0; k++) {
					if (m->close_code == v.codes[k]) {
						okc = true;
					}
				}
				if (!okc) {
					char key[120];
					snprintf(key, sizeof(key), "close-status-wrong:%s:got=%d", v.why, m->close_code);
					fail12(key, "frame %d %s (%s): close frame carries status %d, expected %d%s", i, d, v.why, m->close_code, v.codes[0], v.codes[1] ? " (or an alternative)" : "");
				}
				if (from + 1 != c->nmsgs) {
					fail12("output-after-close-frame", "frame %d %s: the server sent further frames after its close frame", i, d);
				}
			}
			if (!sim_conn_closed_by_daemon(Ac)) {
				fail12("connection-open-after-close", "frame %d %s (%s): the server did not end the connection", i, d, v.why);
			}
			ended = true;
			break;
		}
		case EX_OPEN: {
			/* fragments / other text payloads: either processed (possibly an error response, possibly nothing yet) or refused with a close frame; never a pong, a ping or garbage */
			for (int k = from; k < c->nmsgs; k++) {
				if (c->msgs[k].wsop != 1 && c->msgs[k].wsop != 8) {
					fail12("data-frame-answered-with-control-frame", "frame %d %s: answered with opcode %d", i, d, c->msgs[k].wsop);
				}
			}
			if (sim_conn_closed_by_daemon(Ac)) {
				ended = true;
			} else if (delivery == 0) {
				from = c->nmsgs;
			} else {
				/* one read: cannot attribute output to frames any further */
				ended = true;
			}
			break;
		}
		}
		/* fragmentation bookkeeping of the reference */
		if (fr[i].opcode == 1 || fr[i].opcode == 2) {
			frag_open = !fr[i].fin;
		} else if (fr[i].opcode == 0 && fr[i].fin) {
			frag_open = false;
		}
	}
	if (!sim_conn_closed_by_daemon(Ac)) {
		cl_send_text(Ac, "{\"id\":\"after\",\"method\":\"info\"}");
		jx_settle();
		if (c->frame_violation[0]) {
			fail12("server-frame-malformed", "%s", c->frame_violation);
		}
		if (!sim_conn_closed_by_daemon(Ac)) {
			sim_client_fin(Ac);
			jx_settle();
		}
	}
	if (!sim_conn_closed_by_daemon(Ac)) {
		fail12("connection-not-released", "the client has gone but the daemon keeps the connection open");
	}
	jx_check_idle_baseline("left-behind:");
	jx_check_hygiene("hygiene:");
	xp_nontrivial();
	xp_transition();
	xp_outcome(hash_mix(hash64(sim_conn_output(Ac)->p, sim_conn_output(Ac)->len, 3), (uint64_t)sim_conn_closed_by_daemon(Ac)));
	xp_state(hash_mix(hash64(desc, strlen(desc), 1), (uint64_t)delivery + 2 * (uint64_t)(section == 7 ? fr[0].close_code + 1 : 0)));
}


/* ---- section 8: pings under back-pressure ----------------------------------------------------------------------------------
 * The client stops reading (send window 0) before its p-th ping and goes on sending numbered pings; pongs pile up in the daemon's
 * write buffer until one does not fit.  Then the window reopens and one more ping follows.  Whatever happens, the pongs the client
 * finally holds answer a gap-free prefix of its pings, in order, with identical payloads; if the connection is still open at the
 * end every ping was answered - a ping that could not be answered ends the connection, it is never silently skipped. */
static void run_ping_backpressure(void)
{
	int plen = 1 + 31 * xp_choose(4, XP_SCENARIO, "ping-length"); /* 1, 32, 63, 94 */
	int total = (int)(2 * CONFIG_MAX_WRITE_BUFFER_SIZE / (plen + 2)) + 6;
	if (total > 400) {
		total = 400;
	}
	int stop_at = xp_choose(3, XP_SCENARIO, "stops-reading-before-ping");
	int per_batch = 1 + xp_choose(2, XP_SCENARIO, "pings-per-read") * 3; /* 1 or 4 pings per chunk */
	struct sim_opts o = {0};
	jx_boot(&o);
	int Ac = jx_open(CL_WS);
	snprintf(what, sizeof(what), "%d pings of %d bytes, the client stops reading before ping %d, %d ping(s) per read, write buffer %d bytes", total, plen, stop_at, per_batch, (int)CONFIG_MAX_WRITE_BUFFER_SIZE);
	struct bytebuf b = {0};
	for (int i = 0; i <= total; i++) {
		if (i == stop_at) {
			sim_set_window(Ac, 0);
		}
		if (i == total) {
			/* everything is sent: the client reads again, then sends the last ping */
			sim_client_send(Ac, b.p, b.len);
			bb_reset(&b);
			jx_settle();
			sim_set_window(Ac, -1);
			jx_settle();
		}
		if (sim_conn_closed_by_daemon(Ac)) {
			break;
		}
		uint8_t pl[128];
		memset(pl, 'a' + (i % 26), (size_t)plen);
		pl[0] = (uint8_t)(i & 0xff);
		if (plen > 1) {
			pl[1] = (uint8_t)(i >> 8);
		}
		cl_frame_ws(&b, 9, true, 0, true, 0, pl, (size_t)plen);
		if (((i + 1) % per_batch) == 0 || i == total) {
			sim_client_send(Ac, b.p, b.len);
			bb_reset(&b);
			jx_settle();
		}
	}
	jx_settle();
	struct client *c = &clients[Ac];
	if (c->frame_violation[0] && !sim_conn_closed_by_daemon(Ac)) {
		fail12("server-frame-malformed:backpressure", "%s", c->frame_violation);
	}
	int next = 0;
	for (int i = 0; i < c->nmsgs; i++) {
		struct cl_msg *m = &c->msgs[i];
		if (m->wsop != 10) {
			continue;
		}
		int idx = m->len >= 1 ? ((uint8_t)m->text[0] | (plen > 1 && m->len >= 2 ? ((uint8_t)m->text[1] << 8) : 0)) : -1;
		if (plen == 1) {
			idx = next & 0xff; /* one byte only: compare modulo 256 */
			if ((uint8_t)m->text[0] != (uint8_t)(next & 0xff)) {
				idx = -2;
			}
		}
		if (idx != (plen == 1 ? (next & 0xff) : next) || m->len != (size_t)plen) {
			char key[120];
			snprintf(key, sizeof(key), "pong-sequence-has-a-hole:%s", sim_conn_closed_by_daemon(Ac) ? "connection-closed-later" : "connection-still-open");
			fail12(key, "pong %d answers ping %d (payload %zu bytes): ping %d was never answered although a later one was", i, idx, m->len, next);
		}
		next++;
	}
	if (!sim_conn_closed_by_daemon(Ac) && next != total + 1) {
		fail12("ping-unanswered-on-open-connection", "the connection is still open but only %d of %d pings were answered", next, total + 1);
	}
	xp_count(sim_conn_closed_by_daemon(Ac) ? "connection_closed_when_a_pong_could_not_be_sent" : "all_pings_answered", 1);
	xp_count("pongs_received", next);
	jx_close_all();
	jx_check_idle_baseline("left-behind:");
	xp_nontrivial();
	xp_transition();
	xp_outcome((uint64_t)next);
	xp_state(hash_mix((uint64_t)plen * 100 + (uint64_t)stop_at * 10 + (uint64_t)per_batch, 81));
}

static void run(void)
{
	long s = xp_param("section", 0);
	if (s == 8) {
		run_ping_backpressure();
		return;
	}
	switch (s) {
	case 0:
		run_handshake();
		break;
	case 1:
		run_transparency();
		break;
	case 2:
		run_big_frames();
		break;
	case 3:
		run_ping();
		break;
	default:
		run_frames((int)s);
	}
}

const struct driver drv_c12 = {
    .name = "c12",
    .property = "C12",
    .run = run,
    .rule = "section 0: handshake product Upgrade(4) x Connection(5) x Key(5) x Version(5) x Protocol(9) x target(2) x HTTP version(2) x header order/case(3), reference predicate 'valid RFC 6455 upgrade offering jet' => 101 + accept digest recomputed by the harness + 'Sec-WebSocket-Protocol: jet'; wrong target / HTTP 1.0 => never 101; anything else: 101 or error status or close (leniently upgraded invalid requests are counted, not judged); section 1: every single message, every ordered pair and the whole of a 24-message session sent as websocket text messages, JSON output on every connection equal to the raw-transport twin; section 2: get/fetch over 0..200 states of 1..400 bytes (server frames across the 126 and 65536 boundaries), decoder demands unmasked, FIN, minimal length encoding, content equal to the raw twin; section 3: ping of every length 0..125 x 4 mask keys x 8 read-buffer alignments => exactly one pong with identical payload; sections 4-6: single-frame product, ordered pairs over 26 frames, ordered triples over 10 frames, x {one readiness event per frame, one read}, judged per frame by an RFC 6455 classifier (unmasked / RSV / reserved opcode / fragmented or >125 control / bad sequence => close 1002; close payload rules => 1002/1007/echo; ping => pong; binary => close; non-UTF-8 text => 1007; request => response; fragments and other text => processed or close frame); section 7: a close frame with every status code around the boundaries of the valid ranges (45 codes; thorough: all 65536) with and without a reason: 0-999, 1004-1006, 1015-2999 and >= 5000 => close 1002, 1000-1003 / 1007-1011 / 3000-4999 => echoed or 1000, 1012-1014 unjudged; section 8: numbered pings of 4 lengths while the client has stopped reading, until the pongs no longer fit the write buffer, then the client reads again and sends one more: the pongs received answer a gap-free prefix of the pings, and if the connection is still open all of them; deviation budget 1: every split point of the client bytes (first 40 for frames)",
    .assumptions = "frames larger than the daemon's read buffer may be refused by dropping the connection (RFC 6455 leaves the status open)|a valid close frame may be echoed with the received code or with 1000|text messages whose payload is not the reference request are judged by the transparency section, not by the classifier",
};
