/* smoke test of the simulated kernel: not a property check */
#include <string.h>

#include "clients.h"

static void run(void)
{
	struct sim_opts o = {0};
	if (!sim_boot(&o)) {
		xp_fail("boot", "daemon did not start");
	}
	xp_logf("booted: alloc=%zu raw_live=%ld peers=%d fds=%d", sim_base.alloc_size, sim_base.raw_live, sim_base.peers, sim_base.open_fds);
	int a = cl_open_raw();
	int b = xp_choose(2, XP_ACTION, "transport") ? cl_open_ws() : cl_open_raw();
	sim_settle();
	cl_pump();
	cl_send_text(a, "{\"id\":1,\"method\":\"add\",\"params\":{\"path\":\"foo\",\"value\":42}}");
	sim_settle();
	cl_send_text(b, "{\"id\":\"f\",\"method\":\"fetch\",\"params\":{\"id\":\"fid\"}}");
	sim_settle();
	cl_send_text(a, "{\"id\":2,\"method\":\"change\",\"params\":{\"path\":\"foo\",\"value\":43}}");
	sim_settle();
	cl_send_text(b, "{\"id\":3,\"method\":\"set\",\"params\":{\"path\":\"foo\",\"value\":44,\"timeout\":0.5}}");
	sim_settle();
	cl_pump();
	int k = xp_choose(3, XP_ACTION, "ending");
	if (k == 0) {
		/* owner replies */
		struct client *ca = &clients[a];
		for (int i = 0; i < ca->nmsgs; i++) {
			if (ca->msgs[i].cls == MC_ROUTED) {
				char buf[300];
				snprintf(buf, sizeof(buf), "{\"id\":\"%s\",\"result\":true}", msg_id(&ca->msgs[i])->valuestring);
				cl_send_text(a, buf);
			}
		}
		sim_settle();
	} else if (k == 1) {
		sim_advance(600000000ULL);
		sim_settle();
	} else {
		sim_client_fin(a);
		sim_settle();
	}
	cl_pump();
	for (int c = 0; c < 2; c++) {
		struct bytebuf t = {0};
		cl_normalised_transcript(c, &t, 0);
		xp_logf("conn %d transcript:\n%s", c, t.p ? (char *)t.p : "");
		xp_outcome(cl_transcript_hash(c));
		bb_free(&t);
	}
	sim_client_fin(a);
	sim_client_fin(b);
	sim_settle();
	xp_logf("after close: alloc=%zu raw_live=%ld peers=%d fds=%d timers=%d hygiene=%d", cjet_get_alloc_size(), sim_heap_live(), get_number_of_peers(), sim_open_fds(), sim_armed_timers(), sim_hygiene_count());
	sim_sigterm();
	sim_settle();
	xp_logf("exited=%d code=%d alloc=%zu raw_live=%ld fds=%d", sim_daemon_exited(), sim_daemon_exit_code(), cjet_get_alloc_size(), sim_heap_live(), sim_open_fds());
	xp_transition();
	xp_state(cl_transcript_hash(0));
}

const struct driver drv_smoke = {.name = "smoke", .property = "C00", .run = run, .rule = "smoke", .assumptions = ""};
