/* C11 - a slow, failing or hostile peer harms only itself.
 * A fixed history of healthy traffic between H1 and H2 (changes, adds, removes, routed set/call with replies, fetch, get)
 * runs while a third peer X - which subscribed FIRST and therefore sits in front of the others in every subscriber
 * table - has one fault out of a menu, injected before every position of the history.  The streams of H1 and H2 are
 * compared with the twin execution in which X stays healthy.  The only tolerated difference: a success response may
 * be replaced by an error response with the same id ("at worst an error that reports the failed delivery") - the
 * effect must be there, which shows in the unchanged notifications and get results.
 * section 1: a fourth party's connection attempt fails in accept / fcntl / setsockopt / getsockname at every position. */
#include <errno.h>
#include <stdlib.h>
#include <string.h>

#include "common.h"

enum fault { F_STALL = 0, F_WRITEFAIL, F_RESET_WRITE, F_GARBAGE, F_RESET_EPOLL, F_RESET_READ, F_OVERSIZE, NFAULTS };
static const char *const FN[] = {"X stops reading (send window 0)", "one writev to X fails with EPIPE", "X's socket is reset, seen by writev only", "X sends invalid JSON", "X is reset (EPOLLERR|HUP)", "X is reset (seen by read)", "X announces an oversize message"};

static int X, H1, H2;
static bool xrouted_sent;
static char x_request_rid[128];
static char bigval[600];
static char what[300];

static void fail11(const char *key, const char *fmt, ...) __attribute__((noreturn, format(printf, 2, 3)));
static void fail11(const char *key, const char *fmt, ...)
{
	char m[1500];
	va_list ap;
	va_start(ap, fmt);
	vsnprintf(m, sizeof(m), fmt, ap);
	va_end(ap);
	jx_log_transcripts();
	xp_fail(key, "%s: %s", what, m);
}

struct hstep {
	int who; /* 1 = H1, 2 = H2 */
	const char *req; /* %s = big value */
	int reply_by; /* 0 none, 1 H1 replies, 2 H2 replies, 3 X replies (healthy only) */
	bool needs_xowner;
};
static const struct hstep HIST[] = {
    {1, "{\"id\":\"s0\",\"method\":\"change\",\"params\":{\"path\":\"h1s\",\"value\":\"a%s\"}}", 0, false},
    {2, "{\"id\":\"s1\",\"method\":\"add\",\"params\":{\"path\":\"h2n\",\"value\":\"b%s\"}}", 0, false},
    {1, "{\"id\":\"s2\",\"method\":\"set\",\"params\":{\"path\":\"h2s\",\"value\":\"c%s\"}}", 2, false},
    {2, "{\"id\":\"s3\",\"method\":\"call\",\"params\":{\"path\":\"h1m\",\"args\":[\"d%s\"]}}", 1, false},
    {1, "{\"id\":\"s4\",\"method\":\"remove\",\"params\":{\"path\":\"h1s\"}}", 0, false},
    {1, "{\"id\":\"s5\",\"method\":\"add\",\"params\":{\"path\":\"h1s\",\"value\":\"e%s\"}}", 0, false},
    {2, "{\"id\":\"s6\",\"method\":\"change\",\"params\":{\"path\":\"h2s\",\"value\":\"f%s\"}}", 0, false},
    {2, "{\"id\":\"s7\",\"method\":\"change\",\"params\":{\"path\":\"h2n\",\"value\":\"g%s\"}}", 0, false},
    {1, "@reply-to-x", 0, false}, /* H1 answers the request X has had in flight since the set-up (only when X is a caller) */
    {1, "{\"id\":\"s8\",\"method\":\"fetch\",\"params\":{\"id\":\"second\",\"path\":{\"startsWith\":\"h2\"}}}", 0, false},
    {2, "{\"id\":\"s9\",\"method\":\"remove\",\"params\":{\"path\":\"h2n\"}}", 0, false},
    {1, "{\"id\":\"s10\",\"method\":\"get\",\"params\":{\"path\":{\"startsWith\":\"h\"}}}", 0, false},
    {1, "{\"id\":\"s11\",\"method\":\"call\",\"params\":{\"path\":\"xm\",\"args\":[1],\"timeout\":1}}", 3, true},
    {2, "{\"id\":\"s12\",\"method\":\"set\",\"params\":{\"path\":\"xs\",\"value\":5,\"timeout\":1}}", 3, true},
    {2, "{\"id\":\"s13\",\"method\":\"change\",\"params\":{\"path\":\"h2s\",\"value\":\"h%s\"}}", 0, false},
    {1, "{\"id\":\"s14\",\"method\":\"add\",\"params\":{\"path\":\"h1late\"}}", 0, false},
};
#define NHIST ((int)(sizeof(HIST) / sizeof(HIST[0])))

static bool x_alive(void)
{
	return !sim_conn_closed_by_daemon(X) && !sim_conn_client_gone(X);
}

/* one line per message of a healthy peer.  Notifications about X's own elements are dropped (X may legitimately vanish);
 * responses to the requests routed to X (ids s11, s12) are taken out and counted separately, because a faulty X answers
 * late (timeout) or not at all; runs of adjacent notifications are sorted, because the order in which the fetches of one
 * event are served depends on subscriber-table slots that X's departure frees. */
static int xrouted_answers[2];
static int cmp_lines(const void *a, const void *b)
{
	return strcmp(*(char *const *)a, *(char *const *)b);
}
static void render(int cid, struct bytebuf *out)
{
	struct bytebuf t = {0};
	cl_normalised_transcript(cid, &t, 0);
	bb_append(&t, "", 1);
	char *save = NULL;
	char *run[256];
	int nrun = 0;
	for (char *line = strtok_r((char *)t.p, "\n", &save);; line = strtok_r(NULL, "\n", &save)) {
		bool notif = line != NULL && strstr(line, "\"event\":") != NULL;
		if (notif && strstr(line, "\"path\":\"x") != NULL) {
			continue;
		}
		if (notif && nrun < 256) {
			run[nrun++] = line;
			continue;
		}
		/* answers to the requests routed to X are taken out without ending a run (they arrive at different moments) */
		if (line != NULL && strncmp(line, "{\"id\":\"s11\"", 11) == 0 && strstr(line, "\"method\"") == NULL) {
			xrouted_answers[0]++;
			continue;
		}
		if (line != NULL && strncmp(line, "{\"id\":\"s12\"", 11) == 0 && strstr(line, "\"method\"") == NULL) {
			xrouted_answers[1]++;
			continue;
		}
		qsort(run, (size_t)nrun, sizeof(run[0]), cmp_lines);
		for (int i = 0; i < nrun; i++) {
			bb_printf(out, "%s\n", run[i]);
		}
		nrun = 0;
		if (line == NULL) {
			break;
		}
		if (strncmp(line, "{\"id\":\"s11\"", 11) == 0 && strstr(line, "\"method\"") == NULL) {
			xrouted_answers[0]++;
			continue;
		}
		if (strncmp(line, "{\"id\":\"s12\"", 11) == 0 && strstr(line, "\"method\"") == NULL) {
			xrouted_answers[1]++;
			continue;
		}
		bb_printf(out, "%s\n", line);
	}
	bb_free(&t);
}

/* compares line by line; a result line may be replaced by an error line with the same id */
static bool equivalent(const char *mine, const char *other, char *diff, size_t dlen)
{
	char *a = strdup(mine), *b = strdup(other), *sa = NULL, *sb = NULL;
	char *la = strtok_r(a, "\n", &sa), *lb = strtok_r(b, "\n", &sb);
	bool ok = true;
	while (la != NULL || lb != NULL) {
		if (la == NULL || lb == NULL) {
			snprintf(diff, dlen, "%s: %.300s", la ? "extra message" : "missing message", la ? la : lb);
			ok = false;
			break;
		}
		if (strcmp(la, lb) != 0) {
			cJSON *ja = cJSON_Parse(la), *jb = cJSON_Parse(lb);
			bool tolerated = false;
			if (ja != NULL && jb != NULL) {
				const cJSON *ia = cJSON_GetObjectItemCaseSensitive(ja, "id"), *ib = cJSON_GetObjectItemCaseSensitive(jb, "id");
				if (ia != NULL && ib != NULL && json_equal(ia, ib) && cJSON_GetObjectItemCaseSensitive(ja, "error") != NULL && cJSON_GetObjectItemCaseSensitive(ja, "result") == NULL &&
				    cJSON_GetObjectItemCaseSensitive(jb, "method") == NULL && cJSON_GetObjectItemCaseSensitive(ja, "method") == NULL) {
					tolerated = true; /* result (or another error) replaced by an error with the same id */
				}
			}
			cJSON_Delete(ja);
			cJSON_Delete(jb);
			if (!tolerated) {
				snprintf(diff, dlen, "got      %.400s\n  healthy  %.400s", la, lb);
				ok = false;
				break;
			}
		}
		la = strtok_r(NULL, "\n", &sa);
		lb = strtok_r(NULL, "\n", &sb);
	}
	free(a);
	free(b);
	return ok;
}

static void setup(int xrole)
{
	bool xowner = xrole == 1;
	X = jx_open(xp_param("xws", 0) ? CL_WS : CL_RAW);
	jx_sendf(X, "{\"id\":\"x0\",\"method\":\"fetch\",\"params\":{\"id\":\"xf\"}}");
	jx_settle();
	if (xowner) {
		jx_sendf(X, "{\"id\":\"x1\",\"method\":\"add\",\"params\":{\"path\":\"xs\",\"value\":1}}");
		jx_sendf(X, "{\"id\":\"x2\",\"method\":\"add\",\"params\":{\"path\":\"xm\"}}");
		jx_settle();
	}
	H1 = jx_open(CL_RAW);
	H2 = jx_open(CL_WS);
	jx_sendf(H1, "{\"id\":\"i1\",\"method\":\"fetch\",\"params\":{\"id\":\"f1\"}}");
	jx_sendf(H2, "{\"id\":\"i2\",\"method\":\"fetch\",\"params\":{\"id\":\"f2\"}}");
	jx_settle();
	jx_sendf(H1, "{\"id\":\"i3\",\"method\":\"add\",\"params\":{\"path\":\"h1s\",\"value\":0}}");
	jx_sendf(H1, "{\"id\":\"i4\",\"method\":\"add\",\"params\":{\"path\":\"h1m\"}}");
	jx_sendf(H2, "{\"id\":\"i5\",\"method\":\"add\",\"params\":{\"path\":\"h2s\",\"value\":0}}");
	jx_settle();
	x_request_rid[0] = 0;
	if (xrole == 2) {
		/* X is a caller: its request to H1's method stays unanswered until H1 replies in the middle of the history */
		jx_sendf(X, "{\"id\":\"xc\",\"method\":\"call\",\"params\":{\"path\":\"h1m\",\"args\":[\"from-x\"],\"timeout\":30}}");
		jx_settle();
		for (int i = 0; i < clients[H1].nmsgs; i++) {
			struct cl_msg *m = &clients[H1].msgs[i];
			if (m->cls == MC_ROUTED && !m->consumed && cJSON_IsString(msg_id(m))) {
				snprintf(x_request_rid, sizeof(x_request_rid), "%s", msg_id(m)->valuestring);
				m->consumed = true;
			}
		}
		if (x_request_rid[0] == 0) {
			fail11("setup-failed", "X's call was not routed to H1");
		}
	}
}

static void apply_fault(int f)
{
	switch (f) {
	case F_STALL:
		sim_set_window(X, 0);
		break;
	case F_WRITEFAIL:
		sim_fail_next("writev", EPIPE, X);
		break;
	case F_RESET_WRITE:
		sim_client_reset(X, RST_WRITE);
		break;
	case F_GARBAGE:
		cl_send_text(X, "{\"id\":1,\"method\":");
		jx_settle();
		break;
	case F_RESET_EPOLL:
		sim_client_reset(X, RST_EPOLL);
		jx_settle();
		break;
	case F_RESET_READ:
		sim_client_reset(X, RST_READ);
		jx_settle();
		break;
	case F_OVERSIZE: {
		if (clients[X].kind == CL_WS) {
			uint8_t h[10] = {0x81, 0x80 | 127, 0, 0, 0, 0, 0, 1, 0, 0};
			sim_client_send(X, h, sizeof(h));
		} else {
			uint8_t h[4] = {0x00, 0x10, 0x00, 0x00};
			sim_client_send(X, h, 4);
		}
		jx_settle();
		break;
	}
	}
}

static void finish_and_compare(int twin, const char *keyctx)
{
	jx_expire_all_timers(6);
	/* afterwards the daemon still accepts and serves: a fresh peer lists and subscribes */
	int Nn = jx_open(CL_RAW);
	jx_sendf(Nn, "{\"id\":\"n1\",\"method\":\"get\",\"params\":{\"path\":{\"startsWith\":\"h\"}}}");
	jx_sendf(Nn, "{\"id\":\"n2\",\"method\":\"fetch\",\"params\":{\"id\":\"nf\",\"path\":{\"startsWith\":\"h\"}}}");
	jx_settle();
	jx_sendf(H1, "{\"id\":\"last\",\"method\":\"change\",\"params\":{\"path\":\"h1s\",\"value\":\"final\"}}");
	jx_settle();
	struct bytebuf mine = {0}, other = {0};
	bb_printf(&mine, "== H1 closed=%d\n", sim_conn_closed_by_daemon(H1));
	render(H1, &mine);
	bb_printf(&mine, "== H2 closed=%d\n", sim_conn_closed_by_daemon(H2));
	render(H2, &mine);
	bb_printf(&mine, "== fresh peer closed=%d\n", sim_conn_closed_by_daemon(Nn));
	render(Nn, &mine);
	if (clients[H2].frame_violation[0]) {
		bb_printf(&mine, "ws frame violation: %s\n", clients[H2].frame_violation);
	}
	if (xrouted_sent && (xrouted_answers[0] != 1 || xrouted_answers[1] != 1)) {
		fail11("request-routed-to-x-not-answered-once", "the healthy peers' requests to X's elements were answered %d and %d times (exactly one answer each is due: X's result, an error, or the timeout)", xrouted_answers[0], xrouted_answers[1]);
	}
	if (twin) {
		xp_twin_end(&mine, NULL);
	}
	xp_twin_end(&mine, &other);
	bb_append(&mine, "", 1);
	bb_append(&other, "", 1);
	char diff[1000];
	if (!equivalent((char *)mine.p, (char *)other.p, diff, sizeof(diff))) {
		xp_logf("---- with the fault ----\n%s---- healthy twin ----\n%s", (char *)mine.p, (char *)other.p);
		/* key: what kind of line differs first */
		const char *kind = strstr(diff, "missing message") ? "missing" : strstr(diff, "extra message") ? "extra" : "different";
		const char *cls = strstr(diff, "\"event\":") ? "notification" : strstr(diff, "\"method\":") ? "routed-request" : (strstr(diff, "\"result\":") || strstr(diff, "\"error\":")) ? "response" : "line";
		char key[200];
		snprintf(key, sizeof(key), "healthy-peer-harmed:%s:%s-%s", keyctx, kind, cls);
		fail11(key, "a healthy peer's stream differs from the run in which X is healthy:\n  %s", diff);
	}
	/* resources: everything is released when all leave (a reset that so far only writev noticed is now reported by epoll too) */
	if (!sim_conn_closed_by_daemon(X)) {
		sim_client_reset_escalate(X);
		jx_settle();
	}
	jx_close_all();
	jx_check_idle_baseline("left-behind:");
	jx_check_hygiene("hygiene:");
	xp_nontrivial();
	xp_transition();
	xp_outcome(hash64(mine.p, mine.len, 11));
}

static void run_history(void)
{
	int f = xp_choose(NFAULTS, XP_SCENARIO, "fault");
	int xrole = xp_choose(3, XP_SCENARIO, "x-role"); /* 0 subscriber only, 1 also owner of a state and a method, 2 also caller with a request in flight to H1 */
	int xowner = xrole == 1;
	int pos = xp_choose(NHIST + 1, XP_SCENARIO, "fault-position");
	int second = xp_choose(2, XP_DEV, "second-fault"); /* deviation: the window opens again / X is reset later on */
	int second_pos = second ? pos + 1 + xp_choose(NHIST - pos > 0 ? NHIST - pos : 1, XP_SCENARIO, "second-fault-position") : -1;
	int big = (int)xp_param("big", 0);
	memset(bigval, 'V', (size_t)big);
	bigval[big] = 0;
	int twin = xp_twin_begin();
	struct sim_opts o = {0};
	jx_boot(&o);
	setup(xrole);
	snprintf(what, sizeof(what), "fault '%s' before step %d of the history (X %s)%s", FN[f], pos, xrole == 1 ? "owns a state and a method" : xrole == 2 ? "has a request in flight to H1" : "only subscribes", second ? ", later X's window opens / X is reset" : "");
	int prefill = (int)xp_param("prefill", 0);
	xrouted_sent = xowner;
	for (int i = 0; i <= NHIST; i++) {
		if (!twin && i == pos) {
			apply_fault(f);
			/* traffic that fills the stalled peer's write buffer (also sent in the twin, see below) */
		}
		if (i == pos) {
			for (int k = 0; k < prefill; k++) {
				jx_sendf(H2, "{\"id\":\"pf%d\",\"method\":\"change\",\"params\":{\"path\":\"h2s\",\"value\":\"p%d%s\"}}", k, k, bigval);
				jx_settle();
			}
		}
		if (!twin && i == second_pos && x_alive()) {
			if (f == F_STALL) {
				sim_set_window(X, -1);
			} else {
				sim_client_reset(X, RST_EPOLL);
			}
			jx_settle();
		}
		if (i == NHIST) {
			break;
		}
		const struct hstep *st = &HIST[i];
		if (st->needs_xowner && !xowner) {
			continue;
		}
		char req[1400];
		if (st->req[0] == '@') {
			if (x_request_rid[0] == 0) {
				continue;
			}
			snprintf(req, sizeof(req), "{\"id\":\"%s\",\"result\":\"late-for-x-%s\"}", x_request_rid, bigval);
		} else {
			snprintf(req, sizeof(req), st->req, bigval);
		}
		cl_send_text(st->who == 1 ? H1 : H2, req);
		jx_settle();
		if (st->reply_by == 1) {
			jx_reply_routed(H1, "\"result\":\"by-h1\"");
		} else if (st->reply_by == 2) {
			jx_reply_routed(H2, "\"result\":\"by-h2\"");
		} else if (st->reply_by == 3 && (twin || pos > i) && x_alive()) {
			jx_reply_routed(X, "\"result\":\"by-x\""); /* a healthy X answers; a stalled X cannot see the request */
		}
		jx_settle();
		if (sim_conn_closed_by_daemon(H1) || sim_conn_closed_by_daemon(H2)) {
			char key[120];
			snprintf(key, sizeof(key), "healthy-peer-dropped:%s", f == F_STALL ? "stall" : "fault");
			fail11(key, "after step %d the daemon closed the connection of %s", i, sim_conn_closed_by_daemon(H1) ? "H1" : "H2");
		}
	}
	char ctx[60];
	snprintf(ctx, sizeof(ctx), "%s", f == F_STALL ? "x-stalled" : (f == F_WRITEFAIL || f == F_RESET_WRITE) ? "x-send-fails" : f == F_GARBAGE || f == F_OVERSIZE ? "x-garbage" : "x-reset");
	xp_state(hash_mix((uint64_t)f * 1000 + (uint64_t)pos * 10 + (uint64_t)xrole, (uint64_t)(second_pos + 1)));
	finish_and_compare(twin, ctx);
}

/* ---- accept-path failures of a fourth party ---- */
static const struct {
	const char *call;
	int err;
} ACCF[] = {{"accept", ECONNABORTED}, {"accept", EMFILE}, {"accept", EINTR}, {"accept", ENFILE}, {"accept", ENOBUFS}, {"accept", ENOMEM}, {"accept", EPROTO}, {"fcntl", EINVAL}, {"setsockopt", EINVAL}, {"getsockname", EINVAL},
      /* "malloc", n: the n-th allocation made on behalf of the new connection fails (a connection attempt that aborts for lack of memory) */
      {"malloc", 1}, {"malloc", 2}, {"malloc", 3}, {"malloc", 4}, {"malloc", 5}, {"malloc", 6},
      /* the descriptor table is full: accept fails with EMFILE again and again, the connection stays queued, until a descriptor is free */
      {"fdlimit", 0}};
#define NACCF ((int)(sizeof(ACCF) / sizeof(ACCF[0])))

static void run_accept(void)
{
	int f = xp_choose(NACCF, XP_SCENARIO, "failing-call");
	int listener = xp_choose(3, XP_SCENARIO, "listener"); /* 0 jet tcp, 1 http/websocket, 2 unix socket */
	int pos = xp_choose(NHIST + 1, XP_SCENARIO, "position");
	int twin = xp_twin_begin();
	bigval[0] = 0;
	struct sim_opts o = {0};
	jx_boot(&o);
	setup(1);
	xrouted_sent = true;
	snprintf(what, sizeof(what), "a connection attempt on listener %d whose %s fails with errno %d, before step %d", listener, ACCF[f].call, ACCF[f].err, pos);
	for (int i = 0; i <= NHIST; i++) {
		if (!twin && i == pos) {
			bool nomem = strcmp(ACCF[f].call, "malloc") == 0;
			bool fdfull = strcmp(ACCF[f].call, "fdlimit") == 0;
			if (fdfull) {
				sim_set_fd_limit(sim_open_fds(), false);
			} else if (nomem) {
				sim_heap_fail_nth(ACCF[f].err);
			} else {
				sim_fail_next(ACCF[f].call, ACCF[f].err, -1);
			}
			int c = cl_open(listener == 1 ? CL_BYTES : CL_RAW, listener == 0 ? ROLE_JET : listener == 1 ? ROLE_HTTP : ROLE_UDS, ORG_DEFAULT);
			if (nomem && listener == 1) {
				sim_client_send(c, CL_WS_UPGRADE_REQUEST, strlen(CL_WS_UPGRADE_REQUEST)); /* the websocket peer is built when the request arrives */
			}
			jx_settle();
			if (fdfull) {
				/* the daemon must have gone back to its event loop with the attempt still queued (a daemon that spins on accept never
				 * gets here: the simulated kernel reports a livelock); now a descriptor becomes available again */
				if (sim_fd_limit_hits() == 0) {
					xp_harness_error("the descriptor limit was never hit");
				}
				sim_set_fd_limit(0, false);
			}
			if (nomem) {
				long fired = sim_heap_failures();
				sim_heap_fail_nth(0);
				if (fired == 0) {
					xp_end_run(); /* setting this connection up takes fewer allocations */
				}
				if (!sim_conn_closed_by_daemon(c)) {
					sim_client_fin(c);
					jx_settle();
				}
			}
			if (sim_daemon_exited()) {
				char key[100];
				snprintf(key, sizeof(key), "daemon-stops:%s:errno=%d", ACCF[f].call, ACCF[f].err);
				fail11(key, "the daemon left its event loop (exit code %d)", sim_daemon_exit_code());
			}
		}
		if (i == NHIST) {
			break;
		}
		const struct hstep *st = &HIST[i];
		char req[1400];
		if (st->req[0] == '@') {
			continue;
		}
		snprintf(req, sizeof(req), st->req, bigval);
		cl_send_text(st->who == 1 ? H1 : H2, req);
		jx_settle();
		if (st->reply_by == 1) {
			jx_reply_routed(H1, "\"result\":\"by-h1\"");
		} else if (st->reply_by == 2) {
			jx_reply_routed(H2, "\"result\":\"by-h2\"");
		} else if (st->reply_by == 3) {
			jx_reply_routed(X, "\"result\":\"by-x\"");
		}
		jx_settle();
	}
	/* the listener on which the attempt failed still accepts */
	int again = cl_open(listener == 1 ? CL_WS : CL_RAW, listener == 0 ? ROLE_JET : listener == 1 ? ROLE_HTTP : ROLE_UDS, ORG_DEFAULT);
	if (listener == 1) {
		sim_client_send(again, CL_WS_UPGRADE_REQUEST, strlen(CL_WS_UPGRADE_REQUEST));
	}
	jx_settle();
	jx_sendf(again, "{\"id\":\"again\",\"method\":\"info\"}");
	jx_settle();
	if (!sim_conn_accepted(again) || !jx_is_success(jx_find_response_str(again, "again", 0))) {
		char key[100];
		snprintf(key, sizeof(key), "listener-dead:%s:errno=%d", ACCF[f].call, ACCF[f].err);
		fail11(key, "after the failed attempt the same listener does not accept / serve a new connection");
	}
	xp_state(hash_mix((uint64_t)f * 100 + (uint64_t)listener, (uint64_t)pos));
	char ctx[60];
	snprintf(ctx, sizeof(ctx), "accept-path:%s", ACCF[f].call);
	finish_and_compare(twin, ctx);
}

static void run(void)
{
	if (xp_param("section", 0) == 1) {
		run_accept();
	} else {
		run_history();
	}
}

const struct driver drv_c11 = {
    .name = "c11",
    .property = "C11",
    .run = run,
    .rule = "section 0: a 15-step history of healthy traffic between H1 (raw) and H2 (websocket) - change, add, remove, re-add, routed set/call with owner replies, a second fetch, get, requests routed to X - x 7 faults of the peer X that subscribed first (stops reading, one writev fails, reset seen by writev / epoll / read, invalid JSON, oversize length) x every position of the history x {X only subscribes, X also owns elements, X also has a routed request in flight to H1 that H1 answers in the middle of the history}; deviation budget 1: a second event later on (window opens again / X is reset); section 1: a fourth party's connection attempt on each of the 3 listeners with accept failing (ECONNABORTED, EMFILE, EINTR, ENFILE, ENOBUFS, ENOMEM, EPROTO) or fcntl / setsockopt / getsockname failing, or the n-th allocation (n = 1..6) made for the new connection failing, or accept failing with EMFILE for as long as the descriptor table is full, at every position; oracle: H1's, H2's and a fresh peer's decoded streams equal the healthy twin's line by line, except that a response may be replaced by an error response with the same id; notifications about X's own elements are ignored; nobody but X is dropped; the listener still accepts; resources return to baseline",
    .assumptions = "param big = size of the values (with the 5120-byte write buffer of the default build the buffer of a stalled peer only fills with large values; the tiny build has a 96-byte buffer)|an error response instead of a success response is tolerated for every request of a healthy peer as long as all other output (notifications, get results) is identical, i.e. the request took effect",
};
