/* helpers shared by the Engine-A drivers */
#ifndef DRV_COMMON_H
#define DRV_COMMON_H

#include "clients.h"

void jx_boot(const struct sim_opts *o);
void jx_settle(void);                    /* sim_settle() + cl_pump() */
int jx_open(enum cl_kind kind);          /* connect (ws: handshake), settle, require accepted (ws: 101) */
int jx_open_from(enum cl_kind kind, enum sim_role role, enum sim_origin origin);
void jx_sendf(int cid, const char *fmt, ...) __attribute__((format(printf, 2, 3)));
/* number of RESULT/ERROR messages on cid (index >= from) whose id is JSON-equal to id */
int jx_count_responses(int cid, const cJSON *id, int from);
struct cl_msg *jx_find_response(int cid, const cJSON *id, int from);
struct cl_msg *jx_find_response_num(int cid, int id, int from);
struct cl_msg *jx_find_response_str(int cid, const char *id, int from);
/* reply (result or error payload) to every not-yet-answered routed request seen on cid; returns how many */
int jx_reply_routed(int cid, const char *member_json /* e.g. "\"result\":true" */);
int jx_error_code(const struct cl_msg *m); /* JSON-RPC error code or 0 */
bool jx_is_success(const struct cl_msg *m);
/* run timers to completion: advance the virtual clock to each next deadline and settle, up to maxrounds */
void jx_expire_all_timers(int maxrounds);
/* final phase helpers; each returns the number of findings it raised through xp_finding with the given key prefix */
void jx_close_all(void); /* FIN on every open client connection, settle */
extern bool jx_ignore_accounted_heap; /* set when the persistent in-memory credential set legitimately changed size (successful passwd) */
int jx_check_idle_baseline(const char *keyprefix);  /* peers/heap/fds/timers back at the idle baseline */
int jx_sigterm_and_check(const char *keyprefix);    /* SIGTERM, loop ends, everything released, exit 0 */
int jx_check_hygiene(const char *keyprefix);        /* descriptor hygiene events */
const char *variant_name(void);
char *jx_msgs_text(int cid, int from); /* malloc'd normalised transcript */
void jx_log_transcripts(void);

#endif
