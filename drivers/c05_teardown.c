/* C05 - a connection's end removes every trace of the peer and disturbs nobody else.
 * Table of victim protocol states x endings x moments x transports; the victim's consequences are computed from the
 * state and checked on the bystanders' connections, followed by a probe suffix and resource comparison with the
 * situation before the victim connected. */
#include <stdlib.h>
#include <string.h>

#include "common.h"
#include "generated/cjet_config.h"

enum vstate { ST_IDLE = 0, ST_OWNER, ST_FETCHER, ST_CALLER, ST_OWNER_INFLIGHT, ST_SELF, ST_BUFFERED, ST_RICH, ST_PARTIAL_MSG, ST_PARTIAL_HTTP, ST_CALLER_ORPHAN, ST_OWNER_FULL, NSTATES };
static const char *const STN[] = {"idle", "owns-2-elements", "holds-2-fetches", "caller-in-flight", "owner-with-2-requests-in-flight", "caller-and-owner-of-same-request", "unsent-buffered-output", "everything-at-once", "mid-message", "mid-http-upgrade", "caller-in-flight-to-owner-that-removed-its-last-element", "owner-whose-write-buffer-is-full-so-that-a-request-could-not-be-forwarded"};
enum ending { E_FIN = 0, E_RST_EPOLL, E_RST_READ, E_RST_WRITE, E_OVERSIZE, E_BADJSON, E_WS_UNMASKED, E_WS_CLOSE, E_WS_RSV, E_WS_CLOSE_EMPTY, E_WS_EMPTY_BINARY, NENDINGS };
static const char *const ENDN[] = {"client-FIN", "reset(epoll ERR|HUP)", "reset(seen by read)", "reset(seen by writev)", "oversize-length", "invalid-JSON", "ws-unmasked-frame", "ws-close-frame", "ws-reserved-bit", "ws-close-frame-without-status", "ws-empty-binary-frame"};
enum moment { M_ALONE = 0, M_WITH_MSG_FIRST, M_WITH_MSG_AFTER, M_WITH_TIMER_FIRST, M_WITH_TIMER_AFTER, NMOMENTS };
static const char *const MOMN[] = {"alone", "same-batch-as-bystander-message(victim-first)", "same-batch-as-bystander-message(victim-last)", "same-batch-as-its-request-expiry(victim-first)", "same-batch-as-its-request-expiry(victim-last)"};
enum vtrans { T_RAW = 0, T_UDS, T_WS, NTRANS };
static const char *const TRN[] = {"raw-tcp", "raw-uds", "websocket"};

static int B, S, C, V;
static char what[400];

static void fail5(const char *key, const char *fmt, ...) __attribute__((noreturn, format(printf, 2, 3)));
static void fail5(const char *key, const char *fmt, ...)
{
	char m[1500];
	va_list ap;
	va_start(ap, fmt);
	vsnprintf(m, sizeof(m), fmt, ap);
	va_end(ap);
	jx_log_transcripts();
	xp_fail(key, "%s: %s", what, m);
}

static int victim_fd_order;
static int batch_hook(struct sim_ready *list, int n, int maxevents)
{
	(void)maxevents;
	if (n < 2) {
		return n;
	}
	/* put the victim's descriptor first or last */
	int vfd = sim_conn_fd(V);
	int vi = -1;
	for (int i = 0; i < n; i++) {
		if (list[i].fd == vfd) {
			vi = i;
		}
	}
	if (vi < 0) {
		return n;
	}
	struct sim_ready v = list[vi];
	memmove(&list[vi], &list[vi + 1], sizeof(list[0]) * (size_t)(n - vi - 1));
	if (victim_fd_order == 0) {
		memmove(&list[1], &list[0], sizeof(list[0]) * (size_t)(n - 1));
		list[0] = v;
	} else {
		list[n - 1] = v;
	}
	return n;
}

static int count_notifs(int cid, const char *fetchid, const char *event, const char *path, int from)
{
	int n = 0;
	for (int i = from; i < clients[cid].nmsgs; i++) {
		struct cl_msg *m = &clients[cid].msgs[i];
		if (m->cls != MC_NOTIFY) {
			continue;
		}
		const cJSON *method = cJSON_GetObjectItemCaseSensitive(m->json, "method");
		const cJSON *params = cJSON_GetObjectItemCaseSensitive(m->json, "params");
		const cJSON *ev = params ? cJSON_GetObjectItemCaseSensitive(params, "event") : NULL;
		const cJSON *p = params ? cJSON_GetObjectItemCaseSensitive(params, "path") : NULL;
		if (cJSON_IsString(method) && strcmp(method->valuestring, fetchid) == 0 && cJSON_IsString(ev) && strcmp(ev->valuestring, event) == 0 && cJSON_IsString(p) && strcmp(p->valuestring, path) == 0) {
			n++;
		}
	}
	return n;
}

static int count_resp(int cid, const char *idstr, int from, bool *is_error)
{
	int n = 0;
	cJSON *id = cJSON_CreateString(idstr);
	for (int i = from; i < clients[cid].nmsgs; i++) {
		struct cl_msg *m = &clients[cid].msgs[i];
		if ((m->cls == MC_RESULT || m->cls == MC_ERROR) && json_equal(msg_id(m), id)) {
			n++;
			if (is_error) {
				*is_error = m->cls == MC_ERROR;
			}
		}
	}
	cJSON_Delete(id);
	return n;
}

/* ---- section 1: the daemon drops a connection while it is still setting it up ----------------------------------------
 * "in any protocol phase" includes the very first one: the n-th allocation made on behalf of the new connection fails, the
 * daemon releases what it had built.  Afterwards the world goes on (new peers connect and reuse the memory, peers leave,
 * fetches are added and removed) and nothing may be reached through the released connection: the bystanders work as before
 * and every resource returns (ASan turns any use of the released object into a crash verdict). */
static void run_setup_drop(void)
{
	int tr = xp_choose(NTRANS, XP_SCENARIO, "transport");
	int n = 1 + xp_choose(40, XP_SCENARIO, "failing-allocation");
	int follow = xp_choose(4, XP_SCENARIO, "what-follows");
	static const char *const FOLLOW[] = {"a new peer connects, adds and leaves", "a bystander with a request in flight leaves", "a new subscriber fetches and unfetches", "the same transport connects again at once"};
	struct sim_opts o = {0};
	jx_boot(&o);
	B = jx_open(CL_RAW);
	S = jx_open(CL_RAW);
	C = jx_open(CL_WS);
	jx_sendf(B, "{\"id\":\"b1\",\"method\":\"add\",\"params\":{\"path\":\"b1\",\"value\":1}}");
	jx_sendf(B, "{\"id\":\"b2\",\"method\":\"add\",\"params\":{\"path\":\"bm\"}}");
	jx_sendf(S, "{\"id\":\"s1\",\"method\":\"fetch\",\"params\":{\"id\":\"sf\"}}");
	jx_settle();
	jx_sendf(C, "{\"id\":\"c-by\",\"method\":\"call\",\"params\":{\"path\":\"bm\",\"args\":[0],\"timeout\":50}}");
	jx_settle();
	int peers0 = get_number_of_peers(), fds0 = sim_open_fds(), timers0 = sim_armed_timers();
	snprintf(what, sizeof(what), "allocation %d fails while a %s connection is being set up; then %s", n, TRN[tr], FOLLOW[follow]);
	enum cl_kind kind = tr == T_WS ? CL_WS : CL_RAW;
	sim_heap_fail_nth(n);
	V = cl_open(kind, tr == T_WS ? ROLE_HTTP : tr == T_UDS ? ROLE_UDS : ROLE_JET, ORG_DEFAULT);
	if (kind == CL_WS) {
		sim_client_send(V, CL_WS_UPGRADE_REQUEST, strlen(CL_WS_UPGRADE_REQUEST));
	}
	jx_settle();
	long fired = sim_heap_failures();
	sim_heap_fail_nth(0);
	if (fired == 0) {
		xp_end_run(); /* setting the connection up takes fewer than n allocations */
	}
	xp_count(sim_conn_closed_by_daemon(V) ? "connections_dropped_during_setup" : "connections_that_survived_the_failure", 1);
	if (!sim_conn_closed_by_daemon(V)) {
		/* the failure was absorbed (or the connection was never accepted): the client gives up */
		sim_client_fin(V);
		jx_settle();
	}
	if (sim_conn_accepted(V) && !sim_conn_closed_by_daemon(V)) {
		fail5("victim-not-released:setup-failure", "the connection ended but the daemon did not release it");
	}
	if (sim_daemon_exited()) {
		fail5("daemon-exited:setup-failure", "the daemon exited");
	}
	int fromS = clients[S].nmsgs;
	int extra_peers = 0, extra_fds = 0, extra_timers = 0;
	switch (follow) {
	case 0: {
		int N = jx_open(tr == T_WS ? CL_WS : CL_RAW); /* same kind of object: the allocator hands the released memory out again */
		jx_sendf(N, "{\"id\":\"n1\",\"method\":\"add\",\"params\":{\"path\":\"n1\",\"value\":5}}");
		jx_settle();
		if (!jx_is_success(jx_find_response_str(N, "n1", 0)) || count_notifs(S, "sf", "add", "n1", fromS) != 1) {
			fail5("new-peer-disturbed:setup-failure", "a peer that connected after the failed set-up cannot add a state, or the subscriber did not see it exactly once");
		}
		sim_client_fin(N);
		jx_settle();
		if (count_notifs(S, "sf", "remove", "n1", fromS) != 1) {
			fail5("new-peer-disturbed:setup-failure", "the subscriber did not see exactly one remove when the later peer left");
		}
		break;
	}
	case 1:
		sim_client_fin(C);
		jx_settle();
		if (!sim_conn_closed_by_daemon(C)) {
			fail5("bystander-not-released:setup-failure", "a bystander left and was not released");
		}
		extra_peers = -1;
		extra_fds = -2; /* its connection and the timer of its request, which is dropped with it */
		extra_timers = -1;
		break;
	case 2: {
		int S2 = jx_open(CL_WS);
		jx_sendf(S2, "{\"id\":\"f\",\"method\":\"fetch\",\"params\":{\"id\":\"late\"}}");
		jx_settle();
		if (count_notifs(S2, "late", "add", "b1", 0) != 1 || count_notifs(S2, "late", "add", "bm", 0) != 1) {
			fail5("new-peer-disturbed:setup-failure", "a subscriber that connected after the failed set-up does not get the existing elements exactly once");
		}
		jx_sendf(S2, "{\"id\":\"u\",\"method\":\"unfetch\",\"params\":{\"id\":\"late\"}}");
		jx_settle();
		if (!jx_is_success(jx_find_response_str(S2, "u", 0))) {
			fail5("new-peer-disturbed:setup-failure", "unfetch refused");
		}
		extra_peers = 1;
		extra_fds = 1;
		break;
	}
	case 3: {
		int N1 = jx_open(kind), N2 = jx_open(kind == CL_WS ? CL_RAW : CL_WS);
		jx_sendf(N2, "{\"id\":\"n2\",\"method\":\"add\",\"params\":{\"path\":\"n2\",\"value\":5}}");
		jx_sendf(N1, "{\"id\":\"n1\",\"method\":\"add\",\"params\":{\"path\":\"n1\",\"value\":5}}");
		jx_settle();
		if (count_notifs(S, "sf", "add", "n1", fromS) != 1 || count_notifs(S, "sf", "add", "n2", fromS) != 1) {
			fail5("new-peer-disturbed:setup-failure", "two peers that connected after the failed set-up added one state each; the subscriber did not see each exactly once");
		}
		sim_client_fin(N1);
		jx_settle();
		sim_client_fin(N2);
		jx_settle();
		if (count_notifs(S, "sf", "remove", "n1", fromS) != 1 || count_notifs(S, "sf", "remove", "n2", fromS) != 1) {
			fail5("new-peer-disturbed:setup-failure", "the subscriber did not see exactly one remove per state when the two later peers left");
		}
		break;
	}
	}
	for (int i = 0; i < sim_hygiene_count(); i++) {
		char key[200];
		snprintf(key, sizeof(key), "descriptor:%s", sim_hygiene_key(i));
		fail5(key, "%s", sim_hygiene_event(i));
	}
	/* the bystanders work as before */
	int fs = clients[S].nmsgs;
	jx_sendf(B, "{\"id\":\"probe1\",\"method\":\"change\",\"params\":{\"path\":\"b1\",\"value\":1234}}");
	jx_settle();
	if (!jx_is_success(jx_find_response_str(B, "probe1", 0)) || count_notifs(S, "sf", "change", "b1", fs) != 1) {
		fail5("bystander-fetch-disturbed:setup-failure", "after the failed set-up a bystander's change is not accepted or not delivered exactly once");
	}
	int fg = clients[S].nmsgs;
	jx_sendf(S, "{\"id\":\"probe2\",\"method\":\"get\",\"params\":{}}");
	jx_settle();
	struct cl_msg *g = jx_find_response_str(S, "probe2", fg);
	if (g == NULL || g->cls != MC_RESULT || cJSON_GetArraySize(cJSON_GetObjectItemCaseSensitive(g->json, "result")) != 1) {
		fail5("element-set-wrong-after-victim:setup-failure", "get should list exactly the bystander's one state: %s", g ? g->text : "(no answer)");
	}
	if (follow != 1) {
		for (int i = 0; i < clients[B].nmsgs; i++) {
			if (clients[B].msgs[i].cls == MC_ROUTED) {
				jx_sendf(B, "{\"id\":\"%s\",\"result\":\"done\"}", msg_id(&clients[B].msgs[i])->valuestring);
				break;
			}
		}
		jx_settle();
		bool err = true;
		if (count_resp(C, "c-by", 0, &err) != 1 || err) {
			fail5("bystander-request-disturbed:setup-failure", "a request between two bystanders in flight across the failed set-up did not complete with the owner's result exactly once");
		}
		extra_timers = -1;
		extra_fds -= 1;
	}
	if (get_number_of_peers() != peers0 + extra_peers) {
		fail5("peer-count-not-restored:setup-failure", "peer count %d, before the failed set-up %d (%+d expected)", get_number_of_peers(), peers0, extra_peers);
	}
	if (sim_open_fds() != fds0 + extra_fds || sim_armed_timers() != timers0 + extra_timers) {
		char kinds[100];
		sim_open_fd_summary(kinds, sizeof(kinds));
		fail5("descriptors-not-restored:setup-failure", "%d descriptors open (%s) / %d timers armed; before the failed set-up %d / %d (expected change %+d / %+d)", sim_open_fds(), kinds, sim_armed_timers(), fds0, timers0, extra_fds, extra_timers);
	}
	jx_expire_all_timers(8);
	jx_close_all();
	if (cjet_get_alloc_size() != sim_base.alloc_size || sim_heap_live() != sim_base.raw_live) {
		fail5("heap-not-restored:setup-failure", "after everybody left: accounted heap %zu (idle %zu), raw blocks %ld (idle %ld)", cjet_get_alloc_size(), sim_base.alloc_size, sim_heap_live(), sim_base.raw_live);
	}
	jx_sigterm_and_check("exit:");
	xp_nontrivial();
	xp_transition();
	xp_outcome(hash_mix(cl_transcript_hash(S), cl_transcript_hash(V)));
	xp_state(hash_mix((uint64_t)tr * 1000 + (uint64_t)n * 10 + (uint64_t)follow, 51));
	jx_log_transcripts();
}

static void run(void)
{
	if (xp_param("section", 0) == 1) {
		run_setup_drop();
		return;
	}
	int st = xp_choose(NSTATES, XP_SCENARIO, "victim-state");
	int tr = xp_choose(NTRANS, XP_SCENARIO, "transport");
	int en = xp_choose(NENDINGS, XP_SCENARIO, "ending");
	int mo = xp_choose(NMOMENTS, XP_SCENARIO, "moment");
	int late_sub = xp_choose(2, XP_SCENARIO, "late-subscriber");
	bool is_ws = tr == T_WS;
	/* applicability */
	if ((en == E_WS_UNMASKED || en == E_WS_CLOSE || en == E_WS_RSV || en == E_WS_CLOSE_EMPTY || en == E_WS_EMPTY_BINARY) && !is_ws) {
		xp_end_run();
	}
	if (st == ST_PARTIAL_HTTP && !is_ws) {
		xp_end_run();
	}
	if ((st == ST_PARTIAL_MSG || st == ST_PARTIAL_HTTP) && en >= E_RST_WRITE) {
		xp_end_run(); /* a half received message can only be ended by the client going away */
	}
	bool owner_full = st == ST_OWNER_FULL;
	bool has_fetch = st == ST_FETCHER || st == ST_BUFFERED || st == ST_RICH || owner_full;
	bool owns = st == ST_OWNER || st == ST_RICH;
	bool is_caller = st == ST_CALLER || st == ST_RICH;
	bool owner_inflight = st == ST_OWNER_INFLIGHT || st == ST_RICH;
	bool self = st == ST_SELF || st == ST_RICH;
	if (en == E_RST_WRITE && !has_fetch) {
		xp_end_run(); /* nothing makes the daemon write to the victim */
	}
	bool orphan = st == ST_CALLER_ORPHAN;
	if ((mo == M_WITH_TIMER_FIRST || mo == M_WITH_TIMER_AFTER) && !(is_caller || owner_inflight || self || orphan)) {
		xp_end_run();
	}
	if ((st == ST_BUFFERED || owner_full) && (en == E_RST_WRITE)) {
		xp_end_run(); /* window 0: writev would block, it cannot report the reset */
	}
	struct sim_opts o = {0};
	jx_boot(&o);
	B = jx_open(CL_RAW);
	S = jx_open(CL_RAW);
	C = jx_open(CL_WS);
	jx_sendf(B, "{\"id\":\"b1\",\"method\":\"add\",\"params\":{\"path\":\"b1\",\"value\":1}}");
	jx_sendf(B, "{\"id\":\"b2\",\"method\":\"add\",\"params\":{\"path\":\"bm\"}}");
	jx_sendf(S, "{\"id\":\"s1\",\"method\":\"fetch\",\"params\":{\"id\":\"sf\"}}");
	jx_settle();
	/* a request between bystanders that stays in flight across the victim's life */
	jx_sendf(C, "{\"id\":\"c-by\",\"method\":\"call\",\"params\":{\"path\":\"bm\",\"args\":[0],\"timeout\":50}}");
	jx_settle();
	size_t heap0 = cjet_get_alloc_size();
	long raw0 = sim_heap_live();
	int peers0 = get_number_of_peers(), fds0 = sim_open_fds(), timers0 = sim_armed_timers();

	/* ---- the victim ---- */
	int pos = 0;
	struct bytebuf partial = {0};
	if (st == ST_PARTIAL_HTTP) {
		size_t rl = strlen(CL_WS_UPGRADE_REQUEST);
		int stride = (int)xp_param("stride", 1);
		int npos = ((int)rl - 1 + stride - 1) / stride;
		pos = 1 + xp_choose(npos, XP_SCENARIO, "byte-position") * stride;
		V = cl_open(CL_WS, ROLE_HTTP, ORG_DEFAULT);
		sim_client_send(V, CL_WS_UPGRADE_REQUEST, (size_t)pos);
		jx_settle();
	} else {
		V = tr == T_WS ? jx_open(CL_WS) : tr == T_UDS ? jx_open_from(CL_RAW, ROLE_UDS, ORG_DEFAULT) : jx_open(CL_RAW);
	}
	snprintf(what, sizeof(what), "victim (%s) in state '%s'%s, ending '%s', %s", TRN[tr], STN[st], "", ENDN[en], MOMN[mo]);
	int fromS = clients[S].nmsgs, fromC = clients[C].nmsgs;
	if (owns) {
		jx_sendf(V, "{\"id\":\"v1\",\"method\":\"add\",\"params\":{\"path\":\"v1\",\"value\":\"x\"}}");
		jx_sendf(V, "{\"id\":\"v2\",\"method\":\"add\",\"params\":{\"path\":\"vq\"}}");
		jx_settle();
	}
	if (owner_inflight || self || owner_full) {
		jx_sendf(V, "{\"id\":\"v3\",\"method\":\"add\",\"params\":{\"path\":\"vm\"}}");
		jx_settle();
	}
	if (has_fetch) {
		jx_sendf(V, "{\"id\":\"v4\",\"method\":\"fetch\",\"params\":{\"id\":\"vf1\"}}");
		jx_sendf(V, "{\"id\":\"v5\",\"method\":\"fetch\",\"params\":{\"id\":2,\"path\":{\"startsWith\":\"b\"}}}");
		jx_settle();
	}
	if (is_caller) {
		jx_sendf(V, "{\"id\":\"v6\",\"method\":\"call\",\"params\":{\"path\":\"bm\",\"args\":[1],\"timeout\":2}}");
		jx_settle();
	}
	int O2 = -1;
	if (orphan) {
		/* an owner whose only element is removed while the victim's request to it is still unanswered */
		O2 = jx_open(CL_RAW);
		jx_sendf(O2, "{\"id\":\"o1\",\"method\":\"add\",\"params\":{\"path\":\"om\"}}");
		jx_settle();
		jx_sendf(V, "{\"id\":\"v8\",\"method\":\"call\",\"params\":{\"path\":\"om\",\"args\":[5],\"timeout\":2}}");
		jx_settle();
		jx_sendf(O2, "{\"id\":\"o2\",\"method\":\"remove\",\"params\":{\"path\":\"om\"}}");
		jx_settle();
		if (!jx_is_success(jx_find_response_str(O2, "o2", 0))) {
			fail5("setup-failed", "the owner could not remove its method while a request was in flight");
		}
	}
	if (owner_inflight) {
		jx_sendf(C, "{\"id\":\"c-v\",\"method\":\"call\",\"params\":{\"path\":\"vm\",\"args\":[2],\"timeout\":2}}");
		jx_sendf(S, "{\"id\":\"s-v\",\"method\":\"call\",\"params\":{\"path\":\"vm\",\"args\":[3],\"timeout\":2}}");
		jx_settle();
	}
	if (self) {
		jx_sendf(V, "{\"id\":\"v7\",\"method\":\"call\",\"params\":{\"path\":\"vm\",\"args\":[4],\"timeout\":2}}");
		jx_settle();
	}
	if (st == ST_BUFFERED) {
		sim_set_window(V, 0);
		for (int i = 0; i < 3; i++) {
			jx_sendf(B, "{\"id\":\"bc%d\",\"method\":\"change\",\"params\":{\"path\":\"b1\",\"value\":%d}}", i, 10 + i);
			jx_settle();
		}
	}
	if (owner_full) {
		/* the victim stops reading; its write buffer fills with notifications; then a call to its method cannot be forwarded: the caller
		 * is told at once - and the victim's later end must find nothing of that request */
		sim_set_window(V, 0);
		for (int i = 0; i < (int)(2 * CONFIG_MAX_WRITE_BUFFER_SIZE / 70) + 3; i++) {
			jx_sendf(B, "{\"id\":\"bf%d\",\"method\":\"change\",\"params\":{\"path\":\"b1\",\"value\":\"%050d\"}}", i, i);
			jx_settle();
		}
		jx_sendf(C, "{\"id\":\"c-full\",\"method\":\"call\",\"params\":{\"path\":\"vm\",\"args\":[9],\"timeout\":2}}");
		jx_sendf(S, "{\"id\":\"s-full\",\"method\":\"call\",\"params\":{\"path\":\"vm\",\"args\":[9],\"timeout\":2}}");
		jx_settle();
	}
	if (st == ST_PARTIAL_MSG) {
		const char *msg = "{\"id\":\"pm\",\"method\":\"add\",\"params\":{\"path\":\"pm\",\"value\":12345}}";
		cl_frame_for(V, &partial, msg);
		int stride = (int)xp_param("stride", 1);
		int npos = ((int)partial.len - 1 + stride - 1) / stride;
		pos = 1 + xp_choose(npos, XP_SCENARIO, "byte-position") * stride;
		if (pos >= (int)partial.len) {
			pos = (int)partial.len - 1;
		}
		sim_client_send(V, partial.p, (size_t)pos);
		jx_settle();
	}
	if (pos > 0) {
		snprintf(what, sizeof(what), "victim (%s) in state '%s' after %d bytes, ending '%s', %s", TRN[tr], STN[st], pos, ENDN[en], MOMN[mo]);
	}
	if (sim_conn_closed_by_daemon(V)) {
		fail5("victim-dropped-during-setup", "the daemon closed the victim while it was only being brought into its state");
	}
	/* a second subscriber that arrives AFTER the victim: the victim's fetches sit in front of it in every subscriber table */
	int S2 = -1, fromS2 = 0;
	if (late_sub) {
		S2 = jx_open(CL_WS);
		jx_sendf(S2, "{\"id\":\"s2f\",\"method\":\"fetch\",\"params\":{\"id\":\"late\"}}");
		jx_settle();
		fromS2 = clients[S2].nmsgs;
	}
	int fromS_end = clients[S].nmsgs, fromC_end = clients[C].nmsgs, fromB_end = clients[B].nmsgs;
	(void)fromS;
	(void)fromC;

	/* ---- the ending, at the chosen moment ---- */
	bool with_msg = mo == M_WITH_MSG_FIRST || mo == M_WITH_MSG_AFTER;
	bool with_timer = mo == M_WITH_TIMER_FIRST || mo == M_WITH_TIMER_AFTER;
	victim_fd_order = (mo == M_WITH_MSG_FIRST || mo == M_WITH_TIMER_FIRST) ? 0 : 1;
	switch (en) {
	case E_FIN:
		sim_client_fin(V);
		break;
	case E_RST_EPOLL:
		sim_client_reset(V, RST_EPOLL);
		break;
	case E_RST_READ:
		sim_client_reset(V, RST_READ);
		break;
	case E_RST_WRITE:
		sim_client_reset(V, RST_WRITE);
		/* the daemon finds out when it writes a notification to the victim */
		jx_sendf(B, "{\"id\":\"trig\",\"method\":\"change\",\"params\":{\"path\":\"b1\",\"value\":99}}");
		break;
	case E_OVERSIZE:
		if (is_ws) {
			struct bytebuf f = {0};
			uint8_t h[14] = {0x81, 0x80 | 127, 0, 0, 1, 0, 0, 0, 0, 0, 1, 2, 3, 4};
			bb_append(&f, h, sizeof(h));
			sim_client_send(V, f.p, f.len);
			bb_free(&f);
		} else {
			uint8_t h[4] = {0x00, 0x10, 0x00, 0x00};
			sim_client_send(V, h, 4);
		}
		break;
	case E_BADJSON:
		cl_send_text(V, "{\"id\":1,\"method\":");
		break;
	case E_WS_UNMASKED: {
		struct bytebuf f = {0};
		cl_frame_ws(&f, 1, true, 0, false, 0, "{}", 2);
		sim_client_send(V, f.p, f.len);
		bb_free(&f);
		break;
	}
	case E_WS_CLOSE: {
		struct bytebuf f = {0};
		uint8_t code[2] = {0x03, 0xe8};
		cl_frame_ws(&f, 8, true, 0, true, 0, code, 2);
		sim_client_send(V, f.p, f.len);
		bb_free(&f);
		break;
	}
	case E_WS_CLOSE_EMPTY: {
		/* a close frame without status code: payload length 0 - nothing follows the masking key */
		struct bytebuf f = {0};
		cl_frame_ws(&f, 8, true, 0, true, 0, "", 0);
		sim_client_send(V, f.p, f.len);
		bb_free(&f);
		break;
	}
	case E_WS_EMPTY_BINARY: {
		/* binary data is not accepted on this endpoint: the daemon ends the connection - on a frame of length 0 */
		struct bytebuf f = {0};
		cl_frame_ws(&f, 2, true, 0, true, 0, "", 0);
		sim_client_send(V, f.p, f.len);
		bb_free(&f);
		break;
	}
	case E_WS_RSV: {
		struct bytebuf f = {0};
		cl_frame_ws(&f, 1, true, 4, true, 0, "{}", 2);
		sim_client_send(V, f.p, f.len);
		bb_free(&f);
		break;
	}
	}
	if (with_msg) {
		jx_sendf(B, "{\"id\":\"same-batch\",\"method\":\"change\",\"params\":{\"path\":\"b1\",\"value\":77}}");
	}
	if (with_timer) {
		uint64_t d;
		if (sim_next_deadline(&d)) {
			sim_advance(d - sim_now());
		}
	}
	sim_batch_hook = batch_hook;
	jx_settle();
	sim_batch_hook = NULL;
	if (en == E_RST_WRITE) {
		sim_client_reset_escalate(V);
		jx_settle();
	}
	jx_settle();
	if (!sim_conn_closed_by_daemon(V)) {
		char key[160];
		snprintf(key, sizeof(key), "victim-not-released:%s:%s", ENDN[en], STN[st]);
		fail5(key, "the connection has ended but the daemon did not release it");
	}
	/* ---- consequences ---- */
	if (owns) {
		if (count_notifs(S, "sf", "remove", "v1", fromS_end) != 1 || count_notifs(S, "sf", "remove", "vq", fromS_end) != 1) {
			fail5("owned-element-not-removed", "a subscriber did not see exactly one remove for each element the victim owned");
		}
	}
	if (owner_full) {
		/* exactly one answer each, an error: at once (the forward failed) or when the victim left */
		jx_expire_all_timers(0);
		bool e1 = false, e2 = false;
		int n1 = count_resp(C, "c-full", 0, &e1), n2 = count_resp(S, "s-full", 0, &e2);
		if (n1 != 1 || !e1 || n2 != 1 || !e2) {
			char key[160];
			snprintf(key, sizeof(key), "request-to-stalled-victim-not-answered-once:%d,%d", n1, n2);
			fail5(key, "calls to the method of the victim, whose write buffer was full, must each be answered with exactly one error (caller C: %d answer(s), caller S: %d)", n1, n2);
		}
	}
	if (owner_inflight || self || owner_full) {
		if (count_notifs(S, "sf", "remove", "vm", fromS_end) != 1) {
			fail5("owned-element-not-removed", "a subscriber did not see exactly one remove for the victim's method");
		}
	}
	if (S2 >= 0) {
		if (sim_conn_closed_by_daemon(S2)) {
			fail5("late-subscriber-dropped", "the subscriber that arrived after the victim was dropped");
		}
		if (owns && (count_notifs(S2, "late", "remove", "v1", fromS2) != 1 || count_notifs(S2, "late", "remove", "vq", fromS2) != 1)) {
			fail5("owned-element-not-removed:late-subscriber", "the subscriber behind the victim did not see exactly one remove for each element the victim owned");
		}
		if ((owner_inflight || self) && count_notifs(S2, "late", "remove", "vm", fromS2) != 1) {
			fail5("owned-element-not-removed:late-subscriber", "the subscriber behind the victim did not see exactly one remove for the victim's method");
		}
	}
	if (owner_inflight) {
		bool e1 = false, e2 = false;
		int n1 = count_resp(C, "c-v", fromC_end, &e1), n2 = count_resp(S, "s-v", fromS_end, &e2);
		if (n1 != 1 || !e1 || n2 != 1 || !e2) {
			char key[160];
			snprintf(key, sizeof(key), "routed-to-victim-not-answered-once:%d,%d", n1, n2);
			fail5(key, "requests routed to the victim must each be answered to their caller with exactly one error (caller C: %d answer(s), caller S: %d)", n1, n2);
		}
	}
	/* after the daemon's close nothing touches the descriptor (descriptor monitor) and no released object is used (ASan = crash verdict) */
	for (int i = 0; i < sim_hygiene_count(); i++) {
		char key[200];
		snprintf(key, sizeof(key), "descriptor:%s", sim_hygiene_key(i));
		fail5(key, "%s", sim_hygiene_event(i));
	}
	/* the victim's own in-flight request is dropped: the owner's late reply goes nowhere */
	int fs = clients[S].nmsgs, fc = clients[C].nmsgs, fb = clients[B].nmsgs;
	if (is_caller) {
		/* B answers the victim's routed request (the second routed message B saw, after c-by) */
		int seen = 0;
		for (int i = 0; i < clients[B].nmsgs; i++) {
			if (clients[B].msgs[i].cls == MC_ROUTED && ++seen == 2) {
				jx_sendf(B, "{\"id\":\"%s\",\"result\":\"late\"}", msg_id(&clients[B].msgs[i])->valuestring);
			}
		}
		jx_settle();
		if (clients[S].nmsgs != fs || clients[C].nmsgs != fc || clients[B].nmsgs != fb || sim_conn_closed_by_daemon(B)) {
			fail5("dropped-request-still-answered", "the owner's reply to the departed victim's request produced output or cost the owner its connection");
		}
	}
	if (orphan) {
		int fo = clients[O2].nmsgs;
		fs = clients[S].nmsgs;
		fc = clients[C].nmsgs;
		for (int i = 0; i < clients[O2].nmsgs; i++) {
			if (clients[O2].msgs[i].cls == MC_ROUTED) {
				jx_sendf(O2, "{\"id\":\"%s\",\"result\":\"late\"}", msg_id(&clients[O2].msgs[i])->valuestring);
			}
		}
		jx_settle();
		if (clients[S].nmsgs != fs || clients[C].nmsgs != fc || clients[O2].nmsgs != fo || sim_conn_closed_by_daemon(O2)) {
			fail5("dropped-request-still-answered", "the (element-less) owner's reply to the departed victim's request produced output or cost the owner its connection");
		}
		/* the owner leaves too: nothing of the victim's request may be reached through its routing table */
		sim_client_fin(O2);
		jx_settle();
	}
	jx_expire_all_timers(0);
	/* ---- others unaffected: probe suffix ---- */
	(void)fromB_end;
	fs = clients[S].nmsgs;
	jx_sendf(B, "{\"id\":\"probe1\",\"method\":\"change\",\"params\":{\"path\":\"b1\",\"value\":1234}}");
	jx_settle();
	if (S2 >= 0 && count_notifs(S2, "late", "change", "b1", fromS2) < 1) {
		fail5("bystander-fetch-disturbed:late-subscriber", "after the victim left, the subscriber that arrived after it no longer receives a bystander's change");
	}
	if (!jx_is_success(jx_find_response_str(B, "probe1", 0)) || count_notifs(S, "sf", "change", "b1", fs) != 1) {
		fail5("bystander-fetch-disturbed", "after the victim left, a bystander's change is not accepted or not delivered exactly once to the bystander subscriber");
	}
	int fg = clients[S].nmsgs;
	jx_sendf(S, "{\"id\":\"probe2\",\"method\":\"get\",\"params\":{}}");
	jx_settle();
	struct cl_msg *g = jx_find_response_str(S, "probe2", fg);
	if (g == NULL || g->cls != MC_RESULT) {
		fail5("bystander-get-disturbed", "get is not answered after the victim left");
	}
	const cJSON *arr = cJSON_GetObjectItemCaseSensitive(g->json, "result");
	if (cJSON_GetArraySize(arr) != 1) {
		fail5("element-set-wrong-after-victim", "after the victim left get should list exactly the bystander's one state, got %s", g->text);
	}
	/* the in-flight request between bystanders completes normally */
	for (int i = 0; i < clients[B].nmsgs; i++) {
		if (clients[B].msgs[i].cls == MC_ROUTED) {
			jx_sendf(B, "{\"id\":\"%s\",\"result\":\"done\"}", msg_id(&clients[B].msgs[i])->valuestring);
			break;
		}
	}
	jx_settle();
	bool err = true;
	if (count_resp(C, "c-by", 0, &err) != 1 || err) {
		fail5("bystander-request-disturbed", "a request between two bystanders that was in flight across the victim's life did not complete with the owner's result exactly once");
	}
	/* resources as before the victim connected (the bystanders' request has completed: one timer and record less) */
	jx_expire_all_timers(4);
	int extra = S2 >= 0 ? 1 : 0; /* the late subscriber is still connected */
	if (get_number_of_peers() != peers0 + extra) {
		fail5("peer-count-not-restored", "peer count %d, before the victim %d (+%d late subscriber)", get_number_of_peers(), peers0, extra);
	}
	if (sim_open_fds() != fds0 - 1 + extra || sim_armed_timers() != timers0 - 1) {
		char kinds[100];
		sim_open_fd_summary(kinds, sizeof(kinds));
		fail5("descriptors-not-restored", "%d descriptors open / %d timers armed; before the victim %d / %d (minus the completed bystander request)", sim_open_fds(), sim_armed_timers(), fds0, timers0);
	}
	/* heap: compare after closing everybody with the idle baseline (independent of what the probe changed) */
	(void)heap0;
	(void)raw0;
	jx_close_all();
	int nb = 0;
	if (cjet_get_alloc_size() != sim_base.alloc_size || sim_heap_live() != sim_base.raw_live) {
		nb++;
		fail5("heap-not-restored", "after everybody left: accounted heap %zu (idle %zu), raw blocks %ld (idle %ld)", cjet_get_alloc_size(), sim_base.alloc_size, sim_heap_live(), sim_base.raw_live);
	}
	xp_nontrivial();
	xp_transition();
	xp_outcome(hash_mix(cl_transcript_hash(S), cl_transcript_hash(C)));
	xp_state(hash_mix(hash_mix((uint64_t)st * 1000 + (uint64_t)tr * 100 + (uint64_t)en * 10 + (uint64_t)mo, (uint64_t)pos * 2 + (uint64_t)late_sub), 5));
	jx_log_transcripts();
}

const struct driver drv_c05 = {
    .name = "c05",
    .property = "C05",
    .run = run,
    .rule = "product of 12 victim protocol states (owner that stopped reading with a full write buffer so that calls to its method could not be forwarded, caller in flight to an owner that removed its last element meanwhile, idle, owning elements, holding fetches, caller in flight, owner with 2 requests in flight, caller and owner of the same request, unsent buffered output, all at once, mid message at every byte position, mid HTTP upgrade at every byte position) x 3 transports (tcp, unix socket, websocket) x 11 endings (FIN, reset seen by epoll / read / writev, oversize length, invalid JSON, ws unmasked frame, ws close frame with and without status code, ws reserved bit, ws empty binary frame) x {no further subscriber, a websocket subscriber that arrived after the victim} x 5 moments (alone; in the same harvested batch as a bystander's message or as the expiry of one of its requests, victim dispatched first / last); inapplicable combinations end at once; non-trivial = applicable combinations run to the end | section 1: 3 transports x failing allocation n = 1..40 while the daemon sets the new connection up (runs in which no allocation failed end at once) x 4 continuations (a new peer of the same kind connects, adds and leaves; a bystander with a request in flight leaves; a new subscriber fetches and unfetches; two peers connect, add and leave): the bystanders work as before, peer count, descriptors, timers and heap return, clean exit",
    .assumptions = "heap is compared at the idle baseline after everybody left",
};
