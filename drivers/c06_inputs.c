/* C06 - no input on any endpoint can crash the daemon or corrupt memory; malformed input costs at most the connection
 * that sent it.  The memory oracle is the instrumented build (ASan + UBSan abort the daemon process: the explorer
 * reports the crash with its symbolised top frames); this driver supplies the input spaces and the "only its own
 * connection" oracle.
 *   section 0: every byte string up to a length bound over a 12-byte alphabet, on every endpoint in stream form and
 *              as the payload of a well-formed raw / websocket message;
 *   section 1: every single structural mutation of a corpus of JSON-RPC messages (delete / duplicate / rename member,
 *              retype value, string lengths around the log-line and message limits, deep nesting), followed by a
 *              trigger suffix (requests that log with the peer name, get, disconnect, shutdown);
 *   section 2: the complete single-frame WebSocket header product; section 3: frame pairs; section 4: frame triples;
 *   a deviation budget adds every split point of the hostile bytes (with and without a would-block in between). */
#define _GNU_SOURCE
#include <crypt.h>
#include <stdlib.h>
#include <string.h>

#include "common.h"
#include "wsframes.h"

static int A = -1, Bc = -1; /* the hostile connection, the bystander */
static char what[400];

static void fail6(const char *key, const char *fmt, ...) __attribute__((noreturn, format(printf, 2, 3)));
static void fail6(const char *key, const char *fmt, ...)
{
	char m[1500];
	va_list ap;
	va_start(ap, fmt);
	vsnprintf(m, sizeof(m), fmt, ap);
	va_end(ap);
	jx_log_transcripts();
	xp_fail(key, "%s: %s", what, m);
}

/* hostile bytes, optionally split at one point (deviation) */
static void send_hostile(int cid, const uint8_t *p, size_t len)
{
	int split = 0, mode = 0;
	if (len >= 2) {
		long cap = xp_param("maxsplit", 300);
		split = xp_choose((int)(len > (size_t)cap ? (size_t)cap : len), XP_DEV, "split-at");
		if (split > 0) {
			mode = xp_choose(2, XP_SCENARIO, "split-mode");
		}
	}
	if (split > 0) {
		sim_client_send(cid, p, (size_t)split);
		if (mode) {
			jx_settle();
			if (sim_conn_closed_by_daemon(cid)) {
				return;
			}
		}
		sim_client_send(cid, p + split, len - (size_t)split);
	} else if (len > 0) {
		sim_client_send(cid, p, len);
	}
	jx_settle();
}

/* bystander set-up: owns a state and a method, holds a fetch-all */
static bool with_passwd;
static const char *initial_creds;
#define ACCESS ",\"access\":{\"fetchGroups\":[\"g1\"],\"setGroups\":[\"g1\"],\"callGroups\":[\"g2\"]}"
static void bystander_setup(void)
{
	Bc = jx_open(CL_RAW);
	if (with_passwd) {
		jx_sendf(Bc, "{\"id\":\"b0\",\"method\":\"authenticate\",\"params\":{\"user\":\"u1\",\"password\":\"pw\"}}");
	}
	jx_sendf(Bc, "{\"id\":\"b1\",\"method\":\"add\",\"params\":{\"path\":\"sb\",\"value\":1%s}}", with_passwd ? ACCESS : "");
	jx_sendf(Bc, "{\"id\":\"b2\",\"method\":\"add\",\"params\":{\"path\":\"mb\"%s}}", with_passwd ? ACCESS : "");
	jx_sendf(Bc, "{\"id\":\"b3\",\"method\":\"fetch\",\"params\":{\"id\":\"fb\"}}");
	jx_settle();
	if (!jx_is_success(jx_find_response_str(Bc, "b1", 0)) || !jx_is_success(jx_find_response_str(Bc, "b2", 0)) || !jx_is_success(jx_find_response_str(Bc, "b3", 0))) {
		fail6("setup-failed", "bystander set-up was not answered with success");
	}
}

/* "costs at most the connection that sent it": the bystander is untouched and served, new connections are accepted on
 * every listener, then everything is closed and the resource / hygiene / shutdown oracles run */
static void aftermath(void)
{
	/* answer whatever was routed to the bystander, let timers run out */
	jx_reply_routed(Bc, "\"result\":true");
	jx_settle();
	jx_expire_all_timers(6);
	if (sim_conn_closed_by_daemon(Bc)) {
		fail6("bystander-connection-closed", "the bystander's connection was closed by the daemon");
	}
	int from = clients[Bc].nmsgs;
	jx_sendf(Bc, "{\"id\":\"p1\",\"method\":\"change\",\"params\":{\"path\":\"sb\",\"value\":77}}");
	jx_sendf(Bc, "{\"id\":\"p2\",\"method\":\"get\",\"params\":{\"path\":{\"equals\":\"sb\"}}}");
	jx_settle();
	struct cl_msg *g = jx_find_response_str(Bc, "p2", from);
	if (!jx_is_success(jx_find_response_str(Bc, "p1", from)) || g == NULL || g->cls != MC_RESULT) {
		fail6("bystander-not-served", "afterwards the bystander's change/get is not answered with success");
	}
	const cJSON *res = cJSON_GetObjectItemCaseSensitive(g->json, "result");
	const cJSON *e0 = cJSON_GetArrayItem(res, 0);
	const cJSON *v = e0 ? cJSON_GetObjectItemCaseSensitive(e0, "value") : NULL;
	if (cJSON_GetArraySize(res) != 1 || v == NULL || !cJSON_IsNumber(v) || v->valuedouble != 77) {
		fail6("bystander-state-damaged", "afterwards the bystander's own state does not show value 77 in get");
	}
	/* the fetch-all of the bystander must have seen its own change */
	bool seen = false;
	for (int i = from; i < clients[Bc].nmsgs; i++) {
		struct cl_msg *m = &clients[Bc].msgs[i];
		if (m->cls == MC_NOTIFY && strstr(m->text, "\"sb\"") && strstr(m->text, "77")) {
			seen = true;
		}
	}
	if (!seen) {
		fail6("bystander-fetch-damaged", "the bystander's fetch no longer reports changes of its own state");
	}
	/* listeners still accept and serve */
	int n1 = jx_open(CL_RAW), n2 = jx_open(CL_WS), n3 = jx_open_from(CL_RAW, ROLE_UDS, ORG_DEFAULT);
	int fresh[3] = {n1, n2, n3};
	for (int i = 0; i < 3; i++) {
		jx_sendf(fresh[i], "{\"id\":\"n\",\"method\":\"info\"}");
	}
	jx_settle();
	for (int i = 0; i < 3; i++) {
		if (!jx_is_success(jx_find_response_str(fresh[i], "n", 0))) {
			fail6("fresh-connection-not-served", "afterwards a fresh connection (%s) is not served", i == 0 ? "tcp" : i == 1 ? "websocket" : "unix socket");
		}
	}
	if (clients[n2].frame_violation[0]) {
		fail6("server-frame-malformed", "%s", clients[n2].frame_violation);
	}
	jx_close_all();
	if (with_passwd && initial_creds != NULL && (sim_fs_content()->len != strlen(initial_creds) || memcmp(sim_fs_content()->p, initial_creds, strlen(initial_creds)) != 0)) {
		jx_ignore_accounted_heap = true; /* a password was changed: the loaded credential set (new salt/hash) is persistent state, not a leak */
		xp_count("credential_file_rewritten", 1);
	}
	jx_check_idle_baseline("left-behind:");
	jx_check_hygiene("hygiene:");
	jx_sigterm_and_check("shutdown:");
	jx_check_hygiene("hygiene:");
	jx_log_transcripts();
}

/* ------------------------------------------------------------------ section 0: short byte strings */
static const uint8_t ALPHA[12] = {'{', '}', '[', ']', '"', ':', ',', '0', 0x00, 0xff, ' ', 'a'};
enum { MD_RAW_STREAM = 0, MD_RAW_PAYLOAD, MD_WS_PAYLOAD, MD_HTTP_STREAM, MD_WS_STREAM, MD_UDS_STREAM, MD_COUNT };
static const char *const MD_NAME[] = {"raw tcp stream", "payload of a raw message", "payload of a websocket text message", "http listener stream", "websocket stream after the upgrade", "unix socket stream"};

static void run_bytes(void)
{
	int maxlen = (int)xp_param("maxlen", 3);
	int mode = xp_choose(MD_COUNT, XP_SCENARIO, "endpoint-form");
	int len = xp_choose(maxlen + 1, XP_SCENARIO, "length");
	uint8_t s[8];
	char hex[40] = "";
	for (int i = 0; i < len; i++) {
		s[i] = ALPHA[xp_choose(12, XP_SCENARIO, "byte")];
		snprintf(hex + 3 * i, 4, "%02x ", s[i]);
	}
	int follow = xp_choose(4, XP_SCENARIO, "then"); /* 0: FIN after the bytes; 1: a well-formed request follows; 2 / 3: the bytes (and the FIN) are already queued when the daemon accepts the connection */
	snprintf(what, sizeof(what), "bytes [%s] as %s, %s", hex, MD_NAME[mode], follow == 1 ? "then a well-formed request" : follow == 0 ? "then FIN" : follow == 2 ? "queued before the daemon accepts the connection, then FIN" : "queued together with the FIN before the daemon accepts the connection");
	struct sim_opts o = {0};
	jx_boot(&o);
	bystander_setup();
	struct bytebuf b = {0};
	if (follow >= 2) {
		if (mode != MD_RAW_STREAM && mode != MD_UDS_STREAM && mode != MD_HTTP_STREAM) {
			xp_end_run(); /* the other forms need a completed handshake or frame first */
		}
		A = cl_open(CL_BYTES, mode == MD_HTTP_STREAM ? ROLE_HTTP : mode == MD_UDS_STREAM ? ROLE_UDS : ROLE_JET, ORG_DEFAULT);
		if (len > 0) {
			sim_client_send(A, s, (size_t)len);
		}
		if (follow == 3) {
			sim_client_fin(A);
		}
		jx_settle();
		if (follow == 2 && !sim_conn_closed_by_daemon(A)) {
			sim_client_fin(A);
			jx_settle();
		}
		if (!sim_conn_closed_by_daemon(A)) {
			fail6("connection-not-released", "the client has gone but the daemon keeps the connection open");
		}
		aftermath();
		xp_nontrivial();
		xp_transition();
		xp_outcome(hash_mix(hash64(sim_conn_output(A)->p, sim_conn_output(A)->len, 3), (uint64_t)mode));
		xp_state(hash_mix(hash64(s, (size_t)len, 5), (uint64_t)mode * 4 + (uint64_t)follow));
		return;
	}
	switch (mode) {
	case MD_RAW_STREAM:
		A = jx_open(CL_RAW);
		bb_append(&b, s, (size_t)len);
		break;
	case MD_UDS_STREAM:
		A = jx_open_from(CL_RAW, ROLE_UDS, ORG_DEFAULT);
		bb_append(&b, s, (size_t)len);
		break;
	case MD_RAW_PAYLOAD:
		A = jx_open(CL_RAW);
		cl_frame_raw(&b, s, (size_t)len);
		break;
	case MD_WS_PAYLOAD:
		A = jx_open(CL_WS);
		cl_frame_ws(&b, 1, true, 0, true, 0, s, (size_t)len);
		break;
	case MD_HTTP_STREAM:
		A = cl_open(CL_BYTES, ROLE_HTTP, ORG_DEFAULT);
		jx_settle();
		bb_append(&b, s, (size_t)len);
		break;
	default:
		A = jx_open(CL_WS);
		bb_append(&b, s, (size_t)len);
	}
	send_hostile(A, b.p, b.len);
	if (follow && !sim_conn_closed_by_daemon(A)) {
		if (mode == MD_HTTP_STREAM) {
			sim_client_send(A, CL_WS_UPGRADE_REQUEST, strlen(CL_WS_UPGRADE_REQUEST));
		} else {
			cl_send_text(A, "{\"id\":\"after\",\"method\":\"info\"}");
		}
		jx_settle();
	}
	if (!sim_conn_closed_by_daemon(A)) {
		sim_client_fin(A);
		jx_settle();
	}
	if (!sim_conn_closed_by_daemon(A)) {
		fail6("connection-not-released", "the client has gone but the daemon keeps the connection open");
	}
	aftermath();
	if (len > 0) {
		xp_nontrivial();
	}
	xp_transition();
	xp_outcome(hash_mix(hash64(sim_conn_output(A)->p, sim_conn_output(A)->len, 3), (uint64_t)mode));
	xp_state(hash_mix(hash64(s, (size_t)len, 5), (uint64_t)mode * 4 + (uint64_t)follow));
}

/* ------------------------------------------------------------------ section 1: structural mutations */
static const char *const CORPUS[] = {
    "{\"id\":1,\"method\":\"add\",\"params\":{\"path\":\"n\",\"value\":1}}",
    "{\"id\":1,\"method\":\"add\",\"params\":{\"path\":\"n\",\"value\":{\"a\":[1,2]},\"fetchOnly\":true,\"timeout\":2.5,\"access\":{\"fetchGroups\":[\"g1\"],\"setGroups\":[\"g1\"],\"callGroups\":[\"g2\"]}}}",
    "{\"id\":1,\"method\":\"add\",\"params\":{\"path\":\"nm\"}}",
    "{\"id\":1,\"method\":\"remove\",\"params\":{\"path\":\"sa\"}}",
    "{\"id\":1,\"method\":\"change\",\"params\":{\"path\":\"sa\",\"value\":2}}",
    "{\"id\":1,\"method\":\"set\",\"params\":{\"path\":\"sb\",\"value\":3,\"timeout\":1.5}}",
    "{\"id\":1,\"method\":\"set\",\"params\":{\"path\":\"sb\",\"value\":3,\"valueAsResult\":true}}",
    "{\"id\":1,\"method\":\"call\",\"params\":{\"path\":\"mb\",\"args\":[1,2],\"timeout\":1}}",
    "{\"id\":1,\"method\":\"call\",\"params\":{\"path\":\"mb\",\"args\":{\"x\":1}}}",
    "{\"id\":1,\"method\":\"fetch\",\"params\":{\"id\":\"f2\",\"path\":{\"startsWith\":\"s\",\"caseInsensitive\":true}}}",
    "{\"id\":1,\"method\":\"fetch\",\"params\":{\"id\":3,\"path\":{\"equals\":\"sa\",\"equalsNot\":\"x\",\"contains\":\"a\",\"endsWith\":\"a\",\"containsAllOf\":[\"s\",\"a\"]}}}",
    "{\"id\":1,\"method\":\"fetch\",\"params\":{\"id\":\"f4\",\"match\":[\"s*\"]}}",
    "{\"id\":1,\"method\":\"unfetch\",\"params\":{\"id\":\"fa\"}}",
    "{\"id\":1,\"method\":\"get\",\"params\":{\"path\":{\"startsWith\":\"s\"}}}",
    "{\"id\":1,\"method\":\"get\",\"params\":{}}",
    "{\"id\":1,\"method\":\"config\",\"params\":{\"name\":\"peername\",\"debug\":true}}",
    "{\"id\":1,\"method\":\"info\"}",
    "{\"id\":1,\"method\":\"authenticate\",\"params\":{\"user\":\"u1\",\"password\":\"pw\"}}",
    "{\"id\":1,\"method\":\"passwd\",\"params\":{\"user\":\"u1\",\"password\":\"pw2\"}}",
    "{\"id\":\"r\",\"result\":true}",
    "{\"id\":\"r\",\"error\":{\"code\":1,\"message\":\"m\",\"data\":{\"x\":1}}}",
    "{\"id\":\"@RID\",\"result\":{\"v\":1}}",
    "{\"id\":\"@RID\",\"error\":{\"code\":1,\"message\":\"m\"}}",
    "[{\"id\":1,\"method\":\"info\"},{\"id\":2,\"method\":\"add\",\"params\":{\"path\":\"n2\",\"value\":1}}]",
};
#define NCORPUS ((int)(sizeof(CORPUS) / sizeof(CORPUS[0])))

enum mkind { M_DELETE = 0, M_DUP, M_DUP_NULL, M_REN_UPPER, M_REN_PREFIX, M_RETYPE, M_STRLEN, M_NEST };
static const char *const RETYPES[] = {"null", "true", "false", "0", "-1", "1.5", "2147483648", "-2147483649", "1e30", "\"\"", "\"s\"", "[]", "{}", "[[]]", "{\"a\":{}}", "[null,1,\"x\"]"};
#define NRETYPES ((int)(sizeof(RETYPES) / sizeof(RETYPES[0])))
static const int STRLENS[] = {0, 1, 90, 97, 98, 99, 100, 101, 200, -1 /* as long as fits into the maximal message */, -2 /* one more */};
#define NSTRLENS ((int)(sizeof(STRLENS) / sizeof(STRLENS[0])))
static const int NESTS[] = {50, 150, 240};
#define NNESTS 3
#define MUTS_PER_NODE (5 + NRETYPES + NSTRLENS + NNESTS)

static const cJSON *nodes[64];
static int nnodes;
static void collect_nodes(const cJSON *n)
{
	if (nnodes < 64) {
		nodes[nnodes++] = n;
	}
	for (const cJSON *c = n->child; c != NULL; c = c->next) {
		collect_nodes(c);
	}
}

static const cJSON *mut_node;
static int mut_kind, mut_arg, mut_fit;

static void emit_value(struct bytebuf *o, const cJSON *n, bool allow_mut);
static void emit_plain_scalar(struct bytebuf *o, const cJSON *n)
{
	char *t = cJSON_PrintUnformatted(n);
	bb_append(o, t, strlen(t));
	free(t);
}
static void emit_children(struct bytebuf *o, const cJSON *n, bool allow_mut)
{
	bool first = true;
	bool obj = cJSON_IsObject(n);
	for (const cJSON *c = n->child; c != NULL; c = c->next) {
		bool tgt = allow_mut && c == mut_node;
		if (tgt && mut_kind == M_DELETE) {
			continue;
		}
		if (!first) {
			bb_append(o, ",", 1);
		}
		first = false;
		char key[100] = "";
		if (obj) {
			snprintf(key, sizeof(key), "%s%s", (tgt && mut_kind == M_REN_PREFIX) ? "x" : "", c->string);
			if (tgt && mut_kind == M_REN_UPPER && key[0] >= 'a' && key[0] <= 'z') {
				key[0] = (char)(key[0] - 32);
			}
			bb_json_string(o, key, strlen(key));
			bb_append(o, ":", 1);
		}
		emit_value(o, c, allow_mut);
		if (tgt && (mut_kind == M_DUP || mut_kind == M_DUP_NULL)) {
			bb_append(o, ",", 1);
			if (obj) {
				bb_json_string(o, key, strlen(key));
				bb_append(o, ":", 1);
			}
			if (mut_kind == M_DUP) {
				emit_value(o, c, false);
			} else {
				bb_append(o, "null", 4);
			}
		}
	}
}
static void emit_value(struct bytebuf *o, const cJSON *n, bool allow_mut)
{
	bool tgt = allow_mut && n == mut_node;
	if (tgt && mut_kind == M_RETYPE) {
		bb_append(o, RETYPES[mut_arg], strlen(RETYPES[mut_arg]));
		return;
	}
	if (tgt && mut_kind == M_STRLEN) {
		int l = STRLENS[mut_arg];
		if (l < 0) {
			l = mut_fit + (l == -2 ? 1 : 0);
		}
		bb_append(o, "\"", 1);
		for (int i = 0; i < l; i++) {
			bb_append(o, "A", 1);
		}
		bb_append(o, "\"", 1);
		return;
	}
	if (tgt && mut_kind == M_NEST) {
		for (int i = 0; i < NESTS[mut_arg]; i++) {
			bb_append(o, "[", 1);
		}
		for (int i = 0; i < NESTS[mut_arg]; i++) {
			bb_append(o, "]", 1);
		}
		return;
	}
	if (cJSON_IsObject(n)) {
		bb_append(o, "{", 1);
		emit_children(o, n, allow_mut);
		bb_append(o, "}", 1);
	} else if (cJSON_IsArray(n)) {
		bb_append(o, "[", 1);
		emit_children(o, n, allow_mut);
		bb_append(o, "]", 1);
	} else {
		emit_plain_scalar(o, n);
	}
}

static bool mutation_applies(const cJSON *root, const cJSON *n, int kind)
{
	switch (kind) {
	case M_DELETE:
	case M_DUP:
	case M_DUP_NULL:
		return n != root;
	case M_REN_UPPER:
	case M_REN_PREFIX:
		return n != root && n->string != NULL;
	case M_STRLEN:
		return cJSON_IsString(n);
	default:
		return true;
	}
}

static void run_mutations(void)
{
	int ci = xp_choose(NCORPUS, XP_SCENARIO, "corpus-message");
	int ws = xp_choose(2, XP_SCENARIO, "transport");
	struct sim_opts o = {0};
	static char pwfile[600];
	snprintf(pwfile, sizeof(pwfile), "{\"users\":{\"u1\":{\"password\":\"%s\",\"auth\":{\"fetchGroups\":[\"g1\"],\"setGroups\":[\"g1\"],\"callGroups\":[\"g2\"]}}}}", crypt("pw", "$1$abcdefgh$"));
	with_passwd = xp_param("passwd", 0) != 0;
	o.passwd_file = with_passwd ? pwfile : NULL;
	initial_creds = o.passwd_file;
	jx_boot(&o);
	bystander_setup();
	A = jx_open(ws ? CL_WS : CL_RAW);
	if (with_passwd) {
		jx_sendf(A, "{\"id\":\"a0\",\"method\":\"authenticate\",\"params\":{\"user\":\"u1\",\"password\":\"pw\"}}");
	}
	jx_sendf(A, "{\"id\":\"a1\",\"method\":\"add\",\"params\":{\"path\":\"sa\",\"value\":1%s}}", with_passwd ? ACCESS : "");
	jx_sendf(A, "{\"id\":\"a2\",\"method\":\"add\",\"params\":{\"path\":\"ma\"%s}}", with_passwd ? ACCESS : "");
	jx_sendf(A, "{\"id\":\"a3\",\"method\":\"fetch\",\"params\":{\"id\":\"fa\"}}");
	jx_settle();
	/* the bystander has a request in flight to the hostile peer (so that a live routed id exists) */
	jx_sendf(Bc, "{\"id\":\"bq\",\"method\":\"set\",\"params\":{\"path\":\"sa\",\"value\":5,\"timeout\":3}}");
	jx_settle();
	const char *rid = "none";
	for (int k = 0; k < clients[A].nmsgs; k++) {
		if (clients[A].msgs[k].cls == MC_ROUTED && msg_id(&clients[A].msgs[k]) && cJSON_IsString(msg_id(&clients[A].msgs[k]))) {
			rid = msg_id(&clients[A].msgs[k])->valuestring;
		}
	}
	char text[800];
	const char *at = strstr(CORPUS[ci], "@RID");
	if (at != NULL) {
		snprintf(text, sizeof(text), "%.*s%s%s", (int)(at - CORPUS[ci]), CORPUS[ci], rid, at + 4);
	} else {
		snprintf(text, sizeof(text), "%s", CORPUS[ci]);
	}
	cJSON *root = cJSON_Parse(text);
	if (root == NULL) {
		xp_harness_error("corpus message %d does not parse", ci);
	}
	nnodes = 0;
	collect_nodes(root);
	int ni = xp_choose(nnodes, XP_SCENARIO, "node");
	int mi = xp_choose(MUTS_PER_NODE, XP_SCENARIO, "mutation");
	mut_node = nodes[ni];
	if (mi < 5) {
		mut_kind = mi;
		mut_arg = 0;
	} else if (mi < 5 + NRETYPES) {
		mut_kind = M_RETYPE;
		mut_arg = mi - 5;
	} else if (mi < 5 + NRETYPES + NSTRLENS) {
		mut_kind = M_STRLEN;
		mut_arg = mi - 5 - NRETYPES;
	} else {
		mut_kind = M_NEST;
		mut_arg = mi - 5 - NRETYPES - NSTRLENS;
	}
	if (!mutation_applies(root, mut_node, mut_kind)) {
		xp_end_run();
	}
	/* longest string that still fits: message of exactly 512 bytes on the raw transport */
	mut_fit = 0;
	if (mut_kind == M_STRLEN) {
		size_t old = strlen(mut_node->valuestring);
		long fit = 512 - ((long)strlen(text) - (long)old);
		mut_fit = fit > 0 ? (int)fit : 0;
	}
	struct bytebuf m = {0};
	emit_value(&m, root, true);
	bb_append(&m, "", 1);
	static const char *const KN[] = {"delete", "duplicate", "duplicate-as-null", "rename-uppercase", "rename-prefixed", "retype", "string-length", "nesting"};
	snprintf(what, sizeof(what), "corpus message %d on %s, node %d (%s) mutation %s/%d: %.200s", ci, ws ? "websocket" : "raw", ni, mut_node->string ? mut_node->string : "-", KN[mut_kind], mut_arg, (char *)m.p);
	struct bytebuf framed = {0};
	cl_frame_for(A, &framed, (char *)m.p);
	send_hostile(A, framed.p, framed.len);
	/* whatever got routed to the bystander is answered; owner-side requests of A stay open */
	jx_reply_routed(Bc, "\"result\":1");
	jx_settle();
	/* trigger suffix on the hostile connection: requests that make the daemon log with the peer's name, list, notify */
	static const char *const SUFFIX[] = {
	    "{\"id\":\"t1\",\"method\":\"get\",\"params\":{}}",
	    "{\"id\":\"t2\",\"method\":\"change\",\"params\":{\"path\":\"sa\",\"value\":9}}",
	    "{\"id\":\"t3\",\"method\":\"fetch\",\"params\":{\"id\":\"late\"}}",
	    "{\"id\":{},\"method\":\"info\"}",
	    "{\"id\":\"t4\",\"result\":1}",
	    "{\"result\":1}",
	    "7",
	    "{",
	};
	for (size_t i = 0; i < sizeof(SUFFIX) / sizeof(SUFFIX[0]); i++) {
		if (sim_conn_closed_by_daemon(A)) {
			break;
		}
		cl_send_text(A, SUFFIX[i]);
		jx_settle();
	}
	jx_sendf(Bc, "{\"id\":\"bz\",\"method\":\"call\",\"params\":{\"path\":\"ma\",\"timeout\":1}}");
	jx_settle();
	if (!sim_conn_closed_by_daemon(A)) {
		sim_client_fin(A);
		jx_settle();
	}
	if (!sim_conn_closed_by_daemon(A)) {
		fail6("connection-not-released", "the client has gone but the daemon keeps the connection open");
	}
	aftermath();
	xp_nontrivial();
	xp_transition();
	xp_outcome(hash_mix(cl_transcript_hash(A), cl_transcript_hash(Bc)));
	xp_state(hash_mix(hash64(m.p, m.len, 5), (uint64_t)ws));
}

/* batch hook: the given descriptor is dispatched first */
static int first_fd;
static int first_fd_hook(struct sim_ready *list, int n, int maxevents)
{
	(void)maxevents;
	for (int i = 1; i < n; i++) {
		if (list[i].fd == first_fd) {
			struct sim_ready v = list[i];
			memmove(&list[1], &list[0], sizeof(list[0]) * (size_t)i);
			list[0] = v;
			break;
		}
	}
	return n;
}

/* ------------------------------------------------------------------ sections 2-4: websocket frames */
static void run_frames(int section)
{
	struct wsf fr[3];
	int nf = section - 1; /* 1, 2 or 3 frames */
	int delivery = 0;
	char d0[120], d1[120] = "", d2[120] = "";
	if (nf == 1) {
		int idx = xp_choose(wsf_product_size(), XP_SCENARIO, "frame");
		if (!wsf_product(idx, &fr[0])) {
			xp_end_run();
		}
	} else {
		int alpha = nf == 2 ? WSF_NALPHA : 10;
		for (int i = 0; i < nf; i++) {
			fr[i] = WSF_ALPHA[xp_choose(alpha, XP_SCENARIO, "frame")];
		}
		delivery = xp_choose(nf == 2 ? 4 : 2, XP_SCENARIO, "delivery"); /* 0 one readiness event per frame, 1 all frames in one read, 2 second frame on another connection in the same batch, 3 all frames in one read in the same batch as the expiry of a routed request of this connection, the connection dispatched first */
	}
	wsf_describe(&fr[0], d0, sizeof(d0));
	if (nf > 1) {
		wsf_describe(&fr[1], d1, sizeof(d1));
	}
	if (nf > 2) {
		wsf_describe(&fr[2], d2, sizeof(d2));
	}
	snprintf(what, sizeof(what), "websocket frames %s %s %s (delivery %d)", d0, d1, d2, delivery);
	struct sim_opts o = {0};
	jx_boot(&o);
	bystander_setup();
	A = jx_open(CL_WS);
	int A2 = -1;
	if (delivery == 2) {
		A2 = jx_open(CL_WS);
	}
	jx_sendf(A, "{\"id\":\"a1\",\"method\":\"add\",\"params\":{\"path\":\"sa\",\"value\":1}}");
	jx_settle();
	struct bytebuf b = {0};
	if (nf == 1) {
		wsf_build(&fr[0], &b);
		send_hostile(A, b.p, b.len);
	} else if (delivery == 3) {
		/* the connection has a request in flight whose deadline passes at the very moment its frames arrive */
		jx_sendf(A, "{\"id\":\"inflight\",\"method\":\"call\",\"params\":{\"path\":\"mb\",\"args\":[1],\"timeout\":1}}");
		jx_settle();
		for (int i = 0; i < nf; i++) {
			wsf_build(&fr[i], &b);
		}
		sim_client_send(A, b.p, b.len);
		sim_advance(1000000000ULL);
		first_fd = sim_conn_fd(A);
		sim_batch_hook = first_fd_hook;
		jx_settle();
		sim_batch_hook = NULL;
	} else if (delivery == 1) {
		for (int i = 0; i < nf; i++) {
			wsf_build(&fr[i], &b);
		}
		send_hostile(A, b.p, b.len);
	} else if (delivery == 2) {
		wsf_build(&fr[0], &b);
		sim_client_send(A, b.p, b.len);
		bb_reset(&b);
		wsf_build(&fr[1], &b);
		sim_client_send(A2, b.p, b.len);
		jx_settle();
	} else {
		for (int i = 0; i < nf; i++) {
			bb_reset(&b);
			wsf_build(&fr[i], &b);
			if (sim_conn_closed_by_daemon(A)) {
				break;
			}
			sim_client_send(A, b.p, b.len);
			jx_settle();
		}
	}
	int conns[2] = {A, A2};
	for (int k = 0; k < 2; k++) {
		int c = conns[k];
		if (c < 0) {
			continue;
		}
		if (!sim_conn_closed_by_daemon(c)) {
			cl_send_text(c, "{\"id\":\"after\",\"method\":\"info\"}");
			jx_settle();
		}
		if (clients[c].frame_violation[0]) {
			fail6("server-frame-malformed", "%s", clients[c].frame_violation);
		}
		if (!sim_conn_closed_by_daemon(c)) {
			sim_client_fin(c);
			jx_settle();
		}
		if (!sim_conn_closed_by_daemon(c)) {
			fail6("connection-not-released", "the client has gone but the daemon keeps the connection open");
		}
	}
	aftermath();
	xp_nontrivial();
	xp_transition();
	xp_outcome(hash_mix(hash64(sim_conn_output(A)->p, sim_conn_output(A)->len, 3), (uint64_t)sim_conn_closed_by_daemon(A)));
	uint64_t h = (uint64_t)delivery;
	for (int i = 0; i < nf; i++) {
		char d[160];
		wsf_describe(&fr[i], d, sizeof(d));
		h = hash_mix(h, hash64(d, strlen(d), 1));
	}
	xp_state(h);
}

/* ------------------------------------------------------------------ section 5: input while the sender's own send path is full / broken */
static void run_blocked_sender(void)
{
	int ws = xp_choose(2, XP_SCENARIO, "transport");
	int how = xp_choose(3, XP_SCENARIO, "send-path"); /* 0 window 0 and write buffer full, 1 every writev fails with EPIPE, 2 window 0 but buffer not yet full */
	struct wsf fr;
	int raw_input = 0;
	if (ws) {
		fr = WSF_ALPHA[xp_choose(WSF_NALPHA, XP_SCENARIO, "frame")];
	} else {
		raw_input = xp_choose(5, XP_SCENARIO, "raw-input"); /* 0 request, 1 invalid JSON, 2 oversize length, 3 batch of 3 requests, 4 request for a routed call */
	}
	int repeat = 1 + xp_choose(3, XP_SCENARIO, "repeat");
	char d[140] = "";
	if (ws) {
		wsf_describe(&fr, d, sizeof(d));
	}
	static const char *const HOWN[] = {"window 0, write buffer full", "writev fails with EPIPE", "window 0, buffer not full"};
	static const char *const RAWN[] = {"a request", "invalid JSON", "an oversize length prefix", "a batch", "a call routed to the bystander"};
	snprintf(what, sizeof(what), "%s peer whose own send path is blocked (%s) sends %d x %s", ws ? "websocket" : "raw", HOWN[how], repeat, ws ? d : RAWN[raw_input]);
	struct sim_opts o = {0};
	jx_boot(&o);
	bystander_setup();
	A = jx_open(ws ? CL_WS : CL_RAW);
	jx_sendf(A, "{\"id\":\"a1\",\"method\":\"add\",\"params\":{\"path\":\"sa\",\"value\":1}}");
	jx_sendf(A, "{\"id\":\"a3\",\"method\":\"fetch\",\"params\":{\"id\":\"fa\"}}");
	jx_settle();
	if (how == 1) {
		sim_client_reset(A, RST_WRITE);
	} else {
		sim_set_window(A, 0);
	}
	if (how == 0) {
		/* fill the daemon's write buffer for A: responses to 70 info requests are far more than 5120 bytes */
		int fill_kind = ws ? xp_choose(2, XP_SCENARIO, "filled-by") : 0; /* 0 responses to requests, 1 pongs to pings (websocket) */
		for (int i = 0; i < 70 && !sim_conn_closed_by_daemon(A); i++) {
			if (fill_kind == 1) {
				struct bytebuf pb = {0};
				uint8_t pl[120];
				memset(pl, 'p', sizeof(pl));
				cl_frame_ws(&pb, 9, true, 0, true, 0, pl, sizeof(pl));
				sim_client_send(A, pb.p, pb.len);
				bb_free(&pb);
			} else {
				char rq[80];
				snprintf(rq, sizeof(rq), "{\"id\":\"fill%d\",\"method\":\"info\"}", i);
				cl_send_text(A, rq);
			}
			if ((i & 7) == 7) {
				jx_settle();
			}
		}
		jx_settle();
	}
	for (int r = 0; r < repeat && !sim_conn_closed_by_daemon(A); r++) {
		struct bytebuf b = {0};
		if (ws) {
			wsf_build(&fr, &b);
		} else if (raw_input == 0) {
			cl_frame_raw(&b, "{\"id\":\"x\",\"method\":\"get\",\"params\":{}}", 37);
		} else if (raw_input == 1) {
			cl_frame_raw(&b, "{\"id\":1,\"method\":", 17);
		} else if (raw_input == 2) {
			uint8_t h[4] = {0, 0x10, 0, 0};
			bb_append(&b, h, 4);
		} else if (raw_input == 3) {
			const char *t = "[{\"id\":1,\"method\":\"info\"},{\"id\":2,\"method\":\"get\",\"params\":{}},{\"id\":3,\"method\":\"nosuch\"}]";
			cl_frame_raw(&b, t, strlen(t));
		} else {
			const char *t = "{\"id\":\"rc\",\"method\":\"call\",\"params\":{\"path\":\"mb\",\"args\":[1],\"timeout\":1}}";
			cl_frame_raw(&b, t, strlen(t));
		}
		send_hostile(A, b.p, b.len);
		bb_free(&b);
		jx_reply_routed(Bc, "\"result\":\"for-the-blocked-peer\"");
		jx_settle();
	}
	/* the bystander's traffic goes on: notifications for A cannot be delivered */
	jx_sendf(Bc, "{\"id\":\"bw\",\"method\":\"change\",\"params\":{\"path\":\"sb\",\"value\":5}}");
	jx_settle();
	if (!sim_conn_closed_by_daemon(A)) {
		if (how == 1) {
			sim_client_reset_escalate(A);
		} else {
			sim_client_fin(A);
		}
		jx_settle();
	}
	if (!sim_conn_closed_by_daemon(A)) {
		fail6("connection-not-released", "the client has gone but the daemon keeps the connection open");
	}
	aftermath();
	xp_nontrivial();
	xp_transition();
	xp_outcome(hash_mix(cl_transcript_hash(Bc), (uint64_t)how));
	xp_state(hash_mix(hash64(d, strlen(d), 2) + (uint64_t)raw_input * 7, (uint64_t)ws * 100 + (uint64_t)how * 10 + (uint64_t)repeat));
}

static void run(void)
{
	long s = xp_param("section", 0);
	if (s == 5) {
		run_blocked_sender();
		return;
	}
	if (s == 0) {
		run_bytes();
	} else if (s == 1) {
		run_mutations();
	} else {
		run_frames((int)s);
	}
}

const struct driver drv_c06 = {
    .name = "c06",
    .property = "C06",
    .run = run,
    .rule = "section 0: every byte string of length <= maxlen over {{ } [ ] \" : , 0 00 ff space a} x 6 endpoint forms (raw tcp stream, unix socket stream, payload of a raw message, payload of a websocket text message, http listener stream, websocket stream after the upgrade) x {FIN, well-formed request follows; for the three stream forms also: bytes already queued when the daemon accepts the connection, with or without the FIN in that same batch}; section 1: 24 JSON-RPC corpus messages (every method with its optional members, responses to unknown and to live routed ids, a batch) x every node x {delete, duplicate, duplicate as null, rename upper-case, rename prefixed, 16 retypings, 11 string lengths incl. 97..101 and the longest that fits / one more, nesting 50/150/240} x 2 transports, each followed by 8 trigger requests, a routed call, disconnect; section 2: the complete single-frame product opcode(16) x FIN x RSV(8) x MASK x length encoding(3) x 16 payload lengths (0..65536, 2^63, 2^63-1); section 3: all ordered pairs over a 26-frame alphabet x 4 deliveries (one event per frame, one read, two connections in one batch, one read in the same batch as the expiry of a routed request of the sending connection with the connection dispatched first); section 4: all ordered triples over 10 frames x 2 deliveries; section 5: each of the 26 frames / 5 raw inputs sent 1..3 times by a peer whose own send path is blocked (window 0 with a full write buffer, every writev failing, window 0 with room left); deviation budget 1: every split point (<= 300) of the hostile bytes, queued at once or after a would-block; oracle: ASan+UBSan (no crash / report), bystander untouched and served, listeners accept, resources at baseline, descriptor hygiene, clean SIGTERM exit; non-trivial = every non-empty input",
    .assumptions = "the input space of C06 is infinite: exhaustive only over the stated shapes|the sanitizers detect invalid accesses to heap/stack/global objects and the UB classes of -fsanitize=undefined, not every conceivable undefined behaviour",
};
