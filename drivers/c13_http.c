/* C13 - HTTP front door: anything that is not a valid WebSocket upgrade gets an error status or a close and leaves
 * nothing behind.  Enumerates a valid upgrade request truncated at / corrupted at every byte, request-line variants
 * and over-long lines, optionally each under every single split point (deviation budget 1). */
#include <stdlib.h>
#include <string.h>

#include "common.h"

static const uint8_t REPL[] = {0x00, ' ', '\r', '\n', 'X', 0xFF};

struct variant {
	const char *name;
	const char *text; /* NULL = generated */
	bool clearly_invalid;
};
static const struct variant VARIANTS[] = {
    {"wrong-path", "GET /other HTTP/1.1\r\nHost: x\r\nUpgrade: websocket\r\nConnection: Upgrade\r\nSec-WebSocket-Key: dGhlIHNhbXBsZSBub25jZQ==\r\nSec-WebSocket-Version: 13\r\nSec-WebSocket-Protocol: jet\r\n\r\n", true},
    {"prefix-of-path", "GET /api/jet HTTP/1.1\r\nHost: x\r\nUpgrade: websocket\r\nConnection: Upgrade\r\nSec-WebSocket-Key: dGhlIHNhbXBsZSBub25jZQ==\r\nSec-WebSocket-Version: 13\r\nSec-WebSocket-Protocol: jet\r\n\r\n", true},
    {"method-POST", "POST /api/jet/ HTTP/1.1\r\nHost: x\r\nUpgrade: websocket\r\nConnection: Upgrade\r\nSec-WebSocket-Key: dGhlIHNhbXBsZSBub25jZQ==\r\nSec-WebSocket-Version: 13\r\nSec-WebSocket-Protocol: jet\r\n\r\n", true},
    {"method-PUT", "PUT /api/jet/ HTTP/1.1\r\nHost: x\r\nUpgrade: websocket\r\nConnection: Upgrade\r\nSec-WebSocket-Key: dGhlIHNhbXBsZSBub25jZQ==\r\nSec-WebSocket-Version: 13\r\nSec-WebSocket-Protocol: jet\r\n\r\n", true},
    {"method-CONNECT", "CONNECT /api/jet/ HTTP/1.1\r\nHost: x\r\nUpgrade: websocket\r\nConnection: Upgrade\r\nSec-WebSocket-Key: dGhlIHNhbXBsZSBub25jZQ==\r\nSec-WebSocket-Version: 13\r\nSec-WebSocket-Protocol: jet\r\n\r\n", true},
    {"method-garbage", "G3T /api/jet/ HTTP/1.1\r\nHost: x\r\nUpgrade: websocket\r\nConnection: Upgrade\r\nSec-WebSocket-Key: dGhlIHNhbXBsZSBub25jZQ==\r\nSec-WebSocket-Version: 13\r\n\r\n", true},
    {"version-0.9", "GET /api/jet/\r\nHost: x\r\nUpgrade: websocket\r\nConnection: Upgrade\r\nSec-WebSocket-Key: dGhlIHNhbXBsZSBub25jZQ==\r\nSec-WebSocket-Version: 13\r\n\r\n", true},
    {"version-1.0", "GET /api/jet/ HTTP/1.0\r\nHost: x\r\nUpgrade: websocket\r\nConnection: Upgrade\r\nSec-WebSocket-Key: dGhlIHNhbXBsZSBub25jZQ==\r\nSec-WebSocket-Version: 13\r\nSec-WebSocket-Protocol: jet\r\n\r\n", true},
    {"version-x.y", "GET /api/jet/ HTTP/x.y\r\nHost: x\r\nUpgrade: websocket\r\nConnection: Upgrade\r\nSec-WebSocket-Key: dGhlIHNhbXBsZSBub25jZQ==\r\nSec-WebSocket-Version: 13\r\n\r\n", true},
    {"target-then-malformed-tail", "GET /api/jet/ HTTP/1.1x\r\nHost: x\r\nUpgrade: websocket\r\nConnection: Upgrade\r\nSec-WebSocket-Key: dGhlIHNhbXBsZSBub25jZQ==\r\nSec-WebSocket-Version: 13\r\n\r\n", true},
    {"target-then-extra-token", "GET /api/jet/ HTTP/1.1 extra\r\nHost: x\r\n\r\n", true},
    {"target-then-bare-lf", "GET /api/jet/ HTTP/1.1\nHost: x\r\n\r\n", false},
    {"header-without-colon", "GET /api/jet/ HTTP/1.1\r\nHost x\r\nUpgrade: websocket\r\nConnection: Upgrade\r\nSec-WebSocket-Key: dGhlIHNhbXBsZSBub25jZQ==\r\nSec-WebSocket-Version: 13\r\n\r\n", true},
    {"header-name-with-space", "GET /api/jet/ HTTP/1.1\r\nHo st: x\r\nUpgrade: websocket\r\nConnection: Upgrade\r\nSec-WebSocket-Key: dGhlIHNhbXBsZSBub25jZQ==\r\nSec-WebSocket-Version: 13\r\n\r\n", true},
    {"no-upgrade-headers", "GET /api/jet/ HTTP/1.1\r\nHost: x\r\n\r\n", true},
    {"upgrade-header-missing", "GET /api/jet/ HTTP/1.1\r\nHost: x\r\nConnection: Upgrade\r\nSec-WebSocket-Key: dGhlIHNhbXBsZSBub25jZQ==\r\nSec-WebSocket-Version: 13\r\nSec-WebSocket-Protocol: jet\r\n\r\n", true},
    {"connection-header-missing", "GET /api/jet/ HTTP/1.1\r\nHost: x\r\nUpgrade: websocket\r\nSec-WebSocket-Key: dGhlIHNhbXBsZSBub25jZQ==\r\nSec-WebSocket-Version: 13\r\nSec-WebSocket-Protocol: jet\r\n\r\n", true},
    {"connection-keep-alive-only", "GET /api/jet/ HTTP/1.1\r\nHost: x\r\nUpgrade: websocket\r\nConnection: keep-alive\r\nSec-WebSocket-Key: dGhlIHNhbXBsZSBub25jZQ==\r\nSec-WebSocket-Version: 13\r\nSec-WebSocket-Protocol: jet\r\n\r\n", true},
    {"connection-close", "GET /api/jet/ HTTP/1.1\r\nHost: x\r\nUpgrade: websocket\r\nConnection: close\r\nSec-WebSocket-Key: dGhlIHNhbXBsZSBub25jZQ==\r\nSec-WebSocket-Version: 13\r\nSec-WebSocket-Protocol: jet\r\n\r\n", true},
    {"plain-get-with-key-headers-only", "GET /api/jet/ HTTP/1.1\r\nHost: x\r\nSec-WebSocket-Key: dGhlIHNhbXBsZSBub25jZQ==\r\nSec-WebSocket-Version: 13\r\nSec-WebSocket-Protocol: jet\r\n\r\n", true},
    {"ws-version-12", "GET /api/jet/ HTTP/1.1\r\nHost: x\r\nUpgrade: websocket\r\nConnection: Upgrade\r\nSec-WebSocket-Key: dGhlIHNhbXBsZSBub25jZQ==\r\nSec-WebSocket-Version: 12\r\n\r\n", false},
    {"unsupported-subprotocol", "GET /api/jet/ HTTP/1.1\r\nHost: x\r\nUpgrade: websocket\r\nConnection: Upgrade\r\nSec-WebSocket-Key: dGhlIHNhbXBsZSBub25jZQ==\r\nSec-WebSocket-Version: 13\r\nSec-WebSocket-Protocol: foo\r\n\r\n", false},
    {"key-wrong-length", "GET /api/jet/ HTTP/1.1\r\nHost: x\r\nUpgrade: websocket\r\nConnection: Upgrade\r\nSec-WebSocket-Key: dGhlIHNhbXBsZQ==\r\nSec-WebSocket-Version: 13\r\n\r\n", false},
    {"overlong-request-line-511", NULL, true},
    {"overlong-request-line-512", NULL, true},
    {"overlong-request-line-513", NULL, true},
    {"overlong-request-line-2000", NULL, true},
    {"overlong-header-line-511", NULL, true},
    {"overlong-header-line-513", NULL, true},
    {"overlong-header-line-2000", NULL, true},
    {"long-but-legal-request-target-400", NULL, false},
    {"empty-line-first", "\r\nGET /api/jet/ HTTP/1.1\r\nHost: x\r\n\r\n", false},
    {"only-crlf-crlf", "\r\n\r\n", true},
    {"absolute-uri-target", "GET http://host/api/jet/ HTTP/1.1\r\nHost: x\r\nUpgrade: websocket\r\nConnection: Upgrade\r\nSec-WebSocket-Key: dGhlIHNhbXBsZSBub25jZQ==\r\nSec-WebSocket-Version: 13\r\nSec-WebSocket-Protocol: jet\r\n\r\n", false},
    {"ws-version-near-miss-130", "GET /api/jet/ HTTP/1.1\r\nHost: x\r\nUpgrade: websocket\r\nConnection: Upgrade\r\nSec-WebSocket-Key: dGhlIHNhbXBsZSBub25jZQ==\r\nSec-WebSocket-Version: 130\r\nSec-WebSocket-Protocol: jet\r\n\r\n", true},
    {"ws-version-near-miss-137", "GET /api/jet/ HTTP/1.1\r\nHost: x\r\nUpgrade: websocket\r\nConnection: Upgrade\r\nSec-WebSocket-Key: dGhlIHNhbXBsZSBub25jZQ==\r\nSec-WebSocket-Version: 137\r\nSec-WebSocket-Protocol: jet\r\n\r\n", true},
    {"ws-version-near-miss-13x", "GET /api/jet/ HTTP/1.1\r\nHost: x\r\nUpgrade: websocket\r\nConnection: Upgrade\r\nSec-WebSocket-Key: dGhlIHNhbXBsZSBub25jZQ==\r\nSec-WebSocket-Version: 13x\r\nSec-WebSocket-Protocol: jet\r\n\r\n", true},
    {"ws-version-near-miss-13.5", "GET /api/jet/ HTTP/1.1\r\nHost: x\r\nUpgrade: websocket\r\nConnection: Upgrade\r\nSec-WebSocket-Key: dGhlIHNhbXBsZSBub25jZQ==\r\nSec-WebSocket-Version: 13.5\r\nSec-WebSocket-Protocol: jet\r\n\r\n", true},
    {"ws-version-near-miss-1", "GET /api/jet/ HTTP/1.1\r\nHost: x\r\nUpgrade: websocket\r\nConnection: Upgrade\r\nSec-WebSocket-Key: dGhlIHNhbXBsZSBub25jZQ==\r\nSec-WebSocket-Version: 1\r\nSec-WebSocket-Protocol: jet\r\n\r\n", true},
    {"ws-version-near-miss-3", "GET /api/jet/ HTTP/1.1\r\nHost: x\r\nUpgrade: websocket\r\nConnection: Upgrade\r\nSec-WebSocket-Key: dGhlIHNhbXBsZSBub25jZQ==\r\nSec-WebSocket-Version: 3\r\nSec-WebSocket-Protocol: jet\r\n\r\n", true},
    {"ws-version-near-miss-113", "GET /api/jet/ HTTP/1.1\r\nHost: x\r\nUpgrade: websocket\r\nConnection: Upgrade\r\nSec-WebSocket-Key: dGhlIHNhbXBsZSBub25jZQ==\r\nSec-WebSocket-Version: 113\r\nSec-WebSocket-Protocol: jet\r\n\r\n", true},
    {"ws-version-near-miss--13", "GET /api/jet/ HTTP/1.1\r\nHost: x\r\nUpgrade: websocket\r\nConnection: Upgrade\r\nSec-WebSocket-Key: dGhlIHNhbXBsZSBub25jZQ==\r\nSec-WebSocket-Version: -13\r\nSec-WebSocket-Protocol: jet\r\n\r\n", true},
    {"ws-version-near-miss-13,12-as-one-token", "GET /api/jet/ HTTP/1.1\r\nHost: x\r\nUpgrade: websocket\r\nConnection: Upgrade\r\nSec-WebSocket-Key: dGhlIHNhbXBsZSBub25jZQ==\r\nSec-WebSocket-Version: 1312\r\nSec-WebSocket-Protocol: jet\r\n\r\n", true},
    {"two-requests-pipelined", "GET /nothing HTTP/1.1\r\nHost: x\r\n\r\nGET /api/jet/ HTTP/1.1\r\nHost: x\r\n\r\n", true},
};
#define NVARIANTS ((int)(sizeof(VARIANTS) / sizeof(VARIANTS[0])))

static void gen_variant(const struct variant *v, struct bytebuf *out)
{
	if (v->text != NULL) {
		bb_append(out, v->text, strlen(v->text));
		return;
	}
	int n = atoi(strrchr(v->name, '-') + 1);
	if (strncmp(v->name, "overlong-request-line", 21) == 0) {
		bb_printf(out, "GET /api/jet/");
		while ((int)out->len < n) {
			bb_append(out, "a", 1);
		}
	} else if (strncmp(v->name, "overlong-header-line", 20) == 0) {
		bb_printf(out, "GET /api/jet/ HTTP/1.1\r\nX-Long: ");
		size_t start = out->len - 8;
		while ((int)(out->len - start) < n) {
			bb_append(out, "b", 1);
		}
	} else {
		bb_printf(out, "GET /api/jet/");
		for (int i = 0; i < n; i++) {
			bb_append(out, "c", 1);
		}
		bb_printf(out, " HTTP/1.1\r\nHost: x\r\nUpgrade: websocket\r\nConnection: Upgrade\r\nSec-WebSocket-Key: dGhlIHNhbXBsZSBub25jZQ==\r\nSec-WebSocket-Version: 13\r\nSec-WebSocket-Protocol: jet\r\n\r\n");
	}
}

static void fail_h(const char *key, const char *fmt, ...) __attribute__((noreturn, format(printf, 2, 3)));
static void fail_h(const char *key, const char *fmt, ...)
{
	char m[1500];
	va_list ap;
	va_start(ap, fmt);
	vsnprintf(m, sizeof(m), fmt, ap);
	va_end(ap);
	jx_log_transcripts();
	xp_fail(key, "%s", m);
}

static void run(void)
{
	const char *R = CL_WS_UPGRADE_REQUEST;
	size_t rl = strlen(R);
	size_t line1 = (size_t)(strstr(R, "\r\n") - R) + 2;
	int family = xp_choose(5, XP_SCENARIO, "family"); /* 0 truncate+FIN, 1 truncate+reset, 2 corrupt one byte, 3 variants, 4 a valid request or a variant while the n-th allocation of the exchange fails */
	int failing_alloc = 0;
	struct bytebuf req = {0};
	bool clearly_invalid = false, complete_valid = false;
	char what[200];
	int ending = 0; /* 0 FIN after sending, 1 reset */
	if (family <= 1) {
		int k = xp_choose((int)rl + 1, XP_SCENARIO, "truncate-at");
		bb_append(&req, R, (size_t)k);
		ending = family;
		complete_valid = (size_t)k == rl;
		clearly_invalid = !complete_valid; /* closed half-way */
		snprintf(what, sizeof(what), "valid upgrade request truncated after %d of %zu bytes, then %s", k, rl, family ? "reset" : "FIN");
	} else if (family == 2) {
		int pos = xp_choose((int)rl, XP_SCENARIO, "corrupt-at");
		int r = xp_choose((int)sizeof(REPL), XP_SCENARIO, "replacement");
		bb_append(&req, R, rl);
		bool same = req.p[pos] == REPL[r];
		req.p[pos] = REPL[r];
		/* the request line (method, target, version) is judged; a corrupted header block is only subject to the resource oracle */
		clearly_invalid = !same && (size_t)pos < line1 - 2;
		complete_valid = same;
		snprintf(what, sizeof(what), "valid upgrade request with byte %d ('%c') replaced by 0x%02x", pos, R[pos] >= 32 ? R[pos] : '?', REPL[r]);
	} else if (family == 4) {
		/* an exchange that is cut short because the daemon runs out of memory: answered with an error status or closed, or completed
		 * all the same - and nothing of it is left behind */
		int which = xp_choose(4, XP_SCENARIO, "request");
		failing_alloc = 1 + xp_choose(16, XP_SCENARIO, "failing-allocation");
		if (which == 0) {
			bb_append(&req, R, rl);
		} else {
			gen_variant(&VARIANTS[which - 1], &req);
			clearly_invalid = VARIANTS[which - 1].clearly_invalid;
		}
		snprintf(what, sizeof(what), "%s while allocation #%d of the exchange fails", which == 0 ? "valid upgrade request" : VARIANTS[which - 1].name, failing_alloc);
	} else {
		int v = xp_choose(NVARIANTS, XP_SCENARIO, "variant");
		gen_variant(&VARIANTS[v], &req);
		clearly_invalid = VARIANTS[v].clearly_invalid;
		snprintf(what, sizeof(what), "request variant '%s'", VARIANTS[v].name);
	}
	struct sim_opts o = {0};
	jx_boot(&o);
	int P = jx_open(CL_RAW); /* a bystander that exists throughout */
	if (failing_alloc > 0) {
		sim_heap_fail_nth(failing_alloc);
	}
	int H = cl_open(CL_WS, ROLE_HTTP, ORG_DEFAULT);
	/* segmentation: default one chunk; deviation: split at one point, second part after the daemon went quiescent */
	int split = 0;
	if (req.len >= 2) {
		split = xp_choose((int)req.len, XP_DEV, "split-at");
	}
	if (split > 0) {
		sim_client_send(H, req.p, (size_t)split);
		jx_settle();
		if (!sim_conn_closed_by_daemon(H)) {
			sim_client_send(H, req.p + split, req.len - (size_t)split);
		}
	} else if (req.len > 0) {
		sim_client_send(H, req.p, req.len);
	}
	jx_settle();
	if (failing_alloc > 0) {
		long fired = sim_heap_failures();
		sim_heap_fail_nth(0);
		if (fired == 0) {
			xp_end_run(); /* the exchange makes fewer allocations */
		}
	}
	struct client *c = &clients[H];
	int status = c->http_status;
	bool upgraded = status == 101;
	if (clearly_invalid && upgraded) {
		char key[160];
		snprintf(key, sizeof(key), "invalid-request-upgraded:family=%d", family);
		fail_h(key, "%s was answered with 101 Switching Protocols", what);
	}
	if (complete_valid && !upgraded) {
		fail_h("valid-upgrade-refused", "%s: not answered with 101 (status %d)", what, status);
	}
	if (c->http_done && !upgraded && status < 400) {
		fail_h("http-answer-not-an-error", "%s: answered with status %d, which is neither 101 nor an error status", what, status);
	}
	if (!c->http_done && sim_conn_output(H)->len > 0) {
		/* something was written that is not a complete response header block */
		const struct bytebuf *ob = sim_conn_output(H);
		if (ob->len < 5 || memcmp(ob->p, "HTTP/", 5) != 0) {
			fail_h("http-answer-garbage", "%s: the daemon wrote %zu bytes that are not an HTTP response", what, ob->len);
		}
	}
	/* end of the exchange */
	if (!sim_conn_closed_by_daemon(H)) {
		if (ending == 1) {
			sim_client_reset(H, RST_EPOLL);
		} else {
			sim_client_fin(H);
		}
		jx_settle();
	}
	if (!sim_conn_closed_by_daemon(H)) {
		fail_h("connection-not-released", "%s: the client has gone but the daemon keeps the connection open", what);
	}
	/* nothing left behind (the bystander P is part of the baseline we compare with) */
	int peers_expected = sim_base.peers + 1;
	if (get_number_of_peers() != peers_expected) {
		char key[160];
		snprintf(key, sizeof(key), "peer-left-behind:%s", upgraded ? "after-upgrade" : "without-upgrade");
		fail_h(key, "%s: after the exchange the daemon counts %d peers, expected %d", what, get_number_of_peers(), peers_expected);
	}
	/* probe suffix: other peers work, then orderly shutdown reaches nothing stale */
	jx_sendf(P, "{\"id\":1,\"method\":\"add\",\"params\":{\"path\":\"probe\",\"value\":1}}");
	jx_sendf(P, "{\"id\":2,\"method\":\"fetch\",\"params\":{\"id\":\"f\"}}");
	jx_settle();
	if (!jx_is_success(jx_find_response_num(P, 1, 0)) || !jx_is_success(jx_find_response_num(P, 2, 0))) {
		fail_h("bystander-not-served", "%s: afterwards a bystander's add/fetch is not answered with success", what);
	}
	sim_client_fin(P);
	jx_settle();
	jx_check_idle_baseline("left-behind:");
	jx_check_hygiene("hygiene:");
	jx_sigterm_and_check("shutdown:");
	jx_check_hygiene("hygiene:");
	if (clearly_invalid || !upgraded) {
		xp_nontrivial();
	}
	xp_count(upgraded ? "answered_101" : (c->http_done ? "answered_error_status" : "closed_without_answer"), 1);
	xp_transition();
	xp_outcome(hash_mix((uint64_t)status, sim_conn_output(H)->len));
	xp_state(hash_mix(hash64(req.p, req.len, 1), (uint64_t)split * 4 + (uint64_t)ending));
	jx_log_transcripts();
}

const struct driver drv_c13 = {
    .name = "c13",
    .property = "C13",
    .run = run,
    .rule = "a valid upgrade request truncated after every byte count (then FIN / then reset), with every byte replaced by each of {00, space, CR, LF, X, FF}, plus 44 request variants (incl. requests that lack the Upgrade or the Connection: Upgrade header, and nine near-miss values of Sec-WebSocket-Version: 130, 137, 13x, 13.5, 1, 3, 113, -13, 1312) (wrong path / method / version, malformed request line or header, over-long lines of 511..2000 bytes); the valid request and three variants again while the n-th allocation of the exchange fails (n = 1..16); with deviation budget 1 each case is also delivered split at every byte position with a would-block in between; non-trivial = cases that must not be upgraded or were not upgraded; states = distinct (bytes, split, ending)",
    .assumptions = "only request-line corruptions, truncations and the listed variants are classified as 'clearly not a valid upgrade'; a corrupted byte inside the header block is subject to the resource and shutdown oracle only",
};
