/* C07 - everything is reclaimed; descriptor use is hygienic.
 * Histories over three jet slots (raw tcp, websocket, raw uds) plus HTTP front-door probes and injected accept-path
 * failures, ended at every quiescent point either by closing all connections (idle baseline must be restored, then
 * SIGTERM) or by SIGTERM at once (every connection closed, everything released, clean exit). */
#define _GNU_SOURCE
#include <crypt.h>
#include <errno.h>
#include <stdlib.h>
#include <string.h>

#include "common.h"
#include "generated/cjet_config.h"

enum { SA = 0, SB, SC, NS };
static int conn[NS] = {-1, -1, -1};
static int http_probe = -1;
static int nreq;

static char *make_passwd_file(void)
{
	char h1[128], h2[128];
	snprintf(h1, sizeof(h1), "%s", crypt("secret-one", "$1$abcdefgh$"));
	snprintf(h2, sizeof(h2), "%s", crypt("secret-two", "$1$hgfedcba$"));
	struct bytebuf b = {0};
	bb_printf(&b, "{\"users\":{\"u1\":{\"password\":\"%s\",\"auth\":{\"fetchGroups\":[\"g1\"],\"setGroups\":[\"g1\"],\"callGroups\":[\"g1\"]}},"
	              "\"adm\":{\"password\":\"%s\",\"admin\":true,\"auth\":{\"fetchGroups\":[\"g1\",\"g2\"],\"setGroups\":[\"g1\",\"g2\"],\"callGroups\":[\"g1\",\"g2\"]}}}}",
	          h1, h2);
	return (char *)b.p;
}

static bool alive(int s)
{
	return conn[s] >= 0 && !sim_conn_closed_by_daemon(conn[s]) && !sim_conn_client_gone(conn[s]);
}

struct act {
	const char *name;
	int kind;
	int s;
	const char *text;
};
enum { K_OPEN, K_FIN, K_RESET, K_REQ, K_REPLY, K_CLOCK, K_GARBAGE, K_HTTP, K_HTTPFIN, K_OPENFAIL, K_BURST, K_REQNOID, K_REQSYSFAIL, K_REFUSALS };

static const struct act ACTS[] = {
    {"open(A)", K_OPEN, SA, NULL},
    {"open(B:ws)", K_OPEN, SB, NULL},
    {"A:add(sa)", K_REQ, SA, "\"method\":\"add\",\"params\":{\"path\":\"sa\",\"value\":1}"},
    {"B:set(sa)->routed", K_REQ, SB, "\"method\":\"set\",\"params\":{\"path\":\"sa\",\"value\":2}"},
    {"fin(A)", K_FIN, SA, NULL},
    {"fin(B)", K_FIN, SB, NULL},
    {"A:fetch", K_REQ, SA, "\"method\":\"fetch\",\"params\":{\"id\":\"fa\"}"},
    {"B:add(mb)", K_REQ, SB, "\"method\":\"add\",\"params\":{\"path\":\"mb\"}"},
    {"A:call(mb)->routed", K_REQ, SA, "\"method\":\"call\",\"params\":{\"path\":\"mb\",\"args\":[1]}"},
    {"clock->deadline", K_CLOCK, 0, NULL},
    {"A:reply", K_REPLY, SA, NULL},
    {"B:reply", K_REPLY, SB, NULL},
    {"A:authenticate(u1)", K_REQ, SA, "\"method\":\"authenticate\",\"params\":{\"user\":\"u1\",\"password\":\"secret-one\"}"},
    {"A:authenticate(adm)", K_REQ, SA, "\"method\":\"authenticate\",\"params\":{\"user\":\"adm\",\"password\":\"secret-two\"}"},
    {"B:authenticate(wrong)", K_REQ, SB, "\"method\":\"authenticate\",\"params\":{\"user\":\"u1\",\"password\":\"nope\"}"},
    {"http:wrong-path", K_HTTP, 0, "GET /nothing HTTP/1.1\r\nHost: x\r\n\r\n"},
    {"http:target-then-malformed-line", K_HTTP, 0, "GET /api/jet/ HTTP/1.1x\r\nHost: x\r\n\r\n"},
    {"http:request-line-only", K_HTTP, 0, "GET /api/jet/ HTTP/1.1\r\n"},
    {"http:half-request-line", K_HTTP, 0, "GET /api/j"},
    {"http:fin", K_HTTPFIN, 0, NULL},
    {"reset(A)", K_RESET, SA, NULL},
    {"reset(B)", K_RESET, SB, NULL},
    {"A:garbage", K_GARBAGE, SA, "{\"id\":1,\"method\":"},
    {"B:garbage", K_GARBAGE, SB, "[1,2"},
    {"A:nosuch", K_REQ, SA, "\"method\":\"nosuch\""},
    {"A:config(name)", K_REQ, SA, "\"method\":\"config\",\"params\":{\"name\":\"peer-a\"}"},
    {"open(C:uds)", K_OPEN, SC, NULL},
    {"C:set(sa)->routed", K_REQ, SC, "\"method\":\"set\",\"params\":{\"path\":\"sa\",\"value\":3,\"timeout\":0.5}"},
    {"fin(C)", K_FIN, SC, NULL},
    {"open(A) with fcntl failing", K_OPENFAIL, 0, "fcntl"},
    {"open(A) with setsockopt failing", K_OPENFAIL, 1, "setsockopt"},
    {"open(A) with getsockname failing", K_OPENFAIL, 2, "getsockname"},
    {"B:burst of 3 routed sets to sa", K_BURST, SB, NULL},
    {"http:upgrade-without-key", K_HTTP, 0, "GET /api/jet/ HTTP/1.1\r\nHost: x\r\nUpgrade: websocket\r\nConnection: Upgrade\r\nSec-WebSocket-Version: 13\r\n\r\n"},
    {"http:upgrade-wrong-version", K_HTTP, 0, "GET /api/jet/ HTTP/1.1\r\nHost: x\r\nUpgrade: websocket\r\nConnection: Upgrade\r\nSec-WebSocket-Key: dGhlIHNhbXBsZSBub25jZQ==\r\nSec-WebSocket-Version: 12\r\n\r\n"},
    {"A:remove(sa)", K_REQ, SA, "\"method\":\"remove\",\"params\":{\"path\":\"sa\"}"},
    {"B:fetch(rule)", K_REQ, SB, "\"method\":\"fetch\",\"params\":{\"id\":1,\"path\":{\"startsWith\":\"s\",\"caseInsensitive\":true}}"},
    {"B:set(sa) without id", K_REQNOID, SB, "\"method\":\"set\",\"params\":{\"path\":\"sa\",\"value\":7,\"timeout\":3}"},
    {"C:call(mb) without id", K_REQNOID, SC, "\"method\":\"call\",\"params\":{\"path\":\"mb\",\"args\":[2]}"},
    /* a routed request whose timer cannot be created / armed (s = index of the failing call): refused, and nothing of it stays behind */
    {"B:set(sa) while timerfd_create fails (EMFILE)", K_REQSYSFAIL, 0, "\"method\":\"set\",\"params\":{\"path\":\"sa\",\"value\":8}"},
    {"B:set(sa) while timerfd_settime fails", K_REQSYSFAIL, 1, "\"method\":\"set\",\"params\":{\"path\":\"sa\",\"value\":9}"},
    /* requests that are refused only after part of their work was done (matchers, group lists, routing records already built) */
    {"A:volley of requests refused half-way", K_REFUSALS, SA, NULL},
    /* passwd is deliberately absent: it legitimately changes the size of the persistent credential database (judged by C20) */
};
#define NACTS ((int)(sizeof(ACTS) / sizeof(ACTS[0])))

static bool enabled(const struct act *a)
{
	switch (a->kind) {
	case K_OPEN:
		return conn[a->s] < 0;
	case K_OPENFAIL:
		return true;
	case K_FIN:
	case K_RESET:
	case K_REQ:
	case K_REQNOID:
	case K_GARBAGE:
	case K_BURST:
		return alive(a->s);
	case K_REQSYSFAIL:
		return alive(SB);
	case K_REFUSALS:
		return alive(a->s);
	case K_REPLY:
		if (!alive(a->s)) {
			return false;
		}
		for (int i = 0; i < clients[conn[a->s]].nmsgs; i++) {
			if (clients[conn[a->s]].msgs[i].cls == MC_ROUTED && !clients[conn[a->s]].msgs[i].consumed) {
				return true;
			}
		}
		return false;
	case K_CLOCK: {
		uint64_t d;
		return sim_next_deadline(&d);
	}
	case K_HTTP:
		return http_probe < 0;
	case K_HTTPFIN:
		return http_probe >= 0 && !sim_conn_client_gone(http_probe);
	}
	return false;
}

static bool defer_settle, with_passwd;
static void settle_point(void)
{
	if (!defer_settle) {
		jx_settle();
	}
}

static bool batchable(const struct act *a)
{
	return a->kind == K_FIN || a->kind == K_RESET || a->kind == K_REQ || a->kind == K_REQNOID || a->kind == K_REPLY || a->kind == K_CLOCK || a->kind == K_GARBAGE || a->kind == K_BURST || a->kind == K_REFUSALS || a->kind == K_HTTPFIN;
}

static int reverse_hook(struct sim_ready *list, int n, int maxevents)
{
	(void)maxevents;
	for (int i = 0; i < n / 2; i++) {
		struct sim_ready t = list[i];
		list[i] = list[n - 1 - i];
		list[n - 1 - i] = t;
	}
	return n;
}

static void sweep(void)
{
	for (int s = 0; s < NS; s++) {
		if (conn[s] >= 0 && sim_conn_closed_by_daemon(conn[s])) {
			conn[s] = -1;
		}
	}
}

static void apply(const struct act *a)
{
	switch (a->kind) {
	case K_OPEN:
		if (a->s == SB) {
			conn[a->s] = jx_open(CL_WS);
		} else if (a->s == SC) {
			conn[a->s] = jx_open_from(CL_RAW, ROLE_UDS, ORG_DEFAULT);
		} else {
			conn[a->s] = jx_open(CL_RAW);
		}
		break;
	case K_OPENFAIL: {
		sim_fail_next(a->text, EINVAL, -1);
		int c = cl_open(CL_RAW, ROLE_JET, ORG_DEFAULT);
		settle_point();
		(void)c; /* the daemon must have dropped it; it is not tracked as a slot */
		break;
	}
	case K_FIN:
		sim_client_fin(conn[a->s]);
		settle_point();
		conn[a->s] = -1;
		break;
	case K_RESET:
		sim_client_reset(conn[a->s], RST_EPOLL);
		settle_point();
		conn[a->s] = -1;
		break;
	case K_REQ: {
		/* with a credential file loaded only elements that declare access groups are usable by (authenticated) peers */
		const char *ins = with_passwd && strstr(a->text, "\"method\":\"add\"") ? strstr(a->text, "\"params\":{") : NULL;
		if (ins != NULL) {
			ins += strlen("\"params\":{");
			jx_sendf(conn[a->s], "{\"id\":%d,%.*s\"access\":{\"fetchGroups\":[\"g1\"],\"setGroups\":[\"g1\"],\"callGroups\":[\"g1\"]},%s}", ++nreq, (int)(ins - a->text), a->text, ins);
		} else {
			jx_sendf(conn[a->s], "{\"id\":%d,%s}", ++nreq, a->text);
		}
		settle_point();
		break;
	}
	case K_REQNOID:
		jx_sendf(conn[a->s], "{%s}", a->text);
		settle_point();
		break;
	case K_REFUSALS: {
		static const char *const HALF[] = {
		    "\"method\":\"fetch\",\"params\":{\"id\":\"h1\",\"path\":{\"containsAllOf\":[\"alpha\",\"beta\",7]}}",
		    "\"method\":\"fetch\",\"params\":{\"id\":\"h2\",\"path\":{\"startsWith\":\"s\",\"endsWith\":5}}",
		    "\"method\":\"fetch\",\"params\":{\"id\":\"h3\",\"path\":{\"equals\":\"sa\",\"containsAllOf\":[\"x\",null]}}",
		    "\"method\":\"fetch\",\"params\":{\"id\":\"h4\",\"path\":{\"contains\":\"a\",\"nosuchmatcher\":\"b\"}}",
		    "\"method\":\"get\",\"params\":{\"path\":{\"containsAllOf\":[\"alpha\",\"beta\",{}]}}",
		    "\"method\":\"get\",\"params\":{\"path\":{\"startsWith\":\"s\",\"equalsNot\":[1]}}",
		    "\"method\":\"add\",\"params\":{\"path\":\"half1\",\"value\":1,\"access\":{\"fetchGroups\":[\"g1\",5]}}",
		    "\"method\":\"add\",\"params\":{\"path\":\"half2\",\"value\":1,\"access\":{\"fetchGroups\":[\"g1\"],\"setGroups\":\"g1\"}}",
		    "\"method\":\"add\",\"params\":{\"path\":\"half3\",\"value\":1,\"timeout\":\"soon\"}",
		    "\"method\":\"add\",\"params\":{\"path\":\"half4\",\"value\":1,\"fetchOnly\":\"yes\"}",
		    "\"method\":\"set\",\"params\":{\"path\":\"sa\",\"value\":1,\"timeout\":\"soon\"}",
		    "\"method\":\"set\",\"params\":{\"path\":\"sa\",\"value\":1,\"timeout\":0.0000001}",
		    "\"method\":\"set\",\"params\":{\"path\":\"sa\"}",
		    "\"method\":\"call\",\"params\":{\"path\":\"mb\",\"args\":[1],\"timeout\":-1}",
		    "\"method\":\"change\",\"params\":{\"path\":\"sa\"}",
		    "\"method\":\"authenticate\",\"params\":{\"user\":\"u1\"}",
		    "\"method\":\"config\",\"params\":{\"name\":5}",
		};
		for (unsigned i = 0; i < sizeof(HALF) / sizeof(HALF[0]); i++) {
			jx_sendf(conn[a->s], "{\"id\":%d,%s}", ++nreq, HALF[i]);
			if ((i & 3) == 3) {
				jx_settle();
			}
		}
		settle_point();
		break;
	}
	case K_REQSYSFAIL: {
		const char *call = a->s == 0 ? "timerfd_create" : "timerfd_settime";
		sim_fail_next(call, a->s == 0 ? EMFILE : EINVAL, -1);
		jx_sendf(conn[SB], "{\"id\":%d,%s}", ++nreq, a->text);
		jx_settle();
		sim_fail_clear(call); /* the request was not routed (no such state): nothing failed */
		break;
	}
	case K_BURST:
		for (int i = 0; i < 3; i++) {
			jx_sendf(conn[a->s], "{\"id\":%d,\"method\":\"set\",\"params\":{\"path\":\"sa\",\"value\":%d}}", ++nreq, i);
		}
		settle_point();
		break;
	case K_GARBAGE: {
		struct bytebuf b = {0};
		cl_frame_for(conn[a->s], &b, a->text);
		sim_client_send(conn[a->s], b.p, b.len);
		bb_free(&b);
		settle_point();
		if (!defer_settle && sim_conn_closed_by_daemon(conn[a->s])) {
			conn[a->s] = -1;
		}
		break;
	}
	case K_REPLY:
		jx_reply_routed(conn[a->s], "\"result\":true");
		settle_point();
		break;
	case K_CLOCK: {
		uint64_t d;
		sim_next_deadline(&d);
		sim_advance(d - sim_now());
		settle_point();
		break;
	}
	case K_HTTP:
		http_probe = cl_open(CL_BYTES, ROLE_HTTP, ORG_DEFAULT);
		sim_client_send(http_probe, a->text, strlen(a->text));
		settle_point();
		break;
	case K_HTTPFIN:
		sim_client_fin(http_probe);
		settle_point();
		break;
	}
	if (!defer_settle) {
		sweep();
	}
}

static void finish(struct bytebuf *trail)
{
	int ending = xp_choose(2, XP_SCENARIO, "ending");
	xp_logf("## trail: %s ; ending=%s", trail->p ? (char *)trail->p : "(empty)", ending ? "SIGTERM at once" : "close all, then SIGTERM");
	if (ending == 0) {
		jx_close_all();
		if (http_probe >= 0 && !sim_conn_client_gone(http_probe)) {
			sim_client_fin(http_probe);
		}
		jx_settle();
		/* expire whatever is still armed: a timer that outlives all connections is itself a finding */
		if (sim_armed_timers() != 0) {
			xp_finding("idle:timer-still-armed", "all connections are gone but %d timer(s) are still armed", sim_armed_timers());
		}
		jx_check_idle_baseline("idle:");
	}
	jx_check_hygiene("hygiene:");
	jx_sigterm_and_check("exit:");
	jx_check_hygiene("hygiene:");
	jx_log_transcripts();
	xp_nontrivial();
}

static void run_histories(void)
{
	int depth = (int)xp_param("depth", 3);
	int nacts = (int)xp_param("actions", NACTS);
	if (nacts > NACTS) {
		nacts = NACTS;
	}
	struct sim_opts o = {0};
	o.local_only = xp_param("local_only", 0) != 0;
	char *pw = make_passwd_file();
	with_passwd = xp_param("passwd", 0) != 0;
	o.passwd_file = with_passwd ? pw : NULL;
	jx_boot(&o);
	struct bytebuf trail = {0};
	int seedstate = (int)xp_param("seedstate", 0);
	if (seedstate >= 1) {
		if (with_passwd) {
			static const char *const AUTH[] = {"open(A)", "open(B:ws)", "open(C:uds)", NULL};
			for (int k = 0; AUTH[k] != NULL; k++) {
				for (int i = 0; i < NACTS; i++) {
					if (strcmp(ACTS[i].name, AUTH[k]) == 0) {
						apply(&ACTS[i]);
					}
				}
			}
			for (int sl = 0; sl < NS; sl++) {
				jx_sendf(conn[sl], "{\"id\":%d,\"method\":\"authenticate\",\"params\":{\"user\":\"adm\",\"password\":\"secret-two\"}}", ++nreq);
			}
			jx_settle();
		}
		/* non-initial start state: three peers, a state and a method, one (seedstate 2: three) routed request(s) in flight */
		static const char *const SEED1[] = {"open(A)", "open(B:ws)", "open(C:uds)", "A:add(sa)", "B:add(mb)", "A:fetch", "C:set(sa)->routed", NULL};
		static const char *const SEED2[] = {"B:set(sa)->routed", "A:call(mb)->routed", NULL};
		for (int pass = 0; pass < seedstate && pass < 2; pass++) {
			const char *const *list = pass == 0 ? SEED1 : SEED2;
			for (int k = 0; list[k] != NULL; k++) {
				for (int i = 0; i < NACTS; i++) {
					if (strcmp(ACTS[i].name, list[k]) == 0 && enabled(&ACTS[i])) {
						apply(&ACTS[i]);
					}
				}
			}
		}
		if (sim_armed_timers() < 1) {
			xp_harness_error("seed state %d: no routed request is in flight", seedstate);
		}
		bb_printf(&trail, "[seed state %d]", seedstate);
	}
	for (int d = 0; d < depth; d++) {
		int en[NACTS + 1], n = 0;
		for (int i = 0; i < nacts; i++) {
			if (enabled(&ACTS[i])) {
				en[n++] = i;
			}
		}
		/* alternative n = stop here (so that every prefix is ended too) */
		int c = xp_choose(n + 1, XP_ACTION, "action");
		if (c == n) {
			break;
		}
		const struct act *a1 = &ACTS[en[c]];
		bb_printf(&trail, "%s%s", trail.len ? " ; " : "", a1->name);
		xp_logf("## step %d: %s", d + 1, a1->name);
		/* deviation: this action and the next one become ready together and are harvested by ONE epoll_wait (1: in this order, 2: reversed) */
		int ride = 0;
		if (batchable(a1) && d + 1 < depth) {
			ride = xp_choose(3, XP_DEV, "same-batch-with-next");
		}
		if (ride == 0) {
			apply(a1);
		} else {
			defer_settle = true;
			apply(a1);
			int en2[NACTS + 1], n2 = 0;
			for (int i = 0; i < nacts; i++) {
				if (batchable(&ACTS[i]) && enabled(&ACTS[i])) {
					en2[n2++] = i;
				}
			}
			if (n2 > 0) {
				int c2 = xp_choose(n2, XP_ACTION, "action-in-same-batch");
				const struct act *a2 = &ACTS[en2[c2]];
				bb_printf(&trail, " + %s%s", ride == 2 ? "(dispatched first) " : "", a2->name);
				xp_logf("## step %d (same batch%s): %s", d + 2, ride == 2 ? ", reversed" : "", a2->name);
				apply(a2);
				d++;
				xp_transition();
			}
			defer_settle = false;
			sim_batch_hook = ride == 2 ? reverse_hook : NULL;
			jx_settle();
			sim_batch_hook = NULL;
			sweep();
		}
		xp_transition();
		uint64_t h = hash64(trail.p, trail.len, 5);
		xp_state(h);
	}
	finish(&trail);
}

/* heap cap: fill the heap with states until the daemon refuses, then issue every request type once at the cap */
static void run_cap(void)
{
	struct sim_opts o = {0};
	jx_boot(&o);
	int a = jx_open(CL_RAW), b = jx_open(CL_WS);
	int valsize = (int)xp_param("valsize", 300);
	char *val = malloc((size_t)valsize + 1);
	memset(val, 'v', (size_t)valsize);
	val[valsize] = 0;
	int added = 0;
	bool refused = false;
	for (int i = 0; i < 4000 && !refused; i++) {
		int from = clients[a].nmsgs;
		jx_sendf(a, "{\"id\":%d,\"method\":\"add\",\"params\":{\"path\":\"p%d\",\"value\":\"%s\"}}", i, i, val);
		jx_settle();
		struct cl_msg *m = jx_find_response_num(a, i, from);
		if (sim_conn_closed_by_daemon(a)) {
			/* at the cap even parsing the request can fail, which costs the requester its connection: a form of refusal */
			refused = true;
			xp_count("refusal_by_dropping_requester", 1);
			a = jx_open(CL_RAW);
			break;
		}
		if (m == NULL) {
			/* the response itself could not be allocated: legal at the cap */
			refused = true;
		} else if (m->cls == MC_ERROR) {
			refused = true;
		} else {
			added++;
		}
	}
	xp_count("states_added_before_refusal", added);
	if (!refused) {
		xp_fail("cap:never-refused", "4000 states of %d bytes were accepted with a cap of %zu KiB", valsize, (size_t)CONFIG_MAX_HEAPSIZE_IN_KBYTE);
	}
	static const char *const AT_CAP[] = {
	    "\"method\":\"get\",\"params\":{}", "\"method\":\"fetch\",\"params\":{\"id\":\"f\"}", "\"method\":\"info\"", "\"method\":\"change\",\"params\":{\"path\":\"p0\",\"value\":1}",
	    "\"method\":\"set\",\"params\":{\"path\":\"p0\",\"value\":1}", "\"method\":\"remove\",\"params\":{\"path\":\"p1\"}", "\"method\":\"config\",\"params\":{\"name\":\"n\"}", "\"method\":\"unfetch\",\"params\":{\"id\":\"f\"}",
	};
	for (size_t i = 0; i < sizeof(AT_CAP) / sizeof(AT_CAP[0]); i++) {
		int c = (i & 1) ? b : a;
		if (!sim_conn_closed_by_daemon(c) && !sim_conn_client_gone(c)) {
			jx_sendf(c, "{\"id\":\"cap%zu\",%s}", i, AT_CAP[i]);
			jx_settle();
		}
	}
	if (sim_heap_accounted_peak() > (size_t)CONFIG_MAX_HEAPSIZE_IN_KBYTE * 1024) {
		xp_fail("cap:exceeded", "accounted heap peaked at %zu bytes, above the cap of %zu KiB", sim_heap_accounted_peak(), (size_t)CONFIG_MAX_HEAPSIZE_IN_KBYTE);
	}
	xp_count("accounted_peak_bytes", (long)sim_heap_accounted_peak());
	struct bytebuf t = {0};
	bb_printf(&t, "cap: %d states of %d bytes added, then refused", added, valsize);
	finish(&t);
	xp_transition();
	xp_state((uint64_t)added * 7919u + (uint64_t)valsize);
}

static void run(void)
{
	if (xp_param("section", 0) == 1) {
		run_cap();
	} else {
		run_histories();
	}
}

const struct driver drv_c07 = {
    .name = "c07",
    .property = "C07",
    .run = run,
    .rule = "every sequence (every prefix too) of enabled actions up to the depth bound over {open/fin/reset of a raw-tcp, a websocket and a unix-socket peer; add, fetch, routed set/call with and without id, routed set while timerfd_create / timerfd_settime fails, a volley of 17 requests that are refused half-way (bad later matcher, bad later group, bad timeout ...), replies, virtual-clock expiry, authenticate right/again/wrong, passwd, config, unknown method, garbage; HTTP front-door probes that fail the handshake at different stages; accept-path failures of fcntl/setsockopt/getsockname; a burst overflowing the tiny routing table}, each ended by {close all -> idle baseline -> SIGTERM, SIGTERM at once}; start states: nothing connected / three peers with elements, a fetch and 1 or 3 routed requests in flight; deviation (budget 1): two consecutive actions become ready together and are harvested by one epoll_wait, in either dispatch order; oracle: peers, accounted heap, raw heap blocks, descriptors and timers at baseline, clean exit, no descriptor-hygiene event, accounted heap never above the cap; every execution is non-trivial; states = distinct action trails",
    .assumptions = "descriptor numbers are never reused by the simulated kernel, so any use of a closed or never-issued number is observable|the raw-heap monitor counts malloc/calloc/realloc/free calls made by daemon objects (including the in-tree zlib and cJSON)",
};
