/* C01 - fetch gives every subscriber an exact, ordered replica of matching elements.
 * All action sequences up to a depth over owners P (raw), Q (websocket, also subscriber) and subscriber S (raw),
 * judged after every action by a reference model: replaying the notifications of every active fetch must yield exactly
 * the matching elements with their latest accepted values; no spurious/duplicate notification; adds for existing
 * matches precede the fetch response; nothing after the unfetch response.  A passive peer cross-checks with get. */
#define _GNU_SOURCE
#include <crypt.h>
#include <stdlib.h>
#include <string.h>

#include "common.h"
#include "generated/cjet_config.h"

enum { P = 0, Q, S, NSLOT };
static const char *const SLN[] = {"P", "Q", "S"};
static int conn[NSLOT];
static int seen[NSLOT];
static int G; /* passive observer */

#define NPATH 4
static const char *PATHS[NPATH] = {"a", "ab", "b", "m"}; /* index 3 is added as a method */

struct elem {
	bool exists;
	int owner;
	bool is_method;
	long value;
};
static struct elem model[NPATH];

enum rule { R_ALL = 0, R_STARTS_A, R_EQUALS_B, NRULE };
static const char *const RULE_JSON[] = {"", ",\"path\":{\"startsWith\":\"a\"}", ",\"path\":{\"equals\":\"b\"}"};

struct fetchst {
	bool active;
	bool ended;      /* unfetch response seen: nothing may follow */
	int rule;
	bool has[NPATH]; /* replica */
	long val[NPATH];
	int extra;       /* paths outside the universe reported (filler elements of a seeded state) */
};
static struct fetchst fe[NSLOT];
/* subscriber S may stop reading: once the daemon's write buffer for it is full (96 bytes in the tiny build) notifications for
 * it are refused; that harms only S - every other replica, every verdict's effect and the daemon's own view stay exact */
static bool stalled_s;
static long counter = 100;
static int reqid;
static const char *last_action = "";
static int nfillers;
static char fillers[8][16];

/* access-control mode (param acl=1): a credential file is loaded; S authenticates with fetch group g1, Q with g1+g2;
 * path 'a' is visible to g2 only, 'ab' and 'm' to g1, 'b' to both: "visible to that peer" becomes part of the replica rule */
static bool acl;
enum { GR1 = 1, GR2 = 2 };
static const unsigned PATH_GROUPS[NPATH] = {GR2, GR1, GR1 | GR2, GR1};
static const char *const PATH_ACCESS[NPATH] = {"[\"g2\"]", "[\"g1\"]", "[\"g1\",\"g2\"]", "[\"g1\"]"};
static const unsigned SLOT_GROUPS[NSLOT] = {0, GR1 | GR2, GR1};
static bool visible(int slot, int pi)
{
	return !acl || (PATH_GROUPS[pi] & SLOT_GROUPS[slot]) != 0;
}
static int open_slot(int s)
{
	int c = jx_open(((s == Q) != (xp_param("swap", 0) != 0)) ? CL_WS : CL_RAW); /* swap=1: P and S speak websocket, Q raw */
	if (acl && s != P) {
		jx_sendf(c, "{\"id\":\"au\",\"method\":\"authenticate\",\"params\":{\"user\":\"%s\",\"password\":\"pw\"}}", s == Q ? "both" : "one");
		jx_settle();
		if (!jx_is_success(jx_find_response_str(c, "au", 0))) {
			xp_harness_error("slot %d could not authenticate", s);
		}
	}
	return c;
}

static bool matches(int rule, const char *path)
{
	switch (rule) {
	case R_ALL:
		return true;
	case R_STARTS_A:
		return strncmp(path, "a", 1) == 0;
	case R_EQUALS_B:
		return strcmp(path, "b") == 0;
	}
	return false;
}

static void fail1(const char *key, const char *fmt, ...) __attribute__((noreturn, format(printf, 2, 3)));
static void fail1(const char *key, const char *fmt, ...)
{
	char m[1500];
	va_list ap;
	va_start(ap, fmt);
	vsnprintf(m, sizeof(m), fmt, ap);
	va_end(ap);
	jx_log_transcripts();
	xp_fail(key, "after '%s': %s", last_action, m);
}

static int path_index(const char *p)
{
	for (int i = 0; i < NPATH; i++) {
		if (strcmp(PATHS[i], p) == 0) {
			return i;
		}
	}
	return -1;
}

static bool is_filler(const char *p)
{
	for (int i = 0; i < nfillers; i++) {
		if (strcmp(fillers[i], p) == 0) {
			return true;
		}
	}
	return false;
}

/* process the messages of slot s; pending_* describe the request just sent on that slot (if any) */
struct pending {
	int slot;
	int id;
	int kind; /* 0 none, 1 fetch, 2 unfetch, 3 other */
	int expect_success; /* 1 yes, 0 no, 2 success or internal-error refusal */
	bool got;
	bool success;
	int errcode;
};

static void observe(struct pending *pd)
{
	for (int s = 0; s < NSLOT; s++) {
		if (conn[s] < 0) {
			continue;
		}
		struct client *c = &clients[conn[s]];
		for (; seen[s] < c->nmsgs; seen[s]++) {
			struct cl_msg *m = &c->msgs[seen[s]];
			if (m->cls == MC_NOTIFY) {
				const cJSON *method = cJSON_GetObjectItemCaseSensitive(m->json, "method");
				const cJSON *params = cJSON_GetObjectItemCaseSensitive(m->json, "params");
				const cJSON *ev = params ? cJSON_GetObjectItemCaseSensitive(params, "event") : NULL;
				const cJSON *pa = params ? cJSON_GetObjectItemCaseSensitive(params, "path") : NULL;
				const cJSON *va = params ? cJSON_GetObjectItemCaseSensitive(params, "value") : NULL;
				if (!cJSON_IsNumber(method) || method->valueint != 1 || !cJSON_IsString(ev) || !cJSON_IsString(pa)) {
					fail1("notification-malformed", "%s received a notification that does not belong to its fetch id 1: %s", SLN[s], m->text);
				}
				struct fetchst *f = &fe[s];
				if (!f->active) {
					char key[100];
					snprintf(key, sizeof(key), "notification-%s", f->ended ? "after-unfetch" : "without-fetch");
					fail1(key, "%s received %s although it has no active fetch%s", SLN[s], m->text, f->ended ? " (its unfetch was already answered)" : "");
				}
				int pi = path_index(pa->valuestring);
				if (pi < 0) {
					if (is_filler(pa->valuestring) && strcmp(ev->valuestring, "add") == 0 && f->rule == R_ALL) {
						f->extra++;
						continue;
					}
					fail1("notification-unknown-path", "%s was told about path '%s' which nobody added: %s", SLN[s], pa->valuestring, m->text);
				}
				if (strcmp(ev->valuestring, "add") == 0) {
					if (f->has[pi]) {
						fail1("notification-duplicate-add", "%s received a second add for '%s'", SLN[s], PATHS[pi]);
					}
					f->has[pi] = true;
					f->val[pi] = va ? (long)va->valuedouble : -1;
				} else if (strcmp(ev->valuestring, "change") == 0) {
					if (!f->has[pi]) {
						fail1("notification-change-unreported", "%s received change for '%s' which was never reported with add", SLN[s], PATHS[pi]);
					}
					f->val[pi] = va ? (long)va->valuedouble : -1;
				} else if (strcmp(ev->valuestring, "remove") == 0) {
					if (!f->has[pi]) {
						fail1("notification-remove-unreported", "%s received remove for '%s' which was never reported with add", SLN[s], PATHS[pi]);
					}
					f->has[pi] = false;
				} else {
					fail1("notification-unknown-event", "%s: %s", SLN[s], m->text);
				}
				if (!visible(s, pi)) {
					fail1("notification-not-visible", "%s received %s for '%s' which its authenticated user may not see", SLN[s], ev->valuestring, PATHS[pi]);
				}
				if (!matches(f->rule, PATHS[pi])) {
					fail1("notification-not-matching-rule", "%s received %s for '%s' which does not match its fetch rule", SLN[s], ev->valuestring, PATHS[pi]);
				}
			} else if (m->cls == MC_RESULT || m->cls == MC_ERROR) {
				const cJSON *id = msg_id(m);
				if (pd == NULL || pd->slot != s || !cJSON_IsNumber(id) || id->valueint != pd->id || pd->got) {
					fail1("response-unexpected", "%s received an unexpected response: %s", SLN[s], m->text);
				}
				pd->got = true;
				pd->success = m->cls == MC_RESULT;
				pd->errcode = jx_error_code(m);
				if (pd->kind == 1 && pd->success) {
					/* every add for an already existing match precedes the fetch's success response */
					struct fetchst *f = &fe[s];
					for (int i = 0; i < NPATH; i++) {
						bool want = model[i].exists && matches(f->rule, PATHS[i]) && visible(s, i);
						if (want && !f->has[i]) {
							fail1("fetch-response-before-adds", "%s: the fetch was answered before the add for existing match '%s' arrived", SLN[s], PATHS[i]);
						}
					}
				}
				if (pd->kind == 2 && pd->success) {
					fe[s].active = false;
					fe[s].ended = true;
				}
			} else {
				fail1("message-unexpected", "%s received %s", SLN[s], m->text);
			}
		}
	}
}

static void check_replicas(void)
{
	for (int s = 0; s < NSLOT; s++) {
		if (conn[s] < 0 || !fe[s].active || (s == S && stalled_s)) {
			continue;
		}
		for (int i = 0; i < NPATH; i++) {
			bool want = model[i].exists && matches(fe[s].rule, PATHS[i]) && visible(s, i);
			if (want && !fe[s].has[i]) {
				char key[120];
				snprintf(key, sizeof(key), "replica-misses-element:%s", last_action);
				fail1(key, "%s's replica lacks '%s' which exists and matches its fetch", SLN[s], PATHS[i]);
			}
			if (!want && fe[s].has[i]) {
				char key[120];
				snprintf(key, sizeof(key), "replica-has-stale-element:%s", last_action);
				fail1(key, "%s's replica still contains '%s' which %s", SLN[s], PATHS[i], !model[i].exists ? "does not exist" : !visible(s, i) ? "is not visible to it" : "does not match its fetch");
			}
			if (want && !model[i].is_method && fe[s].val[i] != model[i].value) {
				char key[120];
				snprintf(key, sizeof(key), "replica-value-stale:%s", last_action);
				fail1(key, "%s's replica has value %ld for '%s' but the last accepted value is %ld", SLN[s], fe[s].val[i], PATHS[i], model[i].value);
			}
		}
	}
}

static void check_get(void)
{
	int from = clients[G].nmsgs;
	jx_sendf(G, "{\"id\":\"g\",\"method\":\"get\",\"params\":{}}");
	jx_settle();
	struct cl_msg *g = jx_find_response_str(G, "g", from);
	if (g == NULL || g->cls != MC_RESULT) {
		fail1("get-failed", "the observer's get was not answered with a result");
	}
	const cJSON *arr = cJSON_GetObjectItemCaseSensitive(g->json, "result");
	bool seenp[NPATH] = {false};
	for (const cJSON *it = arr ? arr->child : NULL; it != NULL; it = it->next) {
		const cJSON *pa = cJSON_GetObjectItemCaseSensitive(it, "path");
		const cJSON *va = cJSON_GetObjectItemCaseSensitive(it, "value");
		int pi = cJSON_IsString(pa) ? path_index(pa->valuestring) : -1;
		if (pi < 0) {
			if (cJSON_IsString(pa) && is_filler(pa->valuestring)) {
				continue;
			}
			fail1("model-differs-from-get", "get lists an unknown element: %s", g->text);
		}
		if (!model[pi].exists || model[pi].is_method || seenp[pi] || !cJSON_IsNumber(va) || (long)va->valuedouble != model[pi].value) {
			fail1("model-differs-from-get", "the daemon's own view (get) disagrees with the reference model for '%s': %s", PATHS[pi], g->text);
		}
		seenp[pi] = true;
	}
	for (int i = 0; i < NPATH; i++) {
		if (model[i].exists && !model[i].is_method && !seenp[i]) {
			fail1("model-differs-from-get", "get does not list state '%s' which should exist: %s", PATHS[i], g->text);
		}
	}
}

/* ---- actions ---- */
enum akind { A_ADD, A_ADDM, A_REMOVE, A_CHANGE, A_FETCH, A_UNFETCH, A_DISC, A_CONN, A_STALL };
struct action {
	char name[40];
	int kind, slot, arg;
};
static struct action acts[64];
static int nacts;

static void build_actions(void)
{
	nacts = 0;
	for (int s = P; s <= Q; s++) {
		for (int p = 0; p < 3; p++) {
			snprintf(acts[nacts].name, sizeof(acts[0].name), "%s:add(%s)", SLN[s], PATHS[p]);
			acts[nacts++] = (struct action){.kind = A_ADD, .slot = s, .arg = p};
			snprintf(acts[nacts - 1].name, sizeof(acts[0].name), "%s:add(%s)", SLN[s], PATHS[p]);
		}
	}
	for (int s = Q; s <= S; s++) {
		for (int r = 0; r < NRULE; r++) {
			acts[nacts] = (struct action){.kind = A_FETCH, .slot = s, .arg = r};
			snprintf(acts[nacts++].name, sizeof(acts[0].name), "%s:fetch(%s)", SLN[s], r == 0 ? "all" : r == 1 ? "startsWith a" : "equals b");
		}
	}
	for (int s = P; s <= Q; s++) {
		for (int p = 0; p < 3; p++) {
			acts[nacts] = (struct action){.kind = A_CHANGE, .slot = s, .arg = p};
			snprintf(acts[nacts++].name, sizeof(acts[0].name), "%s:change(%s)", SLN[s], PATHS[p]);
		}
		for (int p = 0; p < NPATH; p++) {
			acts[nacts] = (struct action){.kind = A_REMOVE, .slot = s, .arg = p};
			snprintf(acts[nacts++].name, sizeof(acts[0].name), "%s:remove(%s)", SLN[s], PATHS[p]);
		}
		acts[nacts] = (struct action){.kind = A_ADDM, .slot = s, .arg = 3};
		snprintf(acts[nacts++].name, sizeof(acts[0].name), "%s:add-method(m)", SLN[s]);
	}
	for (int s = Q; s <= S; s++) {
		acts[nacts] = (struct action){.kind = A_UNFETCH, .slot = s};
		snprintf(acts[nacts++].name, sizeof(acts[0].name), "%s:unfetch", SLN[s]);
	}
	acts[nacts] = (struct action){.kind = A_STALL, .slot = S};
	snprintf(acts[nacts++].name, sizeof(acts[0].name), "S:stops-reading");
	for (int s = 0; s < NSLOT; s++) {
		acts[nacts] = (struct action){.kind = A_DISC, .slot = s};
		snprintf(acts[nacts++].name, sizeof(acts[0].name), "disconnect(%s)", SLN[s]);
		acts[nacts] = (struct action){.kind = A_CONN, .slot = s};
		snprintf(acts[nacts++].name, sizeof(acts[0].name), "connect(%s)", SLN[s]);
	}
}


static bool enabled(const struct action *a)
{
	if (a->kind == A_CONN) {
		return conn[a->slot] < 0;
	}
	if (a->kind == A_STALL) {
		return xp_param("stall", 0) != 0 && conn[S] >= 0 && !stalled_s;
	}
	if (a->slot == S && stalled_s && a->kind != A_DISC) {
		return false; /* its answers could not be observed */
	}
	return conn[a->slot] >= 0;
}

static void send_request(int slot, const char *text, int budget_split)
{
	(void)budget_split;
	struct bytebuf b = {0};
	cl_frame_for(conn[slot], &b, text);
	if (xp_verbose()) {
		xp_logf("> [%s c%d] %s", SLN[slot], conn[slot], text);
	}
	/* segmentation deviation: 0 one chunk; 1 split at the midpoint, both chunks queued; 2 split with a would-block in between */
	int dev = xp_choose(3, XP_DEV, "split");
	if (dev == 0) {
		sim_client_send(conn[slot], b.p, b.len);
	} else {
		size_t h = b.len / 2;
		sim_client_send(conn[slot], b.p, h);
		if (dev == 2) {
			jx_settle();
		}
		sim_client_send(conn[slot], b.p + h, b.len - h);
	}
	bb_free(&b);
}

static void apply(const struct action *a)
{
	last_action = a->name;
	struct pending pd = {.slot = a->slot, .id = ++reqid, .kind = 3, .expect_success = 0};
	char req[400];
	int s = a->slot;
	switch (a->kind) {
	case A_ADD:
	case A_ADDM: {
		int p = a->arg;
		long v = ++counter;
		char access[80] = "";
		if (acl) {
			snprintf(access, sizeof(access), ",\"access\":{\"fetchGroups\":%s}", PATH_ACCESS[p]);
		}
		if (a->kind == A_ADDM) {
			snprintf(req, sizeof(req), "{\"id\":%d,\"method\":\"add\",\"params\":{\"path\":\"%s\"%s}}", pd.id, PATHS[p], access);
		} else {
			snprintf(req, sizeof(req), "{\"id\":%d,\"method\":\"add\",\"params\":{\"path\":\"%s\",\"value\":%ld%s}}", pd.id, PATHS[p], v, access);
		}
		pd.expect_success = model[p].exists ? 0 : 2;
		send_request(s, req, 1);
		jx_settle();
		observe(&pd);
		if (!pd.got) {
			fail1("request-unanswered", "no response");
		}
		if (!model[p].exists) {
			if (pd.success) {
				model[p] = (struct elem){.exists = true, .owner = s, .is_method = a->kind == A_ADDM, .value = v};
			} else if (pd.errcode == -32603) {
				xp_count("add_refused_by_limit", 1); /* configured resource limit: legal, model unchanged */
			} else {
				fail1("add-refused-for-free-path", "add of free path '%s' answered with error %d", PATHS[p], pd.errcode);
			}
		} else if (pd.success) {
			fail1("add-accepted-for-existing-path", "add of existing path '%s' succeeded", PATHS[p]);
		}
		break;
	}
	case A_REMOVE: {
		int p = a->arg;
		snprintf(req, sizeof(req), "{\"id\":%d,\"method\":\"remove\",\"params\":{\"path\":\"%s\"}}", pd.id, PATHS[p]);
		bool ok = model[p].exists && model[p].owner == s;
		send_request(s, req, 1);
		jx_settle();
		observe(&pd);
		if (!pd.got || pd.success != ok) {
			fail1("remove-wrong-verdict", "remove('%s') by %s should %s but %s", PATHS[p], SLN[s], ok ? "succeed" : "fail", pd.got ? (pd.success ? "succeeded" : "failed") : "was not answered");
		}
		if (ok) {
			model[p].exists = false;
		}
		break;
	}
	case A_CHANGE: {
		int p = a->arg;
		long v = ++counter;
		snprintf(req, sizeof(req), "{\"id\":%d,\"method\":\"change\",\"params\":{\"path\":\"%s\",\"value\":%ld}}", pd.id, PATHS[p], v);
		bool ok = model[p].exists && model[p].owner == s && !model[p].is_method;
		send_request(s, req, 1);
		jx_settle();
		observe(&pd);
		bool delivery_error = ok && pd.got && !pd.success && pd.errcode == -32603 && stalled_s; /* "could not notify": the change took effect, one subscriber could not be told */
		if (!pd.got || (pd.success != ok && !delivery_error)) {
			fail1("change-wrong-verdict", "change('%s') by %s should %s but %s", PATHS[p], SLN[s], ok ? "succeed" : "fail", pd.got ? (pd.success ? "succeeded" : "failed") : "was not answered");
		}
		if (delivery_error) {
			xp_count("changes_answered_with_delivery_error", 1);
		}
		if (ok) {
			model[p].value = v;
		}
		break;
	}
	case A_FETCH: {
		snprintf(req, sizeof(req), "{\"id\":%d,\"method\":\"fetch\",\"params\":{\"id\":1%s}}", pd.id, RULE_JSON[a->arg]);
		bool ok = !fe[s].active;
		pd.kind = 1;
		if (ok) {
			memset(&fe[s], 0, sizeof(fe[s]));
			fe[s].active = true;
			fe[s].rule = a->arg;
		}
		send_request(s, req, 1);
		jx_settle();
		observe(&pd);
		if (!pd.got || pd.success != ok) {
			fail1("fetch-wrong-verdict", "fetch by %s should %s but %s", SLN[s], ok ? "succeed" : "fail (id in use)", pd.got ? (pd.success ? "succeeded" : "failed") : "was not answered");
		}
		break;
	}
	case A_UNFETCH: {
		snprintf(req, sizeof(req), "{\"id\":%d,\"method\":\"unfetch\",\"params\":{\"id\":1}}", pd.id);
		bool ok = fe[s].active;
		pd.kind = 2;
		send_request(s, req, 1);
		jx_settle();
		observe(&pd);
		if (!pd.got || pd.success != ok) {
			fail1("unfetch-wrong-verdict", "unfetch by %s should %s but %s", SLN[s], ok ? "succeed" : "fail", pd.got ? (pd.success ? "succeeded" : "failed") : "was not answered");
		}
		break;
	}
	case A_STALL:
		sim_set_window(conn[S], 0);
		stalled_s = true;
		break;
	case A_DISC:
		sim_client_fin(conn[s]);
		jx_settle();
		conn[s] = -1;
		if (s == S) {
			stalled_s = false;
		}
		memset(&fe[s], 0, sizeof(fe[s]));
		for (int p = 0; p < NPATH; p++) {
			if (model[p].exists && model[p].owner == s) {
				model[p].exists = false;
			}
		}
		observe(NULL);
		break;
	case A_CONN:
		conn[s] = open_slot(s);
		seen[s] = clients[conn[s]].nmsgs; /* the answer to the authenticate of the access-control mode is not part of the protocol under test */
		memset(&fe[s], 0, sizeof(fe[s]));
		observe(NULL);
		break;
	}
	/* the other connections may have received notifications too */
	observe(NULL);
	for (int k = 0; k < NSLOT; k++) {
		if (conn[k] >= 0 && sim_conn_closed_by_daemon(conn[k])) {
			fail1("peer-dropped", "the daemon closed %s's connection", SLN[k]);
		}
	}
	check_replicas();
	check_get();
}

static uint32_t path_bucket(const char *key, unsigned order)
{
	/* replica of hashtable.h's string hash (sdbm + hs_hash32); only used to pick colliding filler paths */
	uint32_t hash = 0;
	for (const char *p = key; *p; p++) {
		uint32_t c = (uint32_t)(int)*p;
		hash = ((c + (hash << 6U)) + (hash << 16U)) - hash;
	}
	uint32_t k = hash;
	k = (k ^ 61) ^ (k >> 16);
	k = k + (k << 3);
	k = k ^ (k >> 4);
	k = k * 0x27d4eb2d;
	k = k ^ (k >> 15);
	return k >> (32 - order);
}

static uint64_t model_hash(int remaining)
{
	uint64_t h = (uint64_t)remaining + 17;
	for (int s = 0; s < NSLOT; s++) {
		h = hash_mix(h, (uint64_t)(conn[s] >= 0) + 2 * (uint64_t)fe[s].active + 4 * (uint64_t)fe[s].rule + 16 * (uint64_t)fe[s].ended + 32 * (uint64_t)(s == S && stalled_s));
	}
	/* values only matter through equality with replicas, which the oracle has just established: rank them */
	for (int i = 0; i < NPATH; i++) {
		int rank = 0;
		for (int j = 0; j < NPATH; j++) {
			if (model[j].exists && model[j].value < model[i].value) {
				rank++;
			}
		}
		h = hash_mix(h, model[i].exists ? (uint64_t)(1 + model[i].owner + 4 * model[i].is_method + 8 * rank) : 0);
	}
	return h;
}

static void run(void)
{
	int depth = (int)xp_param("depth", 3);
	int seedstate = (int)xp_param("seedstate", 0);
	if (xp_param("collide", 0)) {
		/* colliding universe: two paths starting with 'a' and the method path that share the home bucket of "b" in the path index (the
		 * rules 'startsWith a' and 'equals b' keep their meaning); removals then happen among displaced entries */
		static char c0[16], c1[16], c3[16];
		unsigned order = CONFIG_ELEMENT_TABLE_ORDER;
		uint32_t home = path_bucket("b", order);
		int found = 0;
		for (int n = 0; n < 4000000 && found < 2; n++) {
			char cand[16];
			snprintf(cand, sizeof(cand), "a%d", n);
			if (path_bucket(cand, order) == home) {
				strcpy(found == 0 ? c0 : c1, cand);
				found++;
			}
		}
		for (int n = 0; n < 4000000; n++) {
			snprintf(c3, sizeof(c3), "m%d", n);
			if (path_bucket(c3, order) == home) {
				break;
			}
		}
		PATHS[0] = c0;
		PATHS[1] = c1;
		PATHS[3] = c3;
	}
	build_actions();
	struct sim_opts o = {0};
	acl = xp_param("acl", 0) != 0;
	static char pwfile[900];
	if (acl) {
		const char *h = crypt("pw", "$1$abcdefgh$");
		snprintf(pwfile, sizeof(pwfile),
		         "{\"users\":{\"one\":{\"password\":\"%s\",\"auth\":{\"fetchGroups\":[\"g1\"],\"setGroups\":[],\"callGroups\":[]}},"
		         "\"both\":{\"password\":\"%s\",\"auth\":{\"fetchGroups\":[\"g1\",\"g2\"],\"setGroups\":[],\"callGroups\":[]}}}}",
		         h, h);
		o.passwd_file = pwfile;
	}
	jx_boot(&o);
	G = jx_open(CL_RAW);
	if (acl) {
		jx_sendf(G, "{\"id\":\"au\",\"method\":\"authenticate\",\"params\":{\"user\":\"both\",\"password\":\"pw\"}}");
		jx_settle();
	}
	for (int s = 0; s < NSLOT; s++) {
		conn[s] = open_slot(s);
		seen[s] = clients[conn[s]].nmsgs;
	}
	last_action = "seed";
	/* a crowd of passive fetch-all subscribers that arrived first: the per-element subscriber tables have grown (more than once, if
	 * the crowd is big enough) before the modelled subscribers take their places behind them */
	for (int i = 0; i < (int)xp_param("crowd", 0); i++) {
		int c = jx_open((i & 1) ? CL_WS : CL_RAW);
		if (acl) {
			jx_sendf(c, "{\"id\":\"au\",\"method\":\"authenticate\",\"params\":{\"user\":\"both\",\"password\":\"pw\"}}");
		}
		jx_sendf(c, "{\"id\":\"cf\",\"method\":\"fetch\",\"params\":{\"id\":\"crowd%d\"}}", i);
		jx_settle();
	}
	if (seedstate == 1) {
		/* two elements and a fetch-all */
		apply(&acts[0]);           /* P:add(a) */
		apply(&acts[4]);           /* Q:add(ab) */
		for (int i = 0; i < nacts; i++) {
			if (acts[i].kind == A_FETCH && acts[i].slot == S && acts[i].arg == R_ALL) {
				apply(&acts[i]);
			}
		}
	} else if (seedstate == 4 || seedstate == 5) {
		/* two elements and TWO subscribers in the same subscriber tables (4: S subscribed first, 5: Q first) */
		apply(&acts[0]); /* P:add(a) */
		apply(&acts[4]); /* Q:add(ab) */
		for (int round = 0; round < 2; round++) {
			int who = (seedstate == 4) == (round == 0) ? S : Q;
			for (int i = 0; i < nacts; i++) {
				if (acts[i].kind == A_FETCH && acts[i].slot == who && acts[i].arg == R_ALL) {
					apply(&acts[i]);
				}
			}
		}
	} else if (seedstate == 6) {
		/* one owner holds 'a' (in access-control mode invisible to S) and then 'ab' (visible): nobody has subscribed yet */
		apply(&acts[0]); /* P:add(a) */
		apply(&acts[1]); /* P:add(ab) */
	} else if (seedstate == 7) {
		/* two elements, two subscribers, and S has stopped reading */
		apply(&acts[0]); /* P:add(a) */
		apply(&acts[4]); /* Q:add(ab) */
		for (int who = S; who >= Q; who--) {
			for (int i = 0; i < nacts; i++) {
				if (acts[i].kind == A_FETCH && acts[i].slot == who && acts[i].arg == R_ALL) {
					apply(&acts[i]);
				}
			}
		}
		for (int i = 0; i < nacts; i++) {
			if (acts[i].kind == A_STALL) {
				apply(&acts[i]);
			}
		}
	} else if (seedstate == 2) {
		/* a method and a rule fetch */
		for (int i = 0; i < nacts; i++) {
			if ((acts[i].kind == A_ADDM && acts[i].slot == P) || (acts[i].kind == A_FETCH && acts[i].slot == Q && acts[i].arg == R_STARTS_A)) {
				apply(&acts[i]);
			}
		}
	} else if (seedstate == 3) {
		/* a nearly full neighbourhood of the path index: filler elements (owned by the observer) that share the home bucket of "a" */
		unsigned order = CONFIG_ELEMENT_TABLE_ORDER;
		uint32_t home = path_bucket("a", order);
		int want = (1 << (order - 1)) - 1;
		if (want > 6) {
			want = 6;
		}
		char cand[16];
		for (int n = 0; n < 200000 && nfillers < want; n++) {
			snprintf(cand, sizeof(cand), "f%d", n);
			if (path_bucket(cand, order) == home) {
				snprintf(fillers[nfillers++], sizeof(fillers[0]), "%s", cand);
				jx_sendf(G, "{\"id\":\"fill%d\",\"method\":\"add\",\"params\":{\"path\":\"%s\",\"value\":0}}", n, cand);
				jx_settle();
			}
		}
		/* S subscribes to everything */
		for (int i = 0; i < nacts; i++) {
			if (acts[i].kind == A_FETCH && acts[i].slot == S && acts[i].arg == R_ALL) {
				apply(&acts[i]);
			}
		}
	}
	struct bytebuf trail = {0};
	for (int d = 0; d < depth; d++) {
		int en[64], n = 0;
		for (int i = 0; i < nacts; i++) {
			if (enabled(&acts[i])) {
				en[n++] = i;
			}
		}
		int c = xp_choose(n, XP_ACTION, "action");
		bb_printf(&trail, "%s%s", d ? " ; " : "", acts[en[c]].name);
		xp_logf("## step %d: %s", d + 1, acts[en[c]].name);
		apply(&acts[en[c]]);
		xp_transition();
		if (xp_state(model_hash(depth - d - 1))) {
			xp_logf("## (model state already explored with at least this depth remaining)");
			return;
		}
	}
	xp_nontrivial();
	xp_logf("## trail: %s", trail.p ? (char *)trail.p : "");
	jx_log_transcripts();
	for (int s = 0; s < NSLOT; s++) {
		if (conn[s] >= 0) {
			xp_outcome(cl_transcript_hash(conn[s]));
		}
	}
}

const struct driver drv_c01 = {
    .name = "c01",
    .property = "C01",
    .run = run,
    .rule = "every sequence of actions up to the depth bound over 36 actions {add state a/ab/b and method m, remove, change by two owners (raw, websocket); fetch id 1 with rule none / startsWith a / equals b and unfetch by two subscribers; disconnect and connect of the three slots}, with and without access control (credential file: subscriber S sees fetch group g1 only, Q sees g1+g2; path a is visible to g2 only), from 6 start states (empty; two elements + fetch-all; two elements + two fetch-all subscribers in either subscription order; method + rule fetch; path-index neighbourhood filled with colliding filler paths so that insertion is refused in the tiny variant); deviation: the request frame split at its midpoint with / without a would-block; oracle after every action: per-fetch replica == reference set with latest accepted values, notification discipline, adds before the fetch response, silence after unfetch, get == model; non-trivial = executions that ran to full depth",
    .assumptions = "values are integers from a running counter|a refusal with the internal-error code is accepted for an add of a free path (configured limit) and must leave every replica unchanged",
};
