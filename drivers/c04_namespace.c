/* C04 - element namespace: unique paths, owner-only mutation, state/method typing.
 * All action sequences up to a depth by two peers (raw, websocket) over a 3-path universe drawn from adversarial
 * paths (empty, case twins, 400 bytes, non-ASCII, hash-colliding), compared after every step with a reference map
 * through three views: the responses, `get` from an observer, and the observer's permanent fetch-all replica. */
#include <stdlib.h>
#include <string.h>

#include "common.h"
#include "generated/cjet_config.h"

enum { A = 0, B, NPEER };
static const char *const PN[] = {"A", "B"};
static int conn[NPEER];
static int O; /* observer: get + fetch-all */
static int seenO;

#define NP 3
static char paths[NP][420];
static char pathlabel[NP][24];

struct el {
	bool exists;
	int owner;
	bool is_method;
	bool fetch_only;
	char value[32];
};
static struct el model[NP];
struct rep {
	bool has;
	bool is_method;
	char value[32];
};
static struct rep replica[NP];
/* Canonicalisation for the merged search: for colliding paths the slot an element occupies in the path index depends on
 * how many colliding elements were alive when it was inserted, and that layout decides the future (displacement, hop
 * bitmap updates on remove).  It is therefore part of the merged state although the reference map does not contain it. */
static int slot_hint[NP];
static bool colliding_universe;

static char fillernames[8][16];
static int nfill;
static bool is_filler(const char *p)
{
	for (int i = 0; i < nfill; i++) {
		if (strcmp(fillernames[i], p) == 0) {
			return true;
		}
	}
	return false;
}

static const char *const VALUES_FAR[] = {"1", "\"v\"", "[]", "{\"a\":null}", "2.5", "true"};
/* nearvals=1: consecutive values differ only in the letter case of a member name, in nesting, or in the kind of an
 * empty container - any shortcut "the value did not really change" shows as a stale value */
static const char *const VALUES_NEAR[] = {"{\"k\":1}", "{\"K\":1}", "[{\"K\":1}]", "[{\"k\":1}]", "{\"k\":[]}", "{\"k\":{}}"};
static const char *const *VALUES = VALUES_FAR;
static int stepno;
static int reqid;
static const char *last_action = "";

static void fail4(const char *key, const char *fmt, ...) __attribute__((noreturn, format(printf, 2, 3)));
static void fail4(const char *key, const char *fmt, ...)
{
	char m[1500];
	va_list ap;
	va_start(ap, fmt);
	vsnprintf(m, sizeof(m), fmt, ap);
	va_end(ap);
	jx_log_transcripts();
	xp_fail(key, "after '%s': %s", last_action, m);
}

static int pidx(const char *p)
{
	for (int i = 0; i < NP; i++) {
		if (strcmp(paths[i], p) == 0) {
			return i;
		}
	}
	return -1;
}

static char *jsonstr(const char *s)
{
	cJSON *j = cJSON_CreateString(s);
	char *t = cJSON_PrintUnformatted(j);
	cJSON_Delete(j);
	return t;
}

static void observe_replica(void)
{
	struct client *c = &clients[O];
	for (; seenO < c->nmsgs; seenO++) {
		struct cl_msg *m = &c->msgs[seenO];
		if (m->cls != MC_NOTIFY) {
			continue;
		}
		const cJSON *params = cJSON_GetObjectItemCaseSensitive(m->json, "params");
		const cJSON *ev = params ? cJSON_GetObjectItemCaseSensitive(params, "event") : NULL;
		const cJSON *pa = params ? cJSON_GetObjectItemCaseSensitive(params, "path") : NULL;
		const cJSON *va = params ? cJSON_GetObjectItemCaseSensitive(params, "value") : NULL;
		if (!cJSON_IsString(ev) || !cJSON_IsString(pa)) {
			fail4("observer-notification-malformed", "%s", m->text);
		}
		int i = pidx(pa->valuestring);
		if (i < 0) {
			fail4("image-unknown-path", "the observer was told about a path nobody added: %.200s", m->text);
		}
		if (strcmp(ev->valuestring, "add") == 0) {
			if (replica[i].has) {
				fail4("image-path-added-twice", "path %s reported twice: a path must name at most one element", pathlabel[i]);
			}
			replica[i].has = true;
			replica[i].is_method = va == NULL;
		} else if (strcmp(ev->valuestring, "remove") == 0) {
			if (!replica[i].has) {
				fail4("image-remove-unknown", "remove for %s which the observer never saw", pathlabel[i]);
			}
			replica[i].has = false;
			continue;
		} else if (!replica[i].has) {
			fail4("image-change-unknown", "change for %s which the observer never saw", pathlabel[i]);
		}
		if (va != NULL) {
			char *t = cJSON_PrintUnformatted(va);
			snprintf(replica[i].value, sizeof(replica[i].value), "%s", t);
			free(t);
		}
	}
}

static void check_image(void)
{
	observe_replica();
	for (int i = 0; i < NP; i++) {
		if (model[i].exists != replica[i].has) {
			char key[120];
			snprintf(key, sizeof(key), "image-differs:%s", last_action);
			fail4(key, "element set differs from the reference map: %s %s but the observer's fetch-all replica says %s", pathlabel[i], model[i].exists ? "should exist" : "should not exist", replica[i].has ? "it exists" : "it does not");
		}
		if (model[i].exists) {
			if (model[i].is_method != replica[i].is_method) {
				fail4("image-type-differs", "%s should be a %s", pathlabel[i], model[i].is_method ? "method" : "state");
			}
			if (!model[i].is_method) {
				cJSON *a = cJSON_Parse(model[i].value), *b = cJSON_Parse(replica[i].value);
				bool eq = json_equal(a, b);
				cJSON_Delete(a);
				cJSON_Delete(b);
				if (!eq) {
					char key[120];
					snprintf(key, sizeof(key), "image-value-differs:%s", last_action);
					fail4(key, "%s should have value %s but the replica has %s", pathlabel[i], model[i].value, replica[i].value);
				}
			}
		}
	}
	/* the daemon's own view through get (states only) */
	int from = clients[O].nmsgs;
	jx_sendf(O, "{\"id\":\"g\",\"method\":\"get\",\"params\":{}}");
	jx_settle();
	struct cl_msg *g = jx_find_response_str(O, "g", from);
	if (g == NULL || g->cls != MC_RESULT) {
		fail4("get-failed", "get was not answered with a result");
	}
	const cJSON *arr = cJSON_GetObjectItemCaseSensitive(g->json, "result");
	bool seen[NP] = {false};
	for (const cJSON *it = arr ? arr->child : NULL; it != NULL; it = it->next) {
		const cJSON *pa = cJSON_GetObjectItemCaseSensitive(it, "path");
		const cJSON *va = cJSON_GetObjectItemCaseSensitive(it, "value");
		int i = cJSON_IsString(pa) ? pidx(pa->valuestring) : -1;
		if (i < 0 && cJSON_IsString(pa) && is_filler(pa->valuestring)) {
			continue;
		}
		if (i < 0 || seen[i] || !model[i].exists || model[i].is_method) {
			fail4("get-differs", "get lists an element the reference map does not have (or lists it twice): %.300s", g->text);
		}
		seen[i] = true;
		cJSON *want = cJSON_Parse(model[i].value);
		bool eq = json_equal(want, va);
		cJSON_Delete(want);
		if (!eq) {
			fail4("get-value-differs", "get reports a different value for %s than the last accepted one (%s): %.300s", pathlabel[i], model[i].value, g->text);
		}
	}
	for (int i = 0; i < NP; i++) {
		if (model[i].exists && !model[i].is_method && !seen[i]) {
			fail4("get-differs", "get does not list state %s", pathlabel[i]);
		}
	}
	seenO = clients[O].nmsgs;
}

enum op { OP_ADD_STATE = 0, OP_ADD_METHOD, OP_ADD_FETCHONLY, OP_REMOVE, OP_CHANGE, OP_SET, OP_CALL, OP_LEAVE, NOP };
static const char *const OPN[] = {"add-state", "add-method", "add-fetchonly-state", "remove", "change", "set", "call", "leaves-and-reconnects"};
static const enum cl_kind PKIND[NPEER] = {CL_RAW, CL_WS};

static int count_routed_new(int cid, int from)
{
	int n = 0;
	for (int i = from; i < clients[cid].nmsgs; i++) {
		if (clients[cid].msgs[i].cls == MC_ROUTED) {
			n++;
		}
	}
	return n;
}

static void note_slot_hint(int pi)
{
	int n = 0;
	if (colliding_universe) {
		for (int i = 0; i < NP; i++) {
			if (i != pi && model[i].exists) {
				n++;
			}
		}
	}
	slot_hint[pi] = n;
}

static void apply(int peer, int op, int pi)
{
	static char namebuf[80];
	snprintf(namebuf, sizeof(namebuf), "%s:%s(%s)", PN[peer], OPN[op], pathlabel[pi]);
	last_action = namebuf;
	if (op == OP_LEAVE) {
		/* the peer's connection ends: every path it owned is free again, whoever asks for it next; then it comes back as a new peer */
		sim_client_fin(conn[peer]);
		jx_settle();
		if (!sim_conn_closed_by_daemon(conn[peer])) {
			fail4("departed-peer-not-released", "%s closed its connection and the daemon did not release it", PN[peer]);
		}
		for (int i = 0; i < NP; i++) {
			if (model[i].exists && model[i].owner == peer) {
				model[i].exists = false;
			}
		}
		conn[peer] = jx_open(PKIND[peer]);
		stepno++;
		check_image();
		return;
	}
	const char *val = VALUES[stepno++ % 6];
	char *pj = jsonstr(paths[pi]);
	int id = ++reqid;
	int from[NPEER] = {clients[conn[A]].nmsgs, clients[conn[B]].nmsgs};
	struct el *e = &model[pi];
	bool expect_ok = false, routed = false;
	struct bytebuf rq = {0};
	switch (op) {
	case OP_ADD_STATE:
		bb_printf(&rq, "{\"id\":%d,\"method\":\"add\",\"params\":{\"path\":%s,\"value\":%s}}", id, pj, val);
		expect_ok = !e->exists;
		break;
	case OP_ADD_METHOD:
		bb_printf(&rq, "{\"id\":%d,\"method\":\"add\",\"params\":{\"path\":%s}}", id, pj);
		expect_ok = !e->exists;
		break;
	case OP_ADD_FETCHONLY:
		bb_printf(&rq, "{\"id\":%d,\"method\":\"add\",\"params\":{\"path\":%s,\"value\":%s,\"fetchOnly\":true}}", id, pj, val);
		expect_ok = !e->exists;
		break;
	case OP_REMOVE:
		bb_printf(&rq, "{\"id\":%d,\"method\":\"remove\",\"params\":{\"path\":%s}}", id, pj);
		expect_ok = e->exists && e->owner == peer;
		break;
	case OP_CHANGE:
		bb_printf(&rq, "{\"id\":%d,\"method\":\"change\",\"params\":{\"path\":%s,\"value\":%s}}", id, pj, val);
		expect_ok = e->exists && e->owner == peer && !e->is_method;
		break;
	case OP_SET:
		bb_printf(&rq, "{\"id\":%d,\"method\":\"set\",\"params\":{\"path\":%s,\"value\":%s}}", id, pj, val);
		expect_ok = e->exists && !e->is_method && !e->fetch_only;
		routed = true;
		break;
	case OP_CALL:
		bb_printf(&rq, "{\"id\":%d,\"method\":\"call\",\"params\":{\"path\":%s,\"args\":[%s]}}", id, pj, val);
		expect_ok = e->exists && e->is_method;
		routed = true;
		break;
	}
	free(pj);
	jx_sendf(conn[peer], "%s", (char *)rq.p);
	bb_free(&rq);
	jx_settle();
	if (routed) {
		int owner = e->exists ? e->owner : -1;
		int nrouted = 0;
		for (int k = 0; k < NPEER; k++) {
			int n = count_routed_new(conn[k], from[k]);
			if (n > 0 && k != owner) {
				fail4("routed-to-non-owner", "%s received a routed request for %s which it does not own", PN[k], pathlabel[pi]);
			}
			nrouted += n;
		}
		if (expect_ok && nrouted != 1) {
			struct cl_msg *r = jx_find_response_num(conn[peer], id, from[peer]);
			if (r != NULL && jx_error_code(r) == -32603) {
				xp_count("routing_refused_by_limit", 1);
				expect_ok = false;
				routed = false;
			} else {
				char key[100];
				snprintf(key, sizeof(key), "%s-not-accepted", OPN[op]);
				fail4(key, "%s on %s must be accepted for routing (delivered to its owner once) but %d routed message(s) arrived", OPN[op], pathlabel[pi], nrouted);
			}
		}
		if (!expect_ok && nrouted != 0) {
			char key[100];
			snprintf(key, sizeof(key), "%s-accepted-but-must-be-refused", OPN[op]);
			fail4(key, "%s on %s must be refused (%s) but was routed", OPN[op], pathlabel[pi], !e->exists ? "unknown path" : e->fetch_only ? "fetch-only state" : "wrong element type");
		}
		if (expect_ok) {
			jx_reply_routed(conn[owner], "\"result\":true");
			jx_settle();
		}
	}
	struct cl_msg *r = jx_find_response_num(conn[peer], id, from[peer]);
	if (r == NULL) {
		fail4("request-unanswered", "no response");
	}
	bool ok = r->cls == MC_RESULT;
	if (ok != expect_ok) {
		bool is_add = op <= OP_ADD_FETCHONLY;
		if (is_add && !ok && expect_ok && jx_error_code(r) == -32603) {
			xp_count("add_refused_by_limit", 1); /* configured resource limit */
			expect_ok = false;
		} else {
			char key[100];
			snprintf(key, sizeof(key), "%s-%s", OPN[op], ok ? "accepted-but-must-be-refused" : "refused-but-must-be-accepted");
			fail4(key, "%s by %s on %s (%s) was answered with %s: %.200s", OPN[op], PN[peer], pathlabel[pi], e->exists ? (e->is_method ? "a method" : e->fetch_only ? "a fetch-only state" : "a state") : "free path", ok ? "success" : "an error", r->text);
		}
	}
	/* reference map update */
	if (expect_ok) {
		switch (op) {
		case OP_ADD_STATE:
		case OP_ADD_FETCHONLY:
			*e = (struct el){.exists = true, .owner = peer, .is_method = false, .fetch_only = op == OP_ADD_FETCHONLY};
			note_slot_hint(pi);
			snprintf(e->value, sizeof(e->value), "%s", val);
			break;
		case OP_ADD_METHOD:
			*e = (struct el){.exists = true, .owner = peer, .is_method = true};
			note_slot_hint(pi);
			break;
		case OP_REMOVE:
			e->exists = false;
			break;
		case OP_CHANGE:
			snprintf(e->value, sizeof(e->value), "%s", val);
			break;
		default:
			break;
		}
	}
	for (int k = 0; k < NPEER; k++) {
		if (sim_conn_closed_by_daemon(conn[k])) {
			fail4("peer-dropped", "the daemon closed %s's connection", PN[k]);
		}
	}
	check_image();
}

static uint32_t path_bucket(const char *key, unsigned order)
{
	uint32_t hash = 0;
	for (const char *p = key; *p; p++) {
		uint32_t c = (uint32_t)(int)*p;
		hash = ((c + (hash << 6U)) + (hash << 16U)) - hash;
	}
	uint32_t k = hash;
	k = (k ^ 61) ^ (k >> 16);
	k = k + (k << 3);
	k = k ^ (k >> 4);
	k = k * 0x27d4eb2d;
	k = k ^ (k >> 15);
	return k >> (32 - order);
}

static void choose_paths(int set)
{
	switch (set) {
	case 0:
		strcpy(paths[0], "");
		strcpy(paths[1], "a");
		strcpy(paths[2], "A");
		break;
	case 1:
		strcpy(paths[0], "ab");
		memset(paths[1], 'L', 400);
		paths[1][400] = 0;
		strcpy(paths[2], "\xc3\xa9");
		break;
	default: {
		/* three paths with the same home bucket in the path index (found with a replica of the real hash function) */
		unsigned order = CONFIG_ELEMENT_TABLE_ORDER;
		int found = 0;
		uint32_t home = path_bucket("c0", order);
		for (int n = 0; n < 2000000 && found < NP; n++) {
			char cand[16];
			snprintf(cand, sizeof(cand), "c%d", n);
			if (path_bucket(cand, order) == home) {
				strcpy(paths[found++], cand);
			}
		}
		break;
	}
	}
	for (int i = 0; i < NP; i++) {
		if (strlen(paths[i]) > 16) {
			snprintf(pathlabel[i], sizeof(pathlabel[i]), "<%zu-byte path>", strlen(paths[i]));
		} else {
			snprintf(pathlabel[i], sizeof(pathlabel[i]), "'%s'", paths[i]);
		}
	}
}

static uint64_t model_hash(int remaining)
{
	uint64_t h = (uint64_t)remaining + 3;
	for (int i = 0; i < NP; i++) {
		h = hash_mix(h, model[i].exists ? (uint64_t)(1 + model[i].owner + 2 * model[i].is_method + 4 * model[i].fetch_only + 8 * slot_hint[i]) : 0);
	}
	h = hash_mix(h, (uint64_t)(stepno % 6));
	return h;
}


/* ---- section 1: a crowded neighbourhood of the path index ------------------------------------------------------------------
 * More paths than one neighbourhood of the path index can hold: (mode 0) 40 paths with the same home bucket, (mode 1) one path
 * for each of 33 consecutive home buckets and then more paths for the first bucket, (mode 2) the same run built backwards.  Adds
 * may be refused by the configured limit (internal error); whatever was acknowledged exists exactly once: its owner can change
 * it, nobody can add it again, get lists it once; whatever was refused does not exist; removing everything empties the set. */
static void find_paths_for_bucket(uint32_t bucket, unsigned order, int want, char out[][16], int *n, int *cursor)
{
	while (*n < want && *cursor < 4000000) {
		char cand[16];
		snprintf(cand, sizeof(cand), "k%d", (*cursor)++);
		if (path_bucket(cand, order) == bucket) {
			strcpy(out[(*n)++], cand);
		}
	}
}

static void run_crowded(void)
{
	int mode = xp_choose(3, XP_SCENARIO, "layout");
	int who = xp_choose(3, XP_SCENARIO, "who-adds"); /* 0 all by A, 1 alternating A / B, 2 all by B (websocket) */
	int churn = xp_choose(2, XP_SCENARIO, "remove-and-re-add-half-way");
	static const char *const MODEN[] = {"40 paths with one home bucket", "33 consecutive home buckets, then more paths for the first", "the same run added from the last bucket to the first"};
	static char cp[64][16];
	int ncp = 0;
	unsigned order = CONFIG_ELEMENT_TABLE_ORDER;
	uint32_t size = 1u << order;
	uint32_t home = path_bucket("k0", order);
	int cursor = 0;
	if (mode == 0) {
		find_paths_for_bucket(home, order, 40, cp, &ncp, &cursor);
	} else {
		for (int b = 0; b < 33 && b < (int)size; b++) {
			int want = ncp + 1, cur = 0;
			find_paths_for_bucket((home + (uint32_t)(mode == 1 ? b : 32 - b)) % size, order, want, cp, &ncp, &cur);
		}
		uint32_t first = mode == 1 ? home : (home + 32) % size;
		int cur = 0, skip = 1; /* further paths for the bucket added first (its first path is already in the list) */
		while (ncp < 40 && cur < 4000000) {
			char cand[16];
			snprintf(cand, sizeof(cand), "k%d", cur++);
			if (path_bucket(cand, order) == first) {
				if (skip > 0) {
					skip--;
					continue;
				}
				strcpy(cp[ncp++], cand);
			}
		}
	}
	static char what[300];
	snprintf(what, sizeof(what), "%s (%d paths, path index of %u buckets), %s%s", MODEN[mode], ncp, size, who == 0 ? "all added by A" : who == 1 ? "added alternately by A and B" : "all added by B", churn ? ", every second one removed and added again half-way" : "");
	last_action = what;
	struct sim_opts o = {0};
	jx_boot(&o);
	O = jx_open(CL_RAW);
	conn[A] = jx_open(PKIND[A]);
	conn[B] = jx_open(PKIND[B]);
	bool exists[64] = {false};
	int owner[64];
	int nexist = 0, nrefused = 0;
	for (int round = 0; round < (churn ? 2 : 1); round++) {
		for (int i = 0; i < ncp; i++) {
			if (round == 1 && (i & 1)) {
				continue;
			}
			int pr = who == 0 ? A : who == 2 ? B : (i & 1) ? B : A;
			if (round == 1) {
				/* second round: remove every even path (if it exists) and add it again by the other peer */
				if (exists[i]) {
					int f0 = clients[conn[owner[i]]].nmsgs;
					jx_sendf(conn[owner[i]], "{\"id\":%d,\"method\":\"remove\",\"params\":{\"path\":\"%s\"}}", ++reqid, cp[i]);
					jx_settle();
					if (!jx_is_success(jx_find_response_num(conn[owner[i]], reqid, f0))) {
						fail4("crowded:remove-by-owner-refused", "the owner's remove of %s was refused", cp[i]);
					}
					exists[i] = false;
					nexist--;
				}
				pr = pr == A ? B : A;
			}
			int f1 = clients[conn[pr]].nmsgs;
			jx_sendf(conn[pr], "{\"id\":%d,\"method\":\"add\",\"params\":{\"path\":\"%s\",\"value\":%d}}", ++reqid, cp[i], i);
			jx_settle();
			struct cl_msg *r = jx_find_response_num(conn[pr], reqid, f1);
			if (r == NULL) {
				fail4("crowded:add-unanswered", "add of %s got no answer", cp[i]);
			}
			if (r->cls == MC_RESULT) {
				exists[i] = true;
				owner[i] = pr;
				nexist++;
			} else if (jx_error_code(r) == -32603) {
				nrefused++; /* the configured limit of the path index */
			} else {
				fail4("crowded:add-of-free-path-refused", "add of the free path %s was refused with something other than the limit's internal error: %.200s", cp[i], r->text);
			}
			/* what the answer says must be what the daemon knows */
			int ow = exists[i] ? owner[i] : pr, other = ow == A ? B : A;
			int f2 = clients[conn[ow]].nmsgs;
			jx_sendf(conn[ow], "{\"id\":%d,\"method\":\"change\",\"params\":{\"path\":\"%s\",\"value\":%d}}", ++reqid, cp[i], 1000 + i);
			jx_settle();
			bool ch = jx_is_success(jx_find_response_num(conn[ow], reqid, f2));
			if (ch != exists[i]) {
				char key[120];
				snprintf(key, sizeof(key), "crowded:%s", exists[i] ? "acknowledged-element-unknown-to-its-owner" : "refused-element-exists");
				fail4(key, "add of %s (path #%d) was answered with %s, but the adder's change is answered with %s", cp[i], i, exists[i] ? "success" : "an error", ch ? "success" : "an error");
			}
			int f3 = clients[conn[other]].nmsgs;
			jx_sendf(conn[other], "{\"id\":%d,\"method\":\"add\",\"params\":{\"path\":\"%s\",\"value\":-1}}", ++reqid, cp[i]);
			jx_settle();
			struct cl_msg *r2 = jx_find_response_num(conn[other], reqid, f3);
			if (exists[i] && r2 != NULL && r2->cls == MC_RESULT) {
				fail4("crowded:path-added-twice", "%s exists (owner %s) and another peer's add of the same path was acknowledged: a path names two elements", cp[i], PN[ow]);
			}
			if (!exists[i] && r2 != NULL && r2->cls == MC_RESULT) {
				/* the limit refused the first attempt; this one found room (entries may have been moved meanwhile): it exists now */
				exists[i] = true;
				owner[i] = other;
				nexist++;
			}
		}
	}
	/* earlier elements are all still what they were: get lists each acknowledged path once with its last value */
	int fg = clients[O].nmsgs;
	jx_sendf(O, "{\"id\":\"g\",\"method\":\"get\",\"params\":{}}");
	jx_settle();
	struct cl_msg *g = jx_find_response_str(O, "g", fg);
	if (g == NULL || g->cls != MC_RESULT) {
		fail4("crowded:get-failed", "get was not answered with a result");
	}
	int listed[64] = {0};
	const cJSON *arr = cJSON_GetObjectItemCaseSensitive(g->json, "result");
	for (const cJSON *it = arr ? arr->child : NULL; it != NULL; it = it->next) {
		const cJSON *pa = cJSON_GetObjectItemCaseSensitive(it, "path");
		for (int i = 0; i < ncp; i++) {
			if (cJSON_IsString(pa) && strcmp(pa->valuestring, cp[i]) == 0) {
				listed[i]++;
			}
		}
	}
	for (int i = 0; i < ncp; i++) {
		if (listed[i] != (exists[i] ? 1 : 0)) {
			char key[120];
			snprintf(key, sizeof(key), "crowded:get-lists-path-%s", listed[i] > 1 ? "twice" : listed[i] == 1 ? "that-was-refused" : "not-at-all");
			fail4(key, "%s (path #%d, %s) is listed %d time(s) by get", cp[i], i, exists[i] ? "exists" : "does not exist", listed[i]);
		}
	}
	/* every owner can still change and then remove each of its elements; afterwards nothing is left */
	for (int i = 0; i < ncp; i++) {
		if (!exists[i]) {
			continue;
		}
		int f4 = clients[conn[owner[i]]].nmsgs;
		jx_sendf(conn[owner[i]], "{\"id\":%d,\"method\":\"change\",\"params\":{\"path\":\"%s\",\"value\":%d}}", ++reqid, cp[i], 2000 + i);
		int idc = reqid;
		jx_sendf(conn[owner[i]], "{\"id\":%d,\"method\":\"remove\",\"params\":{\"path\":\"%s\"}}", ++reqid, cp[i]);
		jx_settle();
		if (!jx_is_success(jx_find_response_num(conn[owner[i]], idc, f4)) || !jx_is_success(jx_find_response_num(conn[owner[i]], reqid, f4))) {
			fail4("crowded:element-lost-later", "%s (path #%d) was acknowledged and never removed, but its owner's final change / remove is refused: a later insertion disturbed it", cp[i], i);
		}
	}
	fg = clients[O].nmsgs;
	jx_sendf(O, "{\"id\":\"g2\",\"method\":\"get\",\"params\":{}}");
	jx_settle();
	g = jx_find_response_str(O, "g2", fg);
	if (g == NULL || g->cls != MC_RESULT || cJSON_GetArraySize(cJSON_GetObjectItemCaseSensitive(g->json, "result")) != 0) {
		fail4("crowded:elements-left-after-removing-all", "after every owner removed everything get still lists elements: %.300s", g ? g->text : "(no answer)");
	}
	xp_count("adds_acknowledged", nexist);
	xp_count("adds_refused_by_the_limit", nrefused);
	jx_close_all();
	jx_check_idle_baseline("crowded:left-behind:");
	xp_nontrivial();
	xp_transition();
	xp_outcome((uint64_t)nexist * 100 + (uint64_t)nrefused);
	xp_state(hash_mix((uint64_t)mode * 100 + (uint64_t)who * 10 + (uint64_t)churn, 31));
}

static void run(void)
{
	if (xp_param("section", 0) == 1) {
		run_crowded();
		return;
	}
	int depth = (int)xp_param("depth", 3);
	if (xp_param("nearvals", 0)) {
		VALUES = VALUES_NEAR;
	}
	int set = (int)xp_param("pathset", 0);
	choose_paths(set);
	colliding_universe = set == 2;
	struct sim_opts o = {0};
	jx_boot(&o);
	O = jx_open(CL_RAW);
	conn[A] = jx_open(PKIND[A]);
	conn[B] = jx_open(PKIND[B]);
	if (xp_param("stalled_sub", 0)) {
		/* a second subscriber to everything that has stopped reading; its write buffer in the daemon is filled up first, so that every
		 * later notification to it fails: that is its own problem and must not change what a path means for anybody else */
		int ST = jx_open(CL_RAW);
		jx_sendf(ST, "{\"id\":\"sf\",\"method\":\"fetch\",\"params\":{\"id\":\"stalled\"}}");
		jx_settle();
		sim_set_window(ST, 0);
		int F = jx_open(CL_RAW);
		jx_sendf(F, "{\"id\":\"f0\",\"method\":\"add\",\"params\":{\"path\":\"zz-fill\",\"value\":0}}");
		jx_settle();
		for (int i = 0; i < (int)(2 * CONFIG_MAX_WRITE_BUFFER_SIZE / 60) + 2; i++) {
			jx_sendf(F, "{\"id\":\"f%d\",\"method\":\"change\",\"params\":{\"path\":\"zz-fill\",\"value\":\"%040d\"}}", i + 1, i);
			jx_settle();
		}
		strcpy(fillernames[nfill++], "zz-fill"); /* stays, with its owner, outside the universe */
		xp_count(sim_conn_closed_by_daemon(ST) ? "stalled_subscriber_dropped_by_daemon" : "stalled_subscriber_kept", 1);
	}
	jx_sendf(O, "{\"id\":\"of\",\"method\":\"fetch\",\"params\":{\"id\":\"all\"}}");
	jx_settle();
	seenO = clients[O].nmsgs;
	int fillers = (int)xp_param("fillers", 0);
	for (int i = 0; i < fillers; i++) {
		/* occupy the neighbourhood of the colliding paths so that the path index refuses insertions (tiny variant) */
		unsigned order = CONFIG_ELEMENT_TABLE_ORDER;
		uint32_t home = path_bucket(paths[0], order);
		static int next = 5000000;
		for (;; next++) {
			char cand[16];
			snprintf(cand, sizeof(cand), "c%d", next);
			if (path_bucket(cand, order) == home) {
				if (nfill < 8) {
					strcpy(fillernames[nfill++], cand);
				}
				jx_sendf(O, "{\"id\":\"fl\",\"method\":\"add\",\"params\":{\"path\":\"%s\",\"value\":0}}", cand);
				jx_settle();
				next++;
				break;
			}
		}
	}
	/* the observer's own filler elements are outside the universe: forget their notifications */
	seenO = clients[O].nmsgs;
	struct bytebuf trail = {0};
	/* non-initial start state: all three paths of the universe exist (added by A in index order) */
	if (xp_param("preadd", 0)) {
		for (int pi = 0; pi < NP; pi++) {
			apply(A, pi == 1 ? OP_ADD_METHOD : OP_ADD_STATE, pi);
		}
		bb_printf(&trail, "[all three paths added by A] ");
	}
	for (int d = 0; d < depth; d++) {
		int c = xp_choose(NPEER * NOP * NP, XP_ACTION, "action");
		int peer = c / (NOP * NP), op = (c / NP) % NOP, pi = c % NP;
		if (op == OP_LEAVE && pi != 0) {
			xp_end_run(); /* leaving has no path argument: one instance per peer */
		}
		bb_printf(&trail, "%s%s:%s(%s)", d ? " ; " : "", PN[peer], OPN[op], pathlabel[pi]);
		xp_logf("## step %d: %s:%s(%s)", d + 1, PN[peer], OPN[op], pathlabel[pi]);
		apply(peer, op, pi);
		xp_transition();
		if (xp_state(model_hash(depth - d - 1))) {
			return;
		}
	}
	xp_nontrivial();
	xp_logf("## trail: %s", trail.p ? (char *)trail.p : "");
	xp_outcome(cl_transcript_hash(conn[A]));
	xp_outcome(cl_transcript_hash(conn[B]));
}

const struct driver drv_c04 = {
    .name = "c04",
    .property = "C04",
    .run = run,
    .rule = "every sequence of actions up to the depth bound over 2 peers (raw, websocket) x 7 operations (add state / method / fetch-only state, remove, change, set, call) x 3 paths, plus 'the peer leaves and reconnects' (every path it owned is free again); optionally (stalled_sub) in the presence of a second fetch-all subscriber that has stopped reading and whose write buffer is full, for three path universes: {empty, 'a', 'A'}, {'ab', a 400-byte path, a 2-byte UTF-8 path}, {three paths with the same home bucket of the path index}; values rotate through 6 JSON values (nearvals: six values of which neighbours differ only in the letter case of a member name, in nesting or in the kind of an empty container); accepted set/call are answered by the owner at once; oracle after every step: response verdict == reference map verdict, observer's fetch-all replica == map (existence, type, value), get == map; non-trivial = executions that ran to full depth | section 1 (crowded neighbourhood): 40 paths for one home bucket / for 33 consecutive home buckets (forwards and backwards) x {all by A, alternating, all by B} x {once, every second path removed and re-added by the other peer}: every acknowledged add is known to its owner, cannot be added again, is listed once by get and survives all later insertions; every refused one does not exist; removing everything leaves nothing",
    .assumptions = "only success/error (and the internal-error code for refusals by a configured limit) are compared, never message texts|an accepted set/call is recognised by its delivery to the owner",
};
