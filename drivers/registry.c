#include "simk.h"

extern const struct driver drv_smoke, drv_c02, drv_c03, drv_c14, drv_c07, drv_c13, drv_c05, drv_c01, drv_c04, drv_c16, drv_c09, drv_c06, drv_c12, drv_c11, drv_c08, drv_c15, drv_c20, drv_c10s;

const struct driver *const all_drivers[] = {
	&drv_smoke,
	&drv_c02,
	&drv_c03,
	&drv_c14,
	&drv_c07,
	&drv_c13,
	&drv_c05,
	&drv_c01,
	&drv_c04,
	&drv_c16,
	&drv_c09,
	&drv_c06,
	&drv_c12,
	&drv_c11,
	&drv_c08,
	&drv_c15,
	&drv_c20,
	&drv_c10s,
	NULL,
};
