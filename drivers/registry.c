#include "simk.h"

extern const struct driver drv_smoke;

const struct driver *const all_drivers[] = {
	&drv_smoke,
	NULL,
};
