/* C09 - behaviour depends on each connection's byte stream, not on its segmentation.
 * section 0: a corpus of multi-connection sessions; every alternative delivery schedule of the same bytes (single and
 *            pair split points, single bytes, coalescing of consecutive messages, a later message's proper prefix riding
 *            in an earlier batch in both dispatch orders) is compared with the baseline schedule run as a twin execution.
 * section 1: each message is interpreted from exactly its own bytes: truncated / over-long JSON with different stale
 *            buffer contents (fresh-memory fill byte, residue of an earlier long message); zero length; oversize length. */
#include <stdlib.h>
#include <string.h>

#include "common.h"
#include "generated/cjet_config.h"

enum skind { ST_MSG = 0, ST_BYTES, ST_FIN, ST_CLOCK };
struct step {
	int kind;
	int conn;
	const char *text; /* JSON text (ST_MSG) or raw bytes as C string (ST_BYTES) */
	long arg;
};
struct session {
	const char *name;
	int nconn;
	int ws_mask; /* bit i set: connection i is a websocket connection */
	struct step steps[24];
};

#define M(c, t) {ST_MSG, c, t, 0}
#define FINC(c) {ST_FIN, c, NULL, 0}
#define CLK(ns) {ST_CLOCK, 0, NULL, ns}
#define END {-1, 0, NULL, 0}

static const struct session SESSIONS[] = {
    {"add-fetch-change-remove", 2, 0,
     {M(0, "{\"id\":1,\"method\":\"add\",\"params\":{\"path\":\"a\",\"value\":1}}"), M(0, "{\"id\":2,\"method\":\"add\",\"params\":{\"path\":\"b\",\"value\":\"x\"}}"), M(1, "{\"id\":1,\"method\":\"fetch\",\"params\":{\"id\":\"f\"}}"),
      M(0, "{\"id\":3,\"method\":\"change\",\"params\":{\"path\":\"a\",\"value\":2}}"), M(0, "{\"id\":4,\"method\":\"change\",\"params\":{\"path\":\"b\",\"value\":[1,2]}}"), M(0, "{\"id\":5,\"method\":\"remove\",\"params\":{\"path\":\"a\"}}"), END}},
    {"ws-fetch-rule", 2, 2,
     {M(1, "{\"id\":\"w1\",\"method\":\"fetch\",\"params\":{\"id\":7,\"path\":{\"startsWith\":\"s\"}}}"), M(0, "{\"id\":1,\"method\":\"add\",\"params\":{\"path\":\"s1\",\"value\":1}}"), M(0, "{\"id\":2,\"method\":\"add\",\"params\":{\"path\":\"t1\",\"value\":1}}"),
      M(0, "{\"id\":3,\"method\":\"change\",\"params\":{\"path\":\"s1\",\"value\":5}}"), M(1, "{\"id\":\"w2\",\"method\":\"unfetch\",\"params\":{\"id\":7}}"), M(0, "{\"id\":4,\"method\":\"change\",\"params\":{\"path\":\"s1\",\"value\":6}}"), END}},
    {"routed-set-call", 2, 2,
     {M(0, "{\"id\":1,\"method\":\"add\",\"params\":{\"path\":\"s\",\"value\":0}}"), M(0, "{\"id\":2,\"method\":\"add\",\"params\":{\"path\":\"m\"}}"), M(1, "{\"id\":\"k1\",\"method\":\"set\",\"params\":{\"path\":\"s\",\"value\":{\"v\":1}}}"),
      {ST_MSG, 0, "@reply-result", 0}, M(1, "{\"id\":\"k2\",\"method\":\"call\",\"params\":{\"path\":\"m\",\"args\":[1,2]}}"), {ST_MSG, 0, "@reply-error", 0}, M(1, "{\"id\":\"k3\",\"method\":\"get\",\"params\":{}}"), END}},
    {"batches", 2, 0,
     {M(0, "[{\"id\":1,\"method\":\"add\",\"params\":{\"path\":\"x\",\"value\":1}},{\"id\":2,\"method\":\"add\",\"params\":{\"path\":\"y\",\"value\":2}},{\"id\":3,\"method\":\"change\",\"params\":{\"path\":\"x\",\"value\":3}}]"),
      M(1, "{\"id\":1,\"method\":\"get\",\"params\":{\"path\":{\"equals\":\"x\"}}}"), M(0, "[{\"method\":\"remove\",\"params\":{\"path\":\"y\"}},{\"id\":4,\"method\":\"info\"}]"), M(1, "{\"id\":2,\"method\":\"get\",\"params\":{}}"), END}},
    {"three-peers", 3, 4,
     {M(0, "{\"id\":1,\"method\":\"add\",\"params\":{\"path\":\"p0\",\"value\":0}}"), M(1, "{\"id\":1,\"method\":\"add\",\"params\":{\"path\":\"p1\",\"value\":1}}"), M(2, "{\"id\":1,\"method\":\"add\",\"params\":{\"path\":\"p2\",\"value\":2}}"),
      M(2, "{\"id\":2,\"method\":\"fetch\",\"params\":{\"id\":\"all\"}}"), M(0, "{\"id\":2,\"method\":\"change\",\"params\":{\"path\":\"p0\",\"value\":10}}"), M(1, "{\"id\":2,\"method\":\"remove\",\"params\":{\"path\":\"p1\"}}"), M(0, "{\"id\":3,\"method\":\"get\",\"params\":{}}"), END}},
    {"errors", 2, 2,
     {M(0, "{\"id\":1,\"method\":\"nosuch\"}"), M(1, "{\"id\":1,\"method\":\"change\",\"params\":{\"path\":\"none\",\"value\":1}}"), M(0, "{\"id\":2,\"method\":\"config\",\"params\":{\"name\":\"peer zero\"}}"), M(1, "{\"id\":2,\"method\":\"info\"}"),
      M(0, "{\"id\":3,\"method\":\"add\",\"params\":{\"value\":1}}"), M(1, "{\"id\":3}"), M(0, "{\"method\":\"nosuch\"}"), M(0, "{\"id\":4,\"method\":\"info\"}"), END}},
    {"consecutive-run", 2, 0,
     {M(0, "{\"id\":1,\"method\":\"add\",\"params\":{\"path\":\"a\",\"value\":1}}"), M(0, "{\"id\":2,\"method\":\"add\",\"params\":{\"path\":\"b\",\"value\":2}}"), M(0, "{\"id\":3,\"method\":\"add\",\"params\":{\"path\":\"c\",\"value\":3}}"),
      M(0, "{\"id\":4,\"method\":\"change\",\"params\":{\"path\":\"a\",\"value\":4}}"), M(0, "{\"id\":5,\"method\":\"change\",\"params\":{\"path\":\"b\",\"value\":5}}"), M(0, "{\"id\":6,\"method\":\"remove\",\"params\":{\"path\":\"c\"}}"), M(1, "{\"id\":1,\"method\":\"get\",\"params\":{}}"), END}},
    {"consecutive-run-ws", 2, 1,
     {M(0, "{\"id\":1,\"method\":\"add\",\"params\":{\"path\":\"a\",\"value\":1}}"), M(0, "{\"id\":2,\"method\":\"fetch\",\"params\":{\"id\":\"f\"}}"), M(0, "{\"id\":3,\"method\":\"change\",\"params\":{\"path\":\"a\",\"value\":4}}"),
      M(0, "{\"id\":4,\"method\":\"remove\",\"params\":{\"path\":\"a\"}}"), M(1, "{\"id\":1,\"method\":\"get\",\"params\":{}}"), END}},
    {"zero-length-prefix", 2, 0,
     {M(0, "{\"id\":1,\"method\":\"add\",\"params\":{\"path\":\"z\",\"value\":1}}"), {ST_BYTES, 0, "\0\0\0\0", 4}, M(0, "{\"id\":2,\"method\":\"change\",\"params\":{\"path\":\"z\",\"value\":2}}"), {ST_BYTES, 0, "\0\0\0\0\0\0\0\0", 8},
      M(0, "{\"id\":3,\"method\":\"get\",\"params\":{}}"), M(1, "{\"id\":1,\"method\":\"get\",\"params\":{}}"), END}},
    {"oversize-length", 2, 0,
     {M(0, "{\"id\":1,\"method\":\"add\",\"params\":{\"path\":\"o\",\"value\":1}}"), M(1, "{\"id\":1,\"method\":\"fetch\",\"params\":{\"id\":\"f\"}}"), {ST_BYTES, 0, "\0\0\x02\x01", 4}, M(1, "{\"id\":2,\"method\":\"get\",\"params\":{}}"), END}},
    {"owner-leaves", 2, 2,
     {M(0, "{\"id\":1,\"method\":\"add\",\"params\":{\"path\":\"gone\",\"value\":1}}"), M(1, "{\"id\":1,\"method\":\"fetch\",\"params\":{\"id\":\"f\"}}"), M(1, "{\"id\":2,\"method\":\"set\",\"params\":{\"path\":\"gone\",\"value\":2}}"), FINC(0), M(1, "{\"id\":3,\"method\":\"get\",\"params\":{}}"), END}},
    {"send-and-close", 2, 0,
     {M(0, "{\"id\":1,\"method\":\"add\",\"params\":{\"path\":\"sc\",\"value\":1}}"), M(1, "{\"id\":1,\"method\":\"fetch\",\"params\":{\"id\":\"f\"}}"), M(0, "{\"id\":2,\"method\":\"change\",\"params\":{\"path\":\"sc\",\"value\":2}}"), FINC(0), M(1, "{\"id\":2,\"method\":\"get\",\"params\":{}}"), END}},
    {"send-and-close-ws", 2, 1,
     {M(1, "{\"id\":1,\"method\":\"fetch\",\"params\":{\"id\":\"f\"}}"), M(0, "{\"id\":1,\"method\":\"add\",\"params\":{\"path\":\"sw\",\"value\":1}}"), M(0, "{\"method\":\"change\",\"params\":{\"path\":\"sw\",\"value\":2}}"), FINC(0), M(1, "{\"id\":2,\"method\":\"get\",\"params\":{}}"), END}},
    {"timeout", 2, 0,
     {M(0, "{\"id\":1,\"method\":\"add\",\"params\":{\"path\":\"slow\"}}"), M(1, "{\"id\":1,\"method\":\"call\",\"params\":{\"path\":\"slow\",\"timeout\":0.5}}"), CLK(500000000L), M(1, "{\"id\":2,\"method\":\"info\"}"), {ST_MSG, 0, "@reply-result", 0}, M(0, "{\"id\":2,\"method\":\"info\"}"), END}},
    {"caller-leaves-then-deadline", 3, 2,
     {M(0, "{\"id\":1,\"method\":\"add\",\"params\":{\"path\":\"slow2\"}}"), M(2, "{\"id\":1,\"method\":\"fetch\",\"params\":{\"id\":\"f\"}}"), M(1, "{\"id\":1,\"method\":\"call\",\"params\":{\"path\":\"slow2\",\"timeout\":0.5}}"), FINC(1), CLK(500000000L), M(2, "{\"id\":2,\"method\":\"info\"}"), M(0, "{\"id\":2,\"method\":\"info\"}"), END}},
    {"owner-leaves-then-deadline-ws", 3, 1,
     {M(0, "{\"id\":1,\"method\":\"add\",\"params\":{\"path\":\"slow3\"}}"), M(1, "{\"id\":1,\"method\":\"call\",\"params\":{\"path\":\"slow3\",\"timeout\":0.5}}"), M(2, "{\"id\":1,\"method\":\"call\",\"params\":{\"path\":\"slow3\",\"timeout\":0.5}}"), FINC(0), CLK(500000000L), M(1, "{\"id\":2,\"method\":\"info\"}"), M(2, "{\"id\":2,\"method\":\"info\"}"), END}},
    {"ws-ping-between", 1, 1,
     {M(0, "{\"id\":1,\"method\":\"add\",\"params\":{\"path\":\"w\",\"value\":1}}"), {ST_BYTES, 0, "\x89\x83\x12\x34\x56\x78\x73\x5d\x31", 9}, M(0, "{\"id\":2,\"method\":\"get\",\"params\":{}}"), {ST_BYTES, 0, "\x8a\x80\x12\x34\x56\x78", 6}, M(0, "{\"id\":3,\"method\":\"info\"}"), END}},
};
#define NSESSIONS ((int)(sizeof(SESSIONS) / sizeof(SESSIONS[0])))

/* sessions with messages that fill more than half of / exactly the daemon's read buffer: texts generated at start */
static char big_a[600], big_b[600], big_c[600], big_d[600];
static struct session BIG_SESSIONS[2];
static void make_big(char *out, const char *path, size_t total)
{
	int n = snprintf(out, 600, "{\"id\":\"big\",\"method\":\"add\",\"params\":{\"path\":\"%s\",\"value\":\"", path);
	size_t fill = total - (size_t)n - 3;
	memset(out + n, 'v', fill);
	strcpy(out + n + fill, "\"}}");
}
static void build_big_sessions(void)
{
	make_big(big_a, "big/a", 339);
	make_big(big_b, "big/b", CONFIG_MAX_MESSAGE_SIZE);     /* the largest legal raw message */
	make_big(big_c, "big/c", 258);
	make_big(big_d, "big/d", CONFIG_MAX_MESSAGE_SIZE - 8); /* websocket: payload after an 8-byte header */
	BIG_SESSIONS[0] = (struct session){"big-messages-raw", 2, 0, {M(0, big_a), M(0, "{\"id\":1,\"method\":\"info\"}"), M(0, big_b), M(0, big_c), M(1, "{\"id\":1,\"method\":\"get\",\"params\":{\"path\":{\"startsWith\":\"big\"}}}"), END}};
	BIG_SESSIONS[1] = (struct session){"big-messages-ws", 2, 1, {M(0, big_a), M(0, big_d), M(0, "{\"id\":1,\"method\":\"info\"}"), M(0, big_c), M(1, "{\"id\":1,\"method\":\"get\",\"params\":{\"path\":{\"startsWith\":\"big\"}}}"), END}};
}
#define NALL (NSESSIONS + 2)
static const struct session *session_at(int i)
{
	return i < NSESSIONS ? &SESSIONS[i] : &BIG_SESSIONS[i - NSESSIONS];
}

static int conn[4];
struct fstep {
	int kind, conn;
	struct bytebuf bytes;
	long arg;
	const char *label;
};
static struct fstep fs[32];
static int nfs;

static int count_steps(const struct session *s)
{
	int n = 0;
	while (s->steps[n].kind >= 0) {
		n++;
	}
	return n;
}

/* build the byte form of step i (replies need the routed id the owner has seen so far) */
static void materialise(const struct session *s, int i, struct fstep *f)
{
	const struct step *st = &s->steps[i];
	f->kind = st->kind;
	f->conn = st->conn;
	f->arg = st->arg;
	f->label = st->text;
	bb_reset(&f->bytes);
	if (st->kind == ST_MSG) {
		char buf[600];
		const char *text = st->text;
		if (text[0] == '@') {
			const char *rid = "none";
			struct client *c = &clients[conn[st->conn]];
			for (int k = 0; k < c->nmsgs; k++) {
				if (c->msgs[k].cls == MC_ROUTED && !c->msgs[k].consumed) {
					rid = msg_id(&c->msgs[k])->valuestring;
					c->msgs[k].consumed = true;
					break;
				}
			}
			if (strcmp(text, "@reply-result") == 0) {
				snprintf(buf, sizeof(buf), "{\"id\":\"%s\",\"result\":{\"ok\":true}}", rid);
			} else {
				snprintf(buf, sizeof(buf), "{\"id\":\"%s\",\"error\":{\"code\":5,\"message\":\"no\"}}", rid);
			}
			text = buf;
		}
		cl_frame_for(conn[st->conn], &f->bytes, text);
	} else if (st->kind == ST_BYTES) {
		bb_append(&f->bytes, st->text, (size_t)st->arg);
	}
}

static void collect(const struct session *s, struct bytebuf *t)
{
	cl_pump();
	for (int c = 0; c < s->nconn; c++) {
		bb_printf(t, "== connection %d%s%s http=%d\n", c, sim_conn_closed_by_daemon(conn[c]) ? " closed-by-daemon" : "", clients[conn[c]].garbage ? " garbage" : "", clients[conn[c]].http_status);
		cl_normalised_transcript(conn[c], t, 0);
		if (clients[conn[c]].frame_violation[0]) {
			bb_printf(t, "ws frame violation: %s\n", clients[conn[c]].frame_violation);
		}
	}
}

static int ride_order;
static int ride_fd;
static int ride_hook(struct sim_ready *list, int n, int maxevents)
{
	(void)maxevents;
	if (n == 2 && ride_order == 1) {
		struct sim_ready t = list[0];
		list[0] = list[1];
		list[1] = t;
	}
	return n;
}

/* upper bound of the byte length of a step (replies carry a routed id whose length varies a little) */
static int step_maxlen(const struct session *s, int nsteps, int i)
{
	if (i >= nsteps) {
		return ((s->ws_mask >> (i - nsteps)) & 1) ? (int)strlen(CL_WS_UPGRADE_REQUEST) : 0;
	}
	const struct step *st = &s->steps[i];
	if (st->kind == ST_BYTES) {
		return (int)st->arg;
	}
	if (st->kind != ST_MSG) {
		return 0;
	}
	if (st->text[0] == '@') {
		return 120;
	}
	int l = (int)strlen(st->text);
	bool ws = (s->ws_mask >> st->conn) & 1;
	return l + (ws ? (l < 126 ? 6 : 8) : 4);
}

#define NREDUCED 8
static int reduced_pos(int ml, int k)
{
	static const int fixed[] = {1, 2, 3, 4, 5, 7};
	int pos = k < 6 ? fixed[k] : (k == 6 ? ml / 2 : ml - 1);
	return (pos >= 1 && pos < ml) ? pos : 0;
}

static int ride_first_fd;
static int ride_first_hook(struct sim_ready *list, int n, int maxevents)
{
	(void)maxevents;
	for (int i = 1; i < n; i++) {
		if (list[i].fd == ride_first_fd) {
			struct sim_ready v = list[i];
			memmove(&list[1], &list[0], sizeof(list[0]) * (size_t)i);
			list[0] = v;
			break;
		}
	}
	return n;
}

static void run_sessions(void)
{
	build_big_sessions();
	int nsess = (int)xp_param("sessions", NALL);
	if (nsess > NALL) {
		nsess = NALL;
	}
	int si = xp_choose(nsess, XP_SCENARIO, "session");
	const struct session *s = session_at(si);
	int nsteps = count_steps(s);
	int pairs = (int)xp_param("pairs", 0);
	static const int KINDS[] = {0, 1, 2, 3, 4, 6, 7, 5};
	int kind = KINDS[xp_choose(pairs ? 8 : 7, XP_SCENARIO, "schedule-kind")]; /* 7: a step and the clock step behind it are harvested in one batch, the connection's event first (same dispatch order as the baseline, different batching) */ /* 0 baseline(identity), 1 single split, 2 single bytes, 3 coalesce, 4 prefix ride, 5 pair of splits, 6 end of stream in the same batch as the last message */
	int fin_ride = -1, clock_ride = -1;
	/* schedule parameters are chosen up front so that the twin (baseline) and the primary consume the same choice prefix */
	int sp_step[2] = {-1, -1}, sp_pos[2] = {0, 0}, sp_mode[2] = {0, 0};
	int bytes_mode = 0, group_mask = 0, ride_at = -1, ride_len = 0;
	/* lengths of the steps do not depend on routed ids except for replies (fixed length ids differ by counter digits only): compute with a dry materialisation later; choose positions as fractions */
	if (kind == 1) {
		sp_step[0] = xp_choose(nsteps + s->nconn, XP_SCENARIO, "split-step"); /* the ws upgrade requests count as steps too */
		int ml = step_maxlen(s, nsteps, sp_step[0]);
		sp_pos[0] = ml >= 2 ? 1 + xp_choose(ml - 1, XP_SCENARIO, "split-pos") : 0;
		sp_mode[0] = xp_choose(2, XP_SCENARIO, "split-mode");
	} else if (kind == 5) {
		/* two split points: every pair of positions inside one message; for two different messages a reduced position set */
		int N = nsteps + s->nconn;
		sp_step[0] = xp_choose(N, XP_SCENARIO, "split-step-1");
		sp_step[1] = sp_step[0] + xp_choose(N - sp_step[0], XP_SCENARIO, "split-step-2");
		int ml0 = step_maxlen(s, nsteps, sp_step[0]), ml1 = step_maxlen(s, nsteps, sp_step[1]);
		if (sp_step[0] == sp_step[1]) {
			sp_pos[0] = ml0 >= 3 ? 1 + xp_choose(ml0 - 2, XP_SCENARIO, "split-pos-1") : 0;
			sp_pos[1] = (sp_pos[0] > 0 && ml0 - 1 - sp_pos[0] >= 1) ? sp_pos[0] + 1 + xp_choose(ml0 - 1 - sp_pos[0], XP_SCENARIO, "split-pos-2") : 0;
		} else {
			sp_pos[0] = reduced_pos(ml0, xp_choose(NREDUCED, XP_SCENARIO, "split-pos-1"));
			sp_pos[1] = reduced_pos(ml1, xp_choose(NREDUCED, XP_SCENARIO, "split-pos-2"));
		}
		sp_mode[0] = sp_mode[1] = xp_choose(2, XP_SCENARIO, "split-mode");
	} else if (kind == 6) {
		fin_ride = xp_choose(nsteps, XP_SCENARIO, "fin-step");
	} else if (kind == 7) {
		clock_ride = xp_choose(nsteps, XP_SCENARIO, "step-before-the-clock");
	} else if (kind == 2) {
		bytes_mode = xp_choose(2, XP_SCENARIO, "bytes-mode");
	} else if (kind == 3) {
		group_mask = xp_choose(1 << 7, XP_SCENARIO, "grouping");
	} else if (kind == 4) {
		ride_at = xp_choose(nsteps, XP_SCENARIO, "ride-at");
		int ml = ride_at + 1 < nsteps ? step_maxlen(s, nsteps, ride_at + 1) : 0;
		ride_len = ml >= 2 ? 1 + xp_choose(ml - 1, XP_SCENARIO, "ride-len") : 0;
		ride_order = xp_choose(2, XP_SCENARIO, "ride-order");
	}
	int twin = xp_twin_begin();
	struct sim_opts o = {0};
	jx_boot(&o);
	bool vary = !twin;
	bool applicable = kind == 0;
	/* connections: raw ones connect at once; ws ones send their upgrade request as (splittable) bytes */
	for (int c = 0; c < s->nconn; c++) {
		bool ws = (s->ws_mask >> c) & 1;
		conn[c] = cl_open(ws ? CL_WS : CL_RAW, ws ? ROLE_HTTP : ROLE_JET, ORG_DEFAULT);
		if (ws) {
			const char *rq = CL_WS_UPGRADE_REQUEST;
			size_t rl = strlen(rq);
			bool done = false;
			for (int k = 0; k < 2; k++) {
				if (vary && sp_step[k] == nsteps + c && sp_pos[k] >= 1 && (size_t)sp_pos[k] < rl) {
					applicable = true;
					sim_client_send(conn[c], rq, (size_t)sp_pos[k]);
					if (sp_mode[k]) {
						jx_settle();
					}
					sim_client_send(conn[c], rq + sp_pos[k], rl - (size_t)sp_pos[k]);
					done = true;
					break;
				}
			}
			if (!done && vary && kind == 2) {
				applicable = true;
				for (size_t b = 0; b < rl; b++) {
					sim_client_send(conn[c], rq + b, 1);
					if (bytes_mode) {
						jx_settle();
					}
				}
				done = true;
			}
			if (!done) {
				sim_client_send(conn[c], rq, rl);
			}
		}
		jx_settle();
	}
	nfs = nsteps;
	bool fin_done[4] = {false, false, false, false};
	int run_len = 0; /* position inside a run of consecutive same-connection byte steps (for coalescing) */
	struct bytebuf held = {0};
	int held_conn = -1;
	for (int i = 0; i < nsteps; i++) {
		struct fstep *f = &fs[i];
		materialise(s, i, f);
		if (f->kind == ST_FIN) {
			if (!fin_done[f->conn]) {
				sim_client_fin(conn[f->conn]);
			}
			if (vary && kind == 7 && clock_ride == i && i + 1 < nsteps && s->steps[i + 1].kind == ST_CLOCK) {
				/* the end of stream and the expiry are harvested together, the connection first */
				applicable = true;
				sim_advance((uint64_t)s->steps[i + 1].arg);
				ride_first_fd = sim_conn_fd(conn[f->conn]);
				sim_batch_hook = ride_first_hook;
				jx_settle();
				sim_batch_hook = NULL;
				materialise(s, i + 1, &fs[i + 1]);
				i++;
				continue;
			}
			jx_settle();
			continue;
		}
		if (f->kind == ST_CLOCK) {
			sim_advance((uint64_t)f->arg);
			jx_settle();
			continue;
		}
		const uint8_t *p = f->bytes.p;
		size_t len = f->bytes.len;
		int cid = conn[f->conn];
		/* prefix of THIS step already delivered earlier (prefix ride)? */
		size_t already = 0;
		if (vary && kind == 4 && ride_at == i - 1 && i >= 1 && fs[i - 1].conn != f->conn && fs[i - 1].kind != ST_FIN && fs[i - 1].kind != ST_CLOCK) {
			/* handled when step i-1 was sent: see below */
			already = (size_t)ride_fd; /* reused as 'bytes already sent' */
		}
		/* coalescing: hold this step's bytes and send them together with the next step of the same connection */
		bool next_same = i + 1 < nsteps && s->steps[i + 1].conn == f->conn && (s->steps[i + 1].kind == ST_MSG || s->steps[i + 1].kind == ST_BYTES) && s->steps[i + 1].text[0] != '@' && s->steps[i].text[0] != '@';
		if (vary && kind == 3 && next_same && run_len < 7 && ((group_mask >> run_len) & 1)) {
			/* joining changes nothing about completion order only if no other event lies between: consecutive steps of one connection */
			if (held_conn < 0) {
				held_conn = f->conn;
			}
			bb_append(&held, p, len);
			run_len++;
			applicable = true;
			continue;
		}
		if (!next_same) {
			run_len = 0;
		} else {
			run_len++;
		}
		if (held.len > 0) {
			bb_append(&held, p, len);
			sim_client_send(cid, held.p, held.len);
			bb_reset(&held);
			held_conn = -1;
			jx_settle();
			continue;
		}
		bool sent = false;
		if (vary && (kind == 1 || kind == 5)) {
			/* up to two split points inside this step */
			size_t cuts[2];
			int modes[2], nc = 0;
			for (int k = 0; k < 2; k++) {
				if (sp_step[k] == i && sp_pos[k] >= 1 && (size_t)sp_pos[k] < len) {
					cuts[nc] = (size_t)sp_pos[k];
					modes[nc] = sp_mode[k];
					nc++;
				}
			}
			if (nc == 2 && cuts[0] > cuts[1]) {
				size_t t = cuts[0];
				cuts[0] = cuts[1];
				cuts[1] = t;
				int m = modes[0];
				modes[0] = modes[1];
				modes[1] = m;
			}
			if (nc == 2 && cuts[0] == cuts[1]) {
				nc = 1;
			}
			if (nc > 0) {
				applicable = true;
				size_t from = 0;
				for (int k = 0; k < nc; k++) {
					sim_client_send(cid, p + from, cuts[k] - from);
					if (modes[k]) {
						jx_settle();
					}
					from = cuts[k];
				}
				sim_client_send(cid, p + from, len - from);
				sent = true;
			}
		}
		if (!sent && vary && kind == 2) {
			applicable = true;
			for (size_t b = 0; b < len; b++) {
				sim_client_send(cid, p + b, 1);
				if (bytes_mode) {
					jx_settle();
				}
			}
			sent = true;
		}
		if (!sent) {
			if (already > 0 && already < len) {
				sim_client_send(cid, p + already, len - already);
			} else {
				sim_client_send(cid, p, len);
			}
		}
		/* end of stream rides in the same batch: the client's FIN follows its last message before the daemon runs */
		if (vary && kind == 6 && fin_ride == i + 1 && i + 1 < nsteps && s->steps[i + 1].kind == ST_FIN && s->steps[i + 1].conn == f->conn) {
			applicable = true;
			sim_client_fin(cid);
			fin_done[f->conn] = true;
		}
		/* prefix ride: a proper prefix of the NEXT step (another connection) is delivered in this very batch */
		ride_fd = 0;
		if (vary && kind == 4 && ride_at == i && i + 1 < nsteps && s->steps[i + 1].conn != f->conn && (s->steps[i + 1].kind == ST_MSG || s->steps[i + 1].kind == ST_BYTES) && s->steps[i + 1].text[0] != '@') {
			struct fstep tmp = {0};
			materialise(s, i + 1, &tmp);
			if (ride_len >= 1 && (size_t)ride_len < tmp.bytes.len) {
				applicable = true;
				sim_client_send(conn[tmp.conn], tmp.bytes.p, (size_t)ride_len);
				ride_fd = ride_len;
				sim_batch_hook = ride_hook;
			}
			bb_free(&tmp.bytes);
		}
		jx_settle();
		sim_batch_hook = NULL;
	}
	jx_settle();
	jx_expire_all_timers(3);
	struct bytebuf mine = {0}, other = {0};
	collect(s, &mine);
	if (twin) {
		xp_twin_end(&mine, NULL);
	}
	xp_twin_end(&mine, &other);
	if (!applicable) {
		xp_end_run(); /* the chosen parameters do not denote a schedule of this session (position beyond the step's length etc.) */
	}
	if (mine.len != other.len || memcmp(mine.p, other.p, mine.len) != 0) {
		xp_logf("---- this schedule ----\n%s---- baseline schedule ----\n%s", (char *)mine.p, (char *)other.p);
		char key[200];
		static const char *const KN[] = {"identity", "single-split", "single-bytes", "coalesce", "prefix-ride", "pair-split", "fin-in-same-batch"};
		snprintf(key, sizeof(key), "output-depends-on-segmentation:%s:session=%s", KN[kind], s->name);
		xp_fail(key, "session '%s': schedule %s (split step %d pos %d mode %d / step %d pos %d; bytes-mode %d; grouping %d; ride at %d len %d order %d) produced different output than one-chunk-per-message delivery", s->name, KN[kind], sp_step[0], sp_pos[0], sp_mode[0], sp_step[1], sp_pos[1], bytes_mode, group_mask, ride_at, ride_len, ride_order);
	}
	xp_nontrivial();
	xp_transition();
	xp_outcome(hash64(mine.p, mine.len, 9));
	xp_state(hash_mix(hash_mix((uint64_t)si * 7 + (uint64_t)kind, (uint64_t)sp_step[0] * 1000 + (uint64_t)sp_pos[0] + (uint64_t)sp_mode[0] * 100000), hash_mix((uint64_t)group_mask * 3 + (uint64_t)bytes_mode, (uint64_t)ride_at * 1000 + (uint64_t)ride_len + (uint64_t)ride_order * 77777 + (uint64_t)sp_step[1] * 13 + (uint64_t)sp_pos[1] * 17)));
}

/* ---- own-bytes clause ---------------------------------------------------- */
static const char *const SHAPES[][2] = {
    {"{\"id\":1,\"method\":\"info\"", "truncated-before-closing-brace"},
    {"{\"id\":1,\"method\":\"inf", "truncated-inside-string"},
    {"{\"id\":1,\"method\":\"add\",\"params\":{\"path\":\"q\",\"value\":[1,2", "truncated-inside-array"},
    {"{\"id\":1,\"method\":\"add\",\"params\":{\"path\":\"q\",\"value\":12", "truncated-inside-number"},
    {"{\"id\":1,\"method\":\"info\"}", "exact"},
    {"{\"id\":1,\"method\":\"info\"}garbage", "valid-then-garbage-inside-length"},
    {"{\"id\":1,\"method\":\"info\"}   ", "valid-then-blanks"},
    {"[{\"id\":1,\"method\":\"info\"},{\"id\":2,\"method\":\"info\"", "batch-truncated"},
    {"{\"id\":1,\"method\":\"config\",\"params\":{\"name\":\"n", "truncated-inside-nested-string"},
    {"{", "lone-brace"},
    {"[", "lone-bracket"},
    {"\"", "lone-quote"},
    {"1", "lone-digit"},
};
#define NSHAPES ((int)(sizeof(SHAPES) / sizeof(SHAPES[0])))
static const uint8_t FILLS[] = {0xAA, 0x00, '}', ']', '"', '5', ' '};
static const char RESID[] = {0, '}', ']', '"', '0', ','};

static void run_own_bytes(void)
{
	int sh = xp_choose(NSHAPES, XP_SCENARIO, "message-shape");
	int ws = xp_choose(2, XP_SCENARIO, "transport");
	int fill = xp_choose((int)sizeof(FILLS), XP_SCENARIO, "fresh-memory-fill");
	int resid = xp_choose((int)sizeof(RESID), XP_SCENARIO, "residue-of-earlier-message");
	int twin = xp_twin_begin();
	struct sim_opts o = {0};
	o.fill_byte = twin ? 0xAA : FILLS[fill];
	char rc = twin ? 0 : RESID[resid];
	jx_boot(&o);
	int A = jx_open(ws ? CL_WS : CL_RAW);
	int Bc = jx_open(CL_RAW);
	if (rc != 0) {
		/* a long message whose tail (ignored trailing bytes after a complete JSON value) stays in the read buffer, then a
		 * message that makes the buffer wrap so that the next message lands in front of that tail */
		char m0[400], m1[300];
		int n = snprintf(m0, sizeof(m0), "{\"id\":\"r0\",\"method\":\"info\"}");
		memset(m0 + n, rc, 300 - (size_t)n);
		m0[300] = 0;
		int k = snprintf(m1, sizeof(m1), "{\"id\":\"r1\",\"method\":\"info\",\"params\":{\"pad\":\"");
		memset(m1 + k, 'p', 240 - (size_t)k - 3);
		strcpy(m1 + 240 - 3, "\"}}");
		cl_send_text(A, m0);
		jx_settle();
		cl_send_text(A, m1);
		jx_settle();
	}
	int from = clients[A].nmsgs;
	cl_send_text(A, SHAPES[sh][0]);
	jx_settle();
	/* then a well-formed message and a bystander probe */
	if (!sim_conn_closed_by_daemon(A)) {
		cl_send_text(A, "{\"id\":\"after\",\"method\":\"info\"}");
		jx_settle();
	}
	jx_sendf(Bc, "{\"id\":\"b\",\"method\":\"info\"}");
	jx_settle();
	struct bytebuf mine = {0}, other = {0};
	bb_printf(&mine, "closed=%d\n", sim_conn_closed_by_daemon(A));
	cl_normalised_transcript(A, &mine, from);
	bb_printf(&mine, "-- bystander\n");
	cl_normalised_transcript(Bc, &mine, 0);
	if (twin) {
		xp_twin_end(&mine, NULL);
	}
	xp_twin_end(&mine, &other);
	if (mine.len != other.len || memcmp(mine.p, other.p, mine.len) != 0) {
		xp_logf("---- fill 0x%02x, residue '%c' ----\n%s---- reference (fill 0xAA, no residue) ----\n%s", FILLS[fill], rc ? rc : '-', (char *)mine.p, (char *)other.p);
		char key[200];
		snprintf(key, sizeof(key), "message-read-beyond-its-bytes:%s", SHAPES[sh][1]);
		xp_fail(key, "message shape '%s' on %s: with buffer bytes outside the message set to fill 0x%02x / residue '%c' the daemon answers differently than with other contents: the message is not interpreted from its own bytes only", SHAPES[sh][1], ws ? "websocket" : "raw", FILLS[fill], rc ? rc : '-');
	}
	xp_nontrivial();
	xp_transition();
	xp_outcome(hash64(mine.p, mine.len, 4));
	xp_state(hash_mix((uint64_t)sh * 1000 + (uint64_t)fill * 10 + (uint64_t)resid, (uint64_t)ws + 99));
}

static void run_lengths(void)
{
	/* zero length is skipped; a length above the configured maximum ends the connection and changes nothing else */
	static const uint32_t LENS[] = {0, CONFIG_MAX_MESSAGE_SIZE - 1, CONFIG_MAX_MESSAGE_SIZE, CONFIG_MAX_MESSAGE_SIZE + 1, 0x80000000u, 0xffffffffu, 0x00010000u};
	int li = xp_choose((int)(sizeof(LENS) / sizeof(LENS[0])), XP_SCENARIO, "length");
	int split = xp_choose(4, XP_DEV, "prefix-split");
	struct sim_opts o = {0};
	jx_boot(&o);
	int A = jx_open(CL_RAW), Bc = jx_open(CL_RAW);
	jx_sendf(Bc, "{\"id\":1,\"method\":\"add\",\"params\":{\"path\":\"keep\",\"value\":1}}");
	jx_settle();
	uint32_t L = LENS[li];
	uint8_t h[4] = {(uint8_t)(L >> 24), (uint8_t)(L >> 16), (uint8_t)(L >> 8), (uint8_t)L};
	if (split > 0) {
		sim_client_send(A, h, (size_t)split);
		jx_settle();
		sim_client_send(A, h + split, 4 - (size_t)split);
	} else {
		sim_client_send(A, h, 4);
	}
	jx_settle();
	char what[100];
	snprintf(what, sizeof(what), "length prefix %u", L);
	if (L == 0) {
		if (sim_conn_closed_by_daemon(A)) {
			xp_fail("zero-length-not-skipped", "%s: the connection was closed instead of the empty message being skipped", what);
		}
		jx_sendf(A, "{\"id\":7,\"method\":\"info\"}");
		jx_settle();
		if (!jx_is_success(jx_find_response_num(A, 7, 0))) {
			xp_fail("zero-length-not-skipped", "%s: the following message was not processed normally", what);
		}
	} else if (L > CONFIG_MAX_MESSAGE_SIZE) {
		if (!sim_conn_closed_by_daemon(A)) {
			/* the daemon may wait for the payload only if it could ever fit */
			xp_fail("oversize-length-not-ending-connection", "%s exceeds the configured maximum of %d but the connection stays open", what, CONFIG_MAX_MESSAGE_SIZE);
		}
	} else {
		/* a legal length: the daemon waits for the payload; deliver one */
		if (sim_conn_closed_by_daemon(A)) {
			xp_fail("legal-length-refused", "%s is within the configured maximum but the connection was closed", what);
		}
		char *pl = malloc(L + 1);
		memset(pl, ' ', L);
		memcpy(pl, "{\"id\":8,\"method\":\"info\"}", 24);
		sim_client_send(A, pl, L);
		jx_settle();
		free(pl);
		if (!jx_is_success(jx_find_response_num(A, 8, 0))) {
			xp_fail("legal-length-refused", "%s: a message of exactly that size was not processed", what);
		}
	}
	int from = clients[Bc].nmsgs;
	jx_sendf(Bc, "{\"id\":2,\"method\":\"get\",\"params\":{}}");
	jx_settle();
	struct cl_msg *g = jx_find_response_num(Bc, 2, from);
	if (g == NULL || g->cls != MC_RESULT || cJSON_GetArraySize(cJSON_GetObjectItemCaseSensitive(g->json, "result")) != 1) {
		xp_fail("length-handling-disturbs-others", "%s: afterwards a bystander's get does not show exactly its own state", what);
	}
	xp_nontrivial();
	xp_transition();
	xp_state(hash_mix((uint64_t)L, (uint64_t)split));
}


/* ---- section 3: input that is already there when the daemon accepts the connection -------------------------------------
 * The same byte stream (a whole short life of a connection) reaches the daemon in four timings: completely queued before the
 * daemon has accepted the connection (with or without the client's end of stream in that same batch), after the accept in one
 * piece (the reference), and byte by byte.  What the daemon writes on that connection, whether it closes it, and what a
 * witness connection sees afterwards must not depend on the timing. */
struct life {
	const char *name;
	int endpoint; /* 0 raw tcp, 1 unix socket, 2 http/websocket */
	int nparts;
	const char *parts[5]; /* "H" = valid upgrade request; "T:<json>" = text frame / raw message; "C" = ws close 1000; "P" = ws ping; anything else = literal bytes */
};
static const struct life LIVES[] = {
    {"raw: one request", 0, 1, {"T:{\"id\":1,\"method\":\"info\"}"}},
    {"raw: add then a request that is refused", 0, 2, {"T:{\"id\":1,\"method\":\"add\",\"params\":{\"path\":\"life\",\"value\":1}}", "T:{\"id\":2,\"method\":\"nosuch\"}"}},
    {"raw: invalid JSON", 0, 1, {"T:{\"id\":1,\"method\":"}},
    {"raw: oversize length prefix", 0, 1, {"\x7f\xff\xff\xff"}},
    {"raw: nothing at all", 0, 0, {NULL}},
    {"unix: one request", 1, 1, {"T:{\"id\":1,\"method\":\"info\"}"}},
    {"unix: invalid JSON", 1, 1, {"T:[1,"}},
    {"http: unknown URL", 2, 1, {"GET /nothing HTTP/1.1\r\nHost: x\r\n\r\n"}},
    {"http: malformed start line", 2, 1, {"GET /api/jet/ HTTX\r\n\r\n"}},
    {"http: POST", 2, 1, {"POST /api/jet/ HTTP/1.1\r\nHost: x\r\nContent-Length: 0\r\n\r\n"}},
    {"http: nothing at all", 2, 0, {NULL}},
    {"http: half a request line", 2, 1, {"GET /api/j"}},
    {"ws: handshake only", 2, 1, {"H"}},
    {"ws: handshake, request, close", 2, 3, {"H", "T:{\"id\":1,\"method\":\"info\"}", "C"}},
    {"ws: handshake, add, ping, close", 2, 4, {"H", "T:{\"id\":1,\"method\":\"add\",\"params\":{\"path\":\"life\",\"value\":1}}", "P", "C"}},
    {"ws: handshake and close", 2, 2, {"H", "C"}},
    {"ws: handshake and an unmasked frame", 2, 2, {"H", "\x81\x02{}"}},
    {"ws: handshake and invalid JSON", 2, 2, {"H", "T:{\"id\":"}},
};
#define NLIVES ((int)(sizeof(LIVES) / sizeof(LIVES[0])))

static void run_accept_time(void)
{
	int li = xp_choose(NLIVES, XP_SCENARIO, "connection-life");
	int timing = xp_choose(5, XP_SCENARIO, "timing"); /* 0 reference: after the accept, one piece per part; 1 all queued before the accept; 2 all + end of stream before the accept; 3 after the accept, byte by byte; 4 first part before the accept, the rest after */
	int fin_at_end = xp_choose(2, XP_SCENARIO, "client-closes-at-the-end");
	static const char *const TIMING[] = {"after the accept, part by part", "everything queued before the daemon accepts", "everything and the end of stream queued before the daemon accepts", "after the accept, byte by byte", "first part before the accept, the rest after"};
	const struct life *L = &LIVES[li];
	if (timing == 2 && !fin_at_end) {
		xp_end_run();
	}
	if (timing == 4 && L->nparts < 2) {
		xp_end_run();
	}
	int twin = xp_twin_begin();
	if (twin) {
		timing = 0;
	}
	struct sim_opts o = {0};
	jx_boot(&o);
	int W = jx_open(CL_RAW);
	jx_sendf(W, "{\"id\":\"w0\",\"method\":\"fetch\",\"params\":{\"id\":\"wf\"}}");
	jx_settle();
	enum cl_kind kind = L->endpoint == 2 ? CL_WS : CL_RAW;
	int V = cl_open(kind, L->endpoint == 2 ? ROLE_HTTP : L->endpoint == 1 ? ROLE_UDS : ROLE_JET, ORG_DEFAULT);
	if (timing == 0 || timing == 3) {
		jx_settle(); /* accepted, nothing to read yet */
	}
	for (int i = 0; i < L->nparts; i++) {
		struct bytebuf b = {0};
		const char *t = L->parts[i];
		if (strcmp(t, "H") == 0) {
			bb_append(&b, CL_WS_UPGRADE_REQUEST, strlen(CL_WS_UPGRADE_REQUEST));
		} else if (strncmp(t, "T:", 2) == 0) {
			if (kind == CL_WS) {
				cl_frame_ws(&b, 1, true, 0, true, 0, t + 2, strlen(t + 2));
			} else {
				cl_frame_raw(&b, t + 2, strlen(t + 2));
			}
		} else if (strcmp(t, "C") == 0) {
			uint8_t code[2] = {0x03, 0xe8};
			cl_frame_ws(&b, 8, true, 0, true, 0, code, 2);
		} else if (strcmp(t, "P") == 0) {
			cl_frame_ws(&b, 9, true, 0, true, 0, "hi", 2);
		} else {
			bb_append(&b, t, strlen(t));
		}
		if (timing == 3) {
			for (size_t k = 0; k < b.len; k++) {
				sim_client_send(V, b.p + k, 1);
				jx_settle();
			}
		} else {
			sim_client_send(V, b.p, b.len);
			if (timing == 0 || timing == 4) {
				jx_settle();
			}
		}
		bb_free(&b);
	}
	if (timing == 1) {
		jx_settle();
	}
	if (fin_at_end && !sim_conn_client_gone(V)) {
		sim_client_fin(V);
	}
	jx_settle();
	jx_expire_all_timers(2);
	/* the witness: a fresh add is seen once, get lists what exists */
	jx_sendf(W, "{\"id\":\"w1\",\"method\":\"add\",\"params\":{\"path\":\"witness\",\"value\":7}}");
	jx_settle();
	jx_sendf(W, "{\"id\":\"w2\",\"method\":\"get\",\"params\":{}}");
	jx_settle();
	struct bytebuf mine = {0}, other = {0};
	bb_printf(&mine, "accepted=%d closed-by-daemon=%d daemon-exited=%d\n", sim_conn_accepted(V), sim_conn_closed_by_daemon(V), sim_daemon_exited());
	const struct bytebuf *out = sim_conn_output(V);
	bb_printf(&mine, "-- %zu byte(s) written to the connection\n", out->len);
	for (size_t k = 0; k < out->len; k++) {
		bb_printf(&mine, "%02x", out->p[k]);
	}
	bb_printf(&mine, "\n-- witness\n");
	cl_normalised_transcript(W, &mine, 0);
	if (twin) {
		xp_twin_end(&mine, NULL);
	}
	xp_twin_end(&mine, &other);
	if (mine.len != other.len || memcmp(mine.p, other.p, mine.len) != 0) {
		xp_logf("---- %s ----\n%s\n---- reference: %s ----\n%s", TIMING[timing], (char *)mine.p, TIMING[0], (char *)other.p);
		char key[200];
		snprintf(key, sizeof(key), "accept-time-delivery-changes-behaviour:%s", L->endpoint == 2 ? "http" : L->endpoint == 1 ? "unix" : "raw");
		xp_fail(key, "connection life '%s'%s: delivered '%s' the daemon behaves differently than when the same bytes arrive after the accept, part by part", L->name, fin_at_end ? " (client closes at the end)" : "", TIMING[timing]);
	}
	jx_close_all();
	jx_check_hygiene("hygiene:");
	xp_nontrivial();
	xp_transition();
	xp_outcome(hash64(mine.p, mine.len, 4));
	xp_state(hash_mix((uint64_t)li * 100 + (uint64_t)timing * 2 + (uint64_t)fin_at_end, 77));
}

static void run(void)
{
	switch (xp_param("section", 0)) {
	case 3:
		run_accept_time();
		break;
	case 1:
		run_own_bytes();
		break;
	case 2:
		run_lengths();
		break;
	default:
		run_sessions();
	}
}

const struct driver drv_c09 = {
    .name = "c09",
    .property = "C09",
    .run = run,
    .rule = "section 0: 19 multi-connection sessions (two of them: a websocket caller / an owner leaves with requests pending and the deadline passes) (two of them with messages of 258, 339 and the maximal 512 / 504 bytes; raw and websocket, fetch, routed requests, batches, errors, zero and oversize length prefixes, ping/pong, owner leaving, timeout) x delivery schedules {every single split point of every message and of every websocket upgrade request, with and without a would-block in between; all single bytes (queued at once / one readiness event per byte); every coalescing of runs of consecutive messages of one connection; a proper prefix of every length of the next message of another connection riding in the same batch in both dispatch orders; the client's end of stream arriving in the same batch as its last message; a connection's end of stream harvested in the same batch as the timer expiry that follows it (connection first); (thorough) pairs of split points}, each compared with the one-chunk-per-message baseline run as a twin; section 1: 13 truncated / over-long message shapes x 2 transports x 7 fresh-memory fill bytes x 6 residues of an earlier long message, compared with a reference run; section 2: length prefixes 0, max-1, max, max+1, 2^31, 2^32-1, 65536 x split positions of the prefix; section 3: 18 whole connection lives (raw, unix socket, plain HTTP, websocket; valid, refused, malformed, empty) x {client closes at the end or not} x 4 timings relative to the accept (everything queued before the daemon accepts, also with the end of stream; byte by byte after the accept; first part before and the rest after) compared with 'after the accept, part by part': bytes written to the connection, closed or not, and a witness connection's view; non-trivial = applicable schedules",
    .assumptions = "schedule parameters that do not denote a schedule of the chosen session (split position beyond the message) end the run at once and are not counted|coalescing is only applied to messages that are adjacent in the session, so the completion order of whole messages is preserved",
};
