/* C08 - access control: visibility and set/call rights follow the groups of the LAST successful authentication only.
 * section 0: every sequence (depth bound) of authenticate attempts (right / wrong password / unknown user / repeated /
 *            as different users, users whose auth object omits keys) followed by a probe suite (fetch all, get all,
 *            set every state, call every method) on every transport, for every fill byte of fresh heap memory; the
 *            reference computes the peer's groups and demands that everything granted is covered by them;
 *            a failed authentication must leave the probe output identical to the twin execution without it;
 *            the password markers never occur in any output byte or log line.
 * section 1: credential files at the 32-group limit (and beyond it).
 * section 2: local-only add (build variant 'local'): add accepted only from loopback / local-socket origins. */
#define _GNU_SOURCE
#include <crypt.h>
#include <stdlib.h>
#include <string.h>

#include "common.h"
#include "generated/cjet_config.h"

static char what[400];
static void fail8(const char *key, const char *fmt, ...) __attribute__((noreturn, format(printf, 2, 3)));
static void fail8(const char *key, const char *fmt, ...)
{
	char m[1500];
	va_list ap;
	va_start(ap, fmt);
	vsnprintf(m, sizeof(m), fmt, ap);
	va_end(ap);
	jx_log_transcripts();
	xp_fail(key, "%s: %s", what, m);
}

/* ---- users ---- */
enum { G1 = 1, G2 = 2, G3 = 4 };
struct user {
	const char *name, *password;
	const char *auth_json; /* the "auth" member as written into the file */
	unsigned fetch, set, call;
	bool admin;
};
static const struct user USERS[] = {
    {"u1", "PWMARK-alpha-11", "{\"fetchGroups\":[\"g1\"],\"setGroups\":[\"g1\"],\"callGroups\":[\"g2\"]}", G1, G1, G2, false},
    {"u2", "PWMARK-bravo-22", "{\"fetchGroups\":[\"g2\"]}", G2, 0, 0, false},
    {"u3", "PWMARK-charl-33", "{\"fetchGroups\":[\"g1\",\"g2\"],\"setGroups\":[\"g2\"],\"callGroups\":[\"g1\"]}", G1 | G2, G2, G1, false},
    {"adm", "PWMARK-delta-44", "{\"fetchGroups\":[\"g1\",\"g2\",\"g3\"],\"setGroups\":[\"g1\",\"g2\",\"g3\"],\"callGroups\":[\"g1\",\"g2\",\"g3\"]}", G1 | G2 | G3, G1 | G2 | G3, G1 | G2 | G3, true},
    {"ro", "PWMARK-echoo-55", "{}", 0, 0, 0, false},
    {"u4", "PWMARK-foxtr-66", "{\"setGroups\":[\"g3\"],\"callGroups\":[\"g3\"]}", 0, G3, G3, false},
};
#define NUSERS ((int)(sizeof(USERS) / sizeof(USERS[0])))

static char *make_passwd(void)
{
	struct bytebuf b = {0};
	bb_printf(&b, "{\"users\":{");
	for (int i = 0; i < NUSERS; i++) {
		char salt[32];
		snprintf(salt, sizeof(salt), "$1$salt%04d$", i);
		bb_printf(&b, "%s\"%s\":{\"password\":\"%s\",%s\"auth\":%s}", i ? "," : "", USERS[i].name, crypt(USERS[i].password, salt), USERS[i].admin ? "\"admin\":true," : "", USERS[i].auth_json);
	}
	bb_printf(&b, "}}");
	bb_append(&b, "", 1);
	return (char *)b.p;
}

/* ---- elements (owned by an authenticated admin peer) ---- */
struct elem {
	const char *path;
	bool method;
	const char *access_json; /* NULL = no access member */
	unsigned fetch, set, call;
};
static const struct elem ELEMS[] = {
    {"s_none", false, NULL, 0, 0, 0},
    {"s_g1", false, "{\"fetchGroups\":[\"g1\"],\"setGroups\":[\"g1\"]}", G1, G1, 0},
    {"s_g2", false, "{\"fetchGroups\":[\"g2\"],\"setGroups\":[\"g2\"]}", G2, G2, 0},
    {"s_g12", false, "{\"fetchGroups\":[\"g1\",\"g2\"],\"setGroups\":[\"g1\",\"g2\"]}", G1 | G2, G1 | G2, 0},
    {"s_f1s2", false, "{\"fetchGroups\":[\"g1\"],\"setGroups\":[\"g2\"]}", G1, G2, 0},
    {"s_f2s1", false, "{\"fetchGroups\":[\"g2\"],\"setGroups\":[\"g1\"]}", G2, G1, 0},
    {"s_g3", false, "{\"fetchGroups\":[\"g3\"],\"setGroups\":[\"g3\"]}", G3, G3, 0},
    {"s_gX", false, "{\"fetchGroups\":[\"gX\"],\"setGroups\":[\"gX\"]}", 0, 0, 0},
    {"s_fonly", false, "{\"fetchGroups\":[\"g1\"]}", G1, 0, 0},
    {"m_none", true, NULL, 0, 0, 0},
    {"m_g1", true, "{\"fetchGroups\":[\"g1\"],\"callGroups\":[\"g1\"]}", G1, 0, G1},
    {"m_g2", true, "{\"fetchGroups\":[\"g2\"],\"callGroups\":[\"g2\"]}", G2, 0, G2},
    {"m_f2c1", true, "{\"fetchGroups\":[\"g2\"],\"callGroups\":[\"g1\"]}", G2, 0, G1},
    {"m_g3", true, "{\"fetchGroups\":[\"g3\"],\"callGroups\":[\"g3\"]}", G3, 0, G3},
    {"m_conly", true, "{\"callGroups\":[\"g2\"]}", 0, 0, G2},
};
#define NELEMS ((int)(sizeof(ELEMS) / sizeof(ELEMS[0])))

/* ---- actions of the peer under test ---- */
struct act {
	const char *name;
	int user;     /* index, -1 unknown user */
	bool right_pw;
};
static const struct act ACTS[] = {
    {"auth(u1)", 0, true}, {"auth(u1,wrong-password)", 0, false}, {"auth(u2)", 1, true}, {"auth(u3)", 2, true}, {"auth(adm)", 3, true},
    {"auth(unknown-user)", -1, true}, {"auth(ro)", 4, true}, {"auth(u4)", 5, true}, {"auth(adm,wrong-password)", 3, false}, {"auth(u2,password-of-u1)", 1, false},
};
#define NACTS ((int)(sizeof(ACTS) / sizeof(ACTS[0])))

static int O, P;
static const uint8_t FILLS[] = {0xAA, 0x00, 0xFF, 0x01, 0x80};
enum { TR_RAW = 0, TR_UDS, TR_WS, NTR };
static const char *const TRN[] = {"raw tcp", "unix socket", "websocket"};

static int open_peer(int tr)
{
	return tr == TR_WS ? jx_open(CL_WS) : tr == TR_UDS ? jx_open_from(CL_RAW, ROLE_UDS, ORG_DEFAULT) : jx_open(CL_RAW);
}

static void scan_for_passwords(void)
{
	for (int cid = 0; cid < SIM_MAXCONN; cid++) {
		if (!clients[cid].used) {
			continue;
		}
		const struct bytebuf *ob = sim_conn_output(cid);
		if (ob->len >= 6 && memmem(ob->p, ob->len, "PWMARK", 6) != NULL) {
			fail8("password-in-output", "a password string occurs in the bytes written to connection %d", cid);
		}
	}
	if (sim_syslog_contains("PWMARK")) {
		fail8("password-in-log", "a password string occurs in a log line");
	}
}

static void owner_setup(void)
{
	O = jx_open(CL_RAW);
	jx_sendf(O, "{\"id\":\"oa\",\"method\":\"authenticate\",\"params\":{\"user\":\"adm\",\"password\":\"%s\"}}", USERS[3].password);
	jx_settle();
	if (!jx_is_success(jx_find_response_str(O, "oa", 0))) {
		fail8("setup-failed", "the owner could not authenticate as adm");
	}
	for (int i = 0; i < NELEMS; i++) {
		const struct elem *e = &ELEMS[i];
		jx_sendf(O, "{\"id\":\"o%d\",\"method\":\"add\",\"params\":{\"path\":\"%s\"%s%s%s}}", i, e->path, e->method ? "" : ",\"value\":1", e->access_json ? ",\"access\":" : "", e->access_json ? e->access_json : "");
		jx_settle();
		char id[16];
		snprintf(id, sizeof(id), "o%d", i);
		if (!jx_is_success(jx_find_response_str(O, id, 0))) {
			fail8("setup-failed", "the owner could not add %s", e->path);
		}
	}
}

/* probe suite; appends a canonical description of everything that was granted to 'granted' */
static void probe(unsigned pf, unsigned ps, unsigned pc, struct bytebuf *granted, const char *phase)
{
	int from = clients[P].nmsgs;
	jx_sendf(P, "{\"id\":\"pf\",\"method\":\"fetch\",\"params\":{\"id\":\"all\"}}");
	jx_settle();
	jx_sendf(P, "{\"id\":\"pg\",\"method\":\"get\",\"params\":{}}");
	jx_settle();
	bool seen_fetch[NELEMS] = {false}, seen_get[NELEMS] = {false};
	for (int i = from; i < clients[P].nmsgs; i++) {
		struct cl_msg *m = &clients[P].msgs[i];
		if (m->cls == MC_NOTIFY) {
			const cJSON *params = cJSON_GetObjectItemCaseSensitive(m->json, "params");
			const cJSON *pa = params ? cJSON_GetObjectItemCaseSensitive(params, "path") : NULL;
			for (int e = 0; e < NELEMS; e++) {
				if (cJSON_IsString(pa) && strcmp(pa->valuestring, ELEMS[e].path) == 0) {
					seen_fetch[e] = true;
				}
			}
		}
	}
	struct cl_msg *g = jx_find_response_str(P, "pg", from);
	if (g != NULL && g->cls == MC_RESULT) {
		const cJSON *arr = cJSON_GetObjectItemCaseSensitive(g->json, "result");
		const cJSON *it;
		cJSON_ArrayForEach(it, arr)
		{
			const cJSON *pa = cJSON_GetObjectItemCaseSensitive(it, "path");
			for (int e = 0; e < NELEMS; e++) {
				if (cJSON_IsString(pa) && strcmp(pa->valuestring, ELEMS[e].path) == 0) {
					seen_get[e] = true;
				}
			}
		}
	}
	for (int e = 0; e < NELEMS; e++) {
		if ((seen_fetch[e] || seen_get[e]) && (ELEMS[e].fetch & pf) == 0) {
			char key[160];
			snprintf(key, sizeof(key), "visible-without-fetch-group:%s:%s", seen_fetch[e] ? "fetch" : "get", ELEMS[e].access_json ? "declared" : "undeclared");
			fail8(key, "%s: element %s (fetch groups 0x%x) is delivered by %s to a peer whose fetch groups are 0x%x", phase, ELEMS[e].path, ELEMS[e].fetch, seen_fetch[e] ? "fetch" : "get", pf);
		}
		if (seen_fetch[e] || seen_get[e]) {
			bb_printf(granted, "%s sees %s%s%s\n", phase, ELEMS[e].path, seen_fetch[e] ? " fetch" : "", seen_get[e] ? " get" : "");
			xp_count("grants_visible", 1);
		}
	}
	/* elements that appear AFTER the peer subscribed take the other delivery path (find fetchers for a new element) */
	{
		static const struct {
			const char *path, *access;
			unsigned fetch;
		} LATE[] = {{"late_g1", "{\"fetchGroups\":[\"g1\"]}", G1}, {"late_g2", "{\"fetchGroups\":[\"g2\"]}", G2}, {"late_g3", "{\"fetchGroups\":[\"g3\"],\"setGroups\":[\"g1\",\"g2\"]}", G3}, {"late_none", NULL, 0}};
		int from2 = clients[P].nmsgs;
		for (size_t i = 0; i < sizeof(LATE) / sizeof(LATE[0]); i++) {
			jx_sendf(O, "{\"id\":\"la%zu\",\"method\":\"add\",\"params\":{\"path\":\"%s\",\"value\":1%s%s}}", i, LATE[i].path, LATE[i].access ? ",\"access\":" : "", LATE[i].access ? LATE[i].access : "");
			jx_sendf(O, "{\"id\":\"lc%zu\",\"method\":\"change\",\"params\":{\"path\":\"%s\",\"value\":2}}", i, LATE[i].path);
			jx_settle();
		}
		for (size_t i = 0; i < sizeof(LATE) / sizeof(LATE[0]); i++) {
			jx_sendf(O, "{\"id\":\"lr%zu\",\"method\":\"remove\",\"params\":{\"path\":\"%s\"}}", i, LATE[i].path);
		}
		jx_settle();
		for (int k = from2; k < clients[P].nmsgs; k++) {
			struct cl_msg *m = &clients[P].msgs[k];
			if (m->cls != MC_NOTIFY) {
				continue;
			}
			const cJSON *params = cJSON_GetObjectItemCaseSensitive(m->json, "params");
			const cJSON *pa = params ? cJSON_GetObjectItemCaseSensitive(params, "path") : NULL;
			for (size_t i = 0; i < sizeof(LATE) / sizeof(LATE[0]); i++) {
				if (cJSON_IsString(pa) && strcmp(pa->valuestring, LATE[i].path) == 0) {
					if ((LATE[i].fetch & pf) == 0) {
						char key[160];
						snprintf(key, sizeof(key), "visible-without-fetch-group:event-after-fetch:%s", LATE[i].access ? "declared" : "undeclared");
						fail8(key, "%s: the peer (fetch groups 0x%x) subscribed first; it is then told about %s (fetch groups 0x%x): %.160s", phase, pf, LATE[i].path, LATE[i].fetch, m->text);
					}
					bb_printf(granted, "%s is told about %s\n", phase, LATE[i].path);
					xp_count("grants_visible", 1);
				}
			}
		}
	}
	/* set / call: accepted for routing = delivered to the owner */
	for (int e2 = 0; e2 < 2 * NELEMS; e2++) {
		/* every element twice: as a request with an id and as a notification without one (nobody is told about a refusal then - the
		 * refusal must happen all the same) */
		int e = e2 % NELEMS;
		bool with_id = e2 < NELEMS;
		int fo = clients[O].nmsgs;
		char idm[24] = "";
		if (with_id) {
			snprintf(idm, sizeof(idm), "\"id\":\"p%c%d\",", ELEMS[e].method ? 'c' : 's', e);
		}
		if (ELEMS[e].method) {
			jx_sendf(P, "{%s\"method\":\"call\",\"params\":{\"path\":\"%s\",\"args\":[%d]}}", idm, ELEMS[e].path, e);
		} else {
			jx_sendf(P, "{%s\"method\":\"set\",\"params\":{\"path\":\"%s\",\"value\":%d}}", idm, ELEMS[e].path, 100 + e);
		}
		jx_settle();
		bool routed = false;
		for (int i = fo; i < clients[O].nmsgs; i++) {
			if (clients[O].msgs[i].cls == MC_ROUTED) {
				routed = true;
			}
		}
		jx_reply_routed(O, "\"result\":true");
		jx_settle();
		unsigned need = ELEMS[e].method ? ELEMS[e].call : ELEMS[e].set;
		unsigned have = ELEMS[e].method ? pc : ps;
		if (routed && (need & have) == 0) {
			char key[160];
			snprintf(key, sizeof(key), "%s-routed-without-group:%s%s", ELEMS[e].method ? "call" : "set", ELEMS[e].access_json ? "declared" : "undeclared", with_id ? "" : ":request-without-id");
			fail8(key, "%s: %s on %s (groups 0x%x) was accepted and routed to the owner although the peer's %s groups are 0x%x", phase, ELEMS[e].method ? "call" : "set", ELEMS[e].path, need, ELEMS[e].method ? "call" : "set", have);
		}
		if (routed) {
			bb_printf(granted, "%s may %s %s%s\n", phase, ELEMS[e].method ? "call" : "set", ELEMS[e].path, with_id ? "" : " (without id)");
			xp_count("grants_set_call", 1);
		}
	}
	/* drop the probe's fetch so that a later authenticate is not refused because of it */
	jx_sendf(P, "{\"id\":\"pu\",\"method\":\"unfetch\",\"params\":{\"id\":\"all\"}}");
	jx_settle();
	scan_for_passwords();
}

static void run_sequences(void)
{
	int depth = (int)xp_param("depth", 2);
	int tr = xp_choose(NTR, XP_SCENARIO, "transport");
	int fi = xp_choose((int)sizeof(FILLS), XP_SCENARIO, "fresh-memory-fill");
	int seq[8], n = 0;
	for (int d = 0; d < depth; d++) {
		int c = xp_choose(NACTS + 1, XP_ACTION, "action");
		if (c == NACTS) {
			break;
		}
		seq[n++] = c;
	}
	int probe_between = n >= 2 ? xp_choose(2, XP_SCENARIO, "probe-between") : 0; /* run the probe suite also before the last action */
	bool has_failure = false;
	for (int i = 0; i < n; i++) {
		const struct act *a = &ACTS[seq[i]];
		if (a->user < 0 || !a->right_pw) {
			has_failure = true;
		}
	}
	int twin = has_failure ? xp_twin_begin() : 0;
	struct sim_opts o = {0};
	char *pw = make_passwd();
	o.passwd_file = pw;
	o.fill_byte = FILLS[fi];
	jx_boot(&o);
	owner_setup();
	P = open_peer(tr);
	struct bytebuf trail = {0}, granted = {0};
	unsigned pf = 0, ps = 0, pc = 0;
	for (int i = 0; i < n; i++) {
		const struct act *a = &ACTS[seq[i]];
		bb_printf(&trail, "%s%s", i ? " ; " : "", a->name);
	}
	snprintf(what, sizeof(what), "%s peer, fresh memory 0x%02x, sequence [%s]", TRN[tr], FILLS[fi], trail.p ? (char *)trail.p : "");
	for (int i = 0; i < n; i++) {
		const struct act *a = &ACTS[seq[i]];
		bool ok = a->user >= 0 && a->right_pw;
		if (probe_between && i == n - 1) {
			probe(pf, ps, pc, &granted, "before-last");
		}
		if (twin && !ok) {
			continue; /* the twin leaves out every failing attempt */
		}
		const char *uname = a->user >= 0 ? USERS[a->user].name : "nobody";
		const char *pwd = a->user < 0 ? "PWMARK-guess-00" : a->right_pw ? USERS[a->user].password : (seq[i] == 9 ? USERS[0].password : "PWMARK-wrong-99");
		int from = clients[P].nmsgs;
		jx_sendf(P, "{\"id\":\"a%d\",\"method\":\"authenticate\",\"params\":{\"user\":\"%s\",\"password\":\"%s\"}}", i, uname, pwd);
		jx_settle();
		char id[8];
		snprintf(id, sizeof(id), "a%d", i);
		struct cl_msg *r = jx_find_response_str(P, id, from);
		if (r == NULL) {
			fail8("authenticate-not-answered", "step %d (%s) got no response", i, a->name);
		}
		if (jx_is_success(r) && !ok) {
			char key[100];
			snprintf(key, sizeof(key), "authenticate-accepted:%s", a->user < 0 ? "unknown-user" : "wrong-password");
			fail8(key, "step %d (%s) was answered with success", i, a->name);
		}
		if (jx_is_success(r)) {
			pf = USERS[a->user].fetch;
			ps = USERS[a->user].set;
			pc = USERS[a->user].call;
			xp_count("successful_authentications", 1);
		}
	}
	probe(pf, ps, pc, &granted, "final");
	if (has_failure) {
		/* a failed authentication changes nothing: what is granted must be identical to the run without the failing attempts */
		if (twin) {
			xp_twin_end(&granted, NULL);
		}
		struct bytebuf other = {0};
		xp_twin_end(&granted, &other);
		if (granted.len != other.len || (granted.len > 0 && memcmp(granted.p, other.p, granted.len) != 0)) {
			bb_append(&granted, "", 1);
			bb_append(&other, "", 1);
			xp_logf("---- granted with the failing attempts ----\n%s---- granted without them ----\n%s", (char *)granted.p, (char *)other.p);
			fail8("failed-authentication-changes-rights", "the rights granted differ from the run in which the failing authentication attempts are left out");
		}
	}
	xp_nontrivial();
	xp_transition();
	xp_outcome(hash64(granted.p, granted.len, 8));
	xp_state(hash_mix(hash64(trail.p, trail.len, 3), (uint64_t)tr * 64 + (uint64_t)fi * 2 + (uint64_t)probe_between));
}

/* ---- the 32-group limit ---- */
static void run_group_limit(void)
{
	int ngroups = 30 + xp_choose(4, XP_SCENARIO, "groups-in-file"); /* 30..33 */
	static const int GSEL[] = {0, 1, 15, 29, 30, 31};
	int ug = GSEL[xp_choose(6, XP_SCENARIO, "user-group")];
	int eg = GSEL[xp_choose(6, XP_SCENARIO, "element-group")];
	if (ug >= ngroups || eg >= ngroups) {
		xp_end_run();
	}
	int tr = xp_choose(NTR, XP_SCENARIO, "transport");
	struct bytebuf b = {0};
	/* user "wide" holds all groups (so that the file defines them, in order), user "one" holds exactly group ug */
	bb_printf(&b, "{\"users\":{\"wide\":{\"password\":\"%s\",\"auth\":{\"fetchGroups\":[", crypt("PWMARK-wide", "$1$saltwide$"));
	for (int i = 0; i < ngroups; i++) {
		bb_printf(&b, "%s\"grp%d\"", i ? "," : "", i);
	}
	bb_printf(&b, "],\"setGroups\":[],\"callGroups\":[]}},\"one\":{\"password\":\"%s\",\"auth\":{\"fetchGroups\":[\"grp%d\"],\"setGroups\":[\"grp%d\"],\"callGroups\":[]}}}}", crypt("PWMARK-one", "$1$saltone1$"), ug, ug);
	bb_append(&b, "", 1);
	snprintf(what, sizeof(what), "credential file with %d groups, user with grp%d, element with grp%d, %s peer", ngroups, ug, eg, TRN[tr]);
	struct sim_opts o = {0};
	o.passwd_file = (char *)b.p;
	if (!sim_boot(&o)) {
		/* refusing to start with an unusable credential file is a clean failure */
		xp_count("daemon_refused_to_start", 1);
		if (ngroups <= 32) {
			fail8("legal-credential-file-refused", "the daemon does not start with a credential file of %d groups", ngroups);
		}
		xp_transition();
		xp_state(hash_mix((uint64_t)ngroups, 999));
		xp_end_run();
	}
	O = jx_open(CL_RAW);
	jx_sendf(O, "{\"id\":\"oa\",\"method\":\"authenticate\",\"params\":{\"user\":\"wide\",\"password\":\"PWMARK-wide\"}}");
	jx_sendf(O, "{\"id\":\"o1\",\"method\":\"add\",\"params\":{\"path\":\"e\",\"value\":1,\"access\":{\"fetchGroups\":[\"grp%d\"],\"setGroups\":[\"grp%d\"]}}}", eg, eg);
	jx_settle();
	P = open_peer(tr);
	jx_sendf(P, "{\"id\":\"pa\",\"method\":\"authenticate\",\"params\":{\"user\":\"one\",\"password\":\"PWMARK-one\"}}");
	jx_settle();
	bool authed = jx_is_success(jx_find_response_str(P, "pa", 0));
	int from = clients[P].nmsgs, fo = clients[O].nmsgs;
	jx_sendf(P, "{\"id\":\"pg\",\"method\":\"get\",\"params\":{}}");
	jx_sendf(P, "{\"id\":\"ps\",\"method\":\"set\",\"params\":{\"path\":\"e\",\"value\":2}}");
	jx_settle();
	struct cl_msg *g = jx_find_response_str(P, "pg", from);
	bool sees = g != NULL && g->cls == MC_RESULT && cJSON_GetArraySize(cJSON_GetObjectItemCaseSensitive(g->json, "result")) > 0;
	bool routed = false;
	for (int i = fo; i < clients[O].nmsgs; i++) {
		if (clients[O].msgs[i].cls == MC_ROUTED) {
			routed = true;
		}
	}
	bool entitled = authed && ug == eg;
	if ((sees || routed) && !entitled) {
		char key[100];
		snprintf(key, sizeof(key), "group-confusion:%s", ngroups > 32 ? "more-than-32-groups" : "within-limit");
		fail8(key, "the peer %s although its only group grp%d is not the element's group grp%d (authenticated: %d)", sees ? "sees the element" : "may set the element", ug, eg, authed);
	}
	scan_for_passwords();
	if (sees || routed) {
		xp_count("grants", 1);
	}
	xp_nontrivial();
	xp_transition();
	xp_outcome((uint64_t)sees * 2 + (uint64_t)routed);
	xp_state(hash_mix((uint64_t)ngroups * 4096 + (uint64_t)ug * 64 + (uint64_t)eg, (uint64_t)tr));
}

/* ---- local-only add ---- */
static void run_local_add(void)
{
	int org = xp_choose(ORG_COUNT, XP_SCENARIO, "origin");
	int listener = xp_choose(3, XP_SCENARIO, "listener"); /* 0 jet tcp, 1 websocket, 2 unix socket */
	int fi = xp_choose((int)sizeof(FILLS), XP_SCENARIO, "fresh-memory-fill");
	static const char *const ORGN[] = {"default", "::1", "::ffff:127.0.0.1", "::ffff:127.0.0.2", "::ffff:10.0.0.1", "2001:db8::1", "127.0.0.1 (AF_INET)", "127.0.0.2 (AF_INET)", "remote (AF_INET)", "AF_UNIX unnamed", "AF_UNIX abstract, bytes imitating ::1", "fd00::7f00:1", "1:2:3:4:5:ffff:7f00:1", "::127.0.0.1", "8000::1", "::"};
	int lo = xp_choose(2, XP_SCENARIO, "listener-setup"); /* 1: daemon started with -l (separate AF_INET and AF_INET6 loopback listeners) */
	bool unix_org = org == ORG_UNIX_UNNAMED || org == ORG_UNIX_ABSTRACT_ADV;
	bool v4_org = org == ORG_V4_LOOP || org == ORG_V4_127_2 || org == ORG_V4_REMOTE;
	if (org != ORG_DEFAULT && (listener == 2) != unix_org) {
		xp_end_run(); /* AF_UNIX addresses only occur on the unix listener and vice versa */
	}
	if (v4_org && !lo) {
		xp_end_run(); /* AF_INET peer addresses only occur on the AF_INET listeners of the -l set-up */
	}
	snprintf(what, sizeof(what), "add from origin %s on listener %d (fill 0x%02x), build with local-only add = %d", ORGN[org], listener, FILLS[fi], (int)CONFIG_ALLOW_ADD_ONLY_FROM_LOCALHOST);
	struct sim_opts o = {0};
	o.fill_byte = FILLS[fi];
	o.local_only = lo != 0;
	jx_boot(&o);
	int c = cl_open(listener == 1 ? CL_WS : CL_RAW, listener == 0 ? ROLE_JET : listener == 1 ? ROLE_HTTP : ROLE_UDS, (enum sim_origin)org);
	if (listener == 1) {
		sim_client_send(c, CL_WS_UPGRADE_REQUEST, strlen(CL_WS_UPGRADE_REQUEST));
	}
	jx_settle();
	jx_sendf(c, "{\"id\":\"la\",\"method\":\"add\",\"params\":{\"path\":\"lp\",\"value\":1}}");
	jx_settle();
	bool accepted = jx_is_success(jx_find_response_str(c, "la", 0));
	bool local_origin = org == ORG_V6_LOOPBACK || org == ORG_V6_MAPPED_LOOP || org == ORG_V4_LOOP || unix_org || (org == ORG_DEFAULT);
	if (CONFIG_ALLOW_ADD_ONLY_FROM_LOCALHOST && accepted && !local_origin) {
		char key[100];
		snprintf(key, sizeof(key), "add-accepted-from-remote-origin:%d", org);
		fail8(key, "add was accepted although the connection does not come from loopback or a local socket");
	}
	xp_count(accepted ? "add_accepted" : "add_refused", 1);
	xp_nontrivial();
	xp_transition();
	xp_outcome((uint64_t)accepted);
	xp_state(hash_mix((uint64_t)org * 16 + (uint64_t)listener, (uint64_t)fi * 2 + (uint64_t)lo));
}

/* ---- section 3: accounts whose password member is not the complete hash of any password ------------------------------------
 * Locked accounts ("*", "!"), accounts without a password (""), a salt without a hash, a hash that lost its last character or
 * gained one, a hash in another case: nobody can authenticate as them, whatever is offered - in particular not the stored
 * string itself, the empty string or libcrypt's failure tokens.  Reference: an attempt succeeds iff crypt(attempt, stored)
 * is exactly the stored string (computed here with the system's libcrypt).  A refused attempt grants nothing. */
static void run_degenerate_accounts(void)
{
	static char full[128], cut[128], longer[128], upper[128];
	snprintf(full, sizeof(full), "%s", crypt("PWMARK-real-77", "$1$saltfull$"));
	snprintf(cut, sizeof(cut), "%s", full);
	cut[strlen(cut) - 1] = 0;
	snprintf(longer, sizeof(longer), "%sA", full);
	snprintf(upper, sizeof(upper), "%s", full);
	for (char *c = upper + 12; *c; c++) {
		if (*c >= 'a' && *c <= 'z') {
			*c = (char)(*c - 32);
		}
	}
	const char *const STORED[] = {full, "*", "!", "", "x", "$1$saltonly$", "$6$QieAoprju2Gf$", "ab", cut, longer, upper, "*0", "$1$"};
	static const char *const STOREDN[] = {"complete hash", "'*'", "'!'", "empty", "'x'", "md5 salt without hash", "sha512 salt without hash", "two-character DES salt", "hash without its last character", "hash with one more character", "hash in upper case", "'*0'", "'$1$'"};
	const int NST = (int)(sizeof(STORED) / sizeof(STORED[0]));
	int k = xp_choose(NST, XP_SCENARIO, "stored-password-member");
	const char *const ATTEMPTS[] = {"PWMARK-real-77", "PWMARK-guess-00", "", "*", "*0", "*1", STORED[k], "x"};
	const int NAT = (int)(sizeof(ATTEMPTS) / sizeof(ATTEMPTS[0]));
	int a = xp_choose(NAT, XP_SCENARIO, "offered-password");
	int tr = xp_choose(NTR, XP_SCENARIO, "transport");
	snprintf(what, sizeof(what), "account whose password member is %s, offered password #%d, %s peer", STOREDN[k], a, TRN[tr]);
	struct bytebuf b = {0};
	char hadm[128];
	snprintf(hadm, sizeof(hadm), "%s", crypt("PWMARK-delta-44", "$1$saltadm0$"));
	char *sj = NULL;
	{
		cJSON *j = cJSON_CreateString(STORED[k]);
		sj = cJSON_PrintUnformatted(j);
		cJSON_Delete(j);
	}
	bb_printf(&b, "{\"users\":{\"adm\":{\"password\":\"%s\",\"admin\":true,\"auth\":{\"fetchGroups\":[\"g1\"],\"setGroups\":[\"g1\"],\"callGroups\":[\"g1\"]}},\"victim\":{\"password\":%s,\"admin\":true,\"auth\":{\"fetchGroups\":[\"g1\"],\"setGroups\":[\"g1\"],\"callGroups\":[\"g1\"]}}}}", hadm, sj);
	bb_append(&b, "", 1);
	free(sj);
	struct sim_opts o = {0};
	o.passwd_file = (char *)b.p;
	if (!sim_boot(&o)) {
		xp_count("daemon_refused_to_start", 1); /* refusing such a file is a clean answer too */
		xp_transition();
		xp_state(hash_mix((uint64_t)k, 998));
		xp_end_run();
	}
	O = jx_open(CL_RAW);
	jx_sendf(O, "{\"id\":\"oa\",\"method\":\"authenticate\",\"params\":{\"user\":\"adm\",\"password\":\"PWMARK-delta-44\"}}");
	jx_sendf(O, "{\"id\":\"o1\",\"method\":\"add\",\"params\":{\"path\":\"secret\",\"value\":1,\"access\":{\"fetchGroups\":[\"g1\"],\"setGroups\":[\"g1\"]}}}");
	jx_settle();
	if (!jx_is_success(jx_find_response_str(O, "o1", 0))) {
		fail8("setup-failed", "the owner could not add the protected state");
	}
	P = open_peer(tr);
	char *aj = NULL;
	{
		cJSON *j = cJSON_CreateString(ATTEMPTS[a]);
		aj = cJSON_PrintUnformatted(j);
		cJSON_Delete(j);
	}
	jx_sendf(P, "{\"id\":\"pa\",\"method\":\"authenticate\",\"params\":{\"user\":\"victim\",\"password\":%s}}", aj);
	free(aj);
	jx_settle();
	struct cl_msg *r = jx_find_response_str(P, "pa", 0);
	if (r == NULL) {
		fail8("authenticate-not-answered", "no response");
	}
	const char *h = crypt(ATTEMPTS[a], STORED[k]);
	bool expect = h != NULL && strcmp(h, STORED[k]) == 0;
	bool authed = jx_is_success(r);
	char key[160];
	if (authed && !expect) {
		snprintf(key, sizeof(key), "authenticate-accepted:stored-member-is-no-hash-of-the-offered-password:%s", k == 0 ? "complete-hash" : "degenerate-member");
		fail8(key, "the attempt was answered with success although crypt(offered, stored) is %s%s%s, not the stored member", h ? "'" : "", h ? h : "NULL", h ? "'" : "");
	}
	if (!authed && expect) {
		fail8("authenticate-refused:right-password", "the right password of a complete hash was refused");
	}
	int from = clients[P].nmsgs, fo = clients[O].nmsgs;
	jx_sendf(P, "{\"id\":\"pg\",\"method\":\"get\",\"params\":{}}");
	jx_sendf(P, "{\"id\":\"ps\",\"method\":\"set\",\"params\":{\"path\":\"secret\",\"value\":2}}");
	jx_sendf(P, "{\"id\":\"pf\",\"method\":\"fetch\",\"params\":{\"id\":\"f\"}}");
	jx_settle();
	struct cl_msg *g = jx_find_response_str(P, "pg", from);
	bool sees = g != NULL && g->cls == MC_RESULT && cJSON_GetArraySize(cJSON_GetObjectItemCaseSensitive(g->json, "result")) > 0;
	bool routed = false, notified = false;
	for (int i = fo; i < clients[O].nmsgs; i++) {
		routed |= clients[O].msgs[i].cls == MC_ROUTED;
	}
	for (int i = from; i < clients[P].nmsgs; i++) {
		notified |= clients[P].msgs[i].cls == MC_NOTIFY;
	}
	if ((sees || routed || notified) && !expect) {
		fail8("refused-authentication-grants-access", "after the refused attempt the peer %s", sees ? "gets the protected state" : routed ? "may set the protected state" : "is notified about the protected state");
	}
	xp_count(expect ? "attempts_that_must_succeed" : "attempts_that_must_fail", 1);
	xp_nontrivial();
	xp_transition();
	xp_outcome((uint64_t)authed * 4 + (uint64_t)sees * 2 + (uint64_t)routed);
	xp_state(hash_mix((uint64_t)k * 64 + (uint64_t)a, (uint64_t)tr + 500));
}

static void run(void)
{
	switch (xp_param("section", 0)) {
	case 3:
		run_degenerate_accounts();
		break;
	case 1:
		run_group_limit();
		break;
	case 2:
		run_local_add();
		break;
	default:
		run_sequences();
	}
}

const struct driver drv_c08 = {
    .name = "c08",
    .property = "C08",
    .run = run,
    .rule = "section 0: credential file with 6 users (group sets over g1..g3, auth objects that omit keys, an admin, a user without groups); 15 elements declaring fetch/set/call groups {none, g1, g2, g1+g2, mixed fetch/set, g3, an undefined group, fetch only, call only}; every sequence up to the depth bound of 10 authenticate actions (right, wrong password, another user's password, unknown user, six users) x 3 transports x 5 fill bytes of fresh heap memory x {probe suite only at the end, also before the last action}; probe suite = fetch all + get all + the owner adding / changing / removing four further elements while the fetch is active + set every state + call every method, each with and without a request id; oracle: everything delivered / routed is covered by the groups of the last successful authentication (none if there was none), wrong credentials are refused, sequences with failing attempts grant exactly what the twin without them grants, password markers occur in no output byte and no log line; section 1: files with 30..33 groups x user group x element group over {0,1,15,29,30,31} x transport (bit 31 and beyond); section 2: add from 16 connection origins (incl. five IPv6 near misses of ::1 and ::ffff:127.0.0.1) on the 3 listeners x fill bytes in the local-only build; section 3: an account whose password member is one of 13 forms (complete hash, '*', '!', empty, 'x', salts without hash, DES salt, hash cut / extended by one character, upper-cased hash, libcrypt failure tokens) x 8 offered passwords (the real one, a guess, empty, '*', '*0', '*1', the stored member itself, 'x') x 3 transports: success iff crypt(offered, stored) equals the stored member, a refused attempt grants neither get, fetch nor set; non-trivial = all runs",
    .assumptions = "only the safety direction of the statement is judged (a grant must be covered by a group); denied accesses are counted, not judged|a credential file with more than 32 groups may be refused at start-up",
};
