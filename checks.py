"""Registry of verification passes per property and tier (read by /verif/check and tools/gen_manifest.py)."""


def A(driver, variant="def", budget=0, params=None, merge=False, what="", deadline=3600, samples=3):
    return {"engine": "A", "driver": driver, "variant": variant, "budget": budget, "params": params or {}, "merge": merge,
            "what": what, "deadline": deadline, "samples": samples}


def B(mod, what="", deadline=3600, args=None):
    return {"engine": "B", "mod": mod, "what": what, "deadline": deadline, "args": args or []}


NOT_CLAIMED = {}

CHECKS = {
    "C02": {
        "level": "model_checking",
        "text": "Every combination of 15 method forms x 25 parameter shapes x 12 id forms is sent to the real daemon in 2 (quick) / 4 (thorough) reachable states over both transports, plus incoming result/error objects and all batch pairs (thorough: triples) compared with a one-by-one twin execution; a response ledger decides 'exactly one answer with an equal id, none for notifications, nothing on foreign connections'. Exhaustive within that alphabet, which is the right level for an input-universal protocol rule whose handlers are finite case analyses.",
        "note": "Trusted: the simulated kernel (simk) as a model of Linux sockets/epoll, the oracle's private cJSON copy, gcc ASan/UBSan. Alphabet-bounded: ids and parameter shapes outside the enumerated forms are not covered.",
        "technique": "stateless model checking of the implementation: exhaustive enumeration of a request alphabet x daemon states with a response-ledger oracle and twin executions",
        "quick": [A("c02", params={"states": 2, "transports": 2, "batch_alpha": 12}, what="method x params x id product on 2 daemon states x 2 transports; batch pairs over 12 requests (twin)")],
        "thorough": [A("c02", params={"states": 4, "transports": 2, "batch_alpha": 28, "batch_triples": 8}, what="full product on 4 daemon states x 2 transports; batch pairs over 28 members, triples with 8 third members (twin)")],
    },
}
