"""Registry of verification passes per property and tier (read by /verif/check and tools/gen_manifest.py)."""


def A(driver, variant="def", budget=0, params=None, merge=False, what="", deadline=3600, samples=3):
    return {"engine": "A", "driver": driver, "variant": variant, "budget": budget, "params": params or {}, "merge": merge,
            "what": what, "deadline": deadline, "samples": samples}


def B(mod, what="", deadline=3600, args=None):
    return {"engine": "B", "mod": mod, "what": what, "deadline": deadline, "args": args or []}


NOT_CLAIMED = {}

CHECKS = {
    "C02": {
        "level": "model_checking",
        "text": "Every combination of 15 method forms x 25 parameter shapes x 12 id forms is sent to the real daemon in 2 (quick) / 4 (thorough) reachable states over both transports, plus incoming result/error objects and all batch pairs (thorough: triples) compared with a one-by-one twin execution; a response ledger decides 'exactly one answer with an equal id, none for notifications, nothing on foreign connections'. Exhaustive within that alphabet, which is the right level for an input-universal protocol rule whose handlers are finite case analyses.",
        "note": "Trusted: the simulated kernel (simk) as a model of Linux sockets/epoll, the oracle's private cJSON copy, gcc ASan/UBSan. Alphabet-bounded: ids and parameter shapes outside the enumerated forms are not covered.",
        "technique": "stateless model checking of the implementation: exhaustive enumeration of a request alphabet x daemon states with a response-ledger oracle and twin executions",
        "quick": [A("c02", params={"states": 2, "transports": 2, "batch_alpha": 12}, what="method x params x id product on 2 daemon states x 2 transports; batch pairs over 12 requests (twin)")],
        "thorough": [A("c02", params={"states": 4, "transports": 2, "batch_alpha": 28, "batch_triples": 8}, what="full product on 4 daemon states x 2 transports; batch pairs over 28 members, triples with 8 third members (twin)")],
    },
    "C03": {
        "level": "model_checking",
        "text": "All sequences of enabled actions (requests from 2 callers and a bystander to 2 owners, owner replies incl. duplicated and forged ids, virtual-clock expiry, disconnect/reconnect of all 5 slots) up to depth 3 (quick) / 5 unmerged + 6 merged on model state (thorough) are executed on the real daemon and judged after every action by a reference model of in-flight requests (delivered once, unique id, payload unchanged, exactly one final answer with the owner's payload / timeout / shutdown error, nothing for id-less callers, forged and duplicate replies without effect); a payload layer exhausts transport x target x payload x id form x timeout x owner behaviour. The tiny variant (4-slot routing table) makes the per-owner refusal reachable.",
        "note": "Trusted: simk's model of Linux, the reference model in drivers/c03_route.c. Bounded by depth and by one payload per request in the interleaving layer; merged tier assumes implementation state is a function of (model state, remaining depth).",
        "technique": "stateless model checking of the implementation against a reference model (exhaustive action sequences to a depth bound, virtual clock, optional model-state merging)",
        "quick": [A("c03", params={"depth": 3}, what="interleavings depth 3"),
                  A("c03", params={"layer": 1}, what="payload product"),
                  A("c03", variant="tiny", params={"depth": 3, "seedstate": 1}, what="interleavings depth 3 from a seeded state with 3 requests in flight, 4-slot routing tables")],
        "thorough": [A("c03", params={"depth": 5}, what="interleavings depth 5, unmerged", deadline=1500),
                     A("c03", params={"layer": 1}, what="payload product"),
                     A("c03", variant="tiny", params={"depth": 4, "seedstate": 1}, what="tiny, depth 4 from seeded state", deadline=600),
                     A("c03", variant="tiny", params={"depth": 4}, what="tiny, depth 4", deadline=600),
                     A("c03", params={"depth": 6}, merge=True, what="interleavings depth 6 merged on (model state, remaining depth)", deadline=900)],
        "thorough_deadline": 3400,
    },
    "C14": {
        "level": "model_checking",
        "text": "On the virtual clock of the simulated kernel: the full product of 12 request-timeout forms x 5 element-timeout forms x set/call x 3 endings x 2 transports checks the deadline value and precedence, refusal of sub-millisecond / non-numeric timeouts, 'nothing 1 ns before the deadline, exactly one error in the iteration at the deadline', and that a late reply has no effect; then every non-empty subset of {owner reply, expiry, caller gone, owner gone, second expiry} is made ready at the same instant and every dispatch order and every split into two loop iterations is executed (ASan + descriptor monitor decide 'no released object is touched').",
        "note": "Trusted: simk's epoll/timerfd model (edge-triggered, arbitrary order among simultaneously ready descriptors), gcc ASan.",
        "technique": "stateless model checking of the implementation: exhaustive enumeration of timeout forms and of all batch compositions / dispatch orders of simultaneously ready events",
        "quick": [A("c14", params={"section": 0}, what="timeout value/precedence product"),
                  A("c14", params={"section": 1, "max_events": 3}, what="orderings of <= 3 simultaneous events")],
        "thorough": [A("c14", params={"section": 0}, what="timeout value/precedence product"),
                     A("c14", params={"section": 1, "max_events": 5}, what="orderings of <= 5 simultaneous events"),
                     A("c14", variant="tiny", params={"section": 1, "max_events": 5}, what="same with MAX_EPOLL_EVENTS=4 (batches are cut by the daemon's own limit)")],
    },
    "C07": {
        "level": "model_checking",
        "text": "Every sequence and every prefix of enabled actions up to depth 3 (quick) / 4 (thorough) over three jet peers (tcp, websocket, unix socket), HTTP front-door probes failing at different handshake stages, accept-path failures, routed requests with virtual-clock expiry, repeated authentication and garbage is executed on the real daemon in both listener set-ups and ended either by closing everything (peers, accounted heap, raw heap blocks, descriptors and timers must be back at the idle baseline) followed by SIGTERM, or by SIGTERM at once (everything closed and released, exit status 0). A descriptor monitor in the simulated kernel (numbers never reused) reports every double close, use after close and epoll_ctl on a foreign number; the daemon's accounted heap is sampled at every allocation against the cap (cap variant: fill until refused, then every request type).",
        "note": "Trusted: simk's descriptor table and heap counters. Bounded by depth and by the action alphabet; one known finding (HTTP connections before upgrade are not released at SIGTERM) is listed in known_findings.txt.",
        "technique": "stateless model checking of the implementation: exhaustive action sequences with resource-baseline, descriptor-hygiene and clean-exit oracles",
        "quick": [A("c07", params={"depth": 3}, what="histories depth 3 x 2 endings"),
                  A("c07", variant="tiny", params={"depth": 3}, what="same with tiny tables (routing table overflow reachable)"),
                  A("c07", params={"depth": 2, "local_only": 1}, what="daemon started with -l (5 listeners), depth 2"),
                  A("c07", variant="cap", params={"section": 1, "valsize": 300}, what="96 KiB heap cap: fill with 300-byte states until refused, then every request type"),
                  A("c07", variant="cap", params={"section": 1, "valsize": 1}, what="96 KiB heap cap, 1-byte states")],
        "thorough": [A("c07", params={"depth": 4}, what="histories depth 4 x 2 endings", deadline=900),
                     A("c07", variant="tiny", params={"depth": 4}, what="tiny tables, depth 4", deadline=900),
                     A("c07", params={"depth": 3, "local_only": 1}, what="-l set-up, depth 3"),
                     A("c07", variant="cap", params={"section": 1, "valsize": 300}, what="heap cap, 300-byte states"),
                     A("c07", variant="cap", params={"section": 1, "valsize": 40}, what="heap cap, 40-byte states"),
                     A("c07", variant="cap", params={"section": 1, "valsize": 1}, what="heap cap, 1-byte states")],
    },
    "C19": {
        "level": "model_checking",
        "text": "Module-level exhaustive enumeration against the real websocket.c + compression.c + in-tree zlib (ASan/UBSan): every extension offer of the RFC 7692 parameter lattice in every parameter order (plus malformed, duplicated, unknown and multi-offer headers) x 3 compression levels is judged by an RFC 7692 section 7.1 legality oracle; every accepted parameter set x 7 payloads x every fragmentation into <= 3 fragments x 3 consecutive messages round-trips in both directions against zlib as the reference; every compressed stream of <= 2 bytes and every single-byte substitution of valid messages must be rejected or decoded without a sanitizer report or unbounded memory.",
        "note": "Trusted: zlib as reference inflater/deflater, the in-memory buffered_reader of the harness, ASan/UBSan. In the daemon the compression level is always 0, so this code is reachable only through the module harness. Bounded by the payload and fragment-size alphabets. Four known findings (tiny payloads server->client, empty fragments) are listed in known_findings.txt.",
        "technique": "exhaustive bounded enumeration of configurations, inputs and fragmentations against a reference implementation (module-level model checking harness)",
        "quick": [B("c19", what="negotiation product, level-2 round trips, <=1-byte corrupt streams + substitutions on one message")],
        "thorough": [B("c19", what="all levels, full window lattice, <=2-byte corrupt streams + substitutions on 3 messages", deadline=1800)],
    },
    "C10": {
        "level": "model_checking",
        "text": "Explicit-state search to a fixpoint over the real buffered_socket.c + posix/socket.c compiled with a 16-byte write buffer (and boundary frame sizes of the real 5120-byte buffer): from every reachable (to_write, buffer content, frame ledger) state every frame shape, the writability callback, read and error events are applied, and at every writev call the kernel answer ranges over every accepted byte count, EAGAIN and EPIPE. On every transition the kernel's byte stream is parsed incrementally as whole frames (no partial frame followed by other data, no duplication, reordering, wrong or foreign byte), an accept-all drain on a copy must yield exactly the concatenation of accepted frames, refused frames must have contributed nothing while the connection stays open, offered bytes and iovecs stay in bounds, and no operation spins.",
        "note": "Trusted: the harness's kernel stub and stream parser. Module level (callers are the 2-iovec senders of socket_peer.c / websocket.c / http_connection.c, which never close on -1). One known finding in two buffer sizes (frame torn after a partial kernel write when the rest does not fit) is listed in known_findings.txt.",
        "technique": "explicit-state model checking of the implementation (BFS to fixpoint over canonical states, every kernel answer at every write call)",
        "quick": [B("c10", what="16-byte buffer, <= 2 frames of 16 shapes, all kernel answers, fixpoint")],
        "thorough": [B("c10", what="16-byte buffer <= 3 frames; 5120-byte buffer boundary shapes; cross-checks", deadline=1800)],
    },
    "C13": {
        "level": "model_checking",
        "text": "A valid upgrade request is truncated after every byte count (then FIN, then reset), corrupted at every byte with 6 replacement bytes, and 30 request variants (wrong path/method/version, malformed line or header, over-long lines 511..2000 bytes) are sent to the real daemon's HTTP listener; thorough additionally delivers every case split at every byte position (segmentation deviation budget 1, ~250k executions). A classifier for the statement's enumerated senses requires 'never 101' for clearly invalid requests and 101 for the untouched request; every exchange must end with the connection released, the peer count, heap, descriptors at baseline, a bystander still served, and a clean SIGTERM shutdown under ASan and the descriptor monitor (this is how a stale peer would be 'later reached').",
        "note": "Trusted: simk, the classifier (request line, truncation and listed variants only; corrupted header bytes are judged by the resource/shutdown oracle alone).",
        "technique": "stateless model checking of the implementation: exhaustive enumeration of truncations, single-byte corruptions and request variants x all single split points",
        "quick": [A("c13", budget=0, what="all truncations/corruptions/variants, one chunk")],
        "thorough": [A("c13", budget=1, what="same, each under every single split point", deadline=1500)],
    },
    "C05": {
        "level": "model_checking",
        "text": "The full table victim protocol state (10, incl. mid message and mid HTTP upgrade at every byte position) x transport (tcp, unix socket, websocket) x ending (FIN, reset seen by epoll / read / writev, oversize length, invalid JSON, three websocket protocol endings) x moment (alone; same harvested batch as a bystander message or as the expiry of one of the victim's requests, both dispatch orders) is executed on the real daemon. Consequences are computed from the state and checked on the bystanders: one remove per owned element, one error per request routed to the victim, the victim's own request dropped (late owner reply goes nowhere), descriptor closed once and never touched again (descriptor monitor), no ASan report, a bystander request in flight across the victim's life completes, change/get probes behave, peers/descriptors/timers/heap restored.",
        "note": "Trusted: simk, ASan. The byte positions cover one representative request per transport; the subscriber used by the oracle subscribed before the victim.",
        "technique": "stateless model checking of the implementation: exhaustive enumeration of a protocol-state x ending x moment x transport table with a consequence oracle",
        "quick": [A("c05", params={"stride": 1}, what="full table, every byte position"),
                  A("c05", variant="tiny", params={"stride": 1}, what="full table with tiny buffers/tables (96-byte write buffer, MAX_EPOLL_EVENTS 4)")],
        "thorough": [A("c05", params={"stride": 1}, what="full table, every byte position"),
                     A("c05", variant="tiny", params={"stride": 1}, what="full table, tiny variant")],
    },
    "C17": {
        "level": "model_checking",
        "text": "The real hashtable.h macros are instantiated for all three key types and orders 2..13 (plus an 8-bit hop_info instantiation so that the displacement code is reachable in small tables). For small orders the COMPLETE reachable state space (canonical memory image of the table) over colliding key universes that include the last bucket (wrap-around) is explored breadth-first to a fixpoint with put/get/remove; for large orders all depth-3 operation sequences from seeded states (filled neighbourhood forcing displacement, neighbourhood straddling the table end). Every transition is compared with a reference map (returned value, previous value, every other key unaffected) and with the structural invariant (each occupied slot referenced by exactly one hop bit of its home bucket), and every refusal must be justified and leave map and structure intact.",
        "note": "Trusted: the harness's reference map and invariant checker. Exhaustive for the stated universes and orders (a fixpoint, not a depth bound) for small orders; bounded depth for large orders.",
        "technique": "explicit-state model checking of the implementation (BFS to fixpoint over canonical table images; bounded exhaustive sequences from seeded states)",
        "quick": [B("c17", what="fixpoints hop-32 orders 2-3, hop-8 orders 4-5; depth-3 for string orders 7 and 13; leak scenario")],
        "thorough": [B("c17", what="all 153 sections: fixpoints hop-32 orders 2-4, hop-8 orders 4-6; depth-3 for orders 5..13, all key types", deadline=2400)],
    },
    "C18": {
        "level": "model_checking",
        "text": "(1) Product automaton of the validator's complete state with a reference RFC 3629 DFA over all 256 byte values, BFS to a fixpoint (78 product states): decides all byte strings of all lengths for the byte-wise, text and auto-aligned (< 8 bytes) entry points, with and without is_complete. (2) 32-bit fast path: thorough sweeps ALL 2^32 words from the boundary state (quick: 40^4 class representatives) plus words from every reachable mid-sequence state; 64-bit fast path: 11^8 lane classes (+ 2^32 low/high halves in thorough); each word must give the same verdict and resulting state as its bytes fed one by one. (3) all strings of length <= 6 over 11 bytes x every split into <= 3 chunks; (4) the auto-aligned front end at all 8 alignments with strings ending at the end of the heap block (ASan).",
        "note": "Trusted: the reference DFA (cross-checked against an independent arithmetic decoder on all strings of length <= 3). With (1) and induction over words the fast-path sweeps cover all word sequences.",
        "technique": "explicit-state model checking (product automaton with a reference DFA to fixpoint) plus exhaustive enumeration of all machine words for the fast paths",
        "quick": [B("c18", what="product automaton; 40^4 + 21^4 words; 11^8 lanes; chunking; alignment")],
        "thorough": [B("c18", what="product automaton; all 2^32 words (32-bit path); 11^8 + 2^32 halves (64-bit path); chunking; alignment", deadline=3000)],
        "thorough_deadline": 3300,
    },
}
