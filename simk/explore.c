/* Stateless explorer: every execution is a fresh child process that replays a choice prefix and then
 * takes the default (alternative 0) at every later choice point.  A coordinator enumerates prefixes
 * depth-first; workers (fork servers) run the children.  Nothing is sampled. */
#define _GNU_SOURCE
#include <errno.h>
#include <fcntl.h>
#include <poll.h>
#include <signal.h>
#include <stdlib.h>
#include <string.h>
#include <sys/mman.h>
#include <sys/personality.h>
#include <sys/socket.h>
#include <sys/stat.h>
#include <sys/wait.h>
#include <time.h>
#include <unistd.h>

#include "cJSON.h"
#include "simk.h"

#define XP_MAXTRACE 4096
#define XP_MAXCOUNTERS 200
#define XP_LOGMAX 16384
#define XP_CRASHMAX 12000

enum run_status { RS_OK = 0, RS_VIOLATION = 1, RS_CRASH = 2, RS_HANG = 3, RS_HARNESS = 4 };

struct xp_point {
	uint16_t chosen;
	uint16_t n;
	uint8_t kind;
};

struct counter {
	char name[56];
	long v;
};

struct run_slot {
	volatile int status;
	volatile int finished;
	uint32_t ntrace;
	uint32_t prefix_len;
	struct xp_point trace[XP_MAXTRACE];
	char key[240];
	char msg[2000];
	uint64_t outcome;
	uint32_t transitions;
	uint32_t new_states;
	uint32_t nontrivial;
	uint32_t pruned;
	int ncounters;
	struct counter counters[XP_MAXCOUNTERS];
	uint32_t loglen;
	char log[XP_LOGMAX];
	uint32_t crashlen;
	char crash[XP_CRASHMAX];
};

/* ------------------------------------------------------------ configuration */
struct param {
	char name[32];
	char value[4000];
};
static struct param params[48];
static int nparams;
static const struct driver *cur_driver;
static int opt_jobs = 16;
static int opt_budget = 0;
static double opt_deadline = 0;
static long opt_max_runs = 0;
static bool opt_merge = false;
static int opt_samples = 4;
static const char *opt_out;
static const char *opt_replay;
static bool opt_verbose;
static const char *opt_variant = "def";
static int opt_child_timeout = 60;

/* child-side state */
static struct run_slot *slot;
static const uint16_t *prefix;
static uint32_t prefix_len;
static bool in_child;
static bool child_log;
static bool child_verbose;
static bool is_twin;
static int twin_fd = -1;

/* shared visited-state table */
static uint64_t *visited;
static size_t visited_cap; /* power of two */
static volatile uint64_t *visited_count;

long xp_param(const char *name, long dflt)
{
	for (int i = 0; i < nparams; i++) {
		if (strcmp(params[i].name, name) == 0) {
			return strtol(params[i].value, NULL, 0);
		}
	}
	return dflt;
}

const char *xp_param_str(const char *name, const char *dflt)
{
	for (int i = 0; i < nparams; i++) {
		if (strcmp(params[i].name, name) == 0) {
			return params[i].value;
		}
	}
	return dflt;
}

static void set_param(const char *kv)
{
	const char *eq = strchr(kv, '=');
	if (eq == NULL || nparams >= (int)(sizeof(params) / sizeof(params[0]))) {
		fprintf(stderr, "bad --set %s\n", kv);
		exit(2);
	}
	size_t nl = (size_t)(eq - kv);
	for (int i = 0; i < nparams; i++) {
		if (strlen(params[i].name) == nl && strncmp(params[i].name, kv, nl) == 0) {
			snprintf(params[i].value, sizeof(params[i].value), "%s", eq + 1);
			return;
		}
	}
	snprintf(params[nparams].name, sizeof(params[nparams].name), "%.*s", (int)nl, kv);
	snprintf(params[nparams].value, sizeof(params[nparams].value), "%s", eq + 1);
	nparams++;
}

bool xp_replaying(void)
{
	return opt_replay != NULL;
}
bool xp_verbose(void)
{
	return child_verbose || child_log;
}

static void write_all(int fd, const void *buf, size_t len);
static bool read_all(int fd, void *buf, size_t len);

/* ----------------------------------------------------------------- child API */
void xp_logf(const char *fmt, ...)
{
	if (!in_child || (!child_log && !child_verbose)) {
		return;
	}
	char buf[2048];
	va_list ap;
	va_start(ap, fmt);
	int n = vsnprintf(buf, sizeof(buf) - 1, fmt, ap);
	va_end(ap);
	if (n < 0) {
		return;
	}
	if ((size_t)n > sizeof(buf) - 2) {
		n = sizeof(buf) - 2;
	}
	buf[n++] = '\n';
	if (child_verbose) {
		fwrite(buf, 1, (size_t)n, stdout);
		fflush(stdout);
	}
	if (slot != NULL && slot->loglen + (uint32_t)n < XP_LOGMAX) {
		memcpy(slot->log + slot->loglen, buf, (size_t)n);
		slot->loglen += (uint32_t)n;
	}
}

int xp_choose(int n, enum xp_kind kind, const char *label)
{
	if (!in_child) {
		return 0;
	}
	if (n <= 0 || n > 65535) {
		xp_harness_error("xp_choose(%d) out of range at %s", n, label);
	}
	uint32_t pos = slot->ntrace;
	if (pos >= XP_MAXTRACE) {
		xp_harness_error("trace too long (%u choice points)", pos);
	}
	int c = 0;
	if (pos < prefix_len) {
		c = prefix[pos];
		if (c >= n) {
			xp_harness_error("replay divergence at choice point %u (%s): recorded alternative %d but only %d offered", pos, label, c, n);
		}
	}
	slot->trace[pos].chosen = (uint16_t)c;
	slot->trace[pos].n = (uint16_t)n;
	slot->trace[pos].kind = (uint8_t)kind;
	slot->ntrace = pos + 1;
	if (n > 1 && (child_log || child_verbose) && (kind != XP_DEV || c != 0)) {
		xp_logf("# choice %u (%s, %s): %d of %d", pos, label, kind == XP_ACTION ? "action" : kind == XP_DEV ? "deviation" : "scenario", c, n);
	}
	return c;
}

static void finish_child(int status) __attribute__((noreturn));
static void finish_child(int status)
{
	if (slot->status == RS_OK) {
		slot->status = status;
	}
	slot->finished = 1;
	fflush(stdout);
	_exit(0);
}

static void twin_raise(uint32_t code, const char *key, const char *msg) __attribute__((noreturn));
static void twin_raise(uint32_t code, const char *key, const char *msg)
{
	struct bytebuf b = {0};
	bb_printf(&b, "%s\n%s", key, msg);
	uint32_t hdr[2] = {code, (uint32_t)b.len};
	write_all(twin_fd, hdr, sizeof(hdr));
	write_all(twin_fd, b.p, b.len);
	_exit(0);
}

void xp_fail(const char *key, const char *fmt, ...)
{
	if (is_twin) {
		char m[1800];
		va_list ap;
		va_start(ap, fmt);
		vsnprintf(m, sizeof(m), fmt, ap);
		va_end(ap);
		twin_raise(1, key, m);
	}
	if (slot->status == RS_OK) {
		va_list ap;
		va_start(ap, fmt);
		vsnprintf(slot->msg, sizeof(slot->msg), fmt, ap);
		va_end(ap);
		snprintf(slot->key, sizeof(slot->key), "%s", key);
		slot->status = RS_VIOLATION;
		xp_logf("VIOLATED [%s]: %s", slot->key, slot->msg);
	}
	finish_child(RS_VIOLATION);
}

void xp_finding(const char *key, const char *fmt, ...)
{
	if (is_twin) {
		char m[1800];
		va_list ap;
		va_start(ap, fmt);
		vsnprintf(m, sizeof(m), fmt, ap);
		va_end(ap);
		twin_raise(1, key, m);
	}
	if (slot->status == RS_OK) {
		va_list ap;
		va_start(ap, fmt);
		vsnprintf(slot->msg, sizeof(slot->msg), fmt, ap);
		va_end(ap);
		snprintf(slot->key, sizeof(slot->key), "%s", key);
		slot->status = RS_VIOLATION;
		xp_logf("VIOLATED [%s]: %s", slot->key, slot->msg);
	}
}

void xp_harness_error(const char *fmt, ...)
{
	char buf[1000];
	va_list ap;
	va_start(ap, fmt);
	vsnprintf(buf, sizeof(buf), fmt, ap);
	va_end(ap);
	if (is_twin) {
		twin_raise(2, "harness", buf);
	}
	if (in_child && slot != NULL) {
		snprintf(slot->msg, sizeof(slot->msg), "%s", buf);
		slot->status = RS_HARNESS;
		slot->finished = 1;
		fprintf(stderr, "HARNESS ERROR: %s\n", buf);
		_exit(0);
	}
	fprintf(stderr, "HARNESS ERROR: %s\n", buf);
	exit(2);
}

void xp_end_run(void)
{
	finish_child(RS_OK);
}

bool xp_state(uint64_t h)
{
	if (!in_child || is_twin) {
		return false;
	}
	if (slot->ntrace < prefix_len) {
		return false; /* still replaying the prefix: this node belongs to another run */
	}
	if (h == 0) {
		h = 1;
	}
	size_t mask = visited_cap - 1;
	size_t i = (size_t)(h * 0x9e3779b97f4a7c15ULL >> 20) & mask;
	for (size_t probes = 0; probes < visited_cap; probes++) {
		uint64_t cur = __atomic_load_n(&visited[i], __ATOMIC_ACQUIRE);
		if (cur == h) {
			if (opt_merge) {
				slot->pruned = 1;
				return true;
			}
			return false;
		}
		if (cur == 0) {
			uint64_t expected = 0;
			if (__atomic_compare_exchange_n(&visited[i], &expected, h, false, __ATOMIC_ACQ_REL, __ATOMIC_ACQUIRE)) {
				__atomic_fetch_add(visited_count, 1, __ATOMIC_RELAXED);
				slot->new_states++;
				return false;
			}
			if (expected == h) {
				if (opt_merge) {
					slot->pruned = 1;
					return true;
				}
				return false;
			}
		}
		i = (i + 1) & mask;
	}
	xp_harness_error("visited-state table full");
}

void xp_transition(void)
{
	if (in_child && !is_twin && slot->ntrace >= prefix_len) {
		slot->transitions++;
	}
}

void xp_outcome(uint64_t h)
{
	if (in_child) {
		slot->outcome = hash_mix(slot->outcome, h);
	}
}

void xp_nontrivial(void)
{
	if (in_child) {
		slot->nontrivial = 1;
	}
}

void xp_count(const char *name, long add)
{
	if (!in_child) {
		return;
	}
	for (int i = 0; i < slot->ncounters; i++) {
		if (strcmp(slot->counters[i].name, name) == 0) {
			slot->counters[i].v += add;
			return;
		}
	}
	if (slot->ncounters < XP_MAXCOUNTERS) {
		snprintf(slot->counters[slot->ncounters].name, sizeof(slot->counters[0].name), "%s", name);
		slot->counters[slot->ncounters].v = add;
		slot->ncounters++;
	}
}

/* ------------------------------------------------------------------- twins */
static pid_t twin_pid;

bool xp_is_twin(void)
{
	return is_twin;
}

int xp_twin_begin(void)
{
	int pfd[2];
	if (pipe(pfd) < 0) {
		xp_harness_error("pipe failed");
	}
	fflush(stdout);
	/* the twin must not scribble over the shared result slot: private copy, taken before the fork */
	struct run_slot *priv = malloc(sizeof(*priv));
	memcpy(priv, slot, sizeof(*priv));
	pid_t pid = fork();
	if (pid < 0) {
		xp_harness_error("fork (twin) failed");
	}
	if (pid == 0) {
		close(pfd[0]);
		twin_fd = pfd[1];
		is_twin = true;
		slot = priv;
		child_verbose = getenv("SIMK_TWIN_VERBOSE") != NULL;
		return 1;
	}
	free(priv);
	close(pfd[1]);
	twin_fd = pfd[0];
	twin_pid = pid;
	return 0;
}

void xp_twin_end(const struct bytebuf *mine, struct bytebuf *other)
{
	if (is_twin) {
		uint32_t hdr[2] = {0, (uint32_t)mine->len};
		write_all(twin_fd, hdr, sizeof(hdr));
		write_all(twin_fd, mine->p, mine->len);
		_exit(0);
	}
	uint32_t hdr[2];
	if (!read_all(twin_fd, hdr, sizeof(hdr))) {
		int wst = 0;
		waitpid(twin_pid, &wst, 0);
		/* the twin died: same sanitizer log file; report as a crash of this execution */
		fflush(stdout);
		if (WIFSIGNALED(wst)) {
			kill(getpid(), WTERMSIG(wst));
		}
		_exit(WIFEXITED(wst) && WEXITSTATUS(wst) != 0 ? WEXITSTATUS(wst) : 98);
	}
	char *buf = malloc(hdr[1] + 1);
	if (hdr[1] > 0 && !read_all(twin_fd, buf, hdr[1])) {
		xp_harness_error("twin transcript truncated");
	}
	buf[hdr[1]] = 0;
	int wst = 0;
	waitpid(twin_pid, &wst, 0);
	close(twin_fd);
	if (hdr[0] == 1) {
		/* failure raised inside the twin: "key\nmessage" */
		char *nl = strchr(buf, '\n');
		if (nl != NULL) {
			*nl = 0;
			xp_fail(buf, "(in twin execution) %s", nl + 1);
		}
		xp_fail("twin-failure", "%s", buf);
	}
	if (hdr[0] == 2) {
		xp_harness_error("(in twin execution) %s", buf);
	}
	bb_reset(other);
	bb_append(other, buf, hdr[1]);
	free(buf);
}

/* ASan / UBSan runtime configuration (read by the runtime at start-up) */
const char *__asan_default_options(void);
const char *__asan_default_options(void)
{
	return "detect_leaks=0:exitcode=99:abort_on_error=0:allocator_may_return_null=1:handle_abort=0:print_summary=1:detect_stack_use_after_return=0:malloc_context_size=12";
}
const char *__ubsan_default_options(void);
const char *__ubsan_default_options(void)
{
	return "print_stacktrace=1:exitcode=99";
}

/* ------------------------------------------------------------- run one child */
static char errfile_path[256];

static void run_child(struct run_slot *s, const uint16_t *choices, uint32_t len, bool want_log, bool verbose)
{
	memset(s, 0, offsetof(struct run_slot, trace));
	s->ntrace = 0;
	s->prefix_len = len;
	s->key[0] = s->msg[0] = 0;
	s->outcome = 0;
	s->transitions = s->new_states = s->nontrivial = s->pruned = 0;
	s->ncounters = 0;
	s->loglen = 0;
	s->crashlen = 0;
	fflush(stdout);
	pid_t pid = fork();
	if (pid < 0) {
		perror("fork");
		exit(2);
	}
	if (pid == 0) {
		in_child = true;
		slot = s;
		prefix = choices;
		prefix_len = len;
		child_log = want_log;
		child_verbose = verbose;
		int fd = open(errfile_path, O_WRONLY | O_CREAT | O_TRUNC, 0644);
		if (fd >= 0) {
			dup2(fd, 2);
			close(fd);
		}
		alarm((unsigned)opt_child_timeout);
		cur_driver->run();
		xp_end_run();
	}
	int wst = 0;
	while (waitpid(pid, &wst, 0) < 0 && errno == EINTR) {
	}
	if (s->finished) {
		return;
	}
	/* abnormal termination */
	int fd = open(errfile_path, O_RDONLY);
	if (fd >= 0) {
		ssize_t n = read(fd, s->crash, XP_CRASHMAX - 1);
		if (n < 0) {
			n = 0;
		}
		s->crash[n] = 0;
		s->crashlen = (uint32_t)n;
		close(fd);
	}
	if (WIFSIGNALED(wst) && WTERMSIG(wst) == SIGALRM) {
		s->status = RS_HANG;
		snprintf(s->key, sizeof(s->key), "hang");
		snprintf(s->msg, sizeof(s->msg), "execution did not finish within %d s (deadlock or livelock)", opt_child_timeout);
		return;
	}
	s->status = RS_CRASH;
	if (WIFSIGNALED(wst)) {
		snprintf(s->msg, sizeof(s->msg), "daemon process died with signal %d", WTERMSIG(wst));
	} else {
		snprintf(s->msg, sizeof(s->msg), "daemon process exited abnormally with status %d", WEXITSTATUS(wst));
	}
	/* derive a stable key from the sanitizer report: error class + innermost daemon frames */
	char cls[80] = "abnormal-exit";
	const char *p = strstr(s->crash, "AddressSanitizer: ");
	if (p != NULL) {
		p += strlen("AddressSanitizer: ");
		size_t i = 0;
		while (p[i] && p[i] != ' ' && p[i] != '\n' && i < sizeof(cls) - 1) {
			cls[i] = p[i];
			i++;
		}
		cls[i] = 0;
	} else if ((p = strstr(s->crash, "runtime error: ")) != NULL) {
		p += strlen("runtime error: ");
		size_t i = 0;
		while (p[i] && p[i] != '\n' && i < sizeof(cls) - 1) {
			char c = p[i];
			cls[i] = (c == ' ' || c == '\'') ? '-' : ((c >= '0' && c <= '9') ? '#' : c);
			i++;
		}
		cls[i] = 0;
	} else if (WIFSIGNALED(wst)) {
		snprintf(cls, sizeof(cls), "signal-%d", WTERMSIG(wst));
	}
	char frames[160] = "";
	int nframes = 0;
	const char *q = s->crash;
	/* stack lines look like "    #3 0x5555 in function_name /path/file.c:123" */
	while (nframes < 3 && (q = strstr(q, "\n    #")) != NULL) {
		q += 6;
		const char *in = strstr(q, " in ");
		const char *eol = strchr(q, '\n');
		if (in == NULL || (eol != NULL && in > eol)) {
			continue;
		}
		in += 4;
		char fn[64];
		size_t i = 0;
		while (in[i] && in[i] != ' ' && in[i] != '\n' && in[i] != '(' && i < sizeof(fn) - 1) {
			fn[i] = in[i];
			i++;
		}
		fn[i] = 0;
		if (strncmp(fn, "__", 2) == 0 || strncmp(fn, "simk_", 5) == 0 || strstr(fn, "interceptor") != NULL || strcmp(fn, "memcpy") == 0 || strcmp(fn, "memmove") == 0 || strcmp(fn, "strlen") == 0 || strcmp(fn, "free") == 0 || strcmp(fn, "malloc") == 0 || strcmp(fn, "printf_common") == 0 || strcmp(fn, "vsnprintf") == 0 || strcmp(fn, "snprintf") == 0 || strcmp(fn, "strcmp") == 0 || strcmp(fn, "memcmp") == 0 || strcmp(fn, "strncmp") == 0 || strcmp(fn, "strstr") == 0) {
			continue;
		}
		if (nframes > 0) {
			strncat(frames, "<", sizeof(frames) - strlen(frames) - 1);
		}
		strncat(frames, fn, sizeof(frames) - strlen(frames) - 1);
		nframes++;
	}
	snprintf(s->key, sizeof(s->key), "crash:%s@%s", cls, frames);
}

/* ------------------------------------------------------------ wire protocol */
static void write_all(int fd, const void *buf, size_t len)
{
	const uint8_t *p = buf;
	while (len > 0) {
		ssize_t n = write(fd, p, len);
		if (n < 0) {
			if (errno == EINTR) {
				continue;
			}
			_exit(3);
		}
		p += n;
		len -= (size_t)n;
	}
}

static bool read_all(int fd, void *buf, size_t len)
{
	uint8_t *p = buf;
	while (len > 0) {
		ssize_t n = read(fd, p, len);
		if (n < 0) {
			if (errno == EINTR) {
				continue;
			}
			return false;
		}
		if (n == 0) {
			return false;
		}
		p += n;
		len -= (size_t)n;
	}
	return true;
}

struct job_hdr {
	uint32_t len; /* 0xffffffff = quit */
	uint32_t want_log;
};

struct res_hdr {
	int32_t status;
	uint32_t ntrace, prefix_len, transitions, new_states, nontrivial, pruned, ncounters, keylen, msglen, loglen, crashlen;
	uint64_t outcome;
	int32_t confirmed; /* for violations: 1 = reproduced twice identically, 0 = diverged */
};

static void send_result(int fd, const struct run_slot *s, int confirmed, bool with_log)
{
	struct res_hdr h;
	memset(&h, 0, sizeof(h));
	h.status = s->status;
	h.ntrace = s->ntrace;
	h.prefix_len = s->prefix_len;
	h.transitions = s->transitions;
	h.new_states = s->new_states;
	h.nontrivial = s->nontrivial;
	h.pruned = s->pruned;
	h.ncounters = (uint32_t)s->ncounters;
	h.keylen = (uint32_t)strlen(s->key);
	h.msglen = (uint32_t)strlen(s->msg);
	h.loglen = with_log ? s->loglen : 0;
	h.crashlen = s->status != RS_OK ? s->crashlen : 0;
	h.outcome = s->outcome;
	h.confirmed = confirmed;
	write_all(fd, &h, sizeof(h));
	write_all(fd, s->trace, sizeof(struct xp_point) * h.ntrace);
	write_all(fd, s->counters, sizeof(struct counter) * h.ncounters);
	write_all(fd, s->key, h.keylen);
	write_all(fd, s->msg, h.msglen);
	write_all(fd, s->log, h.loglen);
	write_all(fd, s->crash, h.crashlen);
}

static void worker_loop(int fd, int idx)
{
	struct run_slot *s = mmap(NULL, sizeof(struct run_slot), PROT_READ | PROT_WRITE, MAP_SHARED | MAP_ANONYMOUS, -1, 0);
	struct run_slot *s2 = mmap(NULL, sizeof(struct run_slot), PROT_READ | PROT_WRITE, MAP_SHARED | MAP_ANONYMOUS, -1, 0);
	if (s == MAP_FAILED || s2 == MAP_FAILED) {
		_exit(3);
	}
	snprintf(errfile_path, sizeof(errfile_path), "/verif/build/run/err.%d.%d", (int)getppid(), idx);
	uint16_t *choices = malloc(sizeof(uint16_t) * XP_MAXTRACE);
	for (;;) {
		struct job_hdr jh;
		if (!read_all(fd, &jh, sizeof(jh)) || jh.len == 0xffffffffu) {
			_exit(0);
		}
		if (jh.len > 0 && !read_all(fd, choices, sizeof(uint16_t) * jh.len)) {
			_exit(0);
		}
		run_child(s, choices, jh.len, jh.want_log != 0, false);
		int confirmed = 1;
		if (s->status != RS_OK) {
			/* replay the complete choice list twice from fresh processes; verdict, key and outcome must agree */
			uint16_t *full = malloc(sizeof(uint16_t) * (s->ntrace + 1));
			for (uint32_t i = 0; i < s->ntrace; i++) {
				full[i] = s->trace[i].chosen;
			}
			for (int rep = 0; rep < 2 && confirmed; rep++) {
				run_child(s2, full, s->ntrace, true, false);
				if (s2->status != s->status || strcmp(s2->key, s->key) != 0 || s2->outcome != s->outcome || s2->ntrace != s->ntrace) {
					confirmed = 0;
				}
			}
			if (confirmed) {
				/* keep the log of the confirming replay (it is complete) */
				memcpy(s->log, s2->log, s2->loglen);
				s->loglen = s2->loglen;
				if (s2->crashlen) {
					memcpy(s->crash, s2->crash, s2->crashlen + 1);
					s->crashlen = s2->crashlen;
				}
			} else {
				char tmp[400];
				snprintf(tmp, sizeof(tmp), " | REPLAY DIVERGED: first run status=%d key=%s, replay status=%d key=%.100s", s->status, s->key, s2->status, s2->key);
				strncat(s->msg, tmp, sizeof(s->msg) - strlen(s->msg) - 1);
			}
			free(full);
		}
		send_result(fd, s, confirmed, jh.want_log != 0 || s->status != RS_OK);
	}
}

/* ------------------------------------------------------------- coordinator */
struct item {
	uint16_t *choices; /* len entries: prefix; the alternative for position len-1 iterates next_alt..n-1 */
	uint32_t len;
	uint16_t next_alt, n;
	uint8_t ndev;
};
static struct item *stack;
static size_t stack_n, stack_cap;

static void push_item(const struct xp_point *trace, uint32_t pos, uint16_t n, uint8_t ndev)
{
	if (stack_n == stack_cap) {
		stack_cap = stack_cap ? stack_cap * 2 : 1024;
		stack = realloc(stack, sizeof(*stack) * stack_cap);
	}
	struct item *it = &stack[stack_n++];
	it->len = pos + 1;
	it->choices = malloc(sizeof(uint16_t) * (pos + 1));
	for (uint32_t i = 0; i < pos; i++) {
		it->choices[i] = trace[i].chosen;
	}
	it->next_alt = 1;
	it->n = n;
	it->ndev = ndev;
}

struct viol {
	char *key;
	char *msg;
	char *log;
	char *crash;
	uint16_t *choices;
	uint32_t len;
	int status;
	long count;
	int ndev;
	int confirmed;
};
static struct viol *viols;
static int nviols;
#define MAXVIOL 200

static uint64_t *outcomes;
static size_t outcomes_cap, outcomes_n;
static void outcome_add(uint64_t h)
{
	if (h == 0) {
		h = 1;
	}
	if (outcomes_n * 2 >= outcomes_cap) {
		size_t ncap = outcomes_cap ? outcomes_cap * 2 : 4096;
		uint64_t *nt = calloc(ncap, sizeof(uint64_t));
		for (size_t i = 0; i < outcomes_cap; i++) {
			if (outcomes[i]) {
				size_t j = (size_t)(outcomes[i] * 0x9e3779b97f4a7c15ULL >> 17) & (ncap - 1);
				while (nt[j]) {
					j = (j + 1) & (ncap - 1);
				}
				nt[j] = outcomes[i];
			}
		}
		free(outcomes);
		outcomes = nt;
		outcomes_cap = ncap;
	}
	size_t j = (size_t)(h * 0x9e3779b97f4a7c15ULL >> 17) & (outcomes_cap - 1);
	while (outcomes[j]) {
		if (outcomes[j] == h) {
			return;
		}
		j = (j + 1) & (outcomes_cap - 1);
	}
	outcomes[j] = h;
	outcomes_n++;
}

static double now_s(void)
{
	struct timespec ts;
	clock_gettime(CLOCK_MONOTONIC, &ts);
	return (double)ts.tv_sec + (double)ts.tv_nsec / 1e9;
}

static void json_escape_to(struct bytebuf *b, const char *s)
{
	bb_json_string(b, s, strlen(s));
}

static int explore(void)
{
	double t0 = now_s();
	mkdir("/verif/build", 0755);
	mkdir("/verif/build/run", 0755);
	mkdir("/verif/replays", 0755);
	size_t vbits = (size_t)xp_param("visited_bits", 23);
	visited_cap = (size_t)1 << vbits;
	visited = mmap(NULL, visited_cap * sizeof(uint64_t) + 64, PROT_READ | PROT_WRITE, MAP_SHARED | MAP_ANONYMOUS, -1, 0);
	if (visited == MAP_FAILED) {
		perror("mmap visited");
		return 2;
	}
	visited_count = (volatile uint64_t *)(visited + visited_cap);

	int J = opt_jobs;
	int *wfd = calloc((size_t)J, sizeof(int));
	pid_t *wpid = calloc((size_t)J, sizeof(pid_t));
	bool *busy = calloc((size_t)J, sizeof(bool));
	for (int i = 0; i < J; i++) {
		int sv[2];
		if (socketpair(AF_UNIX, SOCK_STREAM, 0, sv) < 0) {
			perror("socketpair");
			return 2;
		}
		pid_t pid = fork();
		if (pid == 0) {
			close(sv[0]);
			for (int k = 0; k < i; k++) {
				close(wfd[k]);
			}
			worker_loop(sv[1], i);
			_exit(0);
		}
		close(sv[1]);
		wfd[i] = sv[0];
		wpid[i] = pid;
	}

	/* root job: empty prefix */
	long runs = 0, points = 0, transitions = 0, nontrivial = 0, pruned = 0, harness_errors = 0, bad_runs = 0, diverged = 0;
	long runs_by_dev[8] = {0};
	uint32_t max_trace = 0;
	struct counter counters[XP_MAXCOUNTERS];
	int ncounters = 0;
	struct bytebuf samples = {0};
	int nsamples = 0;
	bool root_sent = false;
	bool deadline_hit = false, cap_hit = false;
	int busy_n = 0;
	struct xp_point *trace = malloc(sizeof(struct xp_point) * XP_MAXTRACE);
	char *keybuf = malloc(300), *msgbuf = malloc(2100), *logbuf = malloc(XP_LOGMAX + 1), *crashbuf = malloc(XP_CRASHMAX + 1);
	uint8_t *job_ndev = calloc((size_t)J, 1);

	for (;;) {
		/* hand out work */
		bool stop_new = deadline_hit || cap_hit;
		if (!stop_new && opt_deadline > 0 && now_s() - t0 > opt_deadline) {
			deadline_hit = stop_new = true;
		}
		if (!stop_new && opt_max_runs > 0 && runs + busy_n >= opt_max_runs) {
			cap_hit = stop_new = true;
		}
		for (int i = 0; i < J && !stop_new; i++) {
			if (busy[i]) {
				continue;
			}
			if (!root_sent) {
				struct job_hdr jh = {.len = 0, .want_log = 1};
				write_all(wfd[i], &jh, sizeof(jh));
				root_sent = true;
				busy[i] = true;
				busy_n++;
				job_ndev[i] = 0;
				continue;
			}
			if (stack_n == 0) {
				break;
			}
			struct item *it = &stack[stack_n - 1];
			it->choices[it->len - 1] = it->next_alt;
			struct job_hdr jh = {.len = it->len, .want_log = (nsamples + busy_n < opt_samples) ? 1u : 0u};
			write_all(wfd[i], &jh, sizeof(jh));
			write_all(wfd[i], it->choices, sizeof(uint16_t) * it->len);
			job_ndev[i] = it->ndev;
			it->next_alt++;
			if (it->next_alt >= it->n) {
				free(it->choices);
				stack_n--;
			}
			busy[i] = true;
			busy_n++;
		}
		if (busy_n == 0) {
			break;
		}
		/* wait for a result */
		struct pollfd pfd[64];
		int map[64], np = 0;
		for (int i = 0; i < J; i++) {
			if (busy[i]) {
				pfd[np].fd = wfd[i];
				pfd[np].events = POLLIN;
				map[np++] = i;
			}
		}
		int pr = poll(pfd, (nfds_t)np, 1000);
		if (pr < 0 && errno != EINTR) {
			perror("poll");
			return 2;
		}
		for (int k = 0; k < np && pr > 0; k++) {
			if (!(pfd[k].revents & (POLLIN | POLLHUP))) {
				continue;
			}
			int i = map[k];
			struct res_hdr h;
			if (!read_all(wfd[i], &h, sizeof(h))) {
				fprintf(stderr, "HARNESS ERROR: worker %d died\n", i);
				return 2;
			}
			read_all(wfd[i], trace, sizeof(struct xp_point) * h.ntrace);
			struct counter cs[XP_MAXCOUNTERS];
			read_all(wfd[i], cs, sizeof(struct counter) * h.ncounters);
			read_all(wfd[i], keybuf, h.keylen);
			keybuf[h.keylen] = 0;
			read_all(wfd[i], msgbuf, h.msglen);
			msgbuf[h.msglen] = 0;
			read_all(wfd[i], logbuf, h.loglen);
			logbuf[h.loglen] = 0;
			read_all(wfd[i], crashbuf, h.crashlen);
			crashbuf[h.crashlen] = 0;
			busy[i] = false;
			busy_n--;

			runs++;
			int ndev = job_ndev[i];
			if (ndev < 8) {
				runs_by_dev[ndev]++;
			}
			points += h.ntrace - h.prefix_len;
			transitions += h.transitions;
			nontrivial += h.nontrivial;
			pruned += h.pruned;
			if (h.ntrace > max_trace) {
				max_trace = h.ntrace;
			}
			outcome_add(hash_mix(h.outcome, (uint64_t)h.status));
			for (uint32_t c = 0; c < h.ncounters; c++) {
				int f = -1;
				for (int d = 0; d < ncounters; d++) {
					if (strcmp(counters[d].name, cs[c].name) == 0) {
						f = d;
					}
				}
				if (f < 0 && ncounters < XP_MAXCOUNTERS) {
					f = ncounters++;
					counters[f] = cs[c];
					counters[f].v = 0;
				}
				if (f >= 0) {
					counters[f].v += cs[c].v;
				}
			}
			if (h.status == RS_OK && h.loglen > 0 && nsamples < opt_samples) {
				if (nsamples > 0) {
					bb_append(&samples, ",", 1);
				}
				json_escape_to(&samples, logbuf);
				nsamples++;
			}
			if (h.status == RS_HARNESS) {
				harness_errors++;
				fprintf(stderr, "HARNESS ERROR in execution: %s\n", msgbuf);
			} else if (h.status != RS_OK) {
				bad_runs++;
				if (!h.confirmed) {
					diverged++;
					fprintf(stderr, "HARNESS ERROR: violation did not reproduce: %s\n", msgbuf);
				} else {
					int f = -1;
					for (int d = 0; d < nviols; d++) {
						if (strcmp(viols[d].key, keybuf) == 0) {
							f = d;
						}
					}
					if (f < 0 && nviols < MAXVIOL) {
						if (viols == NULL) {
							viols = calloc(MAXVIOL, sizeof(*viols));
						}
						f = nviols++;
						viols[f].key = strdup(keybuf);
						viols[f].len = 0xffffffffu;
						viols[f].ndev = 1000;
					}
					if (f >= 0) {
						viols[f].count++;
						/* keep the example with the fewest deviations, then the shortest trace */
						if (ndev < viols[f].ndev || (ndev == viols[f].ndev && h.ntrace < viols[f].len)) {
							free(viols[f].msg);
							free(viols[f].log);
							free(viols[f].crash);
							free(viols[f].choices);
							viols[f].msg = strdup(msgbuf);
							viols[f].log = strdup(logbuf);
							viols[f].crash = strdup(crashbuf);
							viols[f].choices = malloc(sizeof(uint16_t) * (h.ntrace + 1));
							for (uint32_t t = 0; t < h.ntrace; t++) {
								viols[f].choices[t] = trace[t].chosen;
							}
							viols[f].len = h.ntrace;
							viols[f].ndev = ndev;
							viols[f].status = h.status;
							viols[f].confirmed = h.confirmed;
						}
					}
				}
			}
			/* schedule the alternatives of every choice point this run was the first to pass */
			if (h.status != RS_HARNESS) {
				uint8_t devs = 0;
				for (uint32_t t = 0; t < h.prefix_len && t < h.ntrace; t++) {
					if (trace[t].kind == XP_DEV && trace[t].chosen != 0) {
						devs++;
					}
				}
				for (uint32_t t = h.prefix_len; t < h.ntrace; t++) {
					if (trace[t].n > 1) {
						if (trace[t].kind == XP_DEV) {
							if (devs + 1 > opt_budget) {
								continue;
							}
							push_item(trace, t, trace[t].n, (uint8_t)(devs + 1));
						} else {
							push_item(trace, t, trace[t].n, devs);
						}
					}
				}
			}
		}
	}
	for (int i = 0; i < J; i++) {
		struct job_hdr jh = {.len = 0xffffffffu};
		write_all(wfd[i], &jh, sizeof(jh));
		close(wfd[i]);
		int st;
		waitpid(wpid[i], &st, 0);
	}
	double wall = now_s() - t0;
	bool exhaustive = !deadline_hit && !cap_hit && stack_n == 0 && harness_errors == 0 && diverged == 0;

	/* result JSON */
	struct bytebuf o = {0};
	bb_printf(&o, "{\n \"driver\": \"%s\",\n \"property_id\": \"%s\",\n \"variant\": \"%s\",\n", cur_driver->name, cur_driver->property, opt_variant);
	bb_printf(&o, " \"params\": {");
	for (int i = 0; i < nparams; i++) {
		bb_printf(&o, "%s\"%s\": ", i ? ", " : "", params[i].name);
		json_escape_to(&o, params[i].value);
	}
	bb_printf(&o, "},\n \"budget\": %d,\n \"merge\": %s,\n", opt_budget, opt_merge ? "true" : "false");
	bb_printf(&o, " \"executions\": %ld,\n \"choice_points\": %ld,\n \"states\": %llu,\n \"transitions\": %ld,\n", runs, points, (unsigned long long)*visited_count, transitions);
	bb_printf(&o, " \"distinct_outcomes\": %zu,\n \"nontrivial\": %ld,\n \"pruned_by_merge\": %ld,\n \"max_trace\": %u,\n", outcomes_n, nontrivial, pruned, max_trace);
	bb_printf(&o, " \"runs_by_deviations\": [%ld, %ld, %ld, %ld],\n", runs_by_dev[0], runs_by_dev[1], runs_by_dev[2], runs_by_dev[3]);
	bb_printf(&o, " \"counters\": {");
	for (int i = 0; i < ncounters; i++) {
		bb_printf(&o, "%s\"%s\": %ld", i ? ", " : "", counters[i].name, counters[i].v);
	}
	bb_printf(&o, "},\n \"exhaustive\": %s,\n \"deadline_hit\": %s,\n \"run_cap_hit\": %s,\n \"unexplored_stack_items\": %zu,\n", exhaustive ? "true" : "false", deadline_hit ? "true" : "false", cap_hit ? "true" : "false", stack_n);
	bb_printf(&o, " \"harness_errors\": %ld,\n \"diverged_replays\": %ld,\n \"violating_executions\": %ld,\n \"wall_s\": %.2f,\n", harness_errors, diverged, bad_runs, wall);
	bb_printf(&o, " \"rule\": ");
	json_escape_to(&o, cur_driver->rule ? cur_driver->rule : "");
	bb_printf(&o, ",\n \"assumptions\": ");
	json_escape_to(&o, cur_driver->assumptions ? cur_driver->assumptions : "");
	bb_printf(&o, ",\n \"samples\": [%s],\n \"violations\": [", samples.p ? (char *)samples.p : "");
	for (int v = 0; v < nviols; v++) {
		char path[300];
		uint64_t kh = hash64(viols[v].key, strlen(viols[v].key), 7);
		snprintf(path, sizeof(path), "/verif/replays/%s-%s-%s-%08x.json", cur_driver->property, cur_driver->name, opt_variant, (unsigned)(kh & 0xffffffffu));
		struct bytebuf r = {0};
		bb_printf(&r, "{\n \"property_id\": \"%s\",\n \"driver\": \"%s\",\n \"variant\": \"%s\",\n \"budget\": %d,\n \"params\": {", cur_driver->property, cur_driver->name, opt_variant, opt_budget);
		for (int i = 0; i < nparams; i++) {
			bb_printf(&r, "%s\"%s\": ", i ? ", " : "", params[i].name);
			json_escape_to(&r, params[i].value);
		}
		bb_printf(&r, "},\n \"choices\": [");
		for (uint32_t t = 0; t < viols[v].len; t++) {
			bb_printf(&r, "%s%u", t ? "," : "", viols[v].choices[t]);
		}
		bb_printf(&r, "],\n \"key\": ");
		json_escape_to(&r, viols[v].key);
		bb_printf(&r, ",\n \"verdict\": \"%s\",\n \"message\": ", viols[v].status == RS_CRASH ? "crash" : viols[v].status == RS_HANG ? "hang" : "violation");
		json_escape_to(&r, viols[v].msg);
		bb_printf(&r, ",\n \"transcript\": ");
		json_escape_to(&r, viols[v].log ? viols[v].log : "");
		bb_printf(&r, ",\n \"sanitizer_report\": ");
		json_escape_to(&r, viols[v].crash ? viols[v].crash : "");
		bb_printf(&r, "\n}\n");
		FILE *f = fopen(path, "w");
		if (f != NULL) {
			fwrite(r.p, 1, r.len, f);
			fclose(f);
		}
		bb_free(&r);
		bb_printf(&o, "%s\n  {\"key\": ", v ? "," : "");
		json_escape_to(&o, viols[v].key);
		bb_printf(&o, ", \"count\": %ld, \"deviations\": %d, \"verdict\": \"%s\", \"message\": ", viols[v].count, viols[v].ndev, viols[v].status == RS_CRASH ? "crash" : viols[v].status == RS_HANG ? "hang" : "violation");
		json_escape_to(&o, viols[v].msg);
		bb_printf(&o, ", \"replay\": \"%s\"}", path);
	}
	bb_printf(&o, "]\n}\n");
	if (opt_out != NULL) {
		FILE *f = fopen(opt_out, "w");
		if (f == NULL) {
			perror(opt_out);
			return 2;
		}
		fwrite(o.p, 1, o.len, f);
		fclose(f);
	} else {
		fwrite(o.p, 1, o.len, stdout);
	}
	fprintf(stderr, "[%s/%s] runs=%ld states=%llu transitions=%ld outcomes=%zu violations(keys)=%d bad_runs=%ld exhaustive=%d wall=%.1fs\n", cur_driver->name, opt_variant, runs, (unsigned long long)*visited_count, transitions, outcomes_n, nviols, bad_runs, exhaustive, wall);
	if (harness_errors > 0 || diverged > 0) {
		return 2;
	}
	return 0;
}

/* ------------------------------------------------------------------ replay */
static int replay(void)
{
	FILE *f = fopen(opt_replay, "r");
	if (f == NULL) {
		perror(opt_replay);
		return 2;
	}
	struct bytebuf b = {0};
	char tmp[4096];
	size_t n;
	while ((n = fread(tmp, 1, sizeof(tmp), f)) > 0) {
		bb_append(&b, tmp, n);
	}
	fclose(f);
	cJSON *root = cJSON_Parse((const char *)b.p);
	if (root == NULL) {
		fprintf(stderr, "cannot parse %s\n", opt_replay);
		return 2;
	}
	const cJSON *ps = cJSON_GetObjectItemCaseSensitive(root, "params");
	for (const cJSON *p = ps ? ps->child : NULL; p != NULL; p = p->next) {
		char kv[4100];
		snprintf(kv, sizeof(kv), "%s=%s", p->string, p->valuestring ? p->valuestring : "");
		set_param(kv);
	}
	const cJSON *bj = cJSON_GetObjectItemCaseSensitive(root, "budget");
	if (bj != NULL) {
		opt_budget = bj->valueint;
	}
	const cJSON *ch = cJSON_GetObjectItemCaseSensitive(root, "choices");
	int len = cJSON_GetArraySize(ch);
	uint16_t *choices = malloc(sizeof(uint16_t) * (size_t)(len + 1));
	int i = 0;
	for (const cJSON *c = ch ? ch->child : NULL; c != NULL; c = c->next) {
		choices[i++] = (uint16_t)c->valueint;
	}
	mkdir("/verif/build", 0755);
	mkdir("/verif/build/run", 0755);
	snprintf(errfile_path, sizeof(errfile_path), "/verif/build/run/err.replay.%d", (int)getpid());
	visited_cap = 1 << 12;
	visited = mmap(NULL, visited_cap * sizeof(uint64_t) + 64, PROT_READ | PROT_WRITE, MAP_SHARED | MAP_ANONYMOUS, -1, 0);
	visited_count = (volatile uint64_t *)(visited + visited_cap);
	struct run_slot *s = mmap(NULL, sizeof(struct run_slot), PROT_READ | PROT_WRITE, MAP_SHARED | MAP_ANONYMOUS, -1, 0);
	printf("replaying %d recorded choices with driver %s (variant %s)\n", len, cur_driver->name, opt_variant);
	run_child(s, choices, (uint32_t)len, true, true);
	unlink(errfile_path);
	if (s->status == RS_OK) {
		printf("RESULT: property held on this execution\n");
		return 0;
	}
	if (s->status == RS_HARNESS) {
		printf("RESULT: harness error: %s\n", s->msg);
		return 2;
	}
	printf("RESULT: %s key=%s\n  %s\n", s->status == RS_CRASH ? "CRASH" : s->status == RS_HANG ? "HANG" : "VIOLATION", s->key, s->msg);
	if (s->crashlen) {
		printf("---- sanitizer / stderr ----\n%s\n", s->crash);
	}
	return 1;
}

/* -------------------------------------------------------------------- main */
void sim_symbolize(void *addr, char *out, size_t outlen);
void sim_symbolize(void *addr, char *out, size_t outlen)
{
	/* resolve a code address to a function name with addr2line (used only for fault-site keys) */
	char exe[256];
	ssize_t n = readlink("/proc/self/exe", exe, sizeof(exe) - 1);
	out[0] = 0;
	if (n <= 0) {
		return;
	}
	exe[n] = 0;
	char cmd[512];
	snprintf(cmd, sizeof(cmd), "addr2line -f -e %s %p 2>/dev/null", exe, (void *)((uintptr_t)addr - 1));
	FILE *p = popen(cmd, "r");
	if (p == NULL) {
		return;
	}
	if (fgets(out, (int)outlen, p) != NULL) {
		size_t l = strlen(out);
		while (l > 0 && (out[l - 1] == '\n' || out[l - 1] == '\r')) {
			out[--l] = 0;
		}
	}
	pclose(p);
}

static void usage(void)
{
	fprintf(stderr, "usage: cjet_sim --driver NAME [--variant V] [--set k=v]... [--budget N] [--jobs J] [--deadline S] [--max-runs N] [--merge] [--samples N] [--out FILE] [--replay FILE] [--list]\n");
	exit(2);
}

int main(int argc, char **argv)
{
	/* disable ASLR so that addresses that leak into protocol ids (%p) are identical in every process */
	if (getenv("SIMK_NO_ASLR_REEXEC") == NULL) {
		int pers = personality(0xffffffff);
		if (pers != -1 && !(pers & ADDR_NO_RANDOMIZE)) {
			if (personality(pers | ADDR_NO_RANDOMIZE) != -1) {
				setenv("SIMK_NO_ASLR_REEXEC", "1", 1);
				execv("/proc/self/exe", argv);
			}
		}
	}
	const char *drv = NULL;
	for (int i = 1; i < argc; i++) {
		const char *a = argv[i];
		if (strcmp(a, "--driver") == 0 && i + 1 < argc) {
			drv = argv[++i];
		} else if (strcmp(a, "--variant") == 0 && i + 1 < argc) {
			opt_variant = argv[++i];
		} else if (strcmp(a, "--set") == 0 && i + 1 < argc) {
			set_param(argv[++i]);
		} else if (strcmp(a, "--budget") == 0 && i + 1 < argc) {
			opt_budget = atoi(argv[++i]);
		} else if (strcmp(a, "--jobs") == 0 && i + 1 < argc) {
			opt_jobs = atoi(argv[++i]);
		} else if (strcmp(a, "--deadline") == 0 && i + 1 < argc) {
			opt_deadline = atof(argv[++i]);
		} else if (strcmp(a, "--max-runs") == 0 && i + 1 < argc) {
			opt_max_runs = atol(argv[++i]);
		} else if (strcmp(a, "--merge") == 0) {
			opt_merge = true;
		} else if (strcmp(a, "--samples") == 0 && i + 1 < argc) {
			opt_samples = atoi(argv[++i]);
		} else if (strcmp(a, "--out") == 0 && i + 1 < argc) {
			opt_out = argv[++i];
		} else if (strcmp(a, "--replay") == 0 && i + 1 < argc) {
			opt_replay = argv[++i];
		} else if (strcmp(a, "--timeout") == 0 && i + 1 < argc) {
			opt_child_timeout = atoi(argv[++i]);
		} else if (strcmp(a, "--verbose") == 0) {
			opt_verbose = true;
		} else if (strcmp(a, "--list") == 0) {
			for (int d = 0; all_drivers[d] != NULL; d++) {
				printf("%s %s\n", all_drivers[d]->name, all_drivers[d]->property);
			}
			return 0;
		} else {
			usage();
		}
	}
	if (opt_jobs < 1) {
		opt_jobs = 1;
	}
	if (opt_jobs > 64) {
		opt_jobs = 64;
	}
	if (drv == NULL) {
		usage();
	}
	for (int d = 0; all_drivers[d] != NULL; d++) {
		if (strcmp(all_drivers[d]->name, drv) == 0) {
			cur_driver = all_drivers[d];
		}
	}
	if (cur_driver == NULL) {
		fprintf(stderr, "unknown driver %s\n", drv);
		return 2;
	}
	signal(SIGPIPE, SIG_IGN);
	if (opt_replay != NULL) {
		return replay();
	}
	return explore();
}
