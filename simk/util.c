#define _GNU_SOURCE
#include <stdlib.h>
#include <string.h>

#include "simk.h"

void bb_append(struct bytebuf *b, const void *data, size_t len)
{
	if (b->len + len + 1 > b->cap) {
		size_t ncap = b->cap ? b->cap * 2 : 256;
		while (ncap < b->len + len + 1) {
			ncap *= 2;
		}
		b->p = realloc(b->p, ncap);
		b->cap = ncap;
	}
	if (len > 0) {
		memcpy(b->p + b->len, data, len);
	}
	b->len += len;
	b->p[b->len] = 0; /* always NUL terminated for convenience (not counted) */
}

void bb_printf(struct bytebuf *b, const char *fmt, ...)
{
	char tmp[4096];
	va_list ap;
	va_start(ap, fmt);
	int n = vsnprintf(tmp, sizeof(tmp), fmt, ap);
	va_end(ap);
	if (n < 0) {
		return;
	}
	if ((size_t)n < sizeof(tmp)) {
		bb_append(b, tmp, (size_t)n);
		return;
	}
	char *big = malloc((size_t)n + 1);
	va_start(ap, fmt);
	vsnprintf(big, (size_t)n + 1, fmt, ap);
	va_end(ap);
	bb_append(b, big, (size_t)n);
	free(big);
}

void bb_reset(struct bytebuf *b)
{
	b->len = 0;
	if (b->p != NULL) {
		b->p[0] = 0;
	}
}

void bb_free(struct bytebuf *b)
{
	free(b->p);
	b->p = NULL;
	b->len = b->cap = 0;
}

uint64_t hash64(const void *data, size_t len, uint64_t seed)
{
	const uint8_t *p = data;
	uint64_t h = 0xcbf29ce484222325ULL ^ (seed * 0x9e3779b97f4a7c15ULL);
	for (size_t i = 0; i < len; i++) {
		h ^= p[i];
		h *= 0x100000001b3ULL;
	}
	h ^= h >> 32;
	h *= 0xd6e8feb86659fd93ULL;
	h ^= h >> 32;
	return h;
}

void bb_json_string(struct bytebuf *b, const char *s, size_t len)
{
	bb_append(b, "\"", 1);
	for (size_t i = 0; i < len; i++) {
		unsigned char c = (unsigned char)s[i];
		if (c == '"' || c == '\\') {
			char e[2] = {'\\', (char)c};
			bb_append(b, e, 2);
		} else if (c == '\n') {
			bb_append(b, "\\n", 2);
		} else if (c == '\r') {
			bb_append(b, "\\r", 2);
		} else if (c == '\t') {
			bb_append(b, "\\t", 2);
		} else if (c < 0x20 || c >= 0x7f) {
			bb_printf(b, "\\u%04x", c);
		} else {
			bb_append(b, &c, 1);
		}
	}
	bb_append(b, "\"", 1);
}
