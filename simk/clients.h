/* Simulated protocol endpoints: raw jet client, WebSocket client, byte-level client; transcript decoding. */
#ifndef SIMK_CLIENTS_H
#define SIMK_CLIENTS_H

#include "cJSON.h"
#include "simk.h"

enum cl_kind { CL_RAW = 0, CL_WS = 1, CL_BYTES = 2 };

enum msg_class { MC_RESULT = 0, MC_ERROR, MC_NOTIFY, MC_ROUTED, MC_WSCTL, MC_OTHER };

struct cl_msg {
	uint64_t step;     /* sim_step() when the message was decoded */
	char *text;        /* payload bytes (NUL terminated copy) */
	size_t len;
	cJSON *json;       /* parsed payload or NULL */
	enum msg_class cls;
	int wsop;          /* websocket opcode for CL_WS (1 text, 8 close, 9 ping, 10 pong), 0 for raw */
	int close_code;    /* for close frames, -1 if none */
	bool consumed;     /* used by drivers' ledgers */
};

struct client {
	bool used;
	int cid;
	enum cl_kind kind;
	size_t consumed;       /* bytes of daemon output already decoded */
	struct cl_msg *msgs;
	int nmsgs, cap;
	/* websocket */
	bool http_done;
	char *http_response;   /* full response header block */
	int http_status;       /* 0 if none yet */
	bool saw_close;
	int close_code;
	char frame_violation[200]; /* first RFC 6455 violation in a server frame ("" if none) */
	char frame_violation_key[80];
	/* undecodable residue */
	bool garbage;
};

extern struct client clients[SIM_MAXCONN];

int cl_open(enum cl_kind kind, enum sim_role role, enum sim_origin origin); /* connects; returns cid */
int cl_open_raw(void);
int cl_open_ws(void);   /* connect to http listener and send a valid upgrade request (one chunk); response is parsed by cl_pump */
extern const char *const CL_WS_UPGRADE_REQUEST;
extern const char *const CL_WS_ACCEPT_FOR_DEFAULT_KEY;

void cl_frame_raw(struct bytebuf *out, const void *payload, size_t len);
/* lenenc: 0 minimal, 1 force 16-bit, 2 force 64-bit */
void cl_frame_ws(struct bytebuf *out, int opcode, bool fin, int rsv, bool mask, int lenenc, const void *payload, size_t len);
void cl_frame_for(int cid, struct bytebuf *out, const char *json_text);
void cl_send_text(int cid, const char *json_text); /* framed for the client's transport, single chunk */
void cl_send_bytes(int cid, const void *data, size_t len);
void cl_pump(void); /* decode all new daemon output on every connection */

/* transcript helpers */
const cJSON *msg_id(const struct cl_msg *m);
/* canonical text of a message with routed-request ids replaced by RID<k> tokens (k = order of first appearance on that connection) */
void cl_normalised_transcript(int cid, struct bytebuf *out, int from_msg);
uint64_t cl_transcript_hash(int cid);
bool json_equal(const cJSON *a, const cJSON *b);

#endif
