/* simk: simulated kernel + cooperative daemon runner + explorer API.
 * The real cjet daemon (compiled unmodified from /repo) is linked against this;
 * every libc/system call it makes is redirected here (objcopy --redefine-syms). */
#ifndef SIMK_H
#define SIMK_H

#include <stdarg.h>
#include <stdbool.h>
#include <stddef.h>
#include <stdint.h>
#include <stdio.h>

/* ------------------------------------------------------------------ util */
struct bytebuf {
	uint8_t *p;
	size_t len, cap;
};
void bb_append(struct bytebuf *b, const void *data, size_t len);
void bb_printf(struct bytebuf *b, const char *fmt, ...) __attribute__((format(printf, 2, 3)));
void bb_reset(struct bytebuf *b);
void bb_free(struct bytebuf *b);
uint64_t hash64(const void *data, size_t len, uint64_t seed);
static inline uint64_t hash_mix(uint64_t h, uint64_t v)
{
	h ^= v + 0x9e3779b97f4a7c15ULL + (h << 6) + (h >> 2);
	h *= 0xff51afd7ed558ccdULL;
	return h ^ (h >> 33);
}
void bb_json_string(struct bytebuf *b, const char *s, size_t len);

/* ------------------------------------------------------------ explorer */
enum xp_kind { XP_ACTION = 0, XP_DEV = 1, XP_SCENARIO = 2 };
/* Choice point.  Alternative 0 is the default (for XP_DEV: "no deviation").
 * XP_SCENARIO is a flat enumeration index (costs neither depth nor budget). */
int xp_choose(int n, enum xp_kind kind, const char *label);
void xp_fail(const char *key, const char *fmt, ...) __attribute__((noreturn, format(printf, 2, 3)));
/* record a non-fatal finding; the run continues; reported with the run's result (first one wins for the verdict) */
void xp_finding(const char *key, const char *fmt, ...) __attribute__((format(printf, 2, 3)));
/* register a (model/observable) state reached after a new transition; returns true when merging is on and the state was seen before (caller should stop extending) */
bool xp_state(uint64_t h);
void xp_transition(void);
void xp_outcome(uint64_t h);
void xp_nontrivial(void);               /* mark this execution as non-trivial by the driver's stated rule */
void xp_count(const char *counter, long add); /* named counters summed into the result JSON (max 32 names) */
void xp_logf(const char *fmt, ...) __attribute__((format(printf, 1, 2))); /* transcript; printed in replay mode, kept (bounded) for samples */
long xp_param(const char *name, long dflt);
const char *xp_param_str(const char *name, const char *dflt);
bool xp_replaying(void);
bool xp_verbose(void);
void xp_harness_error(const char *fmt, ...) __attribute__((noreturn, format(printf, 1, 2)));
void xp_end_run(void) __attribute__((noreturn)); /* normal end of an execution */
/* Twin executions (differential oracle): call before sim_boot().  Forks; returns 1 in the twin, 0 in the primary.
 * Both run the same choice prefix.  At the end the twin calls xp_twin_end(mine, NULL) (sends its transcript, exits);
 * the primary calls xp_twin_end(mine, &other) and receives the twin's transcript (a failure in the twin is
 * re-raised in the primary). */
int xp_twin_begin(void);
void xp_twin_end(const struct bytebuf *mine, struct bytebuf *other);
bool xp_is_twin(void);

struct driver {
	const char *name;
	const char *property;
	void (*run)(void);
	const char *rule;       /* text for evidence: how cases are enumerated, what is non-trivial */
	const char *assumptions; /* '|' separated */
};
extern const struct driver *const all_drivers[];

/* --------------------------------------------------------------- kernel */
enum sim_role { ROLE_JET = 0, ROLE_HTTP = 1, ROLE_UDS = 2 };
enum sim_origin {
	ORG_DEFAULT = 0,      /* ::ffff:127.0.0.1 on tcp listeners, unnamed AF_UNIX on uds */
	ORG_V6_LOOPBACK,      /* ::1 */
	ORG_V6_MAPPED_LOOP,   /* ::ffff:127.0.0.1 */
	ORG_V6_MAPPED_127_2,  /* ::ffff:127.0.0.2 */
	ORG_V6_MAPPED_REMOTE, /* ::ffff:10.0.0.1 */
	ORG_V6_REMOTE,        /* 2001:db8::1 */
	ORG_V4_LOOP,          /* AF_INET 127.0.0.1 (only meaningful on AF_INET listeners) */
	ORG_V4_127_2,
	ORG_V4_REMOTE,
	ORG_UNIX_UNNAMED,
	ORG_UNIX_ABSTRACT_ADV, /* AF_UNIX with an abstract name whose bytes imitate ::1 at the in6 offset */
	/* IPv6 near misses of the two loopback forms: none of them is a loopback address */
	ORG_V6_SUFFIX_127,     /* fd00::7f00:1 - ends like ::ffff:127.0.0.1 without the mapped prefix */
	ORG_V6_PREFIXED_MAPPED, /* 1:2:3:4:5:ffff:7f00:1 - ffff and 127.0.0.1 in place, the first 80 bits not zero */
	ORG_V6_COMPAT_127,     /* ::127.0.0.1 (IPv4-compatible form, no ffff) */
	ORG_V6_HIGH_1,         /* 8000::1 - ends like ::1 */
	ORG_V6_UNSPECIFIED,    /* :: */
	ORG_COUNT
};
enum sim_reset_how { RST_EPOLL = 0, RST_READ = 1, RST_WRITE = 2 };

#define SIM_MAXCONN 16

struct sim_opts {
	bool local_only;          /* start daemon with -l */
	const char *passwd_file;  /* content of /sim/passwd.json, NULL = no -p */
	const char *request_target; /* -r, NULL default */
	uint8_t fill_byte;        /* fresh malloc() memory is filled with this (default 0xAA) */
};

/* boots the real cjet main() on the daemon thread and runs it to its first quiescent point.
 * returns false if main() returned during start-up. */
bool sim_boot(const struct sim_opts *opts);
/* let the daemon run until it is quiescent again (no deliverable event) or has exited */
void sim_settle(void);
int sim_ready_count(void); /* descriptors that would be reported by the next epoll_wait */
bool sim_daemon_exited(void);
int sim_daemon_exit_code(void);
/* deliver SIGTERM (calls the captured handler, epoll_wait returns EINTR) - call sim_settle() afterwards */
void sim_sigterm(void);
uint64_t sim_step(void); /* number of settle() hand-offs so far */

/* connections (client side) */
int sim_connect(enum sim_role role, enum sim_origin origin); /* returns cid; raises IN on the listener */
void sim_client_send(int cid, const void *data, size_t len);  /* one chunk = one read() result at most */
void sim_client_fin(int cid);                                 /* orderly shutdown of the client's sending side + close */
void sim_client_reset(int cid, enum sim_reset_how how);
void sim_client_reset_escalate(int cid); /* a reset so far only visible to read/writev is now also reported by epoll (EPOLLERR|EPOLLHUP) */
void sim_set_window(int cid, long window); /* -1 unlimited; 0 = peer stopped reading; opening from 0 raises EPOLLOUT */
void sim_write_cap_once(int cid, long maxbytes); /* next writev on this conn accepts at most maxbytes (>=1) */
void sim_fail_next(const char *call, int err, int cid_or_minus1); /* one-shot failure of the next matching call: accept, fcntl, setsockopt, getsockname, writev, read, write, ftruncate, timerfd_create, timerfd_settime, epoll_ctl, epoll_create, socket, bind, listen, open, mmap */
void sim_fail_clear(const char *call); /* disarm injected failures of that call that did not fire */
const struct bytebuf *sim_conn_output(int cid);
bool sim_conn_accepted(int cid);
bool sim_conn_closed_by_daemon(int cid);
bool sim_conn_client_gone(int cid);
int sim_conn_fd(int cid);
size_t sim_conn_unread(int cid); /* bytes queued towards the daemon, not yet read */

/* deterministic stub of cjet_get_random_bytes (salt generation) */
void sim_seed_random(uint64_t seed);
void sim_random_script(const uint8_t *bytes, size_t n); /* the next n bytes read from the random source are these */

/* clock / timers */
uint64_t sim_now(void);
void sim_advance(uint64_t ns);             /* advance virtual clock; expires timers whose deadline <= now */
bool sim_next_deadline(uint64_t *deadline); /* earliest armed timer */
int sim_armed_timers(void);

/* heap */
void sim_heap_fail_nth(long nth);  /* the nth allocation from now (1 = next) returns NULL; 0 = off */
void sim_heap_fail_second(long gap); /* call after sim_heap_fail_nth: once that failure fired, the gap-th allocation after it fails too */
long sim_heap_failures(void);      /* injected failures that fired since the last sim_heap_fail_nth */
long sim_heap_allocs(void);        /* number of allocation calls so far */
long sim_heap_live(void);          /* live raw blocks */
const char *sim_heap_fail_site(void); /* after a failure fired: "function" containing the allocation call (symbolised lazily), or "" */
void sim_set_fill(uint8_t b);
size_t sim_heap_accounted_peak(void); /* highest cjet_get_alloc_size() seen at any allocation */

/* descriptor table / hygiene */
int sim_open_fds(void);
void sim_set_fd_limit(int n, bool timers_only); /* like RLIMIT_NOFILE: timerfd_create (and accept, unless timers_only) fail with EMFILE while n descriptors are open; 0 = no limit */
int sim_fd_limit_hits(void);   /* how often that happened */
int sim_open_conn_cids(int *out, int max);          /* connections whose descriptor the daemon has not closed */
void sim_open_fd_summary(char *buf, size_t len);      /* kinds of open descriptors, e.g. "connection+timerfd" */
int sim_hygiene_count(void);
const char *sim_hygiene_event(int i);     /* full text */
const char *sim_hygiene_key(int i);       /* stable key */
int sim_blocking_events(void);
size_t sim_syslog_count(void);
const char *sim_syslog_line(size_t i);
bool sim_syslog_contains(const char *needle);
unsigned long sim_calls_since_handoff(void);

/* epoll batch hook: called with the ready list before delivery; may reorder / truncate (return new n) */
struct sim_ready {
	int fd;
	uint32_t events;
};
extern int (*sim_batch_hook)(struct sim_ready *list, int n, int maxevents);

/* simulated file system (credential file) */
struct sim_fs_snapshot {
	uint8_t *data;
	size_t len;
	const char *after; /* "ftruncate", "write", ... */
};
int sim_fs_snapshots(void);
const struct sim_fs_snapshot *sim_fs_snapshot(int i);
void sim_fs_set_content(const void *data, size_t len);
const struct bytebuf *sim_fs_content(void);
/* policy for the next write() on the file: accept at most k bytes (k>=0; -1 = all), or fail with errno */
void sim_fs_write_policy(long accept_at_most, int fail_errno); /* both given: the next write is short, the one after it fails */
void sim_fs_clear_snapshots(void);

/* daemon internals reachable through its own non-static accessors */
size_t cjet_get_alloc_size(void);
int get_number_of_peers(void);

struct sim_baseline {
	size_t alloc_size;
	long raw_live;
	int peers;
	int open_fds;
	int armed_timers;
};
extern struct sim_baseline sim_base;

#endif
