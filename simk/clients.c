#define _GNU_SOURCE
#include <stdlib.h>
#include <string.h>

#include "clients.h"

struct client clients[SIM_MAXCONN];

const char *const CL_WS_UPGRADE_REQUEST =
    "GET /api/jet/ HTTP/1.1\r\n"
    "Host: localhost\r\n"
    "Upgrade: websocket\r\n"
    "Connection: Upgrade\r\n"
    "Sec-WebSocket-Key: dGhlIHNhbXBsZSBub25jZQ==\r\n"
    "Sec-WebSocket-Version: 13\r\n"
    "Sec-WebSocket-Protocol: jet\r\n"
    "\r\n";
const char *const CL_WS_ACCEPT_FOR_DEFAULT_KEY = "s3pPLMBiTxaQ9kYGzzhZRbK+xOo=";

int cl_open(enum cl_kind kind, enum sim_role role, enum sim_origin origin)
{
	int cid = sim_connect(role, origin);
	struct client *c = &clients[cid];
	memset(c, 0, sizeof(*c));
	c->used = true;
	c->cid = cid;
	c->kind = kind;
	c->close_code = -1;
	return cid;
}

int cl_open_raw(void)
{
	return cl_open(CL_RAW, ROLE_JET, ORG_DEFAULT);
}

int cl_open_ws(void)
{
	int cid = cl_open(CL_WS, ROLE_HTTP, ORG_DEFAULT);
	sim_client_send(cid, CL_WS_UPGRADE_REQUEST, strlen(CL_WS_UPGRADE_REQUEST));
	return cid;
}

void cl_frame_raw(struct bytebuf *out, const void *payload, size_t len)
{
	uint8_t h[4] = {(uint8_t)(len >> 24), (uint8_t)(len >> 16), (uint8_t)(len >> 8), (uint8_t)len};
	bb_append(out, h, 4);
	bb_append(out, payload, len);
}

void cl_frame_ws(struct bytebuf *out, int opcode, bool fin, int rsv, bool mask, int lenenc, const void *payload, size_t len)
{
	uint8_t h[14];
	size_t n = 0;
	h[n++] = (uint8_t)((fin ? 0x80 : 0) | ((rsv & 7) << 4) | (opcode & 0xf));
	uint8_t m = mask ? 0x80 : 0;
	if (lenenc == 0 && len < 126) {
		h[n++] = (uint8_t)(m | len);
	} else if ((lenenc == 0 && len < 65536) || lenenc == 1) {
		h[n++] = (uint8_t)(m | 126);
		h[n++] = (uint8_t)(len >> 8);
		h[n++] = (uint8_t)len;
	} else {
		h[n++] = (uint8_t)(m | 127);
		for (int i = 7; i >= 0; i--) {
			h[n++] = (uint8_t)((uint64_t)len >> (8 * i));
		}
	}
	static const uint8_t key[4] = {0x12, 0x34, 0x56, 0x78};
	if (mask) {
		memcpy(h + n, key, 4);
		n += 4;
	}
	bb_append(out, h, n);
	if (mask) {
		uint8_t *tmp = malloc(len + 1);
		for (size_t i = 0; i < len; i++) {
			tmp[i] = ((const uint8_t *)payload)[i] ^ key[i % 4];
		}
		bb_append(out, tmp, len);
		free(tmp);
	} else {
		bb_append(out, payload, len);
	}
}

void cl_frame_for(int cid, struct bytebuf *out, const char *json_text)
{
	if (clients[cid].kind == CL_WS) {
		cl_frame_ws(out, 1, true, 0, true, 0, json_text, strlen(json_text));
	} else {
		cl_frame_raw(out, json_text, strlen(json_text));
	}
}

void cl_send_text(int cid, const char *json_text)
{
	struct bytebuf b = {0};
	cl_frame_for(cid, &b, json_text);
	sim_client_send(cid, b.p, b.len);
	bb_free(&b);
}

void cl_send_bytes(int cid, const void *data, size_t len)
{
	sim_client_send(cid, data, len);
}

static struct cl_msg *add_msg(struct client *c)
{
	if (c->nmsgs == c->cap) {
		c->cap = c->cap ? c->cap * 2 : 16;
		c->msgs = realloc(c->msgs, sizeof(*c->msgs) * (size_t)c->cap);
	}
	struct cl_msg *m = &c->msgs[c->nmsgs++];
	memset(m, 0, sizeof(*m));
	m->step = sim_step();
	m->close_code = -1;
	return m;
}

static void classify(struct cl_msg *m)
{
	m->cls = MC_OTHER;
	if (m->json == NULL || !cJSON_IsObject(m->json)) {
		return;
	}
	const cJSON *id = cJSON_GetObjectItemCaseSensitive(m->json, "id");
	const cJSON *method = cJSON_GetObjectItemCaseSensitive(m->json, "method");
	const cJSON *result = cJSON_GetObjectItemCaseSensitive(m->json, "result");
	const cJSON *error = cJSON_GetObjectItemCaseSensitive(m->json, "error");
	if (method != NULL) {
		m->cls = (id != NULL) ? MC_ROUTED : MC_NOTIFY;
	} else if (result != NULL && error == NULL) {
		m->cls = MC_RESULT;
	} else if (error != NULL && result == NULL) {
		m->cls = MC_ERROR;
	}
}

static void set_payload(struct cl_msg *m, const uint8_t *p, size_t len)
{
	m->text = malloc(len + 1);
	memcpy(m->text, p, len);
	m->text[len] = 0;
	m->len = len;
}

static void pump_raw(struct client *c, const struct bytebuf *out)
{
	while (out->len - c->consumed >= 4) {
		const uint8_t *p = out->p + c->consumed;
		size_t len = ((size_t)p[0] << 24) | ((size_t)p[1] << 16) | ((size_t)p[2] << 8) | p[3];
		if (out->len - c->consumed - 4 < len) {
			break; /* frame not complete (yet) */
		}
		struct cl_msg *m = add_msg(c);
		set_payload(m, p + 4, len);
		if (strlen(m->text) == len) {
			m->json = cJSON_Parse(m->text);
		}
		classify(m);
		c->consumed += 4 + len;
	}
}

static void ws_violation(struct client *c, const char *key, const char *text)
{
	if (c->frame_violation[0] == 0) {
		snprintf(c->frame_violation, sizeof(c->frame_violation), "%s", text);
		snprintf(c->frame_violation_key, sizeof(c->frame_violation_key), "%s", key);
	}
}

static void pump_ws(struct client *c, const struct bytebuf *out)
{
	if (!c->http_done) {
		const uint8_t *end = memmem(out->p + c->consumed, out->len - c->consumed, "\r\n\r\n", 4);
		if (end == NULL) {
			return;
		}
		size_t hl = (size_t)(end - (out->p + c->consumed)) + 4;
		c->http_response = malloc(hl + 1);
		memcpy(c->http_response, out->p + c->consumed, hl);
		c->http_response[hl] = 0;
		c->consumed += hl;
		c->http_done = true;
		if (hl >= 12 && strncmp(c->http_response, "HTTP/", 5) == 0) {
			c->http_status = atoi(c->http_response + 9);
		}
		if (c->http_status != 101) {
			return;
		}
	}
	if (c->http_status != 101) {
		return;
	}
	for (;;) {
		size_t avail = out->len - c->consumed;
		const uint8_t *p = out->p + c->consumed;
		if (avail < 2) {
			return;
		}
		bool fin = (p[0] & 0x80) != 0;
		int rsv = (p[0] >> 4) & 7;
		int op = p[0] & 0xf;
		bool masked = (p[1] & 0x80) != 0;
		uint64_t len = p[1] & 0x7f;
		size_t hl = 2;
		if (len == 126) {
			if (avail < 4) {
				return;
			}
			len = ((uint64_t)p[2] << 8) | p[3];
			hl = 4;
			if (len < 126) {
				ws_violation(c, "server-frame:non-minimal-length", "server frame uses 16-bit length for a payload < 126");
			}
		} else if (len == 127) {
			if (avail < 10) {
				return;
			}
			len = 0;
			for (int i = 0; i < 8; i++) {
				len = (len << 8) | p[2 + i];
			}
			hl = 10;
			if (len < 65536) {
				ws_violation(c, "server-frame:non-minimal-length", "server frame uses 64-bit length for a payload < 65536");
			}
		}
		if (masked) {
			ws_violation(c, "server-frame:masked", "server frame is masked");
			hl += 4;
		}
		if (rsv != 0) {
			ws_violation(c, "server-frame:rsv", "server frame has reserved bits set without a negotiated extension");
		}
		if (!fin) {
			ws_violation(c, "server-frame:fragmented", "server frame without FIN");
		}
		if (op != 1 && op != 2 && op != 8 && op != 9 && op != 10) {
			ws_violation(c, "server-frame:opcode", "server frame with unexpected opcode");
		}
		if (len > (uint64_t)1 << 30 || avail < hl + len) {
			return; /* incomplete */
		}
		struct cl_msg *m = add_msg(c);
		m->wsop = op;
		set_payload(m, p + hl, (size_t)len);
		if (op == 1) {
			if (strlen(m->text) == len) {
				m->json = cJSON_Parse(m->text);
			}
			classify(m);
		} else {
			m->cls = MC_WSCTL;
			if (op == 8) {
				c->saw_close = true;
				if (len >= 2) {
					m->close_code = (p[hl] << 8) | p[hl + 1];
				}
				c->close_code = m->close_code;
				if (len == 1 || len > 125) {
					ws_violation(c, "server-frame:close-length", "server close frame with illegal payload length");
				}
			}
			if ((op == 9 || op == 10) && len > 125) {
				ws_violation(c, "server-frame:control-too-long", "server control frame longer than 125 bytes");
			}
		}
		c->consumed += hl + (size_t)len;
	}
}

void cl_pump(void)
{
	for (int cid = 0; cid < SIM_MAXCONN; cid++) {
		struct client *c = &clients[cid];
		if (!c->used) {
			continue;
		}
		const struct bytebuf *out = sim_conn_output(cid);
		if (out->len == c->consumed) {
			continue;
		}
		switch (c->kind) {
		case CL_RAW:
			pump_raw(c, out);
			break;
		case CL_WS:
			pump_ws(c, out);
			break;
		case CL_BYTES:
			break;
		}
	}
}

const cJSON *msg_id(const struct cl_msg *m)
{
	if (m->json == NULL) {
		return NULL;
	}
	return cJSON_GetObjectItemCaseSensitive(m->json, "id");
}

bool json_equal(const cJSON *a, const cJSON *b)
{
	if (a == NULL || b == NULL) {
		return a == b;
	}
	return cJSON_Compare(a, b, 1) != 0;
}

void cl_normalised_transcript(int cid, struct bytebuf *out, int from_msg)
{
	struct client *c = &clients[cid];
	char *rids[256];
	int nrids = 0;
	for (int i = 0; i < c->nmsgs; i++) {
		struct cl_msg *m = &c->msgs[i];
		if (m->cls == MC_ROUTED) {
			const cJSON *id = msg_id(m);
			int k = -1;
			if (id != NULL && cJSON_IsString(id)) {
				for (int r = 0; r < nrids; r++) {
					if (strcmp(rids[r], id->valuestring) == 0) {
						k = r;
					}
				}
				if (k < 0 && nrids < 256) {
					k = nrids;
					rids[nrids++] = id->valuestring;
				}
			}
			if (i < from_msg) {
				continue;
			}
			cJSON *dup = cJSON_Duplicate(m->json, 1);
			char tok[32];
			snprintf(tok, sizeof(tok), "RID%d", k);
			cJSON_ReplaceItemInObjectCaseSensitive(dup, "id", cJSON_CreateString(tok));
			char *t = cJSON_PrintUnformatted(dup);
			bb_printf(out, "%s\n", t);
			free(t);
			cJSON_Delete(dup);
		} else {
			if (i < from_msg) {
				continue;
			}
			if (c->kind == CL_WS && m->wsop != 1) {
				bb_printf(out, "<ws op=%d code=%d len=%zu>\n", m->wsop, m->close_code, m->len);
			} else if (m->json != NULL) {
				/* re-render so that formatting differences cannot matter */
				char *t = cJSON_PrintUnformatted(m->json);
				bb_printf(out, "%s\n", t);
				free(t);
			} else {
				bb_printf(out, "<unparsable %zu bytes>", m->len);
				bb_append(out, m->text, m->len);
				bb_printf(out, "\n");
			}
		}
	}
}

uint64_t cl_transcript_hash(int cid)
{
	struct bytebuf b = {0};
	cl_normalised_transcript(cid, &b, 0);
	uint64_t h = hash64(b.p, b.len, (uint64_t)cid + 1);
	bb_free(&b);
	return h;
}
