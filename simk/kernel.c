/* Simulated kernel: every system call the cjet daemon makes lands here (simk_<name>). */
#define _GNU_SOURCE
#include <dlfcn.h>
#include <errno.h>
#include <execinfo.h>
#include <fcntl.h>
#include <netinet/in.h>
#include <pthread.h>
#include <semaphore.h>
#include <signal.h>
#include <stdlib.h>
#include <string.h>
#include <sys/epoll.h>
#include <sys/mman.h>
#include <sys/socket.h>
#include <sys/timerfd.h>
#include <sys/uio.h>
#include <sys/un.h>
#include <syslog.h>
#include <unistd.h>

#include "generated/cjet_config.h"
#include "simk.h"

/* ------------------------------------------------------------------ state */
enum fdkind { FD_NONE = 0, FD_SOCK, FD_LISTEN, FD_CONN, FD_EPOLL, FD_TIMER, FD_FILE };
static const char *const kind_name[] = {"none", "socket", "listener", "connection", "epoll", "timerfd", "file"};

#define FD_BASE 100
#define MAXFD 4096

struct sfd {
	enum fdkind kind;
	bool open;
	bool ever;
	int family;     /* sockets */
	int role;       /* listeners / conns */
	int cid;        /* conns */
	int flags;      /* fcntl flags */
	/* epoll registration */
	bool reg;
	void *reg_ptr;
	uint32_t reg_events;
	bool edge;
	uint64_t ready_seq;
	/* timer */
	bool armed;
	uint64_t deadline;
	uint64_t expirations;
	/* listener accept queue */
	int accq[SIM_MAXCONN];
	int accq_n;
	/* file */
	size_t pos;
};

struct chunk {
	uint8_t *data;
	size_t len, off;
};

struct sconn {
	bool used;
	int fd;
	int role;
	int origin;
	struct chunk *inq;
	int inq_n, inq_cap, inq_head;
	bool fin_in;
	bool reset;
	int reset_how;
	bool client_gone;
	struct bytebuf out;
	long window;
	long wcap_once;
	bool daemon_closed;
};

static struct sfd fds[MAXFD];
static int next_fd = FD_BASE;
static struct sconn conns[SIM_MAXCONN];
static int nconn;
static int epoll_fd_no = -1;
static uint64_t ready_counter;
static uint64_t vclock;
static uint64_t steps;
static unsigned long calls_since_handoff;

static void (*sigterm_handler)(int);
static void (*sigint_handler)(int);
static bool intr_pending;

int (*sim_batch_hook)(struct sim_ready *list, int n, int maxevents);

struct sim_baseline sim_base;

/* hygiene */
#define MAXHYG 64
static char *hyg_text[MAXHYG];
static char *hyg_key[MAXHYG];
static int hyg_n;
static int blocking_events;

/* syslog */
#define MAXLOG 512
static char *log_lines[MAXLOG];
static size_t log_n;

/* one-shot failures */
struct failspec {
	char call[20];
	int err;
	int cid;
	bool armed;
};
#define MAXFAIL 8
static struct failspec fails[MAXFAIL];

/* heap */
static long heap_allocs, heap_live, heap_fail_nth, heap_fail_gap, heap_failures;
static uint8_t fill_byte = 0xAA;
static void *heap_fail_ra;
static void *heap_fail_frames[14];
static int heap_fail_nframes;
static char heap_fail_site_buf[128];

/* file system */
static struct bytebuf fs_content;
static bool fs_exists;
static struct sim_fs_snapshot fs_snaps[256];
static int fs_nsnaps;
static long fs_write_accept = -1;
static int fs_write_errno;
#define SIM_PASSWD_PATH "/sim/passwd.json"

/* --------------------------------------------------------------- helpers */
static void hygiene(const char *key, const char *fmt, ...)
{
	char buf[512];
	va_list ap;
	va_start(ap, fmt);
	vsnprintf(buf, sizeof(buf), fmt, ap);
	va_end(ap);
	if (hyg_n < MAXHYG) {
		hyg_text[hyg_n] = strdup(buf);
		hyg_key[hyg_n] = strdup(key);
		hyg_n++;
	}
	if (xp_verbose()) {
		xp_logf("  !! descriptor hygiene: %s [%s]", buf, key);
	}
}

static bool should_fail(const char *call, int cid, int *err)
{
	for (int i = 0; i < MAXFAIL; i++) {
		if (fails[i].armed && strcmp(fails[i].call, call) == 0 && (fails[i].cid < 0 || fails[i].cid == cid)) {
			fails[i].armed = false;
			*err = fails[i].err;
			if (xp_verbose()) {
				xp_logf("  [kernel] injected failure of %s: errno %d", call, *err);
			}
			return true;
		}
	}
	return false;
}

void sim_fail_clear(const char *call)
{
	for (int i = 0; i < MAXFAIL; i++) {
		if (fails[i].armed && strcmp(fails[i].call, call) == 0) {
			fails[i].armed = false;
		}
	}
}

void sim_fail_next(const char *call, int err, int cid)
{
	for (int i = 0; i < MAXFAIL; i++) {
		if (!fails[i].armed) {
			snprintf(fails[i].call, sizeof(fails[i].call), "%s", call);
			fails[i].err = err;
			fails[i].cid = cid;
			fails[i].armed = true;
			return;
		}
	}
	xp_harness_error("too many pending injected failures");
}

static struct sfd *lookup(int fd, const char *call, bool *bad)
{
	calls_since_handoff++;
	*bad = false;
	if (fd < FD_BASE || fd >= MAXFD || !fds[fd].ever) {
		char key[96];
		snprintf(key, sizeof(key), "%s:never-open", call);
		hygiene(key, "%s(%d): descriptor was never handed out by the kernel", call, fd);
		*bad = true;
		errno = EBADF;
		return NULL;
	}
	if (!fds[fd].open) {
		char key[96];
		snprintf(key, sizeof(key), "%s:after-close:%s", call, kind_name[fds[fd].kind]);
		hygiene(key, "%s(%d): descriptor (%s) already closed by the daemon", call, fd, kind_name[fds[fd].kind]);
		*bad = true;
		errno = EBADF;
		return NULL;
	}
	return &fds[fd];
}

static int fd_limit;      /* RLIMIT_NOFILE-like bound on simultaneously open descriptors, 0 = none */
static int fd_limit_hits; /* calls refused with EMFILE because of it */
int sim_open_fds(void);

static bool fd_limit_timers_only;
void sim_set_fd_limit(int n, bool timers_only)
{
	fd_limit = n;
	fd_limit_timers_only = timers_only;
}

int sim_fd_limit_hits(void)
{
	return fd_limit_hits;
}

static int new_fd(enum fdkind kind)
{
	if (next_fd >= MAXFD) {
		xp_harness_error("simulated descriptor table exhausted");
	}
	int fd = next_fd++;
	memset(&fds[fd], 0, sizeof(fds[fd]));
	fds[fd].kind = kind;
	fds[fd].open = true;
	fds[fd].ever = true;
	fds[fd].cid = -1;
	fds[fd].flags = O_RDWR;
	return fd;
}

static void raise_edge(int fd)
{
	struct sfd *f = &fds[fd];
	if (f->open && f->reg && !f->edge) {
		f->edge = true;
		f->ready_seq = ++ready_counter;
	}
}

static uint32_t level_mask(int fd)
{
	struct sfd *f = &fds[fd];
	uint32_t m = 0;
	switch (f->kind) {
	case FD_LISTEN:
		if (f->accq_n > 0) {
			m |= EPOLLIN;
		}
		break;
	case FD_TIMER:
		if (f->expirations > 0) {
			m |= EPOLLIN;
		}
		break;
	case FD_CONN: {
		struct sconn *c = &conns[f->cid];
		if (c->reset && c->reset_how == RST_EPOLL) {
			m |= EPOLLERR | EPOLLHUP | EPOLLIN;
			break;
		}
		if (c->inq_head < c->inq_n || c->fin_in || (c->reset && c->reset_how == RST_READ)) {
			m |= EPOLLIN;
		}
		if (c->fin_in) {
			m |= EPOLLRDHUP; /* like Linux: reported (if asked for) as soon as the peer has shut down its sending side, unread data or not */
		}
		if (c->window != 0) {
			m |= EPOLLOUT;
		}
		break;
	}
	default:
		break;
	}
	return m & (f->reg_events | EPOLLERR | EPOLLHUP);
}

/* ------------------------------------------------------------ client side */
int sim_connect(enum sim_role role, enum sim_origin origin)
{
	if (nconn >= SIM_MAXCONN) {
		xp_harness_error("too many simulated connections");
	}
	int cid = nconn++;
	struct sconn *c = &conns[cid];
	memset(c, 0, sizeof(*c));
	c->used = true;
	c->fd = -1;
	c->role = role;
	c->origin = origin;
	c->window = -1;
	c->wcap_once = -1;
	/* find the listener for this role (first one; -l has two per tcp role, the v6 one comes first) */
	for (int fd = FD_BASE; fd < next_fd; fd++) {
		if (fds[fd].open && fds[fd].kind == FD_LISTEN && fds[fd].role == (int)role) {
			if ((origin == ORG_V4_LOOP || origin == ORG_V4_127_2 || origin == ORG_V4_REMOTE) && fds[fd].family != AF_INET) {
				continue;
			}
			if (!(origin == ORG_V4_LOOP || origin == ORG_V4_127_2 || origin == ORG_V4_REMOTE) && fds[fd].family == AF_INET) {
				continue;
			}
			fds[fd].accq[fds[fd].accq_n++] = cid;
			raise_edge(fd);
			return cid;
		}
	}
	xp_harness_error("no listener for role %d origin %d", role, origin);
}

static struct sconn *conn_of(int cid)
{
	if (cid < 0 || cid >= nconn) {
		xp_harness_error("bad cid %d", cid);
	}
	return &conns[cid];
}

void sim_client_send(int cid, const void *data, size_t len)
{
	struct sconn *c = conn_of(cid);
	if (len == 0 || c->client_gone) {
		return;
	}
	if (c->inq_n == c->inq_cap) {
		c->inq_cap = c->inq_cap ? c->inq_cap * 2 : 8;
		c->inq = realloc(c->inq, sizeof(*c->inq) * c->inq_cap);
	}
	struct chunk *k = &c->inq[c->inq_n++];
	k->data = malloc(len);
	memcpy(k->data, data, len);
	k->len = len;
	k->off = 0;
	if (c->fd >= 0 && !c->daemon_closed) {
		raise_edge(c->fd);
	}
}

void sim_client_fin(int cid)
{
	struct sconn *c = conn_of(cid);
	if (c->client_gone) {
		return;
	}
	c->fin_in = true;
	c->client_gone = true;
	if (c->fd >= 0 && !c->daemon_closed) {
		raise_edge(c->fd);
	}
}

void sim_client_reset(int cid, enum sim_reset_how how)
{
	struct sconn *c = conn_of(cid);
	if (c->client_gone) {
		return;
	}
	c->reset = true;
	c->reset_how = how;
	c->client_gone = true;
	if (c->fd >= 0 && !c->daemon_closed && how != RST_WRITE) {
		raise_edge(c->fd);
	}
}

void sim_client_reset_escalate(int cid)
{
	struct sconn *c = conn_of(cid);
	if (!c->reset) {
		return;
	}
	c->reset_how = RST_EPOLL;
	if (c->fd >= 0 && !c->daemon_closed) {
		raise_edge(c->fd);
	}
}

void sim_set_window(int cid, long window)
{
	struct sconn *c = conn_of(cid);
	long old = c->window;
	c->window = window;
	if (old == 0 && window != 0 && c->fd >= 0 && !c->daemon_closed) {
		raise_edge(c->fd);
	}
}

void sim_write_cap_once(int cid, long maxbytes)
{
	conn_of(cid)->wcap_once = maxbytes;
}

const struct bytebuf *sim_conn_output(int cid)
{
	return &conn_of(cid)->out;
}
bool sim_conn_accepted(int cid)
{
	return conn_of(cid)->fd >= 0;
}
bool sim_conn_closed_by_daemon(int cid)
{
	return conn_of(cid)->daemon_closed;
}
bool sim_conn_client_gone(int cid)
{
	return conn_of(cid)->client_gone;
}
int sim_conn_fd(int cid)
{
	return conn_of(cid)->fd;
}
size_t sim_conn_unread(int cid)
{
	struct sconn *c = conn_of(cid);
	size_t n = 0;
	for (int i = c->inq_head; i < c->inq_n; i++) {
		n += c->inq[i].len - c->inq[i].off;
	}
	return n;
}

/* ------------------------------------------------------------------ clock */
uint64_t sim_now(void)
{
	return vclock;
}

void sim_advance(uint64_t ns)
{
	vclock += ns;
	/* expire in deadline order so the ready order is the expiry order */
	for (;;) {
		int best = -1;
		for (int fd = FD_BASE; fd < next_fd; fd++) {
			if (fds[fd].open && fds[fd].kind == FD_TIMER && fds[fd].armed && fds[fd].deadline <= vclock) {
				if (best < 0 || fds[fd].deadline < fds[best].deadline) {
					best = fd;
				}
			}
		}
		if (best < 0) {
			break;
		}
		fds[best].armed = false;
		fds[best].expirations++;
		raise_edge(best);
	}
}

bool sim_next_deadline(uint64_t *deadline)
{
	bool found = false;
	for (int fd = FD_BASE; fd < next_fd; fd++) {
		if (fds[fd].open && fds[fd].kind == FD_TIMER && fds[fd].armed) {
			if (!found || fds[fd].deadline < *deadline) {
				*deadline = fds[fd].deadline;
				found = true;
			}
		}
	}
	return found;
}

int sim_armed_timers(void)
{
	int n = 0;
	for (int fd = FD_BASE; fd < next_fd; fd++) {
		if (fds[fd].open && fds[fd].kind == FD_TIMER && fds[fd].armed) {
			n++;
		}
	}
	return n;
}

int sim_open_fds(void)
{
	int n = 0;
	for (int fd = FD_BASE; fd < next_fd; fd++) {
		if (fds[fd].open) {
			n++;
		}
	}
	return n;
}

int sim_open_conn_cids(int *out, int max)
{
	int n = 0;
	for (int fd = FD_BASE; fd < next_fd; fd++) {
		if (fds[fd].open && fds[fd].kind == FD_CONN && n < max) {
			out[n++] = fds[fd].cid;
		}
	}
	return n;
}

void sim_open_fd_summary(char *buf, size_t len)
{
	int counts[8] = {0};
	for (int fd = FD_BASE; fd < next_fd; fd++) {
		if (fds[fd].open) {
			counts[fds[fd].kind]++;
		}
	}
	buf[0] = 0;
	for (int k = 1; k < 7; k++) {
		if (counts[k]) {
			size_t l = strlen(buf);
			snprintf(buf + l, len - l, "%s%s", l ? "+" : "", kind_name[k]);
		}
	}
}

int sim_hygiene_count(void)
{
	return hyg_n;
}
const char *sim_hygiene_event(int i)
{
	return hyg_text[i];
}
const char *sim_hygiene_key(int i)
{
	return hyg_key[i];
}
int sim_blocking_events(void)
{
	return blocking_events;
}
size_t sim_syslog_count(void)
{
	return log_n;
}
const char *sim_syslog_line(size_t i)
{
	return log_lines[i];
}
bool sim_syslog_contains(const char *needle)
{
	for (size_t i = 0; i < log_n; i++) {
		if (strstr(log_lines[i], needle) != NULL) {
			return true;
		}
	}
	return false;
}
unsigned long sim_calls_since_handoff(void)
{
	return calls_since_handoff;
}
uint64_t sim_step(void)
{
	return steps;
}

/* --------------------------------------------------- daemon thread hand-off */
static pthread_t daemon_thread;
static sem_t sem_go, sem_back;
static volatile int daemon_state; /* 0 not started, 1 running, 2 quiescent, 3 exited */
static int daemon_exit;
static char *daemon_argv[12];
static int daemon_argc;

extern int cjet_main(int argc, char **argv);

static void *daemon_entry(void *arg)
{
	(void)arg;
	optind = 1;
	daemon_exit = cjet_main(daemon_argc, daemon_argv);
	daemon_state = 3;
	sem_post(&sem_back);
	return NULL;
}

static void record_baseline(void)
{
	sim_base.alloc_size = cjet_get_alloc_size();
	sim_base.raw_live = heap_live;
	sim_base.peers = get_number_of_peers();
	sim_base.open_fds = sim_open_fds();
	sim_base.armed_timers = sim_armed_timers();
}

bool sim_boot(const struct sim_opts *opts)
{
	static char a0[] = "cjet", af[] = "-f", al[] = "-l", ap[] = "-p", apath[] = SIM_PASSWD_PATH, ar[] = "-r";
	daemon_argc = 0;
	daemon_argv[daemon_argc++] = a0;
	daemon_argv[daemon_argc++] = af;
	if (opts != NULL && opts->local_only) {
		daemon_argv[daemon_argc++] = al;
	}
	if (opts != NULL && opts->passwd_file != NULL) {
		sim_fs_set_content(opts->passwd_file, strlen(opts->passwd_file));
		daemon_argv[daemon_argc++] = ap;
		daemon_argv[daemon_argc++] = apath;
	}
	if (opts != NULL && opts->request_target != NULL) {
		daemon_argv[daemon_argc++] = ar;
		daemon_argv[daemon_argc++] = strdup(opts->request_target);
	}
	daemon_argv[daemon_argc] = NULL;
	if (opts != NULL && opts->fill_byte != 0) {
		fill_byte = opts->fill_byte;
	}
	sem_init(&sem_go, 0, 0);
	sem_init(&sem_back, 0, 0);
	daemon_state = 1;
	pthread_attr_t attr;
	pthread_attr_init(&attr);
	pthread_attr_setstacksize(&attr, 4 << 20);
	if (pthread_create(&daemon_thread, &attr, daemon_entry, NULL) != 0) {
		xp_harness_error("pthread_create failed");
	}
	while (sem_wait(&sem_back) != 0) {
	}
	if (daemon_state == 3) {
		return false;
	}
	record_baseline();
	return true;
}

static bool anything_deliverable(void)
{
	for (int fd = FD_BASE; fd < next_fd; fd++) {
		if (fds[fd].open && fds[fd].reg && fds[fd].edge && level_mask(fd) != 0) {
			return true;
		}
	}
	return false;
}

int sim_ready_count(void)
{
	int n = 0;
	for (int fd = FD_BASE; fd < next_fd; fd++) {
		if (fds[fd].open && fds[fd].reg && fds[fd].edge && level_mask(fd) != 0) {
			n++;
		}
	}
	return n;
}

void sim_settle(void)
{
	if (daemon_state != 2) {
		return;
	}
	if (!intr_pending && !anything_deliverable()) {
		return;
	}
	steps++;
	calls_since_handoff = 0;
	daemon_state = 1;
	sem_post(&sem_go);
	while (sem_wait(&sem_back) != 0) {
	}
}

bool sim_daemon_exited(void)
{
	return daemon_state == 3;
}
int sim_daemon_exit_code(void)
{
	return daemon_exit;
}

void sim_sigterm(void)
{
	if (sigterm_handler != NULL) {
		sigterm_handler(SIGTERM);
	}
	intr_pending = true;
}

/* ---------------------------------------------------------------- syscalls */
#define SPIN_LIMIT 3000000UL
static void spin_check(void)
{
	if (calls_since_handoff > SPIN_LIMIT) {
		xp_fail("livelock", "daemon made %lu kernel calls without becoming quiescent (spinning)", calls_since_handoff);
	}
}

int simk_socket(int domain, int type, int protocol)
{
	(void)type;
	(void)protocol;
	calls_since_handoff++;
	int err;
	if (should_fail("socket", -1, &err)) {
		errno = err;
		return -1;
	}
	int fd = new_fd(FD_SOCK);
	fds[fd].family = domain;
	return fd;
}

int simk_bind(int fd, const struct sockaddr *addr, socklen_t len)
{
	bool bad;
	struct sfd *f = lookup(fd, "bind", &bad);
	if (f == NULL) {
		return -1;
	}
	int err;
	if (should_fail("bind", -1, &err)) {
		errno = err;
		return -1;
	}
	(void)len;
	if (addr->sa_family == AF_UNIX) {
		f->role = ROLE_UDS;
	} else {
		int port;
		if (addr->sa_family == AF_INET6) {
			port = ntohs(((const struct sockaddr_in6 *)addr)->sin6_port);
		} else {
			port = ntohs(((const struct sockaddr_in *)addr)->sin_port);
		}
		f->role = (port == 11123) ? ROLE_HTTP : ROLE_JET;
	}
	return 0;
}

int simk_listen(int fd, int backlog)
{
	(void)backlog;
	bool bad;
	struct sfd *f = lookup(fd, "listen", &bad);
	if (f == NULL) {
		return -1;
	}
	int err;
	if (should_fail("listen", -1, &err)) {
		errno = err;
		return -1;
	}
	f->kind = FD_LISTEN;
	return 0;
}

static void fill_origin(const struct sconn *c, const struct sfd *l, struct sockaddr *addr, socklen_t *addrlen)
{
	struct sockaddr_storage ss;
	memset(&ss, 0, sizeof(ss));
	socklen_t len = 0;
	static const uint8_t v6_loop[16] = {0, 0, 0, 0, 0, 0, 0, 0, 0, 0, 0, 0, 0, 0, 0, 1};
	static const uint8_t v6_map_loop[16] = {0, 0, 0, 0, 0, 0, 0, 0, 0, 0, 0xff, 0xff, 127, 0, 0, 1};
	static const uint8_t v6_map_1272[16] = {0, 0, 0, 0, 0, 0, 0, 0, 0, 0, 0xff, 0xff, 127, 0, 0, 2};
	static const uint8_t v6_map_rem[16] = {0, 0, 0, 0, 0, 0, 0, 0, 0, 0, 0xff, 0xff, 10, 0, 0, 1};
	static const uint8_t v6_rem[16] = {0x20, 0x01, 0x0d, 0xb8, 0, 0, 0, 0, 0, 0, 0, 0, 0, 0, 0, 1};
	int origin = c->origin;
	if (origin == ORG_DEFAULT) {
		if (l->family == AF_UNIX) {
			origin = ORG_UNIX_UNNAMED;
		} else if (l->family == AF_INET) {
			origin = ORG_V4_LOOP;
		} else {
			origin = ORG_V6_MAPPED_LOOP;
		}
	}
	switch (origin) {
	case ORG_V6_LOOPBACK:
	case ORG_V6_MAPPED_LOOP:
	case ORG_V6_MAPPED_127_2:
	case ORG_V6_MAPPED_REMOTE:
	case ORG_V6_SUFFIX_127:
	case ORG_V6_PREFIXED_MAPPED:
	case ORG_V6_COMPAT_127:
	case ORG_V6_HIGH_1:
	case ORG_V6_UNSPECIFIED:
	case ORG_V6_REMOTE: {
		static const uint8_t v6_suffix127[16] = {0xfd, 0, 0, 0, 0, 0, 0, 0, 0, 0, 0, 0, 127, 0, 0, 1};
		static const uint8_t v6_prefixed[16] = {0, 1, 0, 2, 0, 3, 0, 4, 0, 5, 0xff, 0xff, 127, 0, 0, 1};
		static const uint8_t v6_compat[16] = {0, 0, 0, 0, 0, 0, 0, 0, 0, 0, 0, 0, 127, 0, 0, 1};
		static const uint8_t v6_high1[16] = {0x80, 0, 0, 0, 0, 0, 0, 0, 0, 0, 0, 0, 0, 0, 0, 1};
		static const uint8_t v6_unspec[16] = {0};
		struct sockaddr_in6 *s = (struct sockaddr_in6 *)&ss;
		s->sin6_family = AF_INET6;
		s->sin6_port = htons(40000);
		const uint8_t *a = origin == ORG_V6_LOOPBACK ? v6_loop : origin == ORG_V6_MAPPED_LOOP ? v6_map_loop : origin == ORG_V6_MAPPED_127_2 ? v6_map_1272 : origin == ORG_V6_MAPPED_REMOTE ? v6_map_rem : origin == ORG_V6_SUFFIX_127 ? v6_suffix127 : origin == ORG_V6_PREFIXED_MAPPED ? v6_prefixed : origin == ORG_V6_COMPAT_127 ? v6_compat : origin == ORG_V6_HIGH_1 ? v6_high1 : origin == ORG_V6_UNSPECIFIED ? v6_unspec : v6_rem;
		memcpy(s->sin6_addr.s6_addr, a, 16);
		len = sizeof(*s);
		break;
	}
	case ORG_V4_LOOP:
	case ORG_V4_127_2:
	case ORG_V4_REMOTE: {
		struct sockaddr_in *s = (struct sockaddr_in *)&ss;
		s->sin_family = AF_INET;
		s->sin_port = htons(40000);
		uint32_t a = origin == ORG_V4_LOOP ? 0x7f000001 : origin == ORG_V4_127_2 ? 0x7f000002 : 0x0a000001;
		s->sin_addr.s_addr = htonl(a);
		len = sizeof(*s);
		break;
	}
	case ORG_UNIX_ABSTRACT_ADV: {
		struct sockaddr_un *s = (struct sockaddr_un *)&ss;
		s->sun_family = AF_UNIX;
		/* abstract name: sun_path[0] = 0; bytes laid out so that what an in6 reader sees at the sin6_addr offset (8) is ::1 */
		memset(s->sun_path, 0, sizeof(s->sun_path));
		s->sun_path[1] = 'x';
		s->sun_path[6 + 15] = 1; /* offset 8 in the struct = sun_path[6]; +15 = last byte of the would-be address */
		len = (socklen_t)(offsetof(struct sockaddr_un, sun_path) + 6 + 16);
		break;
	}
	case ORG_UNIX_UNNAMED:
	default: {
		struct sockaddr_un *s = (struct sockaddr_un *)&ss;
		s->sun_family = AF_UNIX;
		len = sizeof(sa_family_t);
		break;
	}
	}
	if (addr != NULL && addrlen != NULL) {
		socklen_t n = *addrlen < len ? *addrlen : len;
		memcpy(addr, &ss, n);
		*addrlen = len;
	}
}

int simk_accept(int fd, struct sockaddr *addr, socklen_t *addrlen)
{
	bool bad;
	struct sfd *f = lookup(fd, "accept", &bad);
	if (f == NULL) {
		return -1;
	}
	spin_check();
	if (f->kind != FD_LISTEN) {
		hygiene("accept:not-listener", "accept(%d) on a %s", fd, kind_name[f->kind]);
		errno = EINVAL;
		return -1;
	}
	if (!(f->flags & O_NONBLOCK) && f->accq_n == 0) {
		blocking_events++;
		hygiene("accept:would-block-forever", "accept(%d) on a blocking listener with empty queue", fd);
	}
	if (f->accq_n == 0) {
		errno = EAGAIN;
		return -1;
	}
	int err;
	if (fd_limit > 0 && !fd_limit_timers_only && sim_open_fds() >= fd_limit) {
		fd_limit_hits++;
		errno = EMFILE; /* the connection stays queued */
		return -1;
	}
	if (should_fail("accept", -1, &err)) {
		if (err == ECONNABORTED) {
			/* the pending connection is consumed by an aborted accept */
			int cid = f->accq[0];
			memmove(&f->accq[0], &f->accq[1], sizeof(int) * (size_t)(f->accq_n - 1));
			f->accq_n--;
			conns[cid].client_gone = true;
			conns[cid].daemon_closed = true;
		}
		errno = err;
		return -1;
	}
	int cid = f->accq[0];
	memmove(&f->accq[0], &f->accq[1], sizeof(int) * (size_t)(f->accq_n - 1));
	f->accq_n--;
	int nfd = new_fd(FD_CONN);
	fds[nfd].cid = cid;
	fds[nfd].family = f->family;
	fds[nfd].role = f->role;
	conns[cid].fd = nfd;
	fill_origin(&conns[cid], f, addr, addrlen);
	return nfd;
}

int simk_getsockname(int fd, struct sockaddr *addr, socklen_t *addrlen)
{
	bool bad;
	struct sfd *f = lookup(fd, "getsockname", &bad);
	if (f == NULL) {
		return -1;
	}
	int err;
	if (should_fail("getsockname", f->cid, &err)) {
		errno = err;
		return -1;
	}
	struct sockaddr_storage ss;
	memset(&ss, 0, sizeof(ss));
	ss.ss_family = (sa_family_t)f->family;
	socklen_t len = f->family == AF_INET6 ? sizeof(struct sockaddr_in6) : f->family == AF_INET ? sizeof(struct sockaddr_in) : sizeof(sa_family_t);
	socklen_t n = *addrlen < len ? *addrlen : len;
	memcpy(addr, &ss, n);
	*addrlen = len;
	return 0;
}

int simk_setsockopt(int fd, int level, int optname, const void *optval, socklen_t optlen)
{
	(void)level;
	(void)optname;
	(void)optval;
	(void)optlen;
	bool bad;
	struct sfd *f = lookup(fd, "setsockopt", &bad);
	if (f == NULL) {
		return -1;
	}
	int err;
	if (should_fail("setsockopt", f->cid, &err)) {
		errno = err;
		return -1;
	}
	return 0;
}

int simk_fcntl(int fd, int cmd, ...)
{
	va_list ap;
	va_start(ap, cmd);
	int arg = va_arg(ap, int);
	va_end(ap);
	bool bad;
	struct sfd *f = lookup(fd, "fcntl", &bad);
	if (f == NULL) {
		return -1;
	}
	int err;
	if (should_fail("fcntl", f->cid, &err)) {
		errno = err;
		return -1;
	}
	if (cmd == F_GETFL) {
		return f->flags;
	}
	if (cmd == F_SETFL) {
		f->flags = arg;
		return 0;
	}
	return 0;
}

int simk_close(int fd)
{
	bool bad;
	struct sfd *f = lookup(fd, "close", &bad);
	if (f == NULL) {
		return -1;
	}
	f->open = false;
	f->reg = false;
	f->edge = false;
	f->armed = false;
	if (f->kind == FD_CONN) {
		conns[f->cid].daemon_closed = true;
	}
	if (f->kind == FD_EPOLL) {
		epoll_fd_no = -1;
	}
	if (f->kind == FD_LISTEN) {
		/* pending, never accepted connections are refused */
		for (int i = 0; i < f->accq_n; i++) {
			conns[f->accq[i]].daemon_closed = true;
		}
		f->accq_n = 0;
	}
	return 0;
}

ssize_t simk_read(int fd, void *buf, size_t count)
{
	bool bad;
	struct sfd *f = lookup(fd, "read", &bad);
	if (f == NULL) {
		return -1;
	}
	spin_check();
	if (f->kind == FD_TIMER) {
		if (f->expirations == 0) {
			errno = EAGAIN;
			return -1;
		}
		if (count < 8) {
			errno = EINVAL;
			return -1;
		}
		uint64_t v = f->expirations;
		memcpy(buf, &v, 8);
		f->expirations = 0;
		return 8;
	}
	if (f->kind != FD_CONN) {
		hygiene("read:wrong-kind", "read(%d) on a %s", fd, kind_name[f->kind]);
		errno = EINVAL;
		return -1;
	}
	struct sconn *c = &conns[f->cid];
	int err;
	if (should_fail("read", f->cid, &err)) {
		errno = err;
		return -1;
	}
	if (c->reset && c->inq_head >= c->inq_n) {
		errno = ECONNRESET;
		return -1;
	}
	if (c->inq_head >= c->inq_n) {
		if (c->fin_in) {
			return 0;
		}
		if (!(f->flags & O_NONBLOCK)) {
			blocking_events++;
			hygiene("read:would-block-on-blocking-socket", "read(%d) would block: O_NONBLOCK was not set", fd);
		}
		errno = EAGAIN;
		return -1;
	}
	struct chunk *k = &c->inq[c->inq_head];
	size_t n = k->len - k->off;
	if (n > count) {
		n = count;
	}
	memcpy(buf, k->data + k->off, n);
	k->off += n;
	if (k->off == k->len) {
		free(k->data);
		k->data = NULL;
		c->inq_head++;
	}
	return (ssize_t)n;
}

ssize_t simk_writev(int fd, const struct iovec *iov, int iovcnt)
{
	bool bad;
	struct sfd *f = lookup(fd, "writev", &bad);
	if (f == NULL) {
		return -1;
	}
	spin_check();
	if (f->kind != FD_CONN) {
		hygiene("writev:wrong-kind", "writev(%d) on a %s", fd, kind_name[f->kind]);
		errno = EINVAL;
		return -1;
	}
	struct sconn *c = &conns[f->cid];
	size_t total = 0;
	for (int i = 0; i < iovcnt; i++) {
		total += iov[i].iov_len;
	}
	int err;
	if (should_fail("writev", f->cid, &err)) {
		errno = err;
		return -1;
	}
	if (c->reset) {
		errno = EPIPE;
		return -1;
	}
	if (c->window == 0) {
		if (!(f->flags & O_NONBLOCK)) {
			blocking_events++;
			hygiene("writev:would-block-on-blocking-socket", "writev(%d) would block: O_NONBLOCK was not set", fd);
		}
		errno = EAGAIN;
		return -1;
	}
	size_t n = total;
	if (c->window > 0 && (size_t)c->window < n) {
		n = (size_t)c->window;
	}
	if (c->wcap_once >= 0) {
		if ((size_t)c->wcap_once < n) {
			n = (size_t)c->wcap_once;
		}
		c->wcap_once = -1;
	}
	size_t left = n;
	for (int i = 0; i < iovcnt && left > 0; i++) {
		size_t k = iov[i].iov_len < left ? iov[i].iov_len : left;
		bb_append(&c->out, iov[i].iov_base, k);
		left -= k;
	}
	if (c->window > 0) {
		c->window -= (long)n;
	}
	return (ssize_t)n;
}

int simk_epoll_create(int size)
{
	(void)size;
	calls_since_handoff++;
	int err;
	if (should_fail("epoll_create", -1, &err)) {
		errno = err;
		return -1;
	}
	int fd = new_fd(FD_EPOLL);
	epoll_fd_no = fd;
	return fd;
}

int simk_epoll_ctl(int epfd, int op, int fd, struct epoll_event *event)
{
	calls_since_handoff++;
	const char *opname = op == EPOLL_CTL_ADD ? "ADD" : op == EPOLL_CTL_DEL ? "DEL" : "MOD";
	if (epfd < FD_BASE || epfd >= MAXFD || !fds[epfd].ever || fds[epfd].kind != FD_EPOLL) {
		char key[96];
		const char *tk = (fd >= FD_BASE && fd < MAXFD && fds[fd].ever) ? kind_name[fds[fd].kind] : "unknown";
		snprintf(key, sizeof(key), "epoll_ctl:%s:epfd-is-not-the-epoll-descriptor:target=%s", opname, tk);
		hygiene(key, "epoll_ctl(epfd=%d, %s, fd=%d): epfd is not a descriptor of the daemon's epoll instance", epfd, opname, fd);
		errno = EBADF;
		return -1;
	}
	if (!fds[epfd].open) {
		hygiene("epoll_ctl:epfd-closed", "epoll_ctl(epfd=%d, %s, fd=%d): epoll descriptor already closed", epfd, opname, fd);
		errno = EBADF;
		return -1;
	}
	bool bad;
	struct sfd *f = lookup(fd, "epoll_ctl", &bad);
	if (f == NULL) {
		return -1;
	}
	int err;
	if (should_fail("epoll_ctl", f->cid, &err)) {
		errno = err;
		return -1;
	}
	if (op == EPOLL_CTL_ADD) {
		if (f->reg) {
			errno = EEXIST;
			return -1;
		}
		f->reg = true;
		f->reg_ptr = event->data.ptr;
		f->reg_events = event->events;
		f->edge = false;
		/* a freshly added descriptor is reported once if it is ready (level at registration time) */
		if (level_mask(fd) != 0) {
			raise_edge(fd);
		}
		return 0;
	} else if (op == EPOLL_CTL_DEL) {
		if (!f->reg) {
			errno = ENOENT;
			return -1;
		}
		f->reg = false;
		f->edge = false;
		return 0;
	}
	errno = EINVAL;
	return -1;
}

static int cmp_ready(const void *a, const void *b)
{
	const struct sim_ready *x = a, *y = b;
	uint64_t sx = fds[x->fd].ready_seq, sy = fds[y->fd].ready_seq;
	return sx < sy ? -1 : sx > sy ? 1 : 0;
}

int simk_epoll_wait(int epfd, struct epoll_event *events, int maxevents, int timeout)
{
	(void)timeout;
	bool bad;
	struct sfd *ef = lookup(epfd, "epoll_wait", &bad);
	if (ef == NULL) {
		return -1;
	}
	for (;;) {
		struct sim_ready list[MAXFD / 8];
		int n = 0;
		for (int fd = FD_BASE; fd < next_fd && n < (int)(sizeof(list) / sizeof(list[0])); fd++) {
			if (fds[fd].open && fds[fd].reg && fds[fd].edge) {
				uint32_t m = level_mask(fd);
				if (m == 0) {
					fds[fd].edge = false;
					continue;
				}
				list[n].fd = fd;
				list[n].events = m;
				n++;
			}
		}
		if (n > 0) {
			qsort(list, (size_t)n, sizeof(list[0]), cmp_ready);
			if (sim_batch_hook != NULL) {
				n = sim_batch_hook(list, n, maxevents);
			}
			if (n > maxevents) {
				n = maxevents;
			}
			for (int i = 0; i < n; i++) {
				events[i].events = list[i].events;
				events[i].data.ptr = fds[list[i].fd].reg_ptr;
				fds[list[i].fd].edge = false;
			}
			if (xp_verbose()) {
				struct bytebuf b = {0};
				for (int i = 0; i < n; i++) {
					bb_printf(&b, " fd%d(%s%s:%s%s%s)", list[i].fd, kind_name[fds[list[i].fd].kind], fds[list[i].fd].kind == FD_CONN ? "" : "",
					          (list[i].events & EPOLLIN) ? "IN" : "", (list[i].events & EPOLLOUT) ? "|OUT" : "", (list[i].events & (EPOLLERR | EPOLLHUP)) ? "|ERR" : "");
				}
				xp_logf("  [kernel] epoll_wait -> %d event(s):%s", n, b.p ? (char *)b.p : "");
				bb_free(&b);
			}
			if (n > 0) {
				return n;
			}
		}
		if (intr_pending) {
			intr_pending = false;
			errno = EINTR;
			return -1;
		}
		/* quiescent: hand control to the driver */
		daemon_state = 2;
		sem_post(&sem_back);
		while (sem_wait(&sem_go) != 0) {
		}
	}
}

int simk_timerfd_create(int clockid, int flags)
{
	(void)clockid;
	calls_since_handoff++;
	int err;
	if (should_fail("timerfd_create", -1, &err)) {
		errno = err;
		return -1;
	}
	if (fd_limit > 0 && sim_open_fds() >= fd_limit) {
		fd_limit_hits++;
		errno = EMFILE;
		return -1;
	}
	int fd = new_fd(FD_TIMER);
	fds[fd].flags |= (flags & O_NONBLOCK);
	return fd;
}

int simk_timerfd_settime(int fd, int flags, const struct itimerspec *new_value, struct itimerspec *old_value)
{
	(void)flags;
	(void)old_value;
	bool bad;
	struct sfd *f = lookup(fd, "timerfd_settime", &bad);
	if (f == NULL) {
		return -1;
	}
	if (f->kind != FD_TIMER) {
		hygiene("timerfd_settime:wrong-kind", "timerfd_settime(%d) on a %s", fd, kind_name[f->kind]);
		errno = EINVAL;
		return -1;
	}
	int err;
	if (should_fail("timerfd_settime", -1, &err)) {
		errno = err;
		return -1;
	}
	if (new_value->it_value.tv_nsec < 0 || new_value->it_value.tv_nsec > 999999999L || new_value->it_value.tv_sec < 0) {
		errno = EINVAL;
		return -1;
	}
	uint64_t v = (uint64_t)new_value->it_value.tv_sec * 1000000000ULL + (uint64_t)new_value->it_value.tv_nsec;
	f->expirations = 0;
	if (v == 0) {
		f->armed = false;
	} else {
		f->armed = true;
		f->deadline = (v > UINT64_MAX - vclock) ? UINT64_MAX : vclock + v;
	}
	return 0;
}

typedef void (*sighandler_fn)(int);
sighandler_fn simk_signal(int signum, sighandler_fn handler)
{
	calls_since_handoff++;
	sighandler_fn old = SIG_DFL;
	if (signum == SIGTERM) {
		old = sigterm_handler ? sigterm_handler : SIG_DFL;
		sigterm_handler = (handler == SIG_DFL || handler == SIG_IGN) ? NULL : handler;
	} else if (signum == SIGINT) {
		old = sigint_handler ? sigint_handler : SIG_DFL;
		sigint_handler = (handler == SIG_DFL || handler == SIG_IGN) ? NULL : handler;
	}
	return old;
}
sighandler_fn simk___sysv_signal(int signum, sighandler_fn handler)
{
	return simk_signal(signum, handler);
}

int simk_unlink(const char *path)
{
	(void)path;
	calls_since_handoff++;
	return 0;
}

int simk_daemon(int nochdir, int noclose)
{
	(void)nochdir;
	(void)noclose;
	return 0;
}

void simk_syslog(int priority, const char *fmt, ...)
{
	(void)priority;
	char buf[512];
	va_list ap;
	va_start(ap, fmt);
	vsnprintf(buf, sizeof(buf), fmt, ap);
	va_end(ap);
	if (log_n < MAXLOG) {
		log_lines[log_n++] = strdup(buf);
	}
	if (xp_verbose()) {
		size_t l = strlen(buf);
		while (l > 0 && buf[l - 1] == '\n') {
			buf[--l] = 0;
		}
		xp_logf("  [syslog] %s", buf);
	}
}

/* random source: /dev/urandom replaced by a deterministic stream */
static uint64_t rnd_state = 0x243f6a8885a308d3ULL;
static int rnd_file_token;
static uint8_t rnd_script[64];
static size_t rnd_script_len, rnd_script_pos;
void sim_random_script(const uint8_t *bytes, size_t n)
{
	rnd_script_len = n > sizeof(rnd_script) ? sizeof(rnd_script) : n;
	memcpy(rnd_script, bytes, rnd_script_len);
	rnd_script_pos = 0;
}
FILE *simk_fopen(const char *path, const char *mode)
{
	(void)mode;
	if (strcmp(path, "/dev/urandom") == 0) {
		return (FILE *)&rnd_file_token;
	}
	errno = ENOENT;
	return NULL;
}
size_t simk_fread(void *ptr, size_t size, size_t nmemb, FILE *stream)
{
	if (stream != (FILE *)&rnd_file_token) {
		return 0;
	}
	uint8_t *p = ptr;
	for (size_t i = 0; i < size * nmemb; i++) {
		if (rnd_script_pos < rnd_script_len) {
			p[i] = rnd_script[rnd_script_pos++]; /* bytes dictated by the driver come first */
			continue;
		}
		rnd_state = rnd_state * 6364136223846793005ULL + 1442695040888963407ULL;
		p[i] = (uint8_t)(rnd_state >> 56);
	}
	return nmemb;
}
int simk_fclose(FILE *stream)
{
	(void)stream;
	return 0;
}
void sim_seed_random(uint64_t seed);
void sim_seed_random(uint64_t seed)
{
	rnd_state = seed * 0x9e3779b97f4a7c15ULL + 0x243f6a8885a308d3ULL;
}

/* ------------------------------------------------------------------- heap */
void sim_heap_fail_nth(long nth)
{
	heap_fail_nth = nth;
	heap_fail_gap = 0;
	heap_failures = 0;
	heap_fail_ra = NULL;
	heap_fail_site_buf[0] = 0;
}
void sim_heap_fail_second(long gap)
{
	heap_fail_gap = gap;
}
long sim_heap_failures(void)
{
	return heap_failures;
}
long sim_heap_allocs(void)
{
	return heap_allocs;
}
long sim_heap_live(void)
{
	return heap_live;
}
void sim_set_fill(uint8_t b)
{
	fill_byte = b;
}

static size_t heap_peak;
size_t sim_heap_accounted_peak(void);
size_t sim_heap_accounted_peak(void)
{
	return heap_peak;
}

static bool heap_should_fail(void *ra)
{
	heap_allocs++;
	/* the daemon's own accounting is sampled at every allocation: it must never exceed the configured cap */
	size_t acc = cjet_get_alloc_size();
	if (acc > heap_peak) {
		heap_peak = acc;
		if (acc > (size_t)CONFIG_MAX_HEAPSIZE_IN_KBYTE * 1024) {
			hygiene("heap-cap-exceeded", "accounted heap %zu exceeds the configured cap of %zu KiB", acc, (size_t)CONFIG_MAX_HEAPSIZE_IN_KBYTE);
		}
	}
	if (heap_fail_nth > 0) {
		if (--heap_fail_nth == 0) {
			if (heap_failures++ == 0) {
				heap_fail_ra = ra; /* the site of the FIRST failure names the finding */
				heap_fail_nframes = backtrace(heap_fail_frames, 14);
			}
			heap_fail_nth = heap_fail_gap; /* a second failure that many allocations later (0 = none) */
			heap_fail_gap = 0;
			return true;
		}
	}
	return false;
}

void *simk_malloc(size_t size)
{
	if (heap_should_fail(__builtin_return_address(0))) {
		errno = ENOMEM;
		return NULL;
	}
	void *p = malloc(size);
	if (p != NULL) {
		memset(p, fill_byte, size);
		heap_live++;
	}
	return p;
}

void *simk_calloc(size_t n, size_t size)
{
	if (heap_should_fail(__builtin_return_address(0))) {
		errno = ENOMEM;
		return NULL;
	}
	void *p = calloc(n, size);
	if (p != NULL) {
		heap_live++;
	}
	return p;
}

void *simk_realloc(void *old, size_t size)
{
	if (heap_should_fail(__builtin_return_address(0))) {
		errno = ENOMEM;
		return NULL;
	}
	void *p = realloc(old, size);
	if (p != NULL && old == NULL) {
		heap_live++;
	}
	return p;
}

void simk_free(void *p)
{
	if (p != NULL) {
		heap_live--;
	}
	free(p);
}

const char *sim_heap_fail_site(void)
{
	if (heap_fail_ra == NULL) {
		return "";
	}
	if (heap_fail_site_buf[0] == 0) {
		/* name of the first function on the failing allocation's call stack that is neither the harness, the daemon's
		 * allocator wrapper nor the JSON library: that is the call site whose unwinding is being tested */
		Dl_info info;
		uintptr_t base = 0;
		if (dladdr((void *)(uintptr_t)sim_heap_fail_site, &info) != 0 && info.dli_fbase != NULL) {
			base = (uintptr_t)info.dli_fbase;
		}
		char exe[256], cmd[900];
		ssize_t n = readlink("/proc/self/exe", exe, sizeof(exe) - 1);
		snprintf(heap_fail_site_buf, sizeof(heap_fail_site_buf), "?");
		if (n > 0) {
			exe[n] = 0;
			int len = snprintf(cmd, sizeof(cmd), "addr2line -f -e %s", exe);
			for (int i = 0; i < heap_fail_nframes; i++) {
				uintptr_t a = (uintptr_t)heap_fail_frames[i] - 1;
				len += snprintf(cmd + len, sizeof(cmd) - (size_t)len, " 0x%lx", (unsigned long)(a >= base ? a - base : a));
			}
			snprintf(cmd + len, sizeof(cmd) - (size_t)len, " 2>/dev/null");
			FILE *p = popen(cmd, "r");
			if (p != NULL) {
				char fn[200], file[300];
				while (fgets(fn, sizeof(fn), p) != NULL && fgets(file, sizeof(file), p) != NULL) {
					fn[strcspn(fn, "\r\n")] = 0;
					if (strstr(file, "/simk/") != NULL || strstr(file, "alloc.c") != NULL || strstr(file, "cJSON.c") != NULL || strstr(file, "jet_string.c") != NULL || strstr(file, "zlib/") != NULL || fn[0] == '?') {
						continue;
					}
					snprintf(heap_fail_site_buf, sizeof(heap_fail_site_buf), "%s", fn);
					break;
				}
				pclose(p);
			}
		}
	}
	return heap_fail_site_buf;
}

/* ------------------------------------------------------------ file system */
void sim_fs_set_content(const void *data, size_t len)
{
	bb_reset(&fs_content);
	bb_append(&fs_content, data, len);
	fs_exists = true;
}
const struct bytebuf *sim_fs_content(void)
{
	return &fs_content;
}
int sim_fs_snapshots(void)
{
	return fs_nsnaps;
}
const struct sim_fs_snapshot *sim_fs_snapshot(int i)
{
	return &fs_snaps[i];
}
void sim_fs_clear_snapshots(void)
{
	for (int i = 0; i < fs_nsnaps; i++) {
		free(fs_snaps[i].data);
	}
	fs_nsnaps = 0;
}
void sim_fs_write_policy(long accept_at_most, int fail_errno)
{
	fs_write_accept = accept_at_most;
	fs_write_errno = fail_errno;
}
static void fs_snapshot(const char *after)
{
	if (fs_nsnaps >= (int)(sizeof(fs_snaps) / sizeof(fs_snaps[0]))) {
		return;
	}
	struct sim_fs_snapshot *s = &fs_snaps[fs_nsnaps++];
	s->data = malloc(fs_content.len + 1);
	memcpy(s->data, fs_content.p, fs_content.len);
	s->data[fs_content.len] = 0;
	s->len = fs_content.len;
	s->after = after;
}

char *simk_realpath(const char *path, char *resolved)
{
	calls_since_handoff++;
	(void)resolved;
	if (strcmp(path, SIM_PASSWD_PATH) != 0 || !fs_exists) {
		errno = ENOENT;
		return NULL;
	}
	char *r = simk_malloc(strlen(path) + 1);
	if (r != NULL) {
		strcpy(r, path);
	}
	return r;
}

int simk_open(const char *path, int flags, ...)
{
	(void)flags;
	calls_since_handoff++;
	int err;
	if (should_fail("open", -1, &err)) {
		errno = err;
		return -1;
	}
	if (strcmp(path, SIM_PASSWD_PATH) != 0 || !fs_exists) {
		errno = ENOENT;
		return -1;
	}
	int fd = new_fd(FD_FILE);
	return fd;
}

off_t simk_lseek(int fd, off_t offset, int whence)
{
	bool bad;
	struct sfd *f = lookup(fd, "lseek", &bad);
	if (f == NULL) {
		return -1;
	}
	if (f->kind != FD_FILE) {
		errno = ESPIPE;
		return -1;
	}
	if (whence == SEEK_END) {
		f->pos = fs_content.len + (size_t)offset;
	} else if (whence == SEEK_SET) {
		f->pos = (size_t)offset;
	} else {
		f->pos += (size_t)offset;
	}
	return (off_t)f->pos;
}

struct mapping {
	void *addr;
	size_t len;
};
static struct mapping maps[8];

void *simk_mmap(void *addr, size_t length, int prot, int flags, int fd, off_t offset)
{
	(void)addr;
	(void)prot;
	(void)flags;
	(void)offset;
	bool bad;
	struct sfd *f = lookup(fd, "mmap", &bad);
	if (f == NULL) {
		return MAP_FAILED;
	}
	int err;
	if (should_fail("mmap", -1, &err)) {
		errno = err;
		return MAP_FAILED;
	}
	if (length == 0) {
		errno = EINVAL;
		return MAP_FAILED;
	}
	size_t rounded = (length + 4095) & ~(size_t)4095;
	void *p = mmap(NULL, rounded, PROT_READ | PROT_WRITE, MAP_PRIVATE | MAP_ANONYMOUS, -1, 0);
	if (p == MAP_FAILED) {
		return p;
	}
	memcpy(p, fs_content.p, fs_content.len < length ? fs_content.len : length);
	mprotect(p, rounded, PROT_READ);
	for (size_t i = 0; i < sizeof(maps) / sizeof(maps[0]); i++) {
		if (maps[i].addr == NULL) {
			maps[i].addr = p;
			maps[i].len = rounded;
			break;
		}
	}
	return p;
}

int simk_munmap(void *addr, size_t length)
{
	calls_since_handoff++;
	(void)length;
	for (size_t i = 0; i < sizeof(maps) / sizeof(maps[0]); i++) {
		if (maps[i].addr == addr && addr != NULL) {
			munmap(addr, maps[i].len);
			maps[i].addr = NULL;
			return 0;
		}
	}
	hygiene("munmap:not-mapped", "munmap(%p): no such mapping", addr);
	errno = EINVAL;
	return -1;
}

int simk_ftruncate(int fd, off_t length)
{
	bool bad;
	struct sfd *f = lookup(fd, "ftruncate", &bad);
	if (f == NULL) {
		return -1;
	}
	int err;
	if (should_fail("ftruncate", -1, &err)) {
		errno = err;
		return -1;
	}
	if (f->kind != FD_FILE) {
		errno = EINVAL;
		return -1;
	}
	if ((size_t)length < fs_content.len) {
		fs_content.len = (size_t)length;
	} else {
		while (fs_content.len < (size_t)length) {
			uint8_t z = 0;
			bb_append(&fs_content, &z, 1);
		}
	}
	fs_snapshot("ftruncate");
	return 0;
}

ssize_t simk_write(int fd, const void *buf, size_t count)
{
	bool bad;
	struct sfd *f = lookup(fd, "write", &bad);
	if (f == NULL) {
		return -1;
	}
	spin_check();
	if (f->kind == FD_CONN) {
		struct iovec iov = {.iov_base = (void *)(uintptr_t)buf, .iov_len = count};
		return simk_writev(fd, &iov, 1);
	}
	if (f->kind != FD_FILE) {
		errno = EINVAL;
		return -1;
	}
	if (fs_write_errno != 0 && fs_write_accept < 0) {
		int e = fs_write_errno;
		fs_write_errno = 0;
		errno = e;
		return -1;
	}
	size_t n = count;
	if (fs_write_accept >= 0) {
		/* a short write; an errno given together with it is reported by the write after this one */
		if ((size_t)fs_write_accept < n) {
			n = (size_t)fs_write_accept;
		}
		fs_write_accept = -1;
	}
	/* write n bytes at pos */
	while (fs_content.len < f->pos) {
		uint8_t z = 0;
		bb_append(&fs_content, &z, 1);
	}
	for (size_t i = 0; i < n; i++) {
		if (f->pos + i < fs_content.len) {
			fs_content.p[f->pos + i] = ((const uint8_t *)buf)[i];
		} else {
			bb_append(&fs_content, (const uint8_t *)buf + i, 1);
		}
	}
	f->pos += n;
	fs_snapshot("write");
	return (ssize_t)n;
}

/* privileges: never exercised (no -u), but keep the daemon linkable without touching the real process */
struct passwd;
struct passwd *simk_getpwnam(const char *name)
{
	(void)name;
	return NULL;
}
int simk_setuid(unsigned int uid)
{
	(void)uid;
	return 0;
}
int simk_setgid(unsigned int gid)
{
	(void)gid;
	return 0;
}
